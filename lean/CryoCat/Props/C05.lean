import CryoCat.Model.C05
import CryoCat.Lemmas.C05
import CryoCat.Lemmas.C05_Euler
import CryoCat.Lemmas.C05_History
/-! C05 — pose bookkeeping: property theorems (only theorems and non-vacuity examples).

`S : Svc α` bundles the numeric services the code takes from scipy / decimal (cos/sin in degrees,
`as_euler`, rounding). What is assumed about them is always an explicit hypothesis:
`CsOdd S` (cos even, sin odd — used by `flip_handedness` only), `EulerOK S m` (the triple `as_euler`
returns for the ONE matrix `m` reproduces it — used by `apply_rotation` only) and, for the bound
|shift| ≤ 1/2, that `S.rnd` is within 1/2 of its argument (proved for `roundHalfUp`). -/
namespace CryoCat.C05
open CryoCat
set_option linter.unusedSectionVars false

/-! ### translator obligations: the anchored source expressions are the documented ones -/

theorem anchors_ok : Gen.C05.anchorsOk = true := by decide

/-- `get_coordinates` adds the shift columns to x, y, z -/
theorem coordinates_are_x_plus_shift :
    Gen.C05.coordColumns = ["x", "y", "z"] ∧ Gen.C05.shiftColumns = ["shift_x", "shift_y", "shift_z"] := by decide

/-- `update_coordinates` rounds x+shift_x, y+shift_y, z+shift_z, each with ROUND_HALF_UP … -/
theorem update_rounds_half_up :
    Gen.C05.updateRounded = [("x", "x", "shift_x", "ROUND_HALF_UP"), ("y", "y", "shift_y", "ROUND_HALF_UP"),
                             ("z", "z", "shift_z", "ROUND_HALF_UP")] := by decide

/-- … and stores (sum − new coordinate) as the new shift -/
theorem update_keeps_residual :
    Gen.C05.updateResidual = [("shift_x", "x", "shift_x", "x", true), ("shift_y", "y", "shift_y", "y", true),
                              ("shift_z", "z", "shift_z", "z", true)] := by decide

theorem scale_columns : Gen.C05.scaleCoords = ["x", "y", "z"] ∧ Gen.C05.scaleShiftPrefix = "shift_" := by decide

/-- every Euler conversion is extrinsic "zxz" in degrees -/
theorem euler_convention :
    Gen.C05.eulerCalls = [("apply_rotation.from_euler", "zxz", "degrees"), ("apply_rotation.as_euler", "zxz", "degrees"),
                          ("shift_positions.from_euler", "zxz", "degrees"), ("get_rotations.from_euler", "zxz", "degrees")] := by decide

theorem angle_columns : Gen.C05.angleColumns = List.replicate 5 ["phi", "theta", "psi"] := by decide

/-- `apply_rotation` forms `from_euler(angles) * rotation` -/
theorem rotation_on_right : Gen.C05.rotationOnRight = true := by decide

theorem shift_targets : Gen.C05.shiftTargets = [("shift_x", 0), ("shift_y", 1), ("shift_z", 2)] := by decide

/-- `flip_handedness`: theta negated; in both branches z_dim = dim_z + 1, z ↦ z_dim − z, shift_z ↦ −shift_z -/
theorem flip_source_form :
    Gen.C05.flipOffset = 1 ∧ Gen.C05.flipNegatesTheta = true ∧ Gen.C05.flipMirrorBranches = 2 ∧
    Gen.C05.flipShiftBranches = 2 := by decide

/-- with dimensions, `flip_handedness` converts the z column to floating point exactly once, before either mirror branch
(the mirrored coordinate is a float; a `.loc[…, "z"] = floats` assignment into an integer-typed column raises under pandas 3) -/
theorem flip_makes_z_float : Gen.C05.flipFloatCasts = 1 := by decide

/-- names and default values of the parameters of every function the adapter calls: `shift_positions(shift, inplace=True)`,
`flip_handedness(tomo_dimensions=None)`, `get_coordinates/get_angles/get_rotations(tomo_number=None)`,
`dimensions_load(input_dims, tomo_idx=None)` — the correspondence run omits these keywords in a share of its calls -/
theorem signatures_documented : Gen.C05.signatures =
    [("Motl.get_coordinates", "tomo_number", "None"), ("Motl.get_angles", "tomo_number", "None"),
     ("Motl.get_rotations", "tomo_number", "None"), ("Motl.update_coordinates", "", ""),
     ("Motl.scale_coordinates", "scaling_factor", ""), ("Motl.shift_positions", "shift", ""),
     ("Motl.shift_positions", "inplace", "True"), ("Motl.apply_rotation", "rotation", ""),
     ("Motl.flip_handedness", "tomo_dimensions", "None"), ("dimensions_load", "input_dims", ""),
     ("dimensions_load", "tomo_idx", "None"), ("imod_com_read", "filename", "")] := by decide

/-! whole bodies of the anchored functions in canonical form (anchors, not clauses of the statement): docstrings, decorators and
type annotations dropped, the texts of exception / warning messages replaced by `<message>`, `not (a is None)` written
`a is not None`, local names replaced by v0, v1, … in the order of their first binding occurrence in the source. An added early
return, a hoisted statement, a swapped branch changes these; renaming a local, adding a type hint or rewording a message does not. -/
/-- `get_coordinates`: x y z values + shift values, for all particles or those of one tomogram (canonical form, see above) -/
theorem get_coordinates_body_documented : Gen.C05.getCoordinatesBody = [
  "def get_coordinates(self, v0=None):",
  "    if v0 is None:",
  "        v1 = self.df.loc[:, ['x', 'y', 'z']].values + self.df.loc[:, ['shift_x', 'shift_y', 'shift_z']].values",
  "    else:",
  "        v1 = self.df.loc[self.df.loc[:, 'tomo_id'] == v0, ['x', 'y', 'z']].values + self.df.loc[self.df.loc[:, 'tomo_id'] == v0, ['shift_x', 'shift_y', 'shift_z']].values",
  "    return v1"] := rfl

/-- `get_angles`: the phi, theta, psi columns, for all particles or those of one tomogram (canonical form, see above) -/
theorem get_angles_body_documented : Gen.C05.getAnglesBody = [
  "def get_angles(self, v0=None):",
  "    if v0 is None:",
  "        v1 = self.df.loc[:, ['phi', 'theta', 'psi']].values",
  "    else:",
  "        v1 = self.df.loc[self.df.loc[:, 'tomo_id'] == v0, ['phi', 'theta', 'psi']].values",
  "    return np.atleast_2d(v1)"] := rfl

/-- `get_rotations`: from_euler("zxz", get_angles, degrees) (empty list for an empty selection) (canonical form, see above) -/
theorem get_rotations_body_documented : Gen.C05.getRotationsBody = [
  "def get_rotations(self, v0=None):",
  "    v1 = self.get_angles(v0)",
  "    if v1.shape[0] == 0:",
  "        return []",
  "    v2 = rot.from_euler('zxz', v1, degrees=True)",
  "    return v2"] := rfl

/-- `update_coordinates`: the whole body (no early return, no extra statement) (canonical form, see above) -/
theorem update_body_documented : Gen.C05.updateBody = [
  "def update_coordinates(self):",
  "    def v0(v1):",
  "        v2 = v1.copy()",
  "        v3 = v1['x'] + v1['shift_x']",
  "        v4 = v1['y'] + v1['shift_y']",
  "        v5 = v1['z'] + v1['shift_z']",
  "        v2['x'] = float(decimal.Decimal(float(v3)).to_integral_value(rounding=decimal.ROUND_HALF_UP))",
  "        v2['y'] = float(decimal.Decimal(float(v4)).to_integral_value(rounding=decimal.ROUND_HALF_UP))",
  "        v2['z'] = float(decimal.Decimal(float(v5)).to_integral_value(rounding=decimal.ROUND_HALF_UP))",
  "        v2['shift_x'] = v3 - v2['x']",
  "        v2['shift_y'] = v4 - v2['y']",
  "        v2['shift_z'] = v5 - v2['z']",
  "        return v2",
  "    self.df = self.df.apply(v0, axis=1)",
  "    warnings.warn('<message>')"] := rfl

/-- `scale_coordinates`: the whole body (canonical form, see above) -/
theorem scale_body_documented : Gen.C05.scaleBody = [
  "def scale_coordinates(self, v0):",
  "    for v1 in ('x', 'y', 'z'):",
  "        self.df[v1] = self.df[v1] * v0",
  "        v2 = 'shift_' + v1",
  "        self.df[v2] = self.df[v2] * v0"] := rfl

/-- `shift_positions`: the whole body — row function (row made floating point first), both entry points, index reset (canonical form, see above) -/
theorem shift_body_documented : Gen.C05.shiftBody = [
  "def shift_positions(self, v0, v1=True):",
  "    def v2(v3):",
  "        v3 = v3.astype(float)",
  "        v4 = np.array(v0)",
  "        v5 = np.array([[v3['phi'], v3['theta'], v3['psi']]])",
  "        v6 = rot.from_euler(seq='zxz', angles=v5, degrees=True)",
  "        v7 = v6.apply(v4)",
  "        v3['shift_x'] = v3['shift_x'] + v7[0][0]",
  "        v3['shift_y'] = v3['shift_y'] + v7[0][1]",
  "        v3['shift_z'] = v3['shift_z'] + v7[0][2]",
  "        return v3",
  "    if v1:",
  "        self.df = self.df.apply(v2, axis=1).reset_index(drop=True)",
  "    else:",
  "        v8 = copy.deepcopy(self)",
  "        v8.df = v8.df.apply(v2, axis=1).reset_index(drop=True)",
  "        return v8"] := rfl

/-- `apply_rotation`: the whole body; the three angle columns are assigned as a whole (integer-typed columns become float) (canonical form, see above) -/
theorem rotate_body_documented : Gen.C05.rotateBody = [
  "def apply_rotation(self, v0):",
  "    if not isinstance(v0, rot):",
  "        raise ValueError('<message>')",
  "    v1 = self.df.loc[:, ['phi', 'theta', 'psi']].to_numpy()",
  "    v2 = rot.from_euler('zxz', v1, degrees=True)",
  "    v3 = v2 * v0",
  "    v1 = v3.as_euler('zxz', degrees=True)",
  "    self.df[['phi', 'theta', 'psi']] = v1"] := rfl

/-- `flip_handedness`: the whole body — theta, z made floating point, then per branch mirror plane, z and shift_z (canonical form, see above) -/
theorem flip_body_documented : Gen.C05.flipBody = [
  "def flip_handedness(self, v0=None):",
  "    self.df.loc[:, 'theta'] = -self.df.loc[:, 'theta']",
  "    if v0 is not None:",
  "        v1 = ioutils.dimensions_load(v0)",
  "        self.df['z'] = self.df['z'].astype(float)",
  "        if v1.shape == (1, 3):",
  "            v2 = float(v1['z'].iloc[0]) + 1",
  "            self.df.loc[:, 'z'] = v2 - self.df.loc[:, 'z']",
  "            self.df.loc[:, 'shift_z'] = -self.df.loc[:, 'shift_z']",
  "        else:",
  "            v3 = v1['tomo_id'].unique()",
  "            for v4 in v3:",
  "                v2 = float(v1.loc[v1['tomo_id'] == v4, 'z'].iloc[0]) + 1",
  "                self.df.loc[self.df['tomo_id'] == v4, 'z'] = v2 - self.df.loc[self.df['tomo_id'] == v4, 'z']",
  "                self.df.loc[self.df['tomo_id'] == v4, 'shift_z'] = -self.df.loc[self.df['tomo_id'] == v4, 'shift_z']"] := rfl

/-- `ioutils.dimensions_load`: every input form (DataFrame as is, .com, text file, any array-like through np.asarray) and the column naming (canonical form, see above) -/
theorem dimensions_load_body_documented : Gen.C05.dimensionsLoadBody = [
  "def dimensions_load(v0, v1=None):",
  "    if isinstance(v0, pd.DataFrame):",
  "        v2 = v0",
  "    elif isinstance(v0, str):",
  "        if v0.endswith('.com'):",
  "            v3 = imod_com_read(v0)",
  "            v2 = np.zeros((1, 3))",
  "            v2[0, 0:2] = v3['FULLIMAGE']",
  "            v2[0, 2] = v3['THICKNESS'][0]",
  "            v2 = pd.DataFrame(v2)",
  "        elif os.path.isfile(v0):",
  "            v2 = pd.read_csv(v0, sep='\\\\s+', header=None, dtype=float)",
  "        else:",
  "            raise ValueError('<message>')",
  "    else:",
  "        v0 = np.asarray(v0)",
  "        if v0.ndim == 1:",
  "            v0 = np.reshape(v0, (1, v0.shape[0]))",
  "        v2 = pd.DataFrame(v0)",
  "    if v2.shape == (1, 3):",
  "        v2.columns = ['x', 'y', 'z']",
  "    elif v2.shape[1] == 4:",
  "        v2.columns = ['tomo_id', 'x', 'y', 'z']",
  "    else:",
  "        raise ValueError('<message>')",
  "    if v1 is not None:",
  "        v4 = tlt_load(v1).astype(int)",
  "        if 'tomo_id' not in v2.columns:",
  "            v5 = np.repeat(v2[['x', 'y', 'z']].values, len(v4), axis=0)",
  "            v2 = pd.DataFrame(v5, columns=['x', 'y', 'z'])",
  "            v2['tomo_id'] = v4",
  "    return v2"] := rfl

/-- `ioutils.imod_com_read` (the .com path of `dimensions_load`): comment / command lines skipped, first word = key, numbers typed (canonical form, see above) -/
theorem imod_com_read_body_documented : Gen.C05.imodComReadBody = [
  "def imod_com_read(v0):",
  "    v1 = {}",
  "    with open(v0, 'r') as v2:",
  "        for v3 in v2:",
  "            if v3.startswith('#') or v3.startswith('$'):",
  "                continue",
  "            v4 = v3.split()",
  "            v5 = v4[0]",
  "            v6 = [int(v7) if v7.isdigit() else float(v7) if is_float(v7) else v7 for v7 in v4[1:]]",
  "            v1[v5] = v6",
  "    return v1"] := rfl

/-! ### update_coordinates -/
section ring
variable {α : Type} [CommRing α] [DecidableEq α] (S : Svc α)

/-- the complete position is never changed -/
theorem update_pos (p : Particle α) : pos (updateP S p) = pos p := by
  ext <;> simp only [pos, updateP] <;> ring

/-- x, y, z become integers -/
theorem update_integral (p : Particle α) :
    ∃ i j k : Int, (updateP S p).x = (i : α) ∧ (updateP S p).y = (j : α) ∧ (updateP S p).z = (k : α) :=
  ⟨_, _, _, rfl, rfl, rfl⟩

/-- nothing else moves: the whole pose (position, orientation, tomogram) is unchanged -/
theorem update_pose (p : Particle α) : absPose S (updateP S p) = absPose S p := by
  simp only [absPose, update_pos]; rfl

/-- updating twice is updating once -/
theorem update_idem (p : Particle α) : updateP S (updateP S p) = updateP S p := by
  have h : ∀ (a : α) (n : α), n + (a - n) = a := by intro a n; ring
  simp only [updateP, h]

end ring

section ordered
variable {α : Type} [_root_.Field α] [LinearOrder α] [IsStrictOrderedRing α] (S : Svc α)

/-- |shift| ≤ 1/2 after the update, for any rounding that stays within 1/2 of its argument -/
theorem update_shift_le_half (hr : ∀ v : α, |v - ((S.rnd v : Int) : α)| ≤ 1/2) (p : Particle α) :
    |(updateP S p).shift_x| ≤ 1/2 ∧ |(updateP S p).shift_y| ≤ 1/2 ∧ |(updateP S p).shift_z| ≤ 1/2 :=
  ⟨hr _, hr _, hr _⟩

end ordered

/-- ROUND_HALF_UP (half away from zero) stays within 1/2: both signs, ties included -/
theorem roundHalfUp_within_half (q : Rat) : |q - (roundHalfUp q : Rat)| ≤ 1/2 := roundHalfUp_close q

/-- ties: n + 1/2 ↦ n + 1 and −(n + 1/2) ↦ −(n + 1) for n ≥ 0; integers are fixed -/
theorem roundHalfUp_ties (n : Int) (hn : 0 ≤ n) :
    roundHalfUp ((n : Rat) + 1/2) = n + 1 ∧ roundHalfUp (-((n : Rat) + 1/2)) = -(n + 1) ∧ roundHalfUp (n : Rat) = n :=
  ⟨roundHalfUp_tie_pos n hn, roundHalfUp_tie_neg n hn, roundHalfUp_int n⟩

/-- **update_coordinates with the rounding the code uses**: complete position unchanged, x y z
integers, |shift| ≤ 1/2 — all particles, positions and shifts of either sign, ties included. -/
theorem update_spec (S : Svc Rat) (hS : S.rnd = roundHalfUp) (p : Particle Rat) :
    pos (updateP S p) = pos p ∧
    (∃ i j k : Int, (updateP S p).x = (i : Rat) ∧ (updateP S p).y = (j : Rat) ∧ (updateP S p).z = (k : Rat)) ∧
    |(updateP S p).shift_x| ≤ 1/2 ∧ |(updateP S p).shift_y| ≤ 1/2 ∧ |(updateP S p).shift_z| ≤ 1/2 :=
  ⟨update_pos S p, update_integral S p,
   update_shift_le_half S (by intro v; rw [hS]; exact roundHalfUp_close v) p⟩

/-! ### scale_coordinates, shift_positions, apply_rotation, flip_handedness -/
section ring2
variable {α : Type} [CommRing α] [DecidableEq α] (S : Svc α)

/-- the complete position is multiplied by the factor -/
theorem scale_pos (f : α) (p : Particle α) : pos (scaleP f p) = V3.smul f (pos p) := by
  ext <;> simp only [pos, scaleP, V3.smul] <;> ring

theorem scale_orient (f : α) (p : Particle α) : orient S (scaleP f p) = orient S p := rfl

/-- each particle moves by its own orientation applied to the shift vector -/
theorem shift_pos (v : V3 α) (p : Particle α) : pos (shiftP S v p) = pos p + (orient S p).apply v := by
  ext <;> simp only [pos, shiftP, V3.add_def, V3.add] <;> ring

theorem shift_orient (v : V3 α) (p : Particle α) : orient S (shiftP S v p) = orient S p := rfl

/-- s₁ then s₂ is s₁ + s₂ (equality of the whole particle records) -/
theorem shift_shift (v₁ v₂ : V3 α) (p : Particle α) : shiftP S v₂ (shiftP S v₁ p) = shiftP S (v₁ + v₂) p := by
  have ho : ∀ a b c : α, orient S { p with shift_x := a, shift_y := b, shift_z := c } = orient S p := fun _ _ _ => rfl
  unfold shiftP
  simp only [ho, M3.apply, V3.add_def, V3.add]
  congr 1 <;> ring

/-- `apply_rotation(Q)` does not move anything -/
theorem rotate_pos (q : M3 α) (p : Particle α) : pos (rotateP S q p) = pos p := rfl

/-- `apply_rotation(Q)` replaces the orientation R by R·Q (Q first), provided the Euler triple
scipy returns for this one product reproduces it -/
theorem rotate_orient (q : M3 α) (p : Particle α) (h : EulerOK S (orient S p * q)) :
    orient S (rotateP S q p) = orient S p * q := by
  have : orient S (rotateP S q p) = eulerMat S (S.euler (composeRot (orient S p) q)) := rfl
  rw [this]
  simp only [composeRot, rotation_on_right, if_true]
  exact h

/-- Q₁ then Q₂ is Q₁·Q₂ (equality of the whole particle records) -/
theorem rotate_rotate (q₁ q₂ : M3 α) (p : Particle α) (h : EulerOK S (orient S p * q₁)) :
    rotateP S q₂ (rotateP S q₁ p) = rotateP S (q₁ * q₂) p := by
  have ho := rotate_orient S q₁ p h
  unfold rotateP at *
  simp only [ho]
  simp only [composeRot, rotation_on_right, if_true, M3.mul_assoc']

/-- the mirrored orientation: theta ↦ −theta is conjugation by the z-mirror -/
theorem flip_orient (hc : CsOdd S) (d : Dims α) (p : Particle α) :
    orient S (flipP d p) = Mz * orient S p * Mz := by
  have key : orient S (flipP d p) = orient S { p with theta := -p.theta } := by
    unfold flipP; split <;> rfl
  rw [key]
  simp only [orient, hc p.theta, Mz_zxz]

/-- with a dimension for the particle's tomogram: complete z ↦ dim_z + 1 − z, x and y untouched -/
theorem flip_pos (d : Dims α) (p : Particle α) (dz : α) (h : dimOf d p.tomo_id = some dz) :
    pos (flipP d p) = ⟨(pos p).x, (pos p).y, dz + 1 - (pos p).z⟩ := by
  unfold flipP
  rw [h]
  ext <;> simp only [pos, flip_source_form.1, Nat.cast_one, Int.cast_one] <;> ring1

/-- without one (no dimensions given, or the tomogram is not in the table) nothing moves -/
theorem flip_pos_none (d : Dims α) (p : Particle α) (h : dimOf d p.tomo_id = none) : pos (flipP d p) = pos p := by
  unfold flipP; rw [h]; rfl

/-- applying `flip_handedness` twice restores the particle list entry — an identity of EXACT arithmetic (any commutative
ring: ℚ, ℝ): it uses `(dz + 1) − ((dz + 1) − z) = z`, which binary64 subtraction does not satisfy for every z (the float
result can differ in the last bit), so at `Float` the restored z is validated within tolerance by the correspondence run
(`flip-twice-restores-the-list`), not proved -/
theorem flip_flip (d : Dims α) (p : Particle α) : flipP d (flipP d p) = p := by
  have ht : (flipP d p).tomo_id = p.tomo_id := by unfold flipP; split <;> rfl
  cases h : dimOf d p.tomo_id with
  | none =>
    have h' : dimOf d (flipP d p).tomo_id = none := by rw [ht, h]
    unfold flipP at *
    simp only [h] at *
    simp only [neg_neg]
  | some dz =>
    have h' : dimOf d (flipP d p).tomo_id = some dz := by rw [ht, h]
    have e : ∀ z : α, dz + ((Gen.C05.flipOffset : Int) : α) - (dz + ((Gen.C05.flipOffset : Int) : α) - z) = z := by
      intro z; ring
    unfold flipP at *
    simp only [h] at *
    simp only [neg_neg, e]

/-! ### refinement: every operation, hence every history, acts on the pose as the property says

`specOp`/`specRun` are PARTIAL: they are `none` where the statement says nothing (a `flip_handedness`
call whose dimensions do not cover the particle's tomogram — `covers`). Inside the quantifier the model's
pose IS what the statement gives; outside it the model still follows the code (`flip_uncovered_pose`),
which is used by the correspondence run only. -/

/-- the dimension the statement uses is the one the code looks up -/
theorem specDim_dimOf (d : Dims α) (t dz : α) (h : specDim d t = some dz) : dimOf d t = some dz := by
  cases d with
  | none => simp [specDim] at h
  | single z => simpa [specDim, dimOf] using h
  | table rows =>
    simp only [specDim] at h
    simp only [dimOf]
    cases hl : rows.lookup t with
    | none => rw [hl] at h; simp at h
    | some z =>
      rw [hl] at h
      simp only at h
      split at h
      · exact h
      · simp at h

/-- no operation changes the tomogram a particle belongs to -/
theorem applyOpP_tomo (op : Op α) (p : Particle α) : (applyOpP S op p).tomo_id = p.tomo_id := by
  cases op with
  | flip d => simp only [applyOpP]; unfold flipP; split <;> rfl
  | _ => rfl

theorem runOpsP_tomo (ops : List (Op α)) (p : Particle α) : (runOpsP S ops p).tomo_id = p.tomo_id := by
  induction ops generalizing p with
  | nil => rfl
  | cons op ops ih => simp only [runOpsP, List.foldl_cons] at *; rw [ih, applyOpP_tomo]

/-- one operation, inside the quantifier -/
theorem absPose_applyOpP (hc : CsOdd S) (op : Op α) (p : Particle α) (h : StepOK S op p)
    (hcov : covers op p.tomo_id = true) :
    specOp op (absPose S p) = some (absPose S (applyOpP S op p)) := by
  cases op with
  | update => simp only [specOp, applyOpP, update_pose S p]
  | scale f => simp only [applyOpP, specOp, absPose, scale_pos]; rfl
  | shift v => simp only [applyOpP, specOp, absPose, shift_pos]; rfl
  | rotate q =>
    simp only [applyOpP, specOp, absPose, rotate_orient S q p h]; rfl
  | flip d =>
    have ht : (flipP d p).tomo_id = p.tomo_id := by unfold flipP; split <;> rfl
    simp only [covers, Option.isSome_iff_exists] at hcov
    obtain ⟨dz, hdz⟩ := hcov
    simp only [applyOpP, specOp, absPose, flip_orient S hc, ht, hdz]
    rw [flip_pos d p dz (specDim_dimOf d _ dz hdz)]

/-- where the statement is silent it really is: `specOp` is defined exactly on the covered calls -/
theorem specOp_isSome (op : Op α) (P : Pose α) : (specOp op P).isSome = covers op P.tomo := by
  cases op with
  | flip d => simp only [specOp, covers]; cases specDim d P.tomo <;> rfl
  | _ => rfl

/-- MODEL-ONLY fact (not a clause of the property): for a particle whose tomogram has no row in the table
(or when no dimensions are given) the code negates theta and leaves the position alone -/
theorem flip_uncovered_pose (hc : CsOdd S) (d : Dims α) (p : Particle α) (h : dimOf d p.tomo_id = none) :
    absPose S (flipP d p) = { absPose S p with R := Mz * orient S p * Mz } := by
  have ht : (flipP d p).tomo_id = p.tomo_id := by unfold flipP; split <;> rfl
  simp only [absPose, flip_orient S hc, flip_pos_none d p h, ht]

/-- **any history (any length)**, one particle, every call inside the quantifier -/
theorem absPose_runOpsP (hc : CsOdd S) (ops : List (Op α)) (p : Particle α) (h : RunOK S ops p)
    (hcov : ∀ op ∈ ops, covers op p.tomo_id = true) :
    specRun ops (absPose S p) = some (absPose S (runOpsP S ops p)) := by
  induction ops generalizing p with
  | nil => rfl
  | cons op ops ih =>
    obtain ⟨h1, h2⟩ := h
    have e := absPose_applyOpP S hc op p h1 (hcov op (List.mem_cons_self ..))
    simp only [specRun, e, runOpsP, List.foldl_cons]
    exact ih (applyOpP S op p) h2 (fun o ho => by rw [applyOpP_tomo]; exact hcov o (List.mem_cons_of_mem _ ho))

theorem runOps_eq_map (ops : List (Op α)) (m : Motl α) : runOps S ops m = m.map (runOpsP S ops) := by
  induction ops generalizing m with
  | nil => exact (List.map_id' m).symm
  | cons op ops ih =>
    simp only [runOps, List.foldl_cons] at *
    rw [ih]; simp only [applyOp, List.map_map]; rfl

/-- **any history on any particle list**: the list of poses after the history is the list of poses
the specification gives, particle by particle and in the same order -/
theorem absPose_runOps (hc : CsOdd S) (ops : List (Op α)) (m : Motl α) (h : ∀ p ∈ m, RunOK S ops p)
    (hcov : ∀ p ∈ m, ∀ op ∈ ops, covers op p.tomo_id = true) :
    m.map (fun p => specRun ops (absPose S p)) = (runOps S ops m).map (fun p => some (absPose S p)) := by
  rw [runOps_eq_map, List.map_map]
  apply List.map_congr_left
  intro p hp
  exact absPose_runOpsP S hc ops p (h p hp) (hcov p hp)

/-- the orientation of every particle is a proper rotation when cos² + sin² = 1 -/
theorem orient_isRot (hu : ∀ a, (S.cs a).1 * (S.cs a).1 + (S.cs a).2 * (S.cs a).2 = 1) (p : Particle α) :
    IsRot (orient S p) :=
  isRot_zxz _ _ _ _ _ _ (hu _) (hu _) (hu _)

/-- **the per-history hypothesis `RunOK` follows from the usual global reading of the scipy
assumption**: if cos² + sin² = 1 and `as_euler` reproduces every proper rotation matrix, then every
history whose `apply_rotation` arguments are proper rotations satisfies `RunOK` (for every particle). -/
theorem runOK_of_global (hu : ∀ a, (S.cs a).1 * (S.cs a).1 + (S.cs a).2 * (S.cs a).2 = 1)
    (hE : ∀ m : M3 α, IsRot m → EulerOK S m) (ops : List (Op α))
    (hq : ∀ q, Op.rotate q ∈ ops → IsRot q) (p : Particle α) : RunOK S ops p := by
  induction ops generalizing p with
  | nil => trivial
  | cons op ops ih =>
    refine ⟨?_, ih (fun q hq' => hq q (List.mem_cons_of_mem _ hq')) _⟩
    cases op with
    | rotate q => exact hE _ ((orient_isRot S hu p).mul (hq q (List.mem_cons_self ..)))
    | _ => trivial

/-- any history on any list under the global assumptions -/
theorem absPose_runOps_global (hc : CsOdd S) (hu : ∀ a, (S.cs a).1 * (S.cs a).1 + (S.cs a).2 * (S.cs a).2 = 1)
    (hE : ∀ m : M3 α, IsRot m → EulerOK S m) (ops : List (Op α)) (hq : ∀ q, Op.rotate q ∈ ops → IsRot q) (m : Motl α)
    (hcov : ∀ p ∈ m, ∀ op ∈ ops, covers op p.tomo_id = true) :
    m.map (fun p => specRun ops (absPose S p)) = (runOps S ops m).map (fun p => some (absPose S p)) :=
  absPose_runOps S hc ops m (fun p _ => runOK_of_global S hu hE ops hq p) hcov

/-- rigidity: `shift_positions(s)` displaces every particle by a vector of the same length as s -/
theorem shift_rigid (hu : ∀ a, (S.cs a).1 * (S.cs a).1 + (S.cs a).2 * (S.cs a).2 = 1) (v : V3 α) (p : Particle α) :
    V3.normSq (pos (shiftP S v p) - pos p) = V3.normSq v := by
  have e : pos (shiftP S v p) - pos p = (orient S p).apply v := by
    rw [shift_pos]
    ext <;> simp only [V3.sub_def, V3.sub, V3.add_def, V3.add] <;> ring
  rw [e]
  exact (orient_isRot S hu p).1.normSq_apply v

/-- list level: s₁ then s₂ = s₁ + s₂ -/
theorem shift_shift_list (v₁ v₂ : V3 α) (m : Motl α) :
    applyOp S (.shift v₂) (applyOp S (.shift v₁) m) = applyOp S (.shift (v₁ + v₂)) m := by
  simp only [applyOp, List.map_map]
  apply List.map_congr_left; intro p _; exact shift_shift S v₁ v₂ p

/-- list level: Q₁ then Q₂ = Q₁·Q₂ -/
theorem rotate_rotate_list (q₁ q₂ : M3 α) (m : Motl α) (h : ∀ p ∈ m, EulerOK S (orient S p * q₁)) :
    applyOp S (.rotate q₂) (applyOp S (.rotate q₁) m) = applyOp S (.rotate (q₁ * q₂)) m := by
  simp only [applyOp, List.map_map]
  apply List.map_congr_left; intro p hp; exact rotate_rotate S q₁ q₂ p (h p hp)

/-- list level: flipping twice restores the list -/
theorem flip_flip_list (d : Dims α) (m : Motl α) : applyOp S (.flip d) (applyOp S (.flip d) m) = m := by
  simp only [applyOp, List.map_map]
  conv => rhs; rw [← List.map_id m]
  apply List.map_congr_left; intro p _; exact flip_flip d p

/-- list level: update is idempotent and changes no pose -/
theorem update_list (m : Motl α) :
    (applyOp S .update m).map (absPose S) = m.map (absPose S) ∧
    applyOp S .update (applyOp S .update m) = applyOp S .update m := by
  constructor
  · simp only [applyOp, List.map_map]
    apply List.map_congr_left; intro p _; exact update_pose S p
  · simp only [applyOp, List.map_map]
    apply List.map_congr_left; intro p _; exact update_idem S p

/-! ### the composition clauses at the level of the statement itself -/

theorem spec_shift_shift (v₁ v₂ : V3 α) (P : Pose α) :
    (specOp (.shift v₁) P).bind (specOp (.shift v₂)) = specOp (.shift (v₁ + v₂)) P := by
  simp only [specOp, Option.bind_some, M3.apply_add]
  congr 2
  ext <;> simp only [V3.add_def, V3.add] <;> ring

theorem spec_rotate_rotate (q₁ q₂ : M3 α) (P : Pose α) :
    (specOp (.rotate q₁) P).bind (specOp (.rotate q₂)) = specOp (.rotate (q₁ * q₂)) P := by
  simp only [specOp, Option.bind_some, M3.mul_assoc']

/-- where the statement speaks about the first flip it speaks about the second, and the two restore the pose -/
theorem spec_flip_flip (d : Dims α) (P P' : Pose α) (h : specOp (.flip d) P = some P') : specOp (.flip d) P' = some P := by
  have hR : ∀ R : M3 α, Mz * (Mz * R * Mz) * Mz = R := by
    intro R
    calc Mz * (Mz * R * Mz) * Mz = (Mz * Mz) * R * (Mz * Mz) := by simp only [M3.mul_assoc']
      _ = R := by rw [Mz_Mz, M3.one_mul', M3.mul_one']
  simp only [specOp] at h
  cases hd : specDim d P.tomo with
  | none => rw [hd] at h; simp at h
  | some dz =>
    rw [hd] at h
    simp only [Option.some.injEq] at h
    subst h
    have e : ∀ z : α, dz + 1 - (dz + 1 - z) = z := by intro z; ring
    simp only [specOp, hd, hR, e]

end ring2

/-! ### verified checkers (exact rationals) for the operations without trigonometry -/

theorem checkUpdate_sound (b a : Particle Rat) (h : checkUpdate b a = true) :
    pos a = pos b ∧ (∃ i j k : Int, a.x = (i : Rat) ∧ a.y = (j : Rat) ∧ a.z = (k : Rat)) ∧
    |a.shift_x| ≤ 1/2 ∧ |a.shift_y| ≤ 1/2 ∧ |a.shift_z| ≤ 1/2 := by
  simp only [checkUpdate, Bool.and_eq_true, beq_iff_eq, decide_eq_true_eq] at h
  obtain ⟨⟨⟨⟨⟨⟨hp, hx⟩, hy⟩, hz⟩, h1⟩, h2⟩, h3⟩ := h
  obtain ⟨i, hi⟩ := isInt_iff _ hx
  obtain ⟨j, hj⟩ := isInt_iff _ hy
  obtain ⟨k, hk⟩ := isInt_iff _ hz
  rw [absR_eq_abs] at h1 h2 h3
  exact ⟨hp, ⟨i, j, k, hi, hj, hk⟩, h1, h2, h3⟩

/-- the model's own output passes the checker (the checker is not vacuous) -/
theorem checkUpdate_complete (S : Svc Rat) (hS : S.rnd = roundHalfUp) (p : Particle Rat) :
    checkUpdate p (updateP S p) = true := by
  obtain ⟨hp, _, h1, h2, h3⟩ := update_spec S hS p
  simp only [checkUpdate, Bool.and_eq_true, beq_iff_eq, decide_eq_true_eq, absR_eq_abs]
  refine ⟨⟨⟨⟨⟨⟨hp, ?_⟩, ?_⟩, ?_⟩, h1⟩, h2⟩, h3⟩ <;> simp [isInt, updateP]

theorem checkScale_sound (f : Rat) (b a : Particle Rat) (h : checkScale f b a = true) :
    pos a = V3.smul f (pos b) := by
  simpa [checkScale] using h

/-- an accepted output of `flip_handedness` has, for every particle the dimensions cover, the mirrored
pose under every admissible cos/sin (and nothing is claimed for the others) -/
theorem checkFlip_sound (S : Svc Rat) (hc : CsOdd S) (d : Dims Rat) (b a : Particle Rat) (h : checkFlip d b a = true)
    (P' : Pose Rat) (hs : specOp (.flip d) (absPose S b) = some P') : absPose S a = P' := by
  simp only [specOp, absPose] at hs
  simp only [checkFlip, checkFlipPos] at h
  cases hd : specDim d b.tomo_id with
  | none => rw [hd] at hs; simp at hs
  | some dz =>
    rw [hd] at hs h
    simp only [Bool.and_eq_true, beq_iff_eq] at h
    obtain ⟨⟨⟨ht, hphi⟩, hpsi⟩, htomo, hpos⟩ := h
    have ho : orient S a = Mz * orient S b * Mz := by
      simp only [orient, ht, hphi, hpsi, hc b.theta, Mz_zxz]
    simp only [Option.some.injEq] at hs
    rw [← hs]
    simp only [absPose, ho, htomo, hpos]

/-- the position clause alone: an accepted output has the mirrored complete position for every covered particle -/
theorem checkFlipPos_sound (d : Dims Rat) (b a : Particle Rat) (h : checkFlipPos d b a = true)
    (dz : Rat) (hd : specDim d b.tomo_id = some dz) :
    pos a = ⟨(pos b).x, (pos b).y, dz + 1 - (pos b).z⟩ ∧ a.tomo_id = b.tomo_id := by
  simp only [checkFlipPos, hd, Bool.and_eq_true, beq_iff_eq] at h
  exact ⟨h.2, h.1⟩

/-- the model's own output passes both flip checkers (they are not vacuous) -/
theorem checkFlip_complete (d : Dims Rat) (p : Particle Rat) :
    checkFlip d p (flipP d p) = true ∧ checkFlipPos d p (flipP d p) = true := by
  have ht : (flipP d p).tomo_id = p.tomo_id := by unfold flipP; split <;> rfl
  have hp : ∀ dz, specDim d p.tomo_id = some dz → checkFlipPos d p (flipP d p) = true := by
    intro dz hd
    simp only [checkFlipPos, hd, Bool.and_eq_true, beq_iff_eq]
    exact ⟨ht, flip_pos d p dz (specDim_dimOf d _ dz hd)⟩
  cases hd : specDim d p.tomo_id with
  | none => simp only [checkFlip, checkFlipPos, hd, and_self]
  | some dz =>
    refine ⟨?_, hp dz hd⟩
    simp only [checkFlip, hd, hp dz hd, Bool.and_true, Bool.and_eq_true, beq_iff_eq]
    unfold flipP; split <;> exact ⟨⟨rfl, rfl⟩, rfl⟩

/-! #### the three exact checkers DECIDE their clauses (soundness above, completeness here): what the harness
reads off the driver's verdict on the real code's tables is the clause itself, nothing stronger -/
theorem isInt_intCast (n : Int) : isInt (n : Rat) = true := by
  simp [isInt]

theorem checkUpdate_iff (b a : Particle Rat) :
    checkUpdate b a = true ↔
    (pos a = pos b ∧ (∃ i j k : Int, a.x = (i : Rat) ∧ a.y = (j : Rat) ∧ a.z = (k : Rat)) ∧
      |a.shift_x| ≤ 1/2 ∧ |a.shift_y| ≤ 1/2 ∧ |a.shift_z| ≤ 1/2) := by
  refine ⟨checkUpdate_sound b a, ?_⟩
  rintro ⟨hp, ⟨i, j, k, hi, hj, hk⟩, h1, h2, h3⟩
  simp only [checkUpdate, Bool.and_eq_true, beq_iff_eq, decide_eq_true_eq, absR_eq_abs]
  exact ⟨⟨⟨⟨⟨⟨hp, hi ▸ isInt_intCast i⟩, hj ▸ isInt_intCast j⟩, hk ▸ isInt_intCast k⟩, h1⟩, h2⟩, h3⟩

theorem checkScale_iff (f : Rat) (b a : Particle Rat) : checkScale f b a = true ↔ pos a = V3.smul f (pos b) := by
  simp [checkScale]

theorem checkFlipPos_iff (d : Dims Rat) (b a : Particle Rat) :
    checkFlipPos d b a = true ↔
    ∀ dz, specDim d b.tomo_id = some dz →
      pos a = ⟨(pos b).x, (pos b).y, dz + 1 - (pos b).z⟩ ∧ a.tomo_id = b.tomo_id := by
  constructor
  · intro h dz hd; exact checkFlipPos_sound d b a h dz hd
  · intro h
    cases hd : specDim d b.tomo_id with
    | none => simp only [checkFlipPos, hd]
    | some dz =>
      obtain ⟨hp, ht⟩ := h dz hd
      simp only [checkFlipPos, hd, Bool.and_eq_true, beq_iff_eq]
      exact ⟨ht, hp⟩

/-! ### the global scipy assumptions are satisfiable: true cosine/sine, Euler extraction and rounding over ℝ

`absPose_runOps_global` assumes `CsOdd`, cos² + sin² = 1 and `EulerOK` for EVERY proper rotation. Over `Rat`
no service can meet the last one (cos and sin of most angles are irrational); over ℝ `realSvc`
(`Lemmas/C05_Euler`: cos/sin of degrees, an explicit zxz extraction via `sqrt` and `Complex.arg`, rounding
half away from zero via the floor) meets all of them, so the theorem is not vacuous and becomes hypothesis-free. -/

/-- **every proper rotation has zxz Euler angles**, purely algebraically: in any ordered field in which
`1 − m₃₃²` has a square root there are three points of the unit circle (the middle one with sine ≥ 0, i.e.
theta in [0°, 180°]) whose `zxz` is the matrix — gimbal lock included (`Lemmas/C05_Euler`) -/
theorem zxz_angles_exist {α : Type} [_root_.Field α] [LinearOrder α] [IsStrictOrderedRing α] (m : M3 α) (h : IsRot m)
    (hsq : ∃ s : α, 0 ≤ s ∧ s * s = 1 - m.a33 * m.a33) :
    ∃ cp sp ct st cs ss : α, cp * cp + sp * sp = 1 ∧ ct * ct + st * st = 1 ∧ cs * cs + ss * ss = 1 ∧ 0 ≤ st ∧
      zxz cp sp ct st cs ss = m :=
  exists_zxz_of_rot h hsq

/-- every proper rotation matrix is the zxz matrix of some Euler angles (degrees) -/
theorem euler_angles_exist (m : M3 ℝ) (h : IsRot m) : ∃ e : ℝ × ℝ × ℝ, eulerMat realSvc e = m :=
  ⟨realSvc.euler m, realSvc_eulerOK m h⟩

/-- all service hypotheses used anywhere in this file hold for `realSvc` — i.e. the contract (`CsOdd`, cos² + sin² = 1, `EulerOK`
for every proper rotation, rounding within 1/2) is SATISFIABLE over ℝ. `realSvc.euler = eulerR` (`Lemmas/C05_Euler`: `sqrt` and
`Complex.arg`) is a different function from the extractor the driver executes (`Drv/C05.eulerF`: `Float.atan2` on binary64) and from
scipy's `as_euler`; that THOSE meet `EulerOK` is not proved anywhere: it is measured on every correspondence run (`resid`, probes) -/
theorem realSvc_meets_all :
    CsOdd realSvc ∧ (∀ a, (realSvc.cs a).1 * (realSvc.cs a).1 + (realSvc.cs a).2 * (realSvc.cs a).2 = 1) ∧
    (∀ m : M3 ℝ, IsRot m → EulerOK realSvc m) ∧ (∀ v : ℝ, |v - ((realSvc.rnd v : Int) : ℝ)| ≤ 1 / 2) :=
  ⟨realSvc_csOdd, realSvc_unit, realSvc_eulerOK, rndR_close⟩

/-- **any history on any particle list, over ℝ, for the ideal services `realSvc`** (true cos/sin, the Euler extraction `eulerR`,
exact rounding — no hypothesis on them is left): if the `apply_rotation` arguments are proper rotations and every
`flip_handedness` call covers the list's tomograms, the poses after the history are exactly what the statement gives.
This shows that the service contract can be met and what follows from it; it is NOT a statement about the `Float` extractor
`Drv/C05.eulerF` the driver runs, nor about scipy (those are validated numerically, see `realSvc_meets_all`) -/
theorem absPose_runOps_real (ops : List (Op ℝ)) (hq : ∀ q, Op.rotate q ∈ ops → IsRot q) (m : Motl ℝ)
    (hcov : ∀ p ∈ m, ∀ op ∈ ops, covers op p.tomo_id = true) :
    m.map (fun p => specRun ops (absPose realSvc p)) = (runOps realSvc ops m).map (fun p => some (absPose realSvc p)) :=
  absPose_runOps_global realSvc realSvc_csOdd realSvc_unit realSvc_eulerOK ops hq m hcov

/-- `update_coordinates` over ℝ with true rounding: position kept, integers, |shift| ≤ 1/2 -/
theorem update_spec_real (p : Particle ℝ) :
    pos (updateP realSvc p) = pos p ∧
    (∃ i j k : Int, (updateP realSvc p).x = (i : ℝ) ∧ (updateP realSvc p).y = (j : ℝ) ∧ (updateP realSvc p).z = (k : ℝ)) ∧
    |(updateP realSvc p).shift_x| ≤ 1 / 2 ∧ |(updateP realSvc p).shift_y| ≤ 1 / 2 ∧ |(updateP realSvc p).shift_z| ≤ 1 / 2 :=
  ⟨update_pos realSvc p, update_integral realSvc p, update_shift_le_half realSvc rndR_close p⟩

/-- Q₁ then Q₂ = Q₁·Q₂ over ℝ for all proper rotations and all particles, no side condition left -/
theorem rotate_rotate_real (q₁ q₂ : M3 ℝ) (h₁ : IsRot q₁) (p : Particle ℝ) :
    rotateP realSvc q₂ (rotateP realSvc q₁ p) = rotateP realSvc (q₁ * q₂) p :=
  rotate_rotate realSvc q₁ q₂ p (realSvc_eulerOK _ ((orient_isRot realSvc realSvc_unit p).mul h₁))


/-! ### `dimensions_load`: the shape dispatch that decides which branch of `flip_handedness` runs

`loadDims` is executed by the driver on the raw table of every `flip_handedness` call of the correspondence run (the
harness no longer pre-digests the argument) and compared with `ioutils.dimensions_load` called directly. -/

/-- a 1 × 3 table is one `x y z` triple: every particle is mirrored at `z + 1` -/
theorem loadDims_triple {α : Type} (x y z : α) : loadDims [[x, y, z]] = some (Dims.single z) := rfl

/-- an N × 4 table (N ≥ 1) is rows `tomo_id x y z`, kept in order (so `dimOf` finds the FIRST row of a tomogram) -/
theorem loadDims_table {α : Type} (r : α × α × α × α) (rows : List (α × α × α × α)) :
    loadDims ((r :: rows).map (fun q => [q.1, q.2.1, q.2.2.1, q.2.2.2])) =
      some (Dims.table ((r :: rows).map (fun q => (q.1, q.2.2.2)))) := by
  have hm : ∀ l : List (α × α × α × α),
      (l.map (fun q => [q.1, q.2.1, q.2.2.1, q.2.2.2])).mapM row4? = some (l.map (fun q => (q.1, q.2.2.2))) := by
    intro l
    induction l with
    | nil => rfl
    | cons a l ih => simp only [List.map_cons, List.mapM_cons, row4?, ih]; rfl
  have := hm (r :: rows)
  simp only [List.map_cons] at this ⊢
  unfold loadDims
  split
  · rename_i h; simp at h
  · rename_i h; simp at h
  · simp only [this, Option.map_some]

/-- every other shape is refused (`ValueError` in the code): no rows at all, or a row that has not exactly four entries
while the table is not a single triple -/
theorem loadDims_refuses {α : Type} (rows : List (List α)) (h3 : ∀ x y z, rows ≠ [[x, y, z]])
    (hbad : ∃ r ∈ rows, r.length ≠ 4) : loadDims rows = none := by
  have hm : ∀ l : List (List α), (∃ r ∈ l, r.length ≠ 4) → l.mapM row4? = none := by
    intro l
    induction l with
    | nil => intro ⟨_, h, _⟩; cases h
    | cons a l ih =>
      intro ⟨r, hr, hlen⟩
      simp only [List.mapM_cons]
      cases ha : row4? a with
      | none => rfl
      | some v =>
        have ha4 : a.length = 4 := by
          match a, ha with
          | [_, _, _, _], _ => rfl
        rcases List.mem_cons.1 hr with rfl | hr'
        · exact absurd ha4 hlen
        · rw [ih ⟨r, hr', hlen⟩]; rfl
  unfold loadDims
  split
  · rfl
  · rename_i x y z; exact absurd rfl (h3 x y z)
  · rw [hm rows hbad]; rfl

example : loadDims [[(512 : Rat), 480, 300]] = some (Dims.single 300) := rfl
example : loadDims [[(2 : Rat), 512, 480, 300], [1, 512, 480, 200]] = some (Dims.table [(2, 300), (1, 200)]) := rfl
example : loadDims [[(2 : Rat), 512, 480, 300]] = some (Dims.table [(2, 300)]) := rfl
example : loadDims [[(512 : Rat), 480]] = none ∧ loadDims [[(1 : Rat), 2, 3], [4, 5, 6]] = none ∧ loadDims ([] : List (List Rat)) = none := ⟨rfl, rfl, rfl⟩

/-! ### histories with flips: two successive flips cancel, the parity of the number of flips decides the handedness

`Lemmas/C05_History`: `pushFlips` removes the flips of a history and replaces every operation that follows an odd number
of them by its mirror image `conjOp` (shift s ↦ shift (Mz s), rotate Q ↦ rotate (Mz Q Mz), update unchanged). -/
section history
variable {α : Type} [CommRing α] [DecidableEq α] (S : Svc α)

/-- **flip ∘ flip = id inside any history** (whole 20-field records, no hypothesis beyond exact arithmetic — a commutative ring; see the caveat at `flip_flip` for `Float`): two successive `flip_handedness` calls with
the same dimensions can be deleted wherever they stand -/
theorem flip_flip_in_history (a b : List (Op α)) (d : Dims α) (m : Motl α) :
    runOps S (a ++ Op.flip d :: Op.flip d :: b) m = runOps S (a ++ b) m :=
  runOps_flip_flip_cancel S a b d m

/-- n flips in a row: the list itself for even n, one flip for odd n (whole records, no hypothesis) -/
theorem flips_parity (n : Nat) (d : Dims α) (m : Motl α) :
    runOps S (List.replicate n (Op.flip d)) m = if n % 2 = 0 then m else applyOp S (.flip d) m :=
  runOps_flips_parity S n d m

/-- statement level: "flip then op" is "mirror-image op then flip" for every op that is neither a flip nor a scaling -/
theorem spec_flip_then_op (d : Dims α) (op : Op α) (P : Pose α) (hf : isFlip op = false) (hs : isScale op = false) :
    (specOp (.flip d) P).bind (specOp op) = (specOp (conjOp op) P).bind (specOp (.flip d)) :=
  spec_flip_conj d op P hf hs

/-- scaling is excluded for a reason: the mirror plane `dim_z + 1` does not scale with the coordinates, so flip and scale do
not commute already at the level of the statement (a concrete instance, not a general law) -/
theorem spec_flip_scale_counterexample :
    (specOp (.flip (.single (1 : Rat))) ⟨⟨0, 0, 0⟩, M3.one, 0⟩).bind (specOp (.scale 2)) ≠
    (specOp (.scale (2 : Rat)) ⟨⟨0, 0, 0⟩, M3.one, 0⟩).bind (specOp (.flip (.single 1))) :=
  spec_flip_scale_not_commute

/-- **composition law for histories with flips** (statement level): in a history without scalings whose flips all use the same
mirror plane `dz` for the particle's tomogram, every flip can be moved to the end; what remains is the flip-free history
`pushFlips false ops`, followed by ONE flip if the number of flips is odd and by nothing if it is even -/
theorem spec_history_flip_parity (ops : List (Op α)) (P : Pose α) (dz : α)
    (hflip : ∀ d', Op.flip d' ∈ ops → specDim d' P.tomo = some dz) (hns : ∀ op ∈ ops, isScale op = false)
    (d : Dims α) (hd : specDim d P.tomo = some dz) :
    specRun ops P = (specRun (pushFlips false ops) P).bind
      (fun P' => if flipCount ops % 2 = 0 then some P' else specOp (.flip d) P') :=
  specRun_flips_to_end ops P dz hflip hns d hd

/-- **the same for the model** (corollary of the refinement theorem `absPose_runOpsP`): the pose of a particle after such a
history is the pose the flip-free history `pushFlips false ops` gives, mirrored iff the number of flips is odd.
Hypotheses: cos even / sin odd, the Euler round trip for the products the history forms (`RunOK`), no scaling, one mirror plane. -/
theorem history_flip_parity (hc : CsOdd S) (ops : List (Op α)) (p : Particle α) (h : RunOK S ops p) (dz : α)
    (hflip : ∀ d', Op.flip d' ∈ ops → specDim d' p.tomo_id = some dz) (hns : ∀ op ∈ ops, isScale op = false)
    (d : Dims α) (hd : specDim d p.tomo_id = some dz) :
    some (absPose S (runOpsP S ops p)) = (specRun (pushFlips false ops) (absPose S p)).bind
      (fun P' => if flipCount ops % 2 = 0 then some P' else specOp (.flip d) P') :=
  absPose_runOpsP_flips_to_end S ops p
    (absPose_runOpsP S hc ops p h (by
      intro op hop
      cases op with
      | flip d' => simp only [covers, hflip d' hop, Option.isSome_some]
      | _ => rfl)) dz hflip hns d hd

/-- **the same for a whole particle list** (any number of particles in any number of tomograms, each tomogram with its own
mirror plane `dzOf t`): the poses after the history are, particle by particle and in the same order, the poses of the
flip-free history, mirrored iff the number of flips is odd -/
theorem history_flip_parity_list (hc : CsOdd S) (ops : List (Op α)) (m : Motl α) (h : ∀ p ∈ m, RunOK S ops p) (dzOf : α → α)
    (hflip : ∀ p ∈ m, ∀ d', Op.flip d' ∈ ops → specDim d' p.tomo_id = some (dzOf p.tomo_id))
    (hns : ∀ op ∈ ops, isScale op = false) (d : Dims α) (hd : ∀ p ∈ m, specDim d p.tomo_id = some (dzOf p.tomo_id)) :
    (runOps S ops m).map (fun p => some (absPose S p)) =
      m.map (fun p => (specRun (pushFlips false ops) (absPose S p)).bind
        (fun P' => if flipCount ops % 2 = 0 then some P' else specOp (.flip d) P')) := by
  rw [runOps_eq_map, List.map_map]
  apply List.map_congr_left
  intro p hp
  exact history_flip_parity S hc ops p (h p hp) (dzOf p.tomo_id) (hflip p hp) hns d (hd p hp)

/-- a history that consists of flips only (possibly with different tables that agree on the plane): identity for an even
number, one flip for an odd number — at the level of the statement -/
theorem spec_only_flips (ops : List (Op α)) (P : Pose α) (dz : α) (hall : ∀ op ∈ ops, isFlip op = true)
    (hflip : ∀ d', Op.flip d' ∈ ops → specDim d' P.tomo = some dz) (d : Dims α) (hd : specDim d P.tomo = some dz) :
    specRun ops P = if ops.length % 2 = 0 then some P else specOp (.flip d) P :=
  specRun_only_flips ops P dz hall hflip d hd

end history

/-- over ℝ, for the ideal services `realSvc`, the history law needs no further assumption: proper rotations as `apply_rotation`
arguments suffice (as for `absPose_runOps_real`: a satisfiability instance of the contract, not a theorem about the executed
`Float` extractor `eulerF` or scipy) -/
theorem history_flip_parity_real (ops : List (Op ℝ)) (hq : ∀ q, Op.rotate q ∈ ops → IsRot q) (p : Particle ℝ) (dz : ℝ)
    (hflip : ∀ d', Op.flip d' ∈ ops → specDim d' p.tomo_id = some dz) (hns : ∀ op ∈ ops, isScale op = false)
    (d : Dims ℝ) (hd : specDim d p.tomo_id = some dz) :
    some (absPose realSvc (runOpsP realSvc ops p)) = (specRun (pushFlips false ops) (absPose realSvc p)).bind
      (fun P' => if flipCount ops % 2 = 0 then some P' else specOp (.flip d) P') :=
  history_flip_parity realSvc realSvc_csOdd ops p (runOK_of_global realSvc realSvc_unit realSvc_eulerOK ops hq p) dz hflip hns d hd

/-- the hypotheses of `spec_history_flip_parity` are met by a history with two flips (a triple and a table giving the same plane),
shifts, a rotation and an update; its normal form has no flip left and the operations between the flips are mirrored -/
example : (∀ d', Op.flip d' ∈ exHist → specDim d' exP.tomo_id = some (40 : Rat)) ∧ (∀ op ∈ exHist, isScale op = false) ∧
    flipCount exHist = 2 := by
  refine ⟨?_, ?_, by decide⟩
  · intro d' hd'
    simp only [exHist, List.mem_cons, Op.flip.injEq, reduceCtorEq, List.not_mem_nil, or_false, false_or] at hd'
    rcases hd' with rfl | rfl <;> decide +kernel
  · intro op hop
    simp only [exHist, List.mem_cons, List.not_mem_nil, or_false] at hop
    rcases hop with rfl | rfl | rfl | rfl | rfl | rfl <;> rfl

/-! ### non-vacuity: concrete services and inputs meeting every hypothesis above -/

/-- `CsOdd` is satisfiable -/
example : CsOdd exS := by
  intro a
  simp only [exS]
  by_cases h1 : a = 90
  · subst h1; norm_num
  by_cases h2 : a = -90
  · subst h2; norm_num
  by_cases h3 : a = 180
  · subst h3; norm_num
  by_cases h4 : a = -180
  · subst h4; norm_num
  have e1 : ¬ (-a = 90) := fun h => h2 (by linarith)
  have e2 : ¬ (-a = -90) := fun h => h1 (by linarith)
  have e3 : ¬ (-a = 180) := fun h => h4 (by linarith)
  have e4 : ¬ (-a = -180) := fun h => h3 (by linarith)
  simp [h1, h2, h3, h4, e1, e2, e3, e4]

/-- `EulerOK` is satisfiable for a non-trivial rotation of a particle with a non-trivial orientation … -/
example : EulerOK exS (orient exS exP * rz 0 1) := by unfold EulerOK; decide +kernel
/-- … and a history with every kind of operation meets `RunOK` -/
example : RunOK exS [.rotate (rz 0 1), .update, .scale 2, .shift ⟨1, 2, 3⟩, .flip (.table [(1, 50), (2, 60)]), .flip (.single 40)] exP := by
  refine ⟨?_, trivial, trivial, trivial, trivial, trivial, trivial⟩
  unfold StepOK EulerOK; decide +kernel
/-- … every call of which is inside the quantifier for the particle (its tomogram 2 has a row / a single triple is given) -/
example : ∀ op ∈ ([.rotate (rz 0 1), .update, .scale 2, .shift ⟨1, 2, 3⟩, .flip (.table [(1, 50), (2, 60)]), .flip (.single 40)] : List (Op Rat)),
    covers op exP.tomo_id = true := by decide +kernel
/-- the statement folded over that history is defined and is the model's pose (instance of `absPose_runOpsP`) -/
example : specRun [.rotate (rz 0 1), .update, .scale 2, .shift ⟨1, 2, 3⟩, .flip (.table [(1, 50), (2, 60)]), .flip (.single 40)] (absPose exS exP)
    = some (absPose exS (runOpsP exS [.rotate (rz 0 1), .update, .scale 2, .shift ⟨1, 2, 3⟩, .flip (.table [(1, 50), (2, 60)]), .flip (.single 40)] exP)) := by
  decide +kernel
example : exS.rnd = roundHalfUp := rfl
/-- ties in both directions: 5 + 1/2 ↦ 6, −7 − 5/2 = −19/2 ↦ −10 -/
example : (updateP exS exP).x = 6 ∧ (updateP exS exP).y = -10 ∧ (updateP exS exP).shift_x = -1/2 ∧ (updateP exS exP).shift_y = 1/2 := by
  decide +kernel
example : dimOf (.table [(1, 50), (2, 60)]) exP.tomo_id = some (60 : Rat) := by decide +kernel
example : checkUpdate exP (updateP exS exP) = true := by decide +kernel
example : checkFlip (.single 40) exP (flipP (.single 40) exP) = true := by decide +kernel
/-- the rotated example particle really has the orientation R·Q -/
example : orient exS (rotateP exS (rz 0 1) exP) = orient exS exP * rz 0 1 := by decide +kernel

/-- the hypotheses of `absPose_runOps_real` are met by a history with a genuine rotation, a covered
per-tomogram flip and every other kind of operation on a two-tomogram list -/
example : (∀ q, Op.rotate q ∈ ([.rotate (rz 0 1), .update, .scale 2, .shift ⟨1, 2, 3⟩, .flip (.table [(1, 50), (2, 60)])] : List (Op ℝ)) → IsRot q) ∧
    (∀ t ∈ [(1 : ℝ), 2], covers (.flip (.table [(1, 50), (2, 60)]) : Op ℝ) t = true) := by
  refine ⟨?_, ?_⟩
  · intro q hq
    simp only [List.mem_cons, Op.rotate.injEq, reduceCtorEq, List.not_mem_nil, or_false] at hq
    subst hq
    exact ⟨rz_orth 0 1 (by norm_num), by rw [det_rz]; norm_num⟩
  · intro t ht
    simp only [List.mem_cons, List.not_mem_nil, or_false] at ht
    rcases ht with rfl | rfl
    · norm_num [covers, specDim, List.lookup]
    · have h21 : ((2 : ℝ) == 1) = false := by rw [beq_eq_false_iff_ne]; norm_num
      simp [covers, specDim, List.lookup, h21]
/-- outside the quantifier the specification is silent: a table without the particle's tomogram, and one
with two different z sizes for it -/
example : specOp (.flip (.table [(1, 50)])) (absPose exS exP) = none ∧
    specOp (.flip (.table [(2, 50), (2, 60)])) (absPose exS exP) = none ∧
    (specOp (.flip (.table [(2, 60), (1, 50), (2, 60)])) (absPose exS exP)).isSome = true := by decide +kernel
example : checkFlipPos (.table [(1, 50), (2, 60)]) exP (flipP (.table [(1, 50), (2, 60)]) exP) = true := by decide +kernel
end CryoCat.C05
