import CryoCat.Model.C05
import CryoCat.Lemmas.C05
/-! C05 — pose bookkeeping: property theorems (only theorems and non-vacuity examples).

`S : Svc α` bundles the numeric services the code takes from scipy / decimal (cos/sin in degrees,
`as_euler`, rounding). What is assumed about them is always an explicit hypothesis:
`CsOdd S` (cos even, sin odd — used by `flip_handedness` only), `EulerOK S m` (the triple `as_euler`
returns for the ONE matrix `m` reproduces it — used by `apply_rotation` only) and, for the bound
|shift| ≤ 1/2, that `S.rnd` is within 1/2 of its argument (proved for `roundHalfUp`). -/
namespace CryoCat.C05
open CryoCat
set_option linter.unusedSectionVars false

/-! ### translator obligations: the anchored source expressions are the documented ones -/

theorem anchors_ok : Gen.C05.anchorsOk = true := by decide

/-- `get_coordinates` adds the shift columns to x, y, z -/
theorem coordinates_are_x_plus_shift :
    Gen.C05.coordColumns = ["x", "y", "z"] ∧ Gen.C05.shiftColumns = ["shift_x", "shift_y", "shift_z"] := by decide

/-- `update_coordinates` rounds x+shift_x, y+shift_y, z+shift_z, each with ROUND_HALF_UP … -/
theorem update_rounds_half_up :
    Gen.C05.updateRounded = [("x", "x", "shift_x", "ROUND_HALF_UP"), ("y", "y", "shift_y", "ROUND_HALF_UP"),
                             ("z", "z", "shift_z", "ROUND_HALF_UP")] := by decide

/-- … and stores (sum − new coordinate) as the new shift -/
theorem update_keeps_residual :
    Gen.C05.updateResidual = [("shift_x", "x", "shift_x", "x", true), ("shift_y", "y", "shift_y", "y", true),
                              ("shift_z", "z", "shift_z", "z", true)] := by decide

theorem scale_columns : Gen.C05.scaleCoords = ["x", "y", "z"] ∧ Gen.C05.scaleShiftPrefix = "shift_" := by decide

/-- every Euler conversion is extrinsic "zxz" in degrees -/
theorem euler_convention :
    Gen.C05.eulerCalls = [("apply_rotation.from_euler", "zxz", "degrees"), ("apply_rotation.as_euler", "zxz", "degrees"),
                          ("shift_positions.from_euler", "zxz", "degrees"), ("get_rotations.from_euler", "zxz", "degrees")] := by decide

theorem angle_columns : Gen.C05.angleColumns = List.replicate 5 ["phi", "theta", "psi"] := by decide

/-- `apply_rotation` forms `from_euler(angles) * rotation` -/
theorem rotation_on_right : Gen.C05.rotationOnRight = true := by decide

theorem shift_targets : Gen.C05.shiftTargets = [("shift_x", 0), ("shift_y", 1), ("shift_z", 2)] := by decide

/-- `flip_handedness`: theta negated; in both branches z_dim = dim_z + 1, z ↦ z_dim − z, shift_z ↦ −shift_z -/
theorem flip_source_form :
    Gen.C05.flipOffset = 1 ∧ Gen.C05.flipNegatesTheta = true ∧ Gen.C05.flipMirrorBranches = 2 ∧
    Gen.C05.flipShiftBranches = 2 := by decide

/-! ### update_coordinates -/
section ring
variable {α : Type} [CommRing α] [DecidableEq α] (S : Svc α)

/-- the complete position is never changed -/
theorem update_pos (p : Particle α) : pos (updateP S p) = pos p := by
  ext <;> simp only [pos, updateP] <;> ring

/-- x, y, z become integers -/
theorem update_integral (p : Particle α) :
    ∃ i j k : Int, (updateP S p).x = (i : α) ∧ (updateP S p).y = (j : α) ∧ (updateP S p).z = (k : α) :=
  ⟨_, _, _, rfl, rfl, rfl⟩

/-- nothing else moves: the whole pose (position, orientation, tomogram) is unchanged -/
theorem update_pose (p : Particle α) : absPose S (updateP S p) = absPose S p := by
  simp only [absPose, update_pos]; rfl

/-- updating twice is updating once -/
theorem update_idem (p : Particle α) : updateP S (updateP S p) = updateP S p := by
  have h : ∀ (a : α) (n : α), n + (a - n) = a := by intro a n; ring
  simp only [updateP, h]

end ring

section ordered
variable {α : Type} [_root_.Field α] [LinearOrder α] [IsStrictOrderedRing α] (S : Svc α)

/-- |shift| ≤ 1/2 after the update, for any rounding that stays within 1/2 of its argument -/
theorem update_shift_le_half (hr : ∀ v : α, |v - ((S.rnd v : Int) : α)| ≤ 1/2) (p : Particle α) :
    |(updateP S p).shift_x| ≤ 1/2 ∧ |(updateP S p).shift_y| ≤ 1/2 ∧ |(updateP S p).shift_z| ≤ 1/2 :=
  ⟨hr _, hr _, hr _⟩

end ordered

/-- ROUND_HALF_UP (half away from zero) stays within 1/2: both signs, ties included -/
theorem roundHalfUp_within_half (q : Rat) : |q - (roundHalfUp q : Rat)| ≤ 1/2 := roundHalfUp_close q

/-- ties: n + 1/2 ↦ n + 1 and −(n + 1/2) ↦ −(n + 1) for n ≥ 0; integers are fixed -/
theorem roundHalfUp_ties (n : Int) (hn : 0 ≤ n) :
    roundHalfUp ((n : Rat) + 1/2) = n + 1 ∧ roundHalfUp (-((n : Rat) + 1/2)) = -(n + 1) ∧ roundHalfUp (n : Rat) = n :=
  ⟨roundHalfUp_tie_pos n hn, roundHalfUp_tie_neg n hn, roundHalfUp_int n⟩

/-- **update_coordinates with the rounding the code uses**: complete position unchanged, x y z
integers, |shift| ≤ 1/2 — all particles, positions and shifts of either sign, ties included. -/
theorem update_spec (S : Svc Rat) (hS : S.rnd = roundHalfUp) (p : Particle Rat) :
    pos (updateP S p) = pos p ∧
    (∃ i j k : Int, (updateP S p).x = (i : Rat) ∧ (updateP S p).y = (j : Rat) ∧ (updateP S p).z = (k : Rat)) ∧
    |(updateP S p).shift_x| ≤ 1/2 ∧ |(updateP S p).shift_y| ≤ 1/2 ∧ |(updateP S p).shift_z| ≤ 1/2 :=
  ⟨update_pos S p, update_integral S p,
   update_shift_le_half S (by intro v; rw [hS]; exact roundHalfUp_close v) p⟩

/-! ### scale_coordinates, shift_positions, apply_rotation, flip_handedness -/
section ring2
variable {α : Type} [CommRing α] [DecidableEq α] (S : Svc α)

/-- the complete position is multiplied by the factor -/
theorem scale_pos (f : α) (p : Particle α) : pos (scaleP f p) = V3.smul f (pos p) := by
  ext <;> simp only [pos, scaleP, V3.smul] <;> ring

theorem scale_orient (f : α) (p : Particle α) : orient S (scaleP f p) = orient S p := rfl

/-- each particle moves by its own orientation applied to the shift vector -/
theorem shift_pos (v : V3 α) (p : Particle α) : pos (shiftP S v p) = pos p + (orient S p).apply v := by
  ext <;> simp only [pos, shiftP, V3.add_def, V3.add] <;> ring

theorem shift_orient (v : V3 α) (p : Particle α) : orient S (shiftP S v p) = orient S p := rfl

/-- s₁ then s₂ is s₁ + s₂ (equality of the whole particle records) -/
theorem shift_shift (v₁ v₂ : V3 α) (p : Particle α) : shiftP S v₂ (shiftP S v₁ p) = shiftP S (v₁ + v₂) p := by
  have ho : ∀ a b c : α, orient S { p with shift_x := a, shift_y := b, shift_z := c } = orient S p := fun _ _ _ => rfl
  unfold shiftP
  simp only [ho, M3.apply, V3.add_def, V3.add]
  congr 1 <;> ring

/-- `apply_rotation(Q)` does not move anything -/
theorem rotate_pos (q : M3 α) (p : Particle α) : pos (rotateP S q p) = pos p := rfl

/-- `apply_rotation(Q)` replaces the orientation R by R·Q (Q first), provided the Euler triple
scipy returns for this one product reproduces it -/
theorem rotate_orient (q : M3 α) (p : Particle α) (h : EulerOK S (orient S p * q)) :
    orient S (rotateP S q p) = orient S p * q := by
  have : orient S (rotateP S q p) = eulerMat S (S.euler (composeRot (orient S p) q)) := rfl
  rw [this]
  simp only [composeRot, rotation_on_right, if_true]
  exact h

/-- Q₁ then Q₂ is Q₁·Q₂ (equality of the whole particle records) -/
theorem rotate_rotate (q₁ q₂ : M3 α) (p : Particle α) (h : EulerOK S (orient S p * q₁)) :
    rotateP S q₂ (rotateP S q₁ p) = rotateP S (q₁ * q₂) p := by
  have ho := rotate_orient S q₁ p h
  unfold rotateP at *
  simp only [ho]
  simp only [composeRot, rotation_on_right, if_true, M3.mul_assoc']

/-- the mirrored orientation: theta ↦ −theta is conjugation by the z-mirror -/
theorem flip_orient (hc : CsOdd S) (d : Dims α) (p : Particle α) :
    orient S (flipP d p) = Mz * orient S p * Mz := by
  have key : orient S (flipP d p) = orient S { p with theta := -p.theta } := by
    unfold flipP; split <;> rfl
  rw [key]
  simp only [orient, hc p.theta, Mz_zxz]

/-- with a dimension for the particle's tomogram: complete z ↦ dim_z + 1 − z, x and y untouched -/
theorem flip_pos (d : Dims α) (p : Particle α) (dz : α) (h : dimOf d p.tomo_id = some dz) :
    pos (flipP d p) = ⟨(pos p).x, (pos p).y, dz + 1 - (pos p).z⟩ := by
  unfold flipP
  rw [h]
  ext <;> simp only [pos, flip_source_form.1, Nat.cast_one, Int.cast_one] <;> ring1

/-- without one (no dimensions given, or the tomogram is not in the table) nothing moves -/
theorem flip_pos_none (d : Dims α) (p : Particle α) (h : dimOf d p.tomo_id = none) : pos (flipP d p) = pos p := by
  unfold flipP; rw [h]; rfl

/-- applying `flip_handedness` twice restores the particle list entry -/
theorem flip_flip (d : Dims α) (p : Particle α) : flipP d (flipP d p) = p := by
  have ht : (flipP d p).tomo_id = p.tomo_id := by unfold flipP; split <;> rfl
  cases h : dimOf d p.tomo_id with
  | none =>
    have h' : dimOf d (flipP d p).tomo_id = none := by rw [ht, h]
    unfold flipP at *
    simp only [h] at *
    simp only [neg_neg]
  | some dz =>
    have h' : dimOf d (flipP d p).tomo_id = some dz := by rw [ht, h]
    have e : ∀ z : α, dz + ((Gen.C05.flipOffset : Int) : α) - (dz + ((Gen.C05.flipOffset : Int) : α) - z) = z := by
      intro z; ring
    unfold flipP at *
    simp only [h] at *
    simp only [neg_neg, e]

/-! ### refinement: every operation, hence every history, acts on the pose as the property says -/

/-- one operation -/
theorem absPose_applyOpP (hc : CsOdd S) (op : Op α) (p : Particle α) (h : StepOK S op p) :
    absPose S (applyOpP S op p) = specOp op (absPose S p) := by
  cases op with
  | update => exact update_pose S p
  | scale f => simp only [applyOpP, specOp, absPose, scale_pos]; rfl
  | shift v => simp only [applyOpP, specOp, absPose, shift_pos]; rfl
  | rotate q =>
    simp only [applyOpP, specOp, absPose, rotate_orient S q p h]; rfl
  | flip d =>
    have ht : (flipP d p).tomo_id = p.tomo_id := by unfold flipP; split <;> rfl
    simp only [applyOpP, specOp, absPose, flip_orient S hc, ht]
    cases hd : dimOf d p.tomo_id with
    | none => simp only [flip_pos_none d p hd]
    | some dz => rw [flip_pos d p dz hd]

/-- **any history (any length)**, one particle -/
theorem absPose_runOpsP (hc : CsOdd S) (ops : List (Op α)) (p : Particle α) (h : RunOK S ops p) :
    absPose S (runOpsP S ops p) = specRun ops (absPose S p) := by
  induction ops generalizing p with
  | nil => rfl
  | cons op ops ih =>
    obtain ⟨h1, h2⟩ := h
    simp only [runOpsP, specRun, List.foldl_cons] at *
    rw [ih (applyOpP S op p) h2, absPose_applyOpP S hc op p h1]

theorem runOps_eq_map (ops : List (Op α)) (m : Motl α) : runOps S ops m = m.map (runOpsP S ops) := by
  induction ops generalizing m with
  | nil => exact (List.map_id' m).symm
  | cons op ops ih =>
    simp only [runOps, List.foldl_cons] at *
    rw [ih]; simp only [applyOp, List.map_map]; rfl

/-- **any history on any particle list**: the list of poses after the history is the list of poses
the specification gives, particle by particle and in the same order -/
theorem absPose_runOps (hc : CsOdd S) (ops : List (Op α)) (m : Motl α) (h : ∀ p ∈ m, RunOK S ops p) :
    (runOps S ops m).map (absPose S) = m.map (fun p => specRun ops (absPose S p)) := by
  rw [runOps_eq_map, List.map_map]
  apply List.map_congr_left
  intro p hp
  exact absPose_runOpsP S hc ops p (h p hp)

/-- the orientation of every particle is a proper rotation when cos² + sin² = 1 -/
theorem orient_isRot (hu : ∀ a, (S.cs a).1 * (S.cs a).1 + (S.cs a).2 * (S.cs a).2 = 1) (p : Particle α) :
    IsRot (orient S p) :=
  isRot_zxz _ _ _ _ _ _ (hu _) (hu _) (hu _)

/-- **the per-history hypothesis `RunOK` follows from the usual global reading of the scipy
assumption**: if cos² + sin² = 1 and `as_euler` reproduces every proper rotation matrix, then every
history whose `apply_rotation` arguments are proper rotations satisfies `RunOK` (for every particle). -/
theorem runOK_of_global (hu : ∀ a, (S.cs a).1 * (S.cs a).1 + (S.cs a).2 * (S.cs a).2 = 1)
    (hE : ∀ m : M3 α, IsRot m → EulerOK S m) (ops : List (Op α))
    (hq : ∀ q, Op.rotate q ∈ ops → IsRot q) (p : Particle α) : RunOK S ops p := by
  induction ops generalizing p with
  | nil => trivial
  | cons op ops ih =>
    refine ⟨?_, ih (fun q hq' => hq q (List.mem_cons_of_mem _ hq')) _⟩
    cases op with
    | rotate q => exact hE _ ((orient_isRot S hu p).mul (hq q (List.mem_cons_self ..)))
    | _ => trivial

/-- any history on any list under the global assumptions -/
theorem absPose_runOps_global (hc : CsOdd S) (hu : ∀ a, (S.cs a).1 * (S.cs a).1 + (S.cs a).2 * (S.cs a).2 = 1)
    (hE : ∀ m : M3 α, IsRot m → EulerOK S m) (ops : List (Op α)) (hq : ∀ q, Op.rotate q ∈ ops → IsRot q) (m : Motl α) :
    (runOps S ops m).map (absPose S) = m.map (fun p => specRun ops (absPose S p)) :=
  absPose_runOps S hc ops m (fun p _ => runOK_of_global S hu hE ops hq p)

/-- rigidity: `shift_positions(s)` displaces every particle by a vector of the same length as s -/
theorem shift_rigid (hu : ∀ a, (S.cs a).1 * (S.cs a).1 + (S.cs a).2 * (S.cs a).2 = 1) (v : V3 α) (p : Particle α) :
    V3.normSq (pos (shiftP S v p) - pos p) = V3.normSq v := by
  have e : pos (shiftP S v p) - pos p = (orient S p).apply v := by
    rw [shift_pos]
    ext <;> simp only [V3.sub_def, V3.sub, V3.add_def, V3.add] <;> ring
  rw [e]
  exact (orient_isRot S hu p).1.normSq_apply v

/-- list level: s₁ then s₂ = s₁ + s₂ -/
theorem shift_shift_list (v₁ v₂ : V3 α) (m : Motl α) :
    applyOp S (.shift v₂) (applyOp S (.shift v₁) m) = applyOp S (.shift (v₁ + v₂)) m := by
  simp only [applyOp, List.map_map]
  apply List.map_congr_left; intro p _; exact shift_shift S v₁ v₂ p

/-- list level: Q₁ then Q₂ = Q₁·Q₂ -/
theorem rotate_rotate_list (q₁ q₂ : M3 α) (m : Motl α) (h : ∀ p ∈ m, EulerOK S (orient S p * q₁)) :
    applyOp S (.rotate q₂) (applyOp S (.rotate q₁) m) = applyOp S (.rotate (q₁ * q₂)) m := by
  simp only [applyOp, List.map_map]
  apply List.map_congr_left; intro p hp; exact rotate_rotate S q₁ q₂ p (h p hp)

/-- list level: flipping twice restores the list -/
theorem flip_flip_list (d : Dims α) (m : Motl α) : applyOp S (.flip d) (applyOp S (.flip d) m) = m := by
  simp only [applyOp, List.map_map]
  conv => rhs; rw [← List.map_id m]
  apply List.map_congr_left; intro p _; exact flip_flip d p

/-- list level: update is idempotent and changes no pose -/
theorem update_list (m : Motl α) :
    (applyOp S .update m).map (absPose S) = m.map (absPose S) ∧
    applyOp S .update (applyOp S .update m) = applyOp S .update m := by
  constructor
  · simp only [applyOp, List.map_map]
    apply List.map_congr_left; intro p _; exact update_pose S p
  · simp only [applyOp, List.map_map]
    apply List.map_congr_left; intro p _; exact update_idem S p

/-! ### the composition clauses at the level of the statement itself -/

theorem spec_shift_shift (v₁ v₂ : V3 α) (P : Pose α) :
    specOp (.shift v₂) (specOp (.shift v₁) P) = specOp (.shift (v₁ + v₂)) P := by
  simp only [specOp, M3.apply_add]
  congr 1
  ext <;> simp only [V3.add_def, V3.add] <;> ring

theorem spec_rotate_rotate (q₁ q₂ : M3 α) (P : Pose α) :
    specOp (.rotate q₂) (specOp (.rotate q₁) P) = specOp (.rotate (q₁ * q₂)) P := by
  simp only [specOp, M3.mul_assoc']

theorem spec_flip_flip (d : Dims α) (P : Pose α) : specOp (.flip d) (specOp (.flip d) P) = P := by
  have hR : ∀ R : M3 α, Mz * (Mz * R * Mz) * Mz = R := by
    intro R
    calc Mz * (Mz * R * Mz) * Mz = (Mz * Mz) * R * (Mz * Mz) := by simp only [M3.mul_assoc']
      _ = R := by rw [Mz_Mz, M3.one_mul', M3.mul_one']
  cases h : dimOf d P.tomo with
  | none => simp only [specOp, h, hR]
  | some dz =>
    have e : ∀ z : α, dz + 1 - (dz + 1 - z) = z := by intro z; ring
    simp only [specOp, h, hR, e]

end ring2

/-! ### verified checkers (exact rationals) for the operations without trigonometry -/

theorem checkUpdate_sound (b a : Particle Rat) (h : checkUpdate b a = true) :
    pos a = pos b ∧ (∃ i j k : Int, a.x = (i : Rat) ∧ a.y = (j : Rat) ∧ a.z = (k : Rat)) ∧
    |a.shift_x| ≤ 1/2 ∧ |a.shift_y| ≤ 1/2 ∧ |a.shift_z| ≤ 1/2 := by
  simp only [checkUpdate, Bool.and_eq_true, beq_iff_eq, decide_eq_true_eq] at h
  obtain ⟨⟨⟨⟨⟨⟨hp, hx⟩, hy⟩, hz⟩, h1⟩, h2⟩, h3⟩ := h
  obtain ⟨i, hi⟩ := isInt_iff _ hx
  obtain ⟨j, hj⟩ := isInt_iff _ hy
  obtain ⟨k, hk⟩ := isInt_iff _ hz
  rw [absR_eq_abs] at h1 h2 h3
  exact ⟨hp, ⟨i, j, k, hi, hj, hk⟩, h1, h2, h3⟩

/-- the model's own output passes the checker (the checker is not vacuous) -/
theorem checkUpdate_complete (S : Svc Rat) (hS : S.rnd = roundHalfUp) (p : Particle Rat) :
    checkUpdate p (updateP S p) = true := by
  obtain ⟨hp, _, h1, h2, h3⟩ := update_spec S hS p
  simp only [checkUpdate, Bool.and_eq_true, beq_iff_eq, decide_eq_true_eq, absR_eq_abs]
  refine ⟨⟨⟨⟨⟨⟨hp, ?_⟩, ?_⟩, ?_⟩, h1⟩, h2⟩, h3⟩ <;> simp [isInt, updateP]

theorem checkScale_sound (f : Rat) (b a : Particle Rat) (h : checkScale f b a = true) :
    pos a = V3.smul f (pos b) := by
  simpa [checkScale] using h

/-- an accepted output of `flip_handedness` has the mirrored pose under every admissible cos/sin -/
theorem checkFlip_sound (S : Svc Rat) (hc : CsOdd S) (d : Dims Rat) (b a : Particle Rat) (h : checkFlip d b a = true) :
    absPose S a = specOp (.flip d) (absPose S b) := by
  simp only [checkFlip, Bool.and_eq_true, beq_iff_eq] at h
  obtain ⟨⟨⟨⟨ht, hphi⟩, hpsi⟩, htomo⟩, hpos⟩ := h
  have ho : orient S a = Mz * orient S b * Mz := by
    simp only [orient, ht, hphi, hpsi, hc b.theta, Mz_zxz]
  simp only [absPose, specOp, ho, htomo]
  cases hd : dimOf d b.tomo_id with
  | none =>
    rw [hd] at hpos
    simp only [beq_iff_eq] at hpos
    simp only [hpos]
  | some dz =>
    rw [hd] at hpos
    simp only [beq_iff_eq] at hpos
    simp only [hpos]

/-! ### non-vacuity: concrete services and inputs meeting every hypothesis above -/

/-- `CsOdd` is satisfiable -/
example : CsOdd exS := by
  intro a
  simp only [exS]
  by_cases h1 : a = 90
  · subst h1; norm_num
  by_cases h2 : a = -90
  · subst h2; norm_num
  by_cases h3 : a = 180
  · subst h3; norm_num
  by_cases h4 : a = -180
  · subst h4; norm_num
  have e1 : ¬ (-a = 90) := fun h => h2 (by linarith)
  have e2 : ¬ (-a = -90) := fun h => h1 (by linarith)
  have e3 : ¬ (-a = 180) := fun h => h4 (by linarith)
  have e4 : ¬ (-a = -180) := fun h => h3 (by linarith)
  simp [h1, h2, h3, h4, e1, e2, e3, e4]

/-- `EulerOK` is satisfiable for a non-trivial rotation of a particle with a non-trivial orientation … -/
example : EulerOK exS (orient exS exP * rz 0 1) := by unfold EulerOK; decide +kernel
/-- … and a history with every kind of operation meets `RunOK` -/
example : RunOK exS [.rotate (rz 0 1), .update, .scale 2, .shift ⟨1, 2, 3⟩, .flip (.table [(1, 50), (2, 60)]), .flip (.single 40)] exP := by
  refine ⟨?_, trivial, trivial, trivial, trivial, trivial, trivial⟩
  unfold StepOK EulerOK; decide +kernel
example : exS.rnd = roundHalfUp := rfl
/-- ties in both directions: 5 + 1/2 ↦ 6, −7 − 5/2 = −19/2 ↦ −10 -/
example : (updateP exS exP).x = 6 ∧ (updateP exS exP).y = -10 ∧ (updateP exS exP).shift_x = -1/2 ∧ (updateP exS exP).shift_y = 1/2 := by
  decide +kernel
example : dimOf (.table [(1, 50), (2, 60)]) exP.tomo_id = some (60 : Rat) := by decide +kernel
example : checkUpdate exP (updateP exS exP) = true := by decide +kernel
example : checkFlip (.single 40) exP (flipP (.single 40) exP) = true := by decide +kernel
/-- the rotated example particle really has the orientation R·Q -/
example : orient exS (rotateP exS (rz 0 1) exP) = orient exS exP * rz 0 1 := by decide +kernel

end CryoCat.C05
