import CryoCat.Lemmas.C02_WriteOk
/-! C02 — property theorems: STAR files read back to the same blocks, columns, rows and values.
Only theorems and non-vacuity examples; the proofs are in `Lemmas/C02*.lean`. The model
(`Model/C02.lean`) is the one the driver executes; the layout grammar of the statement is
`Model/C02_Layout.lean`. -/
namespace CryoCat.C02

/-! ### translator obligations: the literals of `cryocat/starfileio.py` are the documented ones -/

theorem anchors_ok : Gen.C02.anchorsOk = true := by decide

/-- `Token.tokenize`: split at `\n`, `#` starts a comment, a sequence starting with `_` is a PROPERTY
(tested first), the sequence `loop_` is LOOP (tested second), anything else a LITERAL; a column name
is the PROPERTY without its first character -/
theorem tokenizer_literals_documented :
    Gen.C02.lineSep = '\n' ∧ Gen.C02.commentChar = '#' ∧ Gen.C02.propPrefix = '_' ∧
    Gen.C02.loopKw = ['l', 'o', 'o', 'p', '_'] ∧ Gen.C02.classifyOrder = ["PROPERTY", "LOOP", "LITERAL"] ∧
    Gen.C02.propNameDrop = 1 := by decide

/-- `Starfile.write`: `round(6)` before formatting, `'{:<10}'` cells joined by a tab, `stopgap` in the
block name or `number_columns=False` selects the un-numbered header, and the order and text of the
writes of one block (`\n<name>\n\n`, `loop_\n`, `_<col> #<i>\n` from 1 / `_<col>\n`, a blank line for
STOPGAP, the rows, a blank line) -/
theorem writer_literals_documented :
    Gen.C02.floatPrecision = 6 ∧ Gen.C02.roundsBeforeFormat = true ∧
    Gen.C02.cellFill = [] ∧ Gen.C02.cellAlign = ['<'] ∧ Gen.C02.cellWidth = 10 ∧
    Gen.C02.cellSep = ['\t'] ∧ Gen.C02.rowEnd = ['\n'] ∧
    Gen.C02.stopgapKw = ['s', 't', 'o', 'p', 'g', 'a', 'p'] ∧
    Gen.C02.numberedCond = "write_without_numberifnotnumber_columnsorstopgapelsewrite_with_number" ∧
    Gen.C02.labelCall = "write_function(column,index)" ∧
    Gen.C02.labelNumbered = [['_'], [' ', '#'], ['\n']] ∧ Gen.C02.labelPlain = [['_'], ['\n']] ∧
    Gen.C02.specLine = [['\n'], ['\n', '\n']] ∧ Gen.C02.loopLine = ['l', 'o', 'o', 'p', '_', '\n'] ∧
    Gen.C02.stopgapExtra = ['\n'] ∧ Gen.C02.blockEnd = ['\n'] ∧ Gen.C02.labelStart = 1 := by decide

/-! ### reading -/

/-- **Line tokenizer.** For every decomposition of a line into leading blanks, words (non-empty, no
white space, no `#`) each followed by a run of blanks/tabs/CR (non-empty between two words), and an
optional `# comment`, the character loop of `Token.tokenize` returns exactly those words, in order,
and that comment. -/
theorem tokenizeLine_spec (lead : List Char) (items : List (Word × List Char)) (tl : List Char)
    (hl : PadOk lead) (hw : ∀ p ∈ items, WordOk p.1 ∧ PadOk p.2) (hs : SepsOk items) (ht : Tail tl) :
    tokenizeLine (lead ++ (render items ++ tl)) = finish ((items.map (·.1)).reverse) tl :=
  tokenizeLine_line ⟨lead, items, tl⟩ ⟨hl, hw, hs, ht⟩

/-- the tokens of such a line: its words classified (`_…` PROPERTY, `loop_` LOOP, else LITERAL), the
comment, NEWLINE -/
theorem line_tokens (l : Line) (h : l.Ok) : lineToks l.text = l.toks := lineToks_line l h

/-- `text.split("\n")` followed by the line tokenizer sees a text line by line -/
theorem text_tokens (ls : List Line) (hne : ls ≠ []) (h : ∀ l ∈ ls, l.Ok) :
    tokenize (joinLines (ls.map Line.text)) = ls.flatMap Line.toks := tokenize_lines ls hne h

/-- **Any well laid-out STAR text is read into exactly its blocks, labels and row tokens.**
`d` ranges over all documents of the layout grammar of the statement (`Doc.Ok`): any number of data
blocks with one loop each; blank and `#` comment lines before a block, between its name and `loop_`,
after the column labels, between blocks and at the end; labels with or without a trailing `#n`
comment; tokens separated by arbitrary runs of blanks/tabs with leading and trailing blanks; with or
without final newline; an empty loop only last. No bound on sizes. -/
theorem read_any_layout (d : Doc) (h : d.Ok) : readStar d.text = .ok (d.blocks.map BlockLayout.block) :=
  readStar_doc d h

/-- **Numeric typing of a column**: a column of a non-empty block is numeric iff every one of its
cells is a number; all other columns keep their cells as the unchanged texts `readStar` returned. -/
theorem column_typing (isNum : Word → Bool) (rows : List (List Word)) (j : Nat) :
    colNumeric isNum rows j = true ↔ rows ≠ [] ∧ ∀ r ∈ rows, isNum (r.getD j []) = true := by
  simp [colNumeric, column, List.all_eq_true, List.isEmpty_iff]

/-! ### writing, then reading -/

/-- **Round trip.** For any list of tables — any number of blocks, any sizes, numbered (RELION) or
un-numbered header (`number_columns` off, or a STOPGAP block name), cells any texts that are words
(non-empty, no white space, no `#`), do not start with `_` and are not the reserved word `loop_`,
at least one column, an empty table only as the last block — reading the text `Starfile.write`
produces returns the same block names, column names and rows of cells, all in order. -/
theorem star_roundtrip (numberColumns : Bool) (bs : List Block) (h : ∀ b ∈ bs, BlockOk b)
    (he : EmptyOnlyLast bs) : readStar (printStar numberColumns bs) = .ok bs :=
  readStar_printStar numberColumns bs h he

/-- the written text *is* a document of the layout grammar (so every fact about reading laid-out
texts applies to files written by cryoCAT) -/
theorem written_text_is_laid_out (numberColumns : Bool) (bs : List Block) (hne : bs ≠ [])
    (h : ∀ b ∈ bs, BlockOk b) (he : EmptyOnlyLast bs) :
    (docOf numberColumns bs).Ok ∧ (docOf numberColumns bs).text = printStar numberColumns bs :=
  ⟨docOf_ok numberColumns bs h he, docOf_text numberColumns bs hne⟩

/-- **Witness for the open finding C02-K1** (and the reason `loop_` is excluded in `BlockOk`): a text
cell equal to the reserved word is written verbatim and the reader then fails. -/
theorem loop_cell_breaks_roundtrip :
    readStar (printStar true [{ name := "data_".toList, cols := ["t".toList], rows := [["loop_".toList]] }])
      = .error .trailing := by decide +kernel

/-- the hypothesis "an empty table only as the last block" is needed: after an empty loop the next
block name is consumed as a cell -/
theorem empty_block_not_last_breaks :
    readStar (printStar true [{ name := "data_a".toList, cols := ["x".toList], rows := [] },
                              { name := "data_b".toList, cols := ["y".toList], rows := [["1".toList]] }])
      ≠ .ok [{ name := "data_a".toList, cols := ["x".toList], rows := [] },
             { name := "data_b".toList, cols := ["y".toList], rows := [["1".toList]] }] := by decide +kernel

/-! ### non-vacuity: concrete inputs meeting the hypotheses -/

abbrev exBlocks : List Block :=
  [{ name := "data_optics".toList, cols := ["rlnVoltage".toList, "rlnName".toList], rows := [["300.0".toList, "opticsGroup1".toList]] },
   { name := "data_stopgap_motl".toList, cols := ["x".toList], rows := [] }]
/-- two blocks (RELION-style and STOPGAP, the empty table last) meet the hypotheses of `star_roundtrip` -/
example : (∀ b ∈ exBlocks, BlockOk b) ∧ EmptyOnlyLast exBlocks := by decide
example : printStar true exBlocks = "\ndata_optics\n\nloop_\n_rlnVoltage #1\n_rlnName #2\n300.0     \topticsGroup1\n\n\ndata_stopgap_motl\n\nloop_\n_x\n\n\n".toList := by decide
example : printStar false exBlocks = "\ndata_optics\n\nloop_\n_rlnVoltage\n_rlnName\n300.0     \topticsGroup1\n\n\ndata_stopgap_motl\n\nloop_\n_x\n\n\n".toList := by decide
example : readStar (printStar true exBlocks) = .ok exBlocks := by decide


def cLine (c : String) : Line := ⟨[], [], '#' :: c.toList⟩
abbrev exDoc : Doc :=
  { blocks := [{ pre := [cLine " made by hand", eLine], name := "data_".toList,
                 nameLine := ⟨[' '], [("data_".toList, ['\t'])], []⟩, mid := [],
                 loopLine := ⟨[], [("loop_".toList, [' '])], []⟩,
                 cols := ["a".toList, "b".toList],
                 labels := [⟨[], [("_a".toList, [' '])], "#1".toList⟩, ⟨[], [("_b".toList, [])], []⟩],
                 post := [cLine "x", ⟨[' '], [], []⟩],
                 rows := [⟨['\t'], [("1.5".toList, [' ', ' ', '\t']), ("x".toList, [' '])], []⟩] }],
    trailing := [cLine " end"] }
example : exDoc.text = "# made by hand\n\n data_\t\nloop_ \n_a #1\n_b\n#x\n \n\t1.5  \tx \n# end".toList := by decide
/-- a hand-made text with comment lines, blank lines, a `#1` label comment, tabs, runs of blanks,
leading and trailing blanks and no final newline meets the hypothesis of `read_any_layout` -/
example : exDoc.Ok := by decide
example : readStar exDoc.text = .ok [{ name := "data_".toList, cols := ["a".toList, "b".toList], rows := [["1.5".toList, "x".toList]] }] := by decide
example : blockKinds isNumTok { name := [], cols := ["a".toList, "b".toList, "c".toList], rows := [["1.5".toList, "x".toList, "1e5".toList], ["-2".toList, "3".toList, ".5".toList]] } = [true, false, true] := by decide
example : tokenizeLine "  1.0   \tx # c".toList = (["1.0".toList, "x".toList], some " c".toList) := by decide


end CryoCat.C02
