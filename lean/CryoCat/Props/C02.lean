import CryoCat.Lemmas.C02_WriteOk
import CryoCat.Lemmas.C02_NumWrite
import CryoCat.Lemmas.C02_Crlf
import CryoCat.Lemmas.C02_ComRead
import CryoCat.Lemmas.C02_Hard
import CryoCat.Lemmas.C02_Export
import CryoCat.Lemmas.C02_Value
import CryoCat.Lemmas.C02_Reject
/-! C02 — property theorems: STAR files read back to the same blocks, columns, rows and values.
Only theorems and non-vacuity examples; the proofs are in `Lemmas/C02*.lean`. The model
(`Model/C02.lean`) is the one the driver executes; the layout grammar of the statement is
`Model/C02_Layout.lean`.

The pure theorems other properties build on (`star_roundtrip`, `written_column_typing`, `typed_roundtrip`; used by
C04) are proved in `Lemmas/C02_Export.lean`, which does not contain (or import) any translator obligation; here they
are re-exported under the same names with the same statements. Other properties import `Lemmas/C02_Export`, never
this file: this file stops building when an anchor fails or a regenerated dump of `Gen/C02.lean` changes, and only
C02 may fail for that. -/
namespace CryoCat.C02

/-! ### translator obligations: the literals of `cryocat/starfileio.py` are the documented ones -/

theorem anchors_ok : Gen.C02.anchorsOk = true := by decide

/-- `Token.tokenize`: split at `\n`, `#` starts a comment, a sequence starting with `_` is a PROPERTY
(tested first), the sequence `loop_` is LOOP (tested second), anything else a LITERAL; a column name
is the PROPERTY without its first character -/
theorem tokenizer_literals_documented :
    Gen.C02.lineSep = '\n' ∧ Gen.C02.commentChar = '#' ∧ Gen.C02.propPrefix = '_' ∧
    Gen.C02.loopKw = ['l', 'o', 'o', 'p', '_'] ∧ Gen.C02.classifyOrder = ["PROPERTY", "LOOP", "LITERAL"] ∧
    Gen.C02.propNameDrop = 1 := by decide

/-- `Starfile.write`: `round(6)` before formatting, `'{:<10}'` cells joined by a tab, `stopgap` in the
block name or `number_columns=False` selects the un-numbered header, and the order and text of the
writes of one block (`\n<name>\n\n`, `loop_\n`, `_<col> #<i>\n` from 1 / `_<col>\n`, a blank line for
STOPGAP, the rows, a blank line) -/
theorem writer_literals_documented :
    Gen.C02.floatPrecision = 6 ∧ Gen.C02.roundsBeforeFormat = true ∧
    Gen.C02.cellFill = [] ∧ Gen.C02.cellAlign = ['<'] ∧ Gen.C02.cellWidth = 10 ∧
    Gen.C02.cellSep = ['\t'] ∧ Gen.C02.rowEnd = ['\n'] ∧
    Gen.C02.stopgapKw = ['s', 't', 'o', 'p', 'g', 'a', 'p'] ∧
    Gen.C02.numberedCond = "write_without_numberifnotnumber_columnsorstopgapelsewrite_with_number" ∧
    Gen.C02.labelCall = "write_function(column,index)" ∧
    Gen.C02.labelNumbered = [['_'], [' ', '#'], ['\n']] ∧ Gen.C02.labelPlain = [['_'], ['\n']] ∧
    Gen.C02.specLine = [['\n'], ['\n', '\n']] ∧ Gen.C02.loopLine = ['l', 'o', 'o', 'p', '_', '\n'] ∧
    Gen.C02.stopgapExtra = ['\n'] ∧ Gen.C02.blockEnd = ['\n'] ∧ Gen.C02.labelStart = 1 := by decide

/-- **The table is written as it is**: the only re-binding of the table inside the block loop of
`Starfile.write` is the cell formatting (`frame.map(format_value)`, with the pandas-2 fall-back
`applymap`) — no sorting, no de-duplication, no re-indexing — and the rows are taken in the order of
the table, row labels left out (`frame.itertuples(index=False)`). The harness writes tables with
permuted, repeated and string row labels, so an edit here also shows as a failing input. -/
theorem writer_rows_documented :
    Gen.C02.frameStatements = ["frame=frame.map(format_value)ifhasattr(frame,'map')elseframe.applymap(format_value)"] ∧
    Gen.C02.rowsLoop = "frame.itertuples(index=False)" := ⟨by decide, rfl⟩

/-- the `comments` argument of `Starfile.write` (`\n# <c>` per comment, then `\n`, before the specifier
line), the value of a COMMENT token (stripped), `parse_newline_or_comments`, the order of the comment
lists `Starfile.read` concatenates per block, its `data_id` branch, `get_specifier_id` and
`get_frame_and_comments` are the documented ones (function bodies as normalised dumps: locals renamed
`v0, v1, …` in order of first binding, error messages dropped — renaming a local does not matter) -/
theorem comments_and_selection_documented :
    Gen.C02.commentLine = [['\n', '#', ' '], []] ∧ Gen.C02.commentsEnd = ['\n'] ∧
    Gen.C02.commentValue = "line[index+1:].strip()" ∧
    Gen.C02.commentsOrder = "parse_specifier+parse_columns+parse_rows" ∧
    Gen.C02.dataIdBranch = "ifv1isnotNone:;return(v5[v1],v7[v1],v6[v1]);else:;return(v5,v7,v6)" ∧
    Gen.C02.newlineOrComments = "v1=[];whileTrue:;v2=Token.check_then_consume(v0,TokenType.COMMENT);ifv2isnotNone:;v1.append(v2.value);elifnotToken.check_then_consume(v0,TokenType.NEWLINE):;break;returnv1" ∧
    Gen.C02.getSpecifierId = "ifv1inv0:;returnv0.index(v1);else:;returnNone" ∧
    Gen.C02.getFrameAndComments = "v2,v3,v4=Starfile.read(v0);v5=Starfile.get_specifier_id(v3,v1);ifv5isNone:;raiseValueError();return(v2[v5],v4[v5])" :=
  ⟨by decide, by decide, rfl, rfl, rfl, rfl, rfl, rfl⟩

/-- **Signature defaults** the statement depends on: `Starfile.write(frames, path, specifiers=None,
comments=None, number_columns=True, float_precision=6)`, `specifiers=None` means `["data"] * len(frames)`,
`comments=None` means no comments, then the length check and `frames[i] = f.round(float_precision)`;
`Starfile.read(file_path, data_id=None)`; `remove_lines(..., output_file=None, data_specifier=None,
number_columns=True)` -/
theorem signature_defaults_documented :
    Gen.C02.writeSignature = ["frames", "path", "specifiers=None", "comments=None", "number_columns=True", "float_precision=6"] ∧
    Gen.C02.readSignature = ["file_path", "data_id=None"] ∧
    Gen.C02.removeLinesSignature = ["file_path", "lines_to_remove", "output_file=None", "data_specifier=None", "number_columns=True"] ∧
    Gen.C02.defaultSpecifier = ['d', 'a', 't', 'a'] ∧ Gen.C02.numberColumnsDefault = true ∧
    Gen.C02.removeLinesNumberColumnsDefault = true ∧
    Gen.C02.writeDefaults = "ifv2isNone:;v2=['data']*len(v0);ifv3isNone:;v3=(None,)*len(v0);iflen(v0)!=len(v2)orlen(v0)!=len(v3)orlen(v2)!=len(v3):;raiseValueError();forv6,v7inenumerate(v0):;v0[v6]=v7.round(v5)" :=
  ⟨by decide, by decide, by decide, by decide, rfl, rfl, rfl⟩

/-- **The character loop of `Token.tokenize` is the documented one** (whole-body dump: locals numbered
by binding occurrence, the message of the `IOError` dropped): split at `\n`; per line the pending
sequence starts at the first character that is neither `str.isspace()` nor `#`; at a blank or `#` the
sequence `line[first:index]` — the WHOLE slice, nothing cut off — becomes a PROPERTY / LOOP / LITERAL
token; `#` turns the rest of the line, stripped, into a COMMENT; a sequence pending at the end of the
line is classified the same way from `line[first:]`; every line ends with a NEWLINE token; the list
is returned reversed (the parser pops from its end). What `go` / `tokenizeLine` / `lineToks` /
`tokenize` model. -/
theorem tokenizer_body_documented :
    Gen.C02.body_tokenize = "v1=list();v2=v0.split('\\n');forv3,v4inenumerate(v2):;v5=None;forv6,v7inenumerate(v4):;ifnotv7.isspace()andv7!='#':;ifv5isNone:;v5=v6;continue;elifv5isnotNone:;ifv4[v5]=='_':;v1.append(Token(TokenType.PROPERTY,v4[v5:v6],(v3,v5)));elifv4[v5:v6]=='loop_':;v1.append(Token(TokenType.LOOP,v4[v5:v6],(v3,v5)));else:;v1.append(Token(TokenType.LITERAL,v4[v5:v6],(v3,v5)));v5=None;ifv7=='#':;v1.append(Token(TokenType.COMMENT,v4[v6+1:].strip(),(v3,v6)));break;elifnotv7.isspace():;raiseIOError();ifv5isnotNone:;ifv4[v5]=='_':;v1.append(Token(TokenType.PROPERTY,v4[v5:],(v3,v5)));elifv4[v5:]=='loop_':;v1.append(Token(TokenType.LOOP,v4[v5:],(v3,v5)));else:;v1.append(Token(TokenType.LITERAL,v4[v5:],(v3,v5)));v1.append(Token(TokenType.NEWLINE,None,(v3,0)));returnv1[::-1]" := rfl

/-- **The constructors are the documented ones** (whole-body dumps): `Token.__init__` stores the token type, the value AS GIVEN —
no normalisation, no trimming, no case folding — and the 1-based location; `Starfile.__init__` on an existing file is exactly
`self.read(file_path)` — nothing kept between two calls — and otherwise stores its arguments. The harness reads back through
`Starfile(path)` in a fifth of the write / read cases and in half of the repeated rounds on one path, and writes text cells, labels
and block names that Unicode normalisation would change. -/
theorem constructors_documented :
    Gen.C02.body_token_init = "v0.token_type=v1;v0.value=v2;v0.location=(v3[0]+1,v3[1]+1)" ∧
    Gen.C02.body_starfile_init = "ifv1andpath.isfile(v1):;v0.frames,v0.specifiers,v0.comments=v0.read(v1);else:;v0.frames=v2;v0.specifiers=v3;v0.comments=v4" :=
  ⟨rfl, rfl⟩

/-- **The whole of `Starfile.write` is the documented one** (normalised dump of every statement: the defaults, the length check,
the rounding, the `with`, the three nested functions — the label writers pass the name on uncut, `format_value` pads `str(value)`
uncut — the block loop with its row loop, and nothing after it). What `printStarC` / `printBlock` / `labelText` / `padCell` /
`rowText` model; the literal pieces are pinned separately (`writer_literals_documented`, blanks inside string literals by the
framework's binding fingerprint). A statement added anywhere in the function breaks this theorem. -/
theorem writer_body_documented :
    Gen.C02.body_write = "ifv2isNone:;v2=['data']*len(v0);ifv3isNone:;v3=(None,)*len(v0);iflen(v0)!=len(v2)orlen(v0)!=len(v3)orlen(v2)!=len(v3):;raiseValueError();forv6,v7inenumerate(v0):;v0[v6]=v7.round(v5);withopen(v1,'w')asv8:;;defv9(v10,v11):;v8.write(f'_{v10}#{v11}\\n');;defv12(v13,v14):;v8.write(f'_{v13}\\n');;defv15(v16):;return'{:<10}'.format(str(v16));forv17,v18,v19inzip(v0,v2,v3):;v17=v17.map(v15)ifhasattr(v17,'map')elsev17.applymap(v15);v20='stopgap'inv18;v21=v12ifnotv4orv20elsev9;ifv19isnotNone:;forv22inv19:;v8.write(f'\\n#{v22}');v8.write('\\n');v8.write(f'\\n{v18}\\n\\n');v8.write('loop_\\n');forv23,v24inenumerate(v17.columns,1):;v21(v24,v23);ifv20:;v8.write('\\n');forv25inv17.itertuples(index=False):;v8.write('\\t'.join(map(str,v25))+'\\n');v8.write('\\n')" := rfl

/-- **The parser half is the documented one**: whole-body dumps (statement kinds and expressions,
locals renamed, messages dropped) of `parse_specifier`, `parse_columns`, `parse_column`, `parse_rows`,
`check`, `consume`, `check_then_consume`, `lookahead`, the loop of `Starfile.read` and
`_to_numeric_if_possible` — what `parseSpecifier`, `parseColumns`, `parseLabels`, `rowsGo`,
`lookaheadLit`, `blocksGoC` and `colNumeric` model. An added, removed or changed statement breaks
this theorem; a renamed local, an added type annotation or a reworded error message does not; the
spellings `len(x) == 0` / `not x` and `len(x) > 0` / `x` are folded (the dump shows `not x` / `x`). -/
theorem parser_documented :
    Gen.C02.body_parse_specifier = "v1=Token.parse_newline_or_comments(v0);v2=Token.consume(v0,TokenType.LITERAL);return(v1,v2.value)" ∧
    Gen.C02.body_parse_columns = "v1=Token.parse_newline_or_comments(v0);v2=[];Token.consume(v0,TokenType.LOOP);Token.consume(v0,TokenType.NEWLINE);whileToken.check(v0,TokenType.PROPERTY):;v3=Token.parse_column(v0);v2.append(v3);return(v1,v2)" ∧
    Gen.C02.body_parse_column = "v1=Token.consume(v0,TokenType.PROPERTY);Token.check_then_consume(v0,TokenType.COMMENT);Token.consume(v0,TokenType.NEWLINE);returnv1.value[1:]" ∧
    Gen.C02.body_parse_rows = "v2=Token.parse_newline_or_comments(v0);v3=False;v4=[];whilenotv3:;v5=[];forv6inrange(len(v1)):;v7=Token.check_then_consume(v0,TokenType.LITERAL);ifv7isNone:;v3=True;break;else:;v5.append(v7.value);else:;Token.consume(v0,TokenType.NEWLINE);v4.append(v5);return(v2,pd.DataFrame(v4,columns=v1))" ∧
    Gen.C02.body_check = "ifnotv0:;raiseIOError();ifv0[-1].token_type==v1:;returnTrue;returnFalse" ∧
    Gen.C02.body_consume = "ifnotv0:;raiseIOError();ifv0[-1].token_type==v1:;returnv0.pop();else:;raiseIOError()" ∧
    Gen.C02.body_check_then_consume = "ifv0andv0[-1].token_type==v1:;returnToken.consume(v0,v1);returnNone" ∧
    Gen.C02.body_lookahead = "v2=set(v2);forv3inrange(len(v0)-1,-1,-1):;ifv0[v3].token_type==v1:;returnTrue;elifv0[v3].token_typeinv2:;continue;else:;break;returnFalse" ∧
    Gen.C02.body_read = "withopen(v0,mode='r')asv2:;v3=v2.read();v4=Token.tokenize(v3);v5=[];v6=[];v7=[];whileToken.lookahead(v4,TokenType.LITERAL,[TokenType.NEWLINE,TokenType.COMMENT]):;v8,v9=Token.parse_specifier(v4);v10,v11=Token.parse_columns(v4);v12,v13=Token.parse_rows(v4,v11);v6.append(v8+v10+v12);v7.append(v9);v5.append(v13);Token.parse_newline_or_comments(v4);ifv4:;raiseIOError();forv14,v15inenumerate(v5):;v5[v14]=v15.apply(Starfile._to_numeric_if_possible);ifv1isnotNone:;return(v5[v1],v7[v1],v6[v1]);else:;return(v5,v7,v6)" ∧
    Gen.C02.body_to_numeric_if_possible = "try:;returnpd.to_numeric(v0);except(ValueError,TypeError):;returnv0" :=
  ⟨rfl, rfl, rfl, rfl, rfl, rfl, rfl, rfl, rfl, rfl⟩

/-- `Starfile.remove_lines` is the documented one (what `removeLines` models): read, block 0 or the
block `get_specifier_id` finds (absent: a warning and nothing written), drop the rows at the given
positions, write the frames back with the specifiers and comments `read` returned -/
theorem remove_lines_documented :
    Gen.C02.body_remove_lines = "v5,v6,v7=Starfile.read(v0);ifv3isNone:;v8=0;else:;v8=Starfile.get_specifier_id(v6,v3);ifv8isNone:;warnings.warn();return;v9=v5[v8].index[v1];v5[v8]=v5[v8].drop(v9);v5[v8].reset_index(drop=True,inplace=True);ifv2isnotNone:;Starfile.write(v5,v2,specifiers=v6,comments=v7,number_columns=v4);else:;return(v5,v6,v7)" := rfl

/-! ### reading -/

/-- **Line tokenizer.** For every decomposition of a line into leading blanks, words (non-empty, no
white space, no `#`) each followed by a run of blanks/tabs/CR (non-empty between two words), and an
optional `# comment`, the character loop of `Token.tokenize` returns exactly those words, in order,
and that comment. -/
theorem tokenizeLine_spec (lead : List Char) (items : List (Word × List Char)) (tl : List Char)
    (hl : PadOk lead) (hw : ∀ p ∈ items, WordOk p.1 ∧ PadOk p.2) (hs : SepsOk items) (ht : Tail tl) :
    tokenizeLine (lead ++ (render items ++ tl)) = finish ((items.map (·.1)).reverse) tl :=
  tokenizeLine_line ⟨lead, items, tl⟩ ⟨hl, hw, hs, ht⟩

/-- the tokens of such a line: its words classified (`_…` PROPERTY, `loop_` LOOP, else LITERAL), the
comment, NEWLINE -/
theorem line_tokens (l : Line) (h : l.Ok) : lineToks l.text = l.toks := lineToks_line l h

/-- `text.split("\n")` followed by the line tokenizer sees a text line by line -/
theorem text_tokens (ls : List Line) (hne : ls ≠ []) (h : ∀ l ∈ ls, l.Ok) :
    tokenize (joinLines (ls.map Line.text)) = ls.flatMap Line.toks := tokenize_lines ls hne h

/-- **Any well laid-out STAR text is read into exactly its blocks, labels and row tokens.**
`d` ranges over all documents of the layout grammar of the statement (`Doc.Ok`): any number of data
blocks with one loop each; blank and `#` comment lines before a block, between its name and `loop_`,
after the column labels, between blocks and at the end; labels with or without a trailing `#n`
comment; tokens separated by arbitrary runs of blanks/tabs with leading and trailing blanks; with or
without final newline; an empty loop only last. No bound on sizes. -/
theorem read_any_layout (d : Doc) (h : d.Ok) : readStar d.text = .ok (d.blocks.map BlockLayout.block) :=
  readStar_doc d h

/-- **Numeric typing of a column**: a column of a non-empty block is numeric iff every one of its
cells is a number; all other columns keep their cells as the unchanged texts `readStar` returned. -/
theorem column_typing (isNum : Word → Bool) (rows : List (List Word)) (j : Nat) :
    colNumeric isNum rows j = true ↔ rows ≠ [] ∧ ∀ r ∈ rows, isNum (r.getD j []) = true := by
  simp [colNumeric, column, List.all_eq_true, List.isEmpty_iff]

/-! ### writing, then reading -/

/-- **Round trip.** For any list of tables — any number of blocks, any sizes, numbered (RELION) or
un-numbered header (`number_columns` off, or a STOPGAP block name), cells any texts that are words
(non-empty, no white space, no `#`), do not start with `_` and are not the reserved word `loop_`,
at least one column, an empty table only as the last block — reading the text `Starfile.write`
produces returns the same block names, column names and rows of cells, all in order. -/
theorem star_roundtrip (numberColumns : Bool) (bs : List Block) (h : ∀ b ∈ bs, BlockOk b)
    (he : EmptyOnlyLast bs) : readStar (printStar numberColumns bs) = .ok bs :=
  Export.star_roundtrip numberColumns bs h he

/-- the written text *is* a document of the layout grammar (so every fact about reading laid-out
texts applies to files written by cryoCAT) -/
theorem written_text_is_laid_out (numberColumns : Bool) (bs : List Block) (hne : bs ≠ [])
    (h : ∀ b ∈ bs, BlockOk b) (he : EmptyOnlyLast bs) :
    (docOf numberColumns bs).Ok ∧ (docOf numberColumns bs).text = printStar numberColumns bs :=
  ⟨docOf_ok numberColumns bs h he, docOf_text numberColumns bs hne⟩


/-! ### numeric typing inside the model -/

/-- **The recogniser is the grammar.** `isNumTok` — what the driver runs to type a column, the model of
`pandas.to_numeric` on one cell — accepts exactly the tokens of the declarative grammar `NumTok`:
`[+-]?(d+[.d*]|.d+)([eE][+-]?d+)?` or `[+-]?(inf|infinity)` in any letter case. -/
theorem numeric_grammar (w : Word) : isNumTok w = true ↔ NumTok w := isNumTok_iff w

/-- **Every cell the writer prints for a number is a number token, every text cell of the
quantifier is not.** `str(n)` of any integer; `repr` of any finite float, laid out from *any*
non-empty digit string and *any* decimal-point position (fixed form, `.0`, exponent form beyond 16 /
below -4 digits, two-digit exponent); `inf`/`-inf`. Conversely a cell outside the grammar — in
particular any word containing a character that no number contains — is never typed as a number. -/
theorem writer_cells_numeric :
    (∀ n : Int, isNumTok (cellText (.int n)) = true) ∧
    (∀ (neg : Bool) (ds : Word) (decpt : Int), ds ≠ [] → AllDigits ds → isNumTok (cellText (.flt (.fin neg ds decpt))) = true) ∧
    (∀ neg : Bool, isNumTok (cellText (.flt (.inf neg))) = true) ∧
    (∀ w : Word, ¬ NumTok w → isNumTok w = false) ∧
    (∀ (w : Word) (c : Char), c ∈ w → numChar c = false → isNumTok w = false) := by
  refine ⟨fun n => (isNumTok_iff _).2 (Or.inl (intStr_dec n)),
    fun neg ds decpt h1 h2 => (isNumTok_iff _).2 (Or.inl (floatRepr_dec neg ds decpt h1 h2)),
    fun neg => (isNumTok_iff _).2 (Or.inr (infStr_inf neg)), ?_, ?_⟩
  · intro w h
    cases hb : isNumTok w with
    | false => rfl
    | true => exact absurd ((isNumTok_iff w).1 hb) h
  · intro w c hc h
    cases hb : isNumTok w with
    | false => rfl
    | true => exact absurd ((isNumTok_iff w).1 hb) (not_numTok_of_char w c hc h)

/-- outside the quantifier, recorded: a NaN is printed as `nan`, which `to_numeric` (and the model)
does not take for a number — a float column holding a NaN comes back as text -/
theorem nan_cell_reads_as_text : isNumTok (cellText (.flt .nan)) = false := by decide

/-- the printed number cells are cells the round trip is claimed for (no white space, no `#`, not a
label, not `loop_`), so `star_roundtrip` applies to every table of typed cells -/
theorem number_cells_are_cells (c : Cell) (h : CellWF c) : CellOk (cellText c) := cellText_ok c h

/-- **A written column comes back numeric iff it was written from numbers** (`column_typing` applied
to the printed cells): for a non-empty table of integers, floats and text cells, column `j` of the
printed texts is typed numeric exactly when every cell of the column was an integer, a finite or
infinite float, or a text that is itself a number token. -/
theorem written_column_typing (rows : List (List Cell)) (j : Nat) (hj : ∀ r ∈ rows, j < r.length)
    (hwf : ∀ r ∈ rows, ∀ c ∈ r, CellWF c) :
    colNumeric isNumTok (rows.map (fun r => r.map cellText)) j = true ↔
      rows ≠ [] ∧ ∀ r ∈ rows, ∀ c, r[j]? = some c → c.isNumber = true :=
  Export.written_column_typing rows j hj hwf

/-- **Round trip of typed tables**: writing tables of integers, floats (any digit strings) and text
cells and reading the file back returns the printed cells block by block, and every column of a
non-empty block is typed numeric iff it was written from numbers. -/
theorem typed_roundtrip (numberColumns : Bool) (bs : List TBlock) (h : ∀ b ∈ bs, TBlockOk b)
    (he : EmptyOnlyLast (bs.map TBlock.texts)) :
    readStar (printTyped numberColumns bs) = .ok (bs.map TBlock.texts) ∧
    ∀ b ∈ bs, ∀ j < b.cols.length,
      (colNumeric isNumTok b.texts.rows j = true ↔ b.rows ≠ [] ∧ ∀ r ∈ b.rows, ∀ c, r[j]? = some c → c.isNumber = true) :=
  Export.typed_roundtrip numberColumns bs h he

/-! ### CRLF line ends -/

/-- a CR at the end of a line is white space (or the last character of a comment, which `strip`
removes): the tokens of the line do not change -/
theorem cr_at_line_end (l : List Char) : lineToks (l ++ ['\r']) = lineToks l := lineToks_cr l

/-- **CRLF normalisation**: for every text, the CRLF form (each `\n` replaced by `\r\n`) has the same
tokens, hence is read into the same blocks, kinds and comments — whether or not the I/O layer
translates line ends before the tokenizer sees them. (A CR *not* followed by a line break is outside
the quantifier: the model treats it as white space, universal-newline I/O as a line break.) -/
theorem crlf_normalisation (txt : List Char) :
    tokenize (toCRLF txt) = tokenize txt ∧ readStar (toCRLF txt) = readStar txt ∧ readStarC (toCRLF txt) = readStarC txt := by
  refine ⟨tokenize_crlf txt, ?_, ?_⟩
  · unfold readStar; rw [tokenize_crlf]
  · unfold readStarC; rw [tokenize_crlf]

/-! ### comments, `data_id`, `get_specifier_id`, `get_frame_and_comments` -/

/-- **Comments never change the parsed tables**: `Starfile.read` with the comment lists it collects
returns, for every text, exactly the outcome of the token reader (the same blocks or the same error) -/
theorem comments_never_change_tables (txt : List Char) : dropC (readStarC txt) = readStar txt := readStarC_tables txt

/-- **The `comments` argument of `Starfile.write` never changes the tables read back**: whatever
comment lines (without line breaks) are written in front of the blocks, `None` or a list per block. -/
theorem written_comments_keep_tables (numberColumns : Bool) (coms : List (Option (List Comment))) (bs : List Block)
    (txt : List Char) (hw : printStarC numberColumns coms bs = some txt) (hc : ComsOk coms)
    (h : ∀ b ∈ bs, BlockOk b) (he : EmptyOnlyLast bs) : readStar txt = .ok bs :=
  readStar_printStarC numberColumns coms bs txt hw hc h he

/-- `comments=None` writes `printStar`; lists of different lengths are the `ValueError` -/
theorem write_comments_argument (numberColumns : Bool) (bs : List Block) :
    printStarC numberColumns (List.replicate bs.length none) bs = some (printStar numberColumns bs) ∧
    ∀ coms : List (Option (List Comment)), coms.length ≠ bs.length → printStarC numberColumns coms bs = none := by
  refine ⟨by simp [printStarC, printAllC_none], fun coms h => by simp [printStarC, h]⟩

/-- **`data_id = i` returns the `i`-th block** of the full read (negative `i` counts from the end as
Python does), an index out of range is the `IndexError`, and a text that does not parse fails the
same way with or without `data_id` (the whole file is parsed first). -/
theorem data_id_selects (txt : List Char) :
    (∀ bs, readStarC txt = .ok bs → ∀ k (hk : k < bs.length),
        readSel txt (k : Int) = .ok bs[k] ∧ readSel txt (-((bs.length - k : Nat) : Int)) = .ok bs[k]) ∧
    (∀ bs, readStarC txt = .ok bs → ∀ i : Int, (i ≥ bs.length ∨ i < -(bs.length : Int)) → readSel txt i = .error .index) ∧
    (∀ e, readStarC txt = .error e → ∀ i, readSel txt i = .error (.parse e)) := by
  refine ⟨?_, ?_, ?_⟩
  · intro bs hb k hk
    unfold readSel
    simp only [hb]
    constructor
    · rw [pyIndex_nonneg _ _ hk]; simp [hk]
    · rw [pyIndex_neg _ _ (by omega) (by omega)]
      have : bs.length - (bs.length - k) = k := by omega
      simp [this, hk]
  · intro bs hb i hi
    unfold readSel
    simp only [hb]
    have : pyIndex bs.length i = none := by
      unfold pyIndex
      rcases hi with hi | hi
      · have h0 : 0 ≤ i := by omega
        have : ¬ i.toNat < bs.length := by omega
        simp [h0, this]
      · have h0 : ¬ 0 ≤ i := by omega
        have : ¬ (-i).toNat ≤ bs.length := by omega
        simp [h0, this]
    rw [this]
  · intro e he i
    unfold readSel
    simp [he]

/-- **The comments of any well laid-out STAR text**: besides its blocks (`read_any_layout`) the
reader returns, per block, the stripped comments of the comment lines before the block, on its name
line, between the name and `loop_` and after the labels, in that order; comments on label lines are
not recorded; comments after the last block are dropped unless that block has no rows. -/
theorem read_any_layout_comments (d : Doc) (h : d.Ok) :
    readStarC d.text = .ok ((d.blocks.map BlockLayout.block).zip (docComs d.trailing d.blocks)) := readStarC_doc d h

/-- **Written comments read back**: reading the text `Starfile.write` produces with a `comments`
argument returns every table together with the comments written for it, each stripped of leading and
trailing white space, in order (`None` reads back as no comments). -/
theorem written_comments_read_back (numberColumns : Bool) (coms : List (Option (List Comment))) (bs : List Block)
    (txt : List Char) (hw : printStarC numberColumns coms bs = some txt) (hc : ComsOk coms)
    (h : ∀ b ∈ bs, BlockOk b) (he : EmptyOnlyLast bs) : readStarC txt = .ok (bs.zip (coms.map comRead)) :=
  readStarC_printStarC numberColumns coms bs txt hw hc h he

/-- `data_id` on a written file: block `k` of the tables handed to `Starfile.write`, with its comments -/
theorem written_block_by_data_id (numberColumns : Bool) (coms : List (Option (List Comment))) (bs : List Block)
    (txt : List Char) (hw : printStarC numberColumns coms bs = some txt) (hc : ComsOk coms)
    (h : ∀ b ∈ bs, BlockOk b) (he : EmptyOnlyLast bs) (k : Nat) (hk : k < bs.length) (hk' : k < coms.length) :
    readSel txt (k : Int) = .ok (bs[k], comRead coms[k]) := by
  have h1 := readStarC_printStarC numberColumns coms bs txt hw hc h he
  have hlen : k < (bs.zip (coms.map comRead)).length := by simp [List.length_zip]; omega
  rw [((data_id_selects txt).1 _ h1 k hlen).1]
  simp [List.getElem_zip]

/-- **`get_specifier_id`** returns the first index holding the specifier, `None` iff there is none -/
theorem specifier_id_first (names : List Word) (s : Word) :
    (∀ k, specifierId names s = some k ↔ names[k]? = some s ∧ ∀ j < k, names[j]? ≠ some s) ∧
    (specifierId names s = none ↔ s ∉ names) :=
  ⟨specifierId_some names s, specifierId_none names s⟩

/-- **`get_frame_and_comments`** returns the first block of the full read whose name is the
specifier, raises the `ValueError` iff no block has that name, and fails like the reader otherwise -/
theorem get_frame_and_comments_spec (txt : List Char) (s : Word) :
    (∀ bs, readStarC txt = .ok bs → ∀ k, specifierId (bs.map (·.1.name)) s = some k →
        ∃ hk : k < bs.length, getFrameAndComments txt s = .ok bs[k] ∧ bs[k].1.name = s) ∧
    (∀ bs, readStarC txt = .ok bs → s ∉ bs.map (·.1.name) → getFrameAndComments txt s = .error .noEntry) ∧
    (∀ e, readStarC txt = .error e → getFrameAndComments txt s = .error (.parse e)) := by
  refine ⟨?_, ?_, ?_⟩
  · intro bs hb k hk
    have h1 := ((specifierId_some _ s k).1 hk).1
    have hlt : k < bs.length := by
      have := (List.getElem?_eq_some_iff.1 h1).1
      simpa using this
    refine ⟨hlt, ?_, ?_⟩
    · unfold getFrameAndComments
      simp [hb, hk, hlt]
    · simpa [List.getElem?_map, List.getElem?_eq_getElem hlt] using h1
  · intro bs hb hs
    unfold getFrameAndComments
    simp [hb, (specifierId_none _ s).2 hs]
  · intro e he
    unfold getFrameAndComments
    simp [he]

/-! ### hardening pass: white space, integer typing, defaults, `remove_lines`, the statement's layout class -/

/-- **`isWs` is the full `str.isspace` set** (without the line feed the text is split at): TAB, VT, FF,
CR, U+001C–U+001F, blank, U+0085, U+00A0, U+1680, U+2000–U+200A, U+2028, U+2029, U+202F, U+205F,
U+3000 — so `WordOk`/`CellOk`/`PadOk` (hence `tokenizeLine_spec`, `read_any_layout`, `star_roundtrip`)
speak about exactly the words Python's tokenizer sees. The harness compares this set with
`str.isspace` over all 1 114 112 code points on every run. -/
theorem isWs_is_str_isspace (c : Char) :
    isWs c = true ↔ (c.toNat = 0x09 ∨ (0x0B ≤ c.toNat ∧ c.toNat ≤ 0x0D) ∨ (0x1C ≤ c.toNat ∧ c.toNat ≤ 0x20) ∨ c.toNat = 0x85 ∨
      c.toNat = 0xA0 ∨ c.toNat = 0x1680 ∨ (0x2000 ≤ c.toNat ∧ c.toNat ≤ 0x200A) ∨ (0x2028 ≤ c.toNat ∧ c.toNat ≤ 0x2029) ∨
      c.toNat = 0x202F ∨ c.toNat = 0x205F ∨ c.toNat = 0x3000) := by
  simp only [isWs, List.any_eq_true, wsRanges, List.mem_cons, List.mem_nil_iff, or_false, Bool.and_eq_true, decide_eq_true_eq]
  constructor
  · rintro ⟨r, hr, h1, h2⟩
    rcases hr with rfl | rfl | rfl | rfl | rfl | rfl | rfl | rfl | rfl | rfl | rfl <;> dsimp only at h1 h2 <;> omega
  · intro h
    rcases h with h | h | h | h | h | h | h | h | h | h | h
    · exact ⟨(0x09, 0x09), by simp, by dsimp only; omega, by dsimp only; omega⟩
    · exact ⟨(0x0B, 0x0D), by simp, by dsimp only; omega, by dsimp only; omega⟩
    · exact ⟨(0x1C, 0x20), by simp, by dsimp only; omega, by dsimp only; omega⟩
    · exact ⟨(0x85, 0x85), by simp, by dsimp only; omega, by dsimp only; omega⟩
    · exact ⟨(0xA0, 0xA0), by simp, by dsimp only; omega, by dsimp only; omega⟩
    · exact ⟨(0x1680, 0x1680), by simp, by dsimp only; omega, by dsimp only; omega⟩
    · exact ⟨(0x2000, 0x200A), by simp, by dsimp only; omega, by dsimp only; omega⟩
    · exact ⟨(0x2028, 0x2029), by simp, by dsimp only; omega, by dsimp only; omega⟩
    · exact ⟨(0x202F, 0x202F), by simp, by dsimp only; omega, by dsimp only; omega⟩
    · exact ⟨(0x205F, 0x205F), by simp, by dsimp only; omega, by dsimp only; omega⟩
    · exact ⟨(0x3000, 0x3000), by simp, by dsimp only; omega, by dsimp only; omega⟩

/-- **Integer typing of written cells**: `str(n)` of any integer is an integer token (`[+-]?d+`), the
`repr` of any float — finite from any digit string, infinite, NaN — never is; so (with
`written_int_column_typing`) an integer column comes back integer-typed and a float column does not. -/
theorem writer_cells_integer :
    (∀ n : Int, isIntTok (cellText (.int n)) = true) ∧ (∀ f : FloatVal, isIntTok (cellText (.flt f)) = false) :=
  ⟨intStr_isInt, floatStr_not_int⟩

/-- **A written column comes back integer-typed iff it was written from integers** (or from text cells
that are themselves integer tokens), for a non-empty table of any typed cells -/
theorem written_int_column_typing (rows : List (List Cell)) (j : Nat) (hj : ∀ r ∈ rows, j < r.length) :
    colNumeric isIntTok (rows.map (fun r => r.map cellText)) j = true ↔
      rows ≠ [] ∧ ∀ r ∈ rows, ∀ c, r[j]? = some c → c.isInteger = true :=
  typed_column_gen isIntTok Cell.isInteger rows j hj (fun _ _ c _ => cell_int_iff c)

/-- **`specifiers=None`**: the tables are written under the name `data` each, and — the name `data`
being a cell the round trip is claimed for — read back as such -/
theorem default_specifiers_roundtrip (numberColumns : Bool) (bs : List Block) (h : ∀ b ∈ bs, BlockOk b)
    (he : EmptyOnlyLast bs) :
    (withDefaultNames bs).map Block.name = defaultSpecifiers bs.length ∧
    readStar (printStar numberColumns (withDefaultNames bs)) = .ok (withDefaultNames bs) := by
  refine ⟨by simp [withDefaultNames, defaultSpecifiers, List.map_map, Function.comp_def, List.map_const'], ?_⟩
  apply star_roundtrip
  · intro b hb
    obtain ⟨b0, hb0, rfl⟩ := List.mem_map.1 hb
    obtain ⟨_, h2, h3, h4⟩ := h b0 hb0
    exact ⟨(by decide : CellOk Gen.C02.defaultSpecifier), h2, h3, h4⟩
  · clear h
    induction bs with
    | nil => trivial
    | cons b rest ih =>
      cases rest with
      | nil => trivial
      | cons b2 rest2 => exact ⟨he.1, ih he.2⟩

/-- **`remove_lines` keeps exactly the rows at positions not listed, in order** -/
theorem remove_lines_rows {α : Type} (idx : List Nat) (rows : List α) :
    (dropRows idx rows).Sublist rows ∧ (∀ x, x ∈ dropRows idx rows ↔ ∃ k, rows[k]? = some x ∧ k ∉ idx) ∧
    dropRows [] rows = rows := by
  refine ⟨dropRows_sublist idx rows, fun x => ?_, dropRowsGo_nil 0 rows⟩
  have := dropRowsGo_mem idx 0 rows x
  simpa [dropRows] using this

/-- **`remove_lines` round trip**: the file it writes — the tables with the listed rows of block `k`
dropped, under the comments `read` returned — is read back as exactly those tables with those comments
(stripped), as long as no block but the last becomes empty. -/
theorem remove_lines_roundtrip (numberColumns : Bool) (bs : List Block) (coms : List (List Comment)) (k : Nat) (idx : List Nat)
    (txt : List Char) (hw : printStarC numberColumns (coms.map some) (dropAt bs k idx) = some txt)
    (hc : ComsOk (coms.map some)) (h : ∀ b ∈ bs, BlockOk b) (he : EmptyOnlyLast (dropAt bs k idx)) :
    readStarC txt = .ok ((dropAt bs k idx).zip (coms.map (fun cs => cs.map stripWs))) := by
  have := readStarC_printStarC numberColumns (coms.map some) (dropAt bs k idx) txt hw hc (dropAt_ok bs k idx h) he
  simpa [List.map_map, Function.comp_def, comRead] using this

/-- **`removeLines` — the function the driver executes for `Starfile.remove_lines` — is `dropAt` on the blocks read, written back
under the comments read**: every outcome. A text that does not parse fails like the reader; an absent `data_specifier` is the
"not found" warning (nothing written); otherwise block `k` (block 0, or the first block of that name) loses the listed rows —
`dropAt`, whose rows are characterised by `remove_lines_rows` — and the text written is `printStarC` of those blocks with the
comment lists `read` returned (never the `ValueError`: the lists have equal lengths); a position beyond the last row is the
`IndexError`. -/
theorem remove_lines_is_dropAt (txt : List Char) (idx : List Nat) (spec : Option Word) (numberColumns : Bool) :
    (∀ e, readStarC txt = .error e → removeLines txt idx spec numberColumns = .error (.sel (.parse e))) ∧
    (∀ bcs, readStarC txt = .ok bcs → removeTarget bcs spec = none → removeLines txt idx spec numberColumns = .error .notFound) ∧
    (∀ bcs k, readStarC txt = .ok bcs → removeTarget bcs spec = some k → ∀ hk : k < bcs.length,
      ((∀ i ∈ idx, i < bcs[k].1.rows.length) →
        removeLines txt idx spec numberColumns = .ok (printAllC numberColumns (comsOf bcs) (dropAt (blocksOf bcs) k idx)) ∧
        printStarC numberColumns (comsOf bcs) (dropAt (blocksOf bcs) k idx) = some (printAllC numberColumns (comsOf bcs) (dropAt (blocksOf bcs) k idx))) ∧
      (¬ (∀ i ∈ idx, i < bcs[k].1.rows.length) → removeLines txt idx spec numberColumns = .error .rowIndex)) :=
  removeLines_cases txt idx spec numberColumns

/-- **What `remove_lines` writes is read back as the tables without the listed rows**, stated about `removeLines` itself: if the
input text reads as `bcs`, the target block is `k` and every listed position exists, then `removeLines` succeeds and its output is
read back as `dropAt (blocks) k idx` with the comments of the input (stripped) — as long as the blocks and comments read are ones
the writer's round trip is claimed for and no block but the last becomes empty. -/
theorem remove_lines_reads_back (numberColumns : Bool) (txt : List Char) (bcs : List (Block × List Comment)) (spec : Option Word)
    (k : Nat) (idx : List Nat) (hr : readStarC txt = .ok bcs) (ht : removeTarget bcs spec = some k) (hk : k < bcs.length)
    (hi : ∀ i ∈ idx, i < bcs[k].1.rows.length) (hc : ComsOk (comsOf bcs)) (h : ∀ b ∈ blocksOf bcs, BlockOk b)
    (he : EmptyOnlyLast (dropAt (blocksOf bcs) k idx)) :
    ∃ out, removeLines txt idx spec numberColumns = .ok out ∧
      readStarC out = .ok ((dropAt (blocksOf bcs) k idx).zip (bcs.map (fun p => p.2.map stripWs))) := by
  obtain ⟨h1, h2⟩ := ((removeLines_cases txt idx spec numberColumns).2.2 bcs k hr ht hk).1 hi
  refine ⟨_, h1, ?_⟩
  have hcoms : comsOf bcs = (bcs.map (fun p => p.2)).map some := by simp [comsOf, List.map_map, Function.comp_def]
  rw [hcoms] at h2 hc ⊢
  have := remove_lines_roundtrip numberColumns (blocksOf bcs) (bcs.map (fun p => p.2)) k idx _ h2 hc h he
  simpa [List.map_map, Function.comp_def] using this

/-- a text ending on the last label line of an empty last block, no final newline (class C02-K3) -/
abbrev k3Doc : Doc :=
  { blocks := [{ pre := [], name := "data_".toList, nameLine := ⟨[], [("data_".toList, [])], []⟩, mid := [],
                 loopLine := ⟨[], [("loop_".toList, [])], []⟩, cols := ["a".toList],
                 labels := [⟨[], [("_a".toList, [])], []⟩], post := [], rows := [] }],
    trailing := [] }
/-- two blocks with no blank / comment line between them (class C02-K4) -/
abbrev k4Doc : Doc :=
  { blocks := [{ pre := [], name := "data_a".toList, nameLine := ⟨[], [("data_a".toList, [])], []⟩, mid := [],
                 loopLine := ⟨[], [("loop_".toList, [])], []⟩, cols := ["x".toList, "y".toList],
                 labels := [⟨[], [("_x".toList, [])], []⟩, ⟨[], [("_y".toList, [])], []⟩], post := [],
                 rows := [⟨[], [("1".toList, [' ']), ("2".toList, [])], []⟩] },
               { pre := [], name := "data_b".toList, nameLine := ⟨[], [("data_b".toList, [])], []⟩, mid := [],
                 loopLine := ⟨[], [("loop_".toList, [])], []⟩, cols := ["z".toList],
                 labels := [⟨[], [("_z".toList, [])], []⟩], post := [],
                 rows := [⟨[], [("3".toList, [])], []⟩] }],
    trailing := [⟨[], [], []⟩] }

/-- the reader rejects EVERY text of the statement's layout class that lacks a separating line between two blocks or the line
end after the last label line of an empty last block (proved: `reader_rejects_outside_sepOk`) -/
def ReaderRejectsOutsideSepOk : Prop :=
  ∀ d : Doc, d.OkStatement → ¬ SepOk d.trailing d.blocks → ∃ e, readStar d.text = .error e

/-- **Every unseparated text of the statement's layout class is rejected** (the full classes of the open findings C02-K3 and
C02-K4, not only one witness each): if a document of `Doc.OkStatement` ends on the last label line of an empty last block
(`Token.check` raises on the exhausted queue), or a block's name line directly follows the rows of the previous block (the name
is consumed as a cell; the row loop then fails on a comment where the line end is due, or stops in front of `loop_` and the
block loop fails with left-over tokens), `Starfile.read` raises — whatever the number of blocks, their sizes and the layout of
everything else. -/
theorem reader_rejects_outside_sepOk : ReaderRejectsOutsideSepOk := fun d h hns => readStar_reject d h hns

/-- **Within the statement's layout class the reader accepts a text iff it is separated** — and then returns exactly its blocks:
`Doc.Ok` is not merely a class the reader happens to accept, it is ALL of the statement's class it accepts. -/
theorem reader_accepts_iff_separated (d : Doc) (h : d.OkStatement) :
    (readStar d.text = .ok (d.blocks.map BlockLayout.block) ↔ SepOk d.trailing d.blocks) ∧
    ((∃ bs, readStar d.text = .ok bs) ↔ SepOk d.trailing d.blocks) := by
  have hok : SepOk d.trailing d.blocks → readStar d.text = .ok (d.blocks.map BlockLayout.block) :=
    fun hs => readStar_doc d ⟨h.1, h.2.1, hs, h.2.2.2⟩
  constructor
  · refine ⟨fun hr => ?_, hok⟩
    by_cases hs : SepOk d.trailing d.blocks
    · exact hs
    · obtain ⟨e, he⟩ := readStar_reject d h hs
      rw [he] at hr; cases hr
  · refine ⟨fun ⟨bs, hr⟩ => ?_, fun hs => ⟨_, hok hs⟩⟩
    by_cases hs : SepOk d.trailing d.blocks
    · exact hs
    · obtain ⟨e, he⟩ := readStar_reject d h hs
      rw [he] at hr; cases hr

/-- **The statement's layout class is strictly wider than what the reader accepts** (open findings C02-K3 and C02-K4; the reason
for the two extra constraints of `Doc.Ok`). (i) `Doc.Ok d ↔ Doc.OkStatement d ∧ SepOk …` — `Doc.OkStatement` is the layout grammar
exactly as worded ("blank and comment lines *may* … separate blocks", "with or without final newline", an empty loop only last),
`Doc.Ok` adds `SepOk`; by `read_any_layout` + `reader_accepts_iff_separated` the reader accepts exactly the `Doc.Ok` part.
(ii) one document of `OkStatement` without `SepOk` of each kind, with its text, that the reader rejects and that reads fine once a
line break / a blank line is added: (K3) a text ending on the last label line of an empty last block without final newline;
(K4) a block that directly follows the rows of the previous one. -/
theorem statement_layout_wider_than_reader :
    (∀ d : Doc, d.Ok ↔ d.OkStatement ∧ SepOk d.trailing d.blocks) ∧
    (k3Doc.OkStatement ∧ k3Doc.text = "data_\nloop_\n_a".toList ∧ readStar k3Doc.text = .error (.expected .prop true) ∧
      readStar "data_\nloop_\n_a\n".toList = .ok [{ name := "data_".toList, cols := ["a".toList], rows := [] }]) ∧
    (k4Doc.OkStatement ∧ k4Doc.text = "data_a\nloop_\n_x\n_y\n1 2\ndata_b\nloop_\n_z\n3\n".toList ∧
      readStar k4Doc.text = .error .trailing ∧
      readStar "data_a\nloop_\n_x\n_y\n1 2\n\ndata_b\nloop_\n_z\n3\n".toList =
        .ok [{ name := "data_a".toList, cols := ["x".toList, "y".toList], rows := [["1".toList, "2".toList]] },
             { name := "data_b".toList, cols := ["z".toList], rows := [["3".toList]] }]) := by
  refine ⟨fun d => ?_, ⟨by decide, by decide, by decide +kernel, by decide +kernel⟩, ⟨by decide, by decide, by decide +kernel, by decide +kernel⟩⟩
  unfold Doc.Ok Doc.OkStatement
  constructor
  · rintro ⟨h1, h2, h3, h4⟩
    refine ⟨⟨h1, h2, ?_, h4⟩, h3⟩
    generalize d.blocks = bs at h3
    induction bs with
    | nil => trivial
    | cons b rest ih =>
      cases rest with
      | nil => trivial
      | cons b2 rest2 => exact ⟨h3.1, ih h3.2.2⟩
  · rintro ⟨⟨h1, h2, _, h4⟩, h3⟩
    exact ⟨h1, h2, h3, h4⟩

/-- outside the quantifier, recorded: a text whose last row is short (`1 2` / `3` under two labels) is
not a STAR text of the statement; the reader (and the model) silently drops the incomplete row -/
theorem short_last_row_dropped :
    readStar "data_\nloop_\n_a\n_b\n1 2\n3\n".toList =
      .ok [{ name := "data_".toList, cols := ["a".toList, "b".toList], rows := [["1".toList, "2".toList]] }] := by decide +kernel

/-- **Witness for the open finding C02-K1** (and the reason `loop_` is excluded in `BlockOk`): a text
cell equal to the reserved word is written verbatim and the reader then fails. -/
theorem loop_cell_breaks_roundtrip :
    readStar (printStar true [{ name := "data_".toList, cols := ["t".toList], rows := [["loop_".toList]] }])
      = .error .trailing := by decide +kernel

/-- the hypothesis "an empty table only as the last block" is needed: after an empty loop the next
block name is consumed as a cell -/
theorem empty_block_not_last_breaks :
    readStar (printStar true [{ name := "data_a".toList, cols := ["x".toList], rows := [] },
                              { name := "data_b".toList, cols := ["y".toList], rows := [["1".toList]] }])
      ≠ .ok [{ name := "data_a".toList, cols := ["x".toList], rows := [] },
             { name := "data_b".toList, cols := ["y".toList], rows := [["1".toList]] }] := by decide +kernel

/-- **Witness for the proposed finding C02-K5**: by the statement a column holding the tokens `9223372036854775808` (= 2^63) and
`-1` is a numeric — indeed an integer — column (both are number tokens of the grammar, with exact values 2^63 and −1);
`pandas.to_numeric` refuses the mix of the unsigned 64-bit range with a negative value and `Starfile.read` returns the column as
text (shown by the harness; `_to_numeric_if_possible` swallows the exception). -/
theorem uint64_with_negative_is_numeric :
    blockKinds isNumTok { name := "data_".toList, cols := ["id".toList], rows := [["9223372036854775808".toList], ["-1".toList]] } = [true] ∧
    blockInts { name := "data_".toList, cols := ["id".toList], rows := [["9223372036854775808".toList], ["-1".toList]] } = [true] ∧
    decValue "9223372036854775808".toList = some ((2 ^ 63 : Nat) : Rat) ∧ decValue "-1".toList = some (-1) := by
  exact ⟨by decide, by decide, by decide +kernel, by decide +kernel⟩

/-! ### the value clause: "numeric values equal after rounding to 6 decimals", read side, exact arithmetic -/

/-- **The exact value of a decimal token.** For every literal of the grammar — sign, integer digits, optional fraction,
optional exponent `e`/`E` with its own sign — `decValue` returns `± (integer and fractional digits read as one number) ·
10^(exponent − number of fractional digits)`; and `decValue` is defined exactly on the tokens the recogniser `isDecTok`
(= the grammar, `numeric_grammar`) accepts: `inf`, `nan` and text have no value. -/
theorem decimal_token_value :
    (∀ d : Dec, d.Ok → decValue d.text = some d.value) ∧
    (∀ w : Word, (decValue w).isSome = isDecTok w) ∧
    (∀ w : Word, isDecTok w = true → ∃ d : Dec, d.Ok ∧ w = d.text ∧ decValue w = some d.value) :=
  ⟨decValue_dec, decValue_isSome, decValue_of_isDecTok⟩

/-- **The cells the writer prints denote the numbers they were printed from, whichever form `repr` chooses**: `str(n)` of an
integer has the exact value `n`; the cell laid out from ANY non-empty digit string and ANY decimal-point position (fixed form with
leading or trailing zeros, `.0`, exponent form beyond 16 / below −4 digits with sign and two-digit exponent) has the exact value
`± digits · 10^(decpt − number of digits)`. (The digit string itself — numpy's `round` and the shortest round-trip digits — is
not modelled: see `written_value_meets_clause` for what is asked of it.) -/
theorem written_cell_value :
    (∀ n : Int, decValue (cellText (.int n)) = some (n : Rat)) ∧
    (∀ (neg : Bool) (ds : Word) (decpt : Int), ds ≠ [] → AllDigits ds →
      decValue (cellText (.flt (.fin neg ds decpt))) = some (digitsValue neg ds decpt)) :=
  ⟨decValue_intStr', decValue_floatRepr'⟩

/-- **The checker decides the clause.** `round6Ok` — run by the driver on every float cell of every file the real
`Starfile.write` produces, with `p = Gen.C02.floatPrecision` read from the source — is true exactly when the token is a decimal
literal whose exact value `d` has at most `p` fractional digits and `|d − v| ≤ ½·10⁻ᵖ + ulps·ulp`. -/
theorem round6Ok_iff (p ulps : Nat) (v ulp : Rat) (tok : Word) :
    round6Ok p ulps v ulp tok = true ↔ Round6Spec p ulps v ulp tok := round6Ok_iff' p ulps v ulp tok

/-- **Value clause of the round trip.** A float cell `v` printed from the digits `(neg, ds, decpt)` meets the clause "equal after
rounding to `p` decimals" — as checked on the FILE — iff the digits do: the printed token's exact value is the digits' value
(`written_cell_value`), so any "round to `p` decimals, then print" writer whose digit string is within half a unit of the `p`-th
decimal (plus the floating-point allowance) of `v` and has at most `p` fractional digits yields a token that reads back — by exact
decimal parsing — to a value within that distance of `v`. -/
theorem written_value_meets_clause (p ulps : Nat) (v ulp : Rat) (neg : Bool) (ds : Word) (decpt : Int) (hne : ds ≠ []) (hd : AllDigits ds) :
    (Round6Spec p ulps v ulp (cellText (.flt (.fin neg ds decpt))) ↔
      ((digitsValue neg ds decpt * ((10 ^ p : Nat) : Rat)).den = 1 ∧ absQ (digitsValue neg ds decpt - v) ≤ halfUnit p + (ulps : Rat) * ulp)) ∧
    (Round6Spec p ulps v ulp (cellText (.flt (.fin neg ds decpt))) →
      ∃ d, decValue (cellText (.flt (.fin neg ds decpt))) = some d ∧ absQ (d - v) ≤ halfUnit p + (ulps : Rat) * ulp) := by
  have hv := decValue_floatRepr' neg ds decpt hne hd
  constructor
  · unfold Round6Spec
    constructor
    · rintro ⟨d, h1, h2, h3⟩
      have : d = digitsValue neg ds decpt := by
        have h1' : decValue (floatRepr neg ds decpt) = some d := h1
        rw [hv] at h1'; exact (Option.some.inj h1').symm
      subst this; exact ⟨h2, h3⟩
    · rintro ⟨h2, h3⟩
      exact ⟨_, hv, h2, h3⟩
  · rintro ⟨d, h1, _, h3⟩
    exact ⟨d, h1, h3⟩

/-- the number of decimals and the allowance the driver's check runs with are the documented ones: `float_precision = 6` (read
from the regenerated `Gen.C02.floatPrecision`: an edit of the default changes what the checker asks) and 3 units in the last place -/
theorem round6Cell_documented (bits : Nat) (tok : Word) :
    round6Cell bits tok = (match bitsValue bits with
      | some (v, ulp) => round6Ok 6 3 v ulp tok
      | none => false) := rfl

/-- **Witness for the open finding C02-K2**: the cell printed for an infinity has no decimal value, so it meets the value clause
for NO finite written value, whatever the number of decimals and the allowance — a finite float written as `inf` / `-inf`
(numpy's `round` overflows in `v·10⁶` from `|v| ≥ 1.7976931348623157e302` on) violates the statement. -/
theorem inf_cell_never_meets_clause (neg : Bool) :
    decValue (cellText (.flt (.inf neg))) = none ∧
    ∀ (p ulps : Nat) (v ulp : Rat), round6Ok p ulps v ulp (cellText (.flt (.inf neg))) = false := by
  have h : decValue (cellText (.flt (.inf neg))) = none := by cases neg <;> decide
  exact ⟨h, fun p ulps v ulp => by unfold round6Ok; rw [h]⟩

/-! ### non-vacuity: concrete inputs meeting the hypotheses -/

abbrev exBlocks : List Block :=
  [{ name := "data_optics".toList, cols := ["rlnVoltage".toList, "rlnName".toList], rows := [["300.0".toList, "opticsGroup1".toList]] },
   { name := "data_stopgap_motl".toList, cols := ["x".toList], rows := [] }]
/-- two blocks (RELION-style and STOPGAP, the empty table last) meet the hypotheses of `star_roundtrip` -/
example : (∀ b ∈ exBlocks, BlockOk b) ∧ EmptyOnlyLast exBlocks := by decide
example : printStar true exBlocks = "\ndata_optics\n\nloop_\n_rlnVoltage #1\n_rlnName #2\n300.0     \topticsGroup1\n\n\ndata_stopgap_motl\n\nloop_\n_x\n\n\n".toList := by decide
example : printStar false exBlocks = "\ndata_optics\n\nloop_\n_rlnVoltage\n_rlnName\n300.0     \topticsGroup1\n\n\ndata_stopgap_motl\n\nloop_\n_x\n\n\n".toList := by decide
example : readStar (printStar true exBlocks) = .ok exBlocks := by decide


def cLine (c : String) : Line := ⟨[], [], '#' :: c.toList⟩
abbrev exDoc : Doc :=
  { blocks := [{ pre := [cLine " made by hand", eLine], name := "data_".toList,
                 nameLine := ⟨[' '], [("data_".toList, ['\t'])], []⟩, mid := [],
                 loopLine := ⟨[], [("loop_".toList, [' '])], []⟩,
                 cols := ["a".toList, "b".toList],
                 labels := [⟨[], [("_a".toList, [' '])], "#1".toList⟩, ⟨[], [("_b".toList, [])], []⟩],
                 post := [cLine "x", ⟨[' '], [], []⟩],
                 rows := [⟨['\t'], [("1.5".toList, [' ', ' ', '\t']), ("x".toList, [' '])], []⟩] }],
    trailing := [cLine " end"] }
example : exDoc.text = "# made by hand\n\n data_\t\nloop_ \n_a #1\n_b\n#x\n \n\t1.5  \tx \n# end".toList := by decide
/-- a hand-made text with comment lines, blank lines, a `#1` label comment, tabs, runs of blanks,
leading and trailing blanks and no final newline meets the hypothesis of `read_any_layout` -/
example : exDoc.Ok := by decide
example : readStar exDoc.text = .ok [{ name := "data_".toList, cols := ["a".toList, "b".toList], rows := [["1.5".toList, "x".toList]] }] := by decide
example : blockKinds isNumTok { name := [], cols := ["a".toList, "b".toList, "c".toList], rows := [["1.5".toList, "x".toList, "1e5".toList], ["-2".toList, "3".toList, ".5".toList]] } = [true, false, true] := by decide
example : tokenizeLine "  1.0   \tx # c".toList = (["1.0".toList, "x".toList], some " c".toList) := by decide

/-! non-vacuity of the numeric, CRLF and comment theorems -/
abbrev exTyped : List TBlock :=
  [{ name := "data_particles".toList, cols := ["rlnX".toList, "rlnName".toList, "n".toList],
     rows := [[.flt (.fin false "15".toList 1), .txt "mic_1.mrc".toList, .int (-3)],
              [.flt (.fin true "1".toList 17), .txt "12".toList, .int 40]] }]
example : (∀ b ∈ exTyped, TBlockOk b) ∧ EmptyOnlyLast (exTyped.map TBlock.texts) := by
  refine ⟨?_, trivial⟩
  intro b hb
  simp only [exTyped, List.mem_singleton] at hb
  subst hb
  refine ⟨by decide, by decide, by decide, ?_⟩
  intro r hr
  simp only [List.mem_cons, List.mem_nil_iff, or_false] at hr
  rcases hr with rfl | rfl
  · refine ⟨rfl, ?_⟩
    intro c hc
    simp only [List.mem_cons, List.mem_nil_iff, or_false] at hc
    rcases hc with rfl | rfl | rfl
    · exact ⟨by decide, by decide⟩
    · exact (by decide : CellOk "mic_1.mrc".toList)
    · trivial
  · refine ⟨rfl, ?_⟩
    intro c hc
    simp only [List.mem_cons, List.mem_nil_iff, or_false] at hc
    rcases hc with rfl | rfl | rfl
    · exact ⟨by decide, by decide⟩
    · exact (by decide : CellOk "12".toList)
    · trivial
set_option maxRecDepth 8000 in
example : printTyped true exTyped = "\ndata_particles\n\nloop_\n_rlnX #1\n_rlnName #2\n_n #3\n1.5       \tmic_1.mrc \t-3        \n-1e+16    \t12        \t40        \n\n".toList := by decide
example : (exTyped.map TBlock.texts).map (blockKinds isNumTok) = [[true, false, true]] := by decide
example : [floatRepr false "1".toList 16, floatRepr false "1".toList (-3), floatRepr false "1".toList (-4), floatRepr true "5".toList (-323),
           floatRepr false "0".toList 1, floatRepr false "123456".toList 3, floatRepr false "33".toList 101, intStr (-12)]
    = ["1000000000000000.0".toList, "0.0001".toList, "1e-05".toList, "-5e-324".toList, "0.0".toList, "123.456".toList, "3.3e+100".toList, "-12".toList] := by decide
example : ["inf", "-Infinity", "+iNf", "1e5", ".5", "7.", "-0.0"].map (fun s => isNumTok s.toList) = [true, true, true, true, true, true, true] ∧
          ["nan", "infinit", "1e", ".", "+", "1_0", "0x10", "--1", "e5", "1.2.3"].map (fun s => isNumTok s.toList) = List.replicate 10 false := by decide
example : toCRLF "# c \ndata_\nloop_\n_a #1\n1\n".toList = "# c \r\ndata_\r\nloop_\r\n_a #1\r\n1\r\n".toList := by decide
example : readStarC "# c \r\ndata_ # d\r\nloop_\r\n_a #1\r\n# e\r\n1\r\n#z".toList
    = .ok [({ name := "data_".toList, cols := ["a".toList], rows := [["1".toList]] }, ["c".toList, "d".toList, "e".toList])] := by decide
set_option maxRecDepth 8000 in
example : printStarC true [some [" made by hand ".toList, "x".toList], none] exBlocks
    = some "\n#  made by hand \n# x\n\ndata_optics\n\nloop_\n_rlnVoltage #1\n_rlnName #2\n300.0     \topticsGroup1\n\n\ndata_stopgap_motl\n\nloop_\n_x\n\n\n".toList := by decide
example : ComsOk [some [" made by hand ".toList, "x".toList], none] := by decide
example : comRead (some [" made by hand ".toList, "x".toList]) = ["made by hand".toList, "x".toList] := by decide
example : readSel (printStar true exBlocks) (-1) = .ok (exBlocks[1], []) ∧ readSel (printStar true exBlocks) 2 = .error .index := by decide
example : getFrameAndComments (printStar true exBlocks) "data_stopgap_motl".toList = .ok (exBlocks[1], []) ∧
          getFrameAndComments (printStar true exBlocks) "data_x".toList = .error .noEntry := by decide

/-! non-vacuity of the hardening theorems -/
example : tokenizeLine "a\u2003b\u3000\u00a0c\u200bd".toList = (["a".toList, "b".toList, "c\u200bd".toList], none) := by decide
example : ["12", "-3", "+7", "0012"].map (fun s => isIntTok s.toList) = [true, true, true, true] ∧
          ["1.0", "1e5", "inf", "", "-", "1_0", "٣"].map (fun s => isIntTok s.toList) = List.replicate 7 false := by decide
example : (exTyped.map TBlock.texts).map blockInts = [[false, false, true]] := by decide
example : dropRows [0, 2] ["a", "b", "c", "d"] = ["b", "d"] := by decide
example : (dropAt exBlocks 0 [0]).map (fun b => b.rows.length) = [0, 0] := by decide
example : removeLines (printStar true exBlocks) [] (some "data_stopgap_motl".toList) false
    = .ok "\n\ndata_optics\n\nloop_\n_rlnVoltage\n_rlnName\n300.0     \topticsGroup1\n\n\n\ndata_stopgap_motl\n\nloop_\n_x\n\n\n".toList := by decide +kernel
example : removeLines (printStar true exBlocks) [] (some "data_x".toList) true = .error .notFound ∧
          removeLines (printStar true exBlocks) [1] none true = .error .rowIndex := by decide +kernel
example : (withDefaultNames exBlocks).map Block.name = ["data".toList, "data".toList] := by decide

/-! non-vacuity of the value theorems -/
example : ["1.5", "-0.000123", "1e-05", "3.3e+2", "12", ".5", "7.", "-12.e2", "+2", "1E3"].map (fun s => decValue s.toList)
    = [some (3 / 2), some (-123 / 1000000), some (1 / 100000), some 330, some 12, some (1 / 2), some 7, some (-1200), some 2, some 1000] := by decide +kernel
example : ["inf", "nan", "1_0", "", "-", "1e", "x"].map (fun s => decValue s.toList) = List.replicate 7 none := by decide
/-- 1.5 (bit pattern 0x3FF8000000000000) printed as `1.5` meets the clause; printed with a seventh decimal or half a unit off it does not -/
example : bitsValue 0x3FF8000000000000 = some (3 / 2, 1 / 4503599627370496) := by decide +kernel
example : round6Cell 0x3FF8000000000000 "1.5".toList = true ∧ round6Cell 0x3FF8000000000000 "1.5000001".toList = false ∧
          round6Cell 0x3FF8000000000000 "1.500001".toList = false ∧ round6Cell 0x3FF8000000000000 "inf".toList = false := by decide +kernel
/-- the double nearest 0.1234565 (0x3FBF9AD85DFA871A, 3·10⁻¹⁸ below the tie) may be printed as 0.123456 or 0.123457 — both are
within half a unit of the sixth decimal + 3 ulp — but not as 0.123458 -/
example : round6Cell 0x3FBF9AD85DFA871A "0.123456".toList = true ∧ round6Cell 0x3FBF9AD85DFA871A "0.123457".toList = true ∧
          round6Cell 0x3FBF9AD85DFA871A "0.123458".toList = false := by decide +kernel
example : digitsValue true "15".toList 1 = -3 / 2 ∧ digitsValue false "1".toList (-4) = 1 / 100000 := by decide +kernel
/-- the two witness documents are in the statement's class and not separated: `reader_rejects_outside_sepOk` applies to them -/
example : (k3Doc.OkStatement ∧ ¬ SepOk k3Doc.trailing k3Doc.blocks) ∧ (k4Doc.OkStatement ∧ ¬ SepOk k4Doc.trailing k4Doc.blocks) := by decide
example : removeTarget [(exBlocks[0], []), (exBlocks[1], [])] (some "data_stopgap_motl".toList) = some 1 ∧ removeTarget [(exBlocks[0], [])] none = some 0 := by decide

end CryoCat.C02
