import CryoCat.Lemmas.C12
import CryoCat.Lemmas.C12_Grid
import CryoCat.Lemmas.C12_Round
import CryoCat.Lemmas.C12_Op
/-! C12 — property theorems: the Fourier filters are the documented radial low/high/band-pass gains.

Reading guide (statement clause → theorem):
* linear, real-valued, commute with circular shifts, scale each Fourier component by the gain →
  `filt_add`, `filt_smul`, `filt_real`, `filt_shift`, `filt_spectrum`, `filt_effective_gain`
* hard edge: gain exactly 1 up to the cutoff radius and 0 beyond, as a function of the integer
  frequency radius → `freq_spec`, `hard_gain`, `hard_gain_even`
* Gaussian edge: gain in [0,1], 1 inside, 0 outside → `soft_gain_range`, `soft_gain_one`,
  `soft_gain_zero`, `soft_gain_tail` (the literal margins `4σ+1` and "non-increasing in between"
  are NOT proved: `SoftEdgeFull` below states them; see `soft_gain_*_partial` remarks)
* high-pass = complement, band-pass = difference → `highpass_complement`, `bandpass_difference`,
  `high_gain_range`, `band_gain_range_nested`
* resolution → `res2pix_round`, `roundRat_nearest_even`, `filter_radius_*`
* executable arrays = these functions → `lowGain_grid`, `highGain_grid`, `bandGain_grid`, `effGain_grid` -/
namespace CryoCat.C12
open Gen.C12

/-! ### translator obligations: the source still says what the model assumes -/

theorem anchors_ok : anchorsOk = true := by decide

/-- all four `spherical_mask` calls pass `gaussian_outwards=False` (the radius is not enlarged) -/
theorem outwards_false : outwardsFlags = [false, false, false, false] := by decide

/-- low/high-pass hand `(input_map.shape, radius, gaussian)` to the mask; band-pass builds the outer
mask from `lp_radius, lp_gaussian` and the inner one from `hp_radius, hp_gaussian` -/
theorem mask_arguments_documented :
    maskArgs = [("radius", "gaussian"), ("radius", "gaussian"), ("lp_radius", "lp_gaussian"), ("hp_radius", "hp_gaussian")]
    ∧ maskShapes = ["input_map.shape", "input_map.shape", "input_map.shape", "input_map.shape"] := by decide

/-- the three filters are `np.real(ifftn(fftn(x) * ifftshift(M)))` with `M` = mask, `ones − mask`,
`outer − inner` -/
theorem apply_expressions_documented :
    applyExprs = ["np.real(fft.ifftn(fft.fftn(input_map)*fft.ifftshift(MASK)))",
                  "np.real(fft.ifftn(fft.fftn(input_map)*fft.ifftshift(np.ones(input_map.shape)-MASK)))",
                  "np.real(fft.ifftn(fft.fftn(input_map)*fft.ifftshift(outer_mask-inner_mask)))"] := by decide

/-- the box edge used for a resolution is `input_map.shape[0]` at all four sites -/
theorem box_edge_documented :
    boxEdges = ["input_map.shape[0]", "input_map.shape[0]", "input_map.shape[0]", "input_map.shape[0]"] := by decide

theorem band_keywords_documented :
    bandRadiusArgs = [("lp_fourier_pixels", "lp_target_resolution"), ("hp_fourier_pixels", "hp_target_resolution")] := by decide

theorem resolution_expressions_documented :
    res2pixExpr = "round(edge_size*pixel_size/resolution)" ∧ pix2resExpr = "edge_size*pixel_size/fourier_pixels" := by decide

theorem filter_radius_branches_documented :
    filterRadiusBranches = [("fourier_pixels is not None", "fourier_pixels"),
      ("target_resolution is not None and pixel_size is not None", "resolution2pixels(target_resolution,edge_size=edge_size,pixel_size=pixel_size)"),
      ("else", "raise ValueError")] := by decide

theorem sphere_documented :
    sphereOutsideStrict = true ∧
    sphereStatements = ["x,y,z=np.mgrid[0:mask_size[0]:1,0:mask_size[1]:1,0:mask_size[2]:1]",
      "mask=np.sqrt((x-center[0])**2+(y-center[1])**2+(z-center[2])**2)", "mask[mask>radius]=0", "mask[mask>0]=1",
      "mask[center[0],center[1],center[2]]=1"] ∧
    centreExpr = "box_size//2" := by decide

theorem blur_documented :
    enlargeCond = "gaussian!=0.0 and gaussian_outwards" ∧ blurSkipCond = "sigma==0" ∧
    blurCall = "filters.gaussian(input_mask,sigma=sigma)" := by decide

/-! ### the integer frequency of a DFT bin -/

/-- `freq n j` — the offset from the mask centre of the voxel that `ifftshift` puts on DFT bin `j` —
is the signed integer frequency of that bin: congruent to `j` modulo `n`, in `[-⌊n/2⌋, n-⌊n/2⌋)`,
and it is the only such integer. Even and odd `n`. -/
theorem freq_spec (n : Nat) (hn : 0 < n) (j : Int) :
    (∃ c : Int, freq n j - j = (n : Int) * c) ∧ -((n / 2 : Nat) : Int) ≤ freq n j ∧ freq n j < (n : Int) - ((n / 2 : Nat) : Int) ∧
    ∀ a : Int, -((n / 2 : Nat) : Int) ≤ a → a < (n : Int) - ((n / 2 : Nat) : Int) → (∃ c : Int, a - j = (n : Int) * c) → freq n j = a :=
  ⟨freq_dvd n j, (freq_range n hn j).1, (freq_range n hn j).2, fun a h1 h2 h3 => freq_unique n hn j a h1 h2 h3⟩

/-- squared integer frequency radius of DFT bin `(j,k,l)` -/
def freqRadius2 (d : Dims) (j k l : Int) : Int :=
  freq d.nx j * freq d.nx j + freq d.ny k * freq d.ny k + freq d.nz l * freq d.nz l

/-- opposite frequencies have the same radius (also at the Nyquist bin of an even axis) -/
theorem freqRadius2_neg (d : Dims) (hd : 0 < d.nx ∧ 0 < d.ny ∧ 0 < d.nz) (j k l : Int) :
    freqRadius2 d (negIdx d.nx j) (negIdx d.ny k) (negIdx d.nz l) = freqRadius2 d j k l := by
  unfold freqRadius2
  rw [freq_neg_sq _ hd.1, freq_neg_sq _ hd.2.1, freq_neg_sq _ hd.2.2]

section gains
set_option linter.unusedSectionVars false
variable {K : Type} [Field K] [LinearOrder K] [IsStrictOrderedRing K]

/-! ### hard edge -/

/-- **Without a soft edge the low-pass gain is exactly 1 up to the cutoff radius and 0 beyond it**,
as a function of the integer frequency radius; any box (cubic or not, even or odd edges), any cutoff ≥ 0. -/
theorem hard_gain (d : Dims) (r : Int) (hr : 0 ≤ r) (j k l : Int) :
    lowGainFn (none : Option (List (Int × K))) d r j k l = if freqRadius2 d j k l ≤ r * r then 1 else 0 := by
  simp only [lowGainFn, shiftVol, lowMaskFn, sphere]
  by_cases h : freqRadius2 d j k l ≤ r * r
  · rw [if_pos ((inBall_iff d r hr _ _ _).2 (by exact h)), if_pos h]
  · have : ¬ inBall d r (shiftIdx d.nx j) (shiftIdx d.ny k) (shiftIdx d.nz l) = true := by
      rw [inBall_iff d r hr]; exact h
    rw [if_neg this, if_neg h]

/-- the hard gain is even, so the spectrum of a real map stays Hermitian and `np.real` drops nothing -/
theorem hard_gain_even (d : Dims) (hd : 0 < d.nx ∧ 0 < d.ny ∧ 0 < d.nz) (r : Int) (hr : 0 ≤ r) (j k l : Int) :
    lowGainFn (none : Option (List (Int × K))) d r (negIdx d.nx j) (negIdx d.ny k) (negIdx d.nz l)
      = lowGainFn (none : Option (List (Int × K))) d r j k l := by
  rw [hard_gain d r hr, hard_gain d r hr, freqRadius2_neg d hd]

/-- … hence the effective gain of the hard filter is the gain itself -/
theorem hard_gain_effective (d : Dims) (hd : 0 < d.nx ∧ 0 < d.ny ∧ 0 < d.nz) (r : Int) (hr : 0 ≤ r) (j k l : Int) :
    effGain d (lowGainFn (none : Option (List (Int × K))) d r) j k l = lowGainFn (none : Option (List (Int × K))) d r j k l := by
  simp only [effGain]
  rw [hard_gain_even d hd r hr]
  ring

/-! ### Gaussian (any non-negative unit-sum kernel of support `t`) edge -/

/-- **gain in [0,1]** -/
theorem soft_gain_range (ker : List (Int × K)) (t : Nat) (hk : ValidKernel t ker) (d : Dims)
    (hd : 0 < d.nx ∧ 0 < d.ny ∧ 0 < d.nz) (r : Int) (j k l : Int) :
    0 ≤ lowGainFn (some ker) d r j k l ∧ lowGainFn (some ker) d r j k l ≤ 1 := by
  have hb := shift_inbox d j k l hd
  simp only [lowGainFn, shiftVol, lowMaskFn]
  constructor
  · have := blur3_mono ker t hk.nonneg hk.within d (fun _ _ _ => 0) (sphere d r) _ _ _ hb (fun x y z _ => (sphere_range d r x y z).1)
    rwa [blur3_const ker hk.unit] at this
  · have := blur3_mono ker t hk.nonneg hk.within d (sphere d r) (fun _ _ _ => 1) _ _ _ hb (fun x y z _ => (sphere_range d r x y z).2)
    rwa [blur3_const ker hk.unit] at this

/-- **gain exactly 1 well inside**: integer frequency radius ≤ ρ, the kernel's reach `√3·t ≤ s`,
and `ρ + s ≤ cutoff` (no square roots needed: `|k|² ≤ ρ²`, `3t² ≤ s²`). -/
theorem soft_gain_one (ker : List (Int × K)) (t : Nat) (hk : ValidKernel t ker) (d : Dims)
    (hd : 0 < d.nx ∧ 0 < d.ny ∧ 0 < d.nz) (r ρ s : Int) (hρ : 0 ≤ ρ) (hs : 0 ≤ s)
    (j k l : Int) (hin : freqRadius2 d j k l ≤ ρ * ρ) (hreach : 3 * ((t : Int) * (t : Int)) ≤ s * s) (hfit : ρ + s ≤ r) :
    lowGainFn (some ker) d r j k l = 1 := by
  have hb := shift_inbox d j k l hd
  simp only [lowGainFn, shiftVol, lowMaskFn]
  rw [blur3_congr ker t hk.within d (sphere d r) (fun _ _ _ => 1) _ _ _ hb, blur3_const ker hk.unit]
  intro x' y' z' hc
  have hr : 0 ≤ r := by omega
  have : inBall d r x' y' z' = true := by
    rw [inBall_iff d r hr]
    obtain ⟨_, hx, hy, hz⟩ := hc
    set X := shiftIdx d.nx j; set Y := shiftIdx d.ny k; set Z := shiftIdx d.nz l
    have hq : (x' - X) * (x' - X) + (y' - Y) * (y' - Y) + (z' - Z) * (z' - Z) ≤ s * s := by
      have h1 : (x' - X) * (x' - X) ≤ (t : Int) * t := by nlinarith
      have h2 : (y' - Y) * (y' - Y) ≤ (t : Int) * t := by nlinarith
      have h3 : (z' - Z) * (z' - Z) ≤ (t : Int) * t := by nlinarith
      linarith
    have := ball_add (X - centre d.nx) (Y - centre d.ny) (Z - centre d.nz) (x' - X) (y' - Y) (z' - Z) ρ s hρ hs hin hq
    have e : dist2 d x' y' z' = (X - centre d.nx + (x' - X)) * (X - centre d.nx + (x' - X)) + (Y - centre d.ny + (y' - Y)) * (Y - centre d.ny + (y' - Y))
        + (Z - centre d.nz + (z' - Z)) * (Z - centre d.nz + (z' - Z)) := by unfold dist2; ring
    rw [e]
    have : (ρ + s) * (ρ + s) ≤ r * r := by nlinarith
    linarith
  simp [sphere, this]

/-- **gain exactly 0 well outside**: integer frequency radius ≥ ρ > cutoff + s -/
theorem soft_gain_zero (ker : List (Int × K)) (t : Nat) (hk : ValidKernel t ker) (d : Dims)
    (hd : 0 < d.nx ∧ 0 < d.ny ∧ 0 < d.nz) (r ρ s : Int) (hr : 0 ≤ r) (hs : 0 ≤ s)
    (j k l : Int) (hout : ρ * ρ ≤ freqRadius2 d j k l) (hreach : 3 * ((t : Int) * (t : Int)) ≤ s * s) (hfar : r + s < ρ) :
    lowGainFn (some ker) d r j k l = 0 := by
  have hb := shift_inbox d j k l hd
  simp only [lowGainFn, shiftVol, lowMaskFn]
  rw [blur3_congr ker t hk.within d (sphere d r) (fun _ _ _ => 0) _ _ _ hb, blur3_const ker hk.unit]
  intro x' y' z' hc
  have : ¬ inBall d r x' y' z' = true := by
    rw [inBall_iff d r hr]
    obtain ⟨_, hx, hy, hz⟩ := hc
    set X := shiftIdx d.nx j; set Y := shiftIdx d.ny k; set Z := shiftIdx d.nz l
    have hq : (x' - X) * (x' - X) + (y' - Y) * (y' - Y) + (z' - Z) * (z' - Z) ≤ s * s := by
      have h1 : (x' - X) * (x' - X) ≤ (t : Int) * t := by nlinarith
      have h2 : (y' - Y) * (y' - Y) ≤ (t : Int) * t := by nlinarith
      have h3 : (z' - Z) * (z' - Z) ≤ (t : Int) * t := by nlinarith
      linarith
    have := ball_sub (X - centre d.nx) (Y - centre d.ny) (Z - centre d.nz) (x' - X) (y' - Y) (z' - Z) ρ s r hr hs hfar hout hq
    have e : dist2 d x' y' z' = (X - centre d.nx + (x' - X)) * (X - centre d.nx + (x' - X)) + (Y - centre d.ny + (y' - Y)) * (Y - centre d.ny + (y' - Y))
        + (Z - centre d.nz + (z' - Z)) * (Z - centre d.nz + (z' - Z)) := by unfold dist2; ring
    rw [e]; exact this
  simp [sphere, this]

/-- **how far from 1 / from 0 in between**: `1 − gain` is at most the kernel weight of the offsets whose
(edge-clamped) voxel leaves the ball, and `gain` at most the weight of those that enter it. -/
theorem soft_gain_tail (ker : List (Int × K)) (t : Nat) (hk : ValidKernel t ker) (d : Dims)
    (hd : 0 < d.nx ∧ 0 < d.ny ∧ 0 < d.nz) (r : Int) (j k l : Int) :
    1 - lowGainFn (some ker) d r j k l
        = blur3Fn ker d (fun x y z => if inBall d r x y z then 0 else 1) (shiftIdx d.nx j) (shiftIdx d.ny k) (shiftIdx d.nz l)
    ∧ lowGainFn (some ker) d r j k l
        = blur3Fn ker d (fun x y z => if inBall d r x y z then 1 else 0) (shiftIdx d.nx j) (shiftIdx d.ny k) (shiftIdx d.nz l) := by
  have hb := shift_inbox d j k l hd
  simp only [lowGainFn, shiftVol, lowMaskFn]
  refine ⟨?_, rfl⟩
  have h1 : (1 : K) = blur3Fn ker d (fun _ _ _ => (1 : K)) (shiftIdx d.nx j) (shiftIdx d.ny k) (shiftIdx d.nz l) :=
    (blur3_const ker hk.unit d 1 _ _ _).symm
  rw [show (1 : K) - blur3Fn ker d (sphere d r) (shiftIdx d.nx j) (shiftIdx d.ny k) (shiftIdx d.nz l)
      = blur3Fn ker d (fun _ _ _ => (1 : K)) (shiftIdx d.nx j) (shiftIdx d.ny k) (shiftIdx d.nz l)
        - blur3Fn ker d (sphere d r) (shiftIdx d.nx j) (shiftIdx d.ny k) (shiftIdx d.nz l) by rw [← h1]]
  rw [← blur3_sub]
  apply blur3_congr ker t hk.within d _ _ _ _ _ hb
  intro x y z _
  simp only [sphere]
  split_ifs <;> simp

/-- a larger cutoff never lowers the gain (same kernel) -/
theorem soft_gain_mono_cutoff (ker : Option (List (Int × K))) (t : Nat) (hk : ∀ k' ∈ ker, ValidKernel t k') (d : Dims)
    (hd : 0 < d.nx ∧ 0 < d.ny ∧ 0 < d.nz) (r r' : Int) (hr : 0 ≤ r) (hrr : r ≤ r') (j k l : Int) :
    lowGainFn ker d r j k l ≤ lowGainFn ker d r' j k l := by
  have hb := shift_inbox d j k l hd
  have hs : ∀ x y z, (sphere d r x y z : K) ≤ sphere d r' x y z := by
    intro x y z
    simp only [sphere]
    by_cases h : inBall d r x y z = true
    · have h' : inBall d r' x y z = true := by
        rw [inBall_iff d r' (by omega)]
        rw [inBall_iff d r hr] at h
        have : r * r ≤ r' * r' := by nlinarith
        linarith
      simp [h, h']
    · rw [if_neg h]
      split_ifs
      · exact zero_le_one
      · exact le_refl _
  cases ker with
  | none => exact hs _ _ _
  | some k' =>
    have hv := hk k' rfl
    exact blur3_mono k' t hv.nonneg hv.within d _ _ _ _ _ hb (fun x y z _ => hs x y z)

/-! ### high-pass and band-pass gains -/

/-- the high-pass gain is the exact complement of the low-pass gain with the same parameters … -/
theorem high_gain_complement (ker : Option (List (Int × K))) (d : Dims) (r : Int) (j k l : Int) :
    highGainFn ker d r j k l = 1 - lowGainFn ker d r j k l := rfl

/-- … the band-pass gain is the difference of its two low-pass gains … -/
theorem band_gain_difference (kl kh : Option (List (Int × K))) (d : Dims) (lp hp : Int) (j k l : Int) :
    bandGainFn kl kh d lp hp j k l = lowGainFn kl d lp j k l - lowGainFn kh d hp j k l := rfl

theorem low_gain_range (ker : Option (List (Int × K))) (t : Nat) (hk : ∀ k' ∈ ker, ValidKernel t k') (d : Dims)
    (hd : 0 < d.nx ∧ 0 < d.ny ∧ 0 < d.nz) (r : Int) (j k l : Int) :
    0 ≤ lowGainFn ker d r j k l ∧ lowGainFn ker d r j k l ≤ 1 := by
  cases ker with
  | none => exact sphere_range d r _ _ _
  | some k' => exact soft_gain_range k' t (hk k' rfl) d hd r j k l

/-- … so the high-pass gain lies in [0,1] too … -/
theorem high_gain_range (ker : Option (List (Int × K))) (t : Nat) (hk : ∀ k' ∈ ker, ValidKernel t k') (d : Dims)
    (hd : 0 < d.nx ∧ 0 < d.ny ∧ 0 < d.nz) (r : Int) (j k l : Int) :
    0 ≤ highGainFn ker d r j k l ∧ highGainFn ker d r j k l ≤ 1 := by
  have := low_gain_range ker t hk d hd r j k l
  rw [high_gain_complement]
  constructor <;> linarith [this.1, this.2]

/-- … and the band-pass gain lies in [0,1] when both masks use the same edge and `0 ≤ hp ≤ lp`.
(With different widths the difference of two low-passes can be negative: e.g. a hard outer and a wide
inner edge; the statement's range clause is therefore read for nested masks.) -/
theorem band_gain_range_nested (ker : Option (List (Int × K))) (t : Nat) (hk : ∀ k' ∈ ker, ValidKernel t k') (d : Dims)
    (hd : 0 < d.nx ∧ 0 < d.ny ∧ 0 < d.nz) (lp hp : Int) (h0 : 0 ≤ hp) (h1 : hp ≤ lp) (j k l : Int) :
    0 ≤ bandGainFn ker ker d lp hp j k l ∧ bandGainFn ker ker d lp hp j k l ≤ 1 := by
  have m := soft_gain_mono_cutoff ker t hk d hd hp lp h0 h1 j k l
  have a := low_gain_range ker t hk d hd lp j k l
  have b := low_gain_range ker t hk d hd hp j k l
  rw [band_gain_difference]
  constructor <;> linarith [a.1, a.2, b.1, b.2]

/-- the effective (even-part) gain of any gain with values in [0,1] stays in [0,1] -/
theorem effective_gain_range (d : Dims) (g : Vol K) (h : ∀ j k l, 0 ≤ g j k l ∧ g j k l ≤ 1) (j k l : Int) :
    0 ≤ effGain d g j k l ∧ effGain d g j k l ≤ 1 := by
  simp only [effGain]
  have a := h j k l
  have b := h (negIdx d.nx j) (negIdx d.ny k) (negIdx d.nz l)
  constructor
  · apply div_nonneg <;> linarith [a.1, b.1]
  · rw [div_le_one (by norm_num)]; linarith [a.2, b.2]

/-- the kernel the driver builds (for any positive `exp`) is valid, so every soft-edge theorem applies
to the executed model -/
theorem model_kernel_valid [BEq K] (expf : K → K) (hexp : ∀ x, 0 < expf x) (ofI : Int → K) (trunc : K → Nat) (sigma : K) :
    ∀ k' ∈ kernelFor expf ofI trunc sigma, ValidKernel (trunc sigma) k' := by
  intro k' hk'
  unfold kernelFor at hk'
  split_ifs at hk' with h
  · cases hk'
  · cases hk'
    exact gaussKernel_valid expf hexp ofI sigma (trunc sigma)

end gains

/-- What the statement says literally about the Gaussian edge and what is NOT proved here: with the
truncated Gaussian of width `σ` the gain is 1 for radius ≤ cutoff−4σ−1, 0 for radius ≥ cutoff+4σ+1 and
non-increasing in the radius in between. In exact arithmetic the first two hold only up to the weight of
the kernel's corner offsets (`soft_gain_tail` gives the exact expression; the harness checks them with
1e-4) and the third is a property of the Gaussian's shape that the harness validates along axis and
diagonal rays. Kept as a statement, no proof claimed. -/
def SoftEdgeFull {K : Type} [Field K] [LinearOrder K] [IsStrictOrderedRing K]
    (ker : List (Int × K)) (d : Dims) (r : Int) (fourSigmaPlusOne : Int) : Prop :=
  (∀ j k l ρ : Int, 0 ≤ ρ → freqRadius2 d j k l ≤ ρ * ρ → ρ ≤ r - fourSigmaPlusOne → lowGainFn (some ker) d r j k l = 1) ∧
  (∀ j k l ρ : Int, ρ * ρ ≤ freqRadius2 d j k l → r + fourSigmaPlusOne ≤ ρ → lowGainFn (some ker) d r j k l = 0) ∧
  (∀ j k l m : Int, 0 ≤ m → lowGainFn (some ker) d r ((m + 1) * j) ((m + 1) * k) ((m + 1) * l) ≤ lowGainFn (some ker) d r (m * j) (m * k) (m * l))

/-! ### the executed arrays hold these gains -/
section grids
variable {α : Type} [Add α] [Mul α] [Sub α] [OfNat α 0] [OfNat α 1]

theorem lowGain_grid (ker : Option (List (Int × α))) (d : Dims) (r : Int) (j k l : Int) (hb : InBox d j k l) :
    (gainGrid d (lowMaskGrid ker d r)).get j k l = lowGainFn ker d r j k l :=
  gainGrid_get d _ _ (fun x y z h => lowMaskGrid_get ker d r x y z h) j k l hb

theorem highGain_grid (ker : Option (List (Int × α))) (d : Dims) (r : Int) (j k l : Int) (hb : InBox d j k l) :
    (gainGrid d (highMaskGrid ker d r)).get j k l = highGainFn ker d r j k l :=
  gainGrid_get d _ _ (fun x y z h => highMaskGrid_get ker d r x y z h) j k l hb

theorem bandGain_grid (kl kh : Option (List (Int × α))) (d : Dims) (lp hp : Int) (j k l : Int) (hb : InBox d j k l) :
    (gainGrid d (bandMaskGrid kl kh d lp hp)).get j k l = bandGainFn kl kh d lp hp j k l :=
  gainGrid_get d _ _ (fun x y z h => bandMaskGrid_get kl kh d lp hp x y z h) j k l hb

theorem effGain_grid [Div α] [OfNat α 2] (d : Dims) (m : Grid α) (f : Vol α)
    (hm : ∀ x y z, InBox d x y z → m.get x y z = f x y z) (j k l : Int) (hb : InBox d j k l) :
    (effGrid d (gainGrid d m)).get j k l = effGain d (shiftVol d f) j k l :=
  effGrid_get d _ _ (fun x y z h => gainGrid_get d m f hm x y z h) j k l hb
end grids

/-! ### the filter operator: linear, real-valued, shift-commuting, one gain per Fourier component -/
section operator
variable {R C : Type} [Field R] [AddCommGroup C] [Module R C]

variable {F Finv : (Idx → C) → (Idx → C)} {re : C → C}

/-- **linear (1)**: additive, for every gain -/
theorem filt_add (T : Transform R F Finv re) (g : Idx → R) (x y : Idx → C) :
    filt F Finv re g (x + y) = filt F Finv re g x + filt F Finv re g y := by
  funext i
  simp only [filt, Pi.add_apply, T.F_add]
  have : (fun k => g k • (F x k + F y k)) = (fun k => g k • F x k) + (fun k => g k • F y k) := by
    funext k; simp [smul_add]
  rw [this, T.Finv_add, Pi.add_apply, T.re_add]

/-- **linear (2)**: homogeneous for real scalars -/
theorem filt_smul (T : Transform R F Finv re) (g : Idx → R) (a : R) (x : Idx → C) :
    filt F Finv re g (a • x) = a • filt F Finv re g x := by
  funext i
  simp only [filt, Pi.smul_apply, T.F_smul]
  have : (fun k => g k • a • F x k) = a • (fun k => g k • F x k) := by
    funext k; simp only [Pi.smul_apply]; exact smul_comm _ _ _
  rw [this, T.Finv_smul, Pi.smul_apply, T.re_smul]

/-- **real-valued**: the output is its own real part -/
theorem filt_real (T : Transform R F Finv re) (g : Idx → R) (x : Idx → C) (i : Idx) :
    re (filt F Finv re g x i) = filt F Finv re g x i := T.re_idem _

/-- **commutes with circular shifts**: let `σ` re-index the grid (`roll`) and let the transform turn it
into a pointwise phase `φ` that commutes with real scalars (the DFT shift theorem). Then filtering the
shifted map is shifting the filtered map. -/
theorem filt_shift (T : Transform R F Finv re) (g : Idx → R) (σ : Idx → Idx) (φ : Idx → C → C)
    (hφ : ∀ k (a : R) c, φ k (a • c) = a • φ k c)
    (hF : ∀ x : Idx → C, F (fun i => x (σ i)) = fun k => φ k (F x k)) (x : Idx → C) :
    filt F Finv re g (fun i => x (σ i)) = fun i => filt F Finv re g x (σ i) := by
  have hFinv : ∀ y : Idx → C, Finv (fun k => φ k (y k)) = fun i => Finv y (σ i) := by
    intro y
    have := hF (Finv y)
    rw [T.right_inv] at this
    rw [← this, T.left_inv]
  funext i
  simp only [filt, hF]
  have : (fun k => g k • φ k (F x k)) = (fun k => φ k ((fun k => g k • F x k) k)) := by
    funext k; rw [hφ]
  rw [this, hFinv]

/-- **each Fourier component is scaled by its gain** (before `np.real`) -/
theorem filt_spectrum (T : Transform R F Finv re) (g : Idx → R) (x : Idx → C) (k : Idx) :
    F (Finv (fun k => g k • F x k)) k = g k • F x k := by rw [T.right_inv]

/-- for an even gain (the hard filters: `hard_gain_even`) and a map with Hermitian spectrum (a real
map), `np.real` drops nothing, so the output's spectrum is exactly gain × input spectrum -/
theorem filt_even_gain (T : Transform R F Finv re) (conj : C → C) (ν : Idx → Idx)
    (hconj : ∀ (a : R) c, conj (a • c) = a • conj c)
    (hreal : ∀ y : Idx → C, (∀ k, y (ν k) = conj (y k)) → ∀ i, re (Finv y i) = Finv y i)
    (g : Idx → R) (hg : ∀ k, g (ν k) = g k) (x : Idx → C) (hx : ∀ k, F x (ν k) = conj (F x k)) :
    filt F Finv re g x = Finv (fun k => g k • F x k) ∧ ∀ k, F (filt F Finv re g x) k = g k • F x k := by
  have h : filt F Finv re g x = Finv (fun k => g k • F x k) := by
    funext i
    simp only [filt]
    apply hreal
    intro k
    rw [hg, hx, hconj]
  exact ⟨h, fun k => by rw [h, T.right_inv]⟩

/-- for ANY real gain, `np.real` makes the filter act with the even part of the gain: the output's
spectrum is `(g(k) + g(-k))/2 × ` input spectrum (what the harness measures and compares) -/
theorem filt_effective_gain (T : Transform R F Finv re) (h2 : (2 : R) ≠ 0) (conj : C → C) (ν : Idx → Idx)
    (hconj : ∀ (a : R) c, conj (a • c) = a • conj c) (hcc : ∀ c, conj (conj c) = c)
    (hre : ∀ (y : Idx → C) i, re (Finv y i) = Finv (fun k => (1 / 2 : R) • (y k + conj (y (ν k)))) i)
    (g : Idx → R) (x : Idx → C) (hx : ∀ k, F x (ν k) = conj (F x k)) :
    filt F Finv re g x = Finv (fun k => ((g k + g (ν k)) / 2) • F x k)
    ∧ ∀ k, F (filt F Finv re g x) k = ((g k + g (ν k)) / 2) • F x k := by
  have h : filt F Finv re g x = Finv (fun k => ((g k + g (ν k)) / 2) • F x k) := by
    funext i
    simp only [filt]
    rw [hre]
    congr 1
    funext k
    rw [hconj, hx k, hcc, ← add_smul, smul_smul]
    congr 1
    field_simp
  exact ⟨h, fun k => by rw [h, T.right_inv]⟩

/-- **high-pass is the exact complement of the low-pass with the same parameters**: for every gain `g`
the filter with gain `1 − g` returns `re x − (filter with gain g)`, i.e. `x − lowpass x` for a real map -/
theorem filt_complement (T : Transform R F Finv re) (g : Idx → R) (x : Idx → C) (i : Idx) :
    filt F Finv re (fun k => 1 - g k) x i = re (x i) - filt F Finv re g x i := by
  simp only [filt]
  have : (fun k => (1 - g k) • F x k) = F x - (fun k => g k • F x k) := by
    funext k; simp [sub_smul]
  rw [this, T.Finv_sub, T.left_inv, Pi.sub_apply, T.re_sub]

/-- **band-pass equals the difference of its two low-passes** -/
theorem filt_difference (T : Transform R F Finv re) (g1 g2 : Idx → R) (x : Idx → C) (i : Idx) :
    filt F Finv re (fun k => g1 k - g2 k) x i = filt F Finv re g1 x i - filt F Finv re g2 x i := by
  simp only [filt]
  have : (fun k => (g1 k - g2 k) • F x k) = (fun k => g1 k • F x k) - (fun k => g2 k • F x k) := by
    funext k; simp [sub_smul]
  rw [this, T.Finv_sub, Pi.sub_apply, T.re_sub]

/-- the three cryoCAT filters, with their own gains -/
theorem highpass_complement (T : Transform R F Finv re) (ker : Option (List (Int × R))) (d : Dims) (r : Int)
    (x : Idx → C) (i : Idx) :
    highpass F Finv re ker d r x i = re (x i) - lowpass F Finv re ker d r x i := by
  unfold highpass lowpass
  exact filt_complement T (atIdx (lowGainFn ker d r)) x i

theorem bandpass_difference (T : Transform R F Finv re) (kl kh : Option (List (Int × R))) (d : Dims) (lp hp : Int)
    (x : Idx → C) (i : Idx) :
    bandpass F Finv re kl kh d lp hp x i = lowpass F Finv re kl d lp x i - lowpass F Finv re kh d hp x i := by
  unfold bandpass lowpass
  exact filt_difference T (atIdx (lowGainFn kl d lp)) (atIdx (lowGainFn kh d hp)) x i

end operator

/-! ### cutoff from a target resolution -/

/-- `roundRat` (the rounding the model applies to the exact value of `box·px/res`) is round-to-nearest,
ties to even — Python's `round` — and is the only such function -/
theorem roundRat_nearest_even (q : Rat) :
    |q - (roundRat q : Rat)| ≤ 1 / 2 ∧ (|q - (roundRat q : Rat)| = 1 / 2 → roundRat q % 2 = 0) ∧
    ∀ v : Int, |q - (v : Rat)| ≤ 1 / 2 → (|q - (v : Rat)| = 1 / 2 → v % 2 = 0) → v = roundRat q :=
  ⟨(roundRat_spec q).1, (roundRat_spec q).2, fun v h1 h2 => roundRat_unique q v h1 h2⟩

/-- **a target resolution maps to round(box·pixel_size/resolution) Fourier pixels** -/
theorem res2pix_round (box px res : Rat) : res2pix roundRat box px res = roundRat (box * px / res) := rfl

/-- given Fourier pixels are used as they are (also when a resolution is given too) -/
theorem filter_radius_pixels {α : Type} [Mul α] [Div α] (rnd : α → Int) (edge : α) (p : Int) (res px : Option α) :
    getFilterRadius rnd edge (some p) res px = some p := rfl

/-- a resolution with its pixel size gives `round(edge·px/res)` -/
theorem filter_radius_resolution {α : Type} [Mul α] [Div α] (rnd : α → Int) (edge res px : α) :
    getFilterRadius rnd edge none (some res) (some px) = some (rnd (edge * px / res)) := rfl

/-- neither: rejected (`ValueError`) -/
theorem filter_radius_rejects {α : Type} [Mul α] [Div α] (rnd : α → Int) (edge : α) (res px : Option α)
    (h : res = none ∨ px = none) : getFilterRadius rnd edge none res px = none := by
  rcases h with rfl | rfl
  · cases px <;> rfl
  · cases res <;> rfl

/-! ### non-vacuity: the hypotheses above are satisfiable by non-trivial inputs -/

/-- a valid kernel of support 1 over ℚ -/
example : ValidKernel 1 ([(-1, 1/4), (0, 1/2), (1, 1/4)] : List (Int × Rat)) :=
  ⟨by intro p hp; simp at hp; rcases hp with rfl | rfl | rfl <;> norm_num,
   by norm_num [ksum],
   by intro p hp; simp at hp; rcases hp with rfl | rfl | rfl <;> simp⟩

/-- `soft_gain_one` hypotheses: box 16³, cutoff 6, t = 1, s = 2 (3·1 ≤ 4), bin (2,1,0): radius² = 5 ≤ 3² -/
example : freqRadius2 ⟨16, 16, 16⟩ 2 1 0 ≤ 3 * 3 ∧ 3 * ((1 : Int) * 1) ≤ 2 * 2 ∧ (3 : Int) + 2 ≤ 6 := by decide
/-- `soft_gain_zero` hypotheses: same box, cutoff 3, bin (−7,0,0) = DFT index 9: radius² = 49 ≥ 6², 3 + 2 < 6 -/
example : (6 : Int) * 6 ≤ freqRadius2 ⟨16, 16, 16⟩ 9 0 0 ∧ (3 : Int) + 2 < 6 := by decide
/-- hard gain on a non-cubic odd/even box: bin (9,0,12) of 10×9×13 has frequency (−1,0,−1) -/
example : freq 10 9 = -1 ∧ freq 9 0 = 0 ∧ freq 13 12 = -1 ∧ freq 10 5 = -5 ∧ freq 9 4 = 4 ∧ freq 9 5 = -4 := by decide
example : lowGainFn (none : Option (List (Int × Rat))) ⟨10, 9, 13⟩ 1 9 0 12 = 0
    ∧ lowGainFn (none : Option (List (Int × Rat))) ⟨10, 9, 13⟩ 2 9 0 12 = 1 := by decide
/-- rounding ties go to the even integer: 2.5 ↦ 2, 3.5 ↦ 4, −0.5 ↦ 0, 39.45 ↦ 39 -/
example : roundHalfEven 5 2 = 2 ∧ roundHalfEven 7 2 = 4 ∧ roundHalfEven (-1) 2 = 0 ∧ roundHalfEven 789 20 = 39 := by decide
example : roundRat (5 / 2) = 2 ∧ res2pix roundRat 100 (789 / 100) 20 = 39 := by decide +kernel
/-- the exact value of the double 2.5 = 0x4004000000000000 -/
example : fracOfBits 0x4004000000000000 = some (5629499534213120, 2251799813685248) := by decide

end CryoCat.C12
