import CryoCat.Gen.C12
import CryoCat.Lemmas.C12
import CryoCat.Lemmas.C12_Grid
import CryoCat.Lemmas.C12_Round
import CryoCat.Lemmas.C12_Op
import CryoCat.Lemmas.C12_Tail
import CryoCat.Lemmas.C12_Mono
import CryoCat.Lemmas.C12_Ray
import CryoCat.Lemmas.C12_Nyq
import CryoCat.Lemmas.C12_Face
import CryoCat.Lemmas.C12_DftComplex
import CryoCat.Lemmas.C12_DftComplexSym
import CryoCat.Lemmas.C12_DftGrid
/-! C12 — property theorems: the Fourier filters are the documented radial low/high/band-pass gains.

Reading guide (statement clause → theorem):
* linear, real-valued, commute with circular shifts, scale each Fourier component by the gain →
  `filt_add`, `filt_smul`, `filt_real`, `filt_shift`, `filt_spectrum`, `filt_effective_gain`
* hard edge: gain exactly 1 up to the cutoff radius and 0 beyond, as a function of the integer
  frequency radius → `freq_spec`, `hard_gain`, `hard_gain_even`
* Gaussian edge: gain in [0,1], 1 inside, 0 outside → `soft_gain_range`, `soft_gain_one`,
  `soft_gain_zero`, `soft_gain_tail` (the literal margins `4σ+1` and "non-increasing in between"
  in full generality are NOT proved: `SoftEdgeFull` below states them; what IS proved of them is listed further down)
* high-pass = complement, band-pass = difference → `highpass_complement`, `bandpass_difference`,
  `high_gain_range`, `band_gain_range_nested`
* resolution → `res2pix_round`, `roundRat_nearest_even`, `filter_radius_*`
* executable arrays = these functions → `lowGain_grid`, `highGain_grid`, `bandGain_grid`, `effGain_grid`
* soft-edge margins in the strongest true form → `soft_gain_inside`, `soft_gain_outside` (bounds by the kernel tail
  `tail3`), `soft_margin_checked` (what the driver evaluates), `soft_tail_reach_zero` (`tail(√3·t) = 0`),
  `soft_edge_margins_partial`, `soft_edge_exact_beyond_reach`, `soft_edge_full_false_below_reach`
* non-increasing along lines parallel to the axes → `soft_gain_mono_axis_x/y/z`, `soft_edge_monotone_axes_partial`,
  `model_kernel_unimodal`; along EVERY step away from the centre planes (diagonals included) and for the effective gain the
  harness measures → `soft_gain_mono_step`, `soft_eff_gain_mono_step`, `soft_edge_monotone_rays_partial` (hypothesis: the ball
  stays off the faces of the mask box on the moving axes, `monoAxisOk`; where it touches, exact monotonicity is NOT a theorem —
  the unchanged code rises by ~4e-8 — and the rise is bounded by `faceRise`, see `soft_eff_gain_step_bound` below)
* band-pass gain range: `band_gain_range_nested` (equal widths, nested), `band_gain_bounds` ([-1,1] always),
  `band_gain_negative_unequal_widths` (known finding C12-K1), `band_gain_negative_inverted`
* signature defaults and whole-body anchors → `defaults_documented`, `signatures_documented`, `flow_documented`, `bodies_documented`
* the transform inside the model → `dft_is_transform`, `dft1_inversion`, `dft_is_transform_complex`,
  `lowpass_grid`, `highpass_grid`, `bandpass_grid` (the driver's `filter` op executes these operators)
* the shift theorem and the Hermitian symmetry of that transform → `dft1_shift_theorem`, `dft1_hermitian_symmetry`,
  `dft3_shift_theorem`, `dft3_hermitian_symmetry`, `filt_shift_dft`; over ℂ `dft_shift_theorem_complex`, `dft_hermitian_complex`,
  `idft_real_part_complex`
* every operator theorem with NO hypothesis on the transform left (ℂ, numpy's twiddles, `np.real`) → `filt_add_complex`,
  `filt_smul_complex`, `filt_real_complex`, `filt_shift_complex`, `filt_spectrum_complex`, `filt_even_gain_complex`,
  `filt_effective_gain_complex`, `filt_complement_complex`, `filt_difference_complex`, `highpass_complement_complex`,
  `bandpass_difference_complex`; for the three filters `filters_shift_complex`, `hard_lowpass_spectrum_complex`,
  `filter_effective_gain_complex`, `filters_effective_gain_complex`; the driver's rolled run `filter_grid_roll(_complex)`
* "non-increasing": the effective gain along EVERY away step incl. Nyquist landings `soft_eff_gain_mono_step_full`; refuted readings
  `soft_monotone_radial_false`, `soft_monotone_false_at_face`; WITHOUT any hypothesis on the faces `soft_gain_step_bound`,
  `soft_eff_gain_step_bound` (rise ≤ `faceRise` = kernel weight at offset n/2 on an even axis whose upper face the ball reaches,
  0 otherwise: `face_rise_zero`, `face_rise_zero_short_kernel`), `soft_monotone_fails_only_if`, `soft_monotone_face_closed`
  (the formerly open `SoftMonotoneOpen`, in the form the harness checks), `soft_eff_gain_axis_step_checked`
* how the statement is READ where it is literally false for soft edges ("a gain that depends on its integer frequency radius"): the gain
  of the HARD filter is a function of the radius (`hard_gain`); the soft gain is that ball blurred with a separable kernel, a function of
  the bin (`soft_monotone_radial_false`: not of the radius alone), even only up to `np.real` (`filt_effective_gain_complex`)
* theorems that are definitional unfoldings (`rfl`) and only anchor the model's definitions to the statement's wording, NOT independent
  clauses: `high_gain_complement`, `band_gain_difference`, `res2pix_round`, `dftC_is_dft3`, `filter_radius_pixels/_resolution`;
  `filt_real_complex` holds for any `F`, `Finv` because `re` is applied last -/
namespace CryoCat.C12
open Gen.C12

/-! ### translator obligations: the source still says what the model assumes -/

theorem anchors_ok : anchorsOk = true := by decide

/-- all four `spherical_mask` calls pass `gaussian_outwards=False` (the radius is not enlarged) -/
theorem outwards_false : outwardsFlags = [false, false, false, false] := by decide

/-- low/high-pass hand `(input_map.shape, radius, gaussian)` to the mask, the radius being
`get_filter_radius(input_map.shape[0], …)` with the caller's keywords unchanged; band-pass builds the first
(outer) mask from the `lp_` keywords and `lp_gaussian` and the second (inner) one from the `hp_` keywords and
`hp_gaussian`. Local variables are inlined by the translator: the text does not depend on their names. -/
theorem mask_arguments_documented :
    maskArgs = [("get_filter_radius(read(input_map).shape[0],fourier_pixels=fourier_pixels,target_resolution=target_resolution,pixel_size=pixel_size)", "gaussian"), ("get_filter_radius(read(input_map).shape[0],fourier_pixels=fourier_pixels,target_resolution=target_resolution,pixel_size=pixel_size)", "gaussian"), ("get_filter_radius(read(input_map).shape[0],fourier_pixels=lp_fourier_pixels,target_resolution=lp_target_resolution,pixel_size=pixel_size)", "lp_gaussian"), ("get_filter_radius(read(input_map).shape[0],fourier_pixels=hp_fourier_pixels,target_resolution=hp_target_resolution,pixel_size=pixel_size)", "hp_gaussian")]
    ∧ maskShapes = ["read(input_map).shape", "read(input_map).shape", "read(input_map).shape", "read(input_map).shape"] := by
  constructor <;> rfl

/-- the three filters are `np.real(ifftn(fftn(x) * ifftshift(M)))` with `M` = mask, `ones − mask`,
`first mask − second mask` (x = `read(input_map)`, a copy of the caller's array) -/
theorem apply_expressions_documented :
    applyExprs = ["np.real(fft.ifftn(fft.fftn(read(input_map))*fft.ifftshift(MASK1)))", "np.real(fft.ifftn(fft.fftn(read(input_map))*fft.ifftshift(1-MASK1)))", "np.real(fft.ifftn(fft.fftn(read(input_map))*fft.ifftshift(MASK1-MASK2)))"] := by rfl

/-- the box edge used for a resolution is `input_map.shape[0]` at all four sites — THE documented convention for
non-cubic maps (the harness judges the resolution form against it) -/
theorem box_edge_documented :
    boxEdges = ["read(input_map).shape[0]", "read(input_map).shape[0]", "read(input_map).shape[0]", "read(input_map).shape[0]"] := by decide

theorem band_keywords_documented :
    bandRadiusArgs = [("lp_fourier_pixels", "lp_target_resolution"), ("hp_fourier_pixels", "hp_target_resolution")] := by decide

theorem resolution_expressions_documented :
    res2pixExpr = "round(edge_size*pixel_size/resolution)" ∧ pix2resExpr = "edge_size*pixel_size/fourier_pixels" := by decide

theorem filter_radius_branches_documented :
    filterRadiusBranches = [("fourier_pixels is not None", "fourier_pixels"),
      ("target_resolution is not None and pixel_size is not None", "resolution2pixels(target_resolution,edge_size=edge_size,pixel_size=pixel_size)"),
      ("else", "raise ValueError")] := by decide

/-- `spherical_mask`, statement by statement (locals renamed `L0, L1, …`): distance from `box_size // 2`, strict
`> radius` set to 0, the rest to 1, the centre voxel to 1, then `postprocess`. The model does not import the regenerated file:
`sphereStrict` is the hand-written value the model computes with, and this theorem says the source still agrees with it. -/
theorem sphere_documented :
    sphereOutsideStrict = sphereStrict ∧
    sphereStatements = ["0:mask_size=get_correct_format(mask_size)", "0:center=get_correct_format(center,reference_size=mask_size)", "0:ifradiusisNone:", "1:radius=np.amin(mask_size)//2", "0:radius=preprocess_params(radius,gaussian,gaussian_outwards)", "0:L0,L1,L2=np.mgrid[0:mask_size[0]:1,0:mask_size[1]:1,0:mask_size[2]:1]", "0:L3=np.sqrt((L0-center[0])**2+(L1-center[1])**2+(L2-center[2])**2)", "0:L3[L3>radius]=0", "0:L3[L3>0]=1", "0:L3[center[0],center[1],center[2]]=1", "0:L3=postprocess(L3,gaussian,np.asarray([0,0,0]),output_name)", "0:returnL3"] ∧
    centreExpr = "FN0(reference_size)//2" := by
  refine ⟨by decide, by rfl, by decide⟩

theorem blur_documented :
    enlargeCond = "gaussian!=0.0 and gaussian_outwards" ∧ blurSkipCond = "sigma==0" ∧
    blurCall = "filters.gaussian(input_mask,sigma=sigma)" := by decide

/-- **signature defaults**: an omitted `gaussian` means width 3 for `lowpass`, 2 for `highpass`; `bandpass` defaults to
`lp_gaussian=3, hp_gaussian=2` (the harness omits the keyword in a share of the cases and judges against these) -/
theorem defaults_documented :
    defaultSigmas = [("lowpass.gaussian", "3"), ("highpass.gaussian", "2"), ("bandpass.lp_gaussian", "3"), ("bandpass.hp_gaussian", "2")] := by decide

/-- parameter names, order and defaults of the filters and helpers (cutoff keywords default to `None`) -/
theorem signatures_documented :
    signatures = [("lowpass", "input_map,fourier_pixels=None,target_resolution=None,pixel_size=None,gaussian=3,output_name=None"), ("highpass", "input_map,fourier_pixels=None,target_resolution=None,pixel_size=None,gaussian=2,output_name=None"), ("bandpass", "input_map,lp_fourier_pixels=None,lp_target_resolution=None,hp_fourier_pixels=None,hp_target_resolution=None,pixel_size=None,lp_gaussian=3,hp_gaussian=2,output_name=None"), ("get_filter_radius", "edge_size,fourier_pixels,target_resolution,pixel_size"), ("resolution2pixels", "resolution,edge_size,pixel_size,print_out=True"), ("pixels2resolution", "fourier_pixels,edge_size,pixel_size,print_out=True"), ("spherical_mask", "mask_size,radius=None,center=None,gaussian=0.0,gaussian_outwards=True,output_name=None")] := by rfl

/-- every control-flow path of the filters and their helpers — conditions, calls made for their effect, returned
expression, local variables inlined: nothing but the documented pipeline runs (no cache, no shortcut, no in-place
edit of an argument), including the `output_name` branches the correspondence run never takes -/
theorem flow_documented :
    flowPaths = [("lowpass", ["[output_nameisnotNone]write(np.real(fft.ifftn(fft.fftn(read(input_map))*fft.ifftshift(cryomask.spherical_mask(read(input_map).shape,get_filter_radius(read(input_map).shape[0],fourier_pixels=fourier_pixels,target_resolution=target_resolution,pixel_size=pixel_size),gaussian=gaussian,gaussian_outwards=False)))),output_name,data_type=np.single);return np.real(fft.ifftn(fft.fftn(read(input_map))*fft.ifftshift(cryomask.spherical_mask(read(input_map).shape,get_filter_radius(read(input_map).shape[0],fourier_pixels=fourier_pixels,target_resolution=target_resolution,pixel_size=pixel_size),gaussian=gaussian,gaussian_outwards=False))))", "[not(output_nameisnotNone)]return np.real(fft.ifftn(fft.fftn(read(input_map))*fft.ifftshift(cryomask.spherical_mask(read(input_map).shape,get_filter_radius(read(input_map).shape[0],fourier_pixels=fourier_pixels,target_resolution=target_resolution,pixel_size=pixel_size),gaussian=gaussian,gaussian_outwards=False))))"]),
  ("highpass", ["[output_nameisnotNone]write(np.real(fft.ifftn(fft.fftn(read(input_map))*fft.ifftshift(1-cryomask.spherical_mask(read(input_map).shape,get_filter_radius(read(input_map).shape[0],fourier_pixels=fourier_pixels,target_resolution=target_resolution,pixel_size=pixel_size),gaussian=gaussian,gaussian_outwards=False)))),output_name,data_type=np.single);return np.real(fft.ifftn(fft.fftn(read(input_map))*fft.ifftshift(1-cryomask.spherical_mask(read(input_map).shape,get_filter_radius(read(input_map).shape[0],fourier_pixels=fourier_pixels,target_resolution=target_resolution,pixel_size=pixel_size),gaussian=gaussian,gaussian_outwards=False))))", "[not(output_nameisnotNone)]return np.real(fft.ifftn(fft.fftn(read(input_map))*fft.ifftshift(1-cryomask.spherical_mask(read(input_map).shape,get_filter_radius(read(input_map).shape[0],fourier_pixels=fourier_pixels,target_resolution=target_resolution,pixel_size=pixel_size),gaussian=gaussian,gaussian_outwards=False))))"]),
  ("bandpass", ["[output_nameisnotNone]write(cryomask.spherical_mask(read(input_map).shape,get_filter_radius(read(input_map).shape[0],fourier_pixels=lp_fourier_pixels,target_resolution=lp_target_resolution,pixel_size=pixel_size),gaussian=lp_gaussian,gaussian_outwards=False)-cryomask.spherical_mask(read(input_map).shape,get_filter_radius(read(input_map).shape[0],fourier_pixels=hp_fourier_pixels,target_resolution=hp_target_resolution,pixel_size=pixel_size),gaussian=hp_gaussian,gaussian_outwards=False),'band.em',data_type=np.single);write(np.real(fft.ifftn(fft.fftn(read(input_map))*fft.ifftshift(cryomask.spherical_mask(read(input_map).shape,get_filter_radius(read(input_map).shape[0],fourier_pixels=lp_fourier_pixels,target_resolution=lp_target_resolution,pixel_size=pixel_size),gaussian=lp_gaussian,gaussian_outwards=False)-cryomask.spherical_mask(read(input_map).shape,get_filter_radius(read(input_map).shape[0],fourier_pixels=hp_fourier_pixels,target_resolution=hp_target_resolution,pixel_size=pixel_size),gaussian=hp_gaussian,gaussian_outwards=False)))),output_name,data_type=np.single);return np.real(fft.ifftn(fft.fftn(read(input_map))*fft.ifftshift(cryomask.spherical_mask(read(input_map).shape,get_filter_radius(read(input_map).shape[0],fourier_pixels=lp_fourier_pixels,target_resolution=lp_target_resolution,pixel_size=pixel_size),gaussian=lp_gaussian,gaussian_outwards=False)-cryomask.spherical_mask(read(input_map).shape,get_filter_radius(read(input_map).shape[0],fourier_pixels=hp_fourier_pixels,target_resolution=hp_target_resolution,pixel_size=pixel_size),gaussian=hp_gaussian,gaussian_outwards=False))))", "[not(output_nameisnotNone)]write(cryomask.spherical_mask(read(input_map).shape,get_filter_radius(read(input_map).shape[0],fourier_pixels=lp_fourier_pixels,target_resolution=lp_target_resolution,pixel_size=pixel_size),gaussian=lp_gaussian,gaussian_outwards=False)-cryomask.spherical_mask(read(input_map).shape,get_filter_radius(read(input_map).shape[0],fourier_pixels=hp_fourier_pixels,target_resolution=hp_target_resolution,pixel_size=pixel_size),gaussian=hp_gaussian,gaussian_outwards=False),'band.em',data_type=np.single);return np.real(fft.ifftn(fft.fftn(read(input_map))*fft.ifftshift(cryomask.spherical_mask(read(input_map).shape,get_filter_radius(read(input_map).shape[0],fourier_pixels=lp_fourier_pixels,target_resolution=lp_target_resolution,pixel_size=pixel_size),gaussian=lp_gaussian,gaussian_outwards=False)-cryomask.spherical_mask(read(input_map).shape,get_filter_radius(read(input_map).shape[0],fourier_pixels=hp_fourier_pixels,target_resolution=hp_target_resolution,pixel_size=pixel_size),gaussian=hp_gaussian,gaussian_outwards=False))))"]),
  ("get_filter_radius", ["[not(fourier_pixelsisnotNone)&not(target_resolutionisnotNoneandpixel_sizeisnotNone)]raise ValueError", "[fourier_pixelsisnotNone&pixel_sizeisnotNone]unused:pixels2resolution(fourier_pixels=fourier_pixels,edge_size=edge_size,pixel_size=pixel_size);return fourier_pixels", "[fourier_pixelsisnotNone&not(pixel_sizeisnotNone)]return fourier_pixels", "[not(fourier_pixelsisnotNone)&target_resolutionisnotNoneandpixel_sizeisnotNone]return resolution2pixels(target_resolution,edge_size=edge_size,pixel_size=pixel_size)"]),
  ("resolution2pixels", ["[print_out]print(round(edge_size*pixel_size/resolution));return round(edge_size*pixel_size/resolution)", "[not(print_out)]return round(edge_size*pixel_size/resolution)"]),
  ("pixels2resolution", ["[print_out]print(edge_size*pixel_size/fourier_pixels);return edge_size*pixel_size/fourier_pixels", "[not(print_out)]return edge_size*pixel_size/fourier_pixels"]),
  ("preprocess_params", ["[gaussian!=0.0andgaussian_outwards]return np.ceil(radius+gaussian*5.0).astype(int)", "[not(gaussian!=0.0andgaussian_outwards)]return radius"]),
  ("postprocess", ["[]write_out(rotate(add_gaussian(input_mask,gaussian),angles),output_name);return rotate(add_gaussian(input_mask,gaussian),angles)"]),
  ("add_gaussian", ["[sigma==0]return input_mask", "[not(sigma==0)]return filters.gaussian(input_mask,sigma=sigma)"]),
  ("rotate", ["[anglesisNoneornotnp.any(angles)]return input_mask", "[not(anglesisNoneornotnp.any(angles))]return cryomap.rotate(input_mask,rotation_angles=angles)"]),
  ("write_out", ["[output_nameisnotNone]cryomap.write(input_mask,output_name,data_type=np.single);return None", "[not(output_nameisnotNone)]return None"])] := by rfl

/-- whole-body dumps of `spherical_mask`, `get_correct_format` (a plain number may also be a numpy scalar, `np.integer` / `np.floating`,
since the fix "get_correct_format accepts numpy scalars"; the filters hand it the shape tuple, so nothing changes for them) and the array
branch of `cryomap.read` (which copies the caller's array: the filters never alias their argument) -/
theorem bodies_documented :
    bodyDumps = [("spherical_mask", ["0:mask_size=get_correct_format(mask_size)", "0:center=get_correct_format(center,reference_size=mask_size)", "0:ifradiusisNone:", "1:radius=np.amin(mask_size)//2", "0:radius=preprocess_params(radius,gaussian,gaussian_outwards)", "0:L0,L1,L2=np.mgrid[0:mask_size[0]:1,0:mask_size[1]:1,0:mask_size[2]:1]", "0:L3=np.sqrt((L0-center[0])**2+(L1-center[1])**2+(L2-center[2])**2)", "0:L3[L3>radius]=0", "0:L3[L3>0]=1", "0:L3[center[0],center[1],center[2]]=1", "0:L3=postprocess(L3,gaussian,np.asarray([0,0,0]),output_name)", "0:returnL3"]),
  ("get_correct_format", ["0:defL0(L1):", "1:ifisinstance(L1,(tuple,list,np.ndarray)):", "2:iflen(L1)==3:", "3:returnnp.asarray(L1).astype(int)", "2:eliflen(L1)==1:", "3:returnnp.full((3,),L1).astype(int)", "2:else:", "3:raiseValueError", "1:elifisinstance(L1,(float,int,np.integer,np.floating)):", "2:returnnp.full((3,),L1).astype(int)", "0:ifinput_valueisnotNone:", "1:L2=L0(input_value)", "0:elifreference_sizeisnotNone:", "1:L3=L0(reference_size)", "1:L2=L3//2", "0:else:", "1:raiseValueError", "0:returnL2"]),
  ("read[ndarray]", ["[not(isinstance(input_map,str))&isinstance(input_map,np.ndarray)&data_typeisnotNone]return np.array(np.array(input_map),copy=True).astype(data_type)", "[not(isinstance(input_map,str))&isinstance(input_map,np.ndarray)&not(data_typeisnotNone)]return np.array(np.array(input_map),copy=True)"])] := by rfl

/-! ### the integer frequency of a DFT bin -/

/-- `freq n j` — the offset from the mask centre of the voxel that `ifftshift` puts on DFT bin `j` —
is the signed integer frequency of that bin: congruent to `j` modulo `n`, in `[-⌊n/2⌋, n-⌊n/2⌋)`,
and it is the only such integer. Even and odd `n`. -/
theorem freq_spec (n : Nat) (hn : 0 < n) (j : Int) :
    (∃ c : Int, freq n j - j = (n : Int) * c) ∧ -((n / 2 : Nat) : Int) ≤ freq n j ∧ freq n j < (n : Int) - ((n / 2 : Nat) : Int) ∧
    ∀ a : Int, -((n / 2 : Nat) : Int) ≤ a → a < (n : Int) - ((n / 2 : Nat) : Int) → (∃ c : Int, a - j = (n : Int) * c) → freq n j = a :=
  ⟨freq_dvd n j, (freq_range n hn j).1, (freq_range n hn j).2, fun a h1 h2 h3 => freq_unique n hn j a h1 h2 h3⟩

/-- opposite frequencies have the same radius (also at the Nyquist bin of an even axis) -/
theorem freqRadius2_neg (d : Dims) (hd : 0 < d.nx ∧ 0 < d.ny ∧ 0 < d.nz) (j k l : Int) :
    freqRadius2 d (negIdx d.nx j) (negIdx d.ny k) (negIdx d.nz l) = freqRadius2 d j k l := by
  unfold freqRadius2
  rw [freq_neg_sq _ hd.1, freq_neg_sq _ hd.2.1, freq_neg_sq _ hd.2.2]

section gains
set_option linter.unusedSectionVars false
variable {K : Type} [Field K] [LinearOrder K] [IsStrictOrderedRing K]

/-! ### hard edge -/

/-- **Without a soft edge the low-pass gain is exactly 1 up to the cutoff radius and 0 beyond it**,
as a function of the integer frequency radius; any box (cubic or not, even or odd edges), any cutoff ≥ 0. -/
theorem hard_gain (d : Dims) (r : Int) (hr : 0 ≤ r) (j k l : Int) :
    lowGainFn (none : Option (List (Int × K))) d r j k l = if freqRadius2 d j k l ≤ r * r then 1 else 0 := by
  simp only [lowGainFn, shiftVol, lowMaskFn, sphere]
  by_cases h : freqRadius2 d j k l ≤ r * r
  · rw [if_pos ((inBall_iff d r hr _ _ _).2 (by exact h)), if_pos h]
  · have : ¬ inBall d r (shiftIdx d.nx j) (shiftIdx d.ny k) (shiftIdx d.nz l) = true := by
      rw [inBall_iff d r hr]; exact h
    rw [if_neg this, if_neg h]

/-- the hard gain is even, so the spectrum of a real map stays Hermitian and `np.real` drops nothing -/
theorem hard_gain_even (d : Dims) (hd : 0 < d.nx ∧ 0 < d.ny ∧ 0 < d.nz) (r : Int) (hr : 0 ≤ r) (j k l : Int) :
    lowGainFn (none : Option (List (Int × K))) d r (negIdx d.nx j) (negIdx d.ny k) (negIdx d.nz l)
      = lowGainFn (none : Option (List (Int × K))) d r j k l := by
  rw [hard_gain d r hr, hard_gain d r hr, freqRadius2_neg d hd]

/-- … hence the effective gain of the hard filter is the gain itself -/
theorem hard_gain_effective (d : Dims) (hd : 0 < d.nx ∧ 0 < d.ny ∧ 0 < d.nz) (r : Int) (hr : 0 ≤ r) (j k l : Int) :
    effGain d (lowGainFn (none : Option (List (Int × K))) d r) j k l = lowGainFn (none : Option (List (Int × K))) d r j k l := by
  simp only [effGain]
  rw [hard_gain_even d hd r hr]
  ring

/-! ### Gaussian (any non-negative unit-sum kernel of support `t`) edge -/

/-- **gain in [0,1]** -/
theorem soft_gain_range (ker : List (Int × K)) (t : Nat) (hk : ValidKernel t ker) (d : Dims)
    (hd : 0 < d.nx ∧ 0 < d.ny ∧ 0 < d.nz) (r : Int) (j k l : Int) :
    0 ≤ lowGainFn (some ker) d r j k l ∧ lowGainFn (some ker) d r j k l ≤ 1 := by
  have hb := shift_inbox d j k l hd
  simp only [lowGainFn, shiftVol, lowMaskFn]
  constructor
  · have := blur3_mono ker t hk.nonneg hk.within d (fun _ _ _ => 0) (sphere d r) _ _ _ hb (fun x y z _ => (sphere_range d r x y z).1)
    rwa [blur3_const ker hk.unit] at this
  · have := blur3_mono ker t hk.nonneg hk.within d (sphere d r) (fun _ _ _ => 1) _ _ _ hb (fun x y z _ => (sphere_range d r x y z).2)
    rwa [blur3_const ker hk.unit] at this

/-- **gain exactly 1 well inside**: integer frequency radius ≤ ρ, the kernel's reach `√3·t ≤ s`,
and `ρ + s ≤ cutoff` (no square roots needed: `|k|² ≤ ρ²`, `3t² ≤ s²`). -/
theorem soft_gain_one (ker : List (Int × K)) (t : Nat) (hk : ValidKernel t ker) (d : Dims)
    (hd : 0 < d.nx ∧ 0 < d.ny ∧ 0 < d.nz) (r ρ s : Int) (hρ : 0 ≤ ρ) (hs : 0 ≤ s)
    (j k l : Int) (hin : freqRadius2 d j k l ≤ ρ * ρ) (hreach : 3 * ((t : Int) * (t : Int)) ≤ s * s) (hfit : ρ + s ≤ r) :
    lowGainFn (some ker) d r j k l = 1 := by
  have hb := shift_inbox d j k l hd
  simp only [lowGainFn, shiftVol, lowMaskFn]
  rw [blur3_congr ker t hk.within d (sphere d r) (fun _ _ _ => 1) _ _ _ hb, blur3_const ker hk.unit]
  intro x' y' z' hc
  have hr : 0 ≤ r := by omega
  have : inBall d r x' y' z' = true := by
    rw [inBall_iff d r hr]
    obtain ⟨_, hx, hy, hz⟩ := hc
    set X := shiftIdx d.nx j; set Y := shiftIdx d.ny k; set Z := shiftIdx d.nz l
    have hq : (x' - X) * (x' - X) + (y' - Y) * (y' - Y) + (z' - Z) * (z' - Z) ≤ s * s := by
      have h1 : (x' - X) * (x' - X) ≤ (t : Int) * t := by nlinarith
      have h2 : (y' - Y) * (y' - Y) ≤ (t : Int) * t := by nlinarith
      have h3 : (z' - Z) * (z' - Z) ≤ (t : Int) * t := by nlinarith
      linarith
    have := ball_add (X - centre d.nx) (Y - centre d.ny) (Z - centre d.nz) (x' - X) (y' - Y) (z' - Z) ρ s hρ hs hin hq
    have e : dist2 d x' y' z' = (X - centre d.nx + (x' - X)) * (X - centre d.nx + (x' - X)) + (Y - centre d.ny + (y' - Y)) * (Y - centre d.ny + (y' - Y))
        + (Z - centre d.nz + (z' - Z)) * (Z - centre d.nz + (z' - Z)) := by unfold dist2; ring
    rw [e]
    have : (ρ + s) * (ρ + s) ≤ r * r := by nlinarith
    linarith
  simp [sphere, this]

/-- **gain exactly 0 well outside**: integer frequency radius ≥ ρ > cutoff + s -/
theorem soft_gain_zero (ker : List (Int × K)) (t : Nat) (hk : ValidKernel t ker) (d : Dims)
    (hd : 0 < d.nx ∧ 0 < d.ny ∧ 0 < d.nz) (r ρ s : Int) (hr : 0 ≤ r) (hs : 0 ≤ s)
    (j k l : Int) (hout : ρ * ρ ≤ freqRadius2 d j k l) (hreach : 3 * ((t : Int) * (t : Int)) ≤ s * s) (hfar : r + s < ρ) :
    lowGainFn (some ker) d r j k l = 0 := by
  have hb := shift_inbox d j k l hd
  simp only [lowGainFn, shiftVol, lowMaskFn]
  rw [blur3_congr ker t hk.within d (sphere d r) (fun _ _ _ => 0) _ _ _ hb, blur3_const ker hk.unit]
  intro x' y' z' hc
  have : ¬ inBall d r x' y' z' = true := by
    rw [inBall_iff d r hr]
    obtain ⟨_, hx, hy, hz⟩ := hc
    set X := shiftIdx d.nx j; set Y := shiftIdx d.ny k; set Z := shiftIdx d.nz l
    have hq : (x' - X) * (x' - X) + (y' - Y) * (y' - Y) + (z' - Z) * (z' - Z) ≤ s * s := by
      have h1 : (x' - X) * (x' - X) ≤ (t : Int) * t := by nlinarith
      have h2 : (y' - Y) * (y' - Y) ≤ (t : Int) * t := by nlinarith
      have h3 : (z' - Z) * (z' - Z) ≤ (t : Int) * t := by nlinarith
      linarith
    have := ball_sub (X - centre d.nx) (Y - centre d.ny) (Z - centre d.nz) (x' - X) (y' - Y) (z' - Z) ρ s r hr hs hfar hout hq
    have e : dist2 d x' y' z' = (X - centre d.nx + (x' - X)) * (X - centre d.nx + (x' - X)) + (Y - centre d.ny + (y' - Y)) * (Y - centre d.ny + (y' - Y))
        + (Z - centre d.nz + (z' - Z)) * (Z - centre d.nz + (z' - Z)) := by unfold dist2; ring
    rw [e]; exact this
  simp [sphere, this]

/-- **how far from 1 / from 0 in between**: `1 − gain` is at most the kernel weight of the offsets whose
(edge-clamped) voxel leaves the ball, and `gain` at most the weight of those that enter it. -/
theorem soft_gain_tail (ker : List (Int × K)) (t : Nat) (hk : ValidKernel t ker) (d : Dims)
    (hd : 0 < d.nx ∧ 0 < d.ny ∧ 0 < d.nz) (r : Int) (j k l : Int) :
    1 - lowGainFn (some ker) d r j k l
        = blur3Fn ker d (fun x y z => if inBall d r x y z then 0 else 1) (shiftIdx d.nx j) (shiftIdx d.ny k) (shiftIdx d.nz l)
    ∧ lowGainFn (some ker) d r j k l
        = blur3Fn ker d (fun x y z => if inBall d r x y z then 1 else 0) (shiftIdx d.nx j) (shiftIdx d.ny k) (shiftIdx d.nz l) := by
  have hb := shift_inbox d j k l hd
  simp only [lowGainFn, shiftVol, lowMaskFn]
  refine ⟨?_, rfl⟩
  have h1 : (1 : K) = blur3Fn ker d (fun _ _ _ => (1 : K)) (shiftIdx d.nx j) (shiftIdx d.ny k) (shiftIdx d.nz l) :=
    (blur3_const ker hk.unit d 1 _ _ _).symm
  rw [show (1 : K) - blur3Fn ker d (sphere d r) (shiftIdx d.nx j) (shiftIdx d.ny k) (shiftIdx d.nz l)
      = blur3Fn ker d (fun _ _ _ => (1 : K)) (shiftIdx d.nx j) (shiftIdx d.ny k) (shiftIdx d.nz l)
        - blur3Fn ker d (sphere d r) (shiftIdx d.nx j) (shiftIdx d.ny k) (shiftIdx d.nz l) by rw [← h1]]
  rw [← blur3_sub]
  apply blur3_congr ker t hk.within d _ _ _ _ _ hb
  intro x y z _
  simp only [sphere]
  split_ifs <;> simp

/-- **soft-edge margin, inside — strongest form.** For a frequency of squared integer radius `≤ A` and a
squared reach `m` with `√A + √m ≤ r` (written without square roots: `A + m ≤ r²` and
`4·A·m ≤ (r² − A − m)²`) the gain is at least `1 − tail3 ker m`, where `tail3 ker m` is the weight the
separable kernel carries at offsets of squared Euclidean length `> m`. Holds for every non-negative
unit-sum kernel, every box (also where `mode='nearest'` clamps at a face), every cutoff `r ≥ 0`. -/
theorem soft_gain_inside (ker : List (Int × K)) (t : Nat) (hk : ValidKernel t ker) (d : Dims)
    (hd : 0 < d.nx ∧ 0 < d.ny ∧ 0 < d.nz) (r : Int) (hr : 0 ≤ r) (A m : Int) (j k l : Int)
    (hA : freqRadius2 d j k l ≤ A) (h1 : A + m ≤ r * r) (h2 : 4 * (A * m) ≤ (r * r - A - m) * (r * r - A - m)) :
    1 - tail3 ker m ≤ lowGainFn (some ker) d r j k l := by
  have hb := shift_inbox d j k l hd
  have ht := (soft_gain_tail ker t hk d hd r j k l).1
  have hle : blur3Fn ker d (fun x y z => if inBall d r x y z then (0 : K) else 1) (shiftIdx d.nx j) (shiftIdx d.ny k) (shiftIdx d.nz l)
      ≤ tail3 ker m := by
    apply blur3_le_tail ker hk.nonneg
    · intro a b c; split_ifs
      · exact zero_le_one
      · exact le_refl _
    · intro qx qy qz hq
      set X := shiftIdx d.nx j; set Y := shiftIdx d.ny k; set Z := shiftIdx d.nz l
      have ox := clampI_off_sq d.nx X qx hb.1
      have oy := clampI_off_sq d.ny Y qy hb.2.1
      have oz := clampI_off_sq d.nz Z qz hb.2.2
      have hin : inBall d r (clampI d.nx (X + qx)) (clampI d.ny (Y + qy)) (clampI d.nz (Z + qz)) = true := by
        rw [inBall_iff d r hr]
        have := reach_inside (X - centre d.nx) (Y - centre d.ny) (Z - centre d.nz)
          (clampI d.nx (X + qx) - X) (clampI d.ny (Y + qy) - Y) (clampI d.nz (Z + qz) - Z) A m r hA (by linarith) h1 h2
        have e : dist2 d (clampI d.nx (X + qx)) (clampI d.ny (Y + qy)) (clampI d.nz (Z + qz))
            = (X - centre d.nx + (clampI d.nx (X + qx) - X)) * (X - centre d.nx + (clampI d.nx (X + qx) - X))
            + (Y - centre d.ny + (clampI d.ny (Y + qy) - Y)) * (Y - centre d.ny + (clampI d.ny (Y + qy) - Y))
            + (Z - centre d.nz + (clampI d.nz (Z + qz) - Z)) * (Z - centre d.nz + (clampI d.nz (Z + qz) - Z)) := by
          unfold dist2; ring
        rw [e]; exact this
      rw [if_pos hin]
  linarith

/-- **soft-edge margin, outside — strongest form.** For a frequency of squared integer radius `≥ A` and a
squared reach `m` with `√A > r + √m` (`r² + m < A` and `4·r²·m < (A − r² − m)²`) the gain is at most
`tail3 ker m`. -/
theorem soft_gain_outside (ker : List (Int × K)) (t : Nat) (hk : ValidKernel t ker) (d : Dims)
    (hd : 0 < d.nx ∧ 0 < d.ny ∧ 0 < d.nz) (r : Int) (hr : 0 ≤ r) (A m : Int) (j k l : Int)
    (hA : A ≤ freqRadius2 d j k l) (h1 : r * r + m < A) (h2 : 4 * (r * r * m) < (A - r * r - m) * (A - r * r - m)) :
    lowGainFn (some ker) d r j k l ≤ tail3 ker m := by
  have hb := shift_inbox d j k l hd
  rw [(soft_gain_tail ker t hk d hd r j k l).2]
  apply blur3_le_tail ker hk.nonneg
  · intro a b c; split_ifs
    · exact le_refl _
    · exact zero_le_one
  · intro qx qy qz hq
    set X := shiftIdx d.nx j; set Y := shiftIdx d.ny k; set Z := shiftIdx d.nz l
    have ox := clampI_off_sq d.nx X qx hb.1
    have oy := clampI_off_sq d.ny Y qy hb.2.1
    have oz := clampI_off_sq d.nz Z qz hb.2.2
    have hout : ¬ inBall d r (clampI d.nx (X + qx)) (clampI d.ny (Y + qy)) (clampI d.nz (Z + qz)) = true := by
      rw [inBall_iff d r hr]
      have := reach_outside (X - centre d.nx) (Y - centre d.ny) (Z - centre d.nz)
        (clampI d.nx (X + qx) - X) (clampI d.ny (Y + qy) - Y) (clampI d.nz (Z + qz) - Z) A m r hA (by linarith) h1 h2
      have e : dist2 d (clampI d.nx (X + qx)) (clampI d.ny (Y + qy)) (clampI d.nz (Z + qz))
          = (X - centre d.nx + (clampI d.nx (X + qx) - X)) * (X - centre d.nx + (clampI d.nx (X + qx) - X))
          + (Y - centre d.ny + (clampI d.ny (Y + qy) - Y)) * (Y - centre d.ny + (clampI d.ny (Y + qy) - Y))
          + (Z - centre d.nz + (clampI d.nz (Z + qz) - Z)) * (Z - centre d.nz + (clampI d.nz (Z + qz) - Z)) := by
        unfold dist2; ring
      rw [e]; exact this
    rw [if_neg hout]

/-- what the driver evaluates per DFT bin (`fitsInside` / `fitsOutside` on the bin's squared radius) and
hands to the harness together with `tail3`: where the flag is set, the bound holds -/
theorem soft_margin_checked (ker : List (Int × K)) (t : Nat) (hk : ValidKernel t ker) (d : Dims)
    (hd : 0 < d.nx ∧ 0 < d.ny ∧ 0 < d.nz) (r : Int) (hr : 0 ≤ r) (m : Int) (j k l : Int) :
    (fitsInside (freqRadius2 d j k l) m r = true → 1 - tail3 ker m ≤ lowGainFn (some ker) d r j k l) ∧
    (fitsOutside (freqRadius2 d j k l) m r = true → lowGainFn (some ker) d r j k l ≤ tail3 ker m) := by
  constructor
  · intro h
    simp only [fitsInside, Bool.and_eq_true, decide_eq_true_eq] at h
    exact soft_gain_inside ker t hk d hd r hr _ m j k l (le_refl _) h.1 h.2
  · intro h
    simp only [fitsOutside, Bool.and_eq_true, decide_eq_true_eq] at h
    exact soft_gain_outside ker t hk d hd r hr _ m j k l (le_refl _) h.1 h.2

/-- the margins in the statement's wording, integer margin `s`: radius `≤ cutoff − s` ⇒ gain `≥ 1 − `(weight
at offsets longer than `s`) … -/
theorem soft_gain_inside_margin (ker : List (Int × K)) (t : Nat) (hk : ValidKernel t ker) (d : Dims)
    (hd : 0 < d.nx ∧ 0 < d.ny ∧ 0 < d.nz) (r ρ s : Int) (hρ : 0 ≤ ρ) (hs : 0 ≤ s) (j k l : Int)
    (hin : freqRadius2 d j k l ≤ ρ * ρ) (hfit : ρ + s ≤ r) :
    1 - tail3 ker (s * s) ≤ lowGainFn (some ker) d r j k l := by
  have hρs : 0 ≤ ρ * s := mul_nonneg hρ hs
  have hsq : (ρ + s) * (ρ + s) ≤ r * r := mul_self_le_mul_self (by omega) hfit
  apply soft_gain_inside ker t hk d hd r (by omega) (ρ * ρ) (s * s) j k l hin
  · nlinarith
  · have h2 : 2 * (ρ * s) ≤ r * r - ρ * ρ - s * s := by nlinarith
    have := mul_self_le_mul_self (by linarith : (0 : Int) ≤ 2 * (ρ * s)) h2
    nlinarith

/-- … and radius `≥ cutoff + s` ⇒ gain `≤` weight at offsets of length `≥ s` (squared length `> s² − 1`) -/
theorem soft_gain_outside_margin (ker : List (Int × K)) (t : Nat) (hk : ValidKernel t ker) (d : Dims)
    (hd : 0 < d.nx ∧ 0 < d.ny ∧ 0 < d.nz) (r ρ s : Int) (hr : 0 ≤ r) (hs : 0 ≤ s) (j k l : Int)
    (hout : ρ * ρ ≤ freqRadius2 d j k l) (hfar : r + s ≤ ρ) :
    lowGainFn (some ker) d r j k l ≤ tail3 ker (s * s - 1) := by
  have hrs : 0 ≤ r * s := mul_nonneg hr hs
  have hsq : (r + s) * (r + s) ≤ ρ * ρ := mul_self_le_mul_self (by omega) hfar
  apply soft_gain_outside ker t hk d hd r hr (ρ * ρ) (s * s - 1) j k l hout
  · nlinarith
  · have h2 : 2 * (r * s) + 1 ≤ ρ * ρ - r * r - (s * s - 1) := by nlinarith
    have := mul_self_le_mul_self (by linarith : (0 : Int) ≤ 2 * (r * s) + 1) h2
    nlinarith [mul_self_nonneg r]

/-- **`tail(√3·t) = 0`**: the kernel cube of per-axis support `t` has no offset longer than `√3·t`, so beyond
that reach the bounds above are the exact plateaus 1 and 0 (`soft_gain_one`, `soft_gain_zero`) -/
theorem soft_tail_reach_zero (ker : List (Int × K)) (t : Nat) (hk : ValidKernel t ker) (m : Int)
    (h : 3 * ((t : Int) * (t : Int)) ≤ m) : tail3 ker m = 0 := tail3_zero ker t hk.within m h

/-- the tail weight is a weight: in `[0,1]`, and it shrinks as the reach grows -/
theorem soft_tail_range (ker : List (Int × K)) (t : Nat) (hk : ValidKernel t ker) (m m' : Int) (h : m ≤ m') :
    0 ≤ tail3 ker m' ∧ tail3 ker m' ≤ tail3 ker m ∧ tail3 ker m ≤ 1 :=
  ⟨tail3_nonneg ker hk.nonneg m', tail3_antitone ker hk.nonneg m m' h, tail3_le_one ker hk.nonneg hk.unit m⟩

/-- a larger cutoff never lowers the gain (same kernel) -/
theorem soft_gain_mono_cutoff (ker : Option (List (Int × K))) (t : Nat) (hk : ∀ k' ∈ ker, ValidKernel t k') (d : Dims)
    (hd : 0 < d.nx ∧ 0 < d.ny ∧ 0 < d.nz) (r r' : Int) (hr : 0 ≤ r) (hrr : r ≤ r') (j k l : Int) :
    lowGainFn ker d r j k l ≤ lowGainFn ker d r' j k l := by
  have hb := shift_inbox d j k l hd
  have hs : ∀ x y z, (sphere d r x y z : K) ≤ sphere d r' x y z := by
    intro x y z
    simp only [sphere]
    by_cases h : inBall d r x y z = true
    · have h' : inBall d r' x y z = true := by
        rw [inBall_iff d r' (by omega)]
        rw [inBall_iff d r hr] at h
        have : r * r ≤ r' * r' := by nlinarith
        linarith
      simp [h, h']
    · rw [if_neg h]
      split_ifs
      · exact zero_le_one
      · exact le_refl _
  cases ker with
  | none => exact hs _ _ _
  | some k' =>
    have hv := hk k' rfl
    exact blur3_mono k' t hv.nonneg hv.within d _ _ _ _ _ hb (fun x y z _ => hs x y z)

/-! ### high-pass and band-pass gains -/

/-- the high-pass gain is the exact complement of the low-pass gain with the same parameters … (a definitional unfolding of
`highGainFn`, kept as an anchor of the wording; the clause itself is `filt_complement` / `highpass_complement_complex`, tied to the
code by `apply_expressions_documented` and the measured `complement` check) -/
theorem high_gain_complement (ker : Option (List (Int × K))) (d : Dims) (r : Int) (j k l : Int) :
    highGainFn ker d r j k l = 1 - lowGainFn ker d r j k l := rfl

/-- … the band-pass gain is the difference of its two low-pass gains … (definitional unfolding of `bandGainFn`; the clause is
`filt_difference` / `bandpass_difference_complex`) -/
theorem band_gain_difference (kl kh : Option (List (Int × K))) (d : Dims) (lp hp : Int) (j k l : Int) :
    bandGainFn kl kh d lp hp j k l = lowGainFn kl d lp j k l - lowGainFn kh d hp j k l := rfl

theorem low_gain_range (ker : Option (List (Int × K))) (t : Nat) (hk : ∀ k' ∈ ker, ValidKernel t k') (d : Dims)
    (hd : 0 < d.nx ∧ 0 < d.ny ∧ 0 < d.nz) (r : Int) (j k l : Int) :
    0 ≤ lowGainFn ker d r j k l ∧ lowGainFn ker d r j k l ≤ 1 := by
  cases ker with
  | none => exact sphere_range d r _ _ _
  | some k' => exact soft_gain_range k' t (hk k' rfl) d hd r j k l

/-- … so the high-pass gain lies in [0,1] too … -/
theorem high_gain_range (ker : Option (List (Int × K))) (t : Nat) (hk : ∀ k' ∈ ker, ValidKernel t k') (d : Dims)
    (hd : 0 < d.nx ∧ 0 < d.ny ∧ 0 < d.nz) (r : Int) (j k l : Int) :
    0 ≤ highGainFn ker d r j k l ∧ highGainFn ker d r j k l ≤ 1 := by
  have := low_gain_range ker t hk d hd r j k l
  rw [high_gain_complement]
  constructor <;> linarith [this.1, this.2]

/-- … and the band-pass gain lies in [0,1] when both masks use the same edge and `0 ≤ hp ≤ lp`.
(With different widths the difference of two low-passes can be negative: e.g. a hard outer and a wide
inner edge; the statement's range clause is therefore read for nested masks.) -/
theorem band_gain_range_nested (ker : Option (List (Int × K))) (t : Nat) (hk : ∀ k' ∈ ker, ValidKernel t k') (d : Dims)
    (hd : 0 < d.nx ∧ 0 < d.ny ∧ 0 < d.nz) (lp hp : Int) (h0 : 0 ≤ hp) (h1 : hp ≤ lp) (j k l : Int) :
    0 ≤ bandGainFn ker ker d lp hp j k l ∧ bandGainFn ker ker d lp hp j k l ≤ 1 := by
  have m := soft_gain_mono_cutoff ker t hk d hd hp lp h0 h1 j k l
  have a := low_gain_range ker t hk d hd lp j k l
  have b := low_gain_range ker t hk d hd hp j k l
  rw [band_gain_difference]
  constructor <;> linarith [a.1, a.2, b.1, b.2]

/-- for ANY two edges and ANY two cutoffs the band-pass gain lies in [-1,1] (difference of two gains in [0,1]); the
lower bound 0 of the statement needs the nesting hypotheses of `band_gain_range_nested`: see the two witnesses below -/
theorem band_gain_bounds (kl kh : Option (List (Int × K))) (t t' : Nat) (hl : ∀ k' ∈ kl, ValidKernel t k') (hh : ∀ k' ∈ kh, ValidKernel t' k')
    (d : Dims) (hd : 0 < d.nx ∧ 0 < d.ny ∧ 0 < d.nz) (lp hp : Int) (j k l : Int) :
    -1 ≤ bandGainFn kl kh d lp hp j k l ∧ bandGainFn kl kh d lp hp j k l ≤ 1 := by
  have a := low_gain_range kl t hl d hd lp j k l
  have b := low_gain_range kh t' hh d hd hp j k l
  rw [band_gain_difference]
  constructor <;> linarith [a.1, a.2, b.1, b.2]

/-- the effective (even-part) gain of any gain with values in [0,1] stays in [0,1] -/
theorem effective_gain_range (d : Dims) (g : Vol K) (h : ∀ j k l, 0 ≤ g j k l ∧ g j k l ≤ 1) (j k l : Int) :
    0 ≤ effGain d g j k l ∧ effGain d g j k l ≤ 1 := by
  simp only [effGain]
  have a := h j k l
  have b := h (negIdx d.nx j) (negIdx d.ny k) (negIdx d.nz l)
  constructor
  · apply div_nonneg <;> linarith [a.1, b.1]
  · rw [div_le_one (by norm_num)]; linarith [a.2, b.2]

/-- the kernel the driver builds (for any positive `exp`) is valid over every ordered FIELD `K`, so every soft-edge theorem applies
to the model's definitions. NOT instantiable at `Float` (no ordered field): what the driver executes is the same `gaussKernel`
term at `Float` with `Float.exp`; that its weights are non-negative, of unit sum (1e-12), symmetric and non-increasing is PROBED on
every run (`probes`), not proved -/
theorem model_kernel_valid [BEq K] (expf : K → K) (hexp : ∀ x, 0 < expf x) (ofI : Int → K) (trunc : K → Nat) (sigma : K) :
    ∀ k' ∈ kernelFor expf ofI trunc sigma, ValidKernel (trunc sigma) k' := by
  intro k' hk'
  unfold kernelFor at hk'
  split_ifs at hk' with h
  · cases hk'
  · cases hk'
    exact gaussKernel_valid expf hexp ofI sigma (trunc sigma)

end gains

/-- What the statement says literally about the Gaussian edge and what is NOT proved here: with the
truncated Gaussian of width `σ` the gain is 1 for radius ≤ cutoff−4σ−1, 0 for radius ≥ cutoff+4σ+1 and
non-increasing in the radius in between. In exact arithmetic the first two hold only up to the weight of
the kernel's corner offsets (`soft_gain_inside/outside` give the exact bound `tail3`, which the harness uses) and
the third is proved for the effective gain on every ray whose moving axes keep the ball off the faces of the mask
box (`soft_edge_monotone_rays_partial`) and, more generally, wherever `faceRise` vanishes (`soft_eff_gain_mono_step_reach`); on an even
axis whose upper face the ball reaches it is false in general (`soft_monotone_false_at_face`; the executed model
rises by ~4e-8 on boxes like 10×25×10, cutoff 12) and holds up to `faceRise/2` (`soft_eff_gain_step_bound`). Kept as a statement, no proof claimed. -/
def SoftEdgeFull {K : Type} [Field K] [LinearOrder K] [IsStrictOrderedRing K]
    (ker : List (Int × K)) (d : Dims) (r : Int) (fourSigmaPlusOne : Int) : Prop :=
  (∀ j k l ρ : Int, 0 ≤ ρ → freqRadius2 d j k l ≤ ρ * ρ → ρ ≤ r - fourSigmaPlusOne → lowGainFn (some ker) d r j k l = 1) ∧
  (∀ j k l ρ : Int, ρ * ρ ≤ freqRadius2 d j k l → r + fourSigmaPlusOne ≤ ρ → lowGainFn (some ker) d r j k l = 0) ∧
  (∀ j k l m : Int, 0 ≤ m → lowGainFn (some ker) d r ((m + 1) * j) ((m + 1) * k) ((m + 1) * l) ≤ lowGainFn (some ker) d r (m * j) (m * k) (m * l))

section softedge
set_option linter.unusedSectionVars false
variable {K : Type} [Field K] [LinearOrder K] [IsStrictOrderedRing K]

/-- the two margin clauses of `SoftEdgeFull` in the form that IS true for every valid kernel: `= 1` becomes
`≥ 1 − tail3 ker M²` (weight at offsets longer than the margin `M`), `= 0` becomes `≤ tail3 ker (M² − 1)`
(weight at offsets at least as long as `M`). The harness uses exactly these two numbers, evaluated by the
driver on the executed kernel, as the tolerance of the margin clauses. -/
theorem soft_edge_margins_partial (ker : List (Int × K)) (t : Nat) (hk : ValidKernel t ker) (d : Dims)
    (hd : 0 < d.nx ∧ 0 < d.ny ∧ 0 < d.nz) (r M : Int) (hr : 0 ≤ r) (hM : 0 ≤ M) :
    (∀ j k l ρ : Int, 0 ≤ ρ → freqRadius2 d j k l ≤ ρ * ρ → ρ ≤ r - M →
        1 - tail3 ker (M * M) ≤ lowGainFn (some ker) d r j k l ∧ lowGainFn (some ker) d r j k l ≤ 1) ∧
    (∀ j k l ρ : Int, ρ * ρ ≤ freqRadius2 d j k l → r + M ≤ ρ →
        0 ≤ lowGainFn (some ker) d r j k l ∧ lowGainFn (some ker) d r j k l ≤ tail3 ker (M * M - 1)) :=
  ⟨fun j k l ρ hρ hin hfit =>
      ⟨soft_gain_inside_margin ker t hk d hd r ρ M hρ hM j k l hin (by omega), (soft_gain_range ker t hk d hd r j k l).2⟩,
   fun j k l ρ hout hfar =>
      ⟨(soft_gain_range ker t hk d hd r j k l).1, soft_gain_outside_margin ker t hk d hd r ρ M hr hM j k l hout hfar⟩⟩

/-- … and they hold literally (`= 1`, `= 0`) as soon as the margin exceeds the kernel's reach `√3·t` -/
theorem soft_edge_exact_beyond_reach (ker : List (Int × K)) (t : Nat) (hk : ValidKernel t ker) (d : Dims)
    (hd : 0 < d.nx ∧ 0 < d.ny ∧ 0 < d.nz) (r M : Int) (hr : 0 ≤ r) (hM : 0 ≤ M)
    (hreach : 3 * ((t : Int) * (t : Int)) ≤ M * M - 1) :
    (∀ j k l ρ : Int, 0 ≤ ρ → freqRadius2 d j k l ≤ ρ * ρ → ρ ≤ r - M → lowGainFn (some ker) d r j k l = 1) ∧
    (∀ j k l ρ : Int, ρ * ρ ≤ freqRadius2 d j k l → r + M ≤ ρ → lowGainFn (some ker) d r j k l = 0) := by
  have hp := soft_edge_margins_partial ker t hk d hd r M hr hM
  have z1 := soft_tail_reach_zero ker t hk (M * M) (by omega)
  have z2 := soft_tail_reach_zero ker t hk (M * M - 1) hreach
  constructor
  · intro j k l ρ h0 hin hfit
    have := hp.1 j k l ρ h0 hin hfit
    rw [z1] at this
    exact le_antisymm this.2 (by linarith [this.1])
  · intro j k l ρ hout hfar
    have := hp.2 j k l ρ hout hfar
    rw [z2] at this
    exact le_antisymm this.2 this.1
end softedge

section monotone
set_option linter.unusedSectionVars false
variable {K : Type} [Field K] [LinearOrder K] [IsStrictOrderedRing K]

/-- **non-increasing along lines parallel to the x axis, moving away from the centre plane** — for every
kernel with non-negative, unit-sum weights that are symmetric and non-increasing in `|offset|`
(`UnimodalKernel`; the model's Gaussian kernel is one: `model_kernel_unimodal`), every box and every
position of the other two indices. Towards higher frequencies if the ball does not touch the upper face of the
mask box along this axis (`⌊n/2⌋ + r + 1 < n`), towards lower (more negative) ones if it does not touch the
lower face (`r < ⌊n/2⌋`); where it touches, `mode='nearest'` continues the mask with ones and the raw gain can
rise by a tail weight (seen on the executed model). -/
theorem soft_gain_mono_axis_x (ker : List (Int × K)) (hk : UnimodalKernel ker) (d : Dims)
    (hd : 0 < d.nx ∧ 0 < d.ny ∧ 0 < d.nz) (r : Int) (hr : 0 ≤ r) (j k l i' : Int) :
    (centre d.nx + r + 1 < (d.nx : Int) → 0 ≤ freq d.nx j → freq d.nx i' = freq d.nx j + 1 →
        lowGainFn (some ker) d r i' k l ≤ lowGainFn (some ker) d r j k l) ∧
    (r < centre d.nx → freq d.nx j ≤ 0 → freq d.nx i' = freq d.nx j - 1 →
        lowGainFn (some ker) d r i' k l ≤ lowGainFn (some ker) d r j k l) := by
  have hm := mask_step_x ker hk d hd.1 r hr (shiftIdx d.nx j) (shiftIdx d.ny k) (shiftIdx d.nz l)
  simp only [lowGainFn, shiftVol, lowMaskFn]
  constructor
  · intro hface h0 hstep
    have e : shiftIdx d.nx i' = shiftIdx d.nx j + 1 := by unfold freq at hstep; omega
    rw [e]
    exact hm.1 hface (by unfold freq at h0; omega)
  · intro hface h0 hstep
    have e : shiftIdx d.nx i' = shiftIdx d.nx j - 1 := by unfold freq at hstep; omega
    rw [e]
    exact hm.2 hface (by unfold freq at h0; omega)

/-- **non-increasing along lines parallel to the y axis, moving away from the centre plane** — for every
kernel with non-negative, unit-sum weights that are symmetric and non-increasing in `|offset|`
(`UnimodalKernel`; the model's Gaussian kernel is one: `model_kernel_unimodal`), every box and every
position of the other two indices. Towards higher frequencies if the ball does not touch the upper face of the
mask box along this axis (`⌊n/2⌋ + r + 1 < n`), towards lower (more negative) ones if it does not touch the
lower face (`r < ⌊n/2⌋`); where it touches, `mode='nearest'` continues the mask with ones and the raw gain can
rise by a tail weight (seen on the executed model). -/
theorem soft_gain_mono_axis_y (ker : List (Int × K)) (hk : UnimodalKernel ker) (d : Dims)
    (hd : 0 < d.nx ∧ 0 < d.ny ∧ 0 < d.nz) (r : Int) (hr : 0 ≤ r) (j k l i' : Int) :
    (centre d.ny + r + 1 < (d.ny : Int) → 0 ≤ freq d.ny k → freq d.ny i' = freq d.ny k + 1 →
        lowGainFn (some ker) d r j i' l ≤ lowGainFn (some ker) d r j k l) ∧
    (r < centre d.ny → freq d.ny k ≤ 0 → freq d.ny i' = freq d.ny k - 1 →
        lowGainFn (some ker) d r j i' l ≤ lowGainFn (some ker) d r j k l) := by
  have hm := mask_step_y ker hk d hd.2.1 r hr (shiftIdx d.nx j) (shiftIdx d.ny k) (shiftIdx d.nz l)
  simp only [lowGainFn, shiftVol, lowMaskFn]
  constructor
  · intro hface h0 hstep
    have e : shiftIdx d.ny i' = shiftIdx d.ny k + 1 := by unfold freq at hstep; omega
    rw [e]
    exact hm.1 hface (by unfold freq at h0; omega)
  · intro hface h0 hstep
    have e : shiftIdx d.ny i' = shiftIdx d.ny k - 1 := by unfold freq at hstep; omega
    rw [e]
    exact hm.2 hface (by unfold freq at h0; omega)

/-- **non-increasing along lines parallel to the z axis, moving away from the centre plane** — for every
kernel with non-negative, unit-sum weights that are symmetric and non-increasing in `|offset|`
(`UnimodalKernel`; the model's Gaussian kernel is one: `model_kernel_unimodal`), every box and every
position of the other two indices. Towards higher frequencies if the ball does not touch the upper face of the
mask box along this axis (`⌊n/2⌋ + r + 1 < n`), towards lower (more negative) ones if it does not touch the
lower face (`r < ⌊n/2⌋`); where it touches, `mode='nearest'` continues the mask with ones and the raw gain can
rise by a tail weight (seen on the executed model). -/
theorem soft_gain_mono_axis_z (ker : List (Int × K)) (hk : UnimodalKernel ker) (d : Dims)
    (hd : 0 < d.nx ∧ 0 < d.ny ∧ 0 < d.nz) (r : Int) (hr : 0 ≤ r) (j k l i' : Int) :
    (centre d.nz + r + 1 < (d.nz : Int) → 0 ≤ freq d.nz l → freq d.nz i' = freq d.nz l + 1 →
        lowGainFn (some ker) d r j k i' ≤ lowGainFn (some ker) d r j k l) ∧
    (r < centre d.nz → freq d.nz l ≤ 0 → freq d.nz i' = freq d.nz l - 1 →
        lowGainFn (some ker) d r j k i' ≤ lowGainFn (some ker) d r j k l) := by
  have hm := mask_step_z ker hk d hd.2.2 r hr (shiftIdx d.nx j) (shiftIdx d.ny k) (shiftIdx d.nz l)
  simp only [lowGainFn, shiftVol, lowMaskFn]
  constructor
  · intro hface h0 hstep
    have e : shiftIdx d.nz i' = shiftIdx d.nz l + 1 := by unfold freq at hstep; omega
    rw [e]
    exact hm.1 hface (by unfold freq at h0; omega)
  · intro hface h0 hstep
    have e : shiftIdx d.nz i' = shiftIdx d.nz l - 1 := by unfold freq at hstep; omega
    rw [e]
    exact hm.2 hface (by unfold freq at h0; omega)

/-- the third clause of `SoftEdgeFull` along the three coordinate axis rays from the centre (DFT bins
`m·e`, `m = 0, 1, …` up to the last non-negative frequency), in the form that IS proved: for a cutoff whose
ball stays off the upper faces of the mask box -/
theorem soft_edge_monotone_axes_partial (ker : List (Int × K)) (hk : UnimodalKernel ker) (d : Dims)
    (hd : 0 < d.nx ∧ 0 < d.ny ∧ 0 < d.nz) (r : Int) (hr : 0 ≤ r) (m : Int) (hm : 0 ≤ m) :
    (centre d.nx + r + 1 < (d.nx : Int) → m + 1 < (d.nx : Int) - centre d.nx →
        lowGainFn (some ker) d r ((m + 1) * 1) ((m + 1) * 0) ((m + 1) * 0) ≤ lowGainFn (some ker) d r (m * 1) (m * 0) (m * 0)) ∧
    (centre d.ny + r + 1 < (d.ny : Int) → m + 1 < (d.ny : Int) - centre d.ny →
        lowGainFn (some ker) d r ((m + 1) * 0) ((m + 1) * 1) ((m + 1) * 0) ≤ lowGainFn (some ker) d r (m * 0) (m * 1) (m * 0)) ∧
    (centre d.nz + r + 1 < (d.nz : Int) → m + 1 < (d.nz : Int) - centre d.nz →
        lowGainFn (some ker) d r ((m + 1) * 0) ((m + 1) * 0) ((m + 1) * 1) ≤ lowGainFn (some ker) d r (m * 0) (m * 0) (m * 1)) := by
  have fq : ∀ (n : Nat), 0 < n → ∀ a : Int, 0 ≤ a → a < (n : Int) - centre n → freq n a = a := by
    intro n hn a h0 h1
    exact freq_unique n hn a a (by have := centre_nonneg n; omega) h1 ⟨0, by ring⟩
  simp only [mul_one, mul_zero]
  refine ⟨fun hface hlt => ?_, fun hface hlt => ?_, fun hface hlt => ?_⟩
  · have := (soft_gain_mono_axis_x ker hk d hd r hr m 0 0 (m + 1)).1 hface
    rw [fq d.nx hd.1 m hm (by omega), fq d.nx hd.1 (m + 1) (by omega) hlt] at this
    exact this hm rfl
  · have := (soft_gain_mono_axis_y ker hk d hd r hr 0 m 0 (m + 1)).1 hface
    rw [fq d.ny hd.2.1 m hm (by omega), fq d.ny hd.2.1 (m + 1) (by omega) hlt] at this
    exact this hm rfl
  · have := (soft_gain_mono_axis_z ker hk d hd r hr 0 0 m (m + 1)).1 hface
    rw [fq d.nz hd.2.2 m hm (by omega), fq d.nz hd.2.2 (m + 1) (by omega) hlt] at this
    exact this hm rfl

/-- **non-increasing along every step away from the centre planes** — axis-parallel lines, face diagonals and
space diagonals alike: if every index either keeps its frequency or, on an axis whose ball stays off both faces of
the mask box (`monoAxisOk`), moves one bin away from frequency 0 (`AwayStep`), the gain does not rise. A diagonal
step is a chain of axis-parallel steps, each covered by `soft_gain_mono_axis_*` at the position reached so far. -/
theorem soft_gain_mono_step (ker : List (Int × K)) (hk : UnimodalKernel ker) (d : Dims)
    (hd : 0 < d.nx ∧ 0 < d.ny ∧ 0 < d.nz) (r : Int) (hr : 0 ≤ r) (j k l j' k' l' : Int)
    (hx : AwayStep d.nx r j j') (hy : AwayStep d.ny r k k') (hz : AwayStep d.nz r l l') :
    lowGainFn (some ker) d r j' k' l' ≤ lowGainFn (some ker) d r j k l :=
  gain_step_xyz ker hk d hd r hr j k l j' k' l' hx hy hz

/-- **the high-pass gain is non-DEcreasing** along the same steps (it is the complement of the low-pass gain) -/
theorem soft_high_gain_mono_step (ker : List (Int × K)) (hk : UnimodalKernel ker) (d : Dims)
    (hd : 0 < d.nx ∧ 0 < d.ny ∧ 0 < d.nz) (r : Int) (hr : 0 ≤ r) (j k l j' k' l' : Int)
    (hx : AwayStep d.nx r j j') (hy : AwayStep d.ny r k k') (hz : AwayStep d.nz r l l') :
    highGainFn (some ker) d r j k l ≤ highGainFn (some ker) d r j' k' l' := by
  rw [high_gain_complement, high_gain_complement]
  have := soft_gain_mono_step ker hk d hd r hr j k l j' k' l' hx hy hz
  linarith

/-- **the same for the EFFECTIVE gain** `(g(k) + g(−k))/2` — what `np.real` leaves of the filter and what the
harness measures as `fft(out)/fft(in)`: non-increasing along every step whose moving indices do not land on the
Nyquist bin of an even axis (`EffStep`; that bin has no mirror image). This is the statement the judge's clause
`soft-monotone` evaluates on the real output, on every pair of bins it applies to. -/
theorem soft_eff_gain_mono_step (ker : List (Int × K)) (hk : UnimodalKernel ker) (d : Dims)
    (hd : 0 < d.nx ∧ 0 < d.ny ∧ 0 < d.nz) (r : Int) (hr : 0 ≤ r) (j k l j' k' l' : Int)
    (hx : EffStep d.nx r j j') (hy : EffStep d.ny r k k') (hz : EffStep d.nz r l l') :
    effGain d (lowGainFn (some ker) d r) j' k' l' ≤ effGain d (lowGainFn (some ker) d r) j k l := by
  have a := gain_step_xyz ker hk d hd r hr j k l j' k' l' (effStep_away _ _ _ _ hx) (effStep_away _ _ _ _ hy) (effStep_away _ _ _ _ hz)
  have b := gain_step_xyz ker hk d hd r hr (negIdx d.nx j) (negIdx d.ny k) (negIdx d.nz l) (negIdx d.nx j') (negIdx d.ny k') (negIdx d.nz l')
    (effStep_mirror _ hd.1 _ _ _ hx) (effStep_mirror _ hd.2.1 _ _ _ hy) (effStep_mirror _ hd.2.2 _ _ _ hz)
  simp only [effGain]
  linarith

/-- **… also onto the Nyquist bin of an even axis**: the effective gain does not rise along ANY step whose indices keep their
frequency or move one bin away from frequency 0 on an axis with `monoAxisOk` (`AwayStep`), no exclusion left. The Nyquist bin
`-n/2` is its own mirror image, so the mirrored step goes from mask voxel `n-1` to mask voxel `0`; with the ball off both faces the
two blurred rows are equally long windows of the symmetric unimodal kernel weights, the second one offset further out
(`Lemmas/C12_Nyq.row_wrap`). The harness's clause `soft-monotone` judges exactly these steps on the measured gain. -/
theorem soft_eff_gain_mono_step_full (ker : List (Int × K)) (hk : UnimodalKernel ker) (d : Dims)
    (hd : 0 < d.nx ∧ 0 < d.ny ∧ 0 < d.nz) (r : Int) (hr : 0 ≤ r) (j k l j' k' l' : Int)
    (hx : AwayStep d.nx r j j') (hy : AwayStep d.ny r k k') (hz : AwayStep d.nz r l l') :
    effGain d (lowGainFn (some ker) d r) j' k' l' ≤ effGain d (lowGainFn (some ker) d r) j k l :=
  eff_gain_step_xyz ker hk d hd r hr j k l j' k' l' hx hy hz

/-- the formerly open item, in the shape it was recorded: the x-index steps from frequency `-n/2+1` onto the Nyquist bin `-n/2` -/
theorem soft_eff_gain_mono_nyquist_x (ker : List (Int × K)) (hk : UnimodalKernel ker) (d : Dims)
    (hd : 0 < d.nx ∧ 0 < d.ny ∧ 0 < d.nz) (r : Int) (hr : 0 ≤ r) (j k l j' : Int)
    (hok : monoAxisOk d.nx r = true) (hj' : freq d.nx j' = -centre d.nx) (hj : freq d.nx j = -centre d.nx + 1) :
    effGain d (lowGainFn (some ker) d r) j' k l ≤ effGain d (lowGainFn (some ker) d r) j k l := by
  have hc : 0 < centre d.nx := by
    have := (monoAxisOk_iff d.nx r).1 hok
    omega
  exact soft_eff_gain_mono_step_full ker hk d hd r hr j k l j' k l
    (Or.inr ⟨hok, Or.inr ⟨by omega, by omega⟩⟩) (Or.inl rfl) (Or.inl rfl)

/-- the third clause of `SoftEdgeFull` — along all 26 axis/diagonal rays `m·s ↦ (m+1)·s`, `s ∈ {-1,0,1}³` — in the
form that IS proved: for the effective gain, on every ray whose moving axes keep the ball off both faces of the
mask box, up to the last frequency that has a mirror bin -/
theorem soft_edge_monotone_rays_partial (ker : List (Int × K)) (hk : UnimodalKernel ker) (d : Dims)
    (hd : 0 < d.nx ∧ 0 < d.ny ∧ 0 < d.nz) (r : Int) (hr : 0 ≤ r) (sx sy sz m : Int) (hm : 0 ≤ m)
    (hx : sx = 0 ∨ ((sx = 1 ∨ sx = -1) ∧ monoAxisOk d.nx r = true ∧ m + 1 < (d.nx : Int) - centre d.nx))
    (hy : sy = 0 ∨ ((sy = 1 ∨ sy = -1) ∧ monoAxisOk d.ny r = true ∧ m + 1 < (d.ny : Int) - centre d.ny))
    (hz : sz = 0 ∨ ((sz = 1 ∨ sz = -1) ∧ monoAxisOk d.nz r = true ∧ m + 1 < (d.nz : Int) - centre d.nz)) :
    effGain d (lowGainFn (some ker) d r) ((m + 1) * sx) ((m + 1) * sy) ((m + 1) * sz)
      ≤ effGain d (lowGainFn (some ker) d r) (m * sx) (m * sy) (m * sz) :=
  soft_eff_gain_mono_step ker hk d hd r hr _ _ _ _ _ _
    (effStep_ray _ hd.1 r sx m hm hx) (effStep_ray _ hd.2.1 r sy m hm hy) (effStep_ray _ hd.2.2 r sz m hm hz)

/-- the kernel the driver builds is symmetric and unimodal for every positive, monotone `exp` (with the
integer cast as `ofI`) over every ordered field, so the monotonicity theorems apply to the model's definitions (at `Float` the
same properties of the executed weights are probed on every run, see `model_kernel_valid`) -/
theorem model_kernel_unimodal [BEq K] (expf : K → K) (hexp : ∀ x, 0 < expf x) (hmono : ∀ x y, x ≤ y → expf x ≤ expf y)
    (trunc : K → Nat) (sigma : K) :
    ∀ k' ∈ kernelFor expf (fun q => (q : K)) trunc sigma, UnimodalKernel k' := by
  intro k' hk'
  unfold kernelFor at hk'
  split_ifs at hk' with h
  · cases hk'
  · cases hk'
    exact gaussKernel_unimodal expf hexp hmono sigma (trunc sigma)
end monotone

/-- `SoftEdgeFull` with a margin below the kernel's reach is FALSE in exact arithmetic: kernel
`(1/4, 1/2, 1/4)` (support 1, reach √3), box 8³, cutoff 1, margin 1: the DC bin lies at radius
`0 ≤ cutoff − margin` but its gain is 1/2 (only 7 of the 27 kernel offsets stay inside the ball). -/
theorem soft_edge_full_false_below_reach :
    ¬ SoftEdgeFull ([(-1, 1/4), (0, 1/2), (1, 1/4)] : List (Int × Rat)) ⟨8, 8, 8⟩ 1 1 := by
  intro h
  have h1 := h.1 0 0 0 0 (le_refl _) (by decide) (by decide)
  revert h1
  decide +kernel

/-! ### "non-increasing in between": what is refuted and what stays open -/

/-- "non-increasing in the integer frequency RADIUS" read literally — for ANY two bins, also in different directions -/
def SoftMonotoneRadial {K : Type} [Field K] [LinearOrder K] [IsStrictOrderedRing K]
    (ker : List (Int × K)) (d : Dims) (r : Int) : Prop :=
  ∀ j k l j' k' l' : Int, freqRadius2 d j k l ≤ freqRadius2 d j' k' l' →
    effGain d (lowGainFn (some ker) d r) j' k' l' ≤ effGain d (lowGainFn (some ker) d r) j k l

/-- **the literal radial reading is FALSE** even where the ball stays off every face of the mask box: kernel
`(1/4, 1/2, 1/4)`, box 12³, cutoff 3 (`monoAxisOk 12 3`): bin `(2,2,2)` of squared radius 12 has gain 19/64, bin
`(3,1,1)` of squared radius 11 only 17/64 — a lattice ball blurred with a separable kernel is not isotropic. Hence
"non-increasing" can only be a statement about bins ordered componentwise (`soft_eff_gain_mono_step`, the 26 rays). -/
theorem soft_monotone_radial_false :
    monoAxisOk 12 3 = true ∧ ¬ SoftMonotoneRadial ([(-1, 1/4), (0, 1/2), (1, 1/4)] : List (Int × Rat)) ⟨12, 12, 12⟩ 3 := by
  refine ⟨by decide, fun h => ?_⟩
  have h1 := h 3 1 1 2 2 2 (by decide)
  revert h1
  decide +kernel

/-- the axis-parallel step away from frequency 0 WITHOUT the face hypothesis of `soft_gain_mono_axis_x` -/
def SoftMonotoneAnyFace {K : Type} [Field K] [LinearOrder K] [IsStrictOrderedRing K]
    (ker : List (Int × K)) (d : Dims) (r : Int) : Prop :=
  ∀ j k l j' : Int, 0 ≤ freq d.nx j → freq d.nx j' = freq d.nx j + 1 →
    lowGainFn (some ker) d r j' k l ≤ lowGainFn (some ker) d r j k l

/-- **the face hypothesis (`monoAxisOk`) is necessary**: where the ball touches the upper face of the mask box,
`mode='nearest'` continues the mask with ones and the gain RISES away from frequency 0 — unimodal kernel
`(1/8, 1/4, 1/4, 1/4, 1/8)`, box 4³, cutoff 1: gain 17/128 at the DC bin, 18/128 at bin `(1,0,0)`. So on such axes
"non-increasing" is not a theorem for any checker; the rise is at most `faceRise` (`soft_gain_step_bound`, `soft_monotone_fails_only_if`:
even axis, upper face reached, kernel weight at offset `n/2`), and that is what the harness allows there. -/
theorem soft_monotone_false_at_face :
    monoAxisOk 4 1 = false ∧
    ¬ SoftMonotoneAnyFace ([(-2, 1/8), (-1, 1/4), (0, 1/4), (1, 1/4), (2, 1/8)] : List (Int × Rat)) ⟨4, 4, 4⟩ 1 := by
  refine ⟨by decide, fun h => ?_⟩
  have h1 := h 0 0 0 1 (by decide) (by decide)
  revert h1
  decide +kernel

/-! #### … closed: every step away from frequency 0, no hypothesis on the faces -/
section facebound
set_option linter.unusedSectionVars false
variable {K : Type} [Field K] [LinearOrder K] [IsStrictOrderedRing K]

/-- **the RAW gain along ANY step away from frequency 0** (each index keeps its frequency or moves one bin away from 0 —
`AnyAwayStep`, no condition on the faces; axis-parallel and diagonal): it rises by at most `faceRise` per index whose frequency goes UP.
Steps towards lower (more negative) frequencies never raise it: with the centre at `⌊n/2⌋` a row of the ball that reaches the lower
face reaches the upper one too, and `mode='nearest'` makes its blur constant. -/
theorem soft_gain_step_bound (ker : List (Int × K)) (hk : UnimodalKernel ker) (d : Dims)
    (hd : 0 < d.nx ∧ 0 < d.ny ∧ 0 < d.nz) (r : Int) (hr : 0 ≤ r) (j k l j' k' l' : Int)
    (hx : AnyAwayStep d.nx j j') (hy : AnyAwayStep d.ny k k') (hz : AnyAwayStep d.nz l l') :
    lowGainFn (some ker) d r j' k' l' ≤ lowGainFn (some ker) d r j k l
      + (upRise ker d.nx r j j' + upRise ker d.ny r k k' + upRise ker d.nz r l l') :=
  gain_step_xyz_any ker hk d hd r hr j k l j' k' l' hx hy hz

/-- **the EFFECTIVE gain (what the harness measures) along ANY step away from frequency 0, Nyquist landings included: monotone
unless an index moves on an even axis whose upper face the ball reaches, and then the rise is at most half the kernel weight at
offset `n/2` per such index** (`stepRise` = `faceRise` for an index that moves, 0 for one that stays). -/
theorem soft_eff_gain_step_bound (ker : List (Int × K)) (hk : UnimodalKernel ker) (d : Dims)
    (hd : 0 < d.nx ∧ 0 < d.ny ∧ 0 < d.nz) (r : Int) (hr : 0 ≤ r) (j k l j' k' l' : Int)
    (hx : AnyAwayStep d.nx j j') (hy : AnyAwayStep d.ny k k') (hz : AnyAwayStep d.nz l l') :
    effGain d (lowGainFn (some ker) d r) j' k' l' ≤ effGain d (lowGainFn (some ker) d r) j k l
      + (stepRise ker d.nx r j j' + stepRise ker d.ny r k k' + stepRise ker d.nz r l l') / 2 :=
  eff_gain_step_any ker hk d hd r hr j k l j' k' l' hx hy hz

/-- `faceRise` is 0 when the ball stays off the upper face of the axis or the axis is odd … -/
theorem face_rise_zero (ker : List (Int × K)) (n : Nat) (r : Int) (h : centre n + r + 1 < (n : Int) ∨ n % 2 = 1) :
    faceRise ker n r = 0 := by
  unfold faceRise; rw [if_pos h]

/-- … and when the kernel's support `t` is shorter than `n/2` (for the model's kernel `t = int(4σ+0.5)`: every `σ ≤ 4` on axes
`n ≥ 34`, `σ ≤ 0.875` on the statement's smallest axis `n = 8`); in general it is a kernel weight, in `[0, wt ker ⌊n/2⌋]` -/
theorem face_rise_zero_short_kernel (ker : List (Int × K)) (t : Nat) (hw : KerWithin t ker) (n : Nat) (r : Int)
    (ht : (t : Int) < centre n) : faceRise ker n r = 0 := by
  unfold faceRise
  split_ifs
  · rfl
  · exact wt_zero_of_within ker t hw _ (Or.inl ht)

theorem face_rise_range (ker : List (Int × K)) (hn : KerNonneg ker) (n : Nat) (r : Int) :
    0 ≤ faceRise ker n r ∧ faceRise ker n r ≤ wt ker (centre n) := by
  refine ⟨faceRise_nonneg ker hn n r, ?_⟩
  unfold faceRise
  split_ifs
  · exact wt_nonneg ker hn _
  · exact le_refl _

/-- **exactly when "non-increasing" can fail** (`soft_monotone_false_at_face` generalised): if the raw gain rises along a step of
the x index one bin up from a frequency `≥ 0`, then the axis is even, the ball reaches its upper face (`⌊n/2⌋ + r + 1 ≥ n`) and the
kernel has weight at offset `n/2`. (Same for y, z by symmetry of the statement; `soft_monotone_false_at_face` shows such a rise
does occur: 1/128 with `faceRise = 1/8`, `soft_monotone_face_witness`.) -/
theorem soft_monotone_fails_only_if (ker : List (Int × K)) (hk : UnimodalKernel ker) (d : Dims)
    (hd : 0 < d.nx ∧ 0 < d.ny ∧ 0 < d.nz) (r : Int) (hr : 0 ≤ r) (j k l j' : Int)
    (h0 : 0 ≤ freq d.nx j) (h1 : freq d.nx j' = freq d.nx j + 1)
    (hrise : lowGainFn (some ker) d r j k l < lowGainFn (some ker) d r j' k l) :
    d.nx % 2 = 0 ∧ (d.nx : Int) ≤ centre d.nx + r + 1 ∧ 0 < wt ker (centre d.nx) := by
  have h := gain_step_x_any ker hk d hd.1 r hr j j' (Or.inr (Or.inl ⟨h0, h1⟩)) k l
  unfold upRise at h
  rw [if_pos h1] at h
  have hpos : 0 < faceRise ker d.nx r := by linarith
  unfold faceRise at hpos
  split_ifs at hpos with hc
  · exact absurd hpos (lt_irrefl _)
  · exact ⟨by omega, by omega, hpos⟩

/-- **exact monotonicity of the effective gain wherever `faceRise` vanishes on the moving axes** — in particular on every odd axis,
on every axis whose upper face the ball stays off (that is `monoAxisOk`), and on every axis longer than twice the kernel's support -/
theorem soft_eff_gain_mono_step_reach (ker : List (Int × K)) (hk : UnimodalKernel ker) (d : Dims)
    (hd : 0 < d.nx ∧ 0 < d.ny ∧ 0 < d.nz) (r : Int) (hr : 0 ≤ r) (j k l j' k' l' : Int)
    (hx : AnyAwayStep d.nx j j') (hy : AnyAwayStep d.ny k k') (hz : AnyAwayStep d.nz l l')
    (zx : freq d.nx j' = freq d.nx j ∨ faceRise ker d.nx r = 0) (zy : freq d.ny k' = freq d.ny k ∨ faceRise ker d.ny r = 0)
    (zz : freq d.nz l' = freq d.nz l ∨ faceRise ker d.nz r = 0) :
    effGain d (lowGainFn (some ker) d r) j' k' l' ≤ effGain d (lowGainFn (some ker) d r) j k l := by
  have h := soft_eff_gain_step_bound ker hk d hd r hr j k l j' k' l' hx hy hz
  have e : ∀ (n : Nat) (a a' : Int), (freq n a' = freq n a ∨ faceRise ker n r = 0) → stepRise ker n r a a' = 0 := by
    intro n a a' hz'
    unfold stepRise
    rcases hz' with hz' | hz'
    · rw [if_pos hz']
    · split_ifs
      · rfl
      · exact hz'
  rw [e _ _ _ zx, e _ _ _ zy, e _ _ _ zz] at h
  simpa using h

/-- **what the judge's clause `soft-monotone` evaluates on the measured gain**: for each axis, every step of that one index away
from frequency 0 (Nyquist landing included), at every position of the other two indices: the rise is at most `faceRise/2`, the
number the driver reports per axis (`face_rise`) -/
theorem soft_eff_gain_axis_step_checked (ker : List (Int × K)) (hk : UnimodalKernel ker) (d : Dims)
    (hd : 0 < d.nx ∧ 0 < d.ny ∧ 0 < d.nz) (r : Int) (hr : 0 ≤ r) (j k l i' : Int) :
    (AnyAwayStep d.nx j i' → effGain d (lowGainFn (some ker) d r) i' k l ≤ effGain d (lowGainFn (some ker) d r) j k l + faceRise ker d.nx r / 2) ∧
    (AnyAwayStep d.ny k i' → effGain d (lowGainFn (some ker) d r) j i' l ≤ effGain d (lowGainFn (some ker) d r) j k l + faceRise ker d.ny r / 2) ∧
    (AnyAwayStep d.nz l i' → effGain d (lowGainFn (some ker) d r) j k i' ≤ effGain d (lowGainFn (some ker) d r) j k l + faceRise ker d.nz r / 2) := by
  have s0 : ∀ (n : Nat) (a : Int), stepRise ker n r a a = 0 := fun n a => by unfold stepRise; rw [if_pos rfl]
  have sle : ∀ (n : Nat) (a a' : Int), stepRise ker n r a a' ≤ faceRise ker n r := by
    intro n a a'; unfold stepRise; split_ifs
    · exact faceRise_nonneg ker hk.nonneg n r
    · exact le_refl _
  refine ⟨fun h => ?_, fun h => ?_, fun h => ?_⟩
  · have := soft_eff_gain_step_bound ker hk d hd r hr j k l i' k l h (Or.inl rfl) (Or.inl rfl)
    rw [s0, s0, add_zero, add_zero] at this
    have := sle d.nx j i'
    linarith
  · have := soft_eff_gain_step_bound ker hk d hd r hr j k l j i' l (Or.inl rfl) h (Or.inl rfl)
    rw [s0, s0, zero_add, add_zero] at this
    have := sle d.ny k i'
    linarith
  · have := soft_eff_gain_step_bound ker hk d hd r hr j k l j k i' (Or.inl rfl) (Or.inl rfl) h
    rw [s0, s0, zero_add, zero_add] at this
    have := sle d.nz l i'
    linarith

/-- **the third clause of `SoftEdgeFull` along all 26 axis/diagonal rays `m·s ↦ (m+1)·s`, `s ∈ {-1,0,1}³`, every box, every cutoff, NO
hypothesis on the faces, up to the last frequency of each moving axis (Nyquist bins included)**: the effective gain does not rise by
more than half of `faceRise` per moving axis — i.e. not at all unless a moving axis is even, the ball reaches its upper face and the
kernel reaches `n/2` -/
theorem soft_edge_rays_bound (ker : List (Int × K)) (hk : UnimodalKernel ker) (d : Dims)
    (hd : 0 < d.nx ∧ 0 < d.ny ∧ 0 < d.nz) (r : Int) (hr : 0 ≤ r) (sx sy sz m : Int) (hm : 0 ≤ m)
    (hx : sx = 0 ∨ (sx = 1 ∧ m + 1 < (d.nx : Int) - centre d.nx) ∨ (sx = -1 ∧ m + 1 ≤ centre d.nx))
    (hy : sy = 0 ∨ (sy = 1 ∧ m + 1 < (d.ny : Int) - centre d.ny) ∨ (sy = -1 ∧ m + 1 ≤ centre d.ny))
    (hz : sz = 0 ∨ (sz = 1 ∧ m + 1 < (d.nz : Int) - centre d.nz) ∨ (sz = -1 ∧ m + 1 ≤ centre d.nz)) :
    effGain d (lowGainFn (some ker) d r) ((m + 1) * sx) ((m + 1) * sy) ((m + 1) * sz)
      ≤ effGain d (lowGainFn (some ker) d r) (m * sx) (m * sy) (m * sz)
        + (stepRise ker d.nx r (m * sx) ((m + 1) * sx) + stepRise ker d.ny r (m * sy) ((m + 1) * sy)
            + stepRise ker d.nz r (m * sz) ((m + 1) * sz)) / 2 :=
  soft_eff_gain_step_bound ker hk d hd r hr _ _ _ _ _ _
    (anyAwayStep_ray _ hd.1 sx m hm hx) (anyAwayStep_ray _ hd.2.1 sy m hm hy) (anyAwayStep_ray _ hd.2.2 sz m hm hz)

/-- **the formerly OPEN part of "non-increasing in between" (`SoftMonotoneOpen`), in the form the harness checks** — effective gain,
every step away from frequency 0 on axes where the ball may touch the faces, explicit bound -/
def SoftMonotoneFace (ker : List (Int × K)) (d : Dims) (r : Int) : Prop :=
  ∀ j k l j' k' l' : Int, AnyAwayStep d.nx j j' → AnyAwayStep d.ny k k' → AnyAwayStep d.nz l l' →
    effGain d (lowGainFn (some ker) d r) j' k' l' ≤ effGain d (lowGainFn (some ker) d r) j k l
      + (stepRise ker d.nx r j j' + stepRise ker d.ny r k k' + stepRise ker d.nz r l l') / 2

/-- … is a theorem for every symmetric unimodal kernel, every box and every cutoff `≥ 0`: nothing of the clause is left open.
(The bound the harness USED to check there, `tail3 ker ⌊(4σ+1)²⌋`, was tighter and only empirical; it is no longer used.) -/
theorem soft_monotone_face_closed (ker : List (Int × K)) (hk : UnimodalKernel ker) (d : Dims)
    (hd : 0 < d.nx ∧ 0 < d.ny ∧ 0 < d.nz) (r : Int) (hr : 0 ≤ r) : SoftMonotoneFace ker d r :=
  fun j k l j' k' l' hx hy hz => soft_eff_gain_step_bound ker hk d hd r hr j k l j' k' l' hx hy hz

end facebound

/-- the witness of `soft_monotone_false_at_face` against the bound: box 4³ (even), cutoff 1 (`2 + 1 + 1 ≥ 4`: the ball reaches the
upper face), 5-tap kernel reaching `n/2 = 2`: `faceRise = 1/8`, the observed rise `18/128 − 17/128 = 1/128`; on the odd box 5³ and
off the face (box 8³) `faceRise = 0` -/
theorem soft_monotone_face_witness :
    faceRise ([(-2, 1/8), (-1, 1/4), (0, 1/4), (1, 1/4), (2, 1/8)] : List (Int × Rat)) 4 1 = 1/8 ∧
    lowGainFn (some ([(-2, 1/8), (-1, 1/4), (0, 1/4), (1, 1/4), (2, 1/8)] : List (Int × Rat))) ⟨4, 4, 4⟩ 1 1 0 0
      - lowGainFn (some ([(-2, 1/8), (-1, 1/4), (0, 1/4), (1, 1/4), (2, 1/8)] : List (Int × Rat))) ⟨4, 4, 4⟩ 1 0 0 0 = 1/128 ∧
    faceRise ([(-2, 1/8), (-1, 1/4), (0, 1/4), (1, 1/4), (2, 1/8)] : List (Int × Rat)) 5 2 = 0 ∧
    faceRise ([(-2, 1/8), (-1, 1/4), (0, 1/4), (1, 1/4), (2, 1/8)] : List (Int × Rat)) 8 1 = 0 := by decide +kernel

/-- **known finding C12-K1, witness.** With DIFFERENT edge widths a properly nested band (`hp = 2 < lp = 3`) has a
negative gain: outer edge `(1/8, 1/4, 1/4, 1/4, 1/8)`, inner edge `(1/16, 7/8, 1/16)`, box 8³, bin `(1,0,0)`:
the softer outer mask has dropped to 111/128 where the sharper inner one is still 1009/1024. "Gain in [0,1]" and
"band-pass = difference of its two low-passes" cannot both hold here; the model (like the code) keeps the second. -/
theorem band_gain_negative_unequal_widths :
    bandGainFn (some ([(-2, 1/8), (-1, 1/4), (0, 1/4), (1, 1/4), (2, 1/8)] : List (Int × Rat)))
      (some [(-1, 1/16), (0, 7/8), (1, 1/16)]) ⟨8, 8, 8⟩ 3 2 1 0 0 = -121/1024 := by decide +kernel

/-- … and so has an inverted band (`hp > lp`) even with equal (here: hard) edges: the shell between the cutoffs gets gain −1 -/
theorem band_gain_negative_inverted :
    bandGainFn (none : Option (List (Int × Rat))) none ⟨8, 8, 8⟩ 1 2 2 0 0 = -1 := by decide +kernel

/-- **C12-K1, witness** (name by convention): a nested band with unequal edge widths has a gain outside [0,1] in the model. The
kernels are TOY rational kernels (5 and 3 taps), chosen so that `decide +kernel` evaluates the gain (−121/1024 ≈ −0.118); the figure
"about −0.16" quoted in known_findings.json is the most negative gain MEASURED on the real code with the Gaussian defaults
(`lp_gaussian=3, hp_gaussian=2`) and reproduced by the driver's Float model in the correspondence run — it appears in no Lean
theorem (Gaussian weights involve `exp`, which the exact-arithmetic theorems do not evaluate). What IS proved in general is the range
[−1, 1] (`band_gain_bounds`) and [0, 1] for nested equal widths (`band_gain_range_nested`). -/
theorem band_gain_K1_witness :
    ∃ j k l : Int, bandGainFn (some ([(-2, 1/8), (-1, 1/4), (0, 1/4), (1, 1/4), (2, 1/8)] : List (Int × Rat)))
      (some [(-1, 1/16), (0, 7/8), (1, 1/16)]) ⟨8, 8, 8⟩ 3 2 j k l < 0 :=
  ⟨1, 0, 0, by rw [band_gain_negative_unequal_widths]; norm_num⟩

/-- **C12-K2, witness**: an inverted band (`hp = 2 > lp = 1`) with equal (hard) edges has gain −1 on the shell between the cutoffs -/
theorem band_gain_K2_witness :
    ∃ j k l : Int, bandGainFn (none : Option (List (Int × Rat))) none ⟨8, 8, 8⟩ 1 2 j k l < 0 :=
  ⟨2, 0, 0, by rw [band_gain_negative_inverted]; norm_num⟩

/-! ### the executed arrays hold these gains -/
section grids
variable {α : Type} [Add α] [Mul α] [Sub α] [OfNat α 0] [OfNat α 1]

theorem lowGain_grid (ker : Option (List (Int × α))) (d : Dims) (r : Int) (j k l : Int) (hb : InBox d j k l) :
    (gainGrid d (lowMaskGrid ker d r)).get j k l = lowGainFn ker d r j k l :=
  gainGrid_get d _ _ (fun x y z h => lowMaskGrid_get ker d r x y z h) j k l hb

theorem highGain_grid (ker : Option (List (Int × α))) (d : Dims) (r : Int) (j k l : Int) (hb : InBox d j k l) :
    (gainGrid d (highMaskGrid ker d r)).get j k l = highGainFn ker d r j k l :=
  gainGrid_get d _ _ (fun x y z h => highMaskGrid_get ker d r x y z h) j k l hb

theorem bandGain_grid (kl kh : Option (List (Int × α))) (d : Dims) (lp hp : Int) (j k l : Int) (hb : InBox d j k l) :
    (gainGrid d (bandMaskGrid kl kh d lp hp)).get j k l = bandGainFn kl kh d lp hp j k l :=
  gainGrid_get d _ _ (fun x y z h => bandMaskGrid_get kl kh d lp hp x y z h) j k l hb

theorem effGain_grid [Div α] [OfNat α 2] (d : Dims) (m : Grid α) (f : Vol α)
    (hm : ∀ x y z, InBox d x y z → m.get x y z = f x y z) (j k l : Int) (hb : InBox d j k l) :
    (effGrid d (gainGrid d m)).get j k l = effGain d (shiftVol d f) j k l :=
  effGrid_get d _ _ (fun x y z h => gainGrid_get d m f hm x y z h) j k l hb
end grids

/-! ### the filter operator: linear, real-valued, shift-commuting, one gain per Fourier component -/
section operator
variable {R C : Type} [Field R] [AddCommGroup C] [Module R C]

variable {F Finv : (Idx → C) → (Idx → C)} {re : C → C}

/-- **linear (1)**: additive, for every gain -/
theorem filt_add (T : Transform R F Finv re) (g : Idx → R) (x y : Idx → C) :
    filt F Finv re g (x + y) = filt F Finv re g x + filt F Finv re g y := by
  funext i
  simp only [filt, Pi.add_apply, T.F_add]
  have : (fun k => g k • (F x k + F y k)) = (fun k => g k • F x k) + (fun k => g k • F y k) := by
    funext k; simp [smul_add]
  rw [this, T.Finv_add, Pi.add_apply, T.re_add]

/-- **linear (2)**: homogeneous for real scalars -/
theorem filt_smul (T : Transform R F Finv re) (g : Idx → R) (a : R) (x : Idx → C) :
    filt F Finv re g (a • x) = a • filt F Finv re g x := by
  funext i
  simp only [filt, Pi.smul_apply, T.F_smul]
  have : (fun k => g k • a • F x k) = a • (fun k => g k • F x k) := by
    funext k; simp only [Pi.smul_apply]; exact smul_comm _ _ _
  rw [this, T.Finv_smul, Pi.smul_apply, T.re_smul]

/-- **real-valued**: the output is its own real part -/
theorem filt_real (T : Transform R F Finv re) (g : Idx → R) (x : Idx → C) (i : Idx) :
    re (filt F Finv re g x i) = filt F Finv re g x i := T.re_idem _

/-- **commutes with circular shifts**: let `σ` re-index the grid (`roll`) and let the transform turn it
into a pointwise phase `φ` that commutes with real scalars (the DFT shift theorem). Then filtering the
shifted map is shifting the filtered map. -/
theorem filt_shift (T : Transform R F Finv re) (g : Idx → R) (σ : Idx → Idx) (φ : Idx → C → C)
    (hφ : ∀ k (a : R) c, φ k (a • c) = a • φ k c)
    (hF : ∀ x : Idx → C, F (fun i => x (σ i)) = fun k => φ k (F x k)) (x : Idx → C) :
    filt F Finv re g (fun i => x (σ i)) = fun i => filt F Finv re g x (σ i) := by
  have hFinv : ∀ y : Idx → C, Finv (fun k => φ k (y k)) = fun i => Finv y (σ i) := by
    intro y
    have := hF (Finv y)
    rw [T.right_inv] at this
    rw [← this, T.left_inv]
  funext i
  simp only [filt, hF]
  have : (fun k => g k • φ k (F x k)) = (fun k => φ k ((fun k => g k • F x k) k)) := by
    funext k; rw [hφ]
  rw [this, hFinv]

/-- **each Fourier component is scaled by its gain** (before `np.real`) -/
theorem filt_spectrum (T : Transform R F Finv re) (g : Idx → R) (x : Idx → C) (k : Idx) :
    F (Finv (fun k => g k • F x k)) k = g k • F x k := by rw [T.right_inv]

/-- for an even gain (the hard filters: `hard_gain_even`) and a map with Hermitian spectrum (a real
map), `np.real` drops nothing, so the output's spectrum is exactly gain × input spectrum -/
theorem filt_even_gain (T : Transform R F Finv re) (conj : C → C) (ν : Idx → Idx)
    (hconj : ∀ (a : R) c, conj (a • c) = a • conj c)
    (hreal : ∀ y : Idx → C, (∀ k, y (ν k) = conj (y k)) → ∀ i, re (Finv y i) = Finv y i)
    (g : Idx → R) (hg : ∀ k, g (ν k) = g k) (x : Idx → C) (hx : ∀ k, F x (ν k) = conj (F x k)) :
    filt F Finv re g x = Finv (fun k => g k • F x k) ∧ ∀ k, F (filt F Finv re g x) k = g k • F x k := by
  have h : filt F Finv re g x = Finv (fun k => g k • F x k) := by
    funext i
    simp only [filt]
    apply hreal
    intro k
    rw [hg, hx, hconj]
  exact ⟨h, fun k => by rw [h, T.right_inv]⟩

/-- for ANY real gain, `np.real` makes the filter act with the even part of the gain: the output's
spectrum is `(g(k) + g(-k))/2 × ` input spectrum (what the harness measures and compares) -/
theorem filt_effective_gain (T : Transform R F Finv re) (h2 : (2 : R) ≠ 0) (conj : C → C) (ν : Idx → Idx)
    (hconj : ∀ (a : R) c, conj (a • c) = a • conj c) (hcc : ∀ c, conj (conj c) = c)
    (hre : ∀ (y : Idx → C) i, re (Finv y i) = Finv (fun k => (1 / 2 : R) • (y k + conj (y (ν k)))) i)
    (g : Idx → R) (x : Idx → C) (hx : ∀ k, F x (ν k) = conj (F x k)) :
    filt F Finv re g x = Finv (fun k => ((g k + g (ν k)) / 2) • F x k)
    ∧ ∀ k, F (filt F Finv re g x) k = ((g k + g (ν k)) / 2) • F x k := by
  have h : filt F Finv re g x = Finv (fun k => ((g k + g (ν k)) / 2) • F x k) := by
    funext i
    simp only [filt]
    rw [hre]
    congr 1
    funext k
    rw [hconj, hx k, hcc, ← add_smul, smul_smul]
    congr 1
    field_simp
  exact ⟨h, fun k => by rw [h, T.right_inv]⟩

/-- **high-pass is the exact complement of the low-pass with the same parameters**: for every gain `g`
the filter with gain `1 − g` returns `re x − (filter with gain g)`, i.e. `x − lowpass x` for a real map -/
theorem filt_complement (T : Transform R F Finv re) (g : Idx → R) (x : Idx → C) (i : Idx) :
    filt F Finv re (fun k => 1 - g k) x i = re (x i) - filt F Finv re g x i := by
  simp only [filt]
  have : (fun k => (1 - g k) • F x k) = F x - (fun k => g k • F x k) := by
    funext k; simp [sub_smul]
  rw [this, T.Finv_sub, T.left_inv, Pi.sub_apply, T.re_sub]

/-- **band-pass equals the difference of its two low-passes** -/
theorem filt_difference (T : Transform R F Finv re) (g1 g2 : Idx → R) (x : Idx → C) (i : Idx) :
    filt F Finv re (fun k => g1 k - g2 k) x i = filt F Finv re g1 x i - filt F Finv re g2 x i := by
  simp only [filt]
  have : (fun k => (g1 k - g2 k) • F x k) = (fun k => g1 k • F x k) - (fun k => g2 k • F x k) := by
    funext k; simp [sub_smul]
  rw [this, T.Finv_sub, Pi.sub_apply, T.re_sub]

/-- the three cryoCAT filters, with their own gains -/
theorem highpass_complement (T : Transform R F Finv re) (ker : Option (List (Int × R))) (d : Dims) (r : Int)
    (x : Idx → C) (i : Idx) :
    highpass F Finv re ker d r x i = re (x i) - lowpass F Finv re ker d r x i := by
  unfold highpass lowpass
  exact filt_complement T (atIdx (lowGainFn ker d r)) x i

theorem bandpass_difference (T : Transform R F Finv re) (kl kh : Option (List (Int × R))) (d : Dims) (lp hp : Int)
    (x : Idx → C) (i : Idx) :
    bandpass F Finv re kl kh d lp hp x i = lowpass F Finv re kl d lp x i - lowpass F Finv re kh d hp x i := by
  unfold bandpass lowpass
  exact filt_difference T (atIdx (lowGainFn kl d lp)) (atIdx (lowGainFn kh d hp)) x i

end operator

/-! ### the transform pair inside the model: the naive separable DFT the driver executes -/
section dft
variable {R C : Type} [Field R] [Field C] [Algebra R C]

/-- **the model's DFT pair `dft3 / idft3` satisfies every `Transform` hypothesis** (additive, homogeneous,
`idft3 ∘ dft3 = id`, `dft3 ∘ idft3 = id`) over every field that has primitive roots of unity of the three
edge lengths and in which the edge lengths are invertible — so `filt_add … bandpass_difference` above hold
for the transform that is executed, no longer for an abstract pair only. -/
theorem dft_is_transform (d : Dims) (ωx ωy ωz : C) (hx : Root d.nx ωx) (hy : Root d.ny ωy) (hz : Root d.nz ωz)
    (re : C → C) (hre : RealPart R re) :
    Transform R (dft3 d (fun m => ωx ^ m) (fun m => ωy ^ m) (fun m => ωz ^ m))
      (idft3 d (fun m => ωx ^ m) (fun m => ωy ^ m) (fun m => ωz ^ m) (d.nx : C)⁻¹ (d.ny : C)⁻¹ (d.nz : C)⁻¹) re :=
  dft3_transform d ωx ωy ωz hx hy hz re hre

/-- 1-D inversion, the heart of it: orthogonality of the characters by the geometric sum -/
theorem dft1_inversion (n : Nat) (ω : C) (h : Root n ω) (x : Int → C) :
    idft1 n (fun m => ω ^ m) (n : C)⁻¹ (dft1 n (fun m => ω ^ m) x) = x ∧
    dft1 n (fun m => ω ^ m) (idft1 n (fun m => ω ^ m) (n : C)⁻¹ x) = x :=
  ⟨dft1_left_inv h x, dft1_right_inv h x⟩
end dft

/-- **instantiated over ℂ** with numpy's twiddles `exp(-2πi/n)` and `np.real`: for every box the exact complex
DFT is a `Transform` (the hypotheses are not only consistent — previously witnessed by the identity — but
met by the transform the filters are written with) -/
theorem dft_is_transform_complex (d : Dims) (hd : 0 < d.nx ∧ 0 < d.ny ∧ 0 < d.nz) :
    Transform ℝ (dft3 d (fun m => omegaC d.nx ^ m) (fun m => omegaC d.ny ^ m) (fun m => omegaC d.nz ^ m))
      (idft3 d (fun m => omegaC d.nx ^ m) (fun m => omegaC d.ny ^ m) (fun m => omegaC d.nz ^ m) (d.nx : ℂ)⁻¹ (d.ny : ℂ)⁻¹ (d.nz : ℂ)⁻¹)
      reC :=
  dft3_transform_complex d hd

/-- e.g. with the exact complex DFT: high-pass = `Re x −` low-pass, for every box, kernel and cutoff -/
theorem highpass_complement_complex (d : Dims) (hd : 0 < d.nx ∧ 0 < d.ny ∧ 0 < d.nz) (ker : Option (List (Int × ℝ))) (r : Int)
    (x : Idx → ℂ) (i : Idx) :
    highpass (dft3 d (fun m => omegaC d.nx ^ m) (fun m => omegaC d.ny ^ m) (fun m => omegaC d.nz ^ m))
        (idft3 d (fun m => omegaC d.nx ^ m) (fun m => omegaC d.ny ^ m) (fun m => omegaC d.nz ^ m) (d.nx : ℂ)⁻¹ (d.ny : ℂ)⁻¹ (d.nz : ℂ)⁻¹)
        reC ker d r x i
      = reC (x i) - lowpass (dft3 d (fun m => omegaC d.nx ^ m) (fun m => omegaC d.ny ^ m) (fun m => omegaC d.nz ^ m))
        (idft3 d (fun m => omegaC d.nx ^ m) (fun m => omegaC d.ny ^ m) (fun m => omegaC d.nz ^ m) (d.nx : ℂ)⁻¹ (d.ny : ℂ)⁻¹ (d.nz : ℂ)⁻¹)
        reC ker d r x i :=
  highpass_complement (dft_is_transform_complex d hd) ker d r x i

/-! ### the shift theorem and the Hermitian symmetry of the model's own DFT — the remaining hypotheses discharged -/
section dftsym
variable {R C : Type} [Field R] [Field C] [Algebra R C]

/-- **shift theorem, 1-D**: over every field with a primitive `n`-th root of unity `ω`, the transform of the sequence
rolled by any `s ∈ ℤ` (`roll1`: index `(i + s) mod n` on the axis range) is `ω^{-sk}` times the transform (`phase1`) -/
theorem dft1_shift_theorem (n : Nat) (ω : C) (h : Root n ω) (s : Int) (x : Int → C) (k : Int) :
    dft1 n (fun m => ω ^ m) (fun i => x (roll1 n s i)) k = phase1 n ω s k * dft1 n (fun m => ω ^ m) x k :=
  dft1_roll h s x k

/-- **Hermitian symmetry, 1-D**: for a ring homomorphism `conj` with `conj ω = ω⁻¹` (complex conjugation) and a
`conj`-fixed (real) sequence, `X_{-k} = conj X_k` (`negBox1 n k = (-k) mod n` on the axis range) -/
theorem dft1_hermitian_symmetry (n : Nat) (ω : C) (h : Root n ω) (conj : C →+* C) (hω : conj ω = ω⁻¹)
    (x : Int → C) (hx : ∀ u, conj (x u) = x u) (k : Int) :
    dft1 n (fun m => ω ^ m) x (negBox1 n k) = conj (dft1 n (fun m => ω ^ m) x k) :=
  dft1_hermitian conj h hω x hx k

/-- **shift theorem, 3-D** (lifted through `alongX/Y/Z`): `fftn(roll(x, -s)) = phase ⊙ fftn(x)` -/
theorem dft3_shift_theorem (d : Dims) (ωx ωy ωz : C) (hx : Root d.nx ωx) (hy : Root d.ny ωy) (hz : Root d.nz ωz)
    (s : Idx) (x : Idx → C) (k : Idx) :
    dft3 d (fun m => ωx ^ m) (fun m => ωy ^ m) (fun m => ωz ^ m) (fun i => x (rollIdx d s i)) k
      = phase3 d ωx ωy ωz s k * dft3 d (fun m => ωx ^ m) (fun m => ωy ^ m) (fun m => ωz ^ m) x k :=
  dft3_roll hx hy hz s x k

/-- **Hermitian symmetry, 3-D**: the spectrum of a `conj`-fixed (real) volume at bin `-k` is the conjugate of bin `k` -/
theorem dft3_hermitian_symmetry (d : Dims) (ωx ωy ωz : C) (hx : Root d.nx ωx) (hy : Root d.ny ωy) (hz : Root d.nz ωz)
    (conj : C →+* C) (cx : conj ωx = ωx⁻¹) (cy : conj ωy = ωy⁻¹) (cz : conj ωz = ωz⁻¹)
    (x : Idx → C) (hreal : ∀ i, conj (x i) = x i) (k : Idx) :
    dft3 d (fun m => ωx ^ m) (fun m => ωy ^ m) (fun m => ωz ^ m) x (negBoxIdx d k)
      = conj (dft3 d (fun m => ωx ^ m) (fun m => ωy ^ m) (fun m => ωz ^ m) x k) :=
  dft3_hermitian conj hx hy hz cx cy cz x hreal k

/-- `roll` is a bijection of the index set (inverse: the opposite roll), `-k` an involution -/
theorem roll_neg_invol (d : Dims) (s i k : Idx) :
    rollIdx d (-s.1, -s.2.1, -s.2.2) (rollIdx d s i) = i ∧ negBoxIdx d (negBoxIdx d k) = k :=
  ⟨rollIdx_rollIdx_neg d s i, negBoxIdx_invol d k⟩

/-- **`filt_shift` with its hypothesis discharged**: with the model's DFT pair over any field with the needed roots of
unity, every multiplier filter commutes with every circular shift — no assumption on the transform left -/
theorem filt_shift_dft (d : Dims) (ωx ωy ωz : C) (hx : Root d.nx ωx) (hy : Root d.ny ωy) (hz : Root d.nz ωz)
    (re : C → C) (hre : RealPart R re) (g : Idx → R) (s : Idx) (x : Idx → C) :
    filt (dft3 d (fun m => ωx ^ m) (fun m => ωy ^ m) (fun m => ωz ^ m))
        (idft3 d (fun m => ωx ^ m) (fun m => ωy ^ m) (fun m => ωz ^ m) (d.nx : C)⁻¹ (d.ny : C)⁻¹ (d.nz : C)⁻¹) re g
        (fun i => x (rollIdx d s i))
      = fun i => filt (dft3 d (fun m => ωx ^ m) (fun m => ωy ^ m) (fun m => ωz ^ m))
        (idft3 d (fun m => ωx ^ m) (fun m => ωy ^ m) (fun m => ωz ^ m) (d.nx : C)⁻¹ (d.ny : C)⁻¹ (d.nz : C)⁻¹) re g x
        (rollIdx d s i) :=
  filt_shift (dft_is_transform d ωx ωy ωz hx hy hz re hre) g (rollIdx d s) (fun k c => phase3 d ωx ωy ωz s k * c)
    (fun _ a c => mul_smul_comm a _ c) (fun x => funext fun k => dft3_roll hx hy hz s x k) x

end dftsym

/-! ### … over ℂ: `dftC d` / `idftC d` are `dft3 / idft3` with numpy's twiddles `exp(-2πi/n)` (`Lemmas/C12_DftComplexSym`),
`reC` is `np.real`. Every operator theorem, with NO Transform / shift / Hermitian hypothesis left. -/

/-- `dftC / idftC` ARE `dft3 / idft3` with the twiddles `omegaC n ^ m` (definitional: `rfl`; an anchor that ties the corollaries
`*_complex` to the polymorphic transform the driver instantiates at `Cx Float`, not a clause of the statement) -/
theorem dftC_is_dft3 (d : Dims) :
    dftC d = dft3 d (fun m => omegaC d.nx ^ m) (fun m => omegaC d.ny ^ m) (fun m => omegaC d.nz ^ m) ∧
    idftC d = idft3 d (fun m => omegaC d.nx ^ m) (fun m => omegaC d.ny ^ m) (fun m => omegaC d.nz ^ m) (d.nx : ℂ)⁻¹ (d.ny : ℂ)⁻¹ (d.nz : ℂ)⁻¹ :=
  ⟨rfl, rfl⟩

/-- numpy's shift theorem: `fftn(roll(x, -s))[k] = exp(2πi Σ s_a k_a / n_a) · fftn(x)[k]` -/
theorem dft_shift_theorem_complex (d : Dims) (hd : 0 < d.nx ∧ 0 < d.ny ∧ 0 < d.nz) (s : Idx) (x : Idx → ℂ) (k : Idx) :
    dftC d (fun i => x (rollIdx d s i)) k = phaseC d s k * dftC d x k := dftC_roll d hd s x k

/-- a real map has a Hermitian spectrum -/
theorem dft_hermitian_complex (d : Dims) (hd : 0 < d.nx ∧ 0 < d.ny ∧ 0 < d.nz) (x : Idx → ℂ) (hx : ∀ i, (x i).im = 0) (k : Idx) :
    dftC d x (negBoxIdx d k) = (starRingEnd ℂ) (dftC d x k) := dftC_hermitian d hd x hx k

/-- `np.real(ifftn(Y)) = ifftn(Hermitian part of Y)` -/
theorem idft_real_part_complex (d : Dims) (hd : 0 < d.nx ∧ 0 < d.ny ∧ 0 < d.nz) (y : Idx → ℂ) (i : Idx) :
    reC (idftC d y i) = idftC d (fun k => (1 / 2 : ℝ) • (y k + (starRingEnd ℂ) (y (negBoxIdx d k)))) i := idftC_re d hd y i

theorem filt_add_complex (d : Dims) (hd : 0 < d.nx ∧ 0 < d.ny ∧ 0 < d.nz) (g : Idx → ℝ) (x y : Idx → ℂ) :
    filt (dftC d) (idftC d) reC g (x + y) = filt (dftC d) (idftC d) reC g x + filt (dftC d) (idftC d) reC g y :=
  filt_add (dftC_transform d hd) g x y

theorem filt_smul_complex (d : Dims) (hd : 0 < d.nx ∧ 0 < d.ny ∧ 0 < d.nz) (g : Idx → ℝ) (a : ℝ) (x : Idx → ℂ) :
    filt (dftC d) (idftC d) reC g (a • x) = a • filt (dftC d) (idftC d) reC g x :=
  filt_smul (dftC_transform d hd) g a x

/-- real-valued: the imaginary part of every output voxel is 0 — for ANY `F`, `Finv` in place of `dftC d`, `idftC d`, because `reC`
(`np.real`) is applied last; nothing about the transform is used -/
theorem filt_real_complex (d : Dims) (g : Idx → ℝ) (x : Idx → ℂ) (i : Idx) :
    (filt (dftC d) (idftC d) reC g x i).im = 0 := by
  simp [filt, reC]

theorem filt_spectrum_complex (d : Dims) (hd : 0 < d.nx ∧ 0 < d.ny ∧ 0 < d.nz) (g : Idx → ℝ) (x : Idx → ℂ) (k : Idx) :
    dftC d (idftC d (fun k => g k • dftC d x k)) k = g k • dftC d x k :=
  filt_spectrum (dftC_transform d hd) g x k

/-- **commutes with circular shifts** — every gain, every box, every shift; nothing assumed -/
theorem filt_shift_complex (d : Dims) (hd : 0 < d.nx ∧ 0 < d.ny ∧ 0 < d.nz) (g : Idx → ℝ) (s : Idx) (x : Idx → ℂ) :
    filt (dftC d) (idftC d) reC g (fun i => x (rollIdx d s i)) = fun i => filt (dftC d) (idftC d) reC g x (rollIdx d s i) :=
  filt_shift_dft d _ _ _ (omegaC_root _ hd.1) (omegaC_root _ hd.2.1) (omegaC_root _ hd.2.2) reC reC_realPart g s x

/-- **even gain, real map: `np.real` drops nothing**, the output spectrum is gain × input spectrum -/
theorem filt_even_gain_complex (d : Dims) (hd : 0 < d.nx ∧ 0 < d.ny ∧ 0 < d.nz) (g : Idx → ℝ)
    (hg : ∀ k, g (negBoxIdx d k) = g k) (x : Idx → ℂ) (hx : ∀ i, (x i).im = 0) :
    filt (dftC d) (idftC d) reC g x = idftC d (fun k => g k • dftC d x k)
    ∧ ∀ k, dftC d (filt (dftC d) (idftC d) reC g x) k = g k • dftC d x k :=
  filt_even_gain (dftC_transform d hd) (starRingEnd ℂ) (negBoxIdx d) conj_real_smul
    (fun y hy i => idftC_real_of_hermitian d hd y hy i) g hg x (dftC_hermitian d hd x hx)

/-- **any real gain, real map: the filter acts with the even part of the gain** (what the harness measures) -/
theorem filt_effective_gain_complex (d : Dims) (hd : 0 < d.nx ∧ 0 < d.ny ∧ 0 < d.nz) (g : Idx → ℝ)
    (x : Idx → ℂ) (hx : ∀ i, (x i).im = 0) :
    filt (dftC d) (idftC d) reC g x = idftC d (fun k => ((g k + g (negBoxIdx d k)) / 2) • dftC d x k)
    ∧ ∀ k, dftC d (filt (dftC d) (idftC d) reC g x) k = ((g k + g (negBoxIdx d k)) / 2) • dftC d x k :=
  filt_effective_gain (dftC_transform d hd) two_ne_zero (starRingEnd ℂ) (negBoxIdx d) conj_real_smul Complex.conj_conj
    (fun y i => idftC_re d hd y i) g x (dftC_hermitian d hd x hx)

theorem filt_complement_complex (d : Dims) (hd : 0 < d.nx ∧ 0 < d.ny ∧ 0 < d.nz) (g : Idx → ℝ) (x : Idx → ℂ) (i : Idx) :
    filt (dftC d) (idftC d) reC (fun k => 1 - g k) x i = reC (x i) - filt (dftC d) (idftC d) reC g x i :=
  filt_complement (dftC_transform d hd) g x i

theorem filt_difference_complex (d : Dims) (hd : 0 < d.nx ∧ 0 < d.ny ∧ 0 < d.nz) (g1 g2 : Idx → ℝ) (x : Idx → ℂ) (i : Idx) :
    filt (dftC d) (idftC d) reC (fun k => g1 k - g2 k) x i
      = filt (dftC d) (idftC d) reC g1 x i - filt (dftC d) (idftC d) reC g2 x i :=
  filt_difference (dftC_transform d hd) g1 g2 x i

theorem bandpass_difference_complex (d : Dims) (hd : 0 < d.nx ∧ 0 < d.ny ∧ 0 < d.nz) (kl kh : Option (List (Int × ℝ))) (lp hp : Int)
    (x : Idx → ℂ) (i : Idx) :
    bandpass (dftC d) (idftC d) reC kl kh d lp hp x i
      = lowpass (dftC d) (idftC d) reC kl d lp x i - lowpass (dftC d) (idftC d) reC kh d hp x i :=
  bandpass_difference (dftC_transform d hd) kl kh d lp hp x i

/-! #### the three cryoCAT filters over ℂ -/

/-- **low-, high- and band-pass commute with `np.roll`** (every kernel, cutoff, box and shift) -/
theorem filters_shift_complex (d : Dims) (hd : 0 < d.nx ∧ 0 < d.ny ∧ 0 < d.nz) (kl kh : Option (List (Int × ℝ))) (lp hp : Int)
    (s : Idx) (x : Idx → ℂ) :
    lowpass (dftC d) (idftC d) reC kl d lp (fun i => x (rollIdx d s i))
        = (fun i => lowpass (dftC d) (idftC d) reC kl d lp x (rollIdx d s i)) ∧
    highpass (dftC d) (idftC d) reC kl d lp (fun i => x (rollIdx d s i))
        = (fun i => highpass (dftC d) (idftC d) reC kl d lp x (rollIdx d s i)) ∧
    bandpass (dftC d) (idftC d) reC kl kh d lp hp (fun i => x (rollIdx d s i))
        = (fun i => bandpass (dftC d) (idftC d) reC kl kh d lp hp x (rollIdx d s i)) :=
  ⟨filt_shift_complex d hd _ s x, filt_shift_complex d hd _ s x, filt_shift_complex d hd _ s x⟩

/-- opposite bins have the same integer frequency radius, also with `-k` taken on the box only -/
theorem freqRadius2_negBox (d : Dims) (hd : 0 < d.nx ∧ 0 < d.ny ∧ 0 < d.nz) (k : Idx) :
    freqRadius2 d (negBoxIdx d k).1 (negBoxIdx d k).2.1 (negBoxIdx d k).2.2 = freqRadius2 d k.1 k.2.1 k.2.2 := by
  have h1 : ∀ (n : Nat), 0 < n → ∀ j : Int, freq n (negBox1 n j) * freq n (negBox1 n j) = freq n j * freq n j := by
    intro n hn j
    unfold negBox1
    split_ifs
    · exact freq_neg_sq n hn j
    · rfl
  obtain ⟨a, b, c⟩ := k
  simp only [freqRadius2, negBoxIdx]
  rw [h1 _ hd.1, h1 _ hd.2.1, h1 _ hd.2.2]

/-- **the hard low-pass of a real map, end to end**: Fourier component `k` of the output is the input's component
times exactly 1 (integer frequency radius² ≤ cutoff²) or 0 — `np.real` included, nothing assumed about the transform -/
theorem hard_lowpass_spectrum_complex (d : Dims) (hd : 0 < d.nx ∧ 0 < d.ny ∧ 0 < d.nz) (r : Int) (hr : 0 ≤ r)
    (x : Idx → ℂ) (hx : ∀ i, (x i).im = 0) (k : Idx) :
    dftC d (lowpass (dftC d) (idftC d) reC (none : Option (List (Int × ℝ))) d r x) k
      = (if freqRadius2 d k.1 k.2.1 k.2.2 ≤ r * r then (1 : ℝ) else 0) • dftC d x k := by
  have hg : ∀ k : Idx, atIdx (lowGainFn (none : Option (List (Int × ℝ))) d r) (negBoxIdx d k)
      = atIdx (lowGainFn (none : Option (List (Int × ℝ))) d r) k := by
    intro k
    simp only [atIdx]
    rw [hard_gain d r hr, hard_gain d r hr, freqRadius2_negBox d hd]
  have := (filt_even_gain_complex d hd _ hg x hx).2 k
  unfold lowpass
  rw [this]
  simp only [atIdx]
  rw [hard_gain d r hr]

/-- **every filter of a real map, end to end**: on the box, Fourier component `k` of the output is the input's
component times the model's effective gain `effGain` (the array the driver materialises and the harness compares
with the gain it measures on the real code) -/
theorem filter_effective_gain_complex (d : Dims) (hd : 0 < d.nx ∧ 0 < d.ny ∧ 0 < d.nz) (g : Vol ℝ)
    (x : Idx → ℂ) (hx : ∀ i, (x i).im = 0) (k : Idx) (hk : InBoxI d k) :
    dftC d (filt (dftC d) (idftC d) reC (atIdx g) x) k = atIdx (effGain d g) k • dftC d x k := by
  rw [(filt_effective_gain_complex d hd (atIdx g) x hx).2 k]
  obtain ⟨a, b, c⟩ := k
  obtain ⟨h1, h2, h3⟩ := hk
  simp only [atIdx, effGain, negBoxIdx, negBox1]
  rw [if_pos h1, if_pos h2, if_pos h3]

/-- … in particular for the three cryoCAT filters with their own gains -/
theorem filters_effective_gain_complex (d : Dims) (hd : 0 < d.nx ∧ 0 < d.ny ∧ 0 < d.nz) (kl kh : Option (List (Int × ℝ))) (lp hp : Int)
    (x : Idx → ℂ) (hx : ∀ i, (x i).im = 0) (k : Idx) (hk : InBoxI d k) :
    dftC d (lowpass (dftC d) (idftC d) reC kl d lp x) k = atIdx (effGain d (lowGainFn kl d lp)) k • dftC d x k ∧
    dftC d (highpass (dftC d) (idftC d) reC kl d lp x) k = atIdx (effGain d (highGainFn kl d lp)) k • dftC d x k ∧
    dftC d (bandpass (dftC d) (idftC d) reC kl kh d lp hp x) k = atIdx (effGain d (bandGainFn kl kh d lp hp)) k • dftC d x k :=
  ⟨filter_effective_gain_complex d hd _ x hx k hk, filter_effective_gain_complex d hd _ x hx k hk,
    filter_effective_gain_complex d hd _ x hx k hk⟩

/-! ### the executed filter arrays are these operators -/
section filtergrid
variable {α C : Type} [Add α] [Mul α] [Sub α] [OfNat α 0] [OfNat α 1] [SMul α C] [Add C] [Mul C] [OfNat C 0]

/-- the driver's `filter` op, low-pass: the array it returns holds `lowpass (dft3 …) (idft3 …) re` of the
input array, voxel by voxel on the box (any number types: `Float`/`Cx Float` in the driver) -/
theorem lowpass_grid (d : Dims) (twx twy twz : Nat → C) (ix iy iz : C) (re : C → C) (ker : Option (List (Int × α))) (r : Int)
    (x : Grid C) (i : Idx) (hi : InBoxI d i) :
    atIdx (filtGrid d twx twy twz ix iy iz re (atIdx (gainGrid d (lowMaskGrid ker d r)).get) x).get i
      = lowpass (dft3 d twx twy twz) (idft3 d twx twy twz ix iy iz) re ker d r (atIdx x.get) i :=
  filtGrid_mask d twx twy twz ix iy iz re _ _ (fun a b c h => lowMaskGrid_get ker d r a b c h) x i hi

theorem highpass_grid (d : Dims) (twx twy twz : Nat → C) (ix iy iz : C) (re : C → C) (ker : Option (List (Int × α))) (r : Int)
    (x : Grid C) (i : Idx) (hi : InBoxI d i) :
    atIdx (filtGrid d twx twy twz ix iy iz re (atIdx (gainGrid d (highMaskGrid ker d r)).get) x).get i
      = highpass (dft3 d twx twy twz) (idft3 d twx twy twz ix iy iz) re ker d r (atIdx x.get) i :=
  filtGrid_mask d twx twy twz ix iy iz re _ _ (fun a b c h => highMaskGrid_get ker d r a b c h) x i hi

theorem bandpass_grid (d : Dims) (twx twy twz : Nat → C) (ix iy iz : C) (re : C → C) (kl kh : Option (List (Int × α))) (lp hp : Int)
    (x : Grid C) (i : Idx) (hi : InBoxI d i) :
    atIdx (filtGrid d twx twy twz ix iy iz re (atIdx (gainGrid d (bandMaskGrid kl kh d lp hp)).get) x).get i
      = bandpass (dft3 d twx twy twz) (idft3 d twx twy twz ix iy iz) re kl kh d lp hp (atIdx x.get) i :=
  filtGrid_mask d twx twy twz ix iy iz re _ _ (fun a b c h => bandMaskGrid_get kl kh d lp hp a b c h) x i hi

omit [Add α] [Mul α] [Sub α] [OfNat α 0] [OfNat α 1] in
/-- the driver's `filter` op with the key `roll`: the pipeline run on the rolled array `rollGrid d s x` is the filter
operator applied to the re-indexed input `x ∘ rollIdx d s` (any number types) -/
theorem filter_grid_roll (d : Dims) (twx twy twz : Nat → C) (ix iy iz : C) (re : C → C) (gain : Idx → α) (s : Idx)
    (x : Grid C) (i : Idx) (hi : InBoxI d i) :
    atIdx (filtGrid d twx twy twz ix iy iz re gain (rollGrid d s x)).get i
      = filt (dft3 d twx twy twz) (idft3 d twx twy twz ix iy iz) re gain (fun i => atIdx x.get (rollIdx d s i)) i :=
  filtGrid_roll d twx twy twz ix iy iz re gain s x i hi
end filtergrid

/-- … and in exact complex arithmetic that is the ROLLED output of the pipeline on the unrolled array: what the driver
returns as `out_roll` is `out` re-indexed with `rollIdx` (the harness compares it with the real code's output on
`np.roll(x, -s)`, tying `rollIdx` — the shift the theorems speak about — to `np.roll`) -/
theorem filter_grid_roll_complex (d : Dims) (hd : 0 < d.nx ∧ 0 < d.ny ∧ 0 < d.nz) (gain : Idx → ℝ) (s : Idx)
    (x : Grid ℂ) (i : Idx) (hi : InBoxI d i) :
    atIdx (filtGrid d (fun m => omegaC d.nx ^ m) (fun m => omegaC d.ny ^ m) (fun m => omegaC d.nz ^ m)
        (d.nx : ℂ)⁻¹ (d.ny : ℂ)⁻¹ (d.nz : ℂ)⁻¹ reC gain (rollGrid d s x)).get i
      = filt (dftC d) (idftC d) reC gain (atIdx x.get) (rollIdx d s i) := by
  rw [filtGrid_roll d _ _ _ _ _ _ reC gain s x i hi]
  exact congrFun (filt_shift_complex d hd gain s (atIdx x.get)) i

/-! ### cutoff from a target resolution -/

/-- `roundRat` (the rounding the model applies to the exact value of `box·px/res`) is round-to-nearest,
ties to even — Python's `round` — and is the only such function -/
theorem roundRat_nearest_even (q : Rat) :
    |q - (roundRat q : Rat)| ≤ 1 / 2 ∧ (|q - (roundRat q : Rat)| = 1 / 2 → roundRat q % 2 = 0) ∧
    ∀ v : Int, |q - (v : Rat)| ≤ 1 / 2 → (|q - (v : Rat)| = 1 / 2 → v % 2 = 0) → v = roundRat q :=
  ⟨(roundRat_spec q).1, (roundRat_spec q).2, fun v h1 h2 => roundRat_unique q v h1 h2⟩

/-- **a target resolution maps to round(box·pixel_size/resolution) Fourier pixels** — a definitional unfolding of `res2pix` (anchor of
the wording); its content is `roundRat_nearest_even` (which rounding), `resolution_expressions_documented` (the source computes this
expression) and the exact comparison of `resolution2pixels` with the driver's `pyRound` on the decoded double -/
theorem res2pix_round (box px res : Rat) : res2pix roundRat box px res = roundRat (box * px / res) := rfl

/-- given Fourier pixels are used as they are (also when a resolution is given too) -/
theorem filter_radius_pixels {α : Type} [Mul α] [Div α] (rnd : α → Int) (edge : α) (p : Int) (res px : Option α) :
    getFilterRadius rnd edge (some p) res px = some p := rfl

/-- a resolution with its pixel size gives `round(edge·px/res)` -/
theorem filter_radius_resolution {α : Type} [Mul α] [Div α] (rnd : α → Int) (edge res px : α) :
    getFilterRadius rnd edge none (some res) (some px) = some (rnd (edge * px / res)) := rfl

/-- neither: rejected (`ValueError`) -/
theorem filter_radius_rejects {α : Type} [Mul α] [Div α] (rnd : α → Int) (edge : α) (res px : Option α)
    (h : res = none ∨ px = none) : getFilterRadius rnd edge none res px = none := by
  rcases h with rfl | rfl
  · cases px <;> rfl
  · cases res <;> rfl

/-! ### non-vacuity: the hypotheses above are satisfiable by non-trivial inputs -/

/-- a valid kernel of support 1 over ℚ -/
example : ValidKernel 1 ([(-1, 1/4), (0, 1/2), (1, 1/4)] : List (Int × Rat)) :=
  ⟨by intro p hp; simp at hp; rcases hp with rfl | rfl | rfl <;> norm_num,
   by norm_num [ksum],
   by intro p hp; simp at hp; rcases hp with rfl | rfl | rfl <;> simp⟩

/-- the same kernel is symmetric and unimodal (hypothesis of `soft_gain_mono_axis_*`) -/
example : UnimodalKernel ([(-1, 1/4), (0, 1/2), (1, 1/4)] : List (Int × Rat)) := by
  refine ⟨?_, by norm_num [ksum], ?_⟩
  · intro p hp; simp at hp; rcases hp with rfl | rfl | rfl <;> norm_num
  · intro a b hab
    simp only [wt, wsum]
    have ha : a = 0 ∨ a = 1 ∨ a = -1 ∨ 2 ≤ a ∨ a ≤ -2 := by omega
    have hb : b = 0 ∨ b = 1 ∨ b = -1 ∨ 2 ≤ b ∨ b ≤ -2 := by omega
    rcases ha with rfl | rfl | rfl | ha | ha <;> rcases hb with rfl | rfl | rfl | hb | hb <;>
      first
      | (exfalso; nlinarith)
      | (split_ifs <;> first | contradiction | omega | norm_num)
/-- `soft_gain_inside` hypotheses: cutoff 6, bin radius² = 5, reach² = 12 (√5 + √12 ≈ 5.70 ≤ 6): 5 + 12 ≤ 36 and 4·5·12 = 240 ≤ 19² -/
example : fitsInside (freqRadius2 ⟨16, 16, 16⟩ 2 1 0) 12 6 = true ∧ fitsInside (freqRadius2 ⟨16, 16, 16⟩ 2 1 0) 15 6 = false := by decide
/-- `soft_gain_outside` hypotheses: cutoff 3, bin (−7,0,0): radius² = 49, reach² = 15 (3 + √15 ≈ 6.87 < 7) -/
example : fitsOutside (freqRadius2 ⟨16, 16, 16⟩ 9 0 0) 15 3 = true ∧ fitsOutside (freqRadius2 ⟨16, 16, 16⟩ 9 0 0) 16 3 = false := by decide
/-- the tail of the kernel (1/4,1/2,1/4)³ beyond squared length 1 is 1/2, beyond 2 it is the 8 corners = 1/8, beyond 3 nothing -/
example : tail3 ([(-1, 1/4), (0, 1/2), (1, 1/4)] : List (Int × Rat)) 1 = 1/2
    ∧ tail3 ([(-1, 1/4), (0, 1/2), (1, 1/4)] : List (Int × Rat)) 2 = 1/8
    ∧ tail3 ([(-1, 1/4), (0, 1/2), (1, 1/4)] : List (Int × Rat)) 3 = 0 := by decide +kernel
/-- `soft_gain_mono_axis_x` hypotheses: box 16, cutoff 5: 8 + 5 + 1 < 16 and 5 < 8; bins 2 → 3 go up in frequency, 14 → 13 down -/
example : centre 16 + 5 + 1 < (16 : Int) ∧ (5 : Int) < centre 16 ∧ freq 16 3 = freq 16 2 + 1 ∧ 0 ≤ freq 16 2
    ∧ freq 16 13 = freq 16 14 - 1 ∧ freq 16 14 ≤ 0 := by decide
/-- `Root`: −1 is a primitive 2nd root of unity in ℚ, so `dft_is_transform` is not vacuous even over ℚ (boxes 2×2×2, 1×2×1 …) -/
-- hypotheses of `soft_gain_mono_step` / `soft_eff_gain_mono_step` / `soft_edge_monotone_rays_partial`: box 16³, cutoff 5 keeps the ball off
-- both faces (8+5+1 < 16, 5 < 8); bin 2 ↦ 3 moves away from frequency 0, bin 14 ↦ 13 is its mirror (−2 ↦ −3); cutoff 7 touches the upper face
example : monoAxisOk 16 5 = true ∧ monoAxisOk 16 7 = false ∧ monoAxisOk 8 12 = false := by decide
example : EffStep 16 5 2 3 ∧ AwayStep 16 5 14 13 ∧ EffStep 16 5 4 4 := by
  refine ⟨Or.inr ⟨by decide, by decide, Or.inl ⟨by decide, by decide⟩⟩, Or.inr ⟨by decide, Or.inr ⟨by decide, by decide⟩⟩, Or.inl rfl⟩
-- a Nyquist landing that is an `AwayStep` but not an `EffStep`: axis 16, cutoff 5, bins 9 (frequency −7) → 8 (frequency −8)
example : AwayStep 16 5 9 8 ∧ ¬ EffStep 16 5 9 8 ∧ freq 16 8 = -centre 16 ∧ freq 16 9 = -centre 16 + 1 := by
  refine ⟨?_, ?_, by decide, by decide⟩ <;> simp [AwayStep, EffStep] <;> decide
example : ((1 : Int) = 1 ∨ (1 : Int) = -1) ∧ monoAxisOk 16 5 = true ∧ (6 : Int) + 1 < (16 : Int) - centre 16 := by decide
-- hypotheses of `soft_eff_gain_step_bound`: `AnyAwayStep` needs no face condition — axis 8, bins 3 ↦ 4 (landing on the Nyquist bin −4 from … no:
-- bin 3 has frequency 3, bin 4 frequency −4), so the steps are 2 ↦ 3 (up), 5 ↦ 4 (−3 ↦ −4, the Nyquist landing), 6 ↦ 6 (stays)
example : AnyAwayStep 8 2 3 ∧ AnyAwayStep 8 5 4 ∧ AnyAwayStep 8 6 6 ∧ monoAxisOk 8 4 = false := by
  refine ⟨Or.inr (Or.inl ⟨by decide, by decide⟩), Or.inr (Or.inr ⟨by decide, by decide⟩), Or.inl rfl, by decide⟩
-- hypotheses of `face_rise_zero` / `face_rise_zero_short_kernel`: axis 9 is odd; axis 16 with cutoff 5 is off the face; support 1 < 8/2
example : (9 : Nat) % 2 = 1 ∧ centre 16 + 5 + 1 < (16 : Int) ∧ ((1 : Nat) : Int) < centre 8 := by decide
-- hypotheses of `soft_edge_rays_bound`: box 8, ray direction −1, m = 3: the step −3 ↦ −4 lands on the Nyquist bin (3 + 1 ≤ ⌊8/2⌋)
example : ((-1 : Int) = -1 ∧ (3 : Int) + 1 ≤ centre 8) ∧ ((1 : Int) = 1 ∧ (2 : Int) + 1 < (8 : Int) - centre 8) := by decide
example : Root 2 (-1 : Rat) := ⟨IsPrimitiveRoot.neg_one 0 (by decide), by decide, by norm_num⟩
/-- the 2-point DFT of (x₀,x₁) is (x₀+x₁, x₀−x₁), outside 0…1 nothing moves -/
example : dft1 2 (fun m => (-1 : Rat) ^ m) (fun u => if u = 0 then 3 else if u = 1 then 5 else 7) 1 = -2
    ∧ dft1 2 (fun m => (-1 : Rat) ^ m) (fun u => if u = 0 then 3 else if u = 1 then 5 else 7) 0 = 8
    ∧ dft1 2 (fun m => (-1 : Rat) ^ m) (fun u => if u = 0 then 3 else if u = 1 then 5 else 7) 2 = 7 := by decide +kernel
/-- `soft_gain_one` hypotheses: box 16³, cutoff 6, t = 1, s = 2 (3·1 ≤ 4), bin (2,1,0): radius² = 5 ≤ 3² -/
-- the new index maps, the shift theorem and the Hermitian symmetry on concrete inputs (n = 2, ω = −1, conj = id on ℚ)
example : roll1 5 2 4 = 1 ∧ roll1 5 (-7) 0 = 3 ∧ roll1 5 2 9 = 9 ∧ negBox1 5 2 = 3 ∧ negBox1 6 3 = 3 ∧ negBox1 5 0 = 0 ∧ negBox1 5 (-2) = -2 := by decide
example : rollIdx ⟨4, 5, 6⟩ (1, -1, 7) (3, 0, 2) = (0, 4, 3) ∧ negBoxIdx ⟨4, 5, 6⟩ (1, 0, 2) = (3, 0, 4) := by decide
example : (RingHom.id Rat) (-1 : Rat) = (-1 : Rat)⁻¹ ∧ ∀ u : Int, (RingHom.id Rat) ((fun u => if u = 0 then (3 : Rat) else 5) u) = (fun u => if u = 0 then (3 : Rat) else 5) u :=
  ⟨by norm_num, fun _ => rfl⟩
example : dft1 2 (fun m => (-1 : Rat) ^ m) (fun i => (fun u : Int => if u = 0 then (3 : Rat) else if u = 1 then 5 else 7) (roll1 2 1 i)) 1 = 2
    ∧ phase1 2 (-1 : Rat) 1 1 = -1 := by
  constructor
  · simp [dft1, sumN, roll1]; norm_num
  · simp [phase1]
example : (∀ i : Idx, ((fun _ => (3 : ℂ)) i).im = 0) ∧ InBoxI ⟨4, 5, 6⟩ (3, 0, 2) := by
  refine ⟨fun _ => by simp, ?_⟩
  simp [InBoxI, InBox]
example : ∀ k : Idx, (fun _ : Idx => (1 / 2 : ℝ)) (negBoxIdx ⟨4, 5, 6⟩ k) = (fun _ : Idx => (1 / 2 : ℝ)) k := fun _ => rfl
example : freqRadius2 ⟨16, 16, 16⟩ 2 1 0 ≤ 3 * 3 ∧ 3 * ((1 : Int) * 1) ≤ 2 * 2 ∧ (3 : Int) + 2 ≤ 6 := by decide
/-- `soft_gain_zero` hypotheses: same box, cutoff 3, bin (−7,0,0) = DFT index 9: radius² = 49 ≥ 6², 3 + 2 < 6 -/
example : (6 : Int) * 6 ≤ freqRadius2 ⟨16, 16, 16⟩ 9 0 0 ∧ (3 : Int) + 2 < 6 := by decide
/-- hard gain on a non-cubic odd/even box: bin (9,0,12) of 10×9×13 has frequency (−1,0,−1) -/
example : freq 10 9 = -1 ∧ freq 9 0 = 0 ∧ freq 13 12 = -1 ∧ freq 10 5 = -5 ∧ freq 9 4 = 4 ∧ freq 9 5 = -4 := by decide
example : lowGainFn (none : Option (List (Int × Rat))) ⟨10, 9, 13⟩ 1 9 0 12 = 0
    ∧ lowGainFn (none : Option (List (Int × Rat))) ⟨10, 9, 13⟩ 2 9 0 12 = 1 := by decide
/-- rounding ties go to the even integer: 2.5 ↦ 2, 3.5 ↦ 4, −0.5 ↦ 0, 39.45 ↦ 39 -/
example : roundHalfEven 5 2 = 2 ∧ roundHalfEven 7 2 = 4 ∧ roundHalfEven (-1) 2 = 0 ∧ roundHalfEven 789 20 = 39 := by decide
example : roundRat (5 / 2) = 2 ∧ res2pix roundRat 100 (789 / 100) 20 = 39 := by decide +kernel
/-- the exact value of the double 2.5 = 0x4004000000000000 -/
example : fracOfBits 0x4004000000000000 = some (5629499534213120, 2251799813685248) := by decide

end CryoCat.C12
