import CryoCat.Gen.C19
import CryoCat.Model.Particle
/-! C19 — executable model of `ribana.trace_chains` (with `get_nn_dist`, `add_chain_suffix`,
`add_chain_prefix`). Mathlib-free, polymorphic in the number type `α` of (squared) distances.

One tomogram is a `Cfg`: `n` particles (positions `0..n-1` = row order of the tomogram's subset),
`d i j` = squared distance from the EXIT site of particle `i` to the ENTRY site of particle `j`
(the driver computes it from dyadic coordinates, exactly), thresholds `hi = max_distance²`,
`lo = min_distance²`.  All decisions of the code compare distances with each other or with the two
thresholds; comparing squares is the same decision (all quantities ≥ 0), so no square root occurs
in the model; the value the code records (geom4) is `sqrt` of the value the model records.

The traced table `nfm_df` is a `List (Row α)` in DataFrame row order; every pandas statement
`df.loc[mask, col] = v` / `+= v` is a `List.map` over the rows (`updObj`, `addOrd`, `setDist`).
The bookkeeping arrays `remain_entry`/`remain_exit` are always equal and equal to "not in `nfm_df`
and not in the chain being traced", so they are derived instead of stored. -/
namespace CryoCat.C19
open Gen.C19 (Cmp)

/-- the comparison operators and bookkeeping choices read from the source by the translator -/
structure Opts where
  /-- `true`: `get_nn_dist` applies the lower bound `dist > dist_min` for every `dist_min`, also 0 (the
  repaired code); `false`: only under the guard `dist_min > 0` (the code before the repair, kept as an
  executable regression witness: `Props/C19.min_zero_coincidence_counterexample`) -/
  nnMinAlways : Bool
  nnMinCmp : Cmp
  suffixNotLast : Cmp
  suffixKeep : Cmp
  suffixTailSel : Cmp
  tailByChainOrder : Bool
  prefixNotFirst : Cmp
  prefixFirstOrder : Int
  prefixKeep : Cmp
  prefixHeadSel : Cmp
  resolveSingle : Cmp
  resolveSameChain : Cmp
  bothSidesFreshId : Bool
deriving DecidableEq, Repr

/-- what `/repo` says today -/
def Opts.gen : Opts :=
  { nnMinAlways := Gen.C19.nnMinAlways, nnMinCmp := Gen.C19.nnMinCmp,
    suffixNotLast := Gen.C19.suffixNotLast, suffixKeep := Gen.C19.suffixKeep,
    suffixTailSel := Gen.C19.suffixTailSel, tailByChainOrder := Gen.C19.tailByChainOrder,
    prefixNotFirst := Gen.C19.prefixNotFirst, prefixFirstOrder := Gen.C19.prefixFirstOrder,
    prefixKeep := Gen.C19.prefixKeep, prefixHeadSel := Gen.C19.prefixHeadSel,
    resolveSingle := Gen.C19.resolveSingle, resolveSameChain := Gen.C19.resolveSameChain,
    bothSidesFreshId := Gen.C19.bothSidesFreshId }

/-- the documented behaviour (written by hand; `Props/C19` proves `Opts.gen = Opts.documented`) -/
def Opts.documented : Opts :=
  { nnMinAlways := true, nnMinCmp := .gt, suffixNotLast := .ne, suffixKeep := .le, suffixTailSel := .gt,
    tailByChainOrder := true, prefixNotFirst := .ne, prefixFirstOrder := 1, prefixKeep := .le,
    prefixHeadSel := .lt, resolveSingle := .le, resolveSameChain := .le, bothSidesFreshId := true }

section
variable {α : Type} [LE α] [LT α] [DecidableLE α] [DecidableLT α] [DecidableEq α]

def Cmp.eval (c : Cmp) (a b : α) : Bool :=
  match c with
  | .lt => decide (a < b) | .le => decide (a ≤ b) | .gt => decide (b < a) | .ge => decide (b ≤ a)
  | .eq => decide (a = b) | .ne => !decide (a = b)

structure Cfg (α : Type) where
  n : Nat
  /-- squared distance exit site of `i` → entry site of `j` -/
  d : Nat → Nat → α
  /-- the value the input list carries in the distance column (geom4), squared -/
  g4 : Nat → α
  hi : α
  lo : α
  /-- `min_distance` itself and `0`, for the guard `dist_min > 0` of the code before the repair -/
  minD : α
  zero : α

structure Row (α : Type) where
  idx : Nat
  obj : Int
  ord : Int
  dist : α
deriving DecidableEq, Repr

/-- `get_nn_dist`: the radius query returns `dist ≤ max` (closed ball, library); the lower bound
`dist > dist_min` is applied to every hit (`nnMinAlways`; before the repair only when `dist_min > 0`,
so that with `min_distance = 0` a coinciding site passed at distance 0). -/
def inWin (o : Opts) (c : Cfg α) (x : α) : Bool :=
  decide (x ≤ c.hi) &&
    (if o.nnMinAlways || decide (c.zero < c.minD) then Cmp.eval o.nnMinCmp x c.lo else true)

/-- first element of the candidates sorted by ascending key (ties: lowest index; excluded) -/
def argmin (key : Nat → α) : List Nat → Option (Nat × α)
  | [] => none
  | j :: js =>
    match argmin key js with
    | none => some (j, key j)
    | some (k, dk) => if dk < key j then some (k, dk) else some (j, key j)

/-- nearest ENTRY site `j` (with `ok j`) to the exit site of `i` -/
def nearestEntry (o : Opts) (c : Cfg α) (i : Nat) (ok : Nat → Bool) : Option (Nat × α) :=
  argmin (fun j => c.d i j) ((List.range c.n).filter (fun j => ok j && inWin o c (c.d i j)))

/-- nearest EXIT site `j` (with `ok j`) to the entry site of `i` -/
def nearestExit (o : Opts) (c : Cfg α) (i : Nat) (ok : Nat → Bool) : Option (Nat × α) :=
  argmin (fun j => c.d j i) ((List.range c.n).filter (fun j => ok j && inWin o c (c.d j i)))

/-- the inner `while trace_chain` loop up to the end of the chain: members in chain order with the
value stored in the distance column (the link to the next member; the last keeps its input value) -/
def traceChain (o : Opts) (c : Cfg α) (traced : List Nat) : Nat → Nat → List Nat → List (Nat × α)
  | 0, p, _ => [(p, c.g4 p)]
  | fuel + 1, p, used =>
    match nearestEntry o c p (fun j => !(traced.contains j) && !((p :: used).contains j)) with
    | none => [(p, c.g4 p)]
    | some (j, dj) => (p, dj) :: traceChain o c traced fuel j (p :: used)

def mkChainFrom (cls : Int) : Int → List (Nat × α) → List (Row α)
  | _, [] => []
  | k, (i, x) :: ms => ⟨i, cls, k, x⟩ :: mkChainFrom cls (k + 1) ms

/-- `df.loc[p, obj] = v` -/
def updObj (p : Row α → Bool) (v : Int) (l : List (Row α)) : List (Row α) :=
  l.map (fun r => if p r then { r with obj := v } else r)
/-- `df.loc[p, ord] += v` -/
def addOrd (p : Row α → Bool) (v : Int) (l : List (Row α)) : List (Row α) :=
  l.map (fun r => if p r then { r with ord := r.ord + v } else r)
/-- `df.loc[p, dist] = v` -/
def setDist (p : Row α → Bool) (v : α) (l : List (Row α)) : List (Row α) :=
  l.map (fun r => if p r then { r with dist := v } else r)
/-- `df.loc[p, ord] = np.arange(1, size+1)` — numbering in ROW order (the pre-6cbacb0 tail cut) -/
def renumRows (p : Row α → Bool) : Int → List (Row α) → List (Row α)
  | _, [] => []
  | k, r :: rs => if p r then { r with ord := k } :: renumRows p (k + 1) rs else r :: renumRows p k rs

/-- `chain_df[obj].values[0]` -/
def headObj (ch : List (Row α)) : Int := match ch with | [] => 0 | r :: _ => r.obj
/-- `chain_df[obj] = a; chain_df[ord] += b` -/
def relabelChain (a b : Int) (ch : List (Row α)) : List (Row α) :=
  ch.map (fun r => { r with obj := a, ord := r.ord + b })
/-- `chain_df[obj] = a` -/
def setObjChain (a : Int) (ch : List (Row α)) : List (Row α) := ch.map (fun r => { r with obj := a })

def rowOf (l : List (Row α)) (j : Nat) : Option (Row α) := l.find? (fun r => r.idx == j)
def maxOrd (init : Int) (p : Row α → Bool) (l : List (Row α)) : Int :=
  l.foldl (fun m r => if p r && decide (m < r.ord) then r.ord else m) init

inductive Tag | skip | append | suffixKeep | suffixCut | suffixReject | prefix | prefixCut | prefixReject
  | both | bothCut | resolveOne | raised
deriving DecidableEq, Repr

/-- `add_chain_suffix`: returns the new table, the new chain and `ch_changed` -/
def addSuffix (o : Opts) (nfm ch : List (Row α)) (j : Nat) (dj : α) : List (Row α) × List (Row α) × Bool × List Tag :=
  match rowOf nfm j with
  | none => (nfm, ch, false, [.raised])
  | some t =>
    let cmax := maxOrd t.ord (fun r => r.obj == t.obj) nfm
    let finish (nfm' : List (Row α)) (cmax' : Int) (tg : Tag) :=
      (setDist (fun r => r.idx == j) dj nfm',
       relabelChain t.obj cmax' ch, true, [tg])
    if Cmp.eval o.suffixNotLast cmax t.ord then
      if Cmp.eval o.suffixKeep t.dist dj then (nfm, ch, false, [.suffixReject])
      else
        let cur : Int := headObj ch
        let nfm1 := updObj (fun r => r.obj == t.obj && Cmp.eval o.suffixTailSel r.ord t.ord) cur nfm
        let nfm2 := if o.tailByChainOrder then addOrd (fun r => r.obj == cur) (-t.ord) nfm1
                    else renumRows (fun r => r.obj == cur) 1 nfm1
        finish nfm2 (maxOrd t.ord (fun r => r.obj == t.obj) nfm2) .suffixCut
    else finish nfm cmax .suffixKeep

def setLastDist (v : α) : List (Row α) → List (Row α)
  | [] => []
  | [r] => [{ r with dist := v }]
  | r :: rs => r :: setLastDist v rs

/-- `add_chain_prefix`; `classMax = some (cl_max, id)` in a two-sided merge -/
def addPrefix (o : Opts) (nfm ch : List (Row α)) (j : Nat) (dj : α) (classMax : Option (Int × Int)) :
    List (Row α) × List (Row α) × List Tag :=
  match rowOf nfm j with
  | none => (nfm, ch, [.raised])
  | some t =>
    let cur : Int := headObj ch
    let notFirst := Cmp.eval o.prefixNotFirst t.ord o.prefixFirstOrder
    let go (nfm1 : List (Row α)) (cut : Int) (tg : Tag) :=
      match classMax with
      | none =>
        let cm := maxOrd 0 (fun _ => true) ch
        (addOrd (fun r => r.obj == t.obj) (cm - cut) nfm1,
         setLastDist dj (setObjChain t.obj ch), [tg])
      | some (cm, cls) =>
        let nfm2 := addOrd (fun r => r.obj == t.obj) (cm - cut) nfm1
        let nfm3 := updObj (fun r => r.obj == t.obj) cur nfm2
        let nfm4 := if notFirst then updObj (fun r => r.obj == -1) cls nfm3 else nfm3
        (nfm4, setLastDist dj ch, [tg])
    if notFirst then
      match nfm.find? (fun r => r.obj == t.obj && r.ord == t.ord - 1) with
      | none => (nfm, ch, [.raised])      -- `.values[0]` on an empty selection raises IndexError
      | some pr =>
        if Cmp.eval o.prefixKeep pr.dist dj then (nfm, ch, [.prefixReject])
        else
          let sel := fun (r : Row α) => r.obj == t.obj && Cmp.eval o.prefixHeadSel r.ord t.ord
          let cut : Int := (nfm.filter sel).length
          let nfm1 := updObj sel (match classMax with | none => cur | some _ => -1) nfm
          go nfm1 cut (match classMax with | none => .prefixCut | some _ => .bothCut)
    else go nfm 0 (match classMax with | none => .prefix | some _ => .both)

structure State (α : Type) where
  nfm : List (Row α)
  classC : Int
  tags : List Tag

/-- which of the two candidate connections survive (`first_idx`/`nm_idx` set to -1) -/
def resolve (o : Opts) (nfm : List (Row α)) (single : Bool) (fi0 nm0 : Option (Nat × α)) :
    Option (Nat × α) × Option (Nat × α) × List Tag :=
  match fi0, nm0 with
  | some (f, df), some (m, dm) =>
    if f == m && single then
      if Cmp.eval o.resolveSingle df dm then (fi0, none, [.resolveOne]) else (none, nm0, [.resolveOne])
    else if (rowOf nfm f).map (·.obj) == (rowOf nfm m).map (·.obj) then
      if Cmp.eval o.resolveSameChain df dm then (fi0, none, [.resolveOne]) else (none, nm0, [.resolveOne])
    else (fi0, nm0, [])
  | _, _ => (fi0, nm0, [])

/-- the two-sided-merge part of the prefix call: `class_max` and the advanced class counter -/
def classMaxOf (o : Opts) (changed : Bool) (ch1 : List (Row α)) (classC : Int) : Option (Int × Int) × Int :=
  if changed then
    let cur := if o.bothSidesFreshId then classC else classC - 1
    let classC' := if o.bothSidesFreshId then classC + 1 else classC
    let clMax := maxOrd 0 (fun _ => true) ch1
    (if 1 < clMax then some (clMax, cur) else none, classC')
  else (none, classC)

/-- `if first_idx != -1: ch_changed = add_chain_suffix(...)` -/
def suffixPart (o : Opts) (nfm ch : List (Row α)) (fi : Option (Nat × α)) :
    List (Row α) × List (Row α) × Bool × List Tag :=
  match fi with
  | some (f, df) => addSuffix o nfm ch f df
  | none => (nfm, ch, false, [])

/-- `if nm_idx != -1: ... add_chain_prefix(...)`; returns table, chain, class counter, tags -/
def prefixPart (o : Opts) (s : List (Row α) × List (Row α) × Bool × List Tag) (nm : Option (Nat × α))
    (classC : Int) : List (Row α) × List (Row α) × Int × List Tag :=
  match nm with
  | some (m, dm) =>
    let cm := classMaxOf o s.2.2.1 s.2.1 classC
    let p := addPrefix o s.1 s.2.1 m dm cm.1
    (p.1, p.2.1, cm.2, s.2.2.2 ++ p.2.2)
  | none => (s.1, s.2.1, classC, s.2.2.2)

/-- end of a chain when `nfm_df` is not empty: look for connections to existing chains.
`first`/`last` are the first and last member of the new chain `ch`; `classC` is `class_c` after its
increment. Returns the new table, the new chain, the class counter and the branch tags. -/
def merge (o : Opts) (c : Cfg α) (nfm ch : List (Row α)) (first last : Nat) (single : Bool) (classC : Int) :
    List (Row α) × List (Row α) × Int × List Tag :=
  let isTraced := fun j => (nfm.map (·.idx)).contains j
  let r := resolve o nfm single (nearestExit o c first isTraced) (nearestEntry o c last isTraced)
  let q := prefixPart o (suffixPart o nfm ch r.1) r.2.1 classC
  (q.1, q.2.1, q.2.2.1, r.2.2 ++ q.2.2.2 ++ (if r.1.isNone && r.2.1.isNone then [Tag.append] else []))

/-- one iteration of `for i, current_point in enumerate(coord_exit)` -/
def step (o : Opts) (c : Cfg α) (st : State α) (i : Nat) : State α :=
  if (st.nfm.map (·.idx)).contains i then { st with tags := st.tags ++ [.skip] } else
  let ms := traceChain o c (st.nfm.map (·.idx)) c.n i []
  let ch := mkChainFrom st.classC 1 ms
  if st.nfm.isEmpty then { nfm := st.nfm ++ ch, classC := st.classC + 1, tags := st.tags ++ [.append] } else
  let last := match ms.getLast? with | some (p, _) => p | none => i
  let m := merge o c st.nfm ch i last (ms.length == 1) (st.classC + 1)
  { nfm := m.1 ++ m.2.1, classC := m.2.2.1, tags := st.tags ++ m.2.2.2 }

/-- `trace_chains` on one tomogram -/
def run (o : Opts) (c : Cfg α) : State α :=
  (List.range c.n).foldl (step o c) { nfm := [], classC := 1, tags := [] }

/-! ### the verified checker (runs on the IMPLEMENTATION's output) -/

/-- output row: tomogram number (position in the list of tomograms) and the row -/
abbrev ORow (α : Type) := Nat × Row α

def allKeys (cs : List (Cfg α)) : List (Nat × Nat) :=
  cs.zipIdx.flatMap (fun (c, t) => (List.range c.n).map (fun i => (t, i)))

def group (out : List (ORow α)) (t : Nat) (g : Int) : List (ORow α) :=
  out.filter (fun r => r.1 == t && r.2.obj == g)

def oneToK (k : Nat) : List Int := (List.range k).map (fun (i : Nat) => (Int.ofNat i) + 1)

/-- clause 1: every particle exactly once -/
def chkOnce (cs : List (Cfg α)) (out : List (ORow α)) : Bool :=
  (out.map (fun r => (r.1, r.2.idx))).isPerm (allKeys cs)
/-- clause 2: per (tomogram, object) the order numbers are 1..k -/
def chkOrders (out : List (ORow α)) : Bool :=
  out.all (fun r => let g := group out r.1 r.2.obj; (g.map (·.2.ord)).isPerm (oneToK g.length))
/-- clause 3: consecutive members: exit→entry distance in (min,max] and recorded on the former -/
def chkDist (cs : List (Cfg α)) (out : List (ORow α)) : Bool :=
  out.all (fun a => out.all (fun b =>
    if a.1 == b.1 && a.2.obj == b.2.obj && b.2.ord == a.2.ord + 1 then
      match cs[a.1]? with
      | some c => decide (c.lo < c.d a.2.idx b.2.idx) && decide (c.d a.2.idx b.2.idx ≤ c.hi)
                    && decide (a.2.dist = c.d a.2.idx b.2.idx)
      | none => false
    else true))

def chainsOk (cs : List (Cfg α)) (out : List (ORow α)) : Bool :=
  chkOnce cs out && chkOrders out && chkDist cs out

/-- model output over all tomograms, in the order `trace_chains` concatenates them -/
def runAll (o : Opts) (cs : List (Cfg α)) : List (ORow α) :=
  cs.zipIdx.flatMap (fun (c, t) => (run o c).nfm.map (fun r => (t, r)))

end
/-! ### clause 1, second half: the row returned for a particle IS that particle

`trace_chains` writes three columns (`store_idx1`, `store_idx2`, `store_dist`; defaults `object_id`,
`geom2`, `geom4`) and returns, for every traced position, the row of the ENTRY list
(`fm_entry.df.iloc[[p_idx]]`).  "Returns every particle" therefore means: in each of the other 17
fields the returned row carries the value the entry list holds for that particle. -/

/-- the three columns tracing writes -/
structure Store where
  idx1 : Field
  idx2 : Field
  dist : Field
deriving DecidableEq, Repr

/-- the documented defaults (written by hand; `Props/C19.store_documented`) -/
def Store.documented : Store := ⟨.object_id, .geom2, .geom4⟩

def Store.ofNames (l : List String) : Option Store :=
  match l.map Field.ofName? with
  | [some a, some b, some c] => some ⟨a, b, c⟩
  | _ => none

/-- what the signature of `trace_chains` says today -/
def Store.gen : Option Store := Store.ofNames Gen.C19.storeDefaults

def Store.writes (st : Store) (f : Field) : Bool := f == st.idx1 || f == st.idx2 || f == st.dist

/-- the fields tracing must leave alone -/
def otherFields (st : Store) : List Field := Field.all.filter (fun f => !st.writes f)

/-- output row with all 20 fields: tomogram number, position in the tomogram, the returned row -/
abbrev PRow (β : Type) := Nat × Nat × Particle β

/-- verified checker (runs on the IMPLEMENTATION's output): every returned row agrees with the
entry-list row of its particle in every field tracing does not write -/
def chkFields {β : Type} [DecidableEq β] (st : Store) (entry : Nat → Nat → Particle β) (out : List (PRow β)) : Bool :=
  out.all (fun r => (otherFields st).all (fun f => decide (r.2.2.get f = (entry r.1 r.2.1).get f)))

section
variable {α β : Type}

/-- the particle the model returns for a traced row: the entry-list row with the three store
columns overwritten (`ofInt`/`ofDist` embed object/order numbers and distances into the column type) -/
def emit (st : Store) (ofInt : Int → β) (ofDist : α → β) (entry : Nat → Particle β) (r : Row α) : Particle β :=
  (((entry r.idx).set st.idx1 (ofInt r.obj)).set st.idx2 (ofInt r.ord)).set st.dist (ofDist r.dist)

/-- all returned particles of the model, tomogram by tomogram -/
def emitAll (st : Store) (ofInt : Int → β) (ofDist : α → β) (entry : Nat → Nat → Particle β)
    (out : List (ORow α)) : List (PRow β) :=
  out.map (fun r => (r.1, r.2.idx, emit st ofInt ofDist (entry r.1) r.2))
end

end CryoCat.C19
