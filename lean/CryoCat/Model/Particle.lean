/-! The 20 named fields of a cryoCAT particle list (`Motl.motl_columns`) — Mathlib-free. -/
namespace CryoCat

inductive Field
  | score | geom1 | geom2 | subtomo_id | tomo_id | object_id | subtomo_mean
  | x | y | z | shift_x | shift_y | shift_z | geom3 | geom4 | geom5
  | phi | psi | theta | cls
deriving DecidableEq, Repr, Inhabited

namespace Field

/-- the documented TOM/AV3 field order (written here by hand; `Gen.C01.motlColumns` is what the
source says today and `Props/C01` proves they agree) -/
def all : List Field :=
  [score, geom1, geom2, subtomo_id, tomo_id, object_id, subtomo_mean, x, y, z,
   shift_x, shift_y, shift_z, geom3, geom4, geom5, phi, psi, theta, cls]

def name : Field → String
  | score => "score" | geom1 => "geom1" | geom2 => "geom2" | subtomo_id => "subtomo_id"
  | tomo_id => "tomo_id" | object_id => "object_id" | subtomo_mean => "subtomo_mean"
  | x => "x" | y => "y" | z => "z" | shift_x => "shift_x" | shift_y => "shift_y"
  | shift_z => "shift_z" | geom3 => "geom3" | geom4 => "geom4" | geom5 => "geom5"
  | phi => "phi" | psi => "psi" | theta => "theta" | cls => "class"

def ofName? (s : String) : Option Field := all.find? (fun f => f.name == s)

def idx : Field → Nat
  | score => 0 | geom1 => 1 | geom2 => 2 | subtomo_id => 3 | tomo_id => 4 | object_id => 5
  | subtomo_mean => 6 | x => 7 | y => 8 | z => 9 | shift_x => 10 | shift_y => 11 | shift_z => 12
  | geom3 => 13 | geom4 => 14 | geom5 => 15 | phi => 16 | psi => 17 | theta => 18 | cls => 19

theorem mem_all (f : Field) : f ∈ all := by cases f <;> decide
theorem all_nodup : all.Nodup := by decide
theorem all_length : all.length = 20 := rfl
theorem ofName_name (f : Field) : ofName? f.name = some f := by cases f <;> decide

end Field

/-- a particle as a record of its 20 fields -/
structure Particle (α : Type) where
  score : α
  geom1 : α
  geom2 : α
  subtomo_id : α
  tomo_id : α
  object_id : α
  subtomo_mean : α
  x : α
  y : α
  z : α
  shift_x : α
  shift_y : α
  shift_z : α
  geom3 : α
  geom4 : α
  geom5 : α
  phi : α
  psi : α
  theta : α
  cls : α
deriving Repr, DecidableEq, Inhabited

namespace Particle
variable {α : Type}

def get (p : Particle α) : Field → α
  | .score => p.score | .geom1 => p.geom1 | .geom2 => p.geom2 | .subtomo_id => p.subtomo_id
  | .tomo_id => p.tomo_id | .object_id => p.object_id | .subtomo_mean => p.subtomo_mean
  | .x => p.x | .y => p.y | .z => p.z | .shift_x => p.shift_x | .shift_y => p.shift_y
  | .shift_z => p.shift_z | .geom3 => p.geom3 | .geom4 => p.geom4 | .geom5 => p.geom5
  | .phi => p.phi | .psi => p.psi | .theta => p.theta | .cls => p.cls

def set (p : Particle α) (f : Field) (v : α) : Particle α :=
  match f with
  | .score => { p with score := v } | .geom1 => { p with geom1 := v } | .geom2 => { p with geom2 := v }
  | .subtomo_id => { p with subtomo_id := v } | .tomo_id => { p with tomo_id := v }
  | .object_id => { p with object_id := v } | .subtomo_mean => { p with subtomo_mean := v }
  | .x => { p with x := v } | .y => { p with y := v } | .z => { p with z := v }
  | .shift_x => { p with shift_x := v } | .shift_y => { p with shift_y := v }
  | .shift_z => { p with shift_z := v } | .geom3 => { p with geom3 := v } | .geom4 => { p with geom4 := v }
  | .geom5 => { p with geom5 := v } | .phi => { p with phi := v } | .psi => { p with psi := v }
  | .theta => { p with theta := v } | .cls => { p with cls := v }

/-- build a particle from a function on field names -/
def ofFn (g : Field → α) : Particle α :=
  ⟨g .score, g .geom1, g .geom2, g .subtomo_id, g .tomo_id, g .object_id, g .subtomo_mean,
   g .x, g .y, g .z, g .shift_x, g .shift_y, g .shift_z, g .geom3, g .geom4, g .geom5,
   g .phi, g .psi, g .theta, g .cls⟩

/-- the 20 values in canonical field order -/
def toList (p : Particle α) : List α := Field.all.map p.get

/-- from 20 values in canonical order (missing values filled with `d`) -/
def ofList (d : α) (l : List α) : Particle α := ofFn (fun f => l.getD f.idx d)

theorem get_ofFn (g : Field → α) (f : Field) : (ofFn g).get f = g f := by cases f <;> rfl
theorem get_set_same (p : Particle α) (f : Field) (v : α) : (p.set f v).get f = v := by cases f <;> rfl
theorem get_set_other (p : Particle α) (f g : Field) (v : α) (h : g ≠ f) : (p.set f v).get g = p.get g := by
  cases f <;> cases g <;> first | rfl | exact absurd rfl h
theorem ext_get {p q : Particle α} (h : ∀ f, p.get f = q.get f) : p = q := by
  cases p; cases q
  have h1 := h .score; have h2 := h .geom1; have h3 := h .geom2; have h4 := h .subtomo_id
  have h5 := h .tomo_id; have h6 := h .object_id; have h7 := h .subtomo_mean; have h8 := h .x
  have h9 := h .y; have h10 := h .z; have h11 := h .shift_x; have h12 := h .shift_y
  have h13 := h .shift_z; have h14 := h .geom3; have h15 := h .geom4; have h16 := h .geom5
  have h17 := h .phi; have h18 := h .psi; have h19 := h .theta; have h20 := h .cls
  simp only [get] at *
  simp_all
theorem ofList_toList (d : α) (p : Particle α) : ofList d p.toList = p := by
  apply ext_get; intro f; cases f <;> rfl

end Particle

abbrev Motl (α : Type) := List (Particle α)

end CryoCat
