import CryoCat.Model.C08
/-! C08 — VERIFIED CHECKERS: executable Boolean functions that decide, for the output the REAL code
produced, whether the clauses of the statement hold (`Props/C08.lean`: `check_*_sound`,
`check_*_complete`).  They do not run the model of the code and depend on no translated operator:
each one is a direct Boolean rendering of the clause(s) it decides.  Mathlib-free; the driver runs
them at `Float`.

`eqv` is "the same cell" (the driver passes equality of the IEEE bit patterns, so a missing value
equals a missing value); key fields are compared with `==` like the statement's "matching". -/
namespace CryoCat.C08
open CryoCat

variable {α : Type}

/-! ### generic Boolean list predicates -/

/-- Boolean `List.Pairwise` -/
def pairwiseB {β : Type} (r : β → β → Bool) : List β → Bool
  | [] => true
  | a :: l => l.all (r a) && pairwiseB r l

/-- Boolean `List.Forall₂` -/
def forall2B {β γ : Type} (r : β → γ → Bool) : List β → List γ → Bool
  | [], [] => true
  | a :: l, b :: m => r a b && forall2B r l m
  | _, _ => false

/-- cut `out` into consecutive blocks with the lengths of `ins` -/
def splitBy {β γ : Type} : List (List β) → List γ → Option (List (List γ))
  | [], [] => some []
  | [], _ :: _ => none
  | m :: ms, out =>
    if out.length < m.length then none
    else (splitBy ms (out.drop m.length)).map (fun bs => out.take m.length :: bs)

section rows
variable (eqv : α → α → Bool)

/-- the same row: all 20 cells are the same -/
def rowEq (p q : Particle α) : Bool := Field.all.all (fun f => eqv (p.get f) (q.get f))

@[reducible] def rowBEq : BEq (Particle α) := ⟨rowEq eqv⟩

/-- the two tables hold the same rows the same number of times -/
def permB (a b : Motl α) : Bool := @List.isPerm _ (rowBEq eqv) a b

/-- the two tables are the same rows in the same order -/
def listEqB (a b : Motl α) : Bool := forall2B (rowEq eqv) a b

/-- row `q` is row `p` except possibly in the fields `skip`; a missing value may have been filled -/
def sameB (fill : α → α) (skip : Field → Bool) (p q : Particle α) : Bool :=
  Field.all.all (fun g => skip g || eqv (q.get g) (p.get g) || eqv (q.get g) (fill (p.get g)))

end rows

def isIdField : Field → Bool
  | .subtomo_id | .object_id => true
  | _ => false

/-- "the table still has exactly the 20 fields": the column names are a rearrangement of the 20 -/
def checkSchema (cols : List String) : Bool := cols.isPerm (Field.all.map Field.name)

section checks
variable [BEq α] (eqv : α → α → Bool)

/-! ### subset: exactly the matching rows, grouped by requested value, original order inside -/
def checkSubset (f : Field) : List α → Motl α → Motl α → Bool
  | [], _, out => out.isEmpty
  | v :: vs, l, out =>
    let g := l.filter (fun p => p.get f == v)
    listEqB eqv (out.take g.length) g && checkSubset f vs l (out.drop g.length)

/-! ### remove: complementary to the selection -/
def removeClauses (f : Field) (vs : List α) (l out : Motl α) : List (String × Bool) :=
  [("remove-is-complement-of-selection",
      permB eqv (out ++ l.filter (fun p => vs.any (fun v => p.get f == v))) l),
   ("remove-leaves-no-matching-row", out.all (fun p => vs.all (fun v => !(p.get f == v))))]

def checkRemove (f : Field) (vs : List α) (l out : Motl α) : Bool := (removeClauses eqv f vs l out).all (·.2)

/-! ### split: the parts partition the list -/
def splitClauses (f : Field) (l : Motl α) (parts : List (Motl α)) : List (String × Bool) :=
  [("split-partitions-the-list", permB eqv parts.flatten l),
   ("split-part-has-one-value", parts.all (fun part =>
      match part with
      | [] => false
      | p :: r => r.all (fun q => q.get f == p.get f))),
   ("split-parts-have-distinct-values",
      pairwiseB (fun a b => a.all (fun p => b.all (fun q => !(p.get f == q.get f)))) parts)]

def checkSplit (f : Field) (l : Motl α) (parts : List (Motl α)) : Bool := (splitClauses eqv f l parts).all (·.2)

/-! ### intersection: exactly the first list's rows whose id occurs in the second (ids and rows
compared after `Motl.load` filled the missing values), and every returned row is a row of the first
list up to that filling -/
def intersectClauses (fill : α → α) (f : Field) (l o out : Motl α) : List (String × Bool) :=
  [("intersection-keeps-exactly-first-list-rows-with-id-in-second",
      permB eqv (out.map (fillRow fill))
        ((l.filter (fun p => o.any (fun q => fill (q.get f) == fill (p.get f)))).map (fillRow fill))),
   ("other-fields-unchanged", out.all (fun q => l.any (fun p => sameB eqv fill (fun _ => false) p q)))]

def checkIntersect (fill : α → α) (f : Field) (l o out : Motl α) : Bool :=
  (intersectClauses eqv fill f l o out).all (·.2)

/-! ### drop duplicates: exactly one best-scoring row per id (`fill` = identity for the plain
operation; `Motl.load`'s filling for `merge_and_drop_duplicates`) -/
section dd
variable [LT α] [DecidableLT α]

def dropDupClauses (fill : α → α) (dup dec : Field) (asc : Bool) (l out : Motl α) : List (String × Bool) :=
  [("dropdup-one-row-per-id", pairwiseB (fun a b => !(a.get dup == b.get dup)) out),
   ("other-fields-unchanged", out.all (fun q => l.any (fun p => sameB eqv fill (fun _ => false) p q))),
   ("dropdup-every-id-survives", l.all (fun p => out.any (fun q => q.get dup == p.get dup))),
   ("dropdup-keeps-best-scoring-row", out.all (fun q => l.all (fun p => !(p.get dup == q.get dup) ||
      (if asc then !decide (p.get dec < q.get dec) else !decide (q.get dec < p.get dec)))))]

def checkDropDup (fill : α → α) (dup dec : Field) (asc : Bool) (l out : Motl α) : Bool :=
  (dropDupClauses eqv fill dup dec asc l out).all (·.2)

end dd

/-! ### renumber particles -/
def renumberParticlesClauses (nat : Nat → α) (l out : Motl α) : List (String × Bool) :=
  [("renumber-particles-1..N",
      forall2B (fun (a b : α) => a == b) (out.map (·.subtomo_id)) ((List.range l.length).map (fun i => nat (i + 1)))),
   ("other-fields-unchanged",
      forall2B (fun p q => sameB eqv (fun v => v) (fun g => g == Field.subtomo_id) p q) l out)]

def checkRenumberParticles (nat : Nat → α) (l out : Motl α) : Bool := (renumberParticlesClauses eqv nat l out).all (·.2)

section arith
variable [Add α] [Sub α] [OfNat α 0]

/-! ### merging: the output is the inputs one after the other (`blocks`) -/

/-- the offset of a block, read off its first row (`g` = what loading does to the input's ids) -/
def offsetOf (g : α → α) : Motl α → Motl α → α
  | p :: _, q :: _ => q.object_id - g p.object_id
  | _, _ => 0

/-- output block `b` is input `m`: same rows in the same order up to the ids (a missing value possibly
replaced by `g`), and all object numbers — read after loading, `g p.object_id` — moved by one offset -/
def blockOkB (g : α → α) (m b : Motl α) : Bool :=
  forall2B (fun p q => sameB eqv g isIdField p q && q.object_id == g p.object_id + offsetOf g m b) m b

/-- the key fields the clauses of a merge READ — the two id fields and the decision value `score` — as they
are after loading (`g` = `fill` for a bare DataFrame, identity for a `Motl`); every other cell stays raw,
so that "other fields unchanged" is still judged against the caller's own rows -/
def loadKeys (g : α → α) (p : Particle α) : Particle α :=
  ((p.set .object_id (g p.object_id)).set .subtomo_id (g p.subtomo_id)).set .score (g p.score)

def disjointObjB (b c : Motl α) : Bool := b.all (fun p => c.all (fun q => !(p.object_id == q.object_id)))

/-- what `Motl.load` may do to the cells of ONE input of a merge: replace missing values if the input
is handed over as a bare DataFrame (`df = true`), nothing if it is a `Motl` -/
def fillIf (fill : α → α) (df : Bool) : α → α := if df then fill else (fun v => v)

/-- inputs are tagged: `(handed over as a bare DataFrame?, rows)`; only tagged inputs may come back
with missing values filled, and the new subtomogram numbers are 1..N IN ROW ORDER -/
def mergeRenumberClauses (fill : α → α) (nat : Nat → α) (ins : List (Bool × Motl α)) (out : Motl α) : List (String × Bool) :=
  match splitBy (ins.map (·.2)) out with
  | none => [("other-fields-unchanged", false)]
  | some bs =>
    [("merge-keeps-each-inputs-grouping", forall2B (fun x b => blockOkB eqv (fillIf fill x.1) x.2 b) ins bs),
     ("merge-object-numbers-never-collide", pairwiseB disjointObjB bs),
     ("merge-renumber-subtomo-1..N",
        forall2B (fun (a b : α) => a == b) (out.map (·.subtomo_id))
          ((List.range (ins.map (·.2)).flatten.length).map (fun i => nat (i + 1))))]

def checkMergeRenumber (fill : α → α) (nat : Nat → α) (ins : List (Bool × Motl α)) (out : Motl α) : Bool :=
  (mergeRenumberClauses eqv fill nat ins out).all (·.2)

/-- the inputs, ids and decision value read after loading, shifted by a certificate `cs`, each still tagged -/
def shiftedInputs (fill : α → α) (cs : List α) (ins : List (Bool × Motl α)) : List (Bool × Motl α) :=
  List.zipWith (fun c x => (x.1, shiftObj c (x.2.map (loadKeys (fillIf fill x.1))))) cs ins

/-- merge and drop duplicates; `cs` is a certificate (one object-number offset per input): the
merged table before the dropping is the inputs shifted by these offsets; a surviving row is a row of
one (shifted) input, missing values filled only if that input was a bare DataFrame -/
def mergeDropDupClauses [LT α] [DecidableLT α] (fill : α → α) (cs : List α) (ins : List (Bool × Motl α)) (out : Motl α) :
    List (String × Bool) :=
  let ms := shiftedInputs fill cs ins
  [("merge-keeps-each-inputs-grouping", cs.length == ins.length),
   ("merge-object-numbers-never-collide", pairwiseB disjointObjB (ms.map (·.2))),
   ("other-fields-unchanged",
      out.all (fun q => ms.any (fun x => x.2.any (fun p => sameB eqv (fillIf fill x.1) (fun _ => false) p q))))]
  ++ dropDupClauses eqv fill .subtomo_id .score false (ms.map (·.2)).flatten out

def checkMergeDropDup [LT α] [DecidableLT α] (fill : α → α) (cs : List α) (ins : List (Bool × Motl α)) (out : Motl α) : Bool :=
  (mergeDropDupClauses eqv fill cs ins out).all (·.2)

/-! ### sequential object renumbering -/

/-- number of distinct (tomogram, object) pairs -/
def nPairs (l : Motl α) : Nat := (uniq (l.map (fun p => (p.tomo_id, p.object_id)))).length

def renumberObjectsClauses (nat : Nat → α) (start : α) (l out : Motl α) : List (String × Bool) :=
  let z := l.zip out
  [("other-fields-unchanged",
      forall2B (fun p q => sameB eqv (fun v => v) (fun g => g == Field.object_id) p q) l out),
   ("renumber-objects-keeps-grouping", z.all (fun a => z.all (fun b =>
      (a.2.object_id == b.2.object_id) == (a.1.tomo_id == b.1.tomo_id && a.1.object_id == b.1.object_id)))),
   ("renumber-objects-consecutive",
      out.all (fun q => (List.range (nPairs l)).any (fun i => q.object_id == start + nat i))
      && (List.range (nPairs l)).all (fun i => out.any (fun q => q.object_id == start + nat i)))]

def checkRenumberObjects (nat : Nat → α) (start : α) (l out : Motl α) : Bool :=
  (renumberObjectsClauses eqv nat start l out).all (·.2)

/-! ### one step of a history, and a whole history, on the REAL outputs -/

/-- what was observed after one operation: the table, for a split all parts, for
`merge_and_drop_duplicates` candidate offset certificates -/
structure Obs (α : Type) where
  out : Motl α
  parts : List (Motl α) := []
  hints : List (List α) := []

/-- the inputs of a merge as the caller hands them over (tag = bare DataFrame?), before any loading -/
def rawInputs (before after : List (Bool × Motl α)) (selfDf : Bool) (l : Motl α) : List (Bool × Motl α) :=
  before ++ [(selfDf, l)] ++ after

def stepClauses [LT α] [DecidableLT α] (fill : α → α) (nat : Nat → α) : Op α → Motl α → Obs α → List (String × Bool)
  | .subset f vs, l, o => [("subset-holds-exactly-the-matching-rows-grouped-by-value", checkSubset eqv f vs l o.out)]
  | .remove f vs, l, o => removeClauses eqv f vs l o.out
  | .splitPick f i, l, o => splitClauses eqv f l o.parts ++ [("split-pick", listEqB eqv o.out (o.parts.getD i []))]
  | .intersect f other, l, o => intersectClauses eqv fill f l other o.out
  | .dropDup dup dec asc, l, o => dropDupClauses eqv (fun v => v) dup dec asc l o.out
  | .mergeRenumber b a s, l, o => mergeRenumberClauses eqv fill nat (rawInputs b a s l) o.out
  | .mergeDropDup b a s, l, o =>
    match o.hints.find? (fun cs => checkMergeDropDup eqv fill cs (rawInputs b a s l) o.out) with
    | some _ => []
    | none => mergeDropDupClauses eqv fill (o.hints.headD []) (rawInputs b a s l) o.out ++ [("merge-dropdup-no-certificate", false)]
  | .renumberParticles, l, o => renumberParticlesClauses eqv nat l o.out
  | .renumberObjects start, l, o => renumberObjectsClauses eqv nat start l o.out

def checkStep [LT α] [DecidableLT α] (fill : α → α) (nat : Nat → α) (op : Op α) (l : Motl α) (o : Obs α) : Bool :=
  (stepClauses eqv fill nat op l o).all (·.2)

/-- every step of an observed history is accepted (each step is judged against the REAL previous table) -/
def checkRun [LT α] [DecidableLT α] (fill : α → α) (nat : Nat → α) : List (Op α × Obs α) → Motl α → Bool
  | [], _ => true
  | (op, o) :: rest, l => checkStep eqv fill nat op l o && checkRun fill nat rest o.out

/-- the table at the end of an observed history -/
def lastOut : List (Op α × Obs α) → Motl α → Motl α
  | [], l => l
  | (_, o) :: rest, _ => lastOut rest o.out

end arith
end checks

/-! ### missing-value-aware variants (what the driver runs at `Float`, where a key field may hold NaN)

`miss` recognises a missing cell.  The reading of the statement with missing values (quantifier: "repeated and
missing field values"): key comparison is IEEE `==` (a missing key matches nothing, a missing id duplicates
nothing), a missing decision value is never the best one (pandas sorts missing values LAST whatever the
direction), and a missing object number neither collides nor carries an offset.  With `miss := fun _ => false`
these are the clause lists above (`Props/C08.lean`: `dropDupClausesM_no_missing` for the drop-duplicates clauses; the merge variants differ from the proved ones only in `offsetOfM` / `blockOkBM`, which read `miss`), for which the theorems are proved. -/
section missing
variable [BEq α] (eqv : α → α → Bool) (miss : α → Bool)

section ddm
variable [LT α] [DecidableLT α]

/-- `drop_duplicates` with missing values: ids are compared with `==` (so rows with a missing id are never
duplicates of anything: ALL of them must survive — as many rows with a missing id after as before, each a row of
the input by `other-fields-unchanged`); a survivor with a missing decision value is allowed only if every row of
its id misses it; otherwise rows whose decision value is missing do not compete -/
def dropDupClausesM (fill : α → α) (dup dec : Field) (asc : Bool) (l out : Motl α) : List (String × Bool) :=
  [("dropdup-one-row-per-id", pairwiseB (fun a b => !(a.get dup == b.get dup)) out),
   ("other-fields-unchanged", out.all (fun q => l.any (fun p => sameB eqv fill (fun _ => false) p q))),
   ("dropdup-every-id-survives", l.all (fun p => miss (p.get dup) || out.any (fun q => q.get dup == p.get dup))
      && (out.filter (fun q => miss (q.get dup))).length == (l.filter (fun p => miss (p.get dup))).length),
   ("dropdup-keeps-best-scoring-row", out.all (fun q => l.all (fun p => !(p.get dup == q.get dup) ||
      (if miss (q.get dec) then miss (p.get dec)
       else miss (p.get dec) ||
        (if asc then !decide (p.get dec < q.get dec) else !decide (q.get dec < p.get dec))))))]

end ddm

section arithm
variable [Add α] [Sub α] [OfNat α 0]

/-- the offset of a block read off the first row that carries an object number -/
def offsetOfM (g : α → α) : Motl α → Motl α → α
  | p :: m, q :: b => if miss (g p.object_id) then offsetOfM g m b else q.object_id - g p.object_id
  | _, _ => 0

/-- `blockOkB` where a row without an object number stays without one and has no offset -/
def blockOkBM (g : α → α) (m b : Motl α) : Bool :=
  forall2B (fun p q => sameB eqv g isIdField p q &&
    (if miss (g p.object_id) then miss q.object_id else q.object_id == g p.object_id + offsetOfM miss g m b)) m b

def mergeRenumberClausesM (fill : α → α) (nat : Nat → α) (ins : List (Bool × Motl α)) (out : Motl α) : List (String × Bool) :=
  match splitBy (ins.map (·.2)) out with
  | none => [("other-fields-unchanged", false)]
  | some bs =>
    [("merge-keeps-each-inputs-grouping", forall2B (fun x b => blockOkBM eqv miss (fillIf fill x.1) x.2 b) ins bs),
     ("merge-object-numbers-never-collide", pairwiseB disjointObjB bs),
     ("merge-renumber-subtomo-1..N",
        forall2B (fun (a b : α) => a == b) (out.map (·.subtomo_id))
          ((List.range (ins.map (·.2)).flatten.length).map (fun i => nat (i + 1))))]

def mergeDropDupClausesM [LT α] [DecidableLT α] (fill : α → α) (cs : List α) (ins : List (Bool × Motl α)) (out : Motl α) :
    List (String × Bool) :=
  let ms := shiftedInputs fill cs ins
  [("merge-keeps-each-inputs-grouping", cs.length == ins.length),
   ("merge-object-numbers-never-collide", pairwiseB disjointObjB (ms.map (·.2))),
   ("other-fields-unchanged",
      out.all (fun q => ms.any (fun x => x.2.any (fun p => sameB eqv (fillIf fill x.1) (fun _ => false) p q))))]
  ++ dropDupClausesM eqv miss fill .subtomo_id .score false (ms.map (·.2)).flatten out

def stepClausesM [LT α] [DecidableLT α] (fill : α → α) (nat : Nat → α) : Op α → Motl α → Obs α → List (String × Bool)
  | .dropDup dup dec asc, l, o => dropDupClausesM eqv miss (fun v => v) dup dec asc l o.out
  | .mergeRenumber b a s, l, o => mergeRenumberClausesM eqv miss fill nat (rawInputs b a s l) o.out
  | .mergeDropDup b a s, l, o =>
    match o.hints.find? (fun cs => (mergeDropDupClausesM eqv miss fill cs (rawInputs b a s l) o.out).all (·.2)) with
    | some _ => []
    | none => mergeDropDupClausesM eqv miss fill (o.hints.headD []) (rawInputs b a s l) o.out ++ [("merge-dropdup-no-certificate", false)]
  | op, l, o => stepClauses eqv fill nat op l o

def checkStepM [LT α] [DecidableLT α] (fill : α → α) (nat : Nat → α) (op : Op α) (l : Motl α) (o : Obs α) : Bool :=
  (stepClausesM eqv miss fill nat op l o).all (·.2)

end arithm
end missing

/-! ### the model's own observation chain (what the checkers are handed when the MODEL is the implementation):
`Props/C08.lean` `check_run_accepts_model` proves `checkRun` accepts it for every history -/
section modelchain
variable [BEq α] [LT α] [DecidableLT α] [Add α] [Sub α] [OfNat α 0] [OfNat α 1]

/-- what the model shows after one operation: its table, for a split all its parts, for
`merge_and_drop_duplicates` the offsets its own loop used as the certificate -/
def modelObs (fill : α → α) (nat : Nat → α) : Op α → Motl α → Obs α
  | .splitPick f i, l => { out := step fill nat (.splitPick f i) l, parts := split f l }
  | .mergeDropDup b a s, l =>
    { out := step fill nat (.mergeDropDup b a s) l,
      hints := [mergeOffsets Gen.C08.mergeDropDupShiftCmp 0 (mergeInputs fill b a s l)] }
  | op, l => { out := step fill nat op l }

/-- the model's run as an observed history -/
def modelChain (fill : α → α) (nat : Nat → α) : List (Op α) → Motl α → List (Op α × Obs α)
  | [], _ => []
  | op :: ops, l => (op, modelObs fill nat op l) :: modelChain fill nat ops (step fill nat op l)

end modelchain
end CryoCat.C08
