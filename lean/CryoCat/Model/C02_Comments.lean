import CryoCat.Model.C02
/-! C02 — the parts of `cryocat/starfileio.py` around the token reader and the block writer:
the comment lists `Starfile.read` returns, its `data_id` argument, `get_specifier_id`,
`get_frame_and_comments`, the `comments` argument of `Starfile.write`, and the CRLF form of a text.
Mathlib-free; executed by the driver. -/
namespace CryoCat.C02

abbrev Comment := List Char

/-! ### reading: comments -/

/-- what one call of `parse_newline_or_comments` returns: the values of the COMMENT tokens of the
leading run of NEWLINE/COMMENT tokens (the tokens left are `skipNC`) -/
def ncComments : List Tok → List Comment
  | .newline :: ts => ncComments ts
  | .comment c :: ts => c :: ncComments ts
  | _ => []

/-- the `while lookahead` loop of `Starfile.read` with the comment lists: per block
`specifier_comments + column_comments + rows_comments` (a comment after a label is consumed by
`parse_column` and not recorded; comments after the last block are dropped) -/
def blocksGoC : Nat → List Tok → Except Err (List (Block × List Comment))
  | 0, _ => .error .trailing
  | fuel + 1, ts =>
    if lookaheadLit ts then
      match parseSpecifier ts with
      | .error e => .error e
      | .ok (name, ts1) =>
        match parseColumns ts1 with
        | .error e => .error e
        | .ok (cols, ts2) =>
          match parseRows cols.length ts2 with
          | .error e => .error e
          | .ok (rows, ts3) =>
            match blocksGoC fuel ts3 with
            | .error e => .error e
            | .ok bs => .ok (({ name := name, cols := cols, rows := rows },
                              ncComments ts ++ (ncComments ts1 ++ ncComments ts2)) :: bs)
    else
      match skipNC ts with
      | [] => .ok []
      | _ :: _ => .error .trailing

def parseBlocksC (ts : List Tok) : Except Err (List (Block × List Comment)) := blocksGoC (ts.length + 1) ts

/-- `Starfile.read(path)`: frames/specifiers (as blocks of cell texts) and comments -/
def readStarC (txt : List Char) : Except Err (List (Block × List Comment)) := parseBlocksC (tokenize txt)

/-! ### reading: `data_id`, `get_specifier_id`, `get_frame_and_comments` -/

/-- Python list indexing `xs[i]` (negative indices count from the end; `none` = IndexError) -/
def pyIndex (len : Nat) (i : Int) : Option Nat :=
  if 0 ≤ i then (if i.toNat < len then some i.toNat else none)
  else (if (-i).toNat ≤ len then some (len - (-i).toNat) else none)

inductive SelErr where
  | parse (e : Err)     -- the whole file is parsed first
  | index               -- IndexError of `frames[data_id]`
  | noEntry             -- ValueError of `get_frame_and_comments`
deriving DecidableEq, Repr

/-- `Starfile.read(path, data_id=i)` -/
def readSel (txt : List Char) (dataId : Int) : Except SelErr (Block × List Comment) :=
  match readStarC txt with
  | .error e => .error (.parse e)
  | .ok bs =>
    match pyIndex bs.length dataId with
    | none => .error .index
    | some k =>
      match bs[k]? with
      | some b => .ok b
      | none => .error .index

/-- `get_specifier_id`: `specifiers.index(s)` if `s in specifiers` else `None` -/
def specifierId : List Word → Word → Option Nat
  | [], _ => none
  | n :: ns, s => if n = s then some 0 else (specifierId ns s).map (· + 1)

/-- `get_frame_and_comments(path, specifier)` -/
def getFrameAndComments (txt : List Char) (s : Word) : Except SelErr (Block × List Comment) :=
  match readStarC txt with
  | .error e => .error (.parse e)
  | .ok bs =>
    match specifierId (bs.map (·.1.name)) s with
    | none => .error .noEntry
    | some k =>
      match bs[k]? with
      | some b => .ok b
      | none => .error .noEntry

/-! ### writing: the `comments` argument -/

/-- `for c in comment: file.write(f"\n# {c}")` then `file.write("\n")` -/
def commentsText (cs : List Comment) : List Char :=
  cs.flatMap (fun c => piece Gen.C02.commentLine 0 ++ c ++ piece Gen.C02.commentLine 1) ++ Gen.C02.commentsEnd

/-- one round of the block loop with its `comment` entry (`None` = nothing written) -/
def printBlockC (numberColumns : Bool) (com : Option (List Comment)) (b : Block) : List Char :=
  (match com with | none => [] | some cs => commentsText cs) ++ printBlock numberColumns b

def printAllC (numberColumns : Bool) : List (Option (List Comment)) → List Block → List Char
  | com :: coms, b :: bs => printBlockC numberColumns com b ++ printAllC numberColumns coms bs
  | _, _ => []

/-- `Starfile.write(frames, path, specifiers, comments, number_columns)`; `none` = the ValueError for
lists of different lengths. `comments=None` is `List.replicate n none`. -/
def printStarC (numberColumns : Bool) (coms : List (Option (List Comment))) (bs : List Block) : Option (List Char) :=
  if coms.length = bs.length then some (printAllC numberColumns coms bs) else none

/-! ### CRLF line ends -/

/-- the text with every line end `\n` replaced by `\r\n` -/
def toCRLF : List Char → List Char
  | [] => []
  | c :: cs => if c = '\n' then '\r' :: '\n' :: toCRLF cs else c :: toCRLF cs

end CryoCat.C02
