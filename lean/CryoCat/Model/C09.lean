import CryoCat.Model.Particle
import CryoCat.Model.M3
import CryoCat.Model.C09_Base
import CryoCat.Gen.C09
/-! C09 — executable model of the four spatial filters of `cryocat/cryomotl.py`
(`remove_out_of_bounds_particles`, `adapt_to_trimming`, `clean_by_distance_to_points`,
`clean_by_tomo_mask`). Mathlib-free, polymorphic in the number type (`Rat` in the driver, any
ordered field in the proofs).

Every filter exists three times:
* `fooWith cfg …`  — the control flow, with the comparison operators / constants as a value `cfg`;
* `foo`            — `fooWith` at the *documented* operators (written here by hand): what the
                     property theorems are about and what the harness uses as the verdict;
* `fooCode`        — `fooWith` at the operators the translator found in the source *today*
                     (`Gen/C09.lean`); `Props/C09` proves `fooCode = foo` (for the out-of-bounds
                     filter: `= oobAsIs ∨ = oob`, see finding C09-K1). -/
namespace CryoCat.C09

variable {α : Type}

/-- `Motl.get_coordinates`: the complete position `x + shift_x, y + shift_y, z + shift_z` -/
def pos [Add α] (p : Particle α) : V3 α := ⟨p.x + p.shift_x, p.y + p.shift_y, p.z + p.shift_z⟩

/-! ## remove_out_of_bounds_particles -/

/-- one row of the dimensions table (`ioutils.dimensions_load`, N×4 form: tomo_id x y z) -/
structure Dim (α : Type) where
  tomo : α
  x : α
  y : α
  z : α
deriving Repr, DecidableEq

/-- `dim.loc[dim["tomo_id"] == tn, "x":"z"].reset_index(drop=True)` then `[...][0]`: the first row
of that tomogram; `none` is the `KeyError` of the real code -/
def lookupDim [DecidableEq α] (dims : List (Dim α)) (t : α) : Option (Dim α) :=
  dims.find? (fun d => decide (d.tomo = t))

inductive BType
  | center | whole | other
deriving DecidableEq, Repr

inductive OobErr
  | unknownBoundaryType | boxSizeMissing | noDimensions
deriving DecidableEq, Repr

/-- `boundary`: `ceil(box_size / 2)` for `"whole"` (a missing or zero box size is refused: `if box_size:`),
`0` for `"center"`, anything else is refused -/
def boundaryWith (cfg : OobCfg) (bt : BType) (box : Option Nat) : Except OobErr Nat :=
  match bt, box with
  | .whole, some (n + 1) => .ok (cfg.rounding.div (n + 1) cfg.divisor)
  | .whole, _ => .error .boxSizeMissing
  | .center, _ => .ok 0
  | .other, _ => .error .unknownBoundaryType

section ordered
variable [Add α] [Sub α] [Mul α] [LT α] [LE α] [DecidableLT α] [DecidableLE α] [DecidableEq α]
  [NatCast α] [OfNat α 0]

/-- the lower-face conjunct of the `if` -/
def lowerOk (f : LowerForm) (b : α) (c : V3 α) : Bool :=
  match f with
  | .vacuousAll => true
  | .elementwise cmp => cmp.eval (c.x - b) 0 && cmp.eval (c.y - b) 0 && cmp.eval (c.z - b) 0

/-- the three upper-face conjuncts `c_max[i] < tomo_dim[axis][0]` -/
def upperOk (cmp : Cmp) (b : α) (c : V3 α) (d : Dim α) : Bool :=
  cmp.eval (c.x + b) d.x && cmp.eval (c.y + b) d.y && cmp.eval (c.z + b) d.z

/-- is the particle kept (its tomogram must have dimensions) -/
def oobKeep (cfg : OobCfg) (dims : List (Dim α)) (b : α) (p : Particle α) : Bool :=
  match lookupDim dims p.tomo_id with
  | some d => lowerOk cfg.lower b (pos p) && upperOk cfg.upper b (pos p) d
  | none => false

/-- `remove_out_of_bounds_particles(dimensions, boundary_type, box_size)`.
Refuses a bad boundary type / missing box size first; then every row looks up the dimensions of its
tomogram (`KeyError` when there are none); survivors are the rows passing the test, in order. -/
def oobWith (cfg : OobCfg) (dims : List (Dim α)) (bt : BType) (box : Option Nat) (l : Motl α) :
    Except OobErr (Motl α) :=
  match boundaryWith cfg bt box with
  | .error e => .error e
  | .ok bn =>
    if l.all (fun p => (lookupDim dims p.tomo_id).isSome) then
      .ok (l.filter (oobKeep cfg dims (bn : α)))
    else .error .noDimensions

/-- documented operators: every axis `c - b >= 0` and `c + b < dim`, `b = ceil(box/2)` -/
def oobCfgDoc : OobCfg := { lower := .elementwise .ge, upper := .lt, rounding := .ceil, divisor := 2 }
/-- the recorded, unrepaired behaviour (finding C09-K1): the lower test is constantly true -/
def oobCfgAsIs : OobCfg := { lower := .vacuousAll, upper := .lt, rounding := .ceil, divisor := 2 }

def oob (dims : List (Dim α)) (bt : BType) (box : Option Nat) (l : Motl α) := oobWith oobCfgDoc dims bt box l
def oobAsIs (dims : List (Dim α)) (bt : BType) (box : Option Nat) (l : Motl α) := oobWith oobCfgAsIs dims bt box l
def oobCode (dims : List (Dim α)) (bt : BType) (box : Option Nat) (l : Motl α) := oobWith Gen.C09.oobCfg dims bt box l

/-! ## adapt_to_trimming -/

/-- `df[["x","y","z"]] -= trimvol_coord`: only the extraction position moves -/
def shiftXYZ (o : V3 α) (p : Particle α) : Particle α :=
  { p with x := p.x - o.x, y := p.y - o.y, z := p.z - o.z }

/-- `trimvol_coord = trim_coord_start - 1` -/
def trimOrigin (cfg : TrimCfg) (s : V3 α) : V3 α :=
  ⟨s.x - (cfg.offset : α), s.y - (cfg.offset : α), s.z - (cfg.offset : α)⟩

/-- `tdim = trim_coord_end - trimvol_coord` -/
def trimDim (cfg : TrimCfg) (s e : V3 α) : V3 α := e - trimOrigin cfg s

def trimLowOut (cfg : TrimCfg) (p : Particle α) : Bool :=
  cfg.lowCmp.eval p.x (cfg.lowBound : α) || cfg.lowCmp.eval p.y (cfg.lowBound : α) || cfg.lowCmp.eval p.z (cfg.lowBound : α)

def trimHighOut (cfg : TrimCfg) (t : V3 α) (p : Particle α) : Bool :=
  cfg.highCmp.eval p.x t.x || cfg.highCmp.eval p.y t.y || cfg.highCmp.eval p.z t.z

/-- `adapt_to_trimming(trim_coord_start, trim_coord_end)`: shift x,y,z of every row, then drop the
rows with a coordinate `< 1`, then the rows with a coordinate `> tdim` -/
def trimWith (cfg : TrimCfg) (s e : V3 α) (l : Motl α) : Motl α :=
  ((l.map (shiftXYZ (trimOrigin cfg s))).filter (fun p => !trimLowOut cfg p)).filter
    (fun p => !trimHighOut cfg (trimDim cfg s e) p)

def trimCfgDoc : TrimCfg := { offset := 1, lowCmp := .lt, lowBound := 1, highCmp := .gt }
def trim (s e : V3 α) (l : Motl α) := trimWith trimCfgDoc s e l
def trimCode (s e : V3 α) (l : Motl α) := trimWith Gen.C09.trimCfg s e l

/-! ## clean_by_distance_to_points -/

/-- a reference point with the tomogram it belongs to -/
structure Pt (α : Type) where
  tomo : α
  c : V3 α
deriving Repr, DecidableEq

/-- squared Euclidean distance -/
def dist2 (a b : V3 α) : α :=
  (a.x - b.x) * (a.x - b.x) + (a.y - b.y) * (a.y - b.y) + (a.z - b.z) * (a.z - b.z)

/-- `KDTree(coord1).query_ball_point(point, r)`: the closed ball `dist² ≤ r²`, which for a radius
`r ≥ 0` is `dist ≤ r` (`Props/C09.closed_ball_iff`); library assumption: the KD-tree query equals
brute force. (scipy compares squares, so a negative radius acts like `|r|`; radii are ≥ 0 in the
property.) -/
def inBall (r : α) (q c : V3 α) : Bool := decide (dist2 c q ≤ r * r)

/-- within the radius of some reference point of the same tomogram -/
def nearPoint (r : α) (pts : List (Pt α)) (p : Particle α) : Bool :=
  pts.any (fun q => decide (q.tomo = p.tomo_id) && inBall r q.c (pos p))

/-- `Series.unique()`: distinct values in order of first appearance -/
def uniques : List α → List α
  | [] => []
  | a :: l => a :: (uniques l).filter (fun b => !decide (b = a))

/-- `clean_by_distance_to_points(points, radius)`: loop over the tomograms in order of first
appearance, drop the rows of that tomogram hit by a ball query, concatenate the groups -/
def cleanPoints (r : α) (pts : List (Pt α)) (l : Motl α) : Motl α :=
  (uniques (l.map (·.tomo_id))).flatMap
    (fun t => (l.filter (fun p => decide (p.tomo_id = t))).filter (fun p => !nearPoint r pts p))

/-- **the statement of the reference-point clause, executable** (what the driver answers as `spec`): the input without
the particles within the radius of a point of their tomogram — no grouping, no loop, input order -/
def cleanPointsStmt (r : α) (pts : List (Pt α)) (l : Motl α) : Motl α :=
  l.filter (fun p => !nearPoint r pts p)

/-! ## clean_by_tomo_mask -/

/-- a binarised mask volume: shape and the voxel values (`true` = non-zero), indexed `[x, y, z]` -/
structure Mask where
  sx : Nat
  sy : Nat
  sz : Nat
  val : Nat → Nat → Nat → Bool

/-- integer voxel index of a particle: `get_coordinates().astype(int)`; the truncation `tr` is a
parameter (C cast semantics, `Rat` truncation toward zero in the driver) -/
def voxel (tr : α → Int) (p : Particle α) : V3 Int := ⟨tr (pos p).x, tr (pos p).y, tr (pos p).z⟩

/-- `np.all(coords >= 0, axis=1) & (coords[:,0] < shape[0]) & …` -/
def withinMask (cfg : MaskCfg) (m : Mask) (v : V3 Int) : Bool :=
  (cfg.lowCmp.eval v.x 0 && cfg.lowCmp.eval v.y 0 && cfg.lowCmp.eval v.z 0) &&
  (cfg.highCmp.eval v.x (m.sx : Int) && cfg.highCmp.eval v.y (m.sy : Int) && cfg.highCmp.eval v.z (m.sz : Int))

/-- the looked-up voxel as 0/1 -/
def maskValue (m : Mask) (v : V3 Int) : Int := if m.val v.x.toNat v.y.toNat v.z.toNat then 1 else 0

/-- inside the mask volume and `mask_values == 0` -/
def maskHit (cfg : MaskCfg) (tr : α → Int) (m : Mask) (p : Particle α) : Bool :=
  withinMask cfg m (voxel tr p) && cfg.zeroCmp.eval (maskValue m (voxel tr p)) 0

inductive MaskArg
  | single (m : Mask)          -- one mask for every listed tomogram
  | perTomo (ms : List Mask)   -- a list, one per listed tomogram

inductive MaskErr
  | lengthMismatch
deriving DecidableEq, Repr

/-- pair the listed tomograms with their masks; a list of the wrong length is refused (`ValueError`) -/
def pairMasks (tomos : List α) (arg : MaskArg) : Except MaskErr (List (α × Mask)) :=
  match arg with
  | .single m => .ok (tomos.map (fun t => (t, m)))
  | .perTomo ms => if tomos.length = ms.length then .ok (tomos.zip ms) else .error .lengthMismatch

/-- the `subtomo_id`s collected in the loop iteration of one listed tomogram: its particles — of the
ORIGINAL list, the code reads `self.get_motl_subset(t)`, not the list being cleaned — that lie inside
the mask volume on a zero voxel -/
def maskIdsOf (cfg : MaskCfg) (tr : α → Int) (l : Motl α) (tmk : α × Mask) : List α :=
  ((l.filter (fun p => decide (p.tomo_id = tmk.1))).filter (maskHit cfg tr tmk.2)).map (·.subtomo_id)

/-- all collected ids, over all listed tomograms (what the code up to 0eff65b handed to `remove_feature`) -/
def maskRemoveIds (cfg : MaskCfg) (tr : α → Int) (tm : List (α × Mask)) (l : Motl α) : List α :=
  tm.flatMap (maskIdsOf cfg tr l)

/-- is the row dropped in the loop iteration of the listed tomogram `tmk`:
`byTomoAndId`: `(df["tomo_id"] == t) & df["subtomo_id"].isin(ids)`; `byId`: `remove_feature("subtomo_id", ids)` -/
def maskDrops (cfg : MaskCfg) (tr : α → Int) (l : Motl α) (tmk : α × Mask) (p : Particle α) : Bool :=
  match cfg.scope with
  | .byId => (maskIdsOf cfg tr l tmk).contains p.subtomo_id
  | .byTomoAndId => decide (p.tomo_id = tmk.1) && (maskIdsOf cfg tr l tmk).contains p.subtomo_id

/-- one loop iteration: `cleaned.df = cleaned.df.loc[~drops]` -/
def maskStep (cfg : MaskCfg) (tr : α → Int) (l : Motl α) (acc : Motl α) (tmk : α × Mask) : Motl α :=
  acc.filter (fun p => !maskDrops cfg tr l tmk p)

/-- `clean_by_tomo_mask(tomo_list, tomo_masks)`: a copy of the list is cleaned tomogram by tomogram, in
the order of `tomo_list`; the ids to drop are always computed from the original list -/
def cleanMaskWith (cfg : MaskCfg) (tr : α → Int) (tomos : List α) (arg : MaskArg) (l : Motl α) :
    Except MaskErr (Motl α) :=
  match pairMasks tomos arg with
  | .error e => .error e
  | .ok tm => .ok (tm.foldl (maskStep cfg tr l) l)

/-! ### how `tomo_list` reaches the pairing with the masks: `ioutils.tlt_load(tomo_list, sort_angles)` -/

/-- the forms of the `tomo_list` argument: values handed over in memory (list, tuple, ndarray, a single number) or the
path of a file holding one value per line (`fromFile l`: the values in the order of the lines) -/
inductive TomoArg (α : Type)
  | asGiven (l : List α)
  | fromFile (l : List α)

/-- the tomograms the caller listed, in the caller's order (entry `i` belongs to mask `i`) -/
def TomoArg.values : TomoArg α → List α
  | .asGiven l => l
  | .fromFile l => l

/-- insertion into an ascending list -/
def insertAsc (a : α) : List α → List α
  | [] => [a]
  | b :: l => if a ≤ b then a :: b :: l else b :: insertAsc a l

/-- `np.sort`: the values in ascending order -/
def sortAsc : List α → List α
  | [] => []
  | a :: l => insertAsc a (sortAsc l)

/-- `ioutils.tlt_load(input, sort_angles)`: an ndarray is returned as it is and a list as `np.asarray(list)` — never sorted;
the values read from a file are sorted exactly when `sort_angles` holds (written for tilt angles) -/
def tltLoad (sortAngles : Bool) : TomoArg α → List α
  | .asGiven l => l
  | .fromFile l => if sortAngles then sortAsc l else l

/-- what the READER of a text file does to every number (`rd`): only the file form is read -/
def TomoArg.readWith (rd : α → α) : TomoArg α → TomoArg α
  | .asGiven l => .asGiven l
  | .fromFile l => .fromFile (l.map rd)

/-- `clean_by_tomo_mask(tomo_list, tomo_masks)` from the argument as handed over: load the list, then the loop -/
def cleanMaskArgWith (cfg : MaskCfg) (sortFile : Bool) (tr : α → Int) (ta : TomoArg α) (arg : MaskArg) (l : Motl α) :
    Except MaskErr (Motl α) :=
  cleanMaskWith cfg tr (tltLoad sortFile ta) arg l

def maskCfgDoc : MaskCfg := { lowCmp := .ge, highCmp := .lt, zeroCmp := .eq, scope := .byTomoAndId }
/-- the code up to commit 0eff65b: removal by `subtomo_id` on the whole list (regression witness) -/
def maskCfgById : MaskCfg := { lowCmp := .ge, highCmp := .lt, zeroCmp := .eq, scope := .byId }
def cleanMask (tr : α → Int) (tomos : List α) (arg : MaskArg) (l : Motl α) := cleanMaskWith maskCfgDoc tr tomos arg l
def cleanMaskById (tr : α → Int) (tomos : List α) (arg : MaskArg) (l : Motl α) := cleanMaskWith maskCfgById tr tomos arg l
def cleanMaskCode (tr : α → Int) (tomos : List α) (arg : MaskArg) (l : Motl α) := cleanMaskWith Gen.C09.maskCfg tr tomos arg l
/-- documented: the list is used AS GIVEN whatever its form (`tlt_load(tomo_list, sort_angles=False)`) -/
def cleanMaskArg (tr : α → Int) (ta : TomoArg α) (arg : MaskArg) (l : Motl α) := cleanMaskArgWith maskCfgDoc false tr ta arg l
/-- the code before the repair `tlt_load(tomo_list, sort_angles=False)`: a list read from a file was sorted (regression witness) -/
def cleanMaskArgSorted (tr : α → Int) (ta : TomoArg α) (arg : MaskArg) (l : Motl α) := cleanMaskArgWith maskCfgDoc true tr ta arg l
/-- today's source: operators and the effective `sort_angles` as the translator found them -/
def cleanMaskArgCode (tr : α → Int) (ta : TomoArg α) (arg : MaskArg) (l : Motl α) :=
  cleanMaskArgWith Gen.C09.maskCfg Gen.C09.maskTomoFileSorted tr ta arg l
/-- today's source including the READER of a tomogram file: exact when the translator found the 64-bit reader
(`Gen.C09.maskTomoFileExact`), otherwise every number of the file passes `rd32` (the float32 reader `one_value_per_line_read`
defaults to) before it is compared with `tomo_id` -/
def cleanMaskFileCode (rd32 : α → α) (tr : α → Int) (ta : TomoArg α) (arg : MaskArg) (l : Motl α) :=
  cleanMaskArgCode tr (ta.readWith (if Gen.C09.maskTomoFileExact then id else rd32)) arg l

/-! ### the STATEMENT of the mask clause, executable: what the driver answers as `spec` -/

/-- `0 ≤ idx < shape` on every axis -/
def insideMask (m : Mask) (v : V3 Int) : Bool :=
  (decide (0 ≤ v.x) && decide (0 ≤ v.y) && decide (0 ≤ v.z)) &&
  (decide (v.x < (m.sx : Int)) && decide (v.y < (m.sy : Int)) && decide (v.z < (m.sz : Int)))

/-- the particle's voxel lies inside the volume of a mask listed for ITS tomogram and that voxel is zero -/
def onZeroVoxel (tr : α → Int) (tm : List (α × Mask)) (p : Particle α) : Bool :=
  tm.any (fun tmk => decide (p.tomo_id = tmk.1) && (insideMask tmk.2 (voxel tr p) &&
    !tmk.2.val (voxel tr p).x.toNat (voxel tr p).y.toNat (voxel tr p).z.toNat))

/-- "removes exactly the particles inside the mask volume that sit on zero voxels and keeps all others":
the input filtered by `¬ onZeroVoxel`, nothing else — no ids, no loop -/
def cleanMaskStmt (tr : α → Int) (tomos : List α) (arg : MaskArg) (l : Motl α) : Except MaskErr (Motl α) :=
  match pairMasks tomos arg with
  | .error e => .error e
  | .ok tm => .ok (l.filter (fun p => !onZeroVoxel tr tm p))

/-- the code before commit a0240b0 (regression witness): no lower bound (negative indices wrap
around, numpy style) and the positions *within the bounds-filtered array* are used as row labels
of the unfiltered per-tomogram frame -/
def maskRemoveIdsOld (tr : α → Int) (tm : List (α × Mask)) (l : Motl α) : List α :=
  tm.flatMap (fun tmk =>
    let sub := l.filter (fun p => decide (p.tomo_id = tmk.1))
    let m := tmk.2
    let wrap (i : Int) (n : Nat) : Nat := (if i < 0 then i + n else i).toNat
    let inb := sub.filter (fun p =>
      let v := voxel tr p
      decide (v.x < (m.sx : Int)) && decide (v.y < (m.sy : Int)) && decide (v.z < (m.sz : Int)))
    let idx := (List.range inb.length).filter (fun i =>
      match inb[i]? with
      | some p => let v := voxel tr p; !m.val (wrap v.x m.sx) (wrap v.y m.sy) (wrap v.z m.sz)
      | none => false)
    idx.filterMap (fun i => (sub[i]?).map (·.subtomo_id)))

def cleanMaskOld (tr : α → Int) (tomos : List α) (arg : MaskArg) (l : Motl α) : Except MaskErr (Motl α) :=
  match pairMasks tomos arg with
  | .error e => .error e
  | .ok tm => .ok (l.filter (fun p => !(maskRemoveIdsOld tr tm l).contains p.subtomo_id))

end ordered

/-- `cryomap.binarize(mask)`: the voxel counts as non-zero when `value <cmp> threshold` (documented: `value > 0.5`) -/
def binarizeWith (cfg : BinarizeCfg) (v : Rat) : Bool := cfg.cmp.eval v (mkRat cfg.thrNum cfg.thrDen)
def binarizeCfgDoc : BinarizeCfg := { cmp := .gt, thrNum := 1, thrDen := 2 }

/-- round a natural number to the nearest multiple of `step`, ties to the even multiple (IEEE round-half-even) -/
def roundHalfEven (step a : Nat) : Nat :=
  let q := a / step
  let r := a % step
  if 2 * r < step then q * step else if step < 2 * r then (q + 1) * step else if q % 2 = 0 then q * step else (q + 1) * step

/-- **an integer stored as float32** (24-bit significand): exact below 2^24; from 2^k on (k = 24..31) only multiples of
2^(k-23) exist. Modelled for |n| < 2^32 (tomogram numbers; beyond that the spacing 256 is kept — a partial model). -/
def f32Int (n : Int) : Int :=
  let a := n.natAbs
  let step : Nat :=
    if a < 2 ^ 24 then 1 else if a < 2 ^ 25 then 2 else if a < 2 ^ 26 then 4 else if a < 2 ^ 27 then 8 else if a < 2 ^ 28 then 16
    else if a < 2 ^ 29 then 32 else if a < 2 ^ 30 then 64 else if a < 2 ^ 31 then 128 else 256
  if n < 0 then -((roundHalfEven step a : Nat) : Int) else ((roundHalfEven step a : Nat) : Int)

/-- the same on a rational that holds an integer (tomogram numbers); other values untouched -/
def f32Rat (q : Rat) : Rat := if q.den = 1 then ((f32Int q.num : Int) : Rat) else q

/-- truncation toward zero of a rational (`numpy` `astype(int)` of a float holding that value) -/
def truncRat (q : Rat) : Int := Int.tdiv q.num q.den

end CryoCat.C09
