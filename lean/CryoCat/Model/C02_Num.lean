import CryoCat.Model.C02
/-! C02 — the cells `Starfile.write` prints for numbers: `str(v)` of an `int` and of a `float`
(Python's `repr`, float_repr_style `short`), as functions of the value's decimal digit string.
The digit string of a float (its shortest round-trip digits after `round(6)`) is *given*; what is
modelled is how `repr` lays the digits out (fixed / exponent form, the thresholds 16 and -4, `.0`,
two-digit exponent, `inf`, `nan`). Mathlib-free; executed by the driver. -/
namespace CryoCat.C02

/-- a float as `repr` sees it: sign, shortest digit string `ds` and the position of the decimal point
(value = ±0.d₁d₂… × 10^decpt), or one of the non-finite values -/
inductive FloatVal where
  | fin (neg : Bool) (ds : Word) (decpt : Int)
  | inf (neg : Bool)
  | nan
deriving DecidableEq, Repr

/-- a cell of a table handed to `Starfile.write` -/
inductive Cell where
  | int (n : Int)
  | flt (f : FloatVal)
  | txt (w : Word)
deriving DecidableEq, Repr

def signText (neg : Bool) : Word := if neg then ['-'] else []

/-- `str(n)` of an integer -/
def intStr : Int → Word
  | .ofNat k => natDigits k
  | .negSucc k => '-' :: natDigits (k + 1)

def zeros (k : Nat) : Word := List.replicate k '0'

/-- the exponent of `repr`: at least two digits (`"e%+.02d"`) -/
def expDigits (e : Nat) : Word := if e < 10 then '0' :: natDigits e else natDigits e

/-- the body of `repr(x)` for a finite float, from its digits: exponent form iff `decpt > 16` or
`decpt ≤ -4` (`d[.ddd]e±XX`), else fixed form with at least one digit on either side of the point -/
def floatBody (ds : Word) (decpt : Int) : Word :=
  if decpt > 16 ∨ decpt < -3 then
    let e := decpt - 1
    ds.take 1 ++ (if ds.length > 1 then '.' :: ds.drop 1 else []) ++
      'e' :: (if e < 0 then '-' else '+') :: expDigits e.natAbs
  else if decpt ≤ 0 then
    '0' :: '.' :: (zeros (-decpt).toNat ++ ds)
  else if ds.length ≤ decpt.toNat then
    ds ++ zeros (decpt.toNat - ds.length) ++ ['.', '0']
  else ds.take decpt.toNat ++ '.' :: ds.drop decpt.toNat

def floatRepr (neg : Bool) (ds : Word) (decpt : Int) : Word := signText neg ++ floatBody ds decpt

def floatStr : FloatVal → Word
  | .fin neg ds decpt => floatRepr neg ds decpt
  | .inf neg => signText neg ++ ['i', 'n', 'f']
  | .nan => ['n', 'a', 'n']

/-- `str(value)` as used by `format_value` -/
def cellText : Cell → Word
  | .int n => intStr n
  | .flt f => floatStr f
  | .txt w => w

/-- a table of typed cells -/
structure TBlock where
  name : Word
  cols : List Word
  rows : List (List Cell)
deriving DecidableEq, Repr

/-- the table of cell texts `Starfile.write` formats -/
def TBlock.texts (b : TBlock) : Block :=
  { name := b.name, cols := b.cols, rows := b.rows.map (fun r => r.map cellText) }

/-- `Starfile.write` on typed tables -/
def printTyped (numberColumns : Bool) (bs : List TBlock) : List Char :=
  printStar numberColumns (bs.map TBlock.texts)

end CryoCat.C02
