import CryoCat.Model.M3
import CryoCat.Gen.C03
/-! C03 — model of the RELION ↔ cryoCAT conversion of `RelionMotl` (cryocat/cryomotl.py). Mathlib-free,
polymorphic in the number type: the driver runs it at `Float`, the theorems are over any commutative
ring / field.

Angles are *abstract angles* `(c, s)` (cosine, sine). scipy's `Rotation.as_euler` is a PARAMETER
`asEuler : M3 α → Ang3 α` of the model; theorems assume only its post-condition ("the returned triple,
read in the requested sequence, is the matrix it was given"). Everything the code itself decides — the
Euler sequences handed to scipy, which returned slot goes to which column and with which sign, the sign and
the pixel-size scaling of shifts, the version dispatch, half-set parity — is taken from `Gen.C03`,
i.e. from the current source. -/
namespace CryoCat.C03
open CryoCat

/-- an angle given by its cosine and sine -/
structure Ang (α : Type) where
  c : α
  s : α
deriving Repr, DecidableEq, Inhabited

/-- three angles in the order a library call receives / returns them -/
structure Ang3 (α : Type) where
  a : Ang α
  b : Ang α
  c : Ang α
deriving Repr, DecidableEq, Inhabited

variable {α : Type}

/-- the angle `-t` -/
def Ang.neg [Neg α] (t : Ang α) : Ang α := ⟨t.c, -t.s⟩
def Ang.signed [Neg α] (negate : Bool) (t : Ang α) : Ang α := if negate then t.neg else t
/-- `c² + s² = 1` -/
def Ang.Unit [Add α] [Mul α] [OfNat α 1] (t : Ang α) : Prop := t.c * t.c + t.s * t.s = 1
def Ang3.Unit [Add α] [Mul α] [OfNat α 1] (t : Ang3 α) : Prop := t.a.Unit ∧ t.b.Unit ∧ t.c.Unit
/-- column `k` of an `(n, 3)` angle array -/
def Ang3.slot (t : Ang3 α) : Nat → Ang α
  | 0 => t.a
  | 1 => t.b
  | _ => t.c

section rotations
variable [OfNat α 0] [OfNat α 1] [Neg α] [Add α] [Mul α]

/-- elementary active rotation about the axis named by a letter of a scipy sequence string -/
def axisRot (ax : Char) (t : Ang α) : M3 α :=
  if ax = 'x' ∨ ax = 'X' then rx t.c t.s
  else if ax = 'y' ∨ ax = 'Y' then ry t.c t.s
  else rz t.c t.s

/-- `scipy.spatial.transform.Rotation.from_euler(seq, [a, b, c]).as_matrix()`: upper-case sequences are
intrinsic (`R₁(a)·R₂(b)·R₃(c)`), lower-case extrinsic (`R₃(c)·R₂(b)·R₁(a)`). -/
def eulerMat (seq : List Char) (t : Ang3 α) : M3 α :=
  match seq with
  | [p, q, r] =>
    if p.isUpper then axisRot p t.a * axisRot q t.b * axisRot r t.c
    else axisRot r t.c * axisRot q t.b * axisRot p t.a
  | _ => M3.one

/-- rotation of a cryoCAT particle with Euler angles (phi, theta, psi): scipy extrinsic `"zxz"` -/
def particleMat (t : Ang3 α) : M3 α := eulerMat ['z', 'x', 'z'] t
/-- rotation described by RELION's (rlnAngleRot, rlnAngleTilt, rlnAnglePsi): intrinsic `"ZYZ"` -/
def relionMat (t : Ang3 α) : M3 α := eulerMat ['Z', 'Y', 'Z'] t

/-- which returned slot goes into which output column, and with which sign
(`relion_df["rlnAngleRot"] = -angles[:, 0]` is `("rlnAngleRot", true, 0)`) -/
def applySlots (slots : List (String × Bool × Nat)) (e : Ang3 α) : Ang3 α :=
  match slots with
  | [(_, n0, k0), (_, n1, k1), (_, n2, k2)] =>
    ⟨(e.slot k0).signed n0, (e.slot k1).signed n1, (e.slot k2).signed n2⟩
  | _ => e

/-- the matrix `convert_angles_to_relion` hands to scipy: `rot.from_euler("ZXZ", self.get_angles())` -/
def exportFed (ang : Ang3 α) : M3 α := eulerMat Gen.C03.exportFromSeq ang

/-- `convert_angles_to_relion`: (rlnAngleRot, rlnAngleTilt, rlnAnglePsi) of a particle with (phi, theta, psi) -/
def exportAngles (asEuler : M3 α → Ang3 α) (ang : Ang3 α) : Ang3 α :=
  applySlots Gen.C03.exportSlots (asEuler (exportFed ang))

/-- the matrix `convert_angles_from_relion` hands to scipy: `rot.from_euler("ZYZ", [rot, tilt, psi])` -/
def importFed (rln : Ang3 α) : M3 α := eulerMat Gen.C03.importFromSeq rln

/-- `convert_angles_from_relion`: (phi, theta, psi) for RELION angles (rot, tilt, psi) -/
def importAngles (asEuler : M3 α → Ang3 α) (rln : Ang3 α) : Ang3 α :=
  applySlots Gen.C03.importSlots (asEuler (importFed rln))

end rotations

/-! ### versions (in tenths: 30, 31, 40), coordinates, shifts -/

def cmpVer (op : String) (v thr : Nat) : Bool :=
  if op = "<=" then decide (v ≤ thr)
  else if op = ">=" then decide (v ≥ thr)
  else if op = "==" then decide (v = thr)
  else if op = "<" then decide (v < thr)
  else if op = ">" then decide (v > thr)
  else false

structure VNames where
  tomo : String
  sub : String
  shifts : List String
  spec : String
deriving Repr, DecidableEq

def versionNamesIn : List (String × Nat × String × String × List String × String) → Nat → Option VNames
  | [], _ => none
  | (op, thr, t, s, sh, sp) :: rest, v =>
    if op = "else" ∨ cmpVer op v thr = true then some ⟨t, s, sh, sp⟩ else versionNamesIn rest v

/-- `RelionMotl.get_version_specific_names` -/
def versionNames (v : Nat) : Option VNames := versionNamesIn Gen.C03.nameBranches v

/-- origins are in Ångström (and get divided by the pixel size) -/
def originInAngstrom (v : Nat) : Bool := cmpVer Gen.C03.shiftScaleCmp v Gen.C03.shiftScaleThr

/-- `get_coordinates`: complete position -/
def exportCoord [Add α] (x s : α) : α := if Gen.C03.coordAdds then x + s else x

/-- `prepare_particles_data`: `relion_df.loc[:, shifts_name] = np.zeros(...)` -/
def exportOrigin [OfNat α 0] [OfNat α 1] : α := if Gen.C03.exportOriginZero then 0 else 1

/-- `convert_shifts` -/
def importShift [Neg α] [Div α] (v : Nat) (px o : α) : α :=
  let w := if Gen.C03.shiftNegated then -o else o
  if originInAngstrom v && Gen.C03.shiftScaleDivides then w / px else w

/-- the pose part of a cryoCAT particle -/
structure Pose (α : Type) where
  x : α
  y : α
  z : α
  sx : α
  sy : α
  sz : α
  ang : Ang3 α

/-- the pose part of a RELION row -/
structure RPose (α : Type) where
  cx : α
  cy : α
  cz : α
  ox : α
  oy : α
  oz : α
  ang : Ang3 α

def Pose.position [Add α] (p : Pose α) : V3 α := ⟨p.x + p.sx, p.y + p.sy, p.z + p.sz⟩

section poses
variable [OfNat α 0] [OfNat α 1] [Neg α] [Add α] [Mul α]

def Pose.rotation (p : Pose α) : M3 α := particleMat p.ang
def RPose.rotation (r : RPose α) : M3 α := relionMat r.ang

/-- `create_relion_df` (pose columns; binning 1) -/
def exportPose (asEuler : M3 α → Ang3 α) (p : Pose α) : RPose α :=
  { cx := exportCoord p.x p.sx, cy := exportCoord p.y p.sy, cz := exportCoord p.z p.sz,
    ox := exportOrigin, oy := exportOrigin, oz := exportOrigin, ang := exportAngles asEuler p.ang }

/-- `convert_to_motl` (pose columns) -/
def importPose [Div α] (asEuler : M3 α → Ang3 α) (v : Nat) (px : α) (r : RPose α) : Pose α :=
  { x := r.cx, y := r.cy, z := r.cz,
    sx := importShift v px r.ox, sy := importShift v px r.oy, sz := importShift v px r.oz,
    ang := importAngles asEuler r.ang }

end poses

/-! ### identity: half-sets, generated names, parsing names back -/

/-- `rlnRandomSubset` from the parity of `subtomo_id` (`create_relion_df`) -/
def halfsetOf (id : Nat) : Nat := (Gen.C03.halfsetByParity.lookup (id % 2)).getD 0

/-- one step of the renumbering loop of `parse_subtomo_id` -/
def renumberStep (c h : Nat) : Nat :=
  if (c % 2 == 1 && h % 2 == 1) || (c % 2 == 0 && h % 2 == 0) then c + 2 else c + 1

def renumberFrom (c : Nat) : List Nat → List Nat
  | [] => []
  | h :: t => renumberStep c h :: renumberFrom (renumberStep c h) t

/-- the half-set renumbering of `parse_subtomo_id`: new subtomo ids from the `rlnRandomSubset` column -/
def renumber : List Nat → List Nat
  | [] => []
  | h :: t => (if h % 2 = 1 then 1 else 2) :: renumberFrom (if h % 2 = 1 then 1 else 2) t

/-- subtomo ids after import: parsed numbers; 1..n when they repeat; renumbered by half-set when every entry of
the half-set column is 1 or 2 (`isin([1, 2]).all()`) -/
def importSubtomoIds (parsed : List Nat) (halfsets : Option (List Nat)) : List Nat :=
  let base := if parsed.eraseDups.length = parsed.length then parsed else List.range' 1 parsed.length
  match halfsets with
  | some hs => if hs.all (fun h => h == 1 || h == 2) then renumber hs else base
  | none => base

/-- Python `str.zfill` on a string of digits -/
def zfill (k : Nat) (ds : List Char) : List Char := List.replicate (k - ds.length) '0' ++ ds

def runLen (c : Char) : List Char → Nat
  | [] => 0
  | h :: t => if h = c then runLen c t + 1 else 0

/-- length of the longest `$ccc…` sequence (`find_longest_sequence`), 0 when there is none -/
def longestSeq (c : Char) : List Char → Nat
  | [] => 0
  | h :: t => if h = '$' then max (runLen c t) (longestSeq c t) else longestSeq c t

/-- `str.replace("$" + c*k, rep)`; the first argument counts characters still to be skipped -/
def replaceSeq (c : Char) (k : Nat) (rep : List Char) : Nat → List Char → List Char
  | _, [] => []
  | skip + 1, _ :: t => replaceSeq c k rep skip t
  | 0, h :: t =>
    if h = '$' ∧ k ≤ runLen c t then rep ++ replaceSeq c k rep k t else h :: replaceSeq c k rep 0 t

/-- replace the longest `$ccc…` sequence by the zero-padded number; `none` when there is no sequence -/
def fillFormat (fmt : List Char) (c : Char) (n : Nat) : Option (List Char) :=
  let k := longestSeq c fmt
  if k = 0 then none else some (replaceSeq c k (zfill k (Nat.toDigits 10 n)) 0 fmt)

/-- tomogram name of `prepare_particles_data` (`none` = the code raises) -/
def tomoName (fmt : List Char) (tomo : Nat) : Option (List Char) :=
  if fmt = [] then some (Nat.toDigits 10 tomo) else fillFormat fmt 'x' tomo

/-- subtomogram name of `prepare_particles_data` -/
def subName (fmt : List Char) (tomo sub : Nat) : Option (List Char) :=
  if fmt = [] then some (Nat.toDigits 10 sub) else
  match fillFormat fmt 'y' sub with
  | none => none
  | some s => some ((fillFormat s 'x' tomo).getD s)

/-- `name.rsplit("/", 1)[-1]` -/
def lastComponentAux : List Char → List Char → List Char
  | acc, [] => acc
  | acc, h :: t => if h = '/' then lastComponentAux t t else lastComponentAux acc t
def lastComponent (s : List Char) : List Char := lastComponentAux s s

def numbersAux : Option Nat → List Char → List Nat
  | acc, [] => acc.toList
  | acc, h :: t =>
    if h.isDigit then numbersAux (some (10 * acc.getD 0 + (h.toNat - '0'.toNat))) t
    else acc.toList ++ numbersAux none t

/-- `[float(m) for m in re.findall(r"\d+", s)]` -/
def numbers (s : List Char) : List Nat := numbersAux none s

/-- `parse_tomo_id` on a name column: first number of the last path component -/
def parseTomo (name : List Char) : Option Nat := (numbers (lastComponent name))[Gen.C03.tomoNumberIndex]?

/-- `parse_subtomo_id`: a numeric cell is the number itself (`isinstance(i, (int, float))`); otherwise, for
version ≥ 4.0 the whole last component is the number, else its second number -/
def parseSub (v : Nat) (name : List Char) : Option Nat :=
  let lc := lastComponent name
  if name ≠ [] ∧ name.all Char.isDigit then some (Nat.ofDigitChars 10 name 0)
  else if cmpVer Gen.C03.subtomoWholeCmp v Gen.C03.subtomoWholeThr then
    (if lc ≠ [] ∧ lc.all Char.isDigit then some (Nat.ofDigitChars 10 lc 0) else none)
  else (numbers lc)[Gen.C03.subtomoNumberIndex]?

end CryoCat.C03
