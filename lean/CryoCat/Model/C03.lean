import CryoCat.Model.M3
import CryoCat.Gen.C03
/-! C03 — model of the RELION ↔ cryoCAT conversion of `RelionMotl` (cryocat/cryomotl.py). Mathlib-free,
polymorphic in the number type: the driver runs it at `Float`, the theorems are over any commutative
ring / field.

Angles are *abstract angles* `(c, s)` (cosine, sine). scipy's `Rotation.as_euler` is a PARAMETER
`asEuler : M3 α → Ang3 α` of the model; theorems assume only its post-condition ("the returned triple,
read in the requested sequence, is the matrix it was given"). Everything the code itself decides — the
Euler sequences handed to scipy, which returned slot goes to which column and with which sign, the sign and
the pixel-size scaling of shifts, the version dispatch, half-set parity — is taken from `Gen.C03`,
i.e. from the current source. -/
namespace CryoCat.C03
open CryoCat

/-- an angle given by its cosine and sine -/
structure Ang (α : Type) where
  c : α
  s : α
deriving Repr, DecidableEq, Inhabited

/-- three angles in the order a library call receives / returns them -/
structure Ang3 (α : Type) where
  a : Ang α
  b : Ang α
  c : Ang α
deriving Repr, DecidableEq, Inhabited

variable {α : Type}

/-- the angle `-t` -/
def Ang.neg [Neg α] (t : Ang α) : Ang α := ⟨t.c, -t.s⟩
def Ang.signed [Neg α] (negate : Bool) (t : Ang α) : Ang α := if negate then t.neg else t
/-- `c² + s² = 1` -/
def Ang.Unit [Add α] [Mul α] [OfNat α 1] (t : Ang α) : Prop := t.c * t.c + t.s * t.s = 1
def Ang3.Unit [Add α] [Mul α] [OfNat α 1] (t : Ang3 α) : Prop := t.a.Unit ∧ t.b.Unit ∧ t.c.Unit
/-- column `k` of an `(n, 3)` angle array; `none` for any other index (numpy raises IndexError) -/
def Ang3.slot? (t : Ang3 α) : Nat → Option (Ang α)
  | 0 => some t.a
  | 1 => some t.b
  | 2 => some t.c
  | _ => none

section rotations
variable [OfNat α 0] [OfNat α 1] [Neg α] [Add α] [Mul α]

/-- elementary active rotation about the axis named by a letter of a scipy sequence string;
`none` for any letter scipy does not accept -/
def axisRot (ax : Char) (t : Ang α) : Option (M3 α) :=
  if ax = 'x' ∨ ax = 'X' then some (rx t.c t.s)
  else if ax = 'y' ∨ ax = 'Y' then some (ry t.c t.s)
  else if ax = 'z' ∨ ax = 'Z' then some (rz t.c t.s)
  else none

/-- `scipy.spatial.transform.Rotation.from_euler(seq, [a, b, c]).as_matrix()`: upper-case sequences are
intrinsic (`R₁(a)·R₂(b)·R₃(c)`), lower-case extrinsic (`R₃(c)·R₂(b)·R₁(a)`); `none` (scipy raises) for a
sequence that is not three axis letters of one case. Never a default matrix. -/
def eulerMat (seq : List Char) (t : Ang3 α) : Option (M3 α) :=
  match seq with
  | [p, q, r] =>
    match axisRot p t.a, axisRot q t.b, axisRot r t.c with
    | some A, some B, some C =>
      if p.isUpper && q.isUpper && r.isUpper then some (A * B * C)
      else if p.isLower && q.isLower && r.isLower then some (C * B * A)
      else none
    | _, _, _ => none
  | _ => none

/-- rotation of a cryoCAT particle with Euler angles (phi, theta, psi): scipy extrinsic `"zxz"`,
`Rz(psi)·Rx(theta)·Rz(phi)` (`Lemmas/C03.eulerMat_zxz`: this is `eulerMat "zxz"`) -/
def particleMat (t : Ang3 α) : M3 α := zxz t.a.c t.a.s t.b.c t.b.s t.c.c t.c.s
/-- rotation described by RELION's (rlnAngleRot, rlnAngleTilt, rlnAnglePsi): intrinsic `"ZYZ"`,
`Rz(rot)·Ry(tilt)·Rz(psi)` (`Lemmas/C03.eulerMat_ZYZ`: this is `eulerMat "ZYZ"`) -/
def relionMat (t : Ang3 α) : M3 α := ZYZ t.a.c t.a.s t.b.c t.b.s t.c.c t.c.s

/-- which returned slot goes into which output column, and with which sign
(`relion_df["rlnAngleRot"] = -angles[:, 0]` is `("rlnAngleRot", true, 0)`); `none` unless exactly three
columns are assigned from slots 0..2 -/
def applySlots (slots : List (String × Bool × Nat)) (e : Ang3 α) : Option (Ang3 α) :=
  match slots with
  | [(_, n0, k0), (_, n1, k1), (_, n2, k2)] =>
    match e.slot? k0, e.slot? k1, e.slot? k2 with
    | some a, some b, some c => some ⟨a.signed n0, b.signed n1, c.signed n2⟩
    | _, _, _ => none
  | _ => none

/-- the matrix `convert_angles_to_relion` hands to scipy: `rot.from_euler("ZXZ", self.get_angles())` -/
def exportFed (ang : Ang3 α) : Option (M3 α) := eulerMat Gen.C03.exportFromSeq ang

/-- `convert_angles_to_relion`: (rlnAngleRot, rlnAngleTilt, rlnAnglePsi) of a particle with (phi, theta, psi) -/
def exportAngles (asEuler : M3 α → Ang3 α) (ang : Ang3 α) : Option (Ang3 α) :=
  (exportFed ang).bind fun F => applySlots Gen.C03.exportSlots (asEuler F)

/-- the matrix `convert_angles_from_relion` hands to scipy: `rot.from_euler("ZYZ", [rot, tilt, psi])` -/
def importFed (rln : Ang3 α) : Option (M3 α) := eulerMat Gen.C03.importFromSeq rln

/-- `convert_angles_from_relion`: (phi, theta, psi) for RELION angles (rot, tilt, psi) -/
def importAngles (asEuler : M3 α → Ang3 α) (rln : Ang3 α) : Option (Ang3 α) :=
  (importFed rln).bind fun F => applySlots Gen.C03.importSlots (asEuler F)

end rotations

/-! ### versions (in tenths: 30, 31, 40), coordinates, shifts -/

/-- a version test of the source, `version <op> <thr>`; `none` for an operator the model does not know -/
def cmpVer (op : String) (v thr : Nat) : Option Bool :=
  if op = "<=" then some (decide (v ≤ thr))
  else if op = ">=" then some (decide (v ≥ thr))
  else if op = "==" then some (decide (v = thr))
  else if op = "<" then some (decide (v < thr))
  else if op = ">" then some (decide (v > thr))
  else none

structure VNames where
  tomo : String
  sub : String
  shifts : List String
  spec : String
deriving Repr, DecidableEq

def versionNamesIn : List (String × Nat × String × String × List String × String) → Nat → Option VNames
  | [], _ => none
  | (op, thr, t, s, sh, sp) :: rest, v =>
    if op = "else" then some ⟨t, s, sh, sp⟩ else
    match cmpVer op v thr with
    | some true => some ⟨t, s, sh, sp⟩
    | some false => versionNamesIn rest v
    | none => none

/-- `RelionMotl.get_version_specific_names` -/
def versionNames (v : Nat) : Option VNames := versionNamesIn Gen.C03.nameBranches v

/-- origins are in Ångström (and get scaled by the pixel size) -/
def originInAngstrom (v : Nat) : Option Bool := cmpVer Gen.C03.shiftScaleCmp v Gen.C03.shiftScaleThr

/-- `get_coordinates`: complete position (`none`: the source combines position and shift by an operator the
model does not know) -/
def exportCoord [Add α] [Sub α] (x s : α) : Option α :=
  if Gen.C03.coordOp = "+" then some (x + s) else if Gen.C03.coordOp = "-" then some (x - s) else none

/-- `prepare_particles_data`: `relion_df.loc[:, shifts_name] = np.zeros(...)` -/
def exportOrigin [OfNat α 0] : Option α := if Gen.C03.exportOriginZero then some 0 else none

/-- `convert_shifts` -/
def importShift [Neg α] [Div α] [Mul α] (v : Nat) (px o : α) : Option α :=
  let w := if Gen.C03.shiftNegated then -o else o
  match originInAngstrom v with
  | none => none
  | some false => some w
  | some true =>
    if Gen.C03.shiftScaleOp = "/" then some (w / px)
    else if Gen.C03.shiftScaleOp = "*" then some (w * px)
    else none

/-- `RelionMotl.set_version` on the column names of a DataFrame: the first rule all of whose clauses
(each an any-of list) are met, else the default -/
def sniffVersionIn (cols : List String) : List (List (List String) × Nat) → Nat
  | [] => Gen.C03.versionSniffDefault
  | (clauses, v) :: rest => if clauses.all (fun cl => cl.any (fun c => cols.contains c)) then v else sniffVersionIn cols rest
def sniffVersion (cols : List String) : Nat := sniffVersionIn cols Gen.C03.versionSniff

/-- the pose part of a cryoCAT particle -/
structure Pose (α : Type) where
  x : α
  y : α
  z : α
  sx : α
  sy : α
  sz : α
  ang : Ang3 α

/-- the pose part of a RELION row -/
structure RPose (α : Type) where
  cx : α
  cy : α
  cz : α
  ox : α
  oy : α
  oz : α
  ang : Ang3 α

def Pose.position [Add α] (p : Pose α) : V3 α := ⟨p.x + p.sx, p.y + p.sy, p.z + p.sz⟩

section poses
variable [OfNat α 0] [OfNat α 1] [Neg α] [Add α] [Mul α]

def Pose.rotation (p : Pose α) : M3 α := particleMat p.ang
def RPose.rotation (r : RPose α) : M3 α := relionMat r.ang

/-- `create_relion_df` (pose columns; binning 1) -/
def exportPose [Sub α] (asEuler : M3 α → Ang3 α) (p : Pose α) : Option (RPose α) :=
  match exportCoord p.x p.sx, exportCoord p.y p.sy, exportCoord p.z p.sz, (exportOrigin : Option α), exportAngles asEuler p.ang with
  | some cx, some cy, some cz, some o, some a => some { cx := cx, cy := cy, cz := cz, ox := o, oy := o, oz := o, ang := a }
  | _, _, _, _, _ => none

/-- `convert_to_motl` (pose columns); `px` is the pixel size of THIS row (`rlnPixelSize` is a per-row column) -/
def importPose [Div α] (asEuler : M3 α → Ang3 α) (v : Nat) (px : α) (r : RPose α) : Option (Pose α) :=
  match importShift v px r.ox, importShift v px r.oy, importShift v px r.oz, importAngles asEuler r.ang with
  | some sx, some sy, some sz, some a => some { x := r.cx, y := r.cy, z := r.cz, sx := sx, sy := sy, sz := sz, ang := a }
  | _, _, _, _ => none

end poses

/-! ### identity: half-sets, generated names, parsing names back -/

/-- `rlnRandomSubset` from the parity of `subtomo_id` (`create_relion_df`) -/
def halfsetOf (id : Nat) : Nat := (Gen.C03.halfsetByParity.lookup (id % 2)).getD 0

/-- one step of the renumbering loop of `parse_subtomo_id` -/
def renumberStep (c h : Nat) : Nat :=
  if (c % 2 == 1 && h % 2 == 1) || (c % 2 == 0 && h % 2 == 0) then c + 2 else c + 1

def renumberFrom (c : Nat) : List Nat → List Nat
  | [] => []
  | h :: t => renumberStep c h :: renumberFrom (renumberStep c h) t

/-- the half-set renumbering of `parse_subtomo_id`: new subtomo ids from the `rlnRandomSubset` column -/
def renumber : List Nat → List Nat
  | [] => []
  | h :: t => (if h % 2 = 1 then 1 else 2) :: renumberFrom (if h % 2 = 1 then 1 else 2) t

/-- subtomo ids after import: parsed numbers; 1..n when they repeat; renumbered by half-set when every entry of
the half-set column is 1 or 2 (`isin([1, 2]).all()`) -/
def importSubtomoIds (parsed : List Nat) (halfsets : Option (List Nat)) : List Nat :=
  let base := if parsed.Nodup then parsed else List.range' 1 parsed.length
  match halfsets with
  | some hs => if hs.all (fun h => h == 1 || h == 2) then renumber hs else base
  | none => base

/-- Python `str.zfill` on a string of digits -/
def zfill (k : Nat) (ds : List Char) : List Char := List.replicate (k - ds.length) '0' ++ ds

def runLen (c : Char) : List Char → Nat
  | [] => 0
  | h :: t => if h = c then runLen c t + 1 else 0

/-- length of the longest `$ccc…` sequence (`find_longest_sequence`), 0 when there is none -/
def longestSeq (c : Char) : List Char → Nat
  | [] => 0
  | h :: t => if h = '$' then max (runLen c t) (longestSeq c t) else longestSeq c t

/-- `str.replace("$" + c*k, rep)`; the first argument counts characters still to be skipped -/
def replaceSeq (c : Char) (k : Nat) (rep : List Char) : Nat → List Char → List Char
  | _, [] => []
  | skip + 1, _ :: t => replaceSeq c k rep skip t
  | 0, h :: t =>
    if h = '$' ∧ k ≤ runLen c t then rep ++ replaceSeq c k rep k t else h :: replaceSeq c k rep 0 t

/-- replace the longest `$ccc…` sequence by the zero-padded number; `none` when there is no sequence -/
def fillFormat (fmt : List Char) (c : Char) (n : Nat) : Option (List Char) :=
  let k := longestSeq c fmt
  if k = 0 then none else some (replaceSeq c k (zfill k (Nat.toDigits 10 n)) 0 fmt)

/-- tomogram name of `prepare_particles_data` (`none` = the code raises) -/
def tomoName (fmt : List Char) (tomo : Nat) : Option (List Char) :=
  if fmt = [] then some (Nat.toDigits 10 tomo) else fillFormat fmt 'x' tomo

/-- subtomogram name of `prepare_particles_data` -/
def subName (fmt : List Char) (tomo sub : Nat) : Option (List Char) :=
  if fmt = [] then some (Nat.toDigits 10 sub) else
  match fillFormat fmt 'y' sub with
  | none => none
  | some s => some ((fillFormat s 'x' tomo).getD s)

/-- `name.rsplit("/", 1)[-1]` -/
def lastComponentAux : List Char → List Char → List Char
  | acc, [] => acc
  | acc, h :: t => if h = '/' then lastComponentAux t t else lastComponentAux acc t
def lastComponent (s : List Char) : List Char := lastComponentAux s s

def numbersAux : Option Nat → List Char → List Nat
  | acc, [] => acc.toList
  | acc, h :: t =>
    if h.isDigit then numbersAux (some (10 * acc.getD 0 + (h.toNat - '0'.toNat))) t
    else acc.toList ++ numbersAux none t

/-- `[float(m) for m in re.findall(r"\d+", s)]` -/
def numbers (s : List Char) : List Nat := numbersAux none s

/-- `parse_tomo_id` on a name column: first number of the last path component -/
def parseTomo (name : List Char) : Option Nat := (numbers (lastComponent name))[Gen.C03.tomoNumberIndex]?

/-- `parse_subtomo_id`: a numeric cell is the number itself (`isinstance(i, (int, float))`); otherwise, for
version ≥ 4.0 the whole last component is the number, else its second number -/
def parseSub (v : Nat) (name : List Char) : Option Nat :=
  let lc := lastComponent name
  if name ≠ [] ∧ name.all Char.isDigit then some (Nat.ofDigitChars 10 name 0)
  else match cmpVer Gen.C03.subtomoWholeCmp v Gen.C03.subtomoWholeThr with
    | none => none
    | some true => (if lc ≠ [] ∧ lc.all Char.isDigit then some (Nat.ofDigitChars 10 lc 0) else none)
    | some false => (numbers lc)[Gen.C03.subtomoNumberIndex]?

/-- `name.rsplit("/", 1)[0]`: everything before the last slash (the whole string when there is none) -/
def beforeLastSlash : List Char → List Char
  | [] => []
  | h :: t => if '/' ∈ t then h :: beforeLastSlash t else if h = '/' then [] else h :: t

/-- `i.rsplit("/", 1)[pos]` for the two positions the code uses; `none` for any other -/
def componentAt (pos : Int) (name : List Char) : Option (List Char) :=
  if pos = -1 then some (lastComponent name) else if pos = 0 then some (beforeLastSlash name) else none

/-- `parse_tomo_id`, `elif` branch: no tomogram-name column, so the tomogram number is read from the
subtomogram name — first number of its last path component (≤ 3.1) or of what precedes the last slash (4.0) -/
def parseTomoFallback (v : Nat) (name : List Char) : Option Nat :=
  match cmpVer Gen.C03.tomoFallbackCmp v Gen.C03.tomoFallbackThr with
  | none => none
  | some b =>
    match componentAt (if b then Gen.C03.tomoFallbackPositions.1 else Gen.C03.tomoFallbackPositions.2) name with
    | none => none
    | some comp => (numbers comp)[Gen.C03.tomoFallbackIndex]?

/-- identity part of a RELION row: tomogram name (`none`: column absent), subtomogram name, class -/
structure RIdent where
  tomoName : Option (List Char)
  subName : List Char
  cls : Nat

/-- identity columns of the cryoCAT table after import (`geom3` keeps the number parsed from the name) -/
structure IdentCols where
  tomo : List Nat
  sub : List Nat
  geom3 : List Nat
  cls : List Nat
deriving Repr, DecidableEq

/-- a column all of whose cells could be computed (`none`: the code raises on some row) -/
def allSome {β : Type} : List (Option β) → Option (List β)
  | [] => some []
  | none :: _ => none
  | some a :: t => (allSome t).map (a :: ·)

/-- tomogram number of one row on import (`parse_tomo_id`, both branches) -/
def importTomo (v : Nat) (r : RIdent) : Option Nat :=
  match r.tomoName with
  | some t => parseTomo t
  | none => parseTomoFallback v r.subName

/-- `geom3` after import: the number parsed from each subtomogram name (`self.df["geom3"] = subtomo_idx`) -/
def importGeom3 (v : Nat) (rows : List RIdent) : Option (List Nat) := allSome (rows.map fun r => parseSub v r.subName)

/-- identity columns of `convert_to_motl`: tomo_id, subtomo_id, geom3, class
(`none`: some name cannot be parsed — the code raises) -/
def importIdents (v : Nat) (rows : List RIdent) (halfsets : Option (List Nat)) : Option IdentCols :=
  match importGeom3 v rows, allSome (rows.map (importTomo v)) with
  | some g, some ts => some ⟨ts, importSubtomoIds g halfsets, g, rows.map (·.cls)⟩
  | _, _ => none

/-- identity columns of `create_relion_df`: generated names, half-set, class (`none`: the format has no
`$`-sequence and the code raises) -/
def exportIdent (tomoFmt subFmt : List Char) (tomo sub cls : Nat) : Option (RIdent × Nat) :=
  match tomoName tomoFmt tomo, subName subFmt tomo sub with
  | some t, some s => some (⟨some t, s, cls⟩, halfsetOf sub)
  | _, _ => none

end CryoCat.C03
