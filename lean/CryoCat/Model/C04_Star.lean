import CryoCat.Model.C04
import CryoCat.Model.C02_Num
/-! C04 — the STAR layer under `StopgapMotl.write_out` / `StopgapMotl.read_in`, expressed with the
C02 model of `cryocat/starfileio.py` (`C02.printTyped`, `C02.readStar`, `C02.blockKinds`).
Mathlib-free, executable.

What is modelled:
* `write_out`: `Starfile.write([stopgap_df], path, specifiers=["data_stopgap_motivelist"])` with the
  default `number_columns=True` — one block, named by the specifier, header = the column names of the
  DataFrame, cells = `str(value)`; the C02 writer model itself handles the STOPGAP block name
  (un-numbered labels, extra blank line).
* `read_in`: `Starfile.read(path)`, then the FIRST block whose name equals the specifier (an error if
  there is none); a column becomes numeric iff every one of its cells is a number token
  (`pd.to_numeric` per column), otherwise its cells stay the texts that were read.

What is NOT modelled (two parameters, validated numerically by the harness, tolerance 5e-7 + 16 ulp):
* `ren : α → C02.Cell` — value ↦ printed digits (pandas `round(6)` followed by Python `repr` picks the
  digit string; the C02 model lays a *given* digit string out),
* `parse : C02.Word → β` — printed digits ↦ value (`pandas.to_numeric` on a number token). -/
namespace CryoCat.C04
variable {α β : Type}

/-- the cell handed to `Starfile.write`: a number is printed through `ren`, a text cell verbatim -/
def renderCell (ren : α → C02.Cell) : Cell α → C02.Cell
  | .num v => ren v
  | .str s => .txt s.toList

/-- the one table `write_out` hands to `Starfile.write`, under the block name `spec` -/
def renderTable (ren : α → C02.Cell) (spec : String) (t : SgTable α) : C02.TBlock :=
  { name := spec.toList
    cols := t.cols.map (fun f => f.name.toList)
    rows := t.rows.map (fun r => r.map (renderCell ren)) }

/-- `Starfile.write([stopgap_df], path, specifiers=[spec])` (`number_columns` default `True`) -/
def starWrite (ren : α → C02.Cell) (spec : String) (t : SgTable α) : List Char :=
  C02.printTyped true [renderTable ren spec t]

/-- the header of the block read, by column *name*; an unknown name is outside the model (`none`) -/
def colsOfNames : List C02.Word → Option (List SgField)
  | [] => some []
  | w :: ws =>
    match SgField.ofName? (String.ofList w), colsOfNames ws with
    | some f, some fs => some (f :: fs)
    | _, _ => none

/-- one cell of the frame `Starfile.read` returns: of a numeric column the parsed number, of a text
column the text as read -/
def decodeCell (parse : C02.Word → β) (numeric : Bool) (w : C02.Word) : Cell β :=
  if numeric then .num (parse w) else .str (String.ofList w)

/-- `read_in`: `Starfile.read(path)`; the first block named `spec` (`none` = the `ValueError` when
there is none, or the parser's `IOError`); columns typed by `C02.blockKinds C02.isNumTok` -/
def starRead (parse : C02.Word → β) (spec : String) (txt : List Char) : Option (SgTable β) :=
  match C02.readStar txt with
  | .error _ => none
  | .ok bs =>
    match bs.find? (fun b => b.name == spec.toList) with
    | none => none
    | some b =>
      match colsOfNames b.cols with
      | none => none
      | some cols =>
        some { cols := cols
               rows := b.rows.map (fun r => List.zipWith (decodeCell parse) (C02.blockKinds C02.isNumTok b) r) }

end CryoCat.C04
