import CryoCat.Model.Particle
import CryoCat.Model.M3
import CryoCat.Gen.C05
/-! C05 — model of the pose bookkeeping of `cryocat/cryomotl.py`:
`get_coordinates`, `update_coordinates`, `scale_coordinates`, `shift_positions`, `apply_rotation`,
`flip_handedness`. Mathlib-free, polymorphic in the number type (driver: `Float`, checker: `Rat`,
theorems: any commutative ring / ordered field).

External numeric services are *parameters* (`Svc`): cosine/sine of an angle in degrees
(`scipy … from_euler(degrees=True)`), Euler extraction (`as_euler("zxz", degrees=True)`), and the
integer rounding (`decimal … ROUND_HALF_UP`, instantiated with `roundHalfUp` below). -/
namespace CryoCat.C05

structure Svc (α : Type) where
  /-- (cos, sin) of an angle given in degrees -/
  cs : α → α × α
  /-- `Rotation.from_matrix(M).as_euler("zxz", degrees=True)` = (phi, theta, psi) -/
  euler : M3 α → α × α × α
  /-- `Decimal(v).to_integral_value(rounding=ROUND_HALF_UP)` -/
  rnd : α → Int

/-- the `tomo_dimensions` argument of `flip_handedness` after `ioutils.dimensions_load`:
absent, one `x y z` triple (only z matters), or rows `tomo_id x y z` (kept as `(tomo_id, z)`) -/
inductive Dims (α : Type)
  | none
  | single (dz : α)
  | table (rows : List (α × α))
deriving Repr

/-- one row `tomo_id x y z` of a per-tomogram table, kept as `(tomo_id, z)` -/
def row4? {α : Type} : List α → Option (α × α)
  | [t, _, _, z] => some (t, z)
  | _ => none

/-- `ioutils.dimensions_load` on a table of numbers (what a list / tuple / ndarray / DataFrame / text file / .com file
amounts to after `np.asarray` and "1-D input is one row"): the SHAPE DISPATCH. Shape (1, 3) is one `x y z` triple (only
z is used by `flip_handedness`); any shape (N, 4) with N ≥ 1 is rows `tomo_id x y z`; every other shape is refused
(`ValueError`, documented) — `none`. -/
def loadDims {α : Type} : List (List α) → Option (Dims α)
  | [] => none
  | [[_, _, z]] => some (.single z)
  | rows => (rows.mapM row4?).map .table

inductive Op (α : Type)
  | update
  | scale (f : α)
  | shift (v : V3 α)
  | rotate (q : M3 α)
  | flip (d : Dims α)
deriving Repr

variable {α : Type}

/-- `get_coordinates`: the complete position x + shift -/
def pos [Add α] (p : Particle α) : V3 α := ⟨p.x + p.shift_x, p.y + p.shift_y, p.z + p.shift_z⟩

section orient
variable [OfNat α 0] [OfNat α 1] [Neg α] [Add α] [Mul α]
/-- `get_rotations`: `from_euler("zxz", [phi, theta, psi], degrees=True)` as a matrix -/
def orient (S : Svc α) (p : Particle α) : M3 α :=
  zxz (S.cs p.phi).1 (S.cs p.phi).2 (S.cs p.theta).1 (S.cs p.theta).2 (S.cs p.psi).1 (S.cs p.psi).2
end orient

/-- `update_coordinates.round_and_recenter` on one row -/
def updateP [Add α] [Sub α] [IntCast α] (S : Svc α) (p : Particle α) : Particle α :=
  let sx := p.x + p.shift_x
  let sy := p.y + p.shift_y
  let sz := p.z + p.shift_z
  let nx : α := ((S.rnd sx : Int) : α)
  let ny : α := ((S.rnd sy : Int) : α)
  let nz : α := ((S.rnd sz : Int) : α)
  { p with x := nx, y := ny, z := nz, shift_x := sx - nx, shift_y := sy - ny, shift_z := sz - nz }

/-- `scale_coordinates`: `df[c] * f`, `df["shift_"+c] * f` for c in x, y, z -/
def scaleP [Mul α] (f : α) (p : Particle α) : Particle α :=
  { p with x := p.x * f, y := p.y * f, z := p.z * f,
           shift_x := p.shift_x * f, shift_y := p.shift_y * f, shift_z := p.shift_z * f }

section shift
variable [OfNat α 0] [OfNat α 1] [Neg α] [Add α] [Mul α]
/-- `shift_positions.shift_coords`: the particle's own orientation applied to the shift vector is
added to the shifts -/
def shiftP (S : Svc α) (v : V3 α) (p : Particle α) : Particle α :=
  let r := (orient S p).apply v
  { p with shift_x := p.shift_x + r.x, shift_y := p.shift_y + r.y, shift_z := p.shift_z + r.z }

/-- which product `apply_rotation` forms — read from the source (`angles_rot * rotation`) -/
def composeRot (r q : M3 α) : M3 α := if Gen.C05.rotationOnRight then r * q else q * r

/-- `apply_rotation`: `as_euler(from_euler(angles) * rotation)` stored back into phi, theta, psi -/
def rotateP (S : Svc α) (q : M3 α) (p : Particle α) : Particle α :=
  let e := S.euler (composeRot (orient S p) q)
  { p with phi := e.1, theta := e.2.1, psi := e.2.2 }
end shift

/-- the z dimension `flip_handedness` uses for a particle of tomogram `t`: every particle for a
single triple; for a table the first row whose tomo_id equals `t` (`.iloc[0]` after the
`dims["tomo_id"] == t` mask; `unique()` makes every tomogram be processed once) -/
def dimOf [BEq α] : Dims α → α → Option α
  | .none, _ => none
  | .single dz, _ => some dz
  | .table rows, t => rows.lookup t

/-- the dimension the STATEMENT speaks of for a particle of tomogram `t` ("per-tomogram or single dimension
table" covering the list's tomograms): defined only when dimensions are given and — for a table — the
tomogram has a row and all its rows agree on z. A call without dimensions, a table that lacks the
particle's tomogram, or a table that gives it two different z sizes is OUTSIDE the quantifier of the
property: `dimOf`/`flipP` still model what the code does there (for the correspondence run), but the
specification (`specOp`, `checkFlip`) says nothing. -/
def specDim [BEq α] : Dims α → α → Option α
  | .none, _ => none
  | .single dz, _ => some dz
  | .table rows, t =>
    match rows.lookup t with
    | none => none
    | some dz => if rows.all (fun r => !(r.1 == t) || r.2 == dz) then some dz else none

/-- `flip_handedness`: theta changes sign; where a dimension is known, z ↦ (dim_z + 1) − z and
shift_z changes sign -/
def flipP [BEq α] [Neg α] [Add α] [Sub α] [IntCast α] (d : Dims α) (p : Particle α) : Particle α :=
  match dimOf d p.tomo_id with
  | none => { p with theta := -p.theta }
  | some dz => { p with theta := -p.theta, z := (dz + ((Gen.C05.flipOffset : Int) : α)) - p.z, shift_z := -p.shift_z }

section apply
variable [BEq α] [OfNat α 0] [OfNat α 1] [Neg α] [Add α] [Sub α] [Mul α] [IntCast α]

def applyOpP (S : Svc α) : Op α → Particle α → Particle α
  | .update, p => updateP S p
  | .scale f, p => scaleP f p
  | .shift v, p => shiftP S v p
  | .rotate q, p => rotateP S q p
  | .flip d, p => flipP d p

/-- every operation acts row by row -/
def applyOp (S : Svc α) (op : Op α) (m : Motl α) : Motl α := m.map (applyOpP S op)

/-- a history: operations applied left to right -/
def runOps (S : Svc α) (ops : List (Op α)) (m : Motl α) : Motl α := ops.foldl (fun m op => applyOp S op m) m

def runOpsP (S : Svc α) (ops : List (Op α)) (p : Particle α) : Particle α := ops.foldl (fun p op => applyOpP S op p) p

/-! ### the abstract pose and what the property says each operation does to it -/

structure Pose (α : Type) where
  pos : V3 α
  R : M3 α
  tomo : α
deriving Repr, DecidableEq

def absPose (S : Svc α) (p : Particle α) : Pose α := ⟨pos p, orient S p, p.tomo_id⟩

/-- is the operation's argument inside the quantifier of the property for a particle of tomogram `t`?
(only `flip_handedness` can fall outside: no dimensions / tomogram not covered / ambiguous rows) -/
def covers : Op α → α → Bool
  | .flip d, t => (specDim d t).isSome
  | _, _ => true

/-- the statement of the property, operation by operation; `none` = the statement says nothing about
this particle under this call (outside its quantifier, see `specDim`) -/
def specOp : Op α → Pose α → Option (Pose α)
  | .update, P => some P
  | .scale f, P => some { P with pos := V3.smul f P.pos }
  | .shift v, P => some { P with pos := P.pos + P.R.apply v }
  | .rotate q, P => some { P with R := P.R * q }
  | .flip d, P =>
    match specDim d P.tomo with
    | none => none
    | some dz => some { P with pos := ⟨P.pos.x, P.pos.y, dz + 1 - P.pos.z⟩, R := Mz * P.R * Mz }

/-- the statement folded over a history (`none` as soon as one call is outside the quantifier) -/
def specRun : List (Op α) → Pose α → Option (Pose α)
  | [], P => some P
  | op :: ops, P =>
    match specOp op P with
    | none => none
    | some P' => specRun ops P'

/-! ### the recorded assumptions on the numeric services, as predicates (used as hypotheses) -/

/-- the matrix of an Euler triple (phi, theta, psi) -/
def eulerMat (S : Svc α) (e : α × α × α) : M3 α :=
  zxz (S.cs e.1).1 (S.cs e.1).2 (S.cs e.2.1).1 (S.cs e.2.1).2 (S.cs e.2.2).1 (S.cs e.2.2).2

/-- scipy assumption for ONE matrix: the triple `as_euler` returns for `m` reproduces `m` -/
def EulerOK (S : Svc α) (m : M3 α) : Prop := eulerMat S (S.euler m) = m

/-- cos is even and sin is odd -/
def CsOdd (S : Svc α) : Prop := ∀ a, S.cs (-a) = ((S.cs a).1, -(S.cs a).2)

/-- what a single step needs: only `apply_rotation` relies on the Euler round trip, and only for
the one product it forms -/
def StepOK (S : Svc α) : Op α → Particle α → Prop
  | .rotate q, p => EulerOK S (orient S p * q)
  | _, _ => True

/-- the same along a history -/
def RunOK (S : Svc α) : List (Op α) → Particle α → Prop
  | [], _ => True
  | op :: ops, p => StepOK S op p ∧ RunOK S ops (applyOpP S op p)
end apply

/-! ### rounding -/

/-- round half away from zero (`decimal.ROUND_HALF_UP`) on exact rationals -/
def roundHalfUp (q : Rat) : Int :=
  if 0 ≤ q then (q + 1/2).floor else -((-q + 1/2).floor)

/-! ### verified checker for the operations that need no trigonometry (exact over `Rat`) -/

def absR (q : Rat) : Rat := if 0 ≤ q then q else -q

def isInt (q : Rat) : Bool := q.den == 1

/-- `update_coordinates`: complete position unchanged, x y z integers, |shift| ≤ 1/2 -/
def checkUpdate (b a : Particle Rat) : Bool :=
  pos a == pos b && isInt a.x && isInt a.y && isInt a.z
  && decide (absR a.shift_x ≤ 1/2) && decide (absR a.shift_y ≤ 1/2) && decide (absR a.shift_z ≤ 1/2)

/-- `scale_coordinates(f)`: complete position multiplied by f -/
def checkScale (f : Rat) (b a : Particle Rat) : Bool := pos a == V3.smul f (pos b)

/-- `flip_handedness(dims)`, position clause only: for a particle whose tomogram the dimensions cover,
complete z mirrored to dim_z + 1 − z (x, y, tomogram untouched); nothing is demanded otherwise -/
def checkFlipPos (d : Dims Rat) (b a : Particle Rat) : Bool :=
  match specDim d b.tomo_id with
  | none => true
  | some dz => a.tomo_id == b.tomo_id && pos a == (⟨(pos b).x, (pos b).y, dz + 1 - (pos b).z⟩ : V3 Rat)

/-- `flip_handedness(dims)`, sufficient check of the whole clause for a covered particle: position mirrored
and the stored angles are exactly (phi, −theta, psi) (an implementation that stores another triple of the
same mirrored orientation fails this check but not the property: the harness then compares matrices) -/
def checkFlip (d : Dims Rat) (b a : Particle Rat) : Bool :=
  match specDim d b.tomo_id with
  | none => true
  | some _ => a.theta == -b.theta && a.phi == b.phi && a.psi == b.psi && checkFlipPos d b a

end CryoCat.C05
