import CryoCat.Gen.C17
/-! C17 — loaders (`ioutils.tlt_load`, `total_dose_load`, `gctf_read`, `ctffind4_read`) and wedge lists
(`wedgeutils.create_wedge_list_sg(_batch)`, `create_wedge_list_em_batch`, `wedge_list_sg_to_em`).
Polymorphic in the number type, Mathlib-free; the driver instantiates `α := Rat`. -/
namespace CryoCat.C17

variable {α : Type}

/-! ### loaders -/
/-- `tlt_load(file, sort_angles)`: the numbers of the file, ascending when `sort_angles` -/
def tltLoad (le : α → α → Bool) (sortAngles : Bool) (xs : List α) : List α :=
  if sortAngles then xs.mergeSort le else xs

/-- `total_dose_load(file)`: the numbers of the file, in file order -/
def doseLoad (xs : List α) : List α := xs

structure Defocus (α : Type) where
  defocus1 : α
  defocus2 : α
  astigmatism : α
  phaseShift : α
  defocusMean : α
deriving Repr, DecidableEq

/-- one row of `gctf_read` / `ctffind4_read`: Å → µm by `factor`, mean of both defoci -/
def defocusRow [Add α] [Mul α] [Div α] (factor divisor : α) (u v ang ph : α) : Defocus α :=
  { defocus1 := u * factor, defocus2 := v * factor, astigmatism := ang, phaseShift := ph,
    defocusMean := (u * factor + v * factor) / divisor }

/-- `gctf_read`: columns rlnDefocusU, rlnDefocusV, rlnDefocusAngle and rlnPhaseShift (0 when absent) -/
def gctfRead [Add α] [Mul α] [Div α] [OfNat α 0] (factor divisor : α) (rows : List (α × α × α × Option α)) : List (Defocus α) :=
  rows.map (fun r => defocusRow factor divisor r.1 r.2.1 r.2.2.1 (r.2.2.2.getD 0))

/-- `ctffind4_read`: columns 1..4 of every non-comment line -/
def ctffindRead [Add α] [Mul α] [Div α] (factor divisor : α) (rows : List (α × α × α × α)) : List (Defocus α) :=
  rows.map (fun r => defocusRow factor divisor r.1 r.2.1 r.2.2.1 r.2.2.2)

/-! ### wedge lists -/
structure Consts (α : Type) where
  pixelSize : α
  voltage : α
  ampContrast : α
  cs : α
deriving Repr, DecidableEq

structure Tomo (α : Type) where
  id : Int
  dimX : α
  dimY : α
  dimZ : α
  zShift : α
  tilts : List α                    -- as loaded (ascending)
  defocus : Option (List α)         -- defocus_mean per tilt, when a CTF file is given
  dose : Option (List α)            -- exposure per tilt, when a dose file is given
deriving Repr, DecidableEq

structure WedgeRow (α : Type) where
  tomoNum : Int
  pixelSize : α
  tomoX : α
  tomoY : α
  tomoZ : α
  zShift : α
  tiltAngle : α
  defocus : Option α
  exposure : Option α
  voltage : α
  ampContrast : α
  cs : α
deriving Repr, DecidableEq

def mkWedgeRow (c : Consts α) (t : Tomo α) (tilt : α) (d e : Option α) : WedgeRow α :=
  { tomoNum := t.id, pixelSize := c.pixelSize, tomoX := t.dimX, tomoY := t.dimY, tomoZ := t.dimZ,
    zShift := t.zShift, tiltAngle := tilt, defocus := d, exposure := e,
    voltage := c.voltage, ampContrast := c.ampContrast, cs := c.cs }

/-- the i-th entry of an optional per-tilt list -/
def optAt (l : Option (List α)) (i : Nat) : Option α := match l with | some xs => xs[i]? | none => none

/-- `check_data_consistency`: a given list must have as many entries as there are tilts -/
def consistent (t : Tomo α) : Bool :=
  (match t.defocus with | some d => d.length == t.tilts.length | none => true) &&
  (match t.dose with | some d => d.length == t.tilts.length | none => true)

/-- `create_wedge_list_sg` for one tomogram; `none` = ValueError of `check_data_consistency` -/
def wedgeSingle (c : Consts α) (t : Tomo α) : Option (List (WedgeRow α)) :=
  if consistent t then
    some (t.tilts.zipIdx.map (fun p => mkWedgeRow c t p.1 (optAt t.defocus p.2) (optAt t.dose p.2)))
  else none

/-- `create_wedge_list_sg_batch`: the single lists concatenated in tomogram order -/
def wedgeBatch (c : Consts α) (ts : List (Tomo α)) : Option (List (WedgeRow α)) :=
  (ts.mapM (wedgeSingle c)).map List.flatten

/-- processing order of the tomograms when the list comes from a file: `tlt_load(tomo_list)` sorts it -/
def tomoOrder (sorts : Bool) (ts : List (Tomo α)) : List (Tomo α) :=
  if sorts then ts.mergeSort (fun a b => decide (a.id ≤ b.id)) else ts

/-- columns of the returned table: the source's column list without the all-NaN ones (`dropna(axis=1, how="all")`) -/
def wedgeHeader (hasCtf hasDose : Bool) : List String :=
  Gen.C17.wedgeColumns.filter (fun c => (c != "defocus" || hasCtf) && (c != "exposure" || hasDose))

def minOf (le : α → α → Bool) : List α → Option α
  | [] => none
  | x :: xs => some (xs.foldl (fun m y => if le y m then y else m) x)
def maxOf (le : α → α → Bool) : List α → Option α
  | [] => none
  | x :: xs => some (xs.foldl (fun m y => if le m y then y else m) x)

/-- `create_wedge_list_em_batch`: per tomogram (id, min tilt, max tilt); `none` = an empty tilt file raises -/
def wedgeEm (le : α → α → Bool) (ts : List (Int × List α)) : Option (List (Int × α × α)) :=
  ts.mapM (fun t => match minOf le t.2, maxOf le t.2 with
    | some lo, some hi => some (t.1, lo, hi)
    | _, _ => none)

/-- distinct tomogram numbers, ascending (`groupby("tomo_num")` sorts its keys) -/
def groupKeys (ids : List Int) : List Int := (ids.mergeSort (fun a b => decide (a ≤ b))).eraseDups

/-- `wedge_list_sg_to_em`: group the STOPGAP rows by tomogram, min / max of `tilt_angle` -/
def sgToEm (le : α → α → Bool) (rows : List (Int × α)) : Option (List (Int × α × α)) :=
  wedgeEm le ((groupKeys (rows.map (·.1))).map (fun k => (k, (rows.filter (fun r => r.1 == k)).map (·.2))))

/-! ### the STOPGAP wedge list as a STAR table (`Starfile.write([wedge_list_df], …)` / `load_wedge_list_sg`) -/

/-- a cell of the table: the tomogram number is an integer column, everything else float; NaN = not assigned -/
inductive WCell (α : Type) where
  | int (n : Int)
  | num (x : α)
  | nan
deriving Repr, DecidableEq

variable {β : Type}

def WCell.map (q : α → β) : WCell α → WCell β
  | .int n => .int n
  | .num x => .num (q x)
  | .nan => .nan
def WCell.isNan : WCell α → Bool
  | .nan => true
  | _ => false
def optCell : Option α → WCell α
  | some x => .num x
  | none => .nan

structure StarTable (α : Type) where
  cols : List String
  rows : List (List (WCell α))
deriving Repr, DecidableEq

def StarTable.mapCells (q : α → β) (t : StarTable α) : StarTable β :=
  { cols := t.cols, rows := t.rows.map (fun r => r.map (WCell.map q)) }

/-- the value `create_wedge_list_sg` assigns to the column of that name (`Gen.C17.wedgeAssignments`) -/
def WedgeRow.cellOf (r : WedgeRow α) (c : String) : WCell α :=
  if c == "tomo_num" then .int r.tomoNum
  else if c == "pixelsize" then .num r.pixelSize
  else if c == "tomo_x" then .num r.tomoX
  else if c == "tomo_y" then .num r.tomoY
  else if c == "tomo_z" then .num r.tomoZ
  else if c == "z_shift" then .num r.zShift
  else if c == "tilt_angle" then .num r.tiltAngle
  else if c == "defocus" then optCell r.defocus
  else if c == "exposure" then optCell r.exposure
  else if c == "voltage" then .num r.voltage
  else if c == "amp_contrast" then .num r.ampContrast
  else if c == "cs" then .num r.cs
  else .nan

/-- the table that is written: the source's column list, minus the columns in which no row has a value
(`dropna(axis=1, how="all")`), one table row per wedge row -/
def sgTable (rows : List (WedgeRow α)) : StarTable α :=
  let cols := Gen.C17.wedgeColumns.filter (fun c => rows.any (fun r => !(r.cellOf c).isNan))
  { cols := cols, rows := rows.map (fun r => cols.map r.cellOf) }

/-- the cell of a table row under a column name; a column that is not in the file reads as "not given" -/
def look (cols : List String) (cells : List (WCell β)) (c : String) : WCell β := ((cols.zip cells).lookup c).getD .nan

def WCell.asInt : WCell β → Option Int
  | .int n => some n
  | _ => none
def WCell.asNum : WCell β → Option β
  | .num x => some x
  | _ => none
/-- an optional column: a number, or NaN / absent -/
def WCell.asOpt : WCell β → Option (Option β)
  | .num x => some (some x)
  | .nan => some none
  | .int _ => none

/-- one row of `load_wedge_list_sg(path)`, read by column name -/
def loadSgRow (cols : List String) (cells : List (WCell β)) : Option (WedgeRow β) :=
  match (look cols cells "tomo_num").asInt, (look cols cells "pixelsize").asNum, (look cols cells "tomo_x").asNum,
        (look cols cells "tomo_y").asNum, (look cols cells "tomo_z").asNum, (look cols cells "z_shift").asNum,
        (look cols cells "tilt_angle").asNum, (look cols cells "defocus").asOpt, (look cols cells "exposure").asOpt,
        (look cols cells "voltage").asNum, (look cols cells "amp_contrast").asNum, (look cols cells "cs").asNum with
  | some n, some px, some x, some y, some z, some zs, some ta, some d, some e, some v, some a, some cs =>
    some { tomoNum := n, pixelSize := px, tomoX := x, tomoY := y, tomoZ := z, zShift := zs, tiltAngle := ta,
           defocus := d, exposure := e, voltage := v, ampContrast := a, cs := cs }
  | _, _, _, _, _, _, _, _, _, _, _, _ => none

def loadSg (t : StarTable β) : Option (List (WedgeRow β)) := t.rows.mapM (loadSgRow t.cols)

def WedgeRow.map (q : α → β) (r : WedgeRow α) : WedgeRow β :=
  { tomoNum := r.tomoNum, pixelSize := q r.pixelSize, tomoX := q r.tomoX, tomoY := q r.tomoY, tomoZ := q r.tomoZ,
    zShift := q r.zShift, tiltAngle := q r.tiltAngle, defocus := r.defocus.map q, exposure := r.exposure.map q,
    voltage := q r.voltage, ampContrast := q r.ampContrast, cs := q r.cs }

/-- `wedge_list_sg_to_em(path, …)`: read the STAR wedge list, group by `tomo_num`, min / max of `tilt_angle` -/
def sgToEmFile (le : β → β → Bool) (t : StarTable β) : Option (List (Int × β × β)) :=
  (loadSg t).bind (fun rs => sgToEm le (rs.map (fun r => (r.tomoNum, r.tiltAngle))))

end CryoCat.C17
