import CryoCat.Gen.C15
/-! C15 — model of the tilt-stack operations of `cryocat/tiltstack.py`. Mathlib-free.

A 3-D array is its numpy `shape` plus nested lists in C order (`A3`). `TiltStack` keeps its data in
`zyx` order: `d0 = n_tilts`, `d1 = height` (rows, y), `d2 = width` (columns, x). Voxels are an opaque
type parameter `α` for everything except binning (which needs `+`, `0`, `/`), images are an opaque
type parameter `ι` for the operations that only select or permute whole tilts. -/
namespace CryoCat.C15

abbrev L3 (α : Type) := List (List (List α))

structure A3 (α : Type) where
  d0 : Nat
  d1 : Nat
  d2 : Nat
  v : L3 α
deriving Repr, DecidableEq

/-- an MRC file as this code uses it: header dimensions (`nx` fastest) and the payload in file order -/
structure Mrc (α : Type) where
  nx : Nat
  ny : Nat
  nz : Nat
  data : List α
deriving Repr, DecidableEq

/-- the exceptions the code raises -/
inductive Err
  | cropWidth      -- ValueError: new_width cannot be greater than ts.width
  | cropHeight     -- ValueError: new_height cannot be greater than ts.height
  | index          -- IndexError: one or more indices in idx_to_remove exceed bounds
  | emptyIdx       -- ValueError: input indices can't be empty
  | singleTilt     -- ValueError: stack contains only 1 tilt
  | emptyStack     -- np.stack of an empty list
  | axis           -- ValueError: the axes can be 'x', 'y' or 'z'
  | angleIndex     -- IndexError: more tilt angles than images
  | binFactor      -- binning factor 0
  | angleText      -- a line of the angle file is not a plain decimal number (outside the modelled grammar)
  | argType        -- ValueError of `tlt_load` / `indices_load`: the argument is neither a path, a list nor an ndarray (e.g. a tuple)
deriving Repr, DecidableEq

def Err.name : Err → String
  | .cropWidth => "crop-width" | .cropHeight => "crop-height" | .index => "index" | .emptyIdx => "empty-indices"
  | .singleTilt => "single-tilt" | .emptyStack => "empty-stack" | .axis => "axis" | .angleIndex => "angle-index"
  | .binFactor => "bin-factor" | .angleText => "angle-text" | .argType => "arg-type"

variable {α ι κ β : Type}

/-! ### indexing, tabulation, rectangularity -/

def get3 (d : α) (v : L3 α) (i j k : Nat) : α := ((v.getD i []).getD j []).getD k d

def tab3 (n0 n1 n2 : Nat) (f : Nat → Nat → Nat → α) : L3 α :=
  (List.range n0).map fun i => (List.range n1).map fun j => (List.range n2).map fun k => f i j k

/-- `v` is a rectangular `n0 × n1 × n2` nest -/
def Rect (n0 n1 n2 : Nat) (v : L3 α) : Prop :=
  v.length = n0 ∧ ∀ img ∈ v, img.length = n1 ∧ ∀ row ∈ img, row.length = n2

def A3.WF (a : A3 α) : Prop := Rect a.d0 a.d1 a.d2 a.v

/-- numpy `a.transpose(2, 1, 0)` -/
def transpose3 (d : α) (a : A3 α) : A3 α :=
  { d0 := a.d2, d1 := a.d1, d2 := a.d0, v := tab3 a.d2 a.d1 a.d0 (fun i j k => get3 d a.v k j i) }

/-! ### MRC payload (C order, x fastest) -/

def chunk (n : Nat) : Nat → List β → List (List β)
  | 0, _ => []
  | k + 1, data => data.take n :: chunk n k (data.drop n)

/-- `cryomap.write(data, file, transpose=False)`: header `nx,ny,nz = shape[2],shape[1],shape[0]`, payload in C order -/
def writeMrc (a : A3 α) : Mrc α :=
  { nx := a.d2, ny := a.d1, nz := a.d0, data := a.v.flatMap (fun img => img.flatMap id) }

/-- `cryomap.read(file, transpose=False)`: shape `(nz, ny, nx)` -/
def readMrc (f : Mrc α) : A3 α :=
  { d0 := f.nz, d1 := f.ny, d2 := f.nx,
    v := (chunk (f.ny * f.nx) f.nz f.data).map (fun img => chunk f.nx f.ny img) }

/-- reshape of a flat C-order buffer (used by the driver to receive arrays) -/
def ofFlat (n0 n1 n2 : Nat) (data : List α) : A3 α := readMrc { nx := n2, ny := n1, nz := n0, data := data }

/-! ### whole-tilt operations (images opaque) -/

/-- `np.argsort(tilt_angles)`: positions ordered by ascending angle. The model's merge sort is stable (`argsort_stable`);
numpy's default `kind="quicksort"` is NOT guaranteed to be, so for equal angles (outside the property: "without ties") the
position of the tied images in the real result is unspecified and is never compared with the model's. -/
def argsort (le : κ → κ → Bool) (angles : List κ) : List Nat :=
  (angles.zipIdx.mergeSort (fun a b => le a.1 b.1)).map (·.2)

/-- `ts.data[sorted_indices, :, :]` -/
def sortTilts (le : κ → κ → Bool) (angles : List κ) (imgs : List ι) : Except Err (List ι) :=
  let idx := argsort le angles
  if idx.all (· < imgs.length) then .ok (idx.filterMap (imgs[·]?)) else .error .angleIndex

/-! ### the tilt-angle sources: a text file with one decimal number per line (`.tlt`, `.rawtlt`, …: `one_value_per_line_read`),
the `TiltAngle = …` entries of an mdoc file (`Mdoc.get_image_feature("TiltAngle")`), or a list / ndarray of numbers.
The sort key of the model is the EXACT rational value of the decimal text (no rounding): `parseDec`. The code sorts by
that value rounded to float32 (text files) or float64 (mdoc, lists, arrays); rounding is monotone, so as long as it does
not merge two different angles (the harness checks this for every generated case) the two orders are the same. -/

def isWs (c : Char) : Bool := c == ' ' || c == '\t' || c == '\r' || c == '\n'

/-- `str.strip()` / pandas' `sep=r"\s+"` on a one-column line -/
def trimChars (cs : List Char) : List Char := ((cs.dropWhile isWs).reverse.dropWhile isWs).reverse

/-- value of a string of decimal digits, most significant first -/
def natOfDigits (ds : List Char) : Nat := ds.foldl (fun acc c => 10 * acc + (c.toNat - 48)) 0

/-- `ddd`, `ddd.`, `ddd.ddd`, `.ddd` (at least one digit): the exact rational value -/
def parseUnsigned (cs : List Char) : Option Rat :=
  let ip := cs.takeWhile Char.isDigit
  match cs.dropWhile Char.isDigit with
  | [] => if ip.isEmpty then none else some (mkRat (natOfDigits ip) 1)
  | '.' :: fp =>
    if fp.all Char.isDigit && !(ip.isEmpty && fp.isEmpty) then some (mkRat (natOfDigits (ip ++ fp)) (10 ^ fp.length)) else none
  | _ => none

/-- an optional sign, then an unsigned decimal; exponents, `nan`, `inf` are not in the modelled grammar (`none`) -/
def parseDecChars : List Char → Option Rat
  | '-' :: cs => (parseUnsigned cs).map (fun q => -q)
  | '+' :: cs => parseUnsigned cs
  | cs => parseUnsigned cs

def parseDec (s : String) : Option Rat := parseDecChars (trimChars s.toList)

/-- every line must parse (a file with an unparsable line is outside the model: `none`) -/
def parseAll : List String → Option (List Rat)
  | [] => some []
  | s :: t =>
    match parseDec s, parseAll t with
    | some q, some qs => some (q :: qs)
    | _, _ => none

def ratLe (a b : Rat) : Bool := decide (a ≤ b)

/-- `sort_tilts_by_angle` on the angles as they are WRITTEN (one decimal text per image) -/
def sortTiltsLines (lines : List String) (imgs : List ι) : Except Err (List ι) :=
  match parseAll lines with
  | none => .error .angleText
  | some keys => sortTilts ratLe keys imgs

/-! #### from the TEXT OF THE FILE to the column of angles -/

def isBlank (cs : List Char) : Bool := cs.all isWs

/-- first whitespace-separated field of a line -/
def firstField (cs : List Char) : List Char := (cs.dropWhile isWs).takeWhile (fun c => !isWs c)

/-- `pd.read_csv(path, header=None, sep=r"\s+").iloc[:, 0]`: blank lines are skipped, the first column is taken -/
def tltColumn (lines : List (List Char)) : List (List Char) := (lines.filter (fun l => !isBlank l)).map firstField

/-- `key = value` lines of an mdoc section: `line.split("=")`, both sides stripped -/
def keyOf (cs : List Char) : List Char := trimChars (cs.takeWhile (· != '='))
def valOf (cs : List Char) : List Char := trimChars ((cs.dropWhile (· != '=')).drop 1)

/-- `Mdoc(path).get_image_feature("TiltAngle")`: one value per image section, in file order — the value of every
`TiltAngle = v` line (section headers `[ZValue = k]` start with `[` and are no key lines) -/
def mdocColumn (lines : List (List Char)) : List (List Char) :=
  (lines.filter (fun l => l.head? != some '[' && keyOf l == "TiltAngle".toList)).map valOf

/-- the `input_tilts` argument as the caller passes it -/
inductive AngArg
  | seq (lines : List String)   -- a list or an ndarray (the decimal text of each number)
  | tltFile (lines : List String)   -- a one-value-per-line text file (`.tlt`, `.rawtlt`, `.txt`, …): ALL its lines
  | mdocFile (lines : List String)  -- an `.mdoc` file: ALL its lines
  | other                       -- anything else (a tuple, …): `tlt_load` raises `ValueError`
deriving Repr, DecidableEq

/-- the decimal texts `sort_tilts_by_angle` sorts by, one per image -/
def AngArg.cells : AngArg → Option (List String)
  | .seq lines => some lines
  | .tltFile lines => some ((tltColumn (lines.map String.toList)).map String.ofList)
  | .mdocFile lines => some ((mdocColumn (lines.map String.toList)).map String.ofList)
  | .other => none

/-- `ioutils.indices_load(idx, numbered_from_1)` for list input: `indices - 1` when numbered from 1 -/
def indicesLoad (base1 : Bool) (idxs : List Int) : Except Err (List Int) :=
  if idxs.isEmpty then .error .emptyIdx
  else .ok (if base1 then idxs.map (· - Gen.C15.indexShift) else idxs)

/-- bounds check, then `np.delete(ts.data, idx, axis=0)` -/
def removeTilts (base1 : Bool) (idxs : List Int) (imgs : List ι) : Except Err (List ι) :=
  match indicesLoad base1 idxs with
  | .error e => .error e
  | .ok idx0 =>
    if idx0.any (fun i => i < 0 || i ≥ (imgs.length : Int)) then .error .index
    else .ok ((imgs.zipIdx.filter (fun p => !(idx0.contains (p.2 : Int)))).map (·.1))

/-- how `idx_to_remove` reaches `ioutils.indices_load` -/
inductive IdxSrc
  | list   -- a python list or a numpy array
  | txt    -- a text file, one index per line (`np.loadtxt(dtype=int)`)
  | csv    -- a csv file with a boolean column `ToBeRemoved`: the row positions of the `True` cells, always 0-based
  | other  -- anything else (a tuple, …): `indices_load` raises `ValueError`
deriving Repr, DecidableEq

/-- `numbered_from_1` as the caller passes it (`none`: keyword omitted, the signature default applies) -/
def base1Of (o : Option Bool) : Bool := o.getD Gen.C15.defaultNumberedFrom1

/-- `indices_load` for the three sources: only lists/arrays are refused when empty; a csv file forces 0-based numbering;
a text file is read with `np.atleast_1d(np.loadtxt(...))`, so a file with a single entry is a one-element index list like any other -/
def removeTiltsSrc (src : IdxSrc) (base1 : Bool) (idxs : List Int) (imgs : List ι) : Except Err (List ι) :=
  match src with
  | .list => removeTilts base1 idxs imgs
  | .txt => if idxs.isEmpty then .ok imgs else removeTilts base1 idxs imgs
  | .csv => if idxs.isEmpty then .ok imgs else removeTilts false idxs imgs
  | .other => .error .argType

/-- the loop `for i in range(n): if i % 2 == r: even.append(...) else: odd.append(...)`,
written as two mutually recursive selections (`r = 0`: the first image is even) -/
def sel0 : List ι → List ι
  | [] => []
  | a :: t => a :: sel1 t
where sel1 : List ι → List ι
  | [] => []
  | _ :: t => sel0 t

def evens (l : List ι) : List ι := if Gen.C15.evenRemainder = 0 then sel0 l else sel0.sel1 l
def odds (l : List ι) : List ι := if Gen.C15.evenRemainder = 0 then sel0.sel1 l else sel0 l

def interleave : List ι → List ι → List ι
  | [], ys => ys
  | x :: xs, ys => x :: interleave ys xs
termination_by xs ys => xs.length + ys.length

def splitTilts (imgs : List ι) : Except Err (List ι × List ι) :=
  if imgs.length = 1 then .error .singleTilt
  else if imgs.length = 0 then .error .emptyStack
  else .ok (evens imgs, odds imgs)

/-! ### operations inside the images -/

/-- reverse numpy axis `ax` of a `zyx` nest -/
def flipAxis (ax : Nat) (v : L3 α) : L3 α :=
  match ax with
  | 0 => v.reverse
  | 1 => v.map List.reverse
  | 2 => v.map (fun img => img.map List.reverse)
  | _ => v

/-- the `if a == "x" … elif a == "y" … elif a == "z"` chain, as extracted from the source -/
def flipNamed (name : String) : Option Nat := Gen.C15.flipTable.lookup name

def flipAll : List String → L3 α → Except Err (L3 α)
  | [], v => .ok v
  | a :: as, v =>
    match flipNamed a with
    | some k => flipAll as (flipAxis k v)
    | none => .error .axis

/-- the `axes` argument as the caller passes it -/
inductive AxesArg
  | one (a : String)          -- a single string: wrapped into a one-element list
  | list (as : List String)   -- a list of strings
  | other                     -- anything else (a tuple, …): wrapped into a one-element list whose element equals no axis name
deriving Repr, DecidableEq

/-- `if not isinstance(axes, list): axes = [axes]`, then the loop -/
def flipArg (arg : AxesArg) (v : L3 α) : Except Err (L3 α) :=
  match arg with
  | .one a => flipAll [a] v
  | .list as => flipAll as v
  | .other => .error .axis

/-- `full // 2 - new // 2` -/
def cropStart (full new : Nat) : Nat := full / 2 - new / 2

/-- python slice `l[start : start + len]` -/
def window (start len : Nat) (l : List β) : List β := (l.drop start).take len

def cropV (H W h w : Nat) (v : L3 α) : L3 α :=
  v.map fun img => (window (cropStart H h) h img).map (window (cropStart W w) w)

def crop (newW newH : Option Nat) (a : A3 α) : Except Err (A3 α) :=
  let w := newW.getD a.d2
  let h := newH.getD a.d1
  if w > a.d2 then .error .cropWidth
  else if h > a.d1 then .error .cropHeight
  else .ok { d0 := a.d0, d1 := h, d2 := w, v := cropV a.d1 a.d2 h w a.v }

def sumRange [Add α] [OfNat α 0] (n : Nat) (f : Nat → α) : α := (List.range n).foldl (fun acc i => acc + f i) 0

def ceilDiv (n b : Nat) : Nat := (n + b - 1) / b

/-- `downscale_local_mean(data, (1, b, b))`: pad with zeros to a multiple of `b`, mean of every `b × b` block -/
def binV [Add α] [OfNat α 0] [Div α] [NatCast α] (b n H W : Nat) (v : L3 α) : L3 α :=
  tab3 n (ceilDiv H b) (ceilDiv W b) fun z J I =>
    sumRange b (fun j => sumRange b (fun i => get3 0 v z (J * b + j) (I * b + i))) / ((b * b : Nat) : α)

def bin [Add α] [OfNat α 0] [Div α] [NatCast α] (b : Nat) (a : A3 α) : Except Err (A3 α) :=
  if b = 0 then .error .binFactor
  else .ok { d0 := a.d0, d1 := ceilDiv a.d1 b, d2 := ceilDiv a.d2 b, v := binV b a.d0 a.d1 a.d2 a.v }

/-! ### the operations on a loaded stack; every one returns the list of result stacks (two for the split) -/

def opSort (le : κ → κ → Bool) (angles : List κ) (a : A3 α) : Except Err (List (A3 α)) :=
  (sortTilts le angles a.v).map fun v => [{ a with d0 := v.length, v := v }]

def opSortArg (arg : AngArg) (a : A3 α) : Except Err (List (A3 α)) :=
  match arg.cells with
  | none => .error .argType
  | some cells => (sortTiltsLines cells a.v).map fun v => [{ a with d0 := v.length, v := v }]

def opRemove (base1 : Bool) (idxs : List Int) (a : A3 α) : Except Err (List (A3 α)) :=
  (removeTilts base1 idxs a.v).map fun v => [{ a with d0 := v.length, v := v }]

def opSplit (a : A3 α) : Except Err (List (A3 α)) :=
  (splitTilts a.v).map fun p => [{ a with d0 := p.1.length, v := p.1 }, { a with d0 := p.2.length, v := p.2 }]

def opFlip (axes : List String) (a : A3 α) : Except Err (List (A3 α)) :=
  (flipAll axes a.v).map fun v => [{ a with v := v }]

def opFlipArg (arg : AxesArg) (a : A3 α) : Except Err (List (A3 α)) :=
  (flipArg arg a.v).map fun v => [{ a with v := v }]

def opRemoveSrc (src : IdxSrc) (base1 : Bool) (idxs : List Int) (a : A3 α) : Except Err (List (A3 α)) :=
  (removeTiltsSrc src base1 idxs a.v).map fun v => [{ a with d0 := v.length, v := v }]

def opCrop (newW newH : Option Nat) (a : A3 α) : Except Err (List (A3 α)) := (crop newW newH a).map ([·])

def opBin [Add α] [OfNat α 0] [Div α] [NatCast α] (b : Nat) (a : A3 α) : Except Err (List (A3 α)) :=
  (bin b a).map ([·])

/-! ### `TiltStack.__init__`, `write_out`, `correct_order` around an operation -/

inductive Input (α : Type)
  | arr (a : A3 α)      -- a numpy array
  | file (f : Mrc α)    -- a path to an MRC file
deriving Repr

/-- `TiltStack.__init__`: files are read in `zyx`; arrays are transposed iff `input_order == "xyz"` -/
def load (d : α) (inXyz : Bool) : Input α → A3 α
  | .arr a => if inXyz then transpose3 d a else a
  | .file f => readMrc f

/-- `correct_order`: transpose iff `current_order ("zyx") != output_order` -/
def present (d : α) (outZyx : Bool) (a : A3 α) : A3 α := if outZyx then a else transpose3 d a

structure Out (α : Type) where
  returned : List (A3 α)
  written : List (Mrc α)
deriving Repr

def pipeline (d : α) (inXyz outZyx writeFile : Bool) (op : A3 α → Except Err (List (A3 α))) (inp : Input α) :
    Except Err (Out α) :=
  (op (load d inXyz inp)).map fun rs =>
    { returned := rs.map (present d outZyx), written := if writeFile then rs.map writeMrc else [] }

/-- `input_order` / `output_order` as the caller passes them (`none`: keyword omitted, the signature default applies) -/
def inXyzOf (o : Option Bool) : Bool := o.getD (Gen.C15.defaultInputOrder == "xyz")
def outZyxOf (o : Option Bool) : Bool := o.getD (Gen.C15.defaultOutputOrder == Gen.C15.currentOrder)

/-! ### the casts back to the stack's dtype (`write_out(..., data_type=self.data_type)` and `correct_order`'s `astype`) -/

def A3.map (c : α → β) (a : A3 α) : A3 β := { d0 := a.d0, d1 := a.d1, d2 := a.d2, v := a.v.map (fun img => img.map (fun row => row.map c)) }
def Mrc.map (c : α → β) (f : Mrc α) : Mrc β := { nx := f.nx, ny := f.ny, nz := f.nz, data := f.data.map c }

/-- both the returned stacks and the written files go through the same cast -/
def Out.cast (c : α → β) (o : Out α) : Out β := { returned := o.returned.map (A3.map c), written := o.written.map (Mrc.map c) }

/-- `astype(int16)` of a (float) block mean: truncation toward zero -/
def truncI (q : Rat) : Int := Int.tdiv q.num q.den

end CryoCat.C15
