import CryoCat.Model.C17_Ext
/-! C17 — the text → number step of the loaders INSIDE the model (round 5, extension goal).

`tlt_load`, `total_dose_load`, `ctffind4_read` (through `pandas.read_csv`) and `gctf_read` (through the STAR reader) turn the decimal
tokens of their text files into floats. Until round 5 the harness did that step (`Fraction(token)`) and the model received numbers.
Now the driver receives the TOKENS and `parseDecimal` turns them into exact rationals: an optional sign, digits with an optional
fraction (`12`, `12.`, `.5`, `12.50`), an optional exponent (`e-3`, `E+2`). What the implementation must return is then the binary
float NEAREST to that rational (float32 for the one-value-per-line and ctffind4 readers, float64 elsewhere) — compared exactly by the
harness. `printDecimal` is the printer of the class of tokens the generators write; Lemmas/C17_Num.lean proves
`parseDecimal (printDecimal neg i f) = some (decVal neg i f)`. Mathlib-free, executable. -/
namespace CryoCat.C17

/-- unsigned `digits[.digits]` / `.digits` → the rational it denotes -/
def uDec (mant : Str) : Option Rat :=
  if allDigits (removeFirstDot mant) then
    some (mkRat (natOfDigits ((splitDot mant).1 ++ (splitDot mant).2)) (10 ^ (splitDot mant).2.length))
  else none

/-- `10^e` resp. `10^-e` -/
def pow10 (neg : Bool) (e : Nat) : Rat := if neg then mkRat 1 (10 ^ e) else ((10 ^ e : Nat) : Rat)

/-- a decimal token → exact rational; `none` = not a decimal literal of this grammar (`nan`, `inf`, `1_0`, `abc`, empty) -/
def parseDecimal (s : Str) : Option Rat :=
  let neg := match s with | '-' :: _ => true | _ => false
  let body := match s with | '-' :: r => r | '+' :: r => r | r => r
  match uDec (splitExp body).1, (splitExp body).2 with
  | some q, none => some (if neg then -q else q)
  | some q, some es =>
    match signedNat es with
    | some (eneg, e) => some ((if neg then -q else q) * pow10 eneg e)
    | none => none
  | none, _ => none

/-- the tokens the generators write: optional '-', integer digits, optionally '.' and fraction digits -/
def printDecimal (neg : Bool) (i f : Str) : Str :=
  (if neg then ['-'] else []) ++ i ++ (if f.isEmpty then [] else '.' :: f)

end CryoCat.C17
