import CryoCat.Model.C12
/-! C12 — the transform pair of the filters inside the model: a naive O(n²) separable discrete Fourier
transform, polymorphic in the coefficient type `C` (driver: `Cx Float`; theorems in `Lemmas/C12_Dft`:
any field with a primitive `n`-th root of unity, in particular ℂ). Mathlib-free.

The twiddle factors come from a table `tw` (`tw m = ω^m`, `0 ≤ m < n`); the inverse uses `tw ((n − m) % n)`
and the factor `ninv = 1/n`. The 1-D transforms act on the indices `0 … n−1` and leave every other index
alone, so that as maps on ALL functions `Int → C` they are mutually inverse bijections (`Transform`). -/
namespace CryoCat.C12

variable {C : Type}

/-- `Σ_{j<n} f j` -/
def sumN [Add C] [OfNat C 0] : Nat → (Nat → C) → C
  | 0, _ => 0
  | n + 1, f => sumN n f + f n

section dft
variable [Add C] [Mul C] [OfNat C 0]

/-- `X_k = Σ_j ω^{jk} x_j` on `0 ≤ k < n` -/
def dft1 (n : Nat) (tw : Nat → C) (x : Int → C) (k : Int) : C :=
  if 0 ≤ k ∧ k < (n : Int) then sumN n (fun j => tw ((j * k.toNat) % n) * x (j : Int)) else x k

/-- `x_i = (1/n) Σ_k ω^{-ki} X_k` on `0 ≤ i < n` -/
def idft1 (n : Nat) (tw : Nat → C) (ninv : C) (y : Int → C) (i : Int) : C :=
  if 0 ≤ i ∧ i < (n : Int) then ninv * sumN n (fun k => tw ((n - (k * i.toNat) % n) % n) * y (k : Int)) else y i

/-- a 1-D operator applied along one axis of a volume -/
def alongX (T : (Int → C) → (Int → C)) (x : Idx → C) : Idx → C := fun i => T (fun a => x (a, i.2.1, i.2.2)) i.1
def alongY (T : (Int → C) → (Int → C)) (x : Idx → C) : Idx → C := fun i => T (fun b => x (i.1, b, i.2.2)) i.2.1
def alongZ (T : (Int → C) → (Int → C)) (x : Idx → C) : Idx → C := fun i => T (fun c => x (i.1, i.2.1, c)) i.2.2

/-- `numpy.fft.fftn`: the 1-D transform along axis 0, then 1, then 2 -/
def dft3 (d : Dims) (twx twy twz : Nat → C) (x : Idx → C) : Idx → C :=
  alongZ (dft1 d.nz twz) (alongY (dft1 d.ny twy) (alongX (dft1 d.nx twx) x))

/-- `numpy.fft.ifftn` -/
def idft3 (d : Dims) (twx twy twz : Nat → C) (ix iy iz : C) (y : Idx → C) : Idx → C :=
  alongX (idft1 d.nx twx ix) (alongY (idft1 d.ny twy iy) (alongZ (idft1 d.nz twz iz) y))
end dft

/-! ### circular shifts and frequency negation as index maps (what `Lemmas/C12_DftShift` speaks about) -/

/-- `np.roll(x, -s, axis)` read as a re-indexing: voxel `i` of the rolled array is voxel `(i + s) mod n` of the
original; indices off the axis range are left alone (as the 1-D transforms leave them alone) -/
def roll1 (n : Nat) (s : Int) (i : Int) : Int := if 0 ≤ i ∧ i < (n : Int) then (i + s) % (n : Int) else i

/-- `np.roll(x, (-s₀,-s₁,-s₂), axis=(0,1,2))` as a re-indexing of the volume -/
def rollIdx (d : Dims) (s : Idx) (i : Idx) : Idx := (roll1 d.nx s.1 i.1, roll1 d.ny s.2.1 i.2.1, roll1 d.nz s.2.2 i.2.2)

/-- DFT bin of the opposite frequency on the axis range (`negIdx`), identity off it -/
def negBox1 (n : Nat) (k : Int) : Int := if 0 ≤ k ∧ k < (n : Int) then negIdx n k else k

/-- bin `(-j,-k,-l) mod (nx,ny,nz)` -/
def negBoxIdx (d : Dims) (k : Idx) : Idx := (negBox1 d.nx k.1, negBox1 d.ny k.2.1, negBox1 d.nz k.2.2)

/-! ### complex numbers over the model's number type -/

structure Cx (α : Type) where
  re : α
  im : α

namespace Cx
variable {α : Type}
instance [Add α] : Add (Cx α) := ⟨fun a b => ⟨a.re + b.re, a.im + b.im⟩⟩
instance [Sub α] : Sub (Cx α) := ⟨fun a b => ⟨a.re - b.re, a.im - b.im⟩⟩
instance [Add α] [Sub α] [Mul α] : Mul (Cx α) := ⟨fun a b => ⟨a.re * b.re - a.im * b.im, a.re * b.im + a.im * b.re⟩⟩
instance [OfNat α 0] : OfNat (Cx α) 0 := ⟨⟨0, 0⟩⟩
instance [Mul α] : SMul α (Cx α) := ⟨fun r c => ⟨r * c.re, r * c.im⟩⟩
/-- `np.real`, as a map of complex numbers -/
def real [OfNat α 0] (c : Cx α) : Cx α := ⟨c.re, 0⟩
def ofReal [OfNat α 0] (a : α) : Cx α := ⟨a, 0⟩
end Cx

/-! ### the executed pipeline: `np.real(ifftn(fftn(x) * gain))` with the stages materialised -/

def volOf (x : Idx → C) : Vol C := fun a b c => x (a, b, c)

/-- `np.roll(x, (-s₀,-s₁,-s₂), axis=(0,1,2))` of a materialised array (`rollIdx` tabulated on the box) -/
def rollGrid [OfNat C 0] (d : Dims) (s : Idx) (x : Grid C) : Grid C :=
  tabulate d (volOf (fun i => atIdx x.get (rollIdx d s i)))

/-- one materialised stage: apply `T` to what the array holds and tabulate the result on the box -/
def stage [OfNat C 0] (d : Dims) (T : (Idx → C) → (Idx → C)) (g : Grid C) : Grid C :=
  tabulate d (volOf (T (atIdx g.get)))

/-- `filt (dft3 …) (idft3 …) re gain` on arrays, every 1-D pass materialised (each pass of the model's
transforms reads only the box: `Lemmas/C12_Dft.filtGrid_get`) -/
def filtGrid {R : Type} [SMul R C] [Add C] [Mul C] [OfNat C 0] (d : Dims) (twx twy twz : Nat → C) (ix iy iz : C)
    (re : C → C) (gain : Idx → R) (x : Grid C) : Grid C :=
  let X := stage d (alongZ (dft1 d.nz twz)) (stage d (alongY (dft1 d.ny twy)) (stage d (alongX (dft1 d.nx twx)) x))
  let Y := stage d (fun s k => gain k • s k) X
  let Z := stage d (alongX (idft1 d.nx twx ix)) (stage d (alongY (idft1 d.ny twy iy)) (stage d (alongZ (idft1 d.nz twz iz)) Y))
  stage d (fun s i => re (s i)) Z

end CryoCat.C12
