import CryoCat.Model.C17
/-! C17 — the reader as the code behaves OUTSIDE the strict model `parseMdoc` (hardening pass, audit item 5).

`parseMdoc` (Model/C17.lean) answers `none` both when `Mdoc(path)` raises and when the text is of a shape it does not
describe. This file separates the two:

* `parseMdocX` FOLLOWS THE CODE on two more classes — duplicate header keys (`project_info[key] = …` overwrites: position of
  the first occurrence, value of the last) and TiltAngle cells in any decimal / exponent spelling Python's `float()` accepts
  (`+5`, `1e-05`, `.5e1`; `astype(float)` on the text cell) — and agrees with `parseMdoc` wherever that is defined
  (`parseMdocX_extends`, Lemmas/C17_Ext.lean);
* `whyNone` says, for a text `parseMdocX` does not read, whether the code RAISES or the text belongs to a named class that is
  explicitly OUTSIDE the quantifier of the property (the judge then skips the comparison and counts the case; it never agrees
  silently): sections with different key sets (pandas fills NaN), a `[` line inside a section (overwrites the section value, adds
  a NaN column), duplicate keys inside a section, a section value `int()` accepts but `isdigit` does not (`+3`, `1_0`), a
  TiltAngle spelled `nan` / `inf` / with underscores.

Also here: `indicesLoad` (`ioutils.indices_load` on list / array input). Mathlib-free, executable. -/
namespace CryoCat.C17

/-! ### Python `float(text)` for a decimal / exponent literal → canonical decimal -/

/-- split at the first `e` / `E` -/
def splitExp : Str → Str × Option Str
  | [] => ([], none)
  | c :: cs => if c == 'e' || c == 'E' then ([], some cs) else ((c :: (splitExp cs).1), (splitExp cs).2)

/-- `[+-]?digits` → (negative, value) -/
def signedNat (s : Str) : Option (Bool × Nat) :=
  match s with
  | '-' :: r => if allDigits r then some (true, natOfDigits r) else none
  | '+' :: r => if allDigits r then some (false, natOfDigits r) else none
  | r => if allDigits r then some (false, natOfDigits r) else none

/-- the digits `i.f × 10^e` as canonical integer / fraction digit strings (decimal point shifted by `e`) -/
def shiftPoint (i f : Str) (neg : Bool) (e : Nat) : Str × Str :=
  if neg then
    -- move the point e places to the left
    let pad := (List.replicate (e - i.length) '0') ++ i
    let cut := pad.length - e
    (normI (pad.take cut), normF (pad.drop cut ++ f))
  else
    let padf := f ++ List.replicate (e - f.length) '0'
    (normI (i ++ padf.take e), normF (padf.drop e))

/-- unsigned `digits[.digits]` / `.digits` with an optional exponent of magnitude ≤ 30 (beyond that `float()` may overflow to
`inf` or underflow: outside) -/
def pyUFloat (s : Str) : Option (Str × Str) :=
  let (mant, ex) := splitExp s
  let okMant := allDigits (removeFirstDot mant)
  if !okMant then none
  else
    let i := (splitDot mant).1
    let f := (splitDot mant).2
    match ex with
    | none => some (normI i, normF f)
    | some es =>
      match signedNat es with
      | some (neg, e) => if e ≤ 30 then some (shiftPoint i f neg e) else none
      | none => none

/-- `float(s)` for a stripped text `s` in decimal / exponent spelling → (negative, integer digits, fraction digits) -/
def pyFloatText (s : Str) : Option (Bool × Str × Str) :=
  match s with
  | '-' :: r => (pyUFloat r).map (fun p => (true, p.1, p.2))
  | '+' :: r => (pyUFloat r).map (fun p => (false, p.1, p.2))
  | r => (pyUFloat r).map (fun p => (false, p.1, p.2))

/-- `astype(float)` on one TiltAngle cell, as the code does it: the strict model's forms first, then every other decimal /
exponent spelling of a text cell -/
def toTiltX (v : Val) : Option Val :=
  match toTilt v with
  | some t => some t
  | none =>
    match v with
    | .text s => (pyFloatText s).map (fun p => .tilt p.1 p.2.1 p.2.2)
    | _ => none

/-! ### the reader with the code's dict semantics in the header -/

/-- `_parse_header`: `project_info[key] = value` — a repeated key keeps the position of its first occurrence and the value of
its last one -/
def parseHeaderX : List Str → Option (List Str × List (Str × Val))
  | [] => some ([], [])
  | l :: ls =>
    match parseHeaderX ls with
    | none => none
    | some (ts, info) =>
      if ['['].isPrefixOf l then some (parseTitle l :: ts, info)
      else match parseKV l with
        | none => none
        | some kv =>
          match info.lookup kv.1 with
          | some later => some (ts, (kv.1, later) :: info.filter (fun e => !(e.1 == kv.1)))
          | none => some (ts, kv :: info)

def convTiltX (kv : Str × Val) : Option Val := if kv.1 == Gen.C17.tiltKey then toTiltX kv.2 else some kv.2

def mkRowX (cols : List Str) (sec : List Str) : Option Row :=
  match sec with
  | [] => none
  | h :: body =>
    match parseSecValue h, parseBody body with
    | some z, some kvs =>
      if !allDigits z then none
      else if kvs.map (·.1) == cols then
        match kvs.mapM convTiltX with
        | some cells => some { z := normI z, cells := cells, removed := false }
        | none => none
      else if (kvs.map (·.1)).isPerm cols then
        -- the same keys in ANOTHER ORDER (round 5, item 5): `pd.concat` aligns the one-row frame by column NAME, the cells land in the
        -- column order of the first section
        match (cols.mapM (fun c => (kvs.lookup c).map (fun v => (c, v)))).bind (fun kvs' => kvs'.mapM convTiltX) with
        | some cells => some { z := normI z, cells := cells, removed := false }
        | none => none
      else none
    | _, _ => none

/-- `Mdoc._read_mdoc` following the code on duplicate header keys and on every decimal / exponent TiltAngle spelling -/
def parseMdocX (lines : List Str) : Option Mdoc :=
  let headerLines := ((lines.takeWhile (fun l => (secStart l).isNone)).filter (fun l => !isBlank l)).map strip
  let data := lines.dropWhile (fun l => (secStart l).isNone)
  match data with
  | [] => none
  | first :: _ =>
    match secStart first, parseHeaderX headerLines with
    | some sid, some (titles, info) =>
      let sections := secGo ('[' :: sid) [] data
      match sections with
      | [] => none
      | s0 :: _ =>
        let cols := (s0.drop 1).map colName
        if !cols.contains Gen.C17.tiltKey then none
        else match sections.mapM (mkRowX cols) with
          | some rows => some { info := info, titles := titles, sid := sid, cols := cols, rows := rows }
          | none => none
    | _, _ => none

/-! ### why a text is not read: the code raises, or a named class outside the quantifier -/

inductive Why where
  | raises              -- `Mdoc(path)` raises
  | bracketInSection    -- a line starting with '[' inside a section
  | dupKeyInSection     -- the same key twice in one section
  | diffKeys            -- sections with different key SETS (pandas fills NaN cells; the same keys in another order are read: `mkRowX`)
  | secValueForm        -- section value `int()` accepts but `str.isdigit` does not
  | tiltForm            -- TiltAngle spelled nan / inf / infinity / with '_' / with an exponent beyond ±30
deriving Repr, DecidableEq

def Why.name : Why → String
  | .raises => "raises"
  | .bracketInSection => "bracket-line-in-section"
  | .dupKeyInSection => "duplicate-key-in-section"
  | .diffKeys => "different-key-sets"
  | .secValueForm => "section-value-form"
  | .tiltForm => "tilt-form"

def hasDup : List Str → Bool
  | [] => false
  | k :: ks => ks.contains k || hasDup ks

def lowerStr (s : Str) : Str := s.map Char.toLower

/-- a text cell `float()` may accept although `pyFloatText` does not describe it -/
def tiltOutside (s : Str) : Bool :=
  let body := match s with
    | '-' :: r => r
    | '+' :: r => r
    | r => r
  let b := lowerStr body
  b == "nan".toList || b == "inf".toList || b == "infinity".toList || s.contains '_' ||
    ((pyFloatText s).isNone && (splitExp body).2.isSome && allDigits (removeFirstDot (splitExp body).1))

/-- a section value `int()` may accept although it is not all digits -/
def secValueOutside (z : Str) : Bool :=
  !allDigits z && !z.isEmpty && z.all (fun c => c.isDigit || c == '_' || c == '+' || c == '-' || isWs c) && z.any Char.isDigit

def whyNone (lines : List Str) : Why :=
  let data := lines.dropWhile (fun l => (secStart l).isNone)
  match data with
  | [] => .raises
  | first :: _ =>
    match secStart first with
    | none => .raises
    | some sid =>
      let sections := secGo ('[' :: sid) [] data
      let bodies := sections.map (fun s => s.drop 1)
      let keys := bodies.map (fun b => b.map colName)
      -- a `key = value` line of ANY section with no or several '=' (`key, value = line.split("=")` raises ValueError) and a '[' line
      -- without '=' (`line.split("=")[1]` raises IndexError): the reader must refuse, whatever else the text contains
      if bodies.any (fun b => b.any (fun l => if ['['].isPrefixOf l then decide ((splitEq l).length < 2) else (parseKV l).isNone)) then .raises
      else if bodies.any (fun b => b.any (fun l => ['['].isPrefixOf l)) then .bracketInSection
      else if keys.any hasDup then .dupKeyInSection
      else if keys.any (fun ks => !(ks.isPerm (keys.headD []))) then .diffKeys
      else if sections.any (fun s => match s.head? with
          | some h => (match parseSecValue h with | some z => secValueOutside z | none => false)
          | none => false) then .secValueForm
      else if bodies.any (fun b => b.any (fun l => match parseKV l with
          | some (k, .text s) => k == Gen.C17.tiltKey && tiltOutside s
          | _ => false)) then .tiltForm
      else .raises

/-! ### `ioutils.indices_load` on a list / array, and the console-level `mdoc.remove_images` -/

/-- `indices_load(input, numbered_from_1)`: a NEW array, shifted by one when the input counts from 1; the input is not touched
(`Gen.C17.indicesShiftPure`: the source says `indices = indices - 1`, not `indices -= 1`) -/
def indicesLoad (from1 : Bool) (xs : List Int) : List Int := if from1 then xs.map (· - 1) else xs

/-- `mdoc.remove_images(path, idx, numbered_from_1)` after reading: `indices_load`, then `Mdoc.remove_images(…, kept_only=True)` -/
def removeImagesScript (from1 : Bool) (idxs : List Int) (m : Mdoc) : Option Mdoc :=
  removeImages (indicesLoad from1 idxs) Gen.C17.removeKeptOnlyDefault m

end CryoCat.C17
