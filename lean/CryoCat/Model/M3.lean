/-! 3-vectors and 3×3 matrices over any number type — Mathlib-free, executable at `Float`/`Rat`/`Int`.
Elementary rotations take an *abstract angle* `(c, s)` (cosine, sine); theorems assume `c*c+s*s = 1`.
Conventions follow scipy as used by cryoCAT: lower-case `"zxz"` is extrinsic, i.e. for Euler angles
(phi, theta, psi) the matrix is `rz psi * rx theta * rz phi`; upper-case sequences are intrinsic. -/
namespace CryoCat

structure V3 (α : Type) where
  x : α
  y : α
  z : α
deriving Repr, DecidableEq, Inhabited

structure M3 (α : Type) where
  a11 : α
  a12 : α
  a13 : α
  a21 : α
  a22 : α
  a23 : α
  a31 : α
  a32 : α
  a33 : α
deriving Repr, DecidableEq, Inhabited

variable {α : Type}

@[ext] theorem V3.ext' {u v : V3 α} (h1 : u.x = v.x) (h2 : u.y = v.y) (h3 : u.z = v.z) : u = v := by
  cases u; cases v; simp_all

@[ext] theorem M3.ext' {m n : M3 α} (h1 : m.a11 = n.a11) (h2 : m.a12 = n.a12) (h3 : m.a13 = n.a13)
    (h4 : m.a21 = n.a21) (h5 : m.a22 = n.a22) (h6 : m.a23 = n.a23)
    (h7 : m.a31 = n.a31) (h8 : m.a32 = n.a32) (h9 : m.a33 = n.a33) : m = n := by
  cases m; cases n; simp_all

namespace V3
def add [Add α] (u v : V3 α) : V3 α := ⟨u.x + v.x, u.y + v.y, u.z + v.z⟩
def sub [Sub α] (u v : V3 α) : V3 α := ⟨u.x - v.x, u.y - v.y, u.z - v.z⟩
def neg [Neg α] (u : V3 α) : V3 α := ⟨-u.x, -u.y, -u.z⟩
def smul [Mul α] (k : α) (u : V3 α) : V3 α := ⟨k * u.x, k * u.y, k * u.z⟩
def dot [Add α] [Mul α] (u v : V3 α) : α := u.x * v.x + u.y * v.y + u.z * v.z
def normSq [Add α] [Mul α] (u : V3 α) : α := dot u u
def cross [Sub α] [Mul α] (u v : V3 α) : V3 α :=
  ⟨u.y * v.z - u.z * v.y, u.z * v.x - u.x * v.z, u.x * v.y - u.y * v.x⟩
instance [Add α] : Add (V3 α) := ⟨add⟩
instance [Sub α] : Sub (V3 α) := ⟨sub⟩
instance [Neg α] : Neg (V3 α) := ⟨neg⟩
end V3

namespace M3
def mul [Add α] [Mul α] (m n : M3 α) : M3 α :=
  ⟨m.a11*n.a11 + m.a12*n.a21 + m.a13*n.a31, m.a11*n.a12 + m.a12*n.a22 + m.a13*n.a32, m.a11*n.a13 + m.a12*n.a23 + m.a13*n.a33,
   m.a21*n.a11 + m.a22*n.a21 + m.a23*n.a31, m.a21*n.a12 + m.a22*n.a22 + m.a23*n.a32, m.a21*n.a13 + m.a22*n.a23 + m.a23*n.a33,
   m.a31*n.a11 + m.a32*n.a21 + m.a33*n.a31, m.a31*n.a12 + m.a32*n.a22 + m.a33*n.a32, m.a31*n.a13 + m.a32*n.a23 + m.a33*n.a33⟩
instance [Add α] [Mul α] : Mul (M3 α) := ⟨mul⟩
def one [OfNat α 0] [OfNat α 1] : M3 α := ⟨1,0,0, 0,1,0, 0,0,1⟩
def transpose (m : M3 α) : M3 α := ⟨m.a11, m.a21, m.a31, m.a12, m.a22, m.a32, m.a13, m.a23, m.a33⟩
def apply [Add α] [Mul α] (m : M3 α) (v : V3 α) : V3 α :=
  ⟨m.a11*v.x + m.a12*v.y + m.a13*v.z, m.a21*v.x + m.a22*v.y + m.a23*v.z, m.a31*v.x + m.a32*v.y + m.a33*v.z⟩
def col3 (m : M3 α) : V3 α := ⟨m.a13, m.a23, m.a33⟩
def det [Add α] [Sub α] [Mul α] (m : M3 α) : α :=
  m.a11 * (m.a22 * m.a33 - m.a23 * m.a32) - m.a12 * (m.a21 * m.a33 - m.a23 * m.a31) + m.a13 * (m.a21 * m.a32 - m.a22 * m.a31)
def toList (m : M3 α) : List α := [m.a11, m.a12, m.a13, m.a21, m.a22, m.a23, m.a31, m.a32, m.a33]
end M3

section rot
variable [OfNat α 0] [OfNat α 1] [Neg α]
/-- active rotation about z by the angle with cosine `c`, sine `s` -/
def rz (c s : α) : M3 α := ⟨c, -s, 0,  s, c, 0,  0, 0, 1⟩
def rx (c s : α) : M3 α := ⟨1, 0, 0,  0, c, -s,  0, s, c⟩
def ry (c s : α) : M3 α := ⟨c, 0, s,  0, 1, 0,  -s, 0, c⟩
/-- mirror z ↦ −z -/
def Mz : M3 α := ⟨1,0,0, 0,1,0, 0,0,-1⟩
/-- rotation by π about y -/
def Qy : M3 α := ⟨-1,0,0, 0,1,0, 0,0,-1⟩
end rot

section euler
variable [OfNat α 0] [OfNat α 1] [Neg α] [Add α] [Mul α]
/-- scipy `from_euler("zxz", [phi, theta, psi])` (extrinsic): `Rz(psi)·Rx(theta)·Rz(phi)`.
Arguments are the (cos, sin) pairs of phi, theta, psi. -/
def zxz (cp sp ct st cs ss : α) : M3 α := rz cs ss * rx ct st * rz cp sp
/-- scipy intrinsic `"ZXZ"` of (a, b, c): `Rz(a)·Rx(b)·Rz(c)` -/
def ZXZ (ca sa cb sb cc sc : α) : M3 α := rz ca sa * rx cb sb * rz cc sc
/-- scipy intrinsic `"ZYZ"` of (a, b, c): `Rz(a)·Ry(b)·Rz(c)` -/
def ZYZ (ca sa cb sb cc sc : α) : M3 α := rz ca sa * ry cb sb * rz cc sc
end euler

end CryoCat
