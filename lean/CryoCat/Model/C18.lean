import CryoCat.Model.M3
import CryoCat.Gen.C18
/-! C18 — model of `nnana.get_nn_stats` (cryocat/nnana.py): `get_feature_nn_indices`,
`get_nn_distances`, `get_nn_rotations`, and the angular distance of `geom.compare_rotations`.
Mathlib-free, polymorphic in the number type (driver: `Float`; theorems: any commutative ring with a
linear order).

Angles are *abstract*: a particle carries the (cos, sin) pair of each of its Euler angles, so that the
model needs no trigonometry; the driver fills the pairs with `Float.cos/sin`, the theorems assume
`c² + s² = 1` where they need it. Square root and the angle of a rotation (from its trace and the
squared length of its skew part) are *services* passed as parameters (`Num`): the theorems hold for
any such functions. -/
namespace CryoCat.C18

/-- abstract angle: cosine and sine -/
structure Ang (α : Type) where
  c : α
  s : α
deriving Repr, DecidableEq, Inhabited

/-- a particle as `nnana` reads it: `tomo_id`, `subtomo_id`, `x,y,z`, `shift_x,y,z`, `phi, theta, psi` -/
structure Pt (α : Type) where
  tomo : Int
  sub : Int
  base : V3 α
  shift : V3 α
  phi : Ang α
  theta : Ang α
  psi : Ang α
deriving Repr, Inhabited

/-- numeric services that are outside the model -/
structure Num (α : Type) where
  sqrt : α → α
  /-- rotation angle in degrees from the trace and the squared length of the skew part -/
  ang : α → α → α

/-- one row of the table returned by `get_nn_stats` (plus bookkeeping: tomogram, rank, index of the
neighbour among the candidates, squared pixel distance, the relative rotation as a matrix) -/
structure Row (α : Type) where
  tomo : Int
  rank : Nat
  sub : Int
  subNn : Int
  nnIdx : Nat
  d2 : α
  dist : α
  offset : V3 α
  frame : V3 α
  rel : M3 α
  tr : α
  skewSq : α
  ang : α
deriving Repr, Inhabited

variable {α : Type}

section alg
variable [Add α] [Sub α] [Mul α] [Neg α] [OfNat α 0] [OfNat α 1]

/-- `Motl.get_coordinates`: complete position `[x,y,z] + [shift_x,shift_y,shift_z]` -/
def pos (p : Pt α) : V3 α := p.base + p.shift

/-- squared Euclidean distance of the complete positions (pixels) -/
def d2 (q n : Pt α) : α := V3.normSq (pos n - pos q)

/-- `from_euler("zxz", [phi, theta, psi])` -/
def rot (p : Pt α) : M3 α := zxz p.phi.c p.phi.s p.theta.c p.theta.s p.psi.c p.psi.s

/-- `from_euler("zxz", -[psi, theta, phi])` — what the code uses as the inverse orientation -/
def rotInv (p : Pt α) : M3 α := zxz p.psi.c (-p.psi.s) p.theta.c (-p.theta.s) p.phi.c (-p.phi.s)

/-! #### column access (`Motl.get_angles`, `Motl.get_feature`) and `Rotation.from_euler("zxz", ·)` on a row of angles -/

/-- the angle column of that name (`get_feature` on a name that is no angle column gives nothing here) -/
def Pt.angleCol (p : Pt α) : String → Option (Ang α)
  | "phi" => some p.phi
  | "theta" => some p.theta
  | "psi" => some p.psi
  | _ => none

/-- `fm.get_feature([c₁, c₂, …])` / `fm.df[[c₁, c₂, …]].values` for angle columns: one particle's values, in the order asked for -/
def getFeature (cols : List String) (p : Pt α) : List (Ang α) := cols.filterMap p.angleCol

/-- the unary minus in `-fm_a.get_feature([...])`: cos(−a) = cos a, sin(−a) = −sin a -/
def Ang.neg (a : Ang α) : Ang α := ⟨a.c, -a.s⟩

/-- `srot.from_euler("zxz", angles=[a, b, c], degrees=True)` on one row of three angles -/
def fromEuler : List (Ang α) → Option (M3 α)
  | [a, b, c] => some (zxz a.c a.s b.c b.s c.c c.s)
  | _ => none

def trace (m : M3 α) : α := m.a11 + m.a22 + m.a33

/-- squared length of the axial vector of `m − mᵀ` (= 4·sin² of the rotation angle) -/
def skewSq (m : M3 α) : α :=
  (m.a32 - m.a23) * (m.a32 - m.a23) + (m.a13 - m.a31) * (m.a13 - m.a31) + (m.a21 - m.a12) * (m.a21 - m.a12)

/-- the row reported for query `q`, rank `i`, neighbour `n` (= candidate number `j`) -/
def mkRow (S : Num α) (px : α) (t : Int) (i : Nat) (q : Pt α) (j : Nat) (n : Pt α) : Row α :=
  let off := V3.smul px (pos n) - V3.smul px (pos q)
  let rel := rotInv q * rot n
  { tomo := t, rank := i, sub := q.sub, subNn := n.sub, nnIdx := j,
    d2 := d2 q n, dist := S.sqrt (d2 q n) * px,
    offset := off, frame := (rotInv q).apply off,
    rel := rel, tr := trace rel, skewSq := skewSq rel, ang := S.ang (trace rel) (skewSq rel) }
end alg

/-! ### k nearest neighbours -/
section knn
variable [LE α] [DecidableLE α]

/-- indices `< n` ordered by `key` (stable), first `k`: the KD-tree query `query(coord_a, k)` -/
def knnIdx (k n : Nat) (key : Nat → α) : List Nat :=
  ((List.range n).mergeSort (fun i j => decide (key i ≤ key j))).take k

/-- verified checker: is `out` a list of `min k n` distinct indices `< n`, ascending in `key`, such that
no index left out has a smaller key than one that is reported? -/
def checkKnn (k n : Nat) (key : Nat → α) (out : List Nat) : Bool :=
  out.length == min k n &&
  out.all (fun j => decide (j < n)) &&
  out.Nodup &&
  decide (out.Pairwise (fun i j => key i ≤ key j)) &&
  (List.range n).all (fun j => out.contains j || out.all (fun i => decide (key i ≤ key j)))
end knn

/-- the verified checker as the driver runs it (round 7): on EXACT integers. The driver decodes every complete position — the
very double that numpy hands to the KD-tree — into its exact dyadic value, scales all of them by one common power of two to
integers, and evaluates the squared distances in `Int`; a common positive factor does not change any comparison. Elaborated
here, without Mathlib, so the `≤` and its decision procedure are core `Int`'s. -/
def checkKnnInt (k n : Nat) (key : Nat → Int) (out : List Nat) : Bool := checkKnn k n key out

/-! ### the table -/

/-- `np.intersect1d(np.unique(tomo_a), np.unique(tomo_nn))`: the common tomogram numbers, ascending,
each once -/
def insU (t : Int) : List Int → List Int
  | [] => [t]
  | h :: r => if t < h then t :: h :: r else if t = h then h :: r else h :: insU t r

def features (ta tn : List Int) : List Int :=
  (ta.filter (fun t => tn.contains t)).foldr insU []

section table
variable [Add α] [Sub α] [Mul α] [Neg α] [OfNat α 0] [OfNat α 1] [LE α] [DecidableLE α]

/-- `get_motl_subset(f, "tomo_id")`: the particles of tomogram `t`, in list order -/
def subset (t : Int) (l : List (Pt α)) : List (Pt α) := l.filter (fun p => p.tomo == t)

/-- `get_motl_subset(feature_values, "tomo_id")` as written: for every requested value in turn the rows
`df[tomo_id] == value` (list order kept), concatenated; `reset_index(drop=True)` = positions in the result count from 0,
which is how `nnana` indexes the subset (`idx`, `nn_idx`). `nnana` asks for ONE value: `motlSubset [t] = subset t`. -/
def motlSubset (vals : List Int) (l : List (Pt α)) : List (Pt α) := vals.flatMap (fun v => l.filter (fun p => p.tomo == v))

/-- sort key of candidate number `j` for query `q` (`q` itself stands in for indices out of range) -/
def keyOf (q : Pt α) (cn : List (Pt α)) (j : Nat) : α := d2 q (cn.getD j q)

/-- neighbour indices of one query among the candidates `cn` -/
def neighbours (k : Nat) (q : Pt α) (cn : List (Pt α)) : List Nat := knnIdx k cn.length (keyOf q cn)

/-- rows of one tomogram: for rank `i = 0 .. min(k, #candidates)-1`, for every query in list order -/
def tomoRows (S : Num α) (px : α) (k : Nat) (a nn : List (Pt α)) (t : Int) : List (Row α) :=
  let qa := subset t a
  let cn := subset t nn
  let res := qa.map (fun q => (q, neighbours k q cn))
  (List.range (min k cn.length)).flatMap (fun i =>
    res.map (fun qn => let j := qn.2.getD i 0; mkRow S px t i qn.1 j (cn.getD j qn.1)))

/-- `tomoRows` with the neighbour search left open: `nb q cn` is whatever the search structure (the KD-tree) answers for
query `q` among the candidates `cn` -/
def tomoRowsWith (nb : Pt α → List (Pt α) → List Nat) (S : Num α) (px : α) (k : Nat) (a nn : List (Pt α)) (t : Int) :
    List (Row α) :=
  let qa := subset t a
  let cn := subset t nn
  let res := qa.map (fun q => (q, nb q cn))
  (List.range (min k cn.length)).flatMap (fun i =>
    res.map (fun qn => let j := qn.2.getD i 0; mkRow S px t i qn.1 j (cn.getD j qn.1)))

/-- the table computed with an arbitrary neighbour search -/
def nnStatsWith (nb : Pt α → List (Pt α) → List Nat) (S : Num α) (px : α) (k : Nat) (a nn : List (Pt α)) : List (Row α) :=
  (features (a.map (·.tomo)) (nn.map (·.tomo))).flatMap (tomoRowsWith nb S px k a nn)

/-- the table of `get_nn_stats`: tomograms ascending, then rank, then query -/
def nnStats (S : Num α) (px : α) (k : Nat) (a nn : List (Pt α)) : List (Row α) :=
  (features (a.map (·.tomo)) (nn.map (·.tomo))).flatMap (tomoRows S px k a nn)

end table
end CryoCat.C18
