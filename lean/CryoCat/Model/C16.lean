import CryoCat.Gen.C16
import CryoCat.Model.C16_Fourier
/-! C16 — model of `tiltstack.dose_filter` / `dose_filter_single_image` (cryocat/tiltstack.py). Mathlib-free.

Polymorphic over the number type `α`: the driver runs these definitions at `Float` (IEEE binary64, like
numpy), `Props/C16` proves the property about the very same definitions at `ℝ` with `Real.exp`,
`Real.rpow`, `Real.sqrt`.  The numeric services of numpy (`exp`, `**`, `sqrt`, int→float) are the fields of
`Ops`; the Fourier services (`fft2`, `ifft2(..).real`) are the fields of `FFT`. -/
namespace CryoCat.C16

/-- `np.exp`, `**`, `np.sqrt`, and the conversion of a Python `int` to a float -/
structure Ops (α : Type) where
  exp : α → α
  pow : α → α → α
  sqrt : α → α
  ofInt : Int → α

/-- the three fitted numbers of the critical-exposure curve -/
structure GG (α : Type) where
  a : α
  b : α
  c : α

variable {α : Type}

/-- the constants `a`, `b`, `c` **as the source has them today** (`Gen.C16`, decimal literal = num/den) -/
def gg [Div α] (o : Ops α) : GG α :=
  { a := o.ofInt Gen.C16.ggA.1 / o.ofInt Gen.C16.ggA.2
    b := o.ofInt Gen.C16.ggB.1 / o.ofInt Gen.C16.ggB.2
    c := o.ofInt Gen.C16.ggC.1 / o.ofInt Gen.C16.ggC.2 }

/-- `cen_x = ts.width // 2` -/
def cen (n : Nat) : Nat := n / 2

/-- integer frequency carried by position `x` of the `fftshift`ed spectrum: `x - cen_x` -/
def kOfPos (n x : Nat) : Int := (x : Int) - (cen n : Int)

section arith
variable [Add α] [Mul α] [Div α] [Neg α]

/-- `rstep_x = 1 / (ts.width * pixel_size)` — reciprocal-space step in cycles per Angstrom -/
def rstep (o : Ops α) (n : Nat) (px : α) : α := o.ofInt 1 / (o.ofInt n * px)

/-- `d = np.sqrt((x - cen_x)**2 * rstep_x**2 + (y - cen_y)**2 * rstep_y**2)` at integer frequency `(kx, ky)` -/
def freqK (o : Ops α) (W H : Nat) (px : α) (kx ky : Int) : α :=
  o.sqrt (o.ofInt (kx * kx) * (rstep o W px * rstep o W px) + o.ofInt (ky * ky) * (rstep o H px * rstep o H px))

/-- `frequency_array[y, x]` -/
def freqArray (o : Ops α) (W H : Nat) (px : α) (y x : Nat) : α := freqK o W H px (kOfPos W x) (kOfPos H y)

/-- critical exposure `a * f**b + c` -/
def critExp (o : Ops α) (g : GG α) (f : α) : α := g.a * o.pow f g.b + g.c

/-- `np.exp((-dose) / (2 * ((a * (f**b)) + c)))` -/
def atten (o : Ops α) (g : GG α) (dose f : α) : α := o.exp ((-dose) / (o.ofInt 2 * critExp o g f))

/-- the attenuation at integer frequency `(kx, ky)`.  At zero frequency numpy computes `0.0 ** b = inf`, hence
`exp(-dose/inf) = exp(-0.0) = 1`; exact arithmetic has no `inf`, so the model takes this value by a case
split on the *index* (`freq_eq_zero_iff` in `Props/C16`: `f = 0` exactly when `kx = ky = 0`). -/
def gainK (o : Ops α) (g : GG α) (W H : Nat) (px dose : α) (kx ky : Int) : α :=
  if kx = 0 ∧ ky = 0 then o.ofInt 1 else atten o g dose (freqK o W H px kx ky)

/-- `q[y, x]`: the array the `fftshift`ed spectrum is multiplied with -/
def qArray (o : Ops α) (g : GG α) (W H : Nat) (px dose : α) (y x : Nat) : α :=
  gainK o g W H px dose (kOfPos W x) (kOfPos H y)
end arith

/-! ### index rotations of `np.fft.fftshift` / `ifftshift` -/

/-- `np.fft.fftshift(a)[x] = a[shiftSrc n x]` -/
def shiftSrc (n x : Nat) : Nat := (x + (n - n / 2)) % n
/-- `np.fft.ifftshift(a)[k] = a[ishiftSrc n k]` -/
def ishiftSrc (n k : Nat) : Nat := (k + n / 2) % n
/-- signed integer frequency of DFT index `k` (`np.fft.fftfreq(n) * n`) -/
def sfreq (n k : Nat) : Int := if 2 * k < n then (k : Int) else (k : Int) - (n : Int)

def shiftFin {n : Nat} (x : Fin n) : Fin n := ⟨shiftSrc n x.val, Nat.mod_lt _ (Nat.lt_of_le_of_lt (Nat.zero_le _) x.isLt)⟩
def ishiftFin {n : Nat} (k : Fin n) : Fin n := ⟨ishiftSrc n k.val, Nat.mod_lt _ (Nat.lt_of_le_of_lt (Nat.zero_le _) k.isLt)⟩

/-! ### spectra and the Fourier services -/

/-! `Cx`, `Spec`, `FFT` (complex pairs, spectra, the Fourier services) and `negIdx`/`negFin` live in `Model/C16_Fourier`
(no dependency on the regenerated constants) -/

def fftshift2 {H W : Nat} (s : Spec α H W) : Spec α H W := fun y x => s (shiftFin y) (shiftFin x)
def ifftshift2 {H W : Nat} (s : Spec α H W) : Spec α H W := fun v u => s (ishiftFin v) (ishiftFin u)

section filter
variable [Add α] [Mul α] [Div α] [Neg α] {Img : Type} {H W : Nat}

/-- `dose_filter_single_image(image, dose, frequency_array)` with the frequency array of `dose_filter`:
`ft = fftshift(fft2(image))`, `q = exp(...)`, `ifft2(ifftshift(ft * q)).real` -/
def doseFilterSingle (o : Ops α) (g : GG α) (fft : FFT Img α H W) (px dose : α) (image : Img) : Img :=
  let ft := fftshift2 (fft.fft2 image)
  let q := fun (y : Fin H) (x : Fin W) => qArray o g W H px dose y.val x.val
  fft.ifft2re (ifftshift2 (fun y x => Cx.smul (q y x) (ft y x)))

/-- the multiplier the code applies to the raw DFT coefficient `[v, u]` -/
def mult (o : Ops α) (g : GG α) (W H : Nat) (px dose : α) (v u : Nat) : α :=
  qArray o g W H px dose (ishiftSrc H v) (ishiftSrc W u)

/-- `dose_filter`: image `z` is filtered with `total_dose[z]` (`for z in range(ts.n_tilts)`); a dose list
shorter than the stack raises `IndexError` (modelled as `none`), surplus doses are ignored. -/
def doseFilter (o : Ops α) (g : GG α) (fft : FFT Img α H W) (px : α) (stack : List Img) (doses : List α) :
    Option (List Img) :=
  if doses.length < stack.length then none
  else some (List.zipWith (fun image dose => doseFilterSingle o g fft px dose image) stack doses)
end filter

/-! ### integer-typed stacks — the code AS IT IS (open finding C16-K1)

`TiltStack` keeps the dtype of the caller's stack, and `dose_filter` writes every filtered (float) image back into that
array (`ts.data[z, :, :] = dose_filter_single_image(...)`).  For an integer-typed stack numpy converts on that assignment by
truncation toward zero; on the way in, `np.fft.fft2(image)` converts every integer pixel to a float.  `correct_order` then finds
the dtype unchanged and returns the integer array. -/

/-- the two conversions numpy performs around an integer array -/
structure IntIO (Img IntImg : Type) where
  /-- integer pixels read as floats (`np.fft.fft2` of an integer image) -/
  ofInt : IntImg → Img
  /-- float image assigned into the integer array: every pixel truncated toward zero -/
  trunc : Img → IntImg

section intstack
variable [Add α] [Mul α] [Div α] [Neg α] {Img IntImg : Type} {H W : Nat}

/-- `dose_filter` on an integer-typed stack: each image is converted, filtered with its dose, and truncated back -/
def doseFilterInt (o : Ops α) (g : GG α) (fft : FFT Img α H W) (io : IntIO Img IntImg) (px : α)
    (stack : List IntImg) (doses : List α) : Option (List IntImg) :=
  (doseFilter o g fft px (stack.map io.ofInt) doses).map (fun out => out.map io.trunc)
end intstack

end CryoCat.C16
