import CryoCat.Model.M3
/-! C20 — model of `measure_thickness_cpu` + `process_matches_cpu2cpu` (and of the numba / CUDA
candidate kernels followed by `process_matches_gpu2cpu`) of `cryocat/memthick.py`. Mathlib-free,
polymorphic in the number type: the driver runs it at `Float`, `Props/C20` proves it over ordered
fields. The square root is a parameter (`sqrt`), like every other library service. -/
namespace CryoCat.C20
variable {α : Type}

/-- a surface point: identifier (its row index in `points`), position, normal, the two mask bits -/
structure Pt (α : Type) where
  idx : Nat
  p : V3 α
  n : V3 α
  s1 : Bool
  s2 : Bool
deriving Repr

/-- a candidate / an assigned pair: distance (voxel units), source id, target id —
the tuple `(dist, source_idx, target_idx)` of the source -/
structure Cand (α : Type) where
  d : α
  s : Nat
  t : Nat
deriving Repr, DecidableEq

section geom
variable [Add α] [Sub α] [Mul α]
/-- `dx*dx + dy*dy + dz*dz` with `(dx,dy,dz) = q - p` -/
def d2 (p q : V3 α) : α := V3.dot (q - p) (q - p)
/-- `proj = dx*n0 + dy*n1 + dz*n2` -/
def proj (p q n : V3 α) : α := V3.dot (q - p) n
/-- `lateral_dist_sq`: squared length of `(q - p) - proj * n` -/
def lat2 (p q n : V3 α) : α := V3.normSq ((q - p) - V3.smul (proj p q n) n)
/-- `dist = sqrt(dx*dx + dy*dy + dz*dz)` -/
def dist (sqrt : α → α) (p q : V3 α) : α := sqrt (d2 p q)
end geom

/-- search parameters of a candidate kernel -/
structure Params (α : Type) where
  /-- `max_thickness_voxels` -/
  r : α
  /-- cone multiplier (`max_angle_cos` in the source; tan² of the half-angle after the repair) -/
  m : α
  /-- `true`: `dist < r` (numba / CUDA kernels); `false`: closed ball `dist ≤ r` (KD-tree pre-filter) -/
  strict : Bool

section adm
variable [Add α] [Sub α] [Mul α] [OfNat α 0] [LT α] [DecidableLT α]

/-- distance pre-filter -/
def inBall (P : Params α) (d : α) : Bool := if P.strict then decide (d < P.r) else !decide (P.r < d)

/-- `proj > 0` and `lateral_dist_sq < max_angle_cos * proj * proj` -/
def inCone (m : α) (p q n : V3 α) : Bool :=
  decide (0 < proj p q n) && decide (lat2 p q n < m * proj p q n * proj p q n)

/-- target `b` is admissible for source `a` -/
def adm (sqrt : α → α) (P : Params α) (a b : Pt α) : Bool :=
  inBall P (dist sqrt a.p b.p) && inCone P.m a.p b.p a.n

/-- all admissible (source, target) pairs with their distance: the `flat_matches` list -/
def cands (sqrt : α → α) (P : Params α) (srcs tgts : List (Pt α)) : List (Cand α) :=
  srcs.flatMap (fun a => tgts.filterMap (fun b =>
    if adm sqrt P a b then some ⟨dist sqrt a.p b.p, a.idx, b.idx⟩ else none))

/-- the admissible targets of ONE source in scan order (`for i in range(n)` over the target mask in the
CUDA kernel, `for j in range(len(target_indices))` in the numba kernel): one row of the candidate buffer
before the cap is applied -/
def row (sqrt : α → α) (P : Params α) (a : Pt α) (tgts : List (Pt α)) : List (Cand α) :=
  tgts.filterMap (fun b => if adm sqrt P a b then some ⟨dist sqrt a.p b.p, a.idx, b.idx⟩ else none)

/-- **the candidate buffer of the kernels**: `match_distances` / `match_indices` have `cap` slots per
source and a match is stored only `if match_count < max_matches_per_point` — the first `cap`
admissible targets in scan order survive -/
def candsCapped (sqrt : α → α) (P : Params α) (cap : Nat) (srcs tgts : List (Pt α)) : List (Cand α) :=
  srcs.flatMap (fun a => (row sqrt P a tgts).take cap)
end adm

section order
variable [LT α] [DecidableLT α]
/-- Python tuple order on `(dist, source_idx, target_idx)` (what `list.sort()` uses) -/
def candLe (a b : Cand α) : Bool :=
  decide (a.d < b.d) || (!decide (b.d < a.d) &&
    (decide (a.s < b.s) || (a.s == b.s && decide (a.t ≤ b.t))))

def sortCands (cs : List (Cand α)) : List (Cand α) := cs.mergeSort candLe
end order

/-- one iteration of the assignment loop: `if s not in S and t not in T: record` -/
def step (acc : List (Cand α)) (c : Cand α) : List (Cand α) :=
  if acc.any (fun a => a.s == c.s || a.t == c.t) then acc else acc ++ [c]

/-- the assignment loop over the (sorted) list; result in order of assignment -/
def greedy (cs : List (Cand α)) : List (Cand α) := cs.foldl step []

/-- arguments of `measure_thickness_cpu` (`tanT` = tangent of `max_angle_degrees`) -/
structure Input (α : Type) where
  pts : List (Pt α)
  voxel : α
  maxNm : α
  tanT : α
  /-- `direction == "2to1"` -/
  rev : Bool

def Input.sources (i : Input α) : List (Pt α) := i.pts.filter (fun p => if i.rev then p.s2 else p.s1)
def Input.targets (i : Input α) : List (Pt α) := i.pts.filter (fun p => if i.rev then p.s1 else p.s2)

section measure
variable [Add α] [Sub α] [Mul α] [Div α] [OfNat α 0] [LT α] [DecidableLT α]

/-- `max_thickness_voxels = max_thickness_nm / voxel_size`; multiplier `tan(radians(max_angle))**2` -/
def Input.params (i : Input α) (strict : Bool) : Params α :=
  { r := i.maxNm / i.voxel, m := i.tanT * i.tanT, strict := strict }

def Input.cands (sqrt : α → α) (i : Input α) (strict : Bool) : List (Cand α) :=
  C20.cands sqrt (i.params strict) i.sources i.targets

/-- the assigned pairs (distance in voxel units), in order of assignment -/
def measure (sqrt : α → α) (i : Input α) (strict : Bool) : List (Cand α) :=
  greedy (sortCands (i.cands sqrt strict))

def Input.candsCapped (sqrt : α → α) (i : Input α) (strict : Bool) (cap : Nat) : List (Cand α) :=
  C20.candsCapped sqrt (i.params strict) cap i.sources i.targets

/-- the GPU path as it is: kernel with a `cap`-slot buffer per source, then `process_matches_gpu2cpu` -/
def measureCapped (sqrt : α → α) (i : Input α) (strict : Bool) (cap : Nat) : List (Cand α) :=
  greedy (sortCands (i.candsCapped sqrt strict cap))

/-- largest number of admissible targets any source has (the quantity the quantifier bounds by 25) -/
def Input.maxRow (sqrt : α → α) (i : Input α) (strict : Bool) : Nat :=
  (i.sources.map (fun a => (row sqrt (i.params strict) a i.targets).length)).foldl max 0

/-- `thickness_results[s]` of an assigned pair -/
def thickness (i : Input α) (c : Cand α) : α := c.d * i.voxel

/-! ### verified checker (run on the real implementation's output) -/

def oneToOneB : List (Nat × Nat) → Bool
  | [] => true
  | p :: ps => ps.all (fun q => p.1 != q.1 && p.2 != q.2) && oneToOneB ps

/-- (A) every reported pair is an admissible (source, target) pair -/
def checkAdm (cs : List (Cand α)) (out : List (Nat × Nat)) : Bool :=
  out.all (fun p => cs.any (fun c => c.s == p.1 && c.t == p.2))

/-- (C) every admissible pair shares its source or its target with a reported pair that is not farther -/
def checkGreedy (cs : List (Cand α)) (out : List (Nat × Nat)) : Bool :=
  let oc := cs.filter (fun c => out.contains (c.s, c.t))
  cs.all (fun c => oc.any (fun o => (o.s == c.s || o.t == c.t) && !decide (c.d < o.d)))

def check (sqrt : α → α) (i : Input α) (strict : Bool) (out : List (Nat × Nat)) : Bool :=
  let cs := i.cands sqrt strict
  checkAdm cs out && oneToOneB out && checkGreedy cs out
end measure

/-! ### transformations named by the property -/

section moves
variable [Add α] [Mul α]
/-- rigid motion `x ↦ Q x + b` of all points, `n ↦ Q n` of all normals -/
def Pt.move (q : M3 α) (b : V3 α) (a : Pt α) : Pt α := { a with p := q.apply a.p + b, n := q.apply a.n }
def Input.move (q : M3 α) (b : V3 α) (i : Input α) : Input α := { i with pts := i.pts.map (Pt.move q b) }
/-- other voxel size, maximum thickness given in the same physical units scaled along -/
def Input.rescale (k : α) (i : Input α) : Input α := { i with voxel := k * i.voxel, maxNm := k * i.maxNm }
end moves
def Pt.swap (a : Pt α) : Pt α := { a with s1 := a.s2, s2 := a.s1 }
/-- exchange the two surface labels -/
def Input.swapSurfaces (i : Input α) : Input α := { i with pts := i.pts.map Pt.swap }

end CryoCat.C20
