import CryoCat.Model.C02
/-! C02 — the layout grammar of the statement ("any STAR text made of data blocks with one loop each,
where blank lines and `#` comment lines may precede a block, follow the column labels or separate
blocks, labels may carry a trailing `#n` comment, and tokens are separated by arbitrary spaces or
tabs"), written *generatively*: a document is a structure of lines, a line is leading blanks, words
with their following runs of blanks, and an optional `# comment`; `Doc.text` renders it and
`Doc.blocks` is what an independent reader finds in it. Only definitions; Mathlib-free. -/
namespace CryoCat.C02

/-- a word: non-empty, no white space, no `#`, no line break -/
def WordOk (w : Word) : Prop := w ≠ [] ∧ ∀ c ∈ w, isWs c = false ∧ c ≠ '#' ∧ c ≠ '\n'
/-- a run of white space (possibly empty) -/
def PadOk (s : List Char) : Prop := ∀ c ∈ s, isWs c = true

/-- words, each followed by its run of blanks -/
def render : List (Word × List Char) → List Char
  | [] => []
  | (w, s) :: rest => w ++ s ++ render rest

/-- all separators but possibly the last are non-empty -/
def SepsOk : List (Word × List Char) → Prop
  | [] => True
  | [_] => True
  | (_, s) :: r :: rest => s ≠ [] ∧ SepsOk (r :: rest)

/-- end of a line: nothing, or `#` and a comment without line break -/
def Tail (tl : List Char) : Prop := tl = [] ∨ ∃ c, tl = '#' :: c ∧ '\n' ∉ c

def finish (acc : List Word) : List Char → List Word × Option (List Char)
  | [] => (acc.reverse, none)
  | _ :: c => (acc.reverse, some c)

structure Line where
  lead : List Char
  items : List (Word × List Char)
  tail : List Char

namespace Line
def text (l : Line) : List Char := l.lead ++ (render l.items ++ l.tail)
def words (l : Line) : List Word := l.items.map (·.1)
def Ok (l : Line) : Prop :=
  PadOk l.lead ∧ (∀ p ∈ l.items, WordOk p.1 ∧ PadOk p.2) ∧ SepsOk l.items ∧ Tail l.tail
/-- blank line or comment line -/
def Skip (l : Line) : Prop := l.Ok ∧ l.items = []
end Line

def commentToks : List Char → List Tok
  | [] => []
  | _ :: c => [.comment (stripWs c)]

/-- the tokens an independent reader sees on a line -/
def Line.toks (l : Line) : List Tok := l.words.map classifyWord ++ commentToks l.tail ++ [.newline]

/-- lines joined by line breaks (no line break after the last one) -/
def joinLines : List (List Char) → List Char
  | [] => []
  | [l] => l
  | l :: l' :: ls => l ++ '\n' :: joinLines (l' :: ls)

/-- a data cell / block name: not a label, not the reserved word -/
def IsLit (w : Word) : Prop := w.head? ≠ some '_' ∧ w ≠ ['l', 'o', 'o', 'p', '_']

/-- one data block with one loop, as laid out in the text -/
structure BlockLayout where
  pre : List Line        -- blank / comment lines before the block
  name : Word
  nameLine : Line
  mid : List Line        -- blank / comment lines between the name and `loop_`
  loopLine : Line
  cols : List Word
  labels : List Line     -- `_name`, optionally `#n` or any comment
  post : List Line       -- blank / comment lines after the labels
  rows : List Line       -- `cols.length` literal tokens each

namespace BlockLayout
def lines (b : BlockLayout) : List Line :=
  b.pre ++ b.nameLine :: (b.mid ++ b.loopLine :: (b.labels ++ (b.post ++ b.rows)))
/-- what the block holds -/
def block (b : BlockLayout) : Block := { name := b.name, cols := b.cols, rows := b.rows.map Line.words }
def Ok (b : BlockLayout) : Prop :=
  (∀ l ∈ b.pre, l.Skip) ∧ (∀ l ∈ b.mid, l.Skip) ∧ (∀ l ∈ b.post, l.Skip) ∧
  b.nameLine.Ok ∧ b.nameLine.words = [b.name] ∧ IsLit b.name ∧
  b.loopLine.Ok ∧ b.loopLine.words = [['l', 'o', 'o', 'p', '_']] ∧ b.loopLine.tail = [] ∧
  b.cols ≠ [] ∧ (∀ l ∈ b.labels, l.Ok) ∧ b.labels.map Line.words = b.cols.map (fun c => ['_' :: c]) ∧
  (∀ r ∈ b.rows, r.Ok ∧ r.tail = [] ∧ r.words.length = b.cols.length ∧ ∀ w ∈ r.words, IsLit w)
end BlockLayout

/-- blocks are separated by at least one blank/comment line; only the last block may be empty, and
the text does not end on the last label line -/
def SepOk (trailing : List Line) : List BlockLayout → Prop
  | [] => True
  | [b] => b.rows = [] → b.post ++ trailing ≠ []
  | b :: b2 :: rest => b.rows ≠ [] ∧ b2.pre ≠ [] ∧ SepOk trailing (b2 :: rest)

structure Doc where
  blocks : List BlockLayout
  trailing : List Line     -- blank / comment lines after the last block (a final line break = one empty line)

namespace Doc
def lines (d : Doc) : List Line := d.blocks.flatMap BlockLayout.lines ++ d.trailing
def text (d : Doc) : List Char := joinLines (d.lines.map Line.text)
def Ok (d : Doc) : Prop :=
  (∀ b ∈ d.blocks, b.Ok) ∧ (∀ l ∈ d.trailing, l.Skip) ∧ SepOk d.trailing d.blocks ∧ d.lines ≠ []
end Doc

/-! ### tables as written by `Starfile.write` -/

/-- cell texts the round trip is claimed for: a word that is neither a label nor the reserved word -/
def CellOk (w : Word) : Prop := WordOk w ∧ IsLit w
def ColNameOk (c : Word) : Prop := ∀ x ∈ c, isWs x = false ∧ x ≠ '#' ∧ x ≠ '\n'

def BlockOk (b : Block) : Prop :=
  CellOk b.name ∧ b.cols ≠ [] ∧ (∀ c ∈ b.cols, ColNameOk c) ∧
  ∀ r ∈ b.rows, r.length = b.cols.length ∧ ∀ w ∈ r, CellOk w

/-- an empty table only as the last block -/
def EmptyOnlyLast : List Block → Prop
  | [] => True
  | [_] => True
  | b :: b2 :: rest => b.rows ≠ [] ∧ EmptyOnlyLast (b2 :: rest)

/-! ### the layout predicates are decidable (used for the concrete examples in `Props/C02`) -/

instance (w : Word) : Decidable (WordOk w) := by unfold WordOk; infer_instance
instance (w : List Char) : Decidable (PadOk w) := by unfold PadOk; infer_instance
instance (w : Word) : Decidable (IsLit w) := by unfold IsLit; infer_instance
instance (w : Word) : Decidable (CellOk w) := by unfold CellOk; infer_instance
instance (w : Word) : Decidable (ColNameOk w) := by unfold ColNameOk; infer_instance
instance (b : Block) : Decidable (BlockOk b) := by unfold BlockOk; infer_instance
instance instDecTail (tl : List Char) : Decidable (Tail tl) :=
  match tl with
  | [] => isTrue (Or.inl rfl)
  | c :: r =>
    if h : c = '#' ∧ '\n' ∉ r then isTrue (Or.inr ⟨r, by rw [h.1], h.2⟩)
    else isFalse (by
      rintro (h0 | ⟨c', hc, hn⟩)
      · cases h0
      · cases hc; exact h ⟨rfl, hn⟩)
instance instDecSeps : (l : List (Word × List Char)) → Decidable (SepsOk l)
  | [] => isTrue trivial
  | [_] => isTrue trivial
  | (_, s) :: r :: rest =>
    match instDecSeps (r :: rest) with
    | isTrue h => if hs : s ≠ [] then isTrue ⟨hs, h⟩ else isFalse (fun hh => hs hh.1)
    | isFalse h => isFalse (fun hh => h hh.2)
instance (l : Line) : Decidable l.Ok := by unfold Line.Ok; infer_instance
instance (l : Line) : Decidable l.Skip := by unfold Line.Skip; infer_instance
instance (b : BlockLayout) : Decidable b.Ok := by unfold BlockLayout.Ok; infer_instance
instance instDecEOL : (l : List Block) → Decidable (EmptyOnlyLast l)
  | [] => isTrue trivial
  | [_] => isTrue trivial
  | b :: r :: rest =>
    match instDecEOL (r :: rest) with
    | isTrue h => if hs : b.rows ≠ [] then isTrue ⟨hs, h⟩ else isFalse (fun hh => hs hh.1)
    | isFalse h => isFalse (fun hh => h hh.2)
instance instDecSep (tr : List Line) : (l : List BlockLayout) → Decidable (SepOk tr l)
  | [] => isTrue trivial
  | [b] => by unfold SepOk; infer_instance
  | b :: b2 :: rest =>
    match instDecSep tr (b2 :: rest) with
    | isTrue h => if hs : b.rows ≠ [] ∧ b2.pre ≠ [] then isTrue ⟨hs.1, hs.2, h⟩ else isFalse (fun hh => hs ⟨hh.1, hh.2.1⟩)
    | isFalse h => isFalse (fun hh => h hh.2.2)
instance (d : Doc) : Decidable d.Ok := by unfold Doc.Ok; infer_instance

/-! ### the layout class of the *statement* (hardening pass)

The statement lets blank / comment lines *optionally* precede a block, follow the labels or separate
blocks, "with or without final newline". `Doc.Ok` above asks for two things more, because the reader
fails without them: a separating line between two blocks and a line end after the last label line of
an empty last block (`SepOk`). `Doc.OkStatement` is the class without these two. -/

/-- only the last block may be empty (the statement's own constraint) -/
def SepStmt : List BlockLayout → Prop
  | [] => True
  | [_] => True
  | b :: b2 :: rest => b.rows ≠ [] ∧ SepStmt (b2 :: rest)

def Doc.OkStatement (d : Doc) : Prop :=
  (∀ b ∈ d.blocks, b.Ok) ∧ (∀ l ∈ d.trailing, l.Skip) ∧ SepStmt d.blocks ∧ d.lines ≠ []

instance instDecSepStmt : (l : List BlockLayout) → Decidable (SepStmt l)
  | [] => isTrue trivial
  | [_] => isTrue trivial
  | b :: b2 :: rest =>
    match instDecSepStmt (b2 :: rest) with
    | isTrue h => if hs : b.rows ≠ [] then isTrue ⟨hs, h⟩ else isFalse (fun hh => hs hh.1)
    | isFalse h => isFalse (fun hh => h hh.2)
instance (d : Doc) : Decidable d.OkStatement := by unfold Doc.OkStatement; infer_instance

end CryoCat.C02
