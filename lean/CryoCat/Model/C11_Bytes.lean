import CryoCat.Model.C11
/-! C11 — the container formats down to the bytes (Mathlib-free, executable; the driver runs these very
definitions on the bytes of the files the real code wrote).

* `Raw` is what the bytes of a map file say: container (`mrc`: 1024-byte header, `em`: 512-byte header),
  byte order, element type, `nx,ny,nz` and one bit pattern (`Nat < 256^width`) per voxel in file order
  (float32 voxels are their 32-bit patterns, int16 their 16-bit two's-complement patterns, ..).
* `encodeMrc`/`encodeEm` lay a `Raw` out as bytes: the header fields that matter for interchange
  (MRC: `nx ny nz mode`, `mx my mz`, `mapc mapr maps = 1 2 3`, `ispg`, `nsymbt = 0`, `nversion`, `'MAP '`,
  machine stamp `44 44` / `11 11`; EM: machine byte `6` (PC) / `3` (SGI), type code, `nx ny nz`), every other
  header byte zero, then the payload, x fastest, each voxel in the file's byte order.
* `decodeMrc`/`decodeEm` read such bytes back (any `nsymbt`, both byte orders) and refuse anything else:
  wrong magic / stamp / machine byte, unknown element type, axis order other than `1 2 3`, a payload
  whose length is not `nx*ny*nz*width`.
* `writeBytes`/`readBytes` are `cryomap.write` / `cryomap.read` down to the bytes; the conversion between
  voxel values and bit patterns (`toWord`/`ofWord`) is a parameter (the driver's is IEEE/two's complement). -/
namespace CryoCat.C11

/-- element types of the containers -/
inductive Code | i8 | i16 | u16 | f32 | f64
deriving Repr, DecidableEq

def Code.width : Code → Nat
  | .i8 => 1 | .i16 => 2 | .u16 => 2 | .f32 => 4 | .f64 => 8

def Code.name : Code → String
  | .i8 => "int8" | .i16 => "int16" | .u16 => "uint16" | .f32 => "float32" | .f64 => "float64"

/-- MRC2014 `mode` (there is no float64 mode) -/
def Code.mrcMode? : Code → Option Nat
  | .i8 => some 0 | .i16 => some 1 | .f32 => some 2 | .u16 => some 6 | .f64 => none

def Code.ofMrcMode? : Nat → Option Code
  | 0 => some .i8 | 1 => some .i16 | 2 => some .f32 | 6 => some .u16 | _ => none

/-- EM type code (byte 3 of the header; there is no uint16 code) -/
def Code.emType? : Code → Option Nat
  | .i8 => some 1 | .i16 => some 2 | .f32 => some 5 | .f64 => some 9 | .u16 => none

def Code.ofEmType? : Nat → Option Code
  | 1 => some .i8 | 2 => some .i16 | 5 => some .f32 | 9 => some .f64 | _ => none

structure Raw where
  kind : Kind
  bigEndian : Bool
  code : Code
  nx : Nat
  ny : Nat
  nz : Nat
  words : List Nat
deriving Repr, DecidableEq

/-! ### numbers as bytes -/

/-- the `w` low bytes of `n`, least significant first -/
def leBytes : Nat → Nat → List UInt8
  | 0, _ => []
  | w + 1, n => UInt8.ofNat (n % 256) :: leBytes w (n / 256)

def ofLe : List UInt8 → Nat
  | [] => 0
  | b :: bs => b.toNat + 256 * ofLe bs

/-- a `w`-byte number in the file's byte order -/
def wordBytes (be : Bool) (w n : Nat) : List UInt8 := if be then (leBytes w n).reverse else leBytes w n

def wordOf (be : Bool) (bs : List UInt8) : Nat := ofLe (if be then bs.reverse else bs)

/-- payload: voxel after voxel in file order (`List.flatMap` runs tail-recursively) -/
def encodeWords (be : Bool) (w : Nat) (ws : List Nat) : List UInt8 := ws.flatMap (wordBytes be w)

/-- `count` words of `w` bytes starting at byte `off` -/
def decodeWords (be : Bool) (w count : Nat) (A : Array UInt8) (off : Nat) : List Nat :=
  (List.range count).map fun m => wordOf be (A.extract (off + m * w) (off + m * w + w)).toList

def byteAt (A : Array UInt8) (i : Nat) : UInt8 := A.getD i 0

/-- the 4-byte integer at byte `off` -/
def i32At (be : Bool) (A : Array UInt8) (off : Nat) : Nat :=
  wordOf be [byteAt A off, byteAt A (off + 1), byteAt A (off + 2), byteAt A (off + 3)]

/-- byte `i` of a header holding the 4-byte number `val` at byte `off` -/
def fieldByte (be : Bool) (off val i : Nat) : UInt8 := (wordBytes be 4 val).getD (i - off) 0

/-! ### MRC2014 -/

def mrcHeaderSize : Nat := 1024

def mrcHdrByte (r : Raw) (i : Nat) : UInt8 :=
  let be := r.bigEndian
  if i < 4 then fieldByte be 0 r.nx i                                   -- nx
  else if i < 8 then fieldByte be 4 r.ny i                              -- ny
  else if i < 12 then fieldByte be 8 r.nz i                             -- nz
  else if i < 16 then fieldByte be 12 (r.code.mrcMode?.getD 0) i        -- mode
  else if i < 28 then 0                                                  -- nxstart nystart nzstart
  else if i < 32 then fieldByte be 28 r.nx i                            -- mx
  else if i < 36 then fieldByte be 32 r.ny i                            -- my
  else if i < 40 then fieldByte be 36 r.nz i                            -- mz
  else if i < 64 then 0                                                  -- cella, cellb
  else if i < 68 then fieldByte be 64 1 i                               -- mapc
  else if i < 72 then fieldByte be 68 2 i                               -- mapr
  else if i < 76 then fieldByte be 72 3 i                               -- maps
  else if i < 88 then 0                                                  -- dmin dmax dmean
  else if i < 92 then fieldByte be 88 1 i                               -- ispg = 1 (a volume)
  else if i < 96 then 0                                                  -- nsymbt = 0
  else if i < 108 then 0
  else if i < 112 then fieldByte be 108 20140 i                         -- nversion
  else if i < 208 then 0
  else if i = 208 then 77 else if i = 209 then 65 else if i = 210 then 80 else if i = 211 then 32   -- 'MAP '
  else if i < 214 then (if be then 0x11 else 0x44)                     -- machine stamp
  else 0

def encodeMrc (r : Raw) : List UInt8 :=
  (List.range mrcHeaderSize).map (mrcHdrByte r) ++ encodeWords r.bigEndian r.code.width r.words

/-- machine stamp: `44 44` / `44 41` little-endian, `11 11` big-endian -/
def mrcStamp? (s0 s1 : UInt8) : Option Bool :=
  if s0 = 0x44 ∧ (s1 = 0x44 ∨ s1 = 0x41) then some false
  else if s0 = 0x11 ∧ s1 = 0x11 then some true
  else none

def decodeMrc (A : Array UInt8) : Option Raw :=
  if A.size < mrcHeaderSize then none else
  if [byteAt A 208, byteAt A 209, byteAt A 210, byteAt A 211] ≠ [77, 65, 80, 32] then none else
  match mrcStamp? (byteAt A 212) (byteAt A 213) with
  | none => none
  | some be =>
    let nx := i32At be A 0
    let ny := i32At be A 4
    let nz := i32At be A 8
    let nsymbt := i32At be A 92
    match Code.ofMrcMode? (i32At be A 12) with
    | none => none
    | some c =>
      -- only the standard axis order (columns = x fastest, sections = z slowest) is understood
      if (i32At be A 64, i32At be A 68, i32At be A 72) ≠ (1, 2, 3) then none else
      if 2 ^ 31 ≤ nx ∨ 2 ^ 31 ≤ ny ∨ 2 ^ 31 ≤ nz ∨ 2 ^ 31 ≤ nsymbt then none else
      if A.size ≠ mrcHeaderSize + nsymbt + nx * ny * nz * c.width then none else
      some { kind := .mrc, bigEndian := be, code := c, nx := nx, ny := ny, nz := nz,
             words := decodeWords be c.width (nx * ny * nz) A (mrcHeaderSize + nsymbt) }

/-! ### EM -/

def emHeaderSize : Nat := 512

/-- machine coding byte: 6 = PC (little-endian); 3 = SGI, 5 = Mac (big-endian) -/
def emMachine (be : Bool) : UInt8 := if be then 3 else 6

def emMachine? (m : UInt8) : Option Bool :=
  if m = 6 then some false else if m = 3 ∨ m = 5 then some true else none

def emHdrByte (r : Raw) (i : Nat) : UInt8 :=
  let be := r.bigEndian
  if i = 0 then emMachine be
  else if i < 3 then 0
  else if i = 3 then UInt8.ofNat (r.code.emType?.getD 0)
  else if i < 8 then fieldByte be 4 r.nx i
  else if i < 12 then fieldByte be 8 r.ny i
  else if i < 16 then fieldByte be 12 r.nz i
  else 0

def encodeEm (r : Raw) : List UInt8 :=
  (List.range emHeaderSize).map (emHdrByte r) ++ encodeWords r.bigEndian r.code.width r.words

def decodeEm (A : Array UInt8) : Option Raw :=
  if A.size < emHeaderSize then none else
  match emMachine? (byteAt A 0) with
  | none => none
  | some be =>
    match Code.ofEmType? (byteAt A 3).toNat with
    | none => none
    | some c =>
      let nx := i32At be A 4
      let ny := i32At be A 8
      let nz := i32At be A 12
      if 2 ^ 31 ≤ nx ∨ 2 ^ 31 ≤ ny ∨ 2 ^ 31 ≤ nz then none else
      if A.size ≠ emHeaderSize + nx * ny * nz * c.width then none else
      some { kind := .em, bigEndian := be, code := c, nx := nx, ny := ny, nz := nz,
             words := decodeWords be c.width (nx * ny * nz) A emHeaderSize }

/-! ### both containers -/

def encode (r : Raw) : List UInt8 :=
  match r.kind with | .mrc => encodeMrc r | .em => encodeEm r

/-- the decoder of container `k` (the real reader is chosen by the file NAME, `readKind`) -/
def decodeAs (k : Kind) (A : Array UInt8) : Option Raw :=
  match k with | .mrc => decodeMrc A | .em => decodeEm A

/-- the format the BYTES announce: `'MAP '` at byte 208 is MRC, anything else is tried as EM -/
def decodeByContent (A : Array UInt8) : Option Raw :=
  if [byteAt A 208, byteAt A 209, byteAt A 210, byteAt A 211] = [77, 65, 80, 32] then decodeMrc A else decodeEm A

/-- what `encode` can represent: the container has a code for the element type, the sizes fit the signed
32-bit header fields, there is one word per voxel and every word fits its width -/
def Raw.WF (r : Raw) : Prop :=
  (match r.kind with | .mrc => r.code.mrcMode? ≠ none | .em => r.code.emType? ≠ none) ∧
  r.nx < 2 ^ 31 ∧ r.ny < 2 ^ 31 ∧ r.nz < 2 ^ 31 ∧
  r.words.length = r.nx * r.ny * r.nz ∧ ∀ x ∈ r.words, x < 256 ^ r.code.width

/-! ### `cryomap.write` / `cryomap.read` down to the bytes -/

def DType.code : DType → Code
  | .f32 => .f32 | .f64 => .f64 | .i16 => .i16 | .i8 => .i8

/-- uint16 is outside the dtypes of the statement: such a file is not given a `MapFile` -/
def Code.dtype? : Code → Option DType
  | .f32 => some .f32 | .f64 => some .f64 | .i16 => some .i16 | .i8 => some .i8 | .u16 => none

variable {α : Type}

/-- the bytes `cryomap.write` produces are little-endian whatever the byte order of the caller's array
(step `byteorder` of `write`, anchored by `write_steps_documented`) -/
def MapFile.toRaw (toWord : DType → α → Nat) (f : MapFile α) : Raw :=
  { kind := f.kind, bigEndian := false, code := f.dtype.code, nx := f.nx, ny := f.ny, nz := f.nz,
    words := f.data.toList.map (toWord f.dtype) }

def Raw.toMapFile? (ofWord : DType → Nat → α) (r : Raw) : Option (MapFile α) :=
  r.code.dtype?.map fun dt =>
    { kind := r.kind, nx := r.nx, ny := r.ny, nz := r.nz, dtype := dt, data := (r.words.map (ofWord dt)).toArray }

/-- `cryomap.write(data, name, transpose, data_type)`: the bytes of the file -/
def writeBytes (toWord : DType → α → Nat) (cast : DType → α → α) (d : α) (a : Arr α) (src : DType) (name : Name)
    (transpose : Bool) (dataType : Option DType) : Except Err (List UInt8) :=
  (write cast d a src name transpose dataType).map fun f => encode (f.toRaw toWord)

/-- `cryomap.read(name, transpose, data_type)` of a file holding the bytes `A`: the reader is chosen by the
NAME; bytes that are not a file of that container are refused (`badFormat`) -/
def readBytes (ofWord : DType → Nat → α) (cast : DType → α → α) (d : α) (name : Name) (A : Array UInt8)
    (transpose : Bool) (dataType : Option DType) : Except Err (Arr α × DType) := do
  let kr ← readKind name
  match (decodeAs kr A).bind (Raw.toMapFile? ofWord) with
  | none => .error .badFormat
  | some f => read cast d name f transpose dataType

/-- `cryomap.read(name[, transpose=..][, data_type=..])` on bytes: omitted keywords take the signature defaults -/
def readBytesKw (ofWord : DType → Nat → α) (cast : DType → α → α) (d : α) (name : Name) (A : Array UInt8)
    (transpose : Option Bool) (dataType : Option DType) : Except Err (Arr α × DType) :=
  readBytes ofWord cast d name A (transpose.getD Gen.C11.readDefaultTranspose)
    (match dataType with | some t => some t | none => defaultDType Gen.C11.readDefaultDataType)

/-- byte offset of byte `t` of voxel `(i,j,k)` in a file with header size `h` and `w`-byte voxels -/
def voxelByteOffset (h w nx ny i j k t : Nat) : Nat := h + w * offsetXFastest nx ny i j k + t

end CryoCat.C11
