import CryoCat.Model.Particle
import CryoCat.Model.M3
import CryoCat.Gen.C10
import CryoCat.Model.C10_Asis
/-! C10 — model of `Motl.split_in_asymmetric_subunits` (cyclic branch, after repairs 837c2ef, f9fba9c, 7710334 and D33:
shift / angle columns assigned as whole columns)
followed by `Motl.update_coordinates` (cryocat/cryomotl.py). Mathlib-free, polymorphic in the number type: the
driver runs these definitions at `Float` (rounding: at `Rat`, on the exact value of the float), `Props/C10`
proves theorems about them over any commutative ring / ordered field.

External numeric services are parameters (`Svc`): cosine/sine of an angle given in degrees and the rounding
`Decimal(v).to_integral_value(ROUND_HALF_UP)`. An orientation is a 3×3 matrix; the code stores it as
`as_euler("zxz")` of that matrix (scipy; recorded assumption), so the model's output carries the matrix itself.

Since 7710334 the row bookkeeping of the code IS the model's, statement by statement:
`parent_order = np.argsort(ids, kind="stable")` = `sortParents` (stable merge sort by id — parents with EQUAL ids
keep their row order, nothing is assumed about ids being unique), `df.iloc[np.repeat(parent_order, n)]` =
`flatMap (fun P => (List.range n).map …)` (n consecutive copies per parent), `np.tile(arange(1, n+1), N)` = the
`k+1` of the inner `range n`. -/
namespace CryoCat.C10
variable {α : Type}

/-- an abstract angle: its cosine and sine -/
structure Ang (α : Type) where
  c : α
  s : α
deriving Repr, DecidableEq, Inhabited

namespace Ang
/-- the angle 0 -/
def zero [OfNat α 0] [OfNat α 1] : Ang α := ⟨1, 0⟩
/-- angle addition (addition formulas of cos and sin) -/
def add [Add α] [Sub α] [Mul α] (a b : Ang α) : Ang α := ⟨a.c * b.c - a.s * b.s, a.s * b.c + a.c * b.s⟩
/-- `k·a` -/
def nsmul [OfNat α 0] [OfNat α 1] [Add α] [Sub α] [Mul α] : Nat → Ang α → Ang α
  | 0, _ => zero
  | k + 1, a => add (nsmul k a) a
/-- rotation about z by the angle -/
def rz [OfNat α 0] [OfNat α 1] [Neg α] (a : Ang α) : M3 α := CryoCat.rz a.c a.s
end Ang

/-- numeric services the code takes from numpy / scipy / decimal -/
structure Svc (α : Type) where
  /-- (cos, sin) of an angle given in degrees -/
  trig : α → Ang α
  /-- `float(decimal.Decimal(float(v)).to_integral_value(rounding=decimal.ROUND_HALF_UP))` (`float(v)`, since d32cdce, is the
  identity on the float64 sums this function produces): `Decimal(v)` is the EXACT
  value of the binary float, so this is exact rounding half away from zero — the driver evaluates `roundHalfUp`
  (below) at `Rat` on the exact value of the float; over an ordered field any `round` with `RoundSpec` will do -/
  round : α → α

/-! field names re-extracted from the source (`Gen/C10.lean`); `Props/C10` proves they are the documented ones -/
def fieldOf (s : String) : Field := (Field.ofName? s).getD .score   -- the translator never emits an unknown name: a missing anchor falls back to the DOCUMENTED name (and fails `anchors_ok`)
def parentSrcF : Field := fieldOf Gen.C10.parentSrc
def parentDstF : Field := fieldOf Gen.C10.parentDst
def indexDstF : Field := fieldOf Gen.C10.indexDst
def sortKeyF : Field := fieldOf Gen.C10.sortKey
def idDstF : Field := fieldOf Gen.C10.idDst
def angleF (i : Nat) : Field := fieldOf (Gen.C10.parentAngles.getD i "")

/-- one output particle: its 20 fields (`phi/theta/psi` of `p` are still the parent's — the output's
Euler angles are whatever `as_euler` returns for `orient`) and its orientation matrix -/
structure SubU (α : Type) where
  p : Particle α
  orient : M3 α
deriving Repr, DecidableEq, Inhabited

def SubU.setId (u : SubU α) (v : α) : SubU α := { u with p := u.p.set idDstF v }

/-- complete position `x + shift_x, …` -/
def pos [Add α] (p : Particle α) : V3 α := ⟨p.x + p.shift_x, p.y + p.shift_y, p.z + p.shift_z⟩

section model
variable [OfNat α 0] [OfNat α 1] [Neg α] [Add α] [Sub α] [Mul α]

/-- `rot.from_euler("zxz", [phi, theta, psi], degrees=True)` of the parent -/
def orientOf (sv : Svc α) (P : Particle α) : M3 α :=
  zxz (sv.trig (P.get (angleF 0))).c (sv.trig (P.get (angleF 0))).s
      (sv.trig (P.get (angleF 1))).c (sv.trig (P.get (angleF 1))).s
      (sv.trig (P.get (angleF 2))).c (sv.trig (P.get (angleF 2))).s

/-- `decimal.ROUND_HALF_UP`: nearest integer, ties away from zero — the floor formula. EXACT only where `v + half`
is (ℚ, ℝ); evaluated in binary floating point `0.49999999999999994 + 0.5` is `1.0` and the formula would answer 1
where `Decimal` answers 0, which is why the driver runs it at `Rat` -/
def roundHalfUp [LT α] [DecidableLT α] (fl : α → α) (half v : α) : α :=
  if v < 0 then -(fl (-v + half)) else fl (v + half)

/-- the in-plane step `360 / nfold` as an angle -/
def stepAng [Div α] [NatCast α] (sv : Svc α) (n : Nat) : Ang α :=
  sv.trig ((Gen.C10.fullTurnDeg : α) / (n : α))

/-- everything the function does to ONE expanded row once the subunit's in-plane angle `ak` and its offset `c`
in the parent's frame (`center_shift[k]`) are known: `shift += R·c`; orientation `R·Rz(ak)`; `geom5 = parent id`,
`geom2 = k+1`; then `update_coordinates` (round the complete position, keep the rest as shift). -/
def mkSub [NatCast α] (sv : Svc α) (P : Particle α) (k : Nat) (ak : Ang α) (c : V3 α) : SubU α :=
  let R := orientOf sv P
  let d := R.apply c
  let vx := P.x + (P.shift_x + d.x)
  let vy := P.y + (P.shift_y + d.y)
  let vz := P.z + (P.shift_z + d.z)
  let rx := sv.round vx
  let ry := sv.round vy
  let rz := sv.round vz
  let p1 := (P.set parentDstF (P.get parentSrcF)).set indexDstF (((k + Gen.C10.indexStart : Nat) : α))
  { p := { p1 with x := rx, y := ry, z := rz, shift_x := vx - rx, shift_y := vy - ry, shift_z := vz - rz },
    orient := R * ak.rz }

/-- the `k`-th (0-based) subunit of parent `P`, before the final renumbering of `subtomo_id`, in CARTESIAN form:
`phi_k = k·360/n`; `shift += R·(Rz(phi_k)·s)`; orientation `R·Rz(phi_k)` (the statement's wording; the code's own
arithmetic — polar form of the offset — is `subunitP` below, `subunitP_eq` proves the two equal) -/
def subunit [Div α] [NatCast α] (sv : Svc α) (n : Nat) (s : V3 α) (P : Particle α) (k : Nat) : SubU α :=
  mkSub sv P k (Ang.nsmul k (stepAng sv n)) ((Ang.nsmul k (stepAng sv n)).rz.apply s)

/-! ### the code's own arithmetic for the offset: polar form -/

/-- what the code takes from numpy for the polar form of the offset -/
structure PolarSvc (α : Type) where
  /-- `np.sqrt` -/
  sqrt : α → α
  /-- `np.arctan2(y, x)` (first argument `y`) -/
  atan2 : α → α → α
  /-- `np.deg2rad` -/
  deg2rad : α → α
  /-- `np.cos`, `np.sin` of an angle in RADIANS -/
  cosr : α → α
  sinr : α → α

/-- `center_shift[k]` as the code computes it: `rho = sqrt(s0**2 + s1**2)`, `the = arctan2(s1, s0)`,
`rep_the = the + deg2rad(phi_k)`, `(rho*cos(rep_the), rho*sin(rep_the), s2)` -/
def centerShift (pv : PolarSvc α) (s : V3 α) (phi : α) : V3 α :=
  let rho := pv.sqrt (s.x * s.x + s.y * s.y)
  let the := pv.atan2 s.y s.x
  let a := the + pv.deg2rad phi
  ⟨rho * pv.cosr a, rho * pv.sinr a, s.z⟩

/-- `phi_angles[k] = np.arange(n_subunits)[k] * inplane_step = k * (360 / nfold)` (degrees) -/
def phiDeg [Div α] [NatCast α] (n k : Nat) : α := (k : α) * ((Gen.C10.fullTurnDeg : α) / (n : α))

/-- the `k`-th subunit AS THE CODE COMPUTES IT: the in-plane rotation is `from_euler("zxz", [phi_k, 0, 0])` with
`phi_k = k * (360/n)` (one trig evaluation of the product, not `k` additions), the offset is the polar form -/
def subunitP [Div α] [NatCast α] (sv : Svc α) (pv : PolarSvc α) (n : Nat) (s : V3 α) (P : Particle α) (k : Nat) : SubU α :=
  mkSub sv P k (sv.trig (phiDeg n k)) (centerShift pv s (phiDeg n k))

/-- `new_motl_df["subtomo_id"] = np.arange(1, len + 1)` -/
def renum [NatCast α] : Nat → List (SubU α) → List (SubU α)
  | _, [] => []
  | i, u :: us => u.setId (((i + Gen.C10.idStart : Nat) : α)) :: renum (i + 1) us

/-- `parent_order = np.argsort(self.df["subtomo_id"].to_numpy(), kind="stable")`: the parents in ascending id,
parents with the same id in their row order (`List.mergeSort` is stable: `List.sublist_mergeSort`) -/
def sortParents [LE α] [DecidableLE α] (l : List (Particle α)) : List (Particle α) :=
  l.mergeSort (fun p q => decide (p.get sortKeyF ≤ q.get sortKeyF))

/-- `self.df.iloc[np.repeat(parent_order, n_subunits)]` with the tiled per-parent tables: `n` consecutive rows per
parent, the `k`-th (0-based) carrying index `k+1`, angle `k·360/n` and offset `Rz(k·360/n)·s` -/
def expandCore [Div α] [NatCast α] [LE α] [DecidableLE α]
    (sv : Svc α) (n : Nat) (s : V3 α) (l : List (Particle α)) : List (SubU α) :=
  (sortParents l).flatMap (fun P => (List.range n).map (subunit sv n s P))

/-- the whole function for `n`-fold cyclic symmetry and subunit offset `s` -/
def expand [Div α] [NatCast α] [LE α] [DecidableLE α]
    (sv : Svc α) (n : Nat) (s : V3 α) (l : List (Particle α)) : List (SubU α) :=
  renum 0 (expandCore sv n s l)

/-- the whole function with the code's own arithmetic (polar offset, `trig (k·360/n)`): what the driver executes -/
def expandP [Div α] [NatCast α] [LE α] [DecidableLE α]
    (sv : Svc α) (pv : PolarSvc α) (n : Nat) (s : V3 α) (l : List (Particle α)) : List (SubU α) :=
  renum 0 ((sortParents l).flatMap (fun P => (List.range n).map (subunitP sv pv n s P)))

end model

/-! ### exact rounding on rationals (what the driver hands to `Svc.round`) -/

/-- `roundHalfUp` at `Rat` with the rational floor — exact, so it IS `Decimal(v).to_integral_value(ROUND_HALF_UP)`
on the exact value `v` of a binary float -/
def ratRound (q : Rat) : Rat := roundHalfUp (fun v => ((v.floor : Int) : Rat)) (1 / 2) q

/-! ### the symmetry argument: `'Cn'` / `'cn'` string or a number -/

/-- `\d` on ASCII text -/
def isDig (c : Char) : Bool := decide ('0' ≤ c) && decide (c ≤ '9')

theorem length_dropWhile_le' (p : Char → Bool) : ∀ l : List Char, (l.dropWhile p).length ≤ l.length
  | [] => Nat.le_refl _
  | c :: cs => by
    simp only [List.dropWhile_cons]
    split
    · exact Nat.le_succ_of_le (length_dropWhile_le' p cs)
    · exact Nat.le_refl _

/-- `re.findall(r"\d+", s)`: the maximal runs of digits, left to right -/
def findallDigits : List Char → List (List Char)
  | [] => []
  | c :: cs =>
    if isDig c then (c :: cs.takeWhile isDig) :: findallDigits (cs.dropWhile isDig)
    else findallDigits cs
termination_by l => l.length
decreasing_by
  · simp only [List.length_cons]; exact Nat.lt_succ_of_le (length_dropWhile_le' _ _)
  · simp only [List.length_cons]; exact Nat.lt_succ_self _

/-- `int("0123")`: decimal value of a run of digits (leading zeros allowed) -/
def natOfDigits (ds : List Char) : Nat := ds.foldl (fun acc c => acc * 10 + (c.toNat - '0'.toNat)) 0

/-- decimal digits of `n`, least significant first, by fuel -/
def revDigitsAux : Nat → Nat → List Char
  | 0, _ => []
  | fuel + 1, n => Nat.digitChar (n % 10) :: (if n / 10 = 0 then [] else revDigitsAux fuel (n / 10))
/-- decimal digits of `n` without leading zeros, most significant first (Python `str(n)`) -/
def digits (n : Nat) : List Char := (revDigitsAux (n + 1) n).reverse

/-- Python's `int(x)` on a finite number (`int`, `float`, `np.integer`, `np.floating`) with exact value `q`:
truncation toward zero (`int(7.9) = 7`, `int(-7.9) = -7`) -/
def truncInt (q : Rat) : Int := if q < 0 then -((-q).floor) else q.floor

/-- how the symmetry argument arrives -/
inductive Sym where
  /-- a Python `str` (its characters) -/
  | str (cs : List Char)
  /-- a finite number (`int`, `float`, `np.integer`, `np.floating`): its EXACT value -/
  | num (q : Rat)
  /-- a float that is NaN or ±inf: `int(symmetry)` raises ValueError / OverflowError -/
  | nonfinite
deriving Repr, DecidableEq

/-- what the head of the function makes of the argument -/
inductive SymKind where
  | cyclic (n : Nat)
  | dihedral (n : Nat)
  /-- no digits in the string: `re.findall(...)[-1]` raises IndexError -/
  | raises
  /-- a string starting with neither c/C nor d/D: `s_type` stays unbound (the ValueError is built, not raised) -/
  | unbound
  /-- a number with `int(symmetry) < 0`: `np.zeros((nfold, 3))` raises ValueError (negative dimension) -/
  | negative
deriving Repr, DecidableEq

/-- `nfold = int(re.findall(r"\d+", symmetry)[-1])`; cyclic when `symmetry.lower().startswith("c")`;
a number is cyclic with `nfold = int(symmetry)` (truncation toward zero, `truncInt`), negative raises -/
def parseSym : Sym → SymKind
  | .nonfinite => .raises
  | .num q => if truncInt q < 0 then .negative else .cyclic (truncInt q).toNat
  | .str cs =>
    match (findallDigits cs).getLast? with
    | none => .raises
    | some run =>
      let n := natOfDigits run
      match cs.head? with
      | some c => if c.toLower = 'c' then .cyclic n else if c.toLower = 'd' then .dihedral n else .unbound
      | none => .unbound

/-- the whole function on the argument as given: `none` = not a cyclic request (outside C10) or the call raises;
`nfold = 0` raises too (`360 / 0`) -/
def expandSym [OfNat α 0] [OfNat α 1] [Neg α] [Add α] [Sub α] [Mul α] [Div α] [NatCast α] [LE α] [DecidableLE α]
    (sv : Svc α) (sym : Sym) (s : V3 α) (l : List (Particle α)) : Option (List (SubU α)) :=
  match parseSym sym with
  | .cyclic n => if n = 0 then none else some (expand sv n s l)
  | _ => none

/-- the same with the code's own arithmetic (`expandP`): what the driver executes -/
def expandSymP [OfNat α 0] [OfNat α 1] [Neg α] [Add α] [Sub α] [Mul α] [Div α] [NatCast α] [LE α] [DecidableLE α]
    (sv : Svc α) (pv : PolarSvc α) (sym : Sym) (s : V3 α) (l : List (Particle α)) : Option (List (SubU α)) :=
  match parseSym sym with
  | .cyclic n => if n = 0 then none else some (expandP sv pv n s l)
  | _ => none

end CryoCat.C10
