import CryoCat.Model.Particle
import CryoCat.Model.M3
import CryoCat.Gen.C10
/-! C10 — model of `Motl.split_in_asymmetric_subunits` (cyclic branch, after repair 837c2ef) followed by
`Motl.update_coordinates` (cryocat/cryomotl.py). Mathlib-free, polymorphic in the number type: the driver
runs these definitions at `Float`, `Props/C10` proves theorems about them over any commutative ring /
ordered field with a floor.

External numeric services are parameters (`Svc`): cosine/sine of an angle given in degrees and `floor`.
An orientation is a 3×3 matrix; the code stores it as `as_euler("zxz")` of that matrix (scipy; recorded
assumption), so the model's output carries the matrix itself. -/
namespace CryoCat.C10
variable {α : Type}

/-- an abstract angle: its cosine and sine -/
structure Ang (α : Type) where
  c : α
  s : α
deriving Repr, DecidableEq, Inhabited

namespace Ang
/-- the angle 0 -/
def zero [OfNat α 0] [OfNat α 1] : Ang α := ⟨1, 0⟩
/-- angle addition (addition formulas of cos and sin) -/
def add [Add α] [Sub α] [Mul α] (a b : Ang α) : Ang α := ⟨a.c * b.c - a.s * b.s, a.s * b.c + a.c * b.s⟩
/-- `k·a` -/
def nsmul [OfNat α 0] [OfNat α 1] [Add α] [Sub α] [Mul α] : Nat → Ang α → Ang α
  | 0, _ => zero
  | k + 1, a => add (nsmul k a) a
/-- rotation about z by the angle -/
def rz [OfNat α 0] [OfNat α 1] [Neg α] (a : Ang α) : M3 α := CryoCat.rz a.c a.s
end Ang

/-- numeric services the code takes from numpy / scipy / decimal -/
structure Svc (α : Type) where
  /-- (cos, sin) of an angle given in degrees -/
  trig : α → Ang α
  floor : α → α
  /-- 1/2 -/
  half : α

/-! field names re-extracted from the source (`Gen/C10.lean`); `Props/C10` proves they are the documented ones -/
def fieldOf (s : String) : Field := (Field.ofName? s).getD .score
def parentSrcF : Field := fieldOf Gen.C10.parentSrc
def parentDstF : Field := fieldOf Gen.C10.parentDst
def indexDstF : Field := fieldOf Gen.C10.indexDst
def sortKeyF : Field := fieldOf Gen.C10.sortKey
def idDstF : Field := fieldOf Gen.C10.idDst
def angleF (i : Nat) : Field := fieldOf (Gen.C10.parentAngles.getD i "")

/-- one output particle: its 20 fields (`phi/theta/psi` of `p` are still the parent's — the output's
Euler angles are whatever `as_euler` returns for `orient`) and its orientation matrix -/
structure SubU (α : Type) where
  p : Particle α
  orient : M3 α
deriving Repr, DecidableEq, Inhabited

def SubU.setId (u : SubU α) (v : α) : SubU α := { u with p := u.p.set idDstF v }

/-- complete position `x + shift_x, …` -/
def pos [Add α] (p : Particle α) : V3 α := ⟨p.x + p.shift_x, p.y + p.shift_y, p.z + p.shift_z⟩

section model
variable [OfNat α 0] [OfNat α 1] [Neg α] [Add α] [Sub α] [Mul α]

/-- `rot.from_euler("zxz", [phi, theta, psi], degrees=True)` of the parent -/
def orientOf (sv : Svc α) (P : Particle α) : M3 α :=
  zxz (sv.trig (P.get (angleF 0))).c (sv.trig (P.get (angleF 0))).s
      (sv.trig (P.get (angleF 1))).c (sv.trig (P.get (angleF 1))).s
      (sv.trig (P.get (angleF 2))).c (sv.trig (P.get (angleF 2))).s

/-- `decimal.ROUND_HALF_UP`: nearest integer, ties away from zero -/
def roundHalfUp [LT α] [DecidableLT α] (fl : α → α) (half v : α) : α :=
  if v < 0 then -(fl (-v + half)) else fl (v + half)

/-- the in-plane step `360 / nfold` as an angle -/
def stepAng [Div α] [NatCast α] (sv : Svc α) (n : Nat) : Ang α :=
  sv.trig ((Gen.C10.fullTurnDeg : α) / (n : α))

/-- the `k`-th (0-based) subunit of parent `P`, before the final renumbering of `subtomo_id`:
`phi_k = k·360/n`; `shift += R·(Rz(phi_k)·s)`; orientation `R·Rz(phi_k)`; `geom5 = parent id`,
`geom2 = k+1`; then `update_coordinates` (round the complete position, keep the rest as shift). -/
def subunit [Div α] [NatCast α] [LT α] [DecidableLT α] (sv : Svc α) (n : Nat) (s : V3 α) (P : Particle α) (k : Nat) : SubU α :=
  let R := orientOf sv P
  let ak := Ang.nsmul k (stepAng sv n)
  let d := R.apply (ak.rz.apply s)
  let vx := P.x + (P.shift_x + d.x)
  let vy := P.y + (P.shift_y + d.y)
  let vz := P.z + (P.shift_z + d.z)
  let rx := roundHalfUp sv.floor sv.half vx
  let ry := roundHalfUp sv.floor sv.half vy
  let rz := roundHalfUp sv.floor sv.half vz
  let p1 := (P.set parentDstF (P.get parentSrcF)).set indexDstF (((k + Gen.C10.indexStart : Nat) : α))
  { p := { p1 with x := rx, y := ry, z := rz, shift_x := vx - rx, shift_y := vy - ry, shift_z := vz - rz },
    orient := R * ak.rz }

/-- `new_motl_df["subtomo_id"] = np.arange(1, len + 1)` -/
def renum [NatCast α] : Nat → List (SubU α) → List (SubU α)
  | _, [] => []
  | i, u :: us => u.setId (((i + Gen.C10.idStart : Nat) : α)) :: renum (i + 1) us

/-- `sort_values(by="subtomo_id")` on the parents (ids unique: no ties) -/
def sortParents [LE α] [DecidableLE α] (l : List (Particle α)) : List (Particle α) :=
  l.mergeSort (fun p q => decide (p.get sortKeyF ≤ q.get sortKeyF))

def expandCore [Div α] [NatCast α] [LT α] [DecidableLT α] [LE α] [DecidableLE α]
    (sv : Svc α) (n : Nat) (s : V3 α) (l : List (Particle α)) : List (SubU α) :=
  (sortParents l).flatMap (fun P => (List.range n).map (subunit sv n s P))

/-- the whole function for `n`-fold cyclic symmetry and subunit offset `s` -/
def expand [Div α] [NatCast α] [LT α] [DecidableLT α] [LE α] [DecidableLE α]
    (sv : Svc α) (n : Nat) (s : V3 α) (l : List (Particle α)) : List (SubU α) :=
  renum 0 (expandCore sv n s l)

end model

/-! ### the code as it was before repair 837c2ef (regression witness D12) -/

/-- `len(np.arange(0, stop, step))` for `step > 0` -/
def arangeLen (stop step : Nat) : Nat := (stop + step - 1) / step

/-- `np.arange(0, 360, int(360 / n))`: `none` = the call raises (step 0) -/
def asisPhi (n : Nat) : Option (List Nat) :=
  let step := Gen.C10.fullTurnDeg / n
  if step = 0 then none else some ((List.range (arangeLen Gen.C10.fullTurnDeg step)).map (· * step))

/-- the as-is code runs through (the `n_subunits × 3` array accepts the angles) iff it has exactly `n` angles -/
def asisRuns (n : Nat) : Bool := (asisPhi n).map List.length == some n

end CryoCat.C10
