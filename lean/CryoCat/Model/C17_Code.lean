import CryoCat.Gen.C17
import CryoCat.Model.C17_Wedge
/-! C17 — CODE-LEVEL models of `ioutils.gctf_read` and `wedgeutils.create_wedge_list_sg(_batch)` (hardening pass, audit items 2
and 6). `Model/C17_Wedge.lean` states WHAT the lists must contain (`wedgeSingle = tilts.zipIdx.map mkWedgeRow`); this file
transcribes HOW the code builds them — column selection by a name list followed by a POSITIONAL `iloc[:, 0:2]` scaling;
`np.repeat(tomo_dimensions.values, n, axis=0)`; `z_shift.values[0][0]`; the per-tomogram look-ups
`table.loc[table["tomo_id"] == t, …].values[0]` of the batch function — and `Lemmas/C17_Code.lean` proves that the two agree
(`gctf_code_row`, `wedge_single_code_eq`, `wedge_batch_code_eq`). The driver runs the code-level definitions; the
implementation's rows are compared with THEM. Mathlib-free, polymorphic in the number type. -/
namespace CryoCat.C17

variable {α : Type}

/-! ### `gctf_read` -/

/-- `df[[n₁, n₂, …]]` on one row of a table whose columns are `cols` (FILE order): the cells in the order of the NAME list;
`none` = KeyError -/
def selectCols (names : List String) (cols : List String) (row : List α) : Option (List α) :=
  names.mapM (fun n => (cols.zip row).lookup n)

/-- `df.iloc[:, lo:hi] = df.iloc[:, lo:hi] * factor` on one row: POSITIONS lo ≤ j < hi are scaled -/
def scaleSlice [Mul α] (lo hi : Nat) (factor : α) (row : List α) : List α :=
  row.zipIdx.map (fun p => if lo ≤ p.2 && p.2 < hi then p.1 * factor else p.1)

/-- `gctf_read` on the STAR table (`cols` in file order): select by the source's name list (`Gen.C17.gctfColumns`; without
`rlnPhaseShift` when the file has none, the column is then appended with 0), scale the first two SELECTED columns, mean -/
def gctfReadCode [Add α] [Mul α] [Div α] [OfNat α 0] (factor divisor : α) (cols : List String) (rows : List (List α)) :
    Option (List (Defocus α)) :=
  let hasPhase := cols.contains Gen.C17.gctfPhaseColumn
  let names := if hasPhase then Gen.C17.gctfColumns else Gen.C17.gctfColumns.filter (fun n => n != Gen.C17.gctfPhaseColumn)
  rows.mapM (fun r =>
    match (selectCols names cols r).map (fun s => scaleSlice Gen.C17.gctfScaleLo Gen.C17.gctfScaleHi factor (if hasPhase then s else s ++ [0])) with
    | some [u, v, a, p] => some { defocus1 := u, defocus2 := v, astigmatism := a, phaseShift := p, defocusMean := (u + v) / divisor }
    | _ => none)

/-! ### `create_wedge_list_sg` -/

/-- `np.repeat(values, n, axis=0)`: every row n times, rows in order -/
def repeatRows (rows : List (List α)) (n : Nat) : List (List α) := rows.flatMap (fun r => List.replicate n r)

/-- what `create_wedge_list_sg` works with after its loaders ran -/
structure SingleIn (α : Type) where
  id : Int
  dims : List (List α)              -- `dimensions_load(tomo_dim).values` (rows of x, y, z)
  zTable : List (List α)            -- `z_shift_load(z_shift).values`
  tilts : List α                    -- `tlt_load(tlt_file)`
  defocus : Option (List α)         -- `defocus_load(…)["defocus_mean"].values`
  dose : Option (List α)            -- `total_dose_load(…)`

def SingleIn.lengthsOk (s : SingleIn α) : Bool :=
  (match s.defocus with | some d => d.length == s.tilts.length | none => true) &&
  (match s.dose with | some d => d.length == s.tilts.length | none => true)

/-- `create_wedge_list_sg`: `tilt_angle = tilts`, `defocus`, `exposure` column-wise; `[tomo_x, tomo_y, tomo_z] =
np.repeat(dims.values, len(tilts), axis=0)` (a block with another number of rows raises); `z_shift = z.values[0][0]` -/
def wedgeSingleCode (c : Consts α) (s : SingleIn α) : Option (List (WedgeRow α)) :=
  let n := s.tilts.length
  let rep := repeatRows s.dims n
  match s.zTable with
  | (zs :: _) :: _ =>
    if s.lengthsOk && rep.length == n then
      s.tilts.zipIdx.mapM (fun p =>
        match rep[p.2]? with
        | some [x, y, z] =>
          some { tomoNum := s.id, pixelSize := c.pixelSize, tomoX := x, tomoY := y, tomoZ := z, zShift := zs, tiltAngle := p.1,
                 defocus := optAt s.defocus p.2, exposure := optAt s.dose p.2,
                 voltage := c.voltage, ampContrast := c.ampContrast, cs := c.cs }
        | _ => none)
    else none
  | _ => none

/-! ### `create_wedge_list_sg_batch` -/

/-- the tables of the batch function: dimensions and z-shifts keyed by `tomo_id` (a single dimension triple / a scalar z-shift is
repeated for every tomogram of the list: `np.repeat(…, len(tomograms))`, `table["tomo_id"] = tomograms`), and what the loaders
return for the files named by a tomogram number -/
structure BatchIn (α : Type) where
  ids : List Int                                                        -- `tlt_load(tomo_list).astype(int)`
  dimTable : List (Int × List α)                                        -- rows (tomo_id, [x, y, z])
  zTable : List (Int × α)                                               -- rows (tomo_id, z_shift)
  files : List (Int × (List α × Option (List α) × Option (List α)))     -- id ↦ (tilts, defocus_mean, dose) as loaded

/-- `table.loc[table["tomo_id"] == t, …].values[0]`: the FIRST row whose id equals `t` (`none` = IndexError) -/
def firstWithId {β : Type} (table : List (Int × β)) (t : Int) : Option β := (table.find? (fun r => r.1 == t)).map (·.2)

def batchSingleIn (b : BatchIn α) (t : Int) : Option (SingleIn α) :=
  match firstWithId b.dimTable t, firstWithId b.zTable t, firstWithId b.files t with
  | some d, some z, some f => some { id := t, dims := [d], zTable := [[z]], tilts := f.1, defocus := f.2.1, dose := f.2.2 }
  | _, _, _ => none

/-- `create_wedge_list_sg_batch`: for every tomogram of the list, in list order, look the dimensions and the z-shift up BY
`tomo_id`, build the single list, concatenate -/
def wedgeBatchCode (c : Consts α) (b : BatchIn α) : Option (List (WedgeRow α)) :=
  (b.ids.mapM (fun t => (batchSingleIn b t).bind (wedgeSingleCode c))).map List.flatten

/-- the specification-level tomogram the look-ups denote -/
def batchTomo (b : BatchIn α) (t : Int) : Option (Tomo α) :=
  match firstWithId b.dimTable t, firstWithId b.zTable t, firstWithId b.files t with
  | some [x, y, z], some zs, some f => some { id := t, dimX := x, dimY := y, dimZ := z, zShift := zs, tilts := f.1, defocus := f.2.1, dose := f.2.2 }
  | _, _, _ => none

end CryoCat.C17
