/-! C10 — models of the code AS IT WAS before repairs 7710334 (row bookkeeping, D28) and 837c2ef (`np.arange(0, 360,
int(360/n))`, D12): regression witnesses. They describe historical code, so they are deliberately independent of the
regenerated constants (`Gen/C10`): the literals 360 and 1 below are those of the old source. Core Lean only. -/
namespace CryoCat.C10

/-! ### the row bookkeeping before repair 7710334 (regression witness D28) -/

/-- stable insertion sort by key (numpy's `quicksort` IS insertion sort below 17 elements) -/
def insertByKey (a : Nat × Nat) : List (Nat × Nat) → List (Nat × Nat)
  | [] => [a]
  | b :: bs => if b.2 ≤ a.2 then b :: insertByKey a bs else a :: b :: bs
def sortByKey (l : List (Nat × Nat)) : List (Nat × Nat) := l.foldl (fun acc a => insertByKey a acc) []

/-- rows are (row label, subtomo_id). As-is: `pd.concat([df]*n)`, `sort_values(by="subtomo_id")`, then the tiled
per-parent index table `np.tile(arange(1, n+1), N)` laid over the result by position: (row, geom2) -/
def oldBookkeeping (n : Nat) (l : List (Nat × Nat)) : List ((Nat × Nat) × Nat) :=
  (sortByKey (List.replicate n l).flatten).zipIdx.map (fun x => (x.1, x.2 % n + 1))

/-- repaired: parents in stable id order, each repeated `n` times, the same tiled table -/
def newBookkeeping (n : Nat) (l : List (Nat × Nat)) : List ((Nat × Nat) × Nat) :=
  ((sortByKey l).flatMap (fun r => List.replicate n r)).zipIdx.map (fun x => (x.1, x.2 % n + 1))

/-! ### the code as it was before repair 837c2ef (regression witness D12) -/

/-- `len(np.arange(0, stop, step))` for `step > 0` -/
def arangeLen (stop step : Nat) : Nat := (stop + step - 1) / step

/-- `np.arange(0, 360, int(360 / n))`: `none` = the call raises (step 0) -/
def asisPhi (n : Nat) : Option (List Nat) :=
  let step := 360 / n
  if step = 0 then none else some ((List.range (arangeLen 360 step)).map (· * step))

/-- the as-is code runs through (the `n_subunits × 3` array accepts the angles) iff it has exactly `n` angles -/
def asisRuns (n : Nat) : Bool := (asisPhi n).map List.length == some n

end CryoCat.C10
