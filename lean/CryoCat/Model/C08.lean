import CryoCat.Model.Particle
import CryoCat.Gen.C08
/-! C08 — executable model of the particle-list set algebra and identifier discipline of
`cryocat/cryomotl.py` (`get_motl_subset`, `remove_feature`, `split_by_feature`,
`get_motl_intersection`, `drop_duplicates`, `merge_and_renumber`, `merge_and_drop_duplicates`,
`renumber_particles`, `renumber_objects_sequentially`).  Mathlib-free; polymorphic in the number
type `α` (the driver runs it at `Float`, IEEE `==`/`<`/`+` like numpy; the theorems are over
decidable equality / linear orders / ordered rings).

A particle list is `Motl α = List (Particle α)`: the schema (exactly the 20 named fields) is the
type.  The comparison operators, default arguments and the first particle number are the values
the translator extracted from the source (`Gen.C08`). -/
namespace CryoCat.C08
open CryoCat Gen.C08

variable {α : Type}

/-- evaluation of a source comparison operator; `a <= b` is `a < b or a == b` (true for IEEE
doubles and in every linear order) -/
def _root_.CryoCat.Gen.C08.Cmp.test [BEq α] [LT α] [DecidableLT α] (c : Cmp) (a b : α) : Bool :=
  match c with
  | .eq => a == b
  | .ne => !(a == b)
  | .lt => decide (a < b)
  | .le => decide (a < b) || a == b
  | .gt => decide (b < a)
  | .ge => decide (b < a) || a == b
  | .bad => false

/-- `Motl.load(df)` → `check_df_type`: every missing value is replaced (`fillna(0.0)`); `fill`
is the cell-wise function (the driver passes `fun v => if v.isNaN then 0 else v`) -/
def fillRow (fill : α → α) (p : Particle α) : Particle α := Particle.ofFn (fun f => fill (p.get f))

/-- first occurrences, in order of first appearance (`Series.unique()`, `factorize`) -/
def uniq [BEq α] : List α → List α
  | [] => []
  | a :: l => a :: (uniq l).filter (fun b => !(b == a))

section setops
variable [BEq α] [LT α] [DecidableLT α]

/-- a loop `for v in values: <part> = <rows selected by comparison with v>; <accumulate>` executed
as the translator found it (`Gen.C08.SelectLoop.acc`): the parts are appended to / put in front of an
initially empty table, or the table itself is narrowed value after value -/
def runLoop (acc : Acc) (sel : α → Motl α → Motl α) (vs : List α) (l : Motl α) : Motl α :=
  match acc with
  | .append => vs.foldl (fun a v => a ++ sel v l) []
  | .prepend => vs.foldl (fun a v => sel v l ++ a) []
  | .narrow => vs.foldl (fun a v => sel v a) l
  | .bad => []

/-- `get_motl_subset(feature_values, feature_id)`: for each requested value in turn, the rows
`self.df[feature_id] == value`, concatenated in the extracted order -/
def subset (f : Field) (vs : List α) (l : Motl α) : Motl α :=
  runLoop subsetLoop.acc (fun v t => t.filter (fun p => subsetCmp.test (p.get f) v)) vs l

/-- `remove_feature(feature_id, feature_values)`: `for value in values: df = df.loc[df[f] != value]` -/
def remove (f : Field) (vs : List α) (l : Motl α) : Motl α :=
  runLoop removeLoop.acc (fun v t => t.filter (fun p => removeCmp.test (p.get f) v)) vs l

/-- the values a loop runs over, as the translator found it -/
def iterValues (it : Iter) (col : List α) : List α :=
  match it with
  | .uniqueFirst => uniq col
  | .uniqueSorted => (uniq col).mergeSort (fun a b => !decide (b < a))
  | _ => []

/-- `split_by_feature(feature_id)`: one list per unique value, in the extracted iteration and
collection order (today: order of first appearance, appended) -/
def split (f : Field) (l : Motl α) : List (Motl α) :=
  let parts := (iterValues splitLoop.iter (l.map (·.get f))).map (fun v => l.filter (fun p => splitCmp.test (p.get f) v))
  match splitLoop.acc with
  | .append => parts
  | .prepend => parts.reverse
  | _ => []

/-- `get_motl_intersection(motl1, motl2, feature_id)`: both operands go through `Motl.load(df)`
(missing values filled), then the rows of the FIRST list whose id `isin` the ids of the second -/
def intersect (fill : α → α) (f : Field) (l o : Motl α) : Motl α :=
  let m1 := l.map (fillRow fill)
  let m2 := o.map (fillRow fill)
  if intersectKeepsFirstByIsin then m1.filter (fun p => m2.any (fun q => q.get f == p.get f))
  else []

/-- order used by `sort_values(by=[dup, dec], ascending=[True, asc])` -/
def ddLe (dup dec : Field) (asc : Bool) (p q : Particle α) : Bool :=
  let first := if ddFirstKeyAscending then decide (p.get dup < q.get dup) else decide (q.get dup < p.get dup)
  first || (p.get dup == q.get dup &&
    (if asc then !decide (q.get dec < p.get dec) else !decide (p.get dec < q.get dec)))

/-- `DataFrame.drop_duplicates(subset=f)`, keep = first -/
def firstPer (f : Field) : Motl α → Motl α
  | [] => []
  | p :: l => p :: (firstPer f l).filter (fun q => !(q.get f == p.get f))

/-- `drop_duplicates(duplicates_column, decision_column, decision_sort_ascending)`: stable
lexicographic sort, then the first row of every id -/
def dropDup (dup dec : Field) (asc : Bool) (l : Motl α) : Motl α :=
  firstPer dup (l.mergeSort (ddLe dup dec asc))

end setops

/-! ### identifiers -/

/-- `renumber_particles`: `subtomo_id := k, k+1, …` in row order (`k` = 1 in the source) -/
def numberFrom (nat : Nat → α) : Nat → Motl α → Motl α
  | _, [] => []
  | k, p :: l => p.set .subtomo_id (nat k) :: numberFrom nat (k + 1) l

def renumberParticles (nat : Nat → α) (l : Motl α) : Motl α := numberFrom nat renumberParticlesFirst l

section merge
variable [BEq α] [LT α] [DecidableLT α] [Add α] [Sub α] [OfNat α 0] [OfNat α 1]

/-- Python `min(series)` / `max(series)` over the object numbers of a non-empty list -/
def objMin (d : α) (l : Motl α) : α := l.foldl (fun acc p => if p.object_id < acc then p.object_id else acc) d
def objMax (d : α) (l : Motl α) : α := l.foldl (fun acc p => if acc < p.object_id then p.object_id else acc) d

def shiftObj (c : α) (l : Motl α) : Motl α := l.map (fun p => p.set .object_id (p.object_id + c))

/-- one pass of the merging loop: skip empty lists; if the smallest object number is
`<= feature_add`, add `feature_add - feature_min + 1` to every object number; the new
`feature_add` is the largest object number of the (shifted) list -/
def mergeBlocks (cmp : Cmp) : α → List (Motl α) → List (Motl α)
  | _, [] => []
  | add, [] :: ms => mergeBlocks cmp add ms
  | add, (p :: m) :: ms =>
    let mn := objMin p.object_id m
    if cmp.test mn add then
      let c := add - mn + 1
      shiftObj c (p :: m) :: mergeBlocks cmp (objMax (p.object_id + c) (shiftObj c m)) ms
    else (p :: m) :: mergeBlocks cmp (objMax p.object_id m) ms

/-- the object-number offset the merging loop adds to each input (0 for an empty input and for one that
is not shifted): the same recursion as `mergeBlocks`, keeping one entry PER INPUT -/
def mergeOffsets (cmp : Cmp) : α → List (Motl α) → List α
  | _, [] => []
  | add, [] :: ms => 0 :: mergeOffsets cmp add ms
  | add, (p :: m) :: ms =>
    let mn := objMin p.object_id m
    if cmp.test mn add then
      let c := add - mn + 1
      c :: mergeOffsets cmp (objMax (p.object_id + c) (shiftObj c m)) ms
    else 0 :: mergeOffsets cmp (objMax p.object_id m) ms

/-- `merge_and_renumber(motl_list)` -/
def mergeRenumber (nat : Nat → α) (ls : List (Motl α)) : Motl α :=
  renumberParticles nat (mergeBlocks mergeRenumberShiftCmp 0 ls).flatten

/-- `merge_and_drop_duplicates(motl_list)`: same shifting loop, then `drop_duplicates()` with its
default arguments (`subtomo_id`, `score`, descending) -/
def mergeDropDup (dup dec : Field) (asc : Bool) (ls : List (Motl α)) : Motl α :=
  dropDup dup dec asc (mergeBlocks mergeDropDupShiftCmp 0 ls).flatten

/-- the (tomogram, object) classes in the order `renumber_objects_sequentially` numbers them:
tomograms ascending (`groupby` sorts its keys), objects by first appearance inside the tomogram
(`factorize`) -/
def objKeys (l : Motl α) : List (α × α) :=
  ((uniq (l.map (·.tomo_id))).mergeSort (fun a b => !decide (b < a))).flatMap
    (fun t => (uniq ((l.filter (fun p => p.tomo_id == t)).map (·.object_id))).map (fun o => (t, o)))

/-- the same classes with the tomograms in order of first appearance (`groupby(sort=False)`) -/
def objKeysFirst (l : Motl α) : List (α × α) :=
  (uniq (l.map (·.tomo_id))).flatMap
    (fun t => (uniq ((l.filter (fun p => p.tomo_id == t)).map (·.object_id))).map (fun o => (t, o)))

/-- the classes in the group order the translator found (`Gen.C08.objLoop.groupOrder`) -/
def objKeysCfg (l : Motl α) : List (α × α) :=
  match objLoop.groupOrder with
  | .uniqueSorted => objKeys l
  | .uniqueFirst => objKeysFirst l
  | _ => []

def keyIdx (keys : List (α × α)) (p : Particle α) : Nat :=
  keys.findIdx (fun k => k.1 == p.tomo_id && k.2 == p.object_id)

/-- the new object number of row `p`: `starting_number` + position of its (tomogram, object) class -/
def newObjId (nat : Nat → α) (start : α) (l : Motl α) (p : Particle α) : α :=
  start + nat (keyIdx (objKeysCfg l) p)

/-- the renumbering with the class list `keys` already computed -/
def renumberObjectsWith (nat : Nat → α) (start : α) (keys : List (α × α)) (l : Motl α) : Motl α :=
  l.map (fun p => p.set .object_id (start + nat (keyIdx keys p)))

/-- `renumber_objects_sequentially(starting_number)`.  The class list `objKeysCfg l` is computed ONCE and
handed to `renumberObjectsWith` (an argument is evaluated before the call), not once per row inside the
`map`; `renumberObjects_eq_map_newObjId` (`Props/C08.lean`, by `rfl`) is the row-by-row reading
`l.map (fun p => p.set .object_id (newObjId nat start l p))` all theorems use. -/
def renumberObjects (nat : Nat → α) (start : α) (l : Motl α) : Motl α :=
  renumberObjectsWith nat start (objKeysCfg l) l

end merge

/-! ### histories -/

/-- row `q` is row `p` with at most `subtomo_id` / `object_id` rewritten; a missing value may have
been replaced by `fill`.  With `fill` = the identity this is the LITERAL reading of "no other field
has changed" (`Literal`); which operations are allowed a non-trivial `fill` is `Op.mayFill` below. -/
def Unchanged (fill : α → α) (p q : Particle α) : Prop :=
  ∀ f : Field, f ≠ Field.subtomo_id → f ≠ Field.object_id → q.get f = p.get f ∨ q.get f = fill (p.get f)

/-- "no other field has changed", literally: every field other than the two id fields is the same cell -/
def Literal (p q : Particle α) : Prop :=
  ∀ f : Field, f ≠ Field.subtomo_id → f ≠ Field.object_id → q.get f = p.get f


/-- one operation of a history; merging operations carry the other input lists (`before`/`after`
the current list in `motl_list`; the flag says whether that input is handed over as a bare
DataFrame, which `Motl.load` fills, or as a `Motl`, which it copies) -/
inductive Op (α : Type)
  | subset (f : Field) (vs : List α)
  | remove (f : Field) (vs : List α)
  | splitPick (f : Field) (i : Nat)
  | intersect (f : Field) (other : Motl α)
  | dropDup (dup dec : Field) (asc : Bool)
  | mergeRenumber (before after : List (Bool × Motl α)) (selfDf : Bool)
  | mergeDropDup (before after : List (Bool × Motl α)) (selfDf : Bool)
  | renumberParticles
  | renumberObjects (start : α)

/-- the rows an operation brings in from other lists -/
def Op.sources : Op α → List (Particle α)
  | .intersect _ o => o
  | .mergeRenumber b a _ => (b.map (·.2)).flatten ++ (a.map (·.2)).flatten
  | .mergeDropDup b a _ => (b.map (·.2)).flatten ++ (a.map (·.2)).flatten
  | _ => []

/-- the ONLY operations that may replace a missing value (they pass an operand through
`Motl.load(DataFrame)` → `fillna`): `get_motl_intersection` (always: both operands are re-loaded from
their frames) and the two merges when at least one input is handed over as a bare DataFrame.
Selections (subset / remove / split / drop-duplicates) and the renumberings must return literal rows. -/
def Op.mayFill : Op α → Bool
  | .intersect _ _ => true
  | .mergeRenumber b a s => s || (b.any (·.1) || a.any (·.1))
  | .mergeDropDup b a s => s || (b.any (·.1) || a.any (·.1))
  | _ => false

/-- what one operation may do to a missing value: `fill` if it re-loads a frame, nothing otherwise -/
def opFill (fill : α → α) (op : Op α) : α → α := if op.mayFill then fill else (fun v => v)

/-- what a whole history may do to a missing value: nothing unless one of its operations re-loads a frame -/
def histFill (fill : α → α) (ops : List (Op α)) : α → α := if ops.any Op.mayFill then fill else (fun v => v)

/-- pure selections: operations that only choose rows of the current list -/
def Op.isSelection : Op α → Bool
  | .subset _ _ | .remove _ _ | .splitPick _ _ | .dropDup _ _ _ => true
  | _ => false

section run
variable [BEq α] [LT α] [DecidableLT α] [Add α] [Sub α] [OfNat α 0] [OfNat α 1]

def loaded (fill : α → α) (x : Bool × Motl α) : Motl α := if x.1 then x.2.map (fillRow fill) else x.2

def mergeInputs (fill : α → α) (before after : List (Bool × Motl α)) (selfDf : Bool) (l : Motl α) : List (Motl α) :=
  before.map (loaded fill) ++ [loaded fill (selfDf, l)] ++ after.map (loaded fill)

def ddDefaultDup : Field := (Field.ofName? ddDefaultDuplicates).getD .subtomo_id
def ddDefaultDec : Field := (Field.ofName? ddDefaultDecision).getD .score

def step (fill : α → α) (nat : Nat → α) : Op α → Motl α → Motl α
  | .subset f vs, l => subset f vs l
  | .remove f vs, l => remove f vs l
  | .splitPick f i, l => (split f l).getD i []
  | .intersect f o, l => intersect fill f l o
  | .dropDup dup dec asc, l => dropDup dup dec asc l
  | .mergeRenumber b a s, l => mergeRenumber nat (mergeInputs fill b a s l)
  | .mergeDropDup b a s, l => mergeDropDup ddDefaultDup ddDefaultDec ddDefaultAscending (mergeInputs fill b a s l)
  | .renumberParticles, l => renumberParticles nat l
  | .renumberObjects start, l => renumberObjects nat start l

/-- the table after a whole history -/
def run (fill : α → α) (nat : Nat → α) (ops : List (Op α)) (l : Motl α) : Motl α :=
  ops.foldl (fun acc op => step fill nat op acc) l

/-- every intermediate table (what the driver reports) -/
def trace (fill : α → α) (nat : Nat → α) : List (Op α) → Motl α → List (Motl α)
  | [], _ => []
  | op :: ops, l => let l' := step fill nat op l; l' :: trace fill nat ops l'

end run
end CryoCat.C08
