import CryoCat.Model.Particle
import CryoCat.Gen.C04
/-! C04 — model of `StopgapMotl.convert_to_sg_motl` / `sg_df_reset_index` / `convert_to_motl` /
`write_out` (the part before the STAR layer) and `Motl.update_coordinates` (cryocat/cryomotl.py).
Mathlib-free, polymorphic in the cell value type `α` (driver: `Float`; theorems: any type / `Int`).

A STOPGAP table is a `pandas.DataFrame`: a header and rows of cells; a cell is a number or a text
(`halfset`). One row seen by column *name* is an `SgRow` (column ↦ cell). -/
namespace CryoCat.C04

/-- the 16 columns of a STOPGAP motive list -/
inductive SgField
  | motl_idx | tomo_num | object | subtomo_num | halfset | orig_x | orig_y | orig_z
  | score | x_shift | y_shift | z_shift | phi | psi | the | cls
deriving DecidableEq, Repr, Inhabited

namespace SgField
/-- documented STOPGAP column order (written by hand; `sgColumns` is what the source says today) -/
def all : List SgField :=
  [motl_idx, tomo_num, object, subtomo_num, halfset, orig_x, orig_y, orig_z,
   score, x_shift, y_shift, z_shift, phi, psi, the, cls]

def name : SgField → String
  | motl_idx => "motl_idx" | tomo_num => "tomo_num" | object => "object" | subtomo_num => "subtomo_num"
  | halfset => "halfset" | orig_x => "orig_x" | orig_y => "orig_y" | orig_z => "orig_z"
  | score => "score" | x_shift => "x_shift" | y_shift => "y_shift" | z_shift => "z_shift"
  | phi => "phi" | psi => "psi" | the => "the" | cls => "class"

def ofName? (s : String) : Option SgField := all.find? (fun f => f.name == s)
end SgField

/-- the documented renaming cryoCAT field ↦ STOPGAP column: the 14 shared fields of the property
(written by hand; `sgPairs` is what the source says today, `Props/C04.pairs_documented` ties them) -/
def docPairs : List (Field × SgField) :=
  [(.subtomo_id, .subtomo_num), (.tomo_id, .tomo_num), (.object_id, .object),
   (.x, .orig_x), (.y, .orig_y), (.z, .orig_z), (.score, .score),
   (.shift_x, .x_shift), (.shift_y, .y_shift), (.shift_z, .z_shift),
   (.phi, .phi), (.psi, .psi), (.theta, .the), (.cls, .cls)]

/-- digests of the documented, normalised bodies of the entry points (written down from the reviewed
source; `Gen.C04.bodyDigests` is what the source says today, `Props/C04.bodies_documented` ties them) -/
def docBodyDigests : List (String × String) :=
  [("StopgapMotl.__init__", "6cd60100075c261e"),
   ("StopgapMotl.read_in", "977330a5ab207af8"),
   ("StopgapMotl.convert_to_motl", "41bddc0a26f2ac2c"),
   ("StopgapMotl.convert_to_sg_motl", "bd1b72a459e815c1"),
   ("StopgapMotl.sg_df_reset_index", "a328d3752cd8e76f"),
   ("StopgapMotl.write_out", "6150d53d35833acb"),
   ("stopgap2emmotl", "b93283c9d4d67905"),
   ("emmotl2stopgap", "43955f188247229d")]

/-- digest of the body of one entry point as the source has it today (`""` when it is not listed) -/
def bodyDigest (name : String) : String := (Gen.C04.bodyDigests.lookup name).getD ""

/-- the documented "stopgap" branches of the wrappers (normalised statements, parameters `a0, a1`):
`Motl.write_out(output_path, motl_type)` runs `StopgapMotl(self.df).write_out(output_path)` — no
keyword is passed, so both `update_coord` and `reset_index` are at their defaults — and
`Motl.load(input_motl, motl_type)` returns `StopgapMotl(input_motl)` -/
def docMotlWriteOutStopgap : List String := ["StopgapMotl(self.df).write_out(a0)"]
def docMotlLoadStopgap : List String := ["returnStopgapMotl(a0)"]

/-- the 14 shared fields on the cryoCAT side -/
def sharedFields : List Field := docPairs.map Prod.fst

/-- `StopgapMotl.pairs` of the *source* (names resolved; an unknown name is dropped, which
`pairs_documented` detects) -/
def sgPairs : List (Field × SgField) :=
  Gen.C04.sgPairNames.filterMap (fun es =>
    match Field.ofName? es.1, SgField.ofName? es.2 with
    | some e, some s => some (e, s)
    | _, _ => none)

/-- `StopgapMotl.columns` of the source -/
def sgColumns : List SgField := Gen.C04.sgColumnNames.filterMap SgField.ofName?

/-- column the parity is taken of (`motl_df["subtomo_id"]`) -/
def halfsetSrc : Field := (Field.ofName? Gen.C04.halfsetSourceName).getD .score
/-- column `motl_idx` is copied from (`stopgap_df["subtomo_num"]`) -/
def idxSrc : SgField := (SgField.ofName? Gen.C04.motlIdxSourceName).getD .motl_idx

inductive Cell (α : Type)
  | num (v : α)
  | str (s : String)
deriving DecidableEq, Repr, Inhabited

namespace Cell
variable {α β : Type}
def toNum (d : α) : Cell α → α
  | num v => v
  | str _ => d
def map (q : α → β) : Cell α → Cell β
  | num v => num (q v)
  | str s => str s
end Cell

/-- what the code needs of the number type besides copying -/
structure NumOps (α : Type) where
  ofNat : Nat → α
  /-- `series.mod(m).eq(k)` -/
  modEq : α → Nat → Nat → Bool

structure SgTable (α : Type) where
  cols : List SgField
  rows : List (List (Cell α))
deriving Repr, DecidableEq

abbrev SgRow (α : Type) := SgField → Cell α

variable {α β : Type}

def SgRow.set (r : SgRow α) (f : SgField) (c : Cell α) : SgRow α := fun g => if g = f then c else r g

/-- `pd.DataFrame(np.zeros((N, 16)), columns=StopgapMotl.columns)` -/
def zeroRow (ops : NumOps α) : SgRow α := fun _ => .num (ops.ofNat 0)

/-- `for em_key, star_key in pairs.items(): stopgap_df[star_key] = motl_df[em_key]` on one particle -/
def copyPairs (pairs : List (Field × SgField)) (p : Particle α) (r : SgRow α) : SgRow α :=
  pairs.foldl (fun r es => r.set es.2 (.num (p.get es.1))) r

/-- `np.where(motl_df["subtomo_id"].mod(2).eq(0), "A", "B")` -/
def halfsetOf (ops : NumOps α) (p : Particle α) : Cell α :=
  .str (if ops.modEq (p.get halfsetSrc) Gen.C04.halfsetMod Gen.C04.halfsetEq
        then Gen.C04.halfsetThen else Gen.C04.halfsetElse)

/-- one row of `convert_to_sg_motl` before the optional index reset -/
def exportRow (ops : NumOps α) (p : Particle α) : SgRow α :=
  let r := copyPairs sgPairs p (zeroRow ops)
  let r := r.set .halfset (halfsetOf ops p)
  r.set .motl_idx (r idxSrc)

def resetFrom (ops : NumOps α) : Nat → List (SgRow α) → List (SgRow α)
  | _, [] => []
  | i, r :: rs => r.set .motl_idx (.num (ops.ofNat i)) :: resetFrom ops (i + 1) rs

/-- `sg_df_reset_index`: `stopgap_df["motl_idx"] = range(start, N + off)`; pandas refuses a
sequence whose length is not the number of rows -/
def resetIdx (ops : NumOps α) (rows : List (SgRow α)) : Option (List (SgRow α)) :=
  if rows.length + Gen.C04.resetStopOffset - Gen.C04.resetStart = rows.length
  then some (resetFrom ops Gen.C04.resetStart rows) else none

/-- `StopgapMotl.convert_to_sg_motl(motl_df, reset_index)` row by row (positional: row `i` of the
result is made from particle `i`) -/
def toSg (ops : NumOps α) (reset : Bool) (motl : List (Particle α)) : Option (List (SgRow α)) :=
  let rows := motl.map (exportRow ops)
  if reset then resetIdx ops rows else some rows

/-- the DataFrame `convert_to_sg_motl` returns: header `StopgapMotl.columns`, cells in that order -/
def exportTable (ops : NumOps α) (reset : Bool) (motl : List (Particle α)) : Option (SgTable α) :=
  (toSg ops reset motl).map (fun rows => { cols := sgColumns, rows := rows.map (fun r => sgColumns.map r) })

/-- `Motl.update_coordinates` on one particle: position := round-half-up(position + shift),
shift := (position + shift) − new position -/
def updateCoord [Add α] [Sub α] (round : α → α) (p : Particle α) : Particle α :=
  let sx := p.x + p.shift_x
  let sy := p.y + p.shift_y
  let sz := p.z + p.shift_z
  { p with x := round sx, y := round sy, z := round sz,
           shift_x := sx - round sx, shift_y := sy - round sy, shift_z := sz - round sz }

/-- what `write_out(path, update_coord, reset_index)` hands to the STAR writer -/
def writeOutTable [Add α] [Sub α] (ops : NumOps α) (round : α → α) (update reset : Bool)
    (motl : List (Particle α)) : Option (SgTable α) :=
  exportTable ops reset (if update then motl.map (updateCoord round) else motl)

/-- `stopgap_df[name]` of one row: lookup by column *name* -/
def rowOfCells (d : Cell α) (cols : List SgField) (cells : List (Cell α)) : SgRow α :=
  fun s => ((cols.zip cells).lookup s).getD d

/-- `for em_key, star_key in pairs.items(): self.df[em_key] = stopgap_df[star_key]` on one row; the
six fields STOPGAP does not have stay at the fill value `d` (NaN in pandas) -/
def importFold (d : α) (pairs : List (Field × SgField)) (r : SgRow α) (p : Particle α) : Particle α :=
  pairs.foldl (fun p es => p.set es.1 ((r es.2).toNum d)) p

def importRow (d : α) (r : SgRow α) : Particle α := importFold d sgPairs r (Particle.ofFn (fun _ => d))

def Cell.isNum : Cell α → Bool
  | .num _ => true
  | .str _ => false

/-- the table is a DataFrame: every row has one cell per header entry -/
def SgTable.rect (t : SgTable α) : Bool := t.rows.all (fun cells => cells.length == t.cols.length)

/-- the 14 documented columns hold numbers in every row (the quantifier of the property: "arbitrary
finite field values"); pandas would copy a text cell into the particle list as a `str` object, which
no `Particle α` can represent — such a table is *rejected* by the model, not silently read as `d` -/
def SgTable.numericIn (d : α) (pairs : List (Field × SgField)) (t : SgTable α) : Bool :=
  t.rows.all (fun cells => pairs.all (fun es => (rowOfCells (.num d) t.cols cells es.2).isNum))

/-- `StopgapMotl.convert_to_motl(stopgap_df)`; a missing column is a `KeyError` (`none`); a ragged
table is no DataFrame and a text cell in one of the 14 columns is outside the model (`none`), so the
fill value `d` of `Cell.toNum` / `rowOfCells` is never observed in an accepted import -/
def importTable (d : α) (t : SgTable α) : Option (List (Particle α)) :=
  if sgPairs.all (fun es => t.cols.contains es.2) && t.rect && t.numericIn d sgPairs
  then some (t.rows.map (fun cells => importRow d (rowOfCells (.num d) t.cols cells)))
  else none


/-! ### omitted keywords: the signature defaults of the source (`Gen.C04.*Default`) -/

/-- `convert_to_sg_motl(motl_df)` / `convert_to_sg_motl(motl_df, reset_index=…)` -/
def toSgOpt (ops : NumOps α) (reset : Option Bool) (motl : List (Particle α)) : Option (List (SgRow α)) :=
  toSg ops (reset.getD Gen.C04.convResetDefault) motl

/-- `write_out(path)` with `update_coord` / `reset_index` given or omitted -/
def writeOutOpt [Add α] [Sub α] (ops : NumOps α) (round : α → α) (update reset : Option Bool)
    (motl : List (Particle α)) : Option (SgTable α) :=
  writeOutTable ops round (update.getD Gen.C04.writeUpdateDefault) (reset.getD Gen.C04.writeResetDefault) motl

/-- `emmotl2stopgap(df, path)` with `update_coordinates` / `reset_index` given or omitted: re-centre
first when asked, then `write_out(path, update_coord=False, reset_index=reset_index)` -/
def em2sgOpt [Add α] [Sub α] (ops : NumOps α) (round : α → α) (update reset : Option Bool)
    (motl : List (Particle α)) : Option (SgTable α) :=
  writeOutTable ops round (update.getD Gen.C04.em2sgUpdateDefault) (reset.getD Gen.C04.em2sgResetDefault) motl

/-- `Motl(df).write_out(path, "stopgap")`, the wrapper `sta.py` / `tmana.py` call: it is
`StopgapMotl(self.df).write_out(path)` (tied to the source by `wrappers_documented`), i.e. `write_out`
with BOTH keywords omitted -/
def motlWriteOut [Add α] [Sub α] (ops : NumOps α) (round : α → α) (motl : List (Particle α)) : Option (SgTable α) :=
  writeOutOpt ops round none none motl

/-! ### rounding half away from zero on exact values (`Decimal(v).to_integral_value(ROUND_HALF_UP)`)

`Motl.update_coordinates` hands the float64 sum `x + shift_x` to `decimal.Decimal`, which holds its
exact value, and rounds that exactly; over `Rat` (every finite float64 is a rational) the rule is: -/

/-- nearest integer, exact halves away from zero -/
def ratRoundAway (q : Rat) : Rat :=
  if q < 0 then -(((-q + 1 / 2).floor : Int) : Rat) else (((q + 1 / 2).floor : Int) : Rat)

/-- the rational number an IEEE-754 binary64 bit pattern denotes, exactly (`none` for NaN, ±inf): what
`decimal.Decimal(x)` holds for a float `x`. The driver uses it to compare the hardware `Float.round`
it executes with the proved exact rule `ratRoundAway` on every re-centred coordinate. -/
def decodeRat (b : Nat) : Option Rat :=
  let sign := b / 2 ^ 63 % 2
  let e := b / 2 ^ 52 % 2048
  let m := b % 2 ^ 52
  if e = 2047 then none
  else
    let sig := if e = 0 then m else 2 ^ 52 + m
    let ex := if e = 0 then 1 else e              -- value = sig · 2^(ex − 1075)
    let mag : Rat :=
      if 1075 ≤ ex then ((sig * 2 ^ (ex - 1075) : Nat) : Rat)
      else ((sig : Nat) : Rat) / ((2 ^ (1075 - ex) : Nat) : Rat)
    some (if sign = 1 then -mag else mag)

/-! ### subtomogram numbers as integers: exact decoding of IEEE binary64 bit patterns

The checker that decides the parity clause on the real output does not use floating-point `mod`: it
decodes the bit pattern of the subtomogram number to the integer it denotes (pure `Nat`/`Int`
arithmetic on sign, exponent and significand) and takes `% 2` of that integer. -/

/-- the integer an IEEE-754 binary64 bit pattern denotes; `none` for NaN, ±inf and non-integral values -/
def decodeInt (b : Nat) : Option Int :=
  let sign := b / 2 ^ 63 % 2
  let e := b / 2 ^ 52 % 2048
  let m := b % 2 ^ 52
  if e = 2047 then none
  else
    let sig := if e = 0 then m else 2 ^ 52 + m
    let ex := if e = 0 then 1 else e              -- value = sig · 2^(ex − 1075)
    let mag : Option Nat :=
      if 1075 ≤ ex then some (sig * 2 ^ (ex - 1075))
      else if sig % 2 ^ (1075 - ex) = 0 then some (sig / 2 ^ (1075 - ex)) else none
    mag.map (fun n => if sign = 1 then -(n : Int) else (n : Int))

/-- the binary64 bit pattern of the natural number `n` (exact for `n < 2^53`): exponent = position of
the leading bit, significand = the remaining bits shifted to 52 places -/
def encodeNat (n : Nat) : Nat :=
  if n = 0 then 0 else (1023 + Nat.log2 n) * 2 ^ 52 + (n * 2 ^ (52 - Nat.log2 n) - 2 ^ 52)

/-- the binary64 bit pattern of the integer `z` (exact for `|z| < 2^53`): sign bit + `encodeNat |z|` -/
def encodeInt : Int → Nat
  | .ofNat n => encodeNat n
  | .negSucc n => 2 ^ 63 + encodeNat (n + 1)

/-- number operations on bit patterns through the decoded integer: `ofNat` is the bit pattern of the
float `n`, `modEq b m k` is `z % m = k` for the integer `z` the pattern denotes (false for a
non-integral value: such a number is neither even nor odd) -/
def intBitOps : NumOps Nat :=
  { ofNat := encodeNat,
    modEq := fun b m k => match decodeInt b with
      | some z => z % (m : Int) == (k : Int)
      | none => false }

/-! ### verified checker: decides the clauses of the property on an output supplied by the harness -/

def checkRows (ok : Nat → Particle α → List (Cell α) → Bool) :
    Nat → List (Particle α) → List (List (Cell α)) → Bool
  | _, [], [] => true
  | i, p :: ps, c :: cs => ok i p c && checkRows ok (i + 1) ps cs
  | _, _, _ => false

variable [DecidableEq α]

/-- the 14 shared fields of particle `p` sit unchanged in the documented columns of `cells` -/
def fieldsOk (cols : List SgField) (p : Particle α) (cells : List (Cell α)) : Bool :=
  docPairs.all (fun es => rowOfCells (.str "") cols cells es.2 == .num (p.get es.1))

def halfOk (ops : NumOps α) (cols : List SgField) (p : Particle α) (cells : List (Cell α)) : Bool :=
  rowOfCells (.str "") cols cells .halfset == .str (if ops.modEq p.subtomo_id 2 0 then "A" else "B")

def idxOk (ops : NumOps α) (reset : Bool) (cols : List SgField) (i : Nat) (p : Particle α) (cells : List (Cell α)) : Bool :=
  rowOfCells (.str "") cols cells .motl_idx == .num (if reset then ops.ofNat (i + 1) else p.subtomo_id)

def checkFields (motl : List (Particle α)) (out : SgTable α) : Bool :=
  checkRows (fun _ p c => fieldsOk out.cols p c) 0 motl out.rows
def checkHalf (ops : NumOps α) (motl : List (Particle α)) (out : SgTable α) : Bool :=
  checkRows (fun _ p c => halfOk ops out.cols p c) 0 motl out.rows
def checkIdx (ops : NumOps α) (reset : Bool) (motl : List (Particle α)) (out : SgTable α) : Bool :=
  checkRows (fun i p c => idxOk ops reset out.cols i p c) 0 motl out.rows

/-- the 14 shared fields of particle `p` equal the documented columns of the imported row -/
def importOk (cols : List SgField) (cells : List (Cell α)) (p : Particle α) : Bool :=
  docPairs.all (fun es => rowOfCells (.str "") cols cells es.2 == .num (p.get es.1))

def checkImport (t : SgTable α) (out : List (Particle α)) : Bool :=
  checkRows (fun _ p c => importOk t.cols c p) 0 out t.rows

end CryoCat.C04
