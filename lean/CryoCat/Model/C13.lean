import CryoCat.Gen.C13
/-! C13 — model of the analytic masks and the voxel-wise mask algebra of `cryocat/cryomask.py`.
Mathlib-free and executable: the driver runs exactly these definitions (`Rat`/`Int` for the shapes,
`Float` for the algebra); `Props/C13.lean` proves the property about them.

Conventions. A mask of a box `nx × ny × nz` is the C-order list of its voxels (`render`): voxel
`(i,j,k)` sits at flat index `(i*ny + j)*nz + k`, like `numpy.ndarray.ravel()`.  Coordinates are
`Int`, radii `Rat` (shell radii are half-integers, Gaussian widths dyadic), so every comparison the
code makes in floating point on these inputs is made exactly here. -/
namespace CryoCat.C13

/-! ### arrays -/

/-- C-order flattening of a function on the box -/
def render {β : Type} (nx ny nz : Nat) (f : Nat → Nat → Nat → β) : List β :=
  (List.range nx).flatMap fun i => (List.range ny).flatMap fun j => (List.range nz).map fun k => f i j k

/-! ### parameters -/

/-- `blur_factor` of `preprocess_params`, re-extracted from the source -/
def blurFactor : Rat := mkRat Gen.C13.blurFactorNum Gen.C13.blurFactorDen

/-- `preprocess_params(radius, gaussian, gaussian_outwards)`:
`np.ceil(radius + gaussian * blur_factor).astype(int)` when blurred outwards, else unchanged -/
def preprocess (r g : Rat) (outwards : Bool) : Rat :=
  if g ≠ 0 ∧ outwards = true then (((r + g * blurFactor).ceil : Int) : Rat) else r

/-- `np.asarray(v).astype(int)` of `get_correct_format`: truncation toward zero -/
def trunc (q : Rat) : Int := if 0 ≤ q then q.floor else q.ceil

def sq (x : Int) : Int := x * x

/-- the float test `np.sqrt(d2) > r` for an integer `d2 ≥ 0`, decided without a square root
(`Lemmas/C13.lean`: equivalent to `Real.sqrt d2 > r`) -/
def sqrtGt (d2 : Int) (r : Rat) : Bool := decide (r < 0) || decide (r * r < (d2 : Rat))

/-! ### solids -/

/-- `spherical_mask` before the blur: `mask[mask > radius] = 0; mask[mask > 0] = 1; mask[centre] = 1` -/
def sphereIn (cx cy cz : Int) (r : Rat) (i j k : Int) : Bool :=
  (i == cx && j == cy && k == cz) || !(sqrtGt (sq (i - cx) + sq (j - cy) + sq (k - cz)) r)

/-- the `mask_xy` disc of `cylindrical_mask` -/
def discIn (cx cy : Int) (r : Rat) (i j : Int) : Bool :=
  (i == cx && j == cy) || !(sqrtGt (sq (i - cx) + sq (j - cy)) r)

/-- `cylindrical_mask` before the blur; `h` is the half height (`height // 2`, after `preprocess`),
the slab `z_start = max(cz-h, 0) … z_end = min(cz+h+1, nz)` is clipped to the box -/
def cylIn (nz : Nat) (cx cy cz : Int) (r : Rat) (h : Int) (i j k : Int) : Bool :=
  discIn cx cy r i j && decide (max (cz - h) 0 ≤ k) && decide (k < min (cz + h + 1) (nz : Int))

/-- the coordinate `ellipsoid_mask` uses for array index `i` on an axis of length `n` with centre `c`:
`linspace(1,n,n) - floor(n/2)` read at the *reversed* point index `n-1-i` (`points[:, ::-1]`), minus
`grid_center = 0.5*n - c` -/
def ellCoord (n : Nat) (c : Int) (i : Int) : Rat :=
  ((((n : Int) - i - (n : Int) / 2 : Int)) : Rat) - ((n : Rat) / 2 - (c : Rat))

/-- `ellipsoid_mask` before the blur: `sum((points - grid_center)**2 / radii**2) <= 1`, rows summed in
the order z, y, x; a zero radius gives `inf`/`nan` in numpy, hence an empty mask -/
def ellipsoidIn (nx ny nz : Nat) (cx cy cz : Int) (rx ry rz : Int) (i j k : Int) : Bool :=
  if rx = 0 ∨ ry = 0 ∨ rz = 0 then false else
  decide (ellCoord nz cz k * ellCoord nz cz k / ((rz : Rat) * (rz : Rat))
        + ellCoord ny cy j * ellCoord ny cy j / ((ry : Rat) * (ry : Rat))
        + ellCoord nx cx i * ellCoord nx cx i / ((rx : Rat) * (rx : Rat)) ≤ 1)

def b2i (b : Bool) : Int := if b then 1 else 0

/-! ### the public functions (hard-edged part; the Gaussian blur is applied to these by the library) -/

inductive Kind where
  | sphere | cylinder | ellipsoid | sshell | eshell
deriving Repr, DecidableEq

/-- one call of a mask constructor; `none` = argument left at its default -/
structure Req where
  kind : Kind
  nx : Nat
  ny : Nat
  nz : Nat
  center : Option (Int × Int × Int) := none
  radius : Option Rat := none            -- sphere, cylinder, spherical shell
  height : Option Int := none            -- cylinder
  radii : Option (Rat × Rat × Rat) := none  -- ellipsoid, ellipsoid shell
  thick : Rat := 0                       -- shells
  gauss : Rat := 0
  outwards : Bool := true
deriving Repr

/-- `get_correct_format(center, reference_size=mask_size)` -/
def Req.centre (q : Req) : Int × Int × Int :=
  q.center.getD ((q.nx : Int) / 2, (q.ny : Int) / 2, (q.nz : Int) / 2)

def inBox (n : Nat) (c : Int) : Bool := decide (0 ≤ c) && decide (c < (n : Int))

/-- numpy index `a[c]` on an axis of length `n`: valid for `-n ≤ c < n` (`IndexError` otherwise) … -/
def idxOk (n : Nat) (c : Int) : Bool := decide (-(n : Int) ≤ c) && decide (c < (n : Int))
/-- … and a negative index counts from the end -/
def wrapIdx (n : Nat) (c : Int) : Int := if c < 0 then c + (n : Int) else c

/-- `spherical_mask` on a box: the distance test is made with the centre as given, the forced voxel
`mask[center[0], center[1], center[2]] = 1` is addressed by numpy (negative indices wrap) -/
def sphereVox (nx ny nz : Nat) (cx cy cz : Int) (r : Rat) (i j k : Int) : Bool :=
  (i == wrapIdx nx cx && j == wrapIdx ny cy && k == wrapIdx nz cz) || sphereIn cx cy cz r i j k

/-- `cylindrical_mask` on a box, forced disc voxel `mask_xy[center[0], center[1]] = 1` addressed by numpy -/
def cylVox (nx ny nz : Nat) (cx cy cz : Int) (r : Rat) (h : Int) (i j k : Int) : Bool :=
  ((i == wrapIdx nx cx && j == wrapIdx ny cy) || discIn cx cy r i j)
    && decide (max (cz - h) 0 ≤ k) && decide (k < min (cz + h + 1) (nz : Int))

/-- radius actually drawn by `spherical_mask` -/
def Req.sphereRadius (q : Req) : Rat :=
  preprocess (q.radius.getD (((min (min q.nx q.ny) q.nz : Nat) / 2 : Nat) : Rat)) q.gauss q.outwards

def Req.cylRadius (q : Req) : Rat :=
  preprocess (q.radius.getD (((min q.nx q.ny : Nat) / 2 : Nat) : Rat)) q.gauss q.outwards

/-- half height actually drawn by `cylindrical_mask`: `height // 2`, then `preprocess_params` -/
def Req.cylHalf (q : Req) : Int :=
  trunc (preprocess ((((q.height.getD (q.nz : Int)) / 2 : Int)) : Rat) q.gauss q.outwards)

/-- `get_correct_format(radii, reference_size=mask_shape)` -/
def Req.radiiInt (q : Req) : Int × Int × Int :=
  match q.radii with
  | some (a, b, c) => (trunc a, trunc b, trunc c)
  | none => ((q.nx : Int) / 2, (q.ny : Int) / 2, (q.nz : Int) / 2)

/-- radii actually drawn by `ellipsoid_mask` called with (already formatted) radii `r` -/
def ellRadii (r : Rat × Rat × Rat) (g : Rat) (outwards : Bool) : Int × Int × Int :=
  (trunc (preprocess (trunc r.1 : Rat) g outwards), trunc (preprocess (trunc r.2.1 : Rat) g outwards),
   trunc (preprocess (trunc r.2.2 : Rat) g outwards))

/-- voxel value before the blur; shells of spheres are float differences (−1 is possible for a
negative thickness), everything else is 0/1.  `none`: the real code raises `IndexError` when it forces
the centre voxel (exactly when an index of the centre is `≥ n` or `< -n`; indices in `-n … -1` wrap and
are modelled, although the property quantifies over centres in the box only) -/
def voxel (q : Req) : Option (Int → Int → Int → Int) :=
  let (cx, cy, cz) := q.centre
  match q.kind with
  | .sphere =>
    if idxOk q.nx cx && idxOk q.ny cy && idxOk q.nz cz then
      some fun i j k => b2i (sphereVox q.nx q.ny q.nz cx cy cz q.sphereRadius i j k)
    else none
  | .cylinder =>
    if idxOk q.nx cx && idxOk q.ny cy then
      some fun i j k => b2i (cylVox q.nx q.ny q.nz cx cy cz q.cylRadius q.cylHalf i j k)
    else none
  | .ellipsoid =>
    let (a, b, c) := q.radiiInt
    let (rx, ry, rz) := ellRadii ((a : Rat), (b : Rat), (c : Rat)) q.gauss q.outwards
    some fun i j k => b2i (ellipsoidIn q.nx q.ny q.nz cx cy cz rx ry rz i j k)
  | .sshell =>
    if idxOk q.nx cx && idxOk q.ny cy && idxOk q.nz cz then
      let r : Rat := q.radius.getD (((min (min q.nx q.ny) q.nz : Nat) / 2 : Nat) : Rat)
      let t := q.thick / 2
      some fun i j k => b2i (sphereVox q.nx q.ny q.nz cx cy cz (r + t) i j k) - b2i (sphereVox q.nx q.ny q.nz cx cy cz (r - t) i j k)
    else none
  | .eshell =>
    let (a, b, c) := q.radiiInt
    let t := q.thick / 2
    let (ox, oy, oz) := ellRadii ((a : Rat) + t, (b : Rat) + t, (c : Rat) + t) 0 true
    let (ix, iy, iz) := ellRadii ((a : Rat) - t, (b : Rat) - t, (c : Rat) - t) 0 true
    some fun i j k => b2i (ellipsoidIn q.nx q.ny q.nz cx cy cz ox oy oz i j k
                            && !(ellipsoidIn q.nx q.ny q.nz cx cy cz ix iy iz i j k))

/-- the array returned for `gaussian = 0` (and the array handed to the Gaussian filter otherwise) -/
def hardMask (q : Req) : Option (List Int) :=
  (voxel q).map fun f => render q.nx q.ny q.nz fun i j k => f i j k

/-- voxels exactly on an ellipsoid surface (rational sum = 1): excluded as ties by the property -/
def ellipsoidTie (nx ny nz : Nat) (cx cy cz : Int) (rx ry rz : Int) (i j k : Int) : Bool :=
  if rx = 0 ∨ ry = 0 ∨ rz = 0 then false else
  decide (ellCoord nz cz k * ellCoord nz cz k / ((rz : Rat) * (rz : Rat))
        + ellCoord ny cy j * ellCoord ny cy j / ((ry : Rat) * (ry : Rat))
        + ellCoord nx cx i * ellCoord nx cx i / ((rx : Rat) * (rx : Rat)) = 1)

/-! ### `generate_mask` -/

/-- `mask_size = 2*max(specs) + mask_expansion; mask_size = ceil(mask_size/2)*2` when no size is given -/
def genSize (specs : List Nat) (maskSize : Option Nat) (expansion : Nat) : Nat :=
  match maskSize with
  | some s => s
  | none => ((2 * specs.foldl max 0 + expansion + 1) / 2) * 2

/-- the constructor call `generate_mask` makes for a parsed shape string; `none`: wrong number of specs -/
def generate (kind : Kind) (specs : List Nat) (maskSize : Option Nat) (expansion : Nat) : Option Req :=
  let s := genSize specs maskSize expansion
  match kind, specs with
  | .sphere, [r] => some { kind := .sphere, nx := s, ny := s, nz := s, radius := some (r : Rat) }
  | .cylinder, [r, h] => some { kind := .cylinder, nx := s, ny := s, nz := s, radius := some (r : Rat), height := some (h : Int) }
  | .sshell, [r, t] =>
    let s' := ((s + t + 1) / 2) * 2
    some { kind := .sshell, nx := s', ny := s', nz := s', radius := some (r : Rat), thick := (t : Rat) }
  | .ellipsoid, [a, b, c] => some { kind := .ellipsoid, nx := s, ny := s, nz := s, radii := some ((a : Rat), (b : Rat), (c : Rat)) }
  | .eshell, [a, b, c, t] =>
    some { kind := .eshell, nx := s, ny := s, nz := s, radii := some ((a : Rat), (b : Rat), (c : Rat)), thick := (t : Rat) }
  | _, _ => none

/-! ### voxel-wise algebra (polymorphic: `Float` in the driver, ordered fields in the proofs) -/

section Algebra
variable {α : Type} [Add α] [Mul α] [Sub α] [Zero α] [One α] [Max α] [Min α]

/-- `np.clip(x, 0.0, 1.0)` = `minimum(maximum(x, 0), 1)` -/
def clip01 (x : α) : α := min (max x 0) 1

/-- one voxel of `union`: `zeros += m₁ += m₂ …`, clipped -/
def unionVox (vals : List α) : α := clip01 (vals.foldl (· + ·) 0)
/-- one voxel of `intersection`: `ones *= m₁ *= m₂ …`, clipped -/
def interVox (vals : List α) : α := clip01 (vals.foldl (· * ·) 1)
/-- one voxel of `subtraction`: `m₀ -= m₁ -= m₂ …`, clipped -/
def subVox (v0 : α) (rest : List α) : α := clip01 (rest.foldl (· - ·) v0)
/-- one voxel of `difference`: `clip(union - intersection)` -/
def diffVox (vals : List α) : α := clip01 (unionVox vals - interVox vals)

/-- the in-place accumulation loop over whole (flattened) arrays -/
def accumulate (op : α → α → α) (init : List α) (ms : List (List α)) : List α :=
  ms.foldl (fun acc m => List.zipWith op acc m) init

def sameShape (ms : List (List α)) : Bool := ms.all fun m => m.length == (ms.headD []).length

/-- the lists the algebra model speaks about: non-empty, all masks of one size -/
def inDomain (ms : List (List α)) : Bool := !ms.isEmpty && sameShape ms

/-- `cryomask.union(mask_list)`.  `none` for an empty list: the real code raises (`mask_list[0]`, `IndexError`).
`none` for masks of different sizes means only "outside the model": numpy broadcasts a smaller mask into the
accumulator when it can and raises otherwise; flat lists do not describe that and nothing is claimed
(`inDomain` tells the two apart for the driver). -/
def union (ms : List (List α)) : Option (List α) :=
  if ms.isEmpty || !sameShape ms then none else
  some ((accumulate (· + ·) (List.replicate (ms.headD []).length 0) ms).map clip01)

def intersection (ms : List (List α)) : Option (List α) :=
  if ms.isEmpty || !sameShape ms then none else
  some ((accumulate (· * ·) (List.replicate (ms.headD []).length 1) ms).map clip01)

def subtraction (ms : List (List α)) : Option (List α) :=
  match ms with
  | [] => none
  | m0 :: rest => if !sameShape (m0 :: rest) then none else some ((accumulate (· - ·) m0 rest).map clip01)

def difference (ms : List (List α)) : Option (List α) :=
  match union ms, intersection ms with
  | some u, some n => some ((List.zipWith (· - ·) u n).map clip01)
  | _, _ => none

end Algebra

/-! ### the other reading of "difference": n-ary XOR (parity) -/

/-- voxel-wise XOR of any number of Boolean masks: true iff an odd number of them is set -/
def xorAll (bs : List Bool) : Bool := bs.foldl xor false

/-- the statement's voxel-wise Boolean combination for each of the four functions ("OR, AND, AND-NOT and XOR");
`difference` is read as XOR of all the masks (parity), which for two masks is the usual XOR -/
def specVox (fn : String) (bs : List Bool) : Option Bool :=
  if fn = "union" then some (bs.any id)
  else if fn = "intersection" then some (bs.all id)
  else if fn = "subtraction" then (match bs with | [] => none | b0 :: rest => some (b0 && !rest.any id))
  else if fn = "difference" then some (xorAll bs)
  else none

/-! ### soft edges: `add_gaussian` = `skimage.filters.gaussian(mask, sigma)` =
`scipy.ndimage.gaussian_filter(mask, sigma, mode="nearest", truncate=4.0)`: a separable kernel of radius
`int(4σ + 0.5)` whose 1-D weights are `exp(-t²/2σ²)` divided by their sum; voxels beyond a face are
replaced by the nearest voxel of the box. -/

/-- the property's bound on the core of an outwards-blurred mask -/
def coreTol : Rat := mkRat 1 1000

/-- kernel radius `int(truncate * sigma + 0.5)`, `truncate = 4` -/
def kernelRadius (g : Rat) : Nat := ((4 * g + mkRat 1 2).floor).toNat

/-- `mode="nearest"`: index `x` read on an axis of length `n` -/
def clampIdx (n : Nat) (x : Int) : Int := max 0 (min x ((n : Int) - 1))

/-- the axis `-R … R` of the kernel -/
def axis (R : Nat) : List Int := (List.range (2 * R + 1)).map fun (t : Nat) => (t : Int) - (R : Int)

/-- the offsets `[-R, R]³` of the kernel -/
def cube (R : Nat) : List (Int × Int × Int) :=
  (axis R).flatMap fun a => (axis R).flatMap fun b => (axis R).map fun c => (a, b, c)

section Gauss
variable {α : Type} [Add α] [Mul α] [Div α] [Neg α] [Zero α] [One α]

/-- unnormalised 1-D weight of `scipy.ndimage.gaussian_filter1d` at offset `t`: `exp(-0.5 / σ² · t²)`; the exponential and
the embedding of the integers are parameters (`Float.exp`/`Float.ofInt` in the driver, `Real.exp`/the cast in the proofs) -/
def gaussRaw (exp : α → α) (ofInt : Int → α) (sigma : α) (t : Int) : α :=
  exp (-(1 / (1 + 1)) / (sigma * sigma) * (ofInt t * ofInt t))

/-- the weight the filter uses: `phi_x / phi_x.sum()` over the offsets `-R … R` -/
def gaussW (exp : α → α) (ofInt : Int → α) (sigma : α) (R : Nat) (t : Int) : α :=
  gaussRaw exp ofInt sigma t / ((axis R).map (gaussRaw exp ofInt sigma)).sum

end Gauss

section Blur
variable {α : Type} [Add α] [Mul α] [Zero α]

/-- weight of a 3-D offset of the separable kernel with 1-D weights `w1` -/
def w3 (w1 : Int → α) (q : Int × Int × Int) : α := w1 q.1 * w1 q.2.1 * w1 q.2.2

/-- the mask value the filter reads at offset `q` from voxel `(i,j,k)` -/
def seen (nx ny nz : Nat) (x : Int → Int → Int → α) (i j k : Int) (q : Int × Int × Int) : α :=
  x (clampIdx nx (i + q.1)) (clampIdx ny (j + q.2.1)) (clampIdx nz (k + q.2.2))

/-- one voxel of the blurred mask -/
def blurAt (nx ny nz R : Nat) (w1 : Int → α) (x : Int → Int → Int → α) (i j k : Int) : α :=
  ((cube R).map fun q => w3 w1 q * seen nx ny nz x i j k q).sum

end Blur

/-! ### `parse_shape_string`: the five patterns `^label(\d+)label(\d+)…$`, tried in the order of the
source's dictionary.  Strings are lists of characters; `Gen.C13.shapeLabels` is compiled from the
regular expressions found in the source (the literal pieces between the `(\d+)` groups). -/

/-- value of a run of decimal digits (`int(...)`) -/
def valDigits (ds : List Char) : Nat := ds.foldl (fun a c => 10 * a + (c.toNat - 48)) 0

def stripPrefix : List Char → List Char → Option (List Char)
  | [], s => some s
  | _ :: _, [] => none
  | p :: ps, c :: cs => if p = c then stripPrefix ps cs else none

/-- `label(\d+)` for every label, then the end of the string -/
def parseFields : List (List Char) → List Char → Option (List Nat)
  | [], s => if s.isEmpty then some [] else none
  | l :: ls, s =>
    match stripPrefix l s with
    | none => none
    | some rest =>
      if (rest.takeWhile Char.isDigit).isEmpty then none else
      match parseFields ls (rest.dropWhile Char.isDigit) with
      | none => none
      | some ns => some (valDigits (rest.takeWhile Char.isDigit) :: ns)

def kindOfName (s : String) : Option Kind :=
  if s = "sphere" then some .sphere else if s = "cylinder" then some .cylinder else if s = "s_shell" then some .sshell
  else if s = "ellipsoid" then some .ellipsoid else if s = "e_shell" then some .eshell else none

/-- first pattern of the table that matches -/
def parseWith (table : List (String × List (List Char))) (s : List Char) : Option (Kind × List Nat) :=
  table.findSome? fun e =>
    match kindOfName e.1, parseFields e.2 s with
    | some k, some ns => some (k, ns)
    | _, _ => none

/-- `parse_shape_string`; Python's `$` also matches before one trailing newline -/
def parseShape (s : List Char) : Option (Kind × List Nat) :=
  parseWith Gen.C13.shapeLabels (if s.getLast? = some '\n' then s.dropLast else s)

/-- the name a caller writes for a shape: labels interleaved with `str(n)` -/
def formatFields : List (List Char) → List Nat → List Char
  | l :: ls, n :: ns => l ++ Nat.toDigits 10 n ++ formatFields ls ns
  | _, _ => []

def labelsOf (table : List (String × List (List Char))) (k : Kind) : Option (List (List Char)) :=
  (table.find? fun e => kindOfName e.1 == some k).map (·.2)

def formatShape (k : Kind) (specs : List Nat) : Option (List Char) :=
  (labelsOf Gen.C13.shapeLabels k).map fun ls => formatFields ls specs

end CryoCat.C13
