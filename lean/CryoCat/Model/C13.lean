import CryoCat.Gen.C13
/-! C13 — model of the analytic masks and the voxel-wise mask algebra of `cryocat/cryomask.py`.
Mathlib-free and executable: the driver runs exactly these definitions (`Rat`/`Int` for the shapes,
`Float` for the algebra); `Props/C13.lean` proves the property about them.

Conventions. A mask of a box `nx × ny × nz` is the C-order list of its voxels (`render`): voxel
`(i,j,k)` sits at flat index `(i*ny + j)*nz + k`, like `numpy.ndarray.ravel()`.  Coordinates are
`Int`, radii `Rat` (shell radii are half-integers, Gaussian widths dyadic), so every comparison the
code makes in floating point on these inputs is made exactly here. -/
namespace CryoCat.C13

/-! ### arrays -/

/-- C-order flattening of a function on the box -/
def render {β : Type} (nx ny nz : Nat) (f : Nat → Nat → Nat → β) : List β :=
  (List.range nx).flatMap fun i => (List.range ny).flatMap fun j => (List.range nz).map fun k => f i j k

/-! ### parameters -/

/-- `blur_factor` of `preprocess_params`, re-extracted from the source -/
def blurFactor : Rat := mkRat Gen.C13.blurFactorNum Gen.C13.blurFactorDen

/-- `preprocess_params(radius, gaussian, gaussian_outwards)`:
`np.ceil(radius + gaussian * blur_factor).astype(int)` when blurred outwards, else unchanged -/
def preprocess (r g : Rat) (outwards : Bool) : Rat :=
  if g ≠ 0 ∧ outwards = true then (((r + g * blurFactor).ceil : Int) : Rat) else r

/-- `np.asarray(v).astype(int)` of `get_correct_format`: truncation toward zero -/
def trunc (q : Rat) : Int := if 0 ≤ q then q.floor else q.ceil

def sq (x : Int) : Int := x * x

/-- the float test `np.sqrt(d2) > r` for an integer `d2 ≥ 0`, decided without a square root
(`Lemmas/C13.lean`: equivalent to `Real.sqrt d2 > r`) -/
def sqrtGt (d2 : Int) (r : Rat) : Bool := decide (r < 0) || decide (r * r < (d2 : Rat))

/-! ### solids -/

/-- `spherical_mask` before the blur: `mask[mask > radius] = 0; mask[mask > 0] = 1; mask[centre] = 1` -/
def sphereIn (cx cy cz : Int) (r : Rat) (i j k : Int) : Bool :=
  (i == cx && j == cy && k == cz) || !(sqrtGt (sq (i - cx) + sq (j - cy) + sq (k - cz)) r)

/-- the `mask_xy` disc of `cylindrical_mask` -/
def discIn (cx cy : Int) (r : Rat) (i j : Int) : Bool :=
  (i == cx && j == cy) || !(sqrtGt (sq (i - cx) + sq (j - cy)) r)

/-- `cylindrical_mask` before the blur; `h` is the half height (`height // 2`, after `preprocess`),
the slab `z_start = max(cz-h, 0) … z_end = min(cz+h+1, nz)` is clipped to the box -/
def cylIn (nz : Nat) (cx cy cz : Int) (r : Rat) (h : Int) (i j k : Int) : Bool :=
  discIn cx cy r i j && decide (max (cz - h) 0 ≤ k) && decide (k < min (cz + h + 1) (nz : Int))

/-- the coordinate `ellipsoid_mask` uses for array index `i` on an axis of length `n` with centre `c`:
`linspace(1,n,n) - floor(n/2)` read at the *reversed* point index `n-1-i` (`points[:, ::-1]`), minus
`grid_center = 0.5*n - c` -/
def ellCoord (n : Nat) (c : Int) (i : Int) : Rat :=
  ((((n : Int) - i - (n : Int) / 2 : Int)) : Rat) - ((n : Rat) / 2 - (c : Rat))

/-- `ellipsoid_mask` before the blur: `sum((points - grid_center)**2 / radii**2) <= 1`, rows summed in
the order z, y, x; a zero radius gives `inf`/`nan` in numpy, hence an empty mask -/
def ellipsoidIn (nx ny nz : Nat) (cx cy cz : Int) (rx ry rz : Int) (i j k : Int) : Bool :=
  if rx = 0 ∨ ry = 0 ∨ rz = 0 then false else
  decide (ellCoord nz cz k * ellCoord nz cz k / ((rz : Rat) * (rz : Rat))
        + ellCoord ny cy j * ellCoord ny cy j / ((ry : Rat) * (ry : Rat))
        + ellCoord nx cx i * ellCoord nx cx i / ((rx : Rat) * (rx : Rat)) ≤ 1)

def b2i (b : Bool) : Int := if b then 1 else 0

/-! ### the public functions (hard-edged part; the Gaussian blur is applied to these by the library) -/

inductive Kind where
  | sphere | cylinder | ellipsoid | sshell | eshell
deriving Repr, DecidableEq

/-- one call of a mask constructor; `none` = argument left at its default -/
structure Req where
  kind : Kind
  nx : Nat
  ny : Nat
  nz : Nat
  center : Option (Int × Int × Int) := none
  radius : Option Rat := none            -- sphere, cylinder, spherical shell
  height : Option Int := none            -- cylinder
  radii : Option (Rat × Rat × Rat) := none  -- ellipsoid, ellipsoid shell
  thick : Rat := 0                       -- shells
  gauss : Rat := 0
  outwards : Bool := true
deriving Repr

/-- `get_correct_format(center, reference_size=mask_size)` -/
def Req.centre (q : Req) : Int × Int × Int :=
  q.center.getD ((q.nx : Int) / 2, (q.ny : Int) / 2, (q.nz : Int) / 2)

def inBox (n : Nat) (c : Int) : Bool := decide (0 ≤ c) && decide (c < (n : Int))

/-- radius actually drawn by `spherical_mask` -/
def Req.sphereRadius (q : Req) : Rat :=
  preprocess (q.radius.getD (((min (min q.nx q.ny) q.nz : Nat) / 2 : Nat) : Rat)) q.gauss q.outwards

def Req.cylRadius (q : Req) : Rat :=
  preprocess (q.radius.getD (((min q.nx q.ny : Nat) / 2 : Nat) : Rat)) q.gauss q.outwards

/-- half height actually drawn by `cylindrical_mask`: `height // 2`, then `preprocess_params` -/
def Req.cylHalf (q : Req) : Int :=
  trunc (preprocess ((((q.height.getD (q.nz : Int)) / 2 : Int)) : Rat) q.gauss q.outwards)

/-- `get_correct_format(radii, reference_size=mask_shape)` -/
def Req.radiiInt (q : Req) : Int × Int × Int :=
  match q.radii with
  | some (a, b, c) => (trunc a, trunc b, trunc c)
  | none => ((q.nx : Int) / 2, (q.ny : Int) / 2, (q.nz : Int) / 2)

/-- radii actually drawn by `ellipsoid_mask` called with (already formatted) radii `r` -/
def ellRadii (r : Rat × Rat × Rat) (g : Rat) (outwards : Bool) : Int × Int × Int :=
  (trunc (preprocess (trunc r.1 : Rat) g outwards), trunc (preprocess (trunc r.2.1 : Rat) g outwards),
   trunc (preprocess (trunc r.2.2 : Rat) g outwards))

/-- voxel value before the blur; shells of spheres are float differences (−1 is possible for a
negative thickness), everything else is 0/1.  `none`: the real code raises (`IndexError`, centre
voxel outside the box) -/
def voxel (q : Req) : Option (Int → Int → Int → Int) :=
  let (cx, cy, cz) := q.centre
  match q.kind with
  | .sphere =>
    if inBox q.nx cx && inBox q.ny cy && inBox q.nz cz then
      some fun i j k => b2i (sphereIn cx cy cz q.sphereRadius i j k)
    else none
  | .cylinder =>
    if inBox q.nx cx && inBox q.ny cy then
      some fun i j k => b2i (cylIn q.nz cx cy cz q.cylRadius q.cylHalf i j k)
    else none
  | .ellipsoid =>
    let (a, b, c) := q.radiiInt
    let (rx, ry, rz) := ellRadii ((a : Rat), (b : Rat), (c : Rat)) q.gauss q.outwards
    some fun i j k => b2i (ellipsoidIn q.nx q.ny q.nz cx cy cz rx ry rz i j k)
  | .sshell =>
    if inBox q.nx cx && inBox q.ny cy && inBox q.nz cz then
      let r : Rat := q.radius.getD (((min (min q.nx q.ny) q.nz : Nat) / 2 : Nat) : Rat)
      let t := q.thick / 2
      some fun i j k => b2i (sphereIn cx cy cz (r + t) i j k) - b2i (sphereIn cx cy cz (r - t) i j k)
    else none
  | .eshell =>
    let (a, b, c) := q.radiiInt
    let t := q.thick / 2
    let (ox, oy, oz) := ellRadii ((a : Rat) + t, (b : Rat) + t, (c : Rat) + t) 0 true
    let (ix, iy, iz) := ellRadii ((a : Rat) - t, (b : Rat) - t, (c : Rat) - t) 0 true
    some fun i j k => b2i (ellipsoidIn q.nx q.ny q.nz cx cy cz ox oy oz i j k
                            && !(ellipsoidIn q.nx q.ny q.nz cx cy cz ix iy iz i j k))

/-- the array returned for `gaussian = 0` (and the array handed to the Gaussian filter otherwise) -/
def hardMask (q : Req) : Option (List Int) :=
  (voxel q).map fun f => render q.nx q.ny q.nz fun i j k => f i j k

/-- voxels exactly on an ellipsoid surface (rational sum = 1): excluded as ties by the property -/
def ellipsoidTie (nx ny nz : Nat) (cx cy cz : Int) (rx ry rz : Int) (i j k : Int) : Bool :=
  if rx = 0 ∨ ry = 0 ∨ rz = 0 then false else
  decide (ellCoord nz cz k * ellCoord nz cz k / ((rz : Rat) * (rz : Rat))
        + ellCoord ny cy j * ellCoord ny cy j / ((ry : Rat) * (ry : Rat))
        + ellCoord nx cx i * ellCoord nx cx i / ((rx : Rat) * (rx : Rat)) = 1)

/-! ### `generate_mask` -/

/-- `mask_size = 2*max(specs) + mask_expansion; mask_size = ceil(mask_size/2)*2` when no size is given -/
def genSize (specs : List Nat) (maskSize : Option Nat) (expansion : Nat) : Nat :=
  match maskSize with
  | some s => s
  | none => ((2 * specs.foldl max 0 + expansion + 1) / 2) * 2

/-- the constructor call `generate_mask` makes for a parsed shape string; `none`: wrong number of specs -/
def generate (kind : Kind) (specs : List Nat) (maskSize : Option Nat) (expansion : Nat) : Option Req :=
  let s := genSize specs maskSize expansion
  match kind, specs with
  | .sphere, [r] => some { kind := .sphere, nx := s, ny := s, nz := s, radius := some (r : Rat) }
  | .cylinder, [r, h] => some { kind := .cylinder, nx := s, ny := s, nz := s, radius := some (r : Rat), height := some (h : Int) }
  | .sshell, [r, t] =>
    let s' := ((s + t + 1) / 2) * 2
    some { kind := .sshell, nx := s', ny := s', nz := s', radius := some (r : Rat), thick := (t : Rat) }
  | .ellipsoid, [a, b, c] => some { kind := .ellipsoid, nx := s, ny := s, nz := s, radii := some ((a : Rat), (b : Rat), (c : Rat)) }
  | .eshell, [a, b, c, t] =>
    some { kind := .eshell, nx := s, ny := s, nz := s, radii := some ((a : Rat), (b : Rat), (c : Rat)), thick := (t : Rat) }
  | _, _ => none

/-! ### voxel-wise algebra (polymorphic: `Float` in the driver, ordered fields in the proofs) -/

section Algebra
variable {α : Type} [Add α] [Mul α] [Sub α] [Zero α] [One α] [Max α] [Min α]

/-- `np.clip(x, 0.0, 1.0)` = `minimum(maximum(x, 0), 1)` -/
def clip01 (x : α) : α := min (max x 0) 1

/-- one voxel of `union`: `zeros += m₁ += m₂ …`, clipped -/
def unionVox (vals : List α) : α := clip01 (vals.foldl (· + ·) 0)
/-- one voxel of `intersection`: `ones *= m₁ *= m₂ …`, clipped -/
def interVox (vals : List α) : α := clip01 (vals.foldl (· * ·) 1)
/-- one voxel of `subtraction`: `m₀ -= m₁ -= m₂ …`, clipped -/
def subVox (v0 : α) (rest : List α) : α := clip01 (rest.foldl (· - ·) v0)
/-- one voxel of `difference`: `clip(union - intersection)` -/
def diffVox (vals : List α) : α := clip01 (unionVox vals - interVox vals)

/-- the in-place accumulation loop over whole (flattened) arrays -/
def accumulate (op : α → α → α) (init : List α) (ms : List (List α)) : List α :=
  ms.foldl (fun acc m => List.zipWith op acc m) init

def sameShape (ms : List (List α)) : Bool := ms.all fun m => m.length == (ms.headD []).length

/-- `cryomask.union(mask_list)`; `none`: empty list (`mask_list[0]` raises) or shapes differ -/
def union (ms : List (List α)) : Option (List α) :=
  if ms.isEmpty || !sameShape ms then none else
  some ((accumulate (· + ·) (List.replicate (ms.headD []).length 0) ms).map clip01)

def intersection (ms : List (List α)) : Option (List α) :=
  if ms.isEmpty || !sameShape ms then none else
  some ((accumulate (· * ·) (List.replicate (ms.headD []).length 1) ms).map clip01)

def subtraction (ms : List (List α)) : Option (List α) :=
  match ms with
  | [] => none
  | m0 :: rest => if !sameShape (m0 :: rest) then none else some ((accumulate (· - ·) m0 rest).map clip01)

def difference (ms : List (List α)) : Option (List α) :=
  match union ms, intersection ms with
  | some u, some n => some ((List.zipWith (· - ·) u n).map clip01)
  | _, _ => none

end Algebra

end CryoCat.C13
