import CryoCat.Model.C08_Check
/-! C08 — the EXECUTED PROVED INSTANCE of the verified checkers.

The checker theorems of `Props/C08.lean` (`check_*_sound/_complete`, `check_step_iff`, `check_run_iff`,
`check_history_rows`) hold for every ordered commutative ring with a lawful cell comparison.  IEEE doubles are not
one (NaN, ±0).  So before checking, the driver DECODES every cell into a `Cell`:

* a finite double becomes the rational number it denotes (exactly; every double is a dyadic rational, `-0` is `0`);
* a missing value (NaN) becomes the constant `missing`.

`Cell` is coded inside `Rat`: a number is itself, `missing` is `1/3` — a rational that is NOT dyadic, hence
different from the image of every double (±∞, never produced by the lists of the statement, get `±1/5`).  On `Rat`
equality is lawful (`missing = missing`: the same cell), the order is linear and the arithmetic is a ring, so the
checkers run at `Rat` ARE an instance the theorems are about (`Props/C08.lean`, section `executed`).
The coding of `missing` is meaningful for cell identity only; the driver therefore uses the `Rat` verdict for a step
only when `keysPresent` holds: no missing and no infinite cell in any field the step reads with `==`, `<` or `+` (the statement's
"matching", "best-scoring", "numbers").  Steps with a missing key are judged by the missing-value-aware `Float`
checkers (`stepClausesM`), which no theorem covers.  Mathlib-free. -/
namespace CryoCat.C08
open CryoCat

abbrev Cell := Rat

/-- the code of a missing value: not a dyadic rational, so not the image of any double -/
def missingQ : Cell := (1 : Rat) / 3

def pow2 (k : Nat) : Rat := ((2 ^ k : Nat) : Rat)

/-- the number an IEEE-754 binary64 bit pattern denotes, exactly (pure `Nat` arithmetic on the pattern: sign,
11 exponent bits, 52 mantissa bits); NaN ↦ `missingQ`, ±∞ ↦ ±1/5 -/
def decodeBits (b : Nat) : Cell :=
  let neg := (b / 2 ^ 63) % 2 == 1
  let e := (b / 2 ^ 52) % 2048
  let m := b % 2 ^ 52
  if e == 2047 then
    if m == 0 then (if neg then -((1 : Rat) / 5) else (1 : Rat) / 5) else missingQ
  else
    let mag : Rat :=
      if e == 0 then ((m : Nat) : Rat) / pow2 1074
      else if 1075 ≤ e then (((2 ^ 52 + m) * 2 ^ (e - 1075) : Nat) : Rat)
      else ((2 ^ 52 + m : Nat) : Rat) / pow2 (1075 - e)
    if neg then -mag else mag

def eqvQ (a b : Cell) : Bool := a == b
/-- `fillna(0.0)` on decoded cells -/
def fillQ (v : Cell) : Cell := if v == missingQ then 0 else v
def natQ (n : Nat) : Cell := (n : Rat)

def stepClausesQ (op : Op Cell) (l : Motl Cell) (o : Obs Cell) : List (String × Bool) := stepClauses eqvQ fillQ natQ op l o
def checkStepQ (op : Op Cell) (l : Motl Cell) (o : Obs Cell) : Bool := checkStep eqvQ fillQ natQ op l o
def checkRunQ (steps : List (Op Cell × Obs Cell)) (l : Motl Cell) : Bool := checkRun eqvQ fillQ natQ steps l

/-! ### the guard: no missing cell in a key role -/

/-- the codes of `+∞` / `-∞` (`decodeBits`): like `missingQ` not dyadic, so not the image of a finite double -/
def posInfQ : Cell := (1 : Rat) / 5
def negInfQ : Cell := -((1 : Rat) / 5)

/-- the cell is a NUMBER: neither missing nor infinite.  An infinite key is ordered and compared by IEEE rules the
coding `±1/5` does not follow (`+∞` is the largest score, `1/5` is not), so such a step is left to the `Float`
checkers exactly like a step with a missing key. -/
def isNumber (v : Cell) : Bool := !(v == missingQ) && !(v == posInfQ) && !(v == negInfQ)

def colPresent (f : Field) (l : Motl Cell) : Bool := l.all (fun p => isNumber (p.get f))
def colsPresent (fs : List Field) (ls : List (Motl Cell)) : Bool := ls.all (fun l => fs.all (fun f => colPresent f l))
def valsPresent (vs : List Cell) : Bool := vs.all isNumber

/-- the fields an operation reads with `==` / `<` / `+`, the scalar arguments it compares, and every table
those fields are read from (current table, observed output, parts, operand lists, offset certificates) -/
def keysPresent : Op Cell → Motl Cell → Obs Cell → Bool
  | .subset f vs, l, o => colsPresent [f] [l, o.out] && valsPresent vs
  | .remove f vs, l, o => colsPresent [f] [l, o.out] && valsPresent vs
  | .splitPick f _, l, o => colsPresent [f] ([l, o.out] ++ o.parts)
  | .intersect f other, l, o => colsPresent [f] [l, o.out, other]
  | .dropDup dup dec _, l, o => colsPresent [dup, dec] [l, o.out]
  | .mergeRenumber b a _, l, o =>
    colsPresent [.object_id, .subtomo_id] ([l, o.out] ++ b.map (·.2) ++ a.map (·.2))
  | .mergeDropDup b a _, l, o =>
    colsPresent [.object_id, .subtomo_id, .score] ([l, o.out] ++ b.map (·.2) ++ a.map (·.2)) && o.hints.all valsPresent
  | .renumberParticles, l, o => colsPresent [.subtomo_id] [l, o.out]
  | .renumberObjects start, l, o => colsPresent [.tomo_id, .object_id] [l, o.out] && valsPresent [start]

end CryoCat.C08
