/-! C12 — model of `cryomap.lowpass / highpass / bandpass`, `get_filter_radius`, `resolution2pixels`
and of `cryomask.spherical_mask(gaussian_outwards=False)` used as transfer function. Mathlib-free,
polymorphic in the number type `α` (driver: `Float`; theorems: any linearly ordered field).

The model does NOT import `Gen/C12` (the regenerated anchor strings): every value it computes with is written here by hand —
the one that used to come from the translator, `sphereStrict`, is tied to the source by `Props/C12.sphere_documented`
(`Gen.C12.sphereOutsideStrict = sphereStrict`). A broken documentation anchor therefore rebuilds `Props/C12` only, not the
model, its lemma files and the driver.

A volume is a function of three integer grid indices (`Vol`); the executable pipeline materialises every
stage as nested arrays (`Grid`) — `Props/C12` proves that the arrays hold exactly the values of the
pure functions. External numeric services are parameters: the exponential of the Gaussian kernel
(`expf`), the Fourier transform pair of `filt` (`F`, `Finv`) and the real part (`re`). -/
namespace CryoCat.C12

structure Dims where
  nx : Nat
  ny : Nat
  nz : Nat
deriving Repr, DecidableEq

abbrev Vol (α : Type) := Int → Int → Int → α
abbrev Grid (α : Type) := Array (Array (Array α))

variable {α : Type}

/-! ### index maps -/

/-- `get_correct_format(None, reference_size=box)`: `box_size // 2` per axis -/
def centre (n : Nat) : Int := ((n / 2 : Nat) : Int)

/-- `fft.ifftshift(m)[j] = m[(j + n//2) % n]` (periodic in `j`) -/
def shiftIdx (n : Nat) (j : Int) : Int := (j + centre n) % (n : Int)

/-- the signed integer frequency the mask voxel used for DFT bin `j` stands for: its offset from the
mask centre. `Props/C12.freq_spec`: `freq n j ≡ j (mod n)` and `-(n/2) ≤ freq n j < n - n/2`. -/
def freq (n : Nat) (j : Int) : Int := shiftIdx n j - centre n

/-- squared integer frequency radius of DFT bin `(j,k,l)` — the ONE definition the theorems (`Props/C12`), the driver's
per-bin flags (`Drv/C12.flagsOf`) and the margin hypotheses share -/
def freqRadius2 (d : Dims) (j k l : Int) : Int :=
  freq d.nx j * freq d.nx j + freq d.ny k * freq d.ny k + freq d.nz l * freq d.nz l

/-- DFT bin of the opposite frequency, `(-j) mod n` -/
def negIdx (n : Nat) (j : Int) : Int := (-j) % (n : Int)

/-- `np.roll`-free reading of `ifftshift` on a volume -/
def shiftVol (d : Dims) (m : Vol α) : Vol α :=
  fun j k l => m (shiftIdx d.nx j) (shiftIdx d.ny k) (shiftIdx d.nz l)

/-! ### the hard sphere (`spherical_mask` before `postprocess`) -/

/-- squared distance of a grid voxel from the mask centre -/
def dist2 (d : Dims) (x y z : Int) : Int :=
  (x - centre d.nx) * (x - centre d.nx) + (y - centre d.ny) * (y - centre d.ny) + (z - centre d.nz) * (z - centre d.nz)

/-- `mask[mask > radius] = 0`: the comparison is STRICT (documented value; `Props/C12.sphere_documented` proves that the
regenerated anchor `Gen.C12.sphereOutsideStrict` still says so) -/
def sphereStrict : Bool := true

/-- `sqrt(q) > radius` (`>=` were `sphereStrict` false) for an integer squared distance `q ≥ 0` -/
def outside (q r : Int) : Bool :=
  if r < 0 then true
  else if sphereStrict then decide (r * r < q) else decide (r * r ≤ q)

/-- `mask = sqrt(d2); mask[mask > radius] = 0; mask[mask > 0] = 1; mask[centre] = 1` -/
def inBall (d : Dims) (r : Int) (x y z : Int) : Bool :=
  (decide (x = centre d.nx) && decide (y = centre d.ny) && decide (z = centre d.nz))
    || (decide (0 < dist2 d x y z) && !(outside (dist2 d x y z) r))

def sphere [OfNat α 0] [OfNat α 1] (d : Dims) (r : Int) : Vol α :=
  fun x y z => if inBall d r x y z then 1 else 0

/-! ### the Gaussian edge (`add_gaussian` → `skimage.filters.gaussian`, mode `nearest`) -/

/-- `mode='nearest'`: indices beyond the box read the edge voxel -/
def clampI (n : Nat) (i : Int) : Int := if i < 0 then 0 else if (n : Int) ≤ i then (n : Int) - 1 else i

/-- weighted sum `Σ w_q · g(q)` over a kernel given as (offset, weight) pairs -/
def wsum [Add α] [Mul α] [OfNat α 0] : List (Int × α) → (Int → α) → α
  | [], _ => 0
  | (q, w) :: ks, g => w * g q + wsum ks g

/-- total weight of a kernel -/
def ksum [Add α] [OfNat α 0] : List (Int × α) → α
  | [] => 0
  | (_, w) :: ks => w + ksum ks

section blur
variable [Add α] [Mul α] [OfNat α 0]

def blurX (ker : List (Int × α)) (d : Dims) (f : Vol α) : Vol α :=
  fun x y z => wsum ker (fun q => f (clampI d.nx (x + q)) y z)
def blurY (ker : List (Int × α)) (d : Dims) (f : Vol α) : Vol α :=
  fun x y z => wsum ker (fun q => f x (clampI d.ny (y + q)) z)
def blurZ (ker : List (Int × α)) (d : Dims) (f : Vol α) : Vol α :=
  fun x y z => wsum ker (fun q => f x y (clampI d.nz (z + q)))

/-- separable blur, axes in the order scipy processes them (0, 1, 2) -/
def blur3Fn (ker : List (Int × α)) (d : Dims) (f : Vol α) : Vol α := blurZ ker d (blurY ker d (blurX ker d f))
end blur

/-- weight a separable 3-D kernel carries at offsets `(qx,qy,qz)` of squared Euclidean length `> m`
(summed in the nesting order of `blur3Fn`: z outermost, x innermost). `Props/C12.soft_gain_inside/outside`:
this is the exact bound on `1 − gain` inside and on `gain` outside the cutoff; the driver evaluates it
and hands it to the harness as the tolerance of the soft-edge margin clauses. -/
def tail3 [Add α] [Mul α] [OfNat α 0] [OfNat α 1] (ker : List (Int × α)) (m : Int) : α :=
  wsum ker (fun qz => wsum ker (fun qy => wsum ker (fun qx =>
    if m < qx * qx + qy * qy + qz * qz then 1 else 0)))

/-- `√A + √m ≤ r` decided on integers: a frequency of squared radius `≤ A` stays inside the cutoff `r`
under every offset of squared length `≤ m` (hypotheses of `Props/C12.soft_gain_inside`) -/
def fitsInside (A m r : Int) : Bool :=
  decide (A + m ≤ r * r) && decide (4 * (A * m) ≤ (r * r - A - m) * (r * r - A - m))

/-- `√A > r + √m` decided on integers (hypotheses of `Props/C12.soft_gain_outside`) -/
def fitsOutside (A m r : Int) : Bool :=
  decide (r * r + m < A) && decide (4 * (r * r * m) < (A - r * r - m) * (A - r * r - m))

/-- the ball of radius `r` stays off both faces of the mask box along an axis of length `n` — the two face
hypotheses of `Props/C12.soft_gain_mono_axis_*` together (`r < ⌊n/2⌋` and `⌊n/2⌋ + r + 1 < n`). The driver
reports this per axis; the harness judges "non-increasing" as a clause of the statement only along steps whose
moving axes all have it (`Props/C12.soft_monotone_checked`). -/
def monoAxisOk (n : Nat) (r : Int) : Bool := decide (r < centre n) && decide (centre n + r + 1 < (n : Int))

/-- weight a kernel puts on offset `s` -/
def wt [Add α] [Mul α] [OfNat α 0] [OfNat α 1] (ker : List (Int × α)) (s : Int) : α :=
  wsum ker (fun q => if q = s then 1 else 0)

/-- the most ONE step of one index towards the UPPER face of the mask box can raise the blurred ball
(`Props/C12.soft_gain_step_bound`; half of it for the effective gain, `soft_eff_gain_step_bound`): nothing if the ball stays
off that face (`⌊n/2⌋ + r + 1 < n`) or the axis is odd (a row of the ball that reaches the upper face then reaches the lower
one too, and `mode='nearest'` makes the blurred row constant); on an even axis the kernel weight at offset `n/2` — which is 0
as soon as the kernel's support is shorter than `n/2` (`face_rise_zero_short_kernel`). Steps towards the lower face never
raise it. The driver reports this number per axis (`face_rise`); the harness allows exactly that much on such steps. -/
def faceRise [Add α] [Mul α] [OfNat α 0] [OfNat α 1] (ker : List (Int × α)) (n : Nat) (r : Int) : α :=
  if centre n + r + 1 < (n : Int) ∨ n % 2 = 1 then 0 else wt ker (centre n)

/-- offsets `-t … t` -/
def offsets (t : Nat) : List Int := (List.range (2 * t + 1)).map (fun (i : Nat) => (i : Int) - (t : Int))

/-- `scipy.ndimage._gaussian_kernel1d(sigma, 0, t)`: `exp(-0.5 / sigma² · q²)` normalised to unit sum.
`ofI` is the integer cast of the number type, `expf` the exponential (a parameter). -/
def gaussKernel [Add α] [Mul α] [Div α] [Neg α] [OfNat α 0] [OfNat α 1] [OfNat α 2]
    (expf : α → α) (ofI : Int → α) (sigma : α) (t : Nat) : List (Int × α) :=
  let c : α := (-(1 / 2)) / (sigma * sigma)
  let raw : List (Int × α) := (offsets t).map (fun q => (q, expf (c * (ofI q * ofI q))))
  let s : α := ksum raw
  raw.map (fun p => (p.1, p.2 / s))

/-- `add_gaussian`: `sigma == 0` returns the mask unchanged, otherwise blur with truncation radius
`trunc sigma` (`int(4·sigma + 0.5)` in scipy; a parameter of the model) -/
def kernelFor [BEq α] [Add α] [Mul α] [Div α] [Neg α] [OfNat α 0] [OfNat α 1] [OfNat α 2]
    (expf : α → α) (ofI : Int → α) (trunc : α → Nat) (sigma : α) : Option (List (Int × α)) :=
  if sigma == 0 then none else some (gaussKernel expf ofI sigma (trunc sigma))

/-! ### masks and gains as pure functions (what the theorems speak about) -/
section fn
variable [Add α] [Mul α] [Sub α] [OfNat α 0] [OfNat α 1]

/-- `spherical_mask(shape, r, gaussian, gaussian_outwards=False)` -/
def lowMaskFn (ker : Option (List (Int × α))) (d : Dims) (r : Int) : Vol α :=
  match ker with
  | none => sphere d r
  | some k => blur3Fn k d (sphere d r)

/-- `np.ones(shape) - spherical_mask(...)` -/
def highMaskFn (ker : Option (List (Int × α))) (d : Dims) (r : Int) : Vol α :=
  fun x y z => 1 - lowMaskFn ker d r x y z

/-- `outer_mask - inner_mask` -/
def bandMaskFn (kerLp kerHp : Option (List (Int × α))) (d : Dims) (lp hp : Int) : Vol α :=
  fun x y z => lowMaskFn kerLp d lp x y z - lowMaskFn kerHp d hp x y z

/-- gain of DFT bin `(j,k,l)`: `fft.ifftshift(mask)[j,k,l]` -/
def lowGainFn (ker : Option (List (Int × α))) (d : Dims) (r : Int) : Vol α := shiftVol d (lowMaskFn ker d r)
def highGainFn (ker : Option (List (Int × α))) (d : Dims) (r : Int) : Vol α := shiftVol d (highMaskFn ker d r)
def bandGainFn (kerLp kerHp : Option (List (Int × α))) (d : Dims) (lp hp : Int) : Vol α :=
  shiftVol d (bandMaskFn kerLp kerHp d lp hp)

/-- what `np.real` leaves of a real gain applied to the spectrum of a real map: the even part -/
def effGain [Div α] [OfNat α 2] (d : Dims) (g : Vol α) : Vol α :=
  fun j k l => (g j k l + g (negIdx d.nx j) (negIdx d.ny k) (negIdx d.nz l)) / 2
end fn

/-! ### the executable pipeline on arrays -/

def tabulate (d : Dims) (f : Vol α) : Grid α :=
  Array.ofFn (n := d.nx) fun i => Array.ofFn (n := d.ny) fun j => Array.ofFn (n := d.nz) fun k =>
    f ((i.val : Nat) : Int) ((j.val : Nat) : Int) ((k.val : Nat) : Int)

/-- read a voxel (0 outside the box; never happens in the pipeline) -/
def Grid.get [OfNat α 0] (g : Grid α) : Vol α := fun x y z =>
  if x < 0 ∨ y < 0 ∨ z < 0 then 0 else
  match g[x.toNat]? with
  | none => 0
  | some a => match a[y.toNat]? with
    | none => 0
    | some b => match b[z.toNat]? with
      | none => 0
      | some v => v

section grid
variable [Add α] [Mul α] [Sub α] [OfNat α 0] [OfNat α 1]

def blur3Grid (ker : List (Int × α)) (d : Dims) (g : Grid α) : Grid α :=
  let gx := tabulate d (blurX ker d g.get)
  let gy := tabulate d (blurY ker d gx.get)
  tabulate d (blurZ ker d gy.get)

def lowMaskGrid (ker : Option (List (Int × α))) (d : Dims) (r : Int) : Grid α :=
  match ker with
  | none => tabulate d (sphere d r)
  | some k => blur3Grid k d (tabulate d (sphere d r))

def highMaskGrid (ker : Option (List (Int × α))) (d : Dims) (r : Int) : Grid α :=
  let m := lowMaskGrid ker d r
  tabulate d (fun x y z => 1 - m.get x y z)

def bandMaskGrid (kerLp kerHp : Option (List (Int × α))) (d : Dims) (lp hp : Int) : Grid α :=
  let o := lowMaskGrid kerLp d lp
  let i := lowMaskGrid kerHp d hp
  tabulate d (fun x y z => o.get x y z - i.get x y z)

/-- `fft.ifftshift` of a materialised mask -/
def gainGrid (d : Dims) (m : Grid α) : Grid α := tabulate d (shiftVol d m.get)

def effGrid [Div α] [OfNat α 2] (d : Dims) (g : Grid α) : Grid α := tabulate d (effGain d g.get)
end grid

/-! ### the filter operator `np.real(fft.ifftn(fft.fftn(x) * gain))` -/

abbrev Idx := Int × Int × Int
def atIdx (g : Vol α) (i : Idx) : α := g i.1 i.2.1 i.2.2

/-- `F`, `Finv` (the transform pair) and `re` (the real part) are parameters; `gain` multiplies each
Fourier component. -/
def filt {C R : Type} [SMul R C] (F Finv : (Idx → C) → (Idx → C)) (re : C → C) (gain : Idx → R) (x : Idx → C) : Idx → C :=
  fun i => re (Finv (fun k => gain k • F x k) i)

section ops
variable {C : Type} [SMul α C] [Add α] [Mul α] [Sub α] [OfNat α 0] [OfNat α 1]

def lowpass (F Finv : (Idx → C) → (Idx → C)) (re : C → C) (ker : Option (List (Int × α))) (d : Dims) (r : Int) :=
  filt F Finv re (atIdx (lowGainFn ker d r))
def highpass (F Finv : (Idx → C) → (Idx → C)) (re : C → C) (ker : Option (List (Int × α))) (d : Dims) (r : Int) :=
  filt F Finv re (atIdx (highGainFn ker d r))
def bandpass (F Finv : (Idx → C) → (Idx → C)) (re : C → C) (kerLp kerHp : Option (List (Int × α))) (d : Dims) (lp hp : Int) :=
  filt F Finv re (atIdx (bandGainFn kerLp kerHp d lp hp))
end ops

/-! ### cutoff from a target resolution -/

/-- nearest integer to `n/d` (`d > 0`), ties to the even integer — Python's `round` -/
def roundHalfEven (n : Int) (d : Nat) : Int :=
  let f := n / (d : Int)
  let r := n % (d : Int)
  if 2 * r < (d : Int) then f
  else if (d : Int) < 2 * r then f + 1
  else if f % 2 = 0 then f else f + 1

def roundRat (q : Rat) : Int := roundHalfEven q.num q.den

/-- `resolution2pixels`: `round(edge_size * pixel_size / resolution)`; `rnd` is Python's `round` on the
number type -/
def res2pix [Mul α] [Div α] (rnd : α → Int) (edge px res : α) : Int := rnd (edge * px / res)

/-- `pixels2resolution`: `edge_size * pixel_size / fourier_pixels` -/
def pix2res [Mul α] [Div α] (edge px fp : α) : α := edge * px / fp

/-- `get_filter_radius`: Fourier pixels win; otherwise resolution and pixel size are both needed;
otherwise `ValueError` (`none`). -/
def getFilterRadius [Mul α] [Div α] (rnd : α → Int) (edge : α) (fp : Option Int) (res px : Option α) : Option Int :=
  match fp with
  | some p => some p
  | none =>
    match res, px with
    | some r, some s => some (res2pix rnd edge s r)
    | _, _ => none

/-- the edge handed to `get_filter_radius`: `input_map.shape[0]` -/
def edgeOf (d : Dims) : Nat := d.nx

/-- exact value `num / 2^k·…` of a finite IEEE-754 binary64 bit pattern as (numerator, denominator);
`none` for NaN and infinities -/
def fracOfBits (b : Nat) : Option (Int × Nat) :=
  let sign : Nat := b / 2 ^ 63 % 2
  let e : Nat := b / 2 ^ 52 % 2 ^ 11
  let m : Nat := b % 2 ^ 52
  if e = 2047 then none else
  let (mant, ex) : Nat × Int := if e = 0 then (m, -1074) else (m + 2 ^ 52, (e : Int) - 1075)
  let s : Int := if sign = 1 then -1 else 1
  if ex ≥ 0 then some (s * (mant * 2 ^ ex.toNat : Nat), 1) else some (s * (mant : Int), 2 ^ (-ex).toNat)

end CryoCat.C12
