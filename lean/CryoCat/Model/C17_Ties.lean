import CryoCat.Model.C17
/-! C17 — sorting a table in which several images carry the SAME tilt angle (round 5, work-list item 1).

`DataFrame.sort_values(by="TiltAngle")` uses quicksort: it promises an ascending table, NOT the order of equal keys. The
statement of C17 says "sorting by tilt … change[s] only the order": every ascending arrangement of the rows is correct. The
model's `sortByTilt` is the stable merge sort — one of the correct arrangements. To compare the implementation with the model on
tables with ties the driver is told which arrangement the implementation chose (`order`: for every row of the new table its
position in the old one); `arrangeOk` is the VERIFIED CHECKER that decides whether that arrangement is a permutation of the rows
that is ascending in the key, and `sortByTiltAs` then continues from it. Lemmas/C17_Ties.lean proves that the checker is sound
and complete, that every accepted arrangement agrees with the stable sort on the key sequence and inside every tie group up to
permutation, and that without ties it IS the stable sort (`sorted_perm_unique_up_to_ties`). Mathlib-free, executable. -/
namespace CryoCat.C17

/-- the rows at the given positions, in that order (a position out of range is skipped; `arrangeOk` excludes that) -/
def pick {α : Type} (rows : List α) (order : List Nat) : List α := order.filterMap (fun i => rows[i]?)

/-- the comparison `sortRowsBy` sorts with -/
def keyLe {α : Type} (key : α → Rat) (asc : Bool) (a b : α) : Bool :=
  if asc then decide (key a ≤ key b) else decide (key b ≤ key a)

/-- **verified checker**: `order` names every position of the table exactly once and the rows taken in that order are
ascending (descending for `asc = false`) in the key -/
def arrangeOk {α : Type} (key : α → Rat) (asc : Bool) (rows : List α) (order : List Nat) : Bool :=
  order.isPerm (List.range rows.length) &&
    decide ((pick rows order).Pairwise (fun a b => keyLe key asc a b = true))

/-- what `sort_by_tilt` does after the rows are in order: `reset_z_value` (see `sortByTilt`) -/
def finishSort (reset : Bool) (m : Mdoc) (rows : List Row) : Mdoc :=
  if reset && !resetHitsSection m then resetForeign { m with rows := rows }
  else { m with rows := if reset then renumber rows else rows }

/-- `Mdoc.sort_by_tilt(reset_z_value)` when the arrangement of equal tilt angles is the one the implementation was seen to
choose: `none` when that arrangement is not an ascending permutation of the table (the implementation's sort is then wrong);
without an arrangement: the stable sort -/
def sortByTiltAs (order : Option (List Nat)) (reset : Bool) (m : Mdoc) : Option Mdoc :=
  match order with
  | none => some (sortByTilt reset m)
  | some o =>
    if arrangeOk (Row.tiltAt (m.cols.idxOf Gen.C17.sortKey)) Gen.C17.sortAscending m.rows o then
      some (finishSort reset m (pick m.rows o))
    else none

/-- does the table hold two images with the same tilt angle? -/
def hasTiltTies (m : Mdoc) : Bool :=
  let ks := m.rows.map (Row.tiltAt (m.cols.idxOf Gen.C17.sortKey))
  !(decide ks.Nodup)

/-! ### floats with more than 15 significant digits: outside the recorded assumption on Python's `repr` -/

/-- significant digits of the canonical decimal `i.f` (leading and trailing zeros do not count) -/
def sigDigits (i f : Str) : Nat :=
  let ds := dropZeros (i ++ (if f == ['0'] then [] else f))
  (dropZeros ds.reverse).length

def Val.longFloat : Val → Bool
  | .flt i f => decide (15 < sigDigits i f)
  | .tilt _ i f => decide (15 < sigDigits i f)
  | _ => false

/-- does the object hold a float whose decimal has more than 15 significant digits? The model keeps the digits of the FILE; Python keeps the
nearest double and prints its shortest representation, which need not be those digits (recorded assumption of the model: at most 15
significant digits). Such texts are a named class the model does not describe: the driver says so and the judge evaluates the statement on
the implementation alone. -/
def hasLongFloat (m : Mdoc) : Bool :=
  m.info.any (fun kv => kv.2.longFloat) || m.rows.any (fun r => r.cells.any Val.longFloat)

end CryoCat.C17
