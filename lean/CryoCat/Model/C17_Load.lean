import CryoCat.Gen.C17
import CryoCat.Model.C17_Wedge
/-! C17 — input dispatch of the loaders: `ioutils.tlt_load`, `total_dose_load`, `defocus_load`.
Each takes an array, a list / DataFrame, or a path; for a path the reader is chosen by the extension
(`tlt_load`, `total_dose_load`) or by the `file_type` argument (`defocus_load`). The dispatch tables are
re-extracted from the source (`Gen.C17.tltDispatch` …). `none` = the call raises, or the reader chosen is
outside the model (WARP xml, csv). Mathlib-free; the driver instantiates `α := Rat`. -/
namespace CryoCat.C17

variable {α : Type}

/-- `path.endswith(ext)` -/
def endsWith (path ext : List Char) : Bool := ext.reverse.isPrefixOf path.reverse

/-- the reader an `if path.endswith(e₁): … elif path.endswith(e₂): … else: …` chain selects -/
def dispatch (table : List (List Char × String)) (dflt : String) (path : List Char) : String :=
  match table.find? (fun e => endsWith path e.1) with
  | some e => e.2
  | none => dflt

/-- what a path can be read as: the `TiltAngle` column resp. the dose of an mdoc (`none` = `Mdoc(path)` raises or the
needed columns are missing) and the numbers of a one-value-per-line file (`none` = `read_csv` raises) -/
structure FileViews (α : Type) where
  mdoc : Option (List α)
  lines : Option (List α)

/-- `one_value_per_line_read`: an empty file raises -/
def oneValuePerLine (v : FileViews α) : Option (List α) := v.lines.bind (fun xs => if xs.isEmpty then none else some xs)

inductive LoadIn (α : Type) where
  | array (xs : List α)                             -- numpy.ndarray
  | list (xs : List α)                              -- Python list
  | file (path : List Char) (views : FileViews α)   -- str

/-- the values a path is read into, by the extension table -/
def readByExt (table : List (List Char × String)) (dflt : String) (path : List Char) (v : FileViews α) : Option (List α) :=
  let h := dispatch table dflt path
  if h == "mdoc.Mdoc" then v.mdoc
  else if h == "one_value_per_line_read" then oneValuePerLine v
  else none

/-- `tlt_load(input_tlt, sort_angles)`: arrays and lists are returned as given (an empty one raises); only what is
read from a file is sorted -/
def tltLoadIn (le : α → α → Bool) (sortAngles : Bool) : LoadIn α → Option (List α)
  | .array xs => if xs.isEmpty then none else some xs
  | .list xs => if xs.isEmpty then none else some xs
  | .file path v => (readByExt Gen.C17.tltDispatch Gen.C17.tltDefault path v).map (tltLoad le (sortAngles && Gen.C17.tltSortsFilesOnly))

/-- `total_dose_load(input_dose)`: arrays and lists as given; a path by extension (for an mdoc the view is `mdocDose`) -/
def doseLoadIn : LoadIn α → Option (List α)
  | .array xs => some xs
  | .list xs => some xs
  | .file path v => (readByExt Gen.C17.doseDispatch Gen.C17.doseDefault path v).map doseLoad

/-- the inputs of `defocus_load(input_data, file_type)` -/
inductive DefocusIn (α : Type) where
  | frame (rows : List (Defocus α))                 -- pandas.DataFrame: returned as is
  | file (fileType : String) (gctf : Option (List (α × α × α × Option α))) (ctffind : Option (List (α × α × α × α)))
  | array (rows : List (List α))                    -- N×5 ndarray

def asciiLower (s : String) : String := String.ofList (s.toList.map Char.toLower)

/-- the reader `defocus_load` picks for a `file_type` (compared after `.lower()`); `none` = ValueError -/
def defocusReader (fileType : String) : Option String :=
  Gen.C17.defocusDispatch.lookup (if Gen.C17.defocusLowers then asciiLower fileType else fileType)

def defocusLoadIn [Add α] [Mul α] [Div α] [OfNat α 0] (fG fC divisor : α) : DefocusIn α → Option (List (Defocus α))
  | .frame rows => some rows
  | .file ft g c =>
    match defocusReader ft with
    | some r =>
      if r == "gctf_read" then g.map (gctfRead fG divisor)
      else if r == "ctffind4_read" then c.map (ctffindRead fC divisor)
      else none
    | none => none
  | .array rows =>
    rows.mapM (fun r => match r with
      | [a, b, c, d, e] => some { defocus1 := a, defocus2 := b, astigmatism := c, phaseShift := d, defocusMean := e }
      | _ => none)

end CryoCat.C17
