/-! C16 — the Fourier services of the model of `dose_filter_single_image`: complex pairs, spectra, `fft2` / `ifft2(·).real`
as an abstract structure, and the Hermitian partner index.  Mathlib-free and independent of the regenerated constants
(`Gen/C16`), so that concrete DFT instances (`Lemmas/C16_Dft23`) are not rebuilt when the source changes. -/
namespace CryoCat.C16

variable {α : Type}

/-- index of the complex-conjugate partner of DFT index `k`: `(-k) mod n` -/
def negIdx (n k : Nat) : Nat := (n - k) % n
def negFin {n : Nat} (k : Fin n) : Fin n := ⟨negIdx n k.val, Nat.mod_lt _ (Nat.lt_of_le_of_lt (Nat.zero_le _) k.isLt)⟩

/-- a complex number -/
structure Cx (α : Type) where
  re : α
  im : α

/-- real multiple of a complex number -/
def Cx.smul [Mul α] (q : α) (z : Cx α) : Cx α := ⟨q * z.re, q * z.im⟩
def Cx.add [Add α] (z w : Cx α) : Cx α := ⟨z.re + w.re, z.im + w.im⟩
/-- squared modulus (power) -/
def Cx.power [Add α] [Mul α] (z : Cx α) : α := z.re * z.re + z.im * z.im

/-- 2-D spectrum of an `H × W` image, indexed `[v, u]` like `np.fft.fft2(image)` -/
abbrev Spec (α : Type) (H W : Nat) := Fin H → Fin W → Cx α

/-- `np.fft.fft2` on real images and `np.fft.ifft2(·).real` -/
structure FFT (Img : Type) (α : Type) (H W : Nat) where
  fft2 : Img → Spec α H W
  ifft2re : Spec α H W → Img

end CryoCat.C16
