import CryoCat.Model.C01
/-! C01 — the EM file as bytes (what `emfile.write` puts on disk for the array `EmMotl.write_out` hands it), a decoder
that accepts exactly well-formed float32 EM volumes, and the checker that judges a file's bytes against the property.
Mathlib-free (executed by the driver on the REAL file's bytes). -/
namespace CryoCat.C01

/-- little-endian bytes of a 32-bit word (`struct.pack('<i'/'<f')`, numpy `tobytes()` on a little-endian machine) -/
def le32 (w : UInt32) : List UInt8 :=
  [UInt8.ofNat (w.toNat % 256), UInt8.ofNat (w.toNat / 256 % 256),
   UInt8.ofNat (w.toNat / 65536 % 256), UInt8.ofNat (w.toNat / 16777216 % 256)]

def ofLe32 (a b c d : UInt8) : UInt32 :=
  UInt32.ofNat (a.toNat + 256 * b.toNat + 65536 * c.toNat + 16777216 * d.toNat)

def le64 (w : UInt64) : List UInt8 :=
  le32 (UInt32.ofNat (w.toNat % 4294967296)) ++ le32 (UInt32.ofNat (w.toNat / 4294967296))

def Stored.bytes : Stored → List UInt8
  | .f32 b => le32 b
  | .f64 b => le64 b

/-- the 512-byte EM header as `emfile.write` builds it from an empty parameter dict: machine code 6 (PC, little-endian),
two zero bytes, the data-type code, the three extents x, y, z as little-endian int32, an 80-byte comment of `'A'`,
40 zero int32 parameters and 256 bytes of `'A'` (user name, date, user data) -/
def emHeader (dtype x y z : Nat) : List UInt8 :=
  [6, 0, 0, UInt8.ofNat dtype] ++ (le32 (UInt32.ofNat x) ++ (le32 (UInt32.ofNat y) ++ (le32 (UInt32.ofNat z) ++
    (List.replicate 80 65 ++ (List.replicate 160 0 ++ List.replicate 256 65)))))

/-- the whole file: header, then the cells in the order of `data` (x fastest) -/
def encodeEm (f : EmFile Stored) : List UInt8 :=
  emHeader f.dtype f.dimX f.dimY f.dimZ ++ f.data.flatMap Stored.bytes

def EmFile.map {β γ : Type} (g : β → γ) (f : EmFile β) : EmFile γ :=
  { dtype := f.dtype, dimX := f.dimX, dimY := f.dimY, dimZ := f.dimZ, data := f.data.map g }

/-- groups of four bytes → words (tail recursive: files hold 10⁵ and more cells); a trailing partial group is dropped -/
def wordsAux : List UInt8 → List UInt32 → List UInt32
  | a :: b :: c :: d :: rest, acc => wordsAux rest (ofLe32 a b c d :: acc)
  | _, acc => acc.reverse

def words (bs : List UInt8) : List UInt32 := wordsAux bs []

/-- little-endian int32 at byte offset `i`, as a natural number (values ≥ 2³¹ are negative extents) -/
def u32At (bs : List UInt8) (i : Nat) : Nat :=
  (ofLe32 (bs.getD i 0) (bs.getD (i + 1) 0) (bs.getD (i + 2) 0) (bs.getD (i + 3) 0)).toNat

/-- **Decoder.** Accepts exactly: at least a full header, machine code 6, data-type code 5 (float32), non-negative
extents, and a payload of exactly 4·x·y·z bytes. Nothing else of the header is interpreted. -/
def decodeEm (bs : List UInt8) : Option (EmFile UInt32) :=
  if bs.length < 512 then none
  else if bs.getD 0 0 ≠ 6 then none
  else if bs.getD 3 0 ≠ 5 then none
  else
    let x := u32At bs 4
    let y := u32At bs 8
    let z := u32At bs 12
    if x ≥ 2147483648 ∨ y ≥ 2147483648 ∨ z ≥ 2147483648 then none
    else if bs.length ≠ 512 + 4 * (x * y * z) then none
    else some { dtype := 5, dimX := x, dimY := y, dimZ := z, data := words (bs.drop 512) }

/-- two float32 bit patterns denote equal numbers in the sense of the property ("equal to its single-precision
rounding"): the same bits, or both a zero (−0.0 = +0.0). NaN never equals anything but the identical pattern, and the
property's side never is NaN (missing values read back as 0). -/
def sameNum (a b : UInt32) : Bool := a == b || (a.toNat % 2147483648 == 0 && b.toNat % 2147483648 == 0)

/-- index of the first position where the two lists differ as numbers (or in length) -/
def firstDiff : List UInt32 → List UInt32 → Nat → Option Nat
  | [], [], _ => none
  | a :: as, b :: bs, i => if sameNum a b then firstDiff as bs (i + 1) else some i
  | _, _, i => some i

/-- what the property says the payload of the file is, for a table `t`: per particle, in order, the 20 fields in the
DOCUMENTED order (`Field.all`, written by hand in `Model/Particle`), each looked up BY NAME, missing → 0, rounded to
single precision -/
def specWords (o : NumOps α) (t : Table α) : List UInt32 :=
  t.rows.flatMap (fun r => Field.all.map (fun f =>
    let v := cell (o.ofInt 0) t.cols r f
    if o.isNaN v then o.bits32 (o.ofInt 0) else o.bits32 v))

inductive Verdict
  | ok
  | notEm                       -- not a well-formed float32 EM volume
  | shape (x y z : Nat)         -- well-formed, but not 1 × N × 20
  | value (i : Nat)             -- cell `i` (particle `i / 20`, field `i % 20`) is not the demanded number
deriving DecidableEq, Repr

/-- **Checker of the last clause of the property, on bytes**: the file is a valid float32 EM volume of shape
1 × N × 20 (x = 20 fastest) holding `spec` -/
def checkFile (spec : List UInt32) (n : Nat) (bs : List UInt8) : Verdict :=
  match decodeEm bs with
  | none => .notEm
  | some f =>
    if f.dimX ≠ 20 ∨ f.dimY ≠ n ∨ f.dimZ ≠ 1 then .shape f.dimX f.dimY f.dimZ
    else match firstDiff f.data spec 0 with
      | some i => .value i
      | none => .ok

end CryoCat.C01
