import CryoCat.Model.M3
import CryoCat.Gen.C06
/-! C06 — model of the rotation-geometry primitives of `cryocat/geom.py`. Mathlib-free, executable.

Everything is polymorphic in the number type: the driver runs these definitions at `Float`
(transcendental functions from libm through `Libm`), the checker at `Rat`, the theorems are about
any commutative ring / ordered field / `ℝ` (with `Real.arccos`, `Real.sqrt`).

Quaternions are scalar-last `(x, y, z, w)` like `scipy.spatial.transform.Rotation.as_quat()`. -/
namespace CryoCat.C06

structure Q4 (α : Type) where
  x : α
  y : α
  z : α
  w : α
deriving Repr, DecidableEq, Inhabited

variable {α : Type}

@[ext] theorem Q4.ext' {p q : Q4 α} (h1 : p.x = q.x) (h2 : p.y = q.y) (h3 : p.z = q.z) (h4 : p.w = q.w) : p = q := by
  cases p; cases q; simp_all

/-- the transcendental services of the platform (numpy/libm for the code, `Float.*` in the driver,
`Real.*` in the theorems): `acos`, `sqrt`, `atan2 y x`, the constant π -/
structure Libm (α : Type) where
  acos : α → α
  sqrt : α → α
  atan2 : α → α → α
  pi : α

section alg
variable [Add α] [Sub α] [Mul α] [Neg α]

/-- Hamilton product (scalar last); `qmul p q` is "first q, then p", as `p * q` of scipy Rotations -/
def qmul (p q : Q4 α) : Q4 α :=
  ⟨p.w * q.x + p.x * q.w + p.y * q.z - p.z * q.y,
   p.w * q.y - p.x * q.z + p.y * q.w + p.z * q.x,
   p.w * q.z + p.x * q.y - p.y * q.x + p.z * q.w,
   p.w * q.w - p.x * q.x - p.y * q.y - p.z * q.z⟩
instance : Mul (Q4 α) := ⟨qmul⟩
def qconj (q : Q4 α) : Q4 α := ⟨-q.x, -q.y, -q.z, q.w⟩
def qneg (q : Q4 α) : Q4 α := ⟨-q.x, -q.y, -q.z, -q.w⟩
/-- `np.sum(q1 * q2, axis=1)` -/
def qdot (p q : Q4 α) : α := p.x * q.x + p.y * q.y + p.z * q.z + p.w * q.w
def qnormSq (q : Q4 α) : α := qdot q q

/-- rotation matrix of a quaternion (homogeneous form; a rotation when `qnormSq q = 1`) -/
def toM3 (q : Q4 α) : M3 α :=
  ⟨q.w*q.w + q.x*q.x - q.y*q.y - q.z*q.z, (q.x*q.y - q.w*q.z) + (q.x*q.y - q.w*q.z), (q.x*q.z + q.w*q.y) + (q.x*q.z + q.w*q.y),
   (q.x*q.y + q.w*q.z) + (q.x*q.y + q.w*q.z), q.w*q.w - q.x*q.x + q.y*q.y - q.z*q.z, (q.y*q.z - q.w*q.x) + (q.y*q.z - q.w*q.x),
   (q.x*q.z - q.w*q.y) + (q.x*q.z - q.w*q.y), (q.y*q.z + q.w*q.x) + (q.y*q.z + q.w*q.x), q.w*q.w - q.x*q.x - q.y*q.y + q.z*q.z⟩

def M3.trace (m : M3 α) : α := m.a11 + m.a22 + m.a33
end alg

section euler
variable [OfNat α 0] [Add α] [Sub α] [Mul α] [Neg α]
/-- rotation about z by the angle whose HALF has cosine `c`, sine `s` -/
def qz (c s : α) : Q4 α := ⟨0, 0, s, c⟩
def qx (c s : α) : Q4 α := ⟨s, 0, 0, c⟩
/-- `from_euler("zxz", [phi, theta, psi])` as a quaternion; arguments are (cos, sin) of the HALF angles -/
def qzxz (cp sp ct st cs ss : α) : Q4 α := qz cs ss * qx ct st * qz cp sp
end euler

/-! ### angular distance -/
section dist
variable [Add α] [Sub α] [Mul α] [Div α] [Neg α] [Max α] [Min α] [OfNat α 0] [OfNat α 1] [OfNat α 2] [OfNat α 180]

def absv (a : α) : α := max a (-a)
/-- radians → degrees (`np.degrees`) -/
def toDeg (L : Libm α) (r : α) : α := r * (180 / L.pi)

/-- `|q1·q2|`, clamped to at most 1 (rounding can push the dot of two unit quaternions above 1) -/
def absDot (p q : Q4 α) : α := min (absv (qdot p q)) 1

/-- `angular_distance(...)[0]` in radians: `2·arccos(min(|q1·q2|, 1))` -/
def angDistRad (L : Libm α) (p q : Q4 α) : α := 2 * L.acos (absDot p q)
/-- in degrees, as returned -/
def angDist (L : Libm α) (p q : Q4 α) : α := toDeg L (angDistRad L p q)

/-- the code as it stands at the pinned commit (no clamp): `np.degrees(2*np.arccos(np.abs(np.sum(q1*q2))))`;
at `Float` this is NaN as soon as rounding makes `|q1·q2| > 1` -/
def angDistAsIs (L : Libm α) (p q : Q4 α) : α := toDeg L (2 * L.acos (absv (qdot p q)))

/-- second return value `dist = 1 - (q1·q2)²` before the `dist < 10e-8 → 0` snap -/
def dist2 (p q : Q4 α) : α := 1 - qdot p q * qdot p q

/-- `cone_distance`: both z-axis images are normalised, the dot product is clamped to [-1, 1] -/
def coneCos (L : Libm α) (m1 m2 : M3 α) : α :=
  let v1 := m1.apply ⟨0, 0, 1⟩
  let v2 := m2.apply ⟨0, 0, 1⟩
  let n1 := L.sqrt (V3.normSq v1)
  let n2 := L.sqrt (V3.normSq v2)
  let u1 : V3 α := ⟨v1.x / n1, v1.y / n1, v1.z / n1⟩
  let u2 : V3 α := ⟨v2.x / n2, v2.y / n2, v2.z / n2⟩
  max (min (V3.dot u1 u2) 1) (-1)
def coneDist (L : Libm α) (m1 m2 : M3 α) : α := toDeg L (L.acos (coneCos L m1 m2))
end dist

/-! ### in-plane distance (c_symmetry = 1) -/
section inplane
variable [Add α] [Sub α] [Neg α] [Max α] [LT α] [DecidableLT α] [OfNat α 0] [OfNat α 180] [OfNat α 360]

/-- `np.where(abs(phi) < ANGLE_DEGREES_TOL, 0.0, phi)` -/
def snap (tol phi : α) : α := if absv phi < tol then 0 else phi

/-- `inplane_distance` from the two first Euler angles (degrees, as `as_euler` returns them):
shift by 180, absolute difference, fold at 180 -/
def inplane (tol phi1 phi2 : α) : α :=
  let a := absv ((snap tol phi1 + 180) - (snap tol phi2 + 180))
  if 180 < a then absv (a - 360) else a
end inplane

/-! ### Euler angles → normals -/
section normals
variable [Add α] [Mul α] [Div α] [OfNat α 0]

def scale (v : V3 α) (n : α) : V3 α := ⟨v.x / n, v.y / n, v.z / n⟩

/-- `euler_angles_to_normals` after the repair: every row is divided by its own norm -/
def normalsRowwise (L : Libm α) (pts : List (V3 α)) : List (V3 α) :=
  pts.map (fun p => scale p (L.sqrt (V3.normSq p)))

/-- before the repair: `np.linalg.norm(points)` is the Frobenius norm of the whole batch -/
def normalsAsIs (L : Libm α) (pts : List (V3 α)) : List (V3 α) :=
  let n := L.sqrt ((pts.map V3.normSq).foldr (· + ·) 0)
  pts.map (fun p => scale p n)
end normals

section zaxis
variable [OfNat α 0] [OfNat α 1] [Neg α] [Add α] [Mul α]
/-- `visualize_angles(angles, plot_rotations=False)`: image of (0,0,1) under `from_euler("zxz", …)` -/
def zaxisOfEuler (cp sp ct st cs ss : α) : V3 α := (zxz cp sp ct st cs ss).apply ⟨0, 0, 1⟩
end zaxis

/-! ### normals → Euler angles -/
section n2e
variable [Add α] [Sub α] [Mul α] [Div α] [Neg α] [OfNat α 0] [OfNat α 1] [OfNat α 90] [OfNat α 180] [BEq α]

/-- (cos θ, sin θ, cos ψ, sin ψ) of the angles `normals_to_euler_angles` returns for the normal `n`
(after the repair): θ = atan2(ρ, z'), ψ = 90° + atan2(y', x') for the normalised n' — and ψ = 0
exactly when x' = y' = 0. Algebraic form: cos/sin of those angles. -/
def n2eCS (L : Libm α) (n : V3 α) : α × α × α × α :=
  let r := L.sqrt (V3.normSq n)
  let u := scale n r
  let rho := L.sqrt (u.x * u.x + u.y * u.y)
  if u.x == 0 && u.y == 0 then (u.z, rho, 1, 0)
  else (u.z, rho, -(u.y / rho), u.x / rho)

/-- before the repair: ψ := 0 whenever `atan2(y', x') == 0`, i.e. also for y' = 0 < x' -/
def n2eCSAsIs (L : Libm α) (n : V3 α) : α × α × α × α :=
  let r := L.sqrt (V3.normSq n)
  let u := scale n r
  let rho := L.sqrt (u.x * u.x + u.y * u.y)
  if L.atan2 u.y u.x == 0 then (u.z, rho, 1, 0)
  else (u.z, rho, -(u.y / rho), u.x / rho)

/-- the angles themselves in degrees (theta, psi), through `atan2` -/
def n2eAngles (L : Libm α) (n : V3 α) : α × α :=
  let r := L.sqrt (V3.normSq n)
  let u := scale n r
  let rho := L.sqrt (u.x * u.x + u.y * u.y)
  let theta := L.atan2 rho u.z * (180 / L.pi)
  let psi := if u.x == 0 && u.y == 0 then 0 else 90 + L.atan2 u.y u.x * (180 / L.pi)
  (theta, psi)
end n2e

/-! ### row-level formulas regenerated from the source (`Gen.C06.E`) and their evaluator

The translator turns the arithmetic the code applies to one row of a batch (symbolically executed, temporaries inlined)
into a term of `Gen.C06.E`; the driver evaluates THAT term (`evalE`) at `Float`, the theorems of `Props/C06.lean` prove that
the regenerated term evaluates to the formula the metric theorems are about. The expression is an ARGUMENT of every definition
here (no definition of this file reads a value of `Gen/C06.lean`; see `Lemmas/C06_Export.lean`). -/
section expr
open Gen.C06 (E)
variable [Add α] [Sub α] [Mul α] [Div α] [Neg α] [Max α] [Min α] [LT α] [DecidableLT α] [BEq α]

/-- value of a regenerated expression: `nat` embeds the literals (`Float.ofNat` / `Nat.cast`), `env` gives the row-level
variables (`dot` = `np.sum(q1*q2, axis=1)`; `ux, uy, uz` = the normalised normal) -/
def evalE (L : Libm α) (nat : Nat → α) (env : String → α) : E → α
  | .lit n d => if d = 1 then nat n else nat n / nat d
  | .var s => env s
  | .pi => L.pi
  | .neg a => -(evalE L nat env a)
  | .add a b => evalE L nat env a + evalE L nat env b
  | .sub a b => evalE L nat env a - evalE L nat env b
  | .mul a b => evalE L nat env a * evalE L nat env b
  | .div a b => evalE L nat env a / evalE L nat env b
  | .abs a => max (evalE L nat env a) (-(evalE L nat env a))
  | .min a b => min (evalE L nat env a) (evalE L nat env b)
  | .max a b => max (evalE L nat env a) (evalE L nat env b)
  | .acos a => L.acos (evalE L nat env a)
  | .sqrt a => L.sqrt (evalE L nat env a)
  | .atan2 y x => L.atan2 (evalE L nat env y) (evalE L nat env x)
  | .deg a => evalE L nat env a * (nat 180 / L.pi)
  | .iteLt a b t e => if evalE L nat env a < evalE L nat env b then evalE L nat env t else evalE L nat env e
  | .iteEq a b t e => if evalE L nat env a == evalE L nat env b then evalE L nat env t else evalE L nat env e

/-- `angular_distance(...)[0]` / `[1]` of one pair through a regenerated expression in the variable `dot` -/
def angDistE (e : E) (L : Libm α) (nat : Nat → α) (p q : Q4 α) : α := evalE L nat (fun _ => qdot p q) e

/-- the row-level variables of `normals_to_euler_angles`: components of the NORMALISED normal -/
def n2eEnv (u : V3 α) : String → α
  | "ux" => u.x
  | "uy" => u.y
  | _ => u.z

/-- how a batch of vectors is normalised, read off the `np.linalg.norm` call of the source: `"row"` = every row by its own
norm (`axis=1`), `"all"` = by the Frobenius norm of the whole batch (no axis: defect D06), anything else = left as it is -/
def normaliseBy [OfNat α 0] (mode : String) (L : Libm α) (pts : List (V3 α)) : List (V3 α) :=
  if mode == "row" then normalsRowwise L pts else if mode == "all" then normalsAsIs L pts else pts

/-- `normals_to_euler_angles` on a batch: normalisation mode and both angle formulas are the regenerated ones -/
def n2eBatchE [OfNat α 0] (eTheta ePsi : E) (mode : String) (L : Libm α) (nat : Nat → α) (ns : List (V3 α)) : List (α × α) :=
  (normaliseBy mode L ns).map fun u => (evalE L nat (n2eEnv u) eTheta, evalE L nat (n2eEnv u) ePsi)

/-- which conversion `angular_distance` / `cone_inplane_distance` apply to an argument of the given Python type
(table regenerated from the `isinstance` dispatch; `"*"` is the `else` branch) -/
def inputConversion (table : List (String × String)) (pyType : String) : Option String :=
  match table.find? (fun e => e.1 == pyType) with
  | some e => some e.2
  | none => (table.find? (fun e => e.1 == "*")).map (·.2)
end expr

/-! ### verified checker for the metric clauses, run on the implementation's numbers at `Rat` -/
section check
variable [Add α] [Sub α] [Neg α] [LE α] [DecidableLE α] [OfNat α 0] [OfNat α 180]

/-- distances of a triple a, b, c of orientations and of a pair composed with a common rotation:
`dab dba dac dbc` plain, `dl = d(g·a, g·b)`, `dr = d(a·g, b·g)`; `tol` is the stated float slack -/
structure MetricObs (α : Type) where
  dab : α
  dba : α
  dac : α
  dbc : α
  dl : α
  dr : α
  tol : α

def inRange (d : α) : Bool := decide (0 ≤ d) && decide (d ≤ 180)
def near (tol a b : α) : Bool := decide (a - b ≤ tol) && decide (b - a ≤ tol)

def checkMetric (o : MetricObs α) : Bool × Bool × Bool × Bool × Bool :=
  (inRange o.dab && inRange o.dba && inRange o.dac && inRange o.dbc && inRange o.dl && inRange o.dr,
   near o.tol o.dab o.dba,
   decide (o.dac ≤ o.dab + o.dbc + o.tol),
   near o.tol o.dl o.dab,
   near o.tol o.dr o.dab)
end check

/-! ### batches and the shape test of `angular_distance` -/
section batch
variable [Add α] [Sub α] [Mul α] [Div α] [Neg α] [Max α] [Min α] [OfNat α 0] [OfNat α 1] [OfNat α 2] [OfNat α 180]
/-- `angular_distance` on two batches of quaternions: when the two batches differ in size the code
prints "The size of input rotations differ!!!" and returns `None`; otherwise one distance per pair -/
def angDistBatch (L : Libm α) (ps qs : List (Q4 α)) : Option (List α) :=
  if ps.length = qs.length then some ((ps.zip qs).map fun pq => angDist L pq.1 pq.2) else none
end batch

/-! ### `compare_rotations`: which primitive every `rotation_type` returns (table regenerated from the source) -/
section compare
/-- the three numbers `compare_rotations` computes before it looks at `rotation_type` -/
structure Prims (α : Type) where
  ang : α
  cone : α
  inp : α

def roleVal (v : Prims α) : String → Option α
  | "ang" => some v.ang
  | "cone" => some v.cone
  | "inp" => some v.inp
  | _ => none

/-- `compare_rotations(a, b, rotation_type=t)`: the FIRST branch of the `if`/`elif` chain whose literal equals
`t` decides which of the three numbers are returned (in the order of the `return`); when no branch matches the
code raises `UserInputError` (`none`) -/
def compareRotations (table : List (String × List String)) (t : String) (v : Prims α) : Option (List α) :=
  match table.find? (fun e => e.1 == t) with
  | some e => e.2.mapM (roleVal v)
  | none => none

/-- `normals_to_euler_angles(..., output_order=o)`: which quantity every output column holds; `"*"` is the
`else` branch -/
def n2eColumns (table : List (String × List String)) (o : String) : List String :=
  match table.find? (fun e => e.1 == o) with
  | some e => e.2
  | none => match table.find? (fun e => e.1 == "*") with
    | some e => e.2
    | none => []
end compare

end CryoCat.C06
