import CryoCat.Gen.C11
/-! C11 — model of `cryomap.read` / `cryomap.write` / `em2mrc` / `mrc2em` / `invert_contrast`
(cryocat/cryomap.py). Mathlib-free, executable; the driver runs these very definitions.

* `Arr α` is a 3-D numpy array: its shape `(d0,d1,d2)` and its elements in C order (last index
  fastest), i.e. element `[i,j,k]` sits at `(i*d1 + j)*d2 + k`.
* `MapFile α` is what is on disk: the format (`mrc`: 1024-byte header, `em`: 512-byte header), the
  header fields `nx,ny,nz`, the voxel type, and the payload in file order.  `mrcfile.write` and
  `emfile.write` both store a C-ordered array of shape `(s0,s1,s2)` with `nx=s2, ny=s1, nz=s0`
  (`store`/`load`; a recorded library assumption, checked byte-wise by the harness's own parsers).
* axis permutation tuples, the float64→float32 narrowing, the extension tables, the default-name
  slices and the inversion factor are read from `Gen.C11` (regenerated from the source on each run). -/
namespace CryoCat.C11

inductive DType | f32 | f64 | i16 | i8
deriving Repr, DecidableEq

def DType.name : DType → String
  | .f32 => "float32" | .f64 => "float64" | .i16 => "int16" | .i8 => "int8"

def DType.ofName? : String → Option DType
  | "float32" => some .f32 | "single" => some .f32 | "float64" => some .f64 | "double" => some .f64
  | "int16" => some .i16 | "int8" => some .i8 | _ => none

inductive Kind | mrc | em
deriving Repr, DecidableEq

inductive Err | badExt | fileExists | badInput | badOutput | noFile | badAxes | badFormat
deriving Repr, DecidableEq

def Err.name : Err → String
  | .badExt => "bad-extension" | .fileExists => "exists" | .badInput => "bad-input-name"
  | .badOutput => "bad-output-name" | .noFile => "no-such-file" | .badAxes => "bad-axes"
  | .badFormat => "bad-format"

structure Arr (α : Type) where
  d0 : Nat
  d1 : Nat
  d2 : Nat
  data : Array α
deriving Repr, DecidableEq

structure MapFile (α : Type) where
  kind : Kind
  nx : Nat
  ny : Nat
  nz : Nat
  dtype : DType
  data : Array α
deriving Repr, DecidableEq

variable {α : Type}

/-- the array really holds `d0*d1*d2` elements -/
def Arr.WF (a : Arr α) : Prop := a.data.size = a.d0 * a.d1 * a.d2

/-- numpy `a[i,j,k]` (C order); `d` is returned outside the array -/
def Arr.at (d : α) (a : Arr α) (i j k : Nat) : α := a.data.getD ((i * a.d1 + j) * a.d2 + k) d

def Arr.map (f : α → α) (a : Arr α) : Arr α := { a with data := a.data.map f }

/-- the position of voxel `(i,j,k)` in a file whose x index varies fastest -/
def offsetXFastest (nx ny : Nat) (i j k : Nat) : Nat := i + nx * (j + ny * k)

def pick (x0 x1 x2 : Nat) : Nat → Nat
  | 0 => x0 | 1 => x1 | _ => x2

/-- numpy `a.transpose(p0,p1,p2)` followed by a C-order copy: new axis `m` is old axis `p_m`, so
`new.shape[m] = old.shape[p_m]` and `new[i0,i1,i2] = old[j]` with `j[p_m] = i_m`. -/
def permute (d : α) (p0 p1 p2 : Nat) (a : Arr α) : Arr α :=
  let n0 := pick a.d0 a.d1 a.d2 p0
  let n1 := pick a.d0 a.d1 a.d2 p1
  let n2 := pick a.d0 a.d1 a.d2 p2
  { d0 := n0, d1 := n1, d2 := n2,
    data := Array.ofFn (n := n0 * n1 * n2) fun t =>
      let i0 := t.val / n2 / n1
      let i1 := t.val / n2 % n1
      let i2 := t.val % n2
      let sel := fun (q : Nat) => if p0 = q then i0 else if p1 = q then i1 else i2
      a.at d (sel 0) (sel 1) (sel 2) }

/-- `transpose(*axes)` for an axes tuple taken from the source; numpy raises unless it is a
permutation of (0,1,2) -/
def permuteAxes (d : α) (axes : List Nat) (a : Arr α) : Except Err (Arr α) :=
  match axes with
  | [p0, p1, p2] => if axes.isPerm [0, 1, 2] then .ok (permute d p0 p1 p2 a) else .error .badAxes
  | _ => .error .badAxes

/-- the documented transposition `(2,1,0)`: `(x,y,z)` array ↔ `(z,y,x)` C-ordered file array -/
def transpose210 (d : α) (a : Arr α) : Arr α := permute d 2 1 0 a

/-- `mrcfile.write` / `emfile.write` of a C-ordered array: `nx = shape[2]`, `ny = shape[1]`,
`nz = shape[0]`, payload = the array's elements in C order -/
def store (k : Kind) (dt : DType) (a : Arr α) : MapFile α :=
  { kind := k, nx := a.d2, ny := a.d1, nz := a.d0, dtype := dt, data := a.data }

/-- `mrcfile.open(..).data` / `emfile.read(..)[1]`: array of shape `(nz,ny,nx)` -/
def load (f : MapFile α) : Arr α := { d0 := f.nz, d1 := f.ny, d2 := f.nx, data := f.data }

/-! ### names -/

abbrev Name := List Char

def endsWith (n : Name) (suffix : String) : Bool := suffix.toList.isSuffixOf n

/-- `write`: `.mrc`/`.rec` → mrcfile, `.em` → emfile, anything else → ValueError -/
def writeKind (n : Name) : Except Err Kind :=
  if Gen.C11.writeMrcExts.any (endsWith n) then .ok .mrc
  else if Gen.C11.writeEmExts.any (endsWith n) then .ok .em
  else .error .badExt

/-- drop one trailing `.<digits>` group if there is one (the `(\.\d+)?$` of the reader's pattern) -/
def stripNumeric (n : Name) : Name :=
  let r := n.reverse
  let digs := r.takeWhile Char.isDigit
  let rest := r.dropWhile Char.isDigit
  match digs, rest with
  | _ :: _, '.' :: more => more.reverse
  | _, _ => n

/-- `read`: names matching `\.(mrc|ali|rec|st)(\.\d+)?$` → mrcfile; ending in `.em` → emfile -/
def readKind (n : Name) : Except Err Kind :=
  let dotted := Gen.C11.readMrcExts.map (fun e => "." ++ e)
  let cand := if Gen.C11.readNumericSuffix then [n, stripNumeric n] else [n]
  if cand.any (fun c => dotted.any (endsWith c)) then .ok .mrc
  else if Gen.C11.readEmExts.any (endsWith n) then .ok .em
  else .error .badExt

def dropLast (n : Name) (k : Nat) : Name := n.take (n.length - k)

/-! ### dtype rule of `write` -/

/-- dtype on disk: `data_type` if given, else the array's own; then float64 is narrowed to float32 -/
def outDType (dataType : Option DType) (src : DType) : DType :=
  let d1 := dataType.getD src
  if some d1 = DType.ofName? Gen.C11.narrowFrom then (DType.ofName? Gen.C11.narrowTo).getD d1 else d1

/-- first conversion of `write`: `astype(data_type)` when `data_type` is given (`cast t` is numpy's
conversion *to* dtype `t`) -/
def conv1 (cast : DType → α → α) (dataType : Option DType) : α → α :=
  match dataType with | some t => cast t | none => id

/-- second conversion of `write`: `astype(np.float32)` when the dtype is float64 at that point -/
def conv2 (cast : DType → α → α) (dataType : Option DType) (src : DType) : α → α :=
  let d1 := dataType.getD src
  if some d1 = DType.ofName? Gen.C11.narrowFrom then cast ((DType.ofName? Gen.C11.narrowTo).getD d1) else id

/-- what happens to one voxel value in `write` -/
def convW (cast : DType → α → α) (dataType : Option DType) (src : DType) : α → α :=
  fun v => conv2 cast dataType src (conv1 cast dataType v)

/-! ### `cryomap.write` and `cryomap.read` -/

/-- `cryomap.write(data, name, transpose, data_type)`; the input array is 3-D.  Steps in source
order: `astype(data_type)`, `transpose(2,1,0)`, float64→float32, dispatch on the extension. -/
def write (cast : DType → α → α) (d : α) (a : Arr α) (src : DType) (name : Name)
    (transpose : Bool) (dataType : Option DType) : Except Err (MapFile α) := do
  let a1 := a.map (conv1 cast dataType)
  let a2 ← if transpose then permuteAxes d Gen.C11.writeAxes a1 else pure a1
  let a3 := a2.map (conv2 cast dataType src)
  let k ← writeKind name
  pure (store k (outDType dataType src) a3)

/-- `cryomap.read(name, transpose, data_type)` of a file holding `f`.  The reader is chosen by the
NAME (`readKind`); `mrcfile.open` / `emfile.read` fail on a file of the other container format
(`badFormat`: a volume written as `a.em` cannot be read through the name `a.mrc`). -/
def read (cast : DType → α → α) (d : α) (name : Name) (f : MapFile α)
    (transpose : Bool) (dataType : Option DType) : Except Err (Arr α × DType) := do
  let kr ← readKind name
  if f.kind ≠ kr then .error .badFormat else
  let a0 := load f
  let a1 ← if transpose then permuteAxes d Gen.C11.readAxes a0 else pure a0
  pure (a1.map (conv1 cast dataType), dataType.getD f.dtype)

/-! ### the signature defaults (read from the source): what a call WITHOUT keywords does -/

/-- the `data_type=` default of a signature: `"None"` (or anything that is no dtype) ↦ `none` -/
def defaultDType (s : String) : Option DType := DType.ofName? s

/-- `cryomap.write(data, name[, transpose=..][, data_type=..])`: an omitted keyword takes the
default of the signature in the current source -/
def writeKw (cast : DType → α → α) (d : α) (a : Arr α) (src : DType) (name : Name)
    (transpose : Option Bool) (dataType : Option DType) : Except Err (MapFile α) :=
  write cast d a src name (transpose.getD Gen.C11.writeDefaultTranspose)
    (match dataType with | some t => some t | none => defaultDType Gen.C11.writeDefaultDataType)

/-- `cryomap.read(name[, transpose=..][, data_type=..])` -/
def readKw (cast : DType → α → α) (d : α) (name : Name) (f : MapFile α)
    (transpose : Option Bool) (dataType : Option DType) : Except Err (Arr α × DType) :=
  read cast d name f (transpose.getD Gen.C11.readDefaultTranspose)
    (match dataType with | some t => some t | none => defaultDType Gen.C11.readDefaultDataType)

/-! ### file system and the converters -/

/-- the part of the file system the converters see: which names exist and what they hold -/
abbrev FS (α : Type) := List (Name × MapFile α)

def FS.put (fs : FS α) (n : Name) (f : MapFile α) : FS α := (n, f) :: fs.filter (fun e => e.1 != n)

/-- `mrcfile.write`/`emfile.write` with `overwrite=False` raise when the path exists -/
def writeFS (cast : DType → α → α) (d : α) (fs : FS α) (a : Arr α) (src : DType) (name : Name)
    (transpose : Bool) (dataType : Option DType) (overwrite : Bool) : Except Err (FS α) := do
  let f ← write cast d a src name transpose dataType
  if !overwrite && (fs.lookup name).isSome then .error .fileExists
  else pure (fs.put name f)

def readFS (cast : DType → α → α) (d : α) (fs : FS α) (name : Name) (transpose : Bool)
    (dataType : Option DType) : Except Err (Arr α × DType) := do
  let _ ← readKind name
  match fs.lookup name with
  | none => .error .noFile
  | some f => read cast d name f transpose dataType

/-- `data * (-1)`: the factor comes from the source; `-1` negates every voxel (dtype unchanged) -/
def applyFactor (neg : α → α) (factor : Int) (a : Arr α) : Arr α :=
  if factor = -1 then a.map neg else a

structure ConvCfg where
  inSuffix : String
  outSuffix : String
  cut : Nat
  append : String
  factor : Int
  /-- signature defaults `invert=`, `overwrite=` -/
  defInvert : Bool
  defOverwrite : Bool
deriving Repr, DecidableEq

def em2mrcCfg : ConvCfg :=
  { inSuffix := Gen.C11.em2mrcIn, outSuffix := Gen.C11.em2mrcOut, cut := Gen.C11.em2mrcCut,
    append := Gen.C11.em2mrcAppend, factor := Gen.C11.em2mrcFactor,
    defInvert := Gen.C11.em2mrcDefaultInvert, defOverwrite := Gen.C11.em2mrcDefaultOverwrite }

def mrc2emCfg : ConvCfg :=
  { inSuffix := Gen.C11.mrc2emIn, outSuffix := Gen.C11.mrc2emOut, cut := Gen.C11.mrc2emCut,
    append := Gen.C11.mrc2emAppend, factor := Gen.C11.mrc2emFactor,
    defInvert := Gen.C11.mrc2emDefaultInvert, defOverwrite := Gen.C11.mrc2emDefaultOverwrite }

/-- output name of a converter: the given one (must carry the output extension) or the input
name with its last `cut` characters replaced by `append` -/
def outName (c : ConvCfg) (mapName : Name) (outputName : Option Name) : Except Err Name :=
  match outputName with
  | none => .ok (dropLast mapName c.cut ++ c.append.toList)
  | some o => if endsWith o c.outSuffix then .ok o else .error .badOutput

/-- `em2mrc` / `mrc2em` (`c` = `em2mrcCfg` / `mrc2emCfg`): check the input name, `read(map_name)`
(no keywords: the reader's signature defaults), negate if `invert`, derive the output name,
`write(data, output_name, overwrite=overwrite)` (the writer's signature defaults, the caller's
`overwrite`). Order of the checks as in the source. -/
def convert (c : ConvCfg) (cast : DType → α → α) (d : α) (neg : α → α) (fs : FS α)
    (mapName : Name) (invert overwrite : Bool) (outputName : Option Name) : Except Err (FS α) := do
  if !endsWith mapName c.inSuffix then .error .badInput else
  let (a, dt) ← readFS cast d fs mapName Gen.C11.readDefaultTranspose (defaultDType Gen.C11.readDefaultDataType)
  let a' := if invert then applyFactor neg c.factor a else a
  let out ← outName c mapName outputName
  writeFS cast d fs a' dt out Gen.C11.writeDefaultTranspose (defaultDType Gen.C11.writeDefaultDataType) overwrite

/-- a converter call with omitted keywords (`em2mrc(p)`): the signature defaults apply -/
def convertKw (c : ConvCfg) (cast : DType → α → α) (d : α) (neg : α → α) (fs : FS α)
    (mapName : Name) (invert overwrite : Option Bool) (outputName : Option Name) : Except Err (FS α) :=
  convert c cast d neg fs mapName (invert.getD c.defInvert) (overwrite.getD c.defOverwrite) outputName

/-! ### verified checkers (run by the driver on what the real code produced) -/

/-- `f` holds `a` with x fastest: header = shape of `a`, payload size, and voxel `(i,j,k)` of `a`
(converted by `conv`) at offset `i + nx*(j + ny*k)` -/
def checkXFastest [DecidableEq α] (d : α) (conv : α → α) (a : Arr α) (f : MapFile α) : Bool :=
  decide (f.nx = a.d0) && decide (f.ny = a.d1) && decide (f.nz = a.d2) &&
  decide (f.data.size = f.nx * f.ny * f.nz) &&
  (List.range f.nz).all fun k => (List.range f.ny).all fun j => (List.range f.nx).all fun i =>
    decide (f.data[offsetXFastest f.nx f.ny i j k]? = some (conv (a.at d i j k)))

/-- `b` has the shape of `a` and every voxel is the converted voxel of `a` -/
def checkSameVoxels [DecidableEq α] (d : α) (conv : α → α) (a b : Arr α) : Bool :=
  decide (b.d0 = a.d0) && decide (b.d1 = a.d1) && decide (b.d2 = a.d2) &&
  decide (b.data.size = b.d0 * b.d1 * b.d2) &&
  (List.range b.d0).all fun i => (List.range b.d1).all fun j => (List.range b.d2).all fun k =>
    decide (b.at d i j k = conv (a.at d i j k))

/-- two files hold the same `(x,y,z)` volume up to `conv` (used for the converters) -/
def checkSameFileVoxels [DecidableEq α] (conv : α → α) (f g : MapFile α) : Bool :=
  decide (g.nx = f.nx) && decide (g.ny = f.ny) && decide (g.nz = f.nz) &&
  decide (g.data.size = g.nx * g.ny * g.nz) && decide (f.data.size = g.data.size) &&
  (List.range g.nz).all fun k => (List.range g.ny).all fun j => (List.range g.nx).all fun i =>
    decide (g.data[offsetXFastest g.nx g.ny i j k]? = (f.data[offsetXFastest f.nx f.ny i j k]?).map conv)

/-- what a converter does to one voxel of a file of type `dt`: negate if asked, then `write`'s
conversion without `data_type` (float64 → float32, anything else unchanged) -/
def convVoxel (cast : DType → α → α) (neg : α → α) (invert : Bool) (dt : DType) : α → α :=
  fun v => convW cast none dt (if invert then neg v else v)

/-- the file `fout` a converter wrote for the input `fin`: same `nx,ny,nz`, every voxel at its
x-fastest place converted by `convVoxel`, voxel type by the dtype rule of `write` -/
def checkConverted [DecidableEq α] (cast : DType → α → α) (neg : α → α) (invert : Bool)
    (fin fout : MapFile α) : Bool :=
  checkSameFileVoxels (convVoxel cast neg invert fin.dtype) fin fout &&
  decide (fout.dtype = outDType none fin.dtype)

end CryoCat.C11
