import CryoCat.Gen.C02
/-! C02 — model of `cryocat/starfileio.py`: `Token.tokenize`, `parse_specifier`, `parse_columns`,
`parse_rows`, `Starfile.read` (token level + per-column numeric typing) and `Starfile.write`.
Mathlib-free, over `List Char`. Every literal of the source the model depends on comes from the
regenerated `Gen/C02.lean`. -/
namespace CryoCat.C02

abbrev Word := List Char

/-- the code points Python's `str.isspace()` accepts (bidirectional class WS/B/S or category Zs), as
closed ranges, *without* the line feed U+000A (the text is split at `\n` before the character loop):
TAB, VT, FF, CR, U+001C–U+001F, blank, NEL U+0085, NBSP U+00A0, U+1680, U+2000–U+200A, U+2028, U+2029,
U+202F, U+205F, U+3000. The harness compares this set with `str.isspace` over ALL code points on
every run (driver op `ws`). -/
def wsRanges : List (Nat × Nat) :=
  [(0x09, 0x09), (0x0B, 0x0D), (0x1C, 0x20), (0x85, 0x85), (0xA0, 0xA0), (0x1680, 0x1680), (0x2000, 0x200A),
   (0x2028, 0x2029), (0x202F, 0x202F), (0x205F, 0x205F), (0x3000, 0x3000)]

/-- `str.isspace()` for the characters that can occur inside one line -/
def isWs (c : Char) : Bool := wsRanges.any (fun r => decide (r.1 ≤ c.toNat) && decide (c.toNat ≤ r.2))

def hash : Char := Gen.C02.commentChar
def nl : Char := Gen.C02.lineSep

/-! ### tokenizer -/

inductive Tok where
  | lit (w : Word)
  | prop (w : Word)
  | loop
  | comment (c : List Char)
  | newline
deriving DecidableEq, Repr

def flush (cur : List Char) (acc : List Word) : List Word :=
  if cur = [] then acc else cur.reverse :: acc

/-- the character loop of `Token.tokenize` on one line: `cur` = pending sequence (reversed),
`acc` = finished sequences (reversed). Returns the sequences and the comment after `#`, if any. -/
def go (cur : List Char) (acc : List Word) : List Char → List Word × Option (List Char)
  | [] => ((flush cur acc).reverse, none)
  | c :: cs =>
    if c = hash then ((flush cur acc).reverse, some cs)
    else if isWs c then go [] (flush cur acc) cs
    else go (c :: cur) acc cs

def tokenizeLine (l : List Char) : List Word × Option (List Char) := go [] [] l

/-- PROPERTY if the sequence starts with `_`, LOOP if it is exactly `loop_`, LITERAL otherwise -/
def classifyWord (w : Word) : Tok :=
  if w.head? = some Gen.C02.propPrefix then .prop w
  else if w = Gen.C02.loopKw then .loop
  else .lit w

/-- `str.strip()` of the comment text (`line[index + 1:].strip()`), right end first -/
def rstripWs (c : List Char) : List Char := (c.reverse.dropWhile isWs).reverse
def stripWs (c : List Char) : List Char := (rstripWs c).dropWhile isWs

/-- the tokens of one line; the value of a COMMENT token is the stripped text after `#` -/
def lineToks (l : List Char) : List Tok :=
  let r := tokenizeLine l
  r.1.map classifyWord ++ (match r.2 with | some c => [Tok.comment (stripWs c)] | none => []) ++ [Tok.newline]

/-- `text.split("\n")` -/
def splitGo (cur : List Char) : List Char → List (List Char)
  | [] => [cur.reverse]
  | c :: cs => if c = nl then cur.reverse :: splitGo [] cs else splitGo (c :: cur) cs

def splitLines (txt : List Char) : List (List Char) := splitGo [] txt

/-- `Token.tokenize` (the code returns the reversed list and pops from its end) -/
def tokenize (txt : List Char) : List Tok := (splitLines txt).flatMap lineToks

/-! ### parser -/

structure Block where
  name : Word
  cols : List Word
  rows : List (List Word)
deriving DecidableEq, Repr

inductive Kind where | lit | newline | comment | loop | prop
deriving DecidableEq, Repr

/-- the `IOError`s of the parser: `consume`/`check` on a wrong token (`empty = false`) or on an
exhausted queue (`empty = true`); left-over tokens at the end of `read` -/
inductive Err where
  | expected (k : Kind) (empty : Bool)
  | trailing
deriving DecidableEq, Repr

instance decEqResult {ε α : Type} [DecidableEq ε] [DecidableEq α] : DecidableEq (Except ε α) := fun a b =>
  match a, b with
  | .ok x, .ok y => if h : x = y then isTrue (by rw [h]) else isFalse (by intro e; cases e; exact h rfl)
  | .error x, .error y => if h : x = y then isTrue (by rw [h]) else isFalse (by intro e; cases e; exact h rfl)
  | .ok _, .error _ => isFalse (by intro e; cases e)
  | .error _, .ok _ => isFalse (by intro e; cases e)

/-- `parse_newline_or_comments` -/
def skipNC : List Tok → List Tok
  | .newline :: ts => skipNC ts
  | .comment _ :: ts => skipNC ts
  | ts => ts

/-- `Token.lookahead(tokens, LITERAL, [NEWLINE, COMMENT])` -/
def lookaheadLit (ts : List Tok) : Bool :=
  match skipNC ts with
  | .lit _ :: _ => true
  | _ => false

/-- `parse_specifier` -/
def parseSpecifier (ts : List Tok) : Except Err (Word × List Tok) :=
  match skipNC ts with
  | .lit w :: r => .ok (w, r)
  | [] => .error (.expected .lit true)
  | _ :: _ => .error (.expected .lit false)

/-- the `while Token.check(tokens, PROPERTY): parse_column` loop; `check` raises on an empty queue -/
def parseLabels : List Tok → Except Err (List Word × List Tok)
  | [] => .error (.expected .prop true)
  | .prop w :: .comment _ :: .newline :: ts =>
      match parseLabels ts with
      | .ok (cs, r) => .ok (w.drop Gen.C02.propNameDrop :: cs, r)
      | .error e => .error e
  | .prop w :: .newline :: ts =>
      match parseLabels ts with
      | .ok (cs, r) => .ok (w.drop Gen.C02.propNameDrop :: cs, r)
      | .error e => .error e
  | .prop _ :: .comment _ :: [] => .error (.expected .newline true)
  | .prop _ :: .comment _ :: _ => .error (.expected .newline false)
  | .prop _ :: [] => .error (.expected .newline true)
  | .prop _ :: _ => .error (.expected .newline false)
  | ts => .ok ([], ts)

/-- `parse_columns` -/
def parseColumns (ts : List Tok) : Except Err (List Word × List Tok) :=
  match skipNC ts with
  | .loop :: .newline :: r => parseLabels r
  | .loop :: [] => .error (.expected .newline true)
  | .loop :: _ => .error (.expected .newline false)
  | [] => .error (.expected .loop true)
  | _ :: _ => .error (.expected .loop false)

/-- the row loop of `parse_rows` for `n` columns: `k` literals still wanted for the current row
`cur` (reversed); a row that cannot be completed ends the loop and its cells are dropped; a completed
row must be followed by NEWLINE. -/
def rowsGo (n : Nat) : Nat → List Word → List (List Word) → List Tok → Except Err (List (List Word) × List Tok)
  | 0, cur, rows, .newline :: ts => rowsGo n n [] (cur.reverse :: rows) ts
  | 0, _, _, [] => .error (.expected .newline true)
  | 0, _, _, _ :: _ => .error (.expected .newline false)
  | k + 1, cur, rows, .lit w :: ts => rowsGo n k (w :: cur) rows ts
  | _ + 1, _, rows, ts => .ok (rows.reverse, ts)

/-- `parse_rows` -/
def parseRows (n : Nat) (ts : List Tok) : Except Err (List (List Word) × List Tok) :=
  rowsGo n n [] [] (skipNC ts)

/-- the `while lookahead` loop of `Starfile.read`; every round consumes at least the specifier, so
`fuel = number of tokens + 1` always suffices -/
def blocksGo : Nat → List Tok → Except Err (List Block)
  | 0, _ => .error .trailing
  | fuel + 1, ts =>
    if lookaheadLit ts then
      match parseSpecifier ts with
      | .error e => .error e
      | .ok (name, ts1) =>
        match parseColumns ts1 with
        | .error e => .error e
        | .ok (cols, ts2) =>
          match parseRows cols.length ts2 with
          | .error e => .error e
          | .ok (rows, ts3) =>
            match blocksGo fuel ts3 with
            | .error e => .error e
            | .ok bs => .ok ({ name := name, cols := cols, rows := rows } :: bs)
    else
      match skipNC ts with
      | [] => .ok []
      | _ :: _ => .error .trailing

def parseBlocks (ts : List Tok) : Except Err (List Block) := blocksGo (ts.length + 1) ts

/-- `Starfile.read` up to numeric typing -/
def readStar (txt : List Char) : Except Err (List Block) := parseBlocks (tokenize txt)

/-! ### numeric typing of columns (`frame.apply(_to_numeric_if_possible)`) -/

def isDigit (c : Char) : Bool := '0' ≤ c && c ≤ '9'

def allDigits (w : Word) : Bool := !w.isEmpty && w.all isDigit

/-- mantissa `d+`, `d+.`, `d+.d+`, `.d+` -/
def isMantissa (w : Word) : Bool :=
  let ip := w.takeWhile isDigit
  match w.dropWhile isDigit with
  | [] => !ip.isEmpty
  | '.' :: fp => fp.all isDigit && (!ip.isEmpty || !fp.isEmpty)
  | _ => false

def dropSign (w : Word) : Word :=
  match w with
  | '+' :: r => r
  | '-' :: r => r
  | _ => w

/-- plain decimal number `[+-]?(d+[.d*]|.d+)([eE][+-]?d+)?` -/
def isDecTok (w : Word) : Bool :=
  let u := dropSign w
  let m := u.takeWhile (fun c => c != 'e' && c != 'E')
  match u.dropWhile (fun c => c != 'e' && c != 'E') with
  | [] => isMantissa m
  | _ :: ex => isMantissa m && allDigits (dropSign ex)

/-- `w` spells the pattern, every letter in lower or upper case -/
def matchCI : Word → List (Char × Char) → Bool
  | [], [] => true
  | c :: cs, p :: ps => (c == p.1 || c == p.2) && matchCI cs ps
  | _, _ => false

def infPat : List (Char × Char) := [('i', 'I'), ('n', 'N'), ('f', 'F')]
def infinityPat : List (Char × Char) := infPat ++ [('i', 'I'), ('n', 'N'), ('i', 'I'), ('t', 'T'), ('y', 'Y')]

/-- `inf` / `infinity` in any letter case -/
def isInfBody (w : Word) : Bool := matchCI w infPat || matchCI w infinityPat

/-- `[+-]?(inf|infinity)`, case-insensitive -/
def isInfTok (w : Word) : Bool := isInfBody (dropSign w)

/-- the tokens `pandas.to_numeric` turns into numbers: decimal literals and the spellings of
infinity (`nan` is *not* among them: `to_numeric` raises on it and the column stays text) -/
def isNumTok (w : Word) : Bool := isDecTok w || isInfTok w

/-- the tokens `pandas.to_numeric` reads as integers (`[+-]?d+`; a column of such tokens comes back
with an integer dtype, any other numeric column as float64) -/
def isIntTok (w : Word) : Bool := allDigits (dropSign w)

def column (rows : List (List Word)) (j : Nat) : List Word := rows.map (fun r => r.getD j [])

/-- a column is numeric iff every cell is a number (and there is at least one row) -/
def colNumeric (isNum : Word → Bool) (rows : List (List Word)) (j : Nat) : Bool :=
  !rows.isEmpty && (column rows j).all isNum

def blockKinds (isNum : Word → Bool) (b : Block) : List Bool :=
  (List.range b.cols.length).map (colNumeric isNum b.rows)

/-- per column: every cell an integer token (with `blockKinds`: integer / float / text column) -/
def blockInts (b : Block) : List Bool := (List.range b.cols.length).map (colNumeric isIntTok b.rows)

/-! ### writer -/

/-- the fill character of the format spec of `format_value` (none written = a blank) -/
def fillChar : Char := Gen.C02.cellFill.headD ' '

/-- `'{:<10}'.format(s)`, with the format spec READ FROM THE SOURCE (`Gen.C02.cellFill`, `cellAlign`,
`cellWidth`): the cell is padded with the fill character to the width — on the right for `<` (the
documented one), on the left for `>`, on both sides for `^`, never cut. An edit of the format spec
changes what the model prints (lemma `padCell_eq` is where the documented spec enters the proofs). -/
def padCell (w : Word) : List Char :=
  let k := Gen.C02.cellWidth - w.length
  match Gen.C02.cellAlign with
  | ['>'] => List.replicate k fillChar ++ w
  | ['^'] => List.replicate (k / 2) fillChar ++ w ++ List.replicate (k - k / 2) fillChar
  | _ => w ++ List.replicate k fillChar

def sepJoin (sep : List Char) : List (List Char) → List Char
  | [] => []
  | [x] => x
  | x :: y :: r => x ++ sep ++ sepJoin sep (y :: r)

/-- `"\t".join(map(str, row)) + "\n"` without the line end -/
def rowText (r : List Word) : List Char := sepJoin Gen.C02.cellSep (r.map padCell)

def isInfix (p : List Char) : List Char → Bool
  | [] => p.isEmpty
  | c :: cs => p.isPrefixOf (c :: cs) || isInfix p cs

def natDigits (n : Nat) : List Char := Nat.toDigits 10 n

def piece (ps : List (List Char)) (i : Nat) : List Char := ps.getD i []

/-- `f"_{name} #{number}\n"` / `f"_{name}\n"` -/
def labelText (numbered : Bool) (i : Nat) (name : Word) : List Char :=
  if numbered then piece Gen.C02.labelNumbered 0 ++ name ++ piece Gen.C02.labelNumbered 1 ++ natDigits i ++ piece Gen.C02.labelNumbered 2
  else piece Gen.C02.labelPlain 0 ++ name ++ piece Gen.C02.labelPlain 1

def labelsText (numbered : Bool) : Nat → List Word → List Char
  | _, [] => []
  | i, c :: cs => labelText numbered i c ++ labelsText numbered (i + 1) cs

def isStopgap (name : Word) : Bool := isInfix Gen.C02.stopgapKw name

/-- one round of the block loop of `Starfile.write` (cells are the `str(value)` texts) -/
def printBlock (numberColumns : Bool) (b : Block) : List Char :=
  let stopgap := isStopgap b.name
  piece Gen.C02.specLine 0 ++ b.name ++ piece Gen.C02.specLine 1 ++ Gen.C02.loopLine ++
  labelsText (numberColumns && !stopgap) Gen.C02.labelStart b.cols ++
  (if stopgap then Gen.C02.stopgapExtra else []) ++
  b.rows.flatMap (fun r => rowText r ++ Gen.C02.rowEnd) ++ Gen.C02.blockEnd

def printStar (numberColumns : Bool) (bs : List Block) : List Char :=
  bs.flatMap (printBlock numberColumns)

end CryoCat.C02
