import CryoCat.Model.Particle
import CryoCat.Gen.C01
/-! C01 — model of `EmMotl.write_out` / `EmMotl.read_in` (cryocat/cryomotl.py). Mathlib-free.

A table is a header (column names in *any* order) and rows of cells in header order — a
`pandas.DataFrame`. An EM file is its three header dimensions (x fastest) and the payload. -/
namespace CryoCat.C01

/-- the field order the *source* uses today (`Motl.motl_columns`), names resolved to `Field`s;
an unknown name makes the list shorter, which `Props/C01` detects -/
def genColumns : List Field := Gen.C01.motlColumnNames.filterMap Field.ofName?

structure Table (α : Type) where
  cols : List Field
  rows : List (List α)
deriving Repr, DecidableEq

structure EmFile (β : Type) where
  /-- EM data-type code of the header (5 = float32, 9 = float64) -/
  dtype : Nat
  dimX : Nat
  dimY : Nat
  dimZ : Nat
  data : List β
deriving Repr, DecidableEq

variable {α β : Type}

/-- value of the column named `f` in row `r` (`df[f]`) -/
def cell (d : α) (cols : List Field) (r : List α) (f : Field) : α := ((cols.zip r).lookup f).getD d

/-- `check_df_correct_format`: `sorted(cols) == sorted(motl_columns)` -/
def accepted (cols : List Field) : Bool := cols.isPerm genColumns

/-- the DOCUMENTED writer (reference semantics, independent of what the source says today apart from the column
list): select the canonical columns by name, `fillna(0)` and `astype(np.single)` (both inside `conv`), reshape
`(1, N, 20)`; emfile stores x fastest. What the source's writer does today is `writeGen` below; `Props/C01`
proves the two equal from the regenerated facts. -/
def writeEm (conv : α → β) (d : α) (t : Table α) : EmFile β :=
  { dtype := 5, dimX := genColumns.length, dimY := t.rows.length, dimZ := 1,
    data := t.rows.flatMap (fun r => genColumns.map (fun f => conv (cell d t.cols r f))) }

/-- the cell conversion of the writer: `fillna(0.0)` then `astype(np.single)` -/
def conv (isNaN : α → Bool) (r32 : α → β) (zero : α) (v : α) : β := if isNaN v then r32 zero else r32 v

/-- the code as it was before the repair: `self.df.fillna(0).to_numpy()` — table column order -/
def writeEmAsIs (conv : α → β) (t : Table α) : EmFile β :=
  { dtype := 5, dimX := t.cols.length, dimY := t.rows.length, dimZ := 1,
    data := t.rows.flatMap (fun r => r.map conv) }

def rowsOf (n : Nat) : Nat → List β → List (List β)
  | 0, _ => []
  | k + 1, data => data.take n :: rowsOf n k (data.drop n)

/-- `EmMotl.read_in`: reject unless the x dimension is 20 (`len(parsed[0][0]) == 20`; an empty
list has no row 0 and raises), name the columns `Motl.motl_columns`. -/
def readEm (f : EmFile β) : Option (Table β) :=
  if f.dimY = 0 then none
  else if f.dimX ≠ Gen.C01.readExpectedColumns then none
  else some { cols := genColumns, rows := rowsOf f.dimX f.dimY f.data }

/-! ### the writer as the source states it (a function of the translated facts) -/

/-- a number as emfile stores it: numpy dtype `float32` (EM data-type code 5) or `float64` (code 9) -/
inductive Stored
  | f32 (bits : UInt32)
  | f64 (bits : UInt64)
deriving DecidableEq, Repr

/-- the number operations the writer uses, abstract in the number type `α` of the table
(the driver instantiates them with IEEE binary64: `Float.isNaN`, `Float.ofInt`, `Float.toFloat32`) -/
structure NumOps (α : Type) where
  isNaN : α → Bool
  /-- the value of an integer literal of the source (the argument of `fillna`) -/
  ofInt : Int → α
  /-- `astype(np.single)`, as the stored bit pattern -/
  bits32 : α → UInt32
  /-- the float64 bit pattern: what is stored when nothing casts -/
  bits64 : α → UInt64

/-- what lands in the array given to `emfile.write`: cast to single precision iff the source casts -/
def NumOps.store (o : NumOps α) (casts : Bool) (v : α) : Stored :=
  if casts then .f32 (o.bits32 v) else .f64 (o.bits64 v)

/-- `.fillna(k)` when the source has one (`fill = some k`), nothing otherwise -/
def fillCell (o : NumOps α) (fill : Option Int) (v : α) : α :=
  match fill with
  | some k => if o.isNaN v then o.ofInt k else v
  | none => v

/-- `EmMotl.write_out` as a function of the three facts the translator reads off the source:
`sel`   — the table is indexed with `[Motl.motl_columns]` before `to_numpy()` (otherwise cells go out in table order),
`fill`  — the literal of `.fillna(·)` on what is written (`none`: no `fillna`),
`casts` — the array is cast with `.astype(np.single)` (otherwise it stays float64 and emfile writes data-type 9). -/
def writeSrc (sel : Bool) (fill : Option Int) (casts : Bool) (o : NumOps α) (t : Table α) : EmFile Stored :=
  { dtype := if casts then 5 else 9,
    dimX := if sel then genColumns.length else t.cols.length,
    dimY := t.rows.length, dimZ := 1,
    data := t.rows.flatMap (fun r =>
      (if sel then genColumns.map (fun f => cell (o.ofInt 0) t.cols r f) else r).map
        (fun v => o.store casts (fillCell o fill v))) }

/-- the writer of the source tree the translator ran on (`Gen/C01.lean` is regenerated on every check) -/
def writeGen (o : NumOps α) (t : Table α) : EmFile Stored :=
  writeSrc Gen.C01.writeSelectsCanonical Gen.C01.writeFill Gen.C01.writeCastsSingle o t

/-- how a motive-list type string is compared (`motl_type.lower() == "emmotl"` when the source lowers it) -/
def typeIs (lowers : Bool) (ty : String) : Bool := (if lowers then ty.toLower else ty) == "emmotl"

/-- `Motl.write_out(path, motl_type)` restricted to what the property uses: with the type omitted (`none`, the
signature default applies) or given, the EM branch hands the table to `EmMotl(self.df).write_out(path)` = `writeGen`;
every other type is outside this property (`none`). Default, case folding and the branch body are regenerated facts. -/
def motlWriteOut (ty : Option String) (o : NumOps α) (t : Table α) : Option (EmFile Stored) :=
  if typeIs Gen.C01.motlWriteOutLowers (ty.getD Gen.C01.motlWriteOutDefault) && Gen.C01.motlWriteOutEmBranch
  then some (writeGen o t) else none

/-- `Motl.load(path, motl_type)` restricted likewise: the EM branch is `EmMotl(path)`, i.e. `read_in` -/
def motlLoad (ty : Option String) (f : EmFile β) : Option (Table β) :=
  if typeIs Gen.C01.motlLoadLowers (ty.getD Gen.C01.motlLoadDefault) && Gen.C01.motlLoadEmBranch
  then readEm f else none

/-- the cell conversion the property asks for, on stored numbers: missing → 0, everything else → single precision -/
def specCell (o : NumOps α) (v : α) : Stored := conv o.isNaN (fun x => Stored.f32 (o.bits32 x)) (o.ofInt 0) v

/-- a toy number type for the `decide`d witnesses of `Props/C01` (`none` = missing value) -/
def toyOps : NumOps (Option Nat) :=
  { isNaN := Option.isNone, ofInt := fun k => some k.toNat,
    bits32 := fun v => UInt32.ofNat (v.getD 99), bits64 := fun v => UInt64.ofNat (v.getD 99) }

/-- what a user sees after loading: each particle as its named fields -/
def particles (d : β) (t : Table β) : List (Particle β) := t.rows.map (fun r => Particle.ofFn (cell d t.cols r))

end CryoCat.C01
