import CryoCat.Model.Particle
import CryoCat.Gen.C01
/-! C01 — model of `EmMotl.write_out` / `EmMotl.read_in` (cryocat/cryomotl.py). Mathlib-free.

A table is a header (column names in *any* order) and rows of cells in header order — a
`pandas.DataFrame`. An EM file is its three header dimensions (x fastest) and the payload. -/
namespace CryoCat.C01

/-- the field order the *source* uses today (`Motl.motl_columns`), names resolved to `Field`s;
an unknown name makes the list shorter, which `Props/C01` detects -/
def genColumns : List Field := Gen.C01.motlColumnNames.filterMap Field.ofName?

structure Table (α : Type) where
  cols : List Field
  rows : List (List α)
deriving Repr, DecidableEq

structure EmFile (β : Type) where
  dimX : Nat
  dimY : Nat
  dimZ : Nat
  data : List β
deriving Repr, DecidableEq

variable {α β : Type}

/-- value of the column named `f` in row `r` (`df[f]`) -/
def cell (d : α) (cols : List Field) (r : List α) (f : Field) : α := ((cols.zip r).lookup f).getD d

/-- `check_df_correct_format`: `sorted(cols) == sorted(motl_columns)` -/
def accepted (cols : List Field) : Bool := cols.isPerm genColumns

/-- `EmMotl.write_out` after the repair: select the canonical columns by name, `fillna(0)` and
`astype(np.single)` (both inside `conv`), reshape `(1, N, 20)`; emfile stores x fastest. -/
def writeEm (conv : α → β) (d : α) (t : Table α) : EmFile β :=
  { dimX := genColumns.length, dimY := t.rows.length, dimZ := 1,
    data := t.rows.flatMap (fun r => genColumns.map (fun f => conv (cell d t.cols r f))) }

/-- the cell conversion of the writer: `fillna(0.0)` then `astype(np.single)` -/
def conv (isNaN : α → Bool) (r32 : α → β) (zero : α) (v : α) : β := if isNaN v then r32 zero else r32 v

/-- the code as it was before the repair: `self.df.fillna(0).to_numpy()` — table column order -/
def writeEmAsIs (conv : α → β) (t : Table α) : EmFile β :=
  { dimX := t.cols.length, dimY := t.rows.length, dimZ := 1,
    data := t.rows.flatMap (fun r => r.map conv) }

def rowsOf (n : Nat) : Nat → List β → List (List β)
  | 0, _ => []
  | k + 1, data => data.take n :: rowsOf n k (data.drop n)

/-- `EmMotl.read_in`: reject unless the x dimension is 20 (`len(parsed[0][0]) == 20`; an empty
list has no row 0 and raises), name the columns `Motl.motl_columns`. -/
def readEm (f : EmFile β) : Option (Table β) :=
  if f.dimY = 0 then none
  else if f.dimX ≠ Gen.C01.readExpectedColumns then none
  else some { cols := genColumns, rows := rowsOf f.dimX f.dimY f.data }

/-- what a user sees after loading: each particle as its named fields -/
def particles (d : β) (t : Table β) : List (Particle β) := t.rows.map (fun r => Particle.ofFn (cell d t.cols r))

end CryoCat.C01
