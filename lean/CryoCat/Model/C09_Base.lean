/-! C09 — vocabulary shared by the generated file `Gen/C09.lean` and the model `Model/C09.lean`:
comparison operators as data (so that the operator written in the Python source is a *value* the
theorems can talk about), the two recorded forms of the lower-face test, and rounding modes.
Mathlib-free. -/
namespace CryoCat.C09

/-- a Python comparison operator found at an anchored decision -/
inductive Cmp
  | lt | le | gt | ge | eq | ne
deriving DecidableEq, Repr, Inhabited

namespace Cmp
variable {α : Type} [LT α] [LE α] [DecidableLT α] [DecidableLE α] [DecidableEq α]
/-- `a <op> b` -/
def eval (c : Cmp) (a b : α) : Bool :=
  match c with
  | lt => decide (a < b)
  | le => decide (a ≤ b)
  | gt => decide (b < a)
  | ge => decide (b ≤ a)
  | eq => decide (a = b)
  | ne => !decide (a = b)
end Cmp

/-- what `remove_out_of_bounds_particles` does about the lower faces.
`vacuousAll` is the text `all(c_min) >= 0`: `all(...)` is a `bool`, and `True >= 0`, `False >= 0`
both hold, so the conjunct is constantly true. `elementwise c` is a per-axis test
`c_min[i] <c> 0` on all three axes (what a repair would write, with `c = ge`). -/
inductive LowerForm
  | vacuousAll
  | elementwise (c : Cmp)
deriving DecidableEq, Repr, Inhabited

/-- how `box_size / 2` is turned into a whole number of voxels -/
inductive Rounding
  | ceil | floor
deriving DecidableEq, Repr, Inhabited

/-- `ceil(n / d)` resp. `floor(n / d)` for natural `n`, `d` -/
def Rounding.div (r : Rounding) (n d : Nat) : Nat :=
  match r with
  | .ceil => (n + (d - 1)) / d
  | .floor => n / d

/-- operators and constants of `remove_out_of_bounds_particles` -/
structure OobCfg where
  lower : LowerForm
  upper : Cmp
  rounding : Rounding
  divisor : Nat
deriving DecidableEq, Repr

/-- operators and constants of `adapt_to_trimming`: `trimvol = start - offset`;
removed when `x' <lowCmp> lowBound` or `x' <highCmp> tdim` on some axis -/
structure TrimCfg where
  offset : Nat
  lowCmp : Cmp
  lowBound : Nat
  highCmp : Cmp
deriving DecidableEq, Repr

/-- which rows `clean_by_tomo_mask` drops once it has the `subtomo_id`s of the particles of tomogram `t`
that sit on zero voxels: `byId` is `remove_feature("subtomo_id", ids)` on the WHOLE list (the code up
to commit 0eff65b: a particle of another tomogram that carries the same id goes as well);
`byTomoAndId` is `df.loc[~((df["tomo_id"] == t) & df["subtomo_id"].isin(ids))]` (today). -/
inductive RemoveScope
  | byId
  | byTomoAndId
deriving DecidableEq, Repr, Inhabited

/-- operators of `clean_by_tomo_mask`: inside when `idx <lowCmp> 0` and `idx <highCmp> shape` on all
axes; removed when additionally `mask <zeroCmp> 0`; `scope` says which rows go for a collected id -/
structure MaskCfg where
  lowCmp : Cmp
  highCmp : Cmp
  zeroCmp : Cmp
  scope : RemoveScope
deriving DecidableEq, Repr

/-- `cryomap.binarize`: a voxel is non-zero when `value <cmp> threshold` (threshold as a ratio) -/
structure BinarizeCfg where
  cmp : Cmp
  thrNum : Nat
  thrDen : Nat
deriving DecidableEq, Repr

end CryoCat.C09
