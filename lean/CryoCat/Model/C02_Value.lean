import CryoCat.Model.C02_Num
/-! C02 — the VALUE clause of the statement ("numeric values equal after rounding to 6 decimals") on the
read side, in exact rational arithmetic: `decValue` is the exact value of a decimal token (the tokens
`isDecTok` accepts), `bitsValue` the exact value and unit in the last place of a binary64 number given by
its bit pattern, `Round6Spec` what the statement asks of the token `Starfile.write` prints for a float
cell `v` — the specification of a "round to `float_precision` decimals, then print" writer: ANY decimal
string with at most `float_precision` fractional digits within half a unit of that decimal place of `v`
(plus the stated floating-point allowance) — and `round6Ok` its executable checker, run by the driver on
every float cell of every written file. The number of decimals is read from the source
(`Gen.C02.floatPrecision`). Mathlib-free. -/
namespace CryoCat.C02

/-- the natural number a string of decimal digits spells (`0` for the empty string): the fold
`a ↦ 10·a + (c − '0')` of Lean's own `Nat.ofDigitChars` (whose inverse relation to `Nat.toDigits` is a core theorem) -/
def digitsVal (w : Word) : Nat := Nat.ofDigitChars 10 w 0

/-- `10^e` for any integer `e` -/
def pow10 (e : Int) : Rat :=
  if 0 ≤ e then ((10 ^ e.toNat : Nat) : Rat) else 1 / ((10 ^ (-e).toNat : Nat) : Rat)

/-- the exponent spelled by the characters after `e` / `E` (`[+-]?d*`; nothing = 0) -/
def expOf (ex : Word) : Int :=
  if ex.head? = some '-' then -((digitsVal (dropSign ex) : Nat) : Int) else ((digitsVal (dropSign ex) : Nat) : Int)

/-- **exact value of a decimal token** `[+-]?(d+[.d*]|.d+)([eE][+-]?d+)?`: the digits of the integer and
fractional part read as one natural number, scaled by `10^(exponent - number of fractional digits)`,
negated after a `-`. `none` for every other token (in particular `inf`, `nan`, text). The token is cut
up by the same `dropSign` / `takeWhile` / `dropWhile` expressions as in the recogniser `isDecTok`. -/
def decValue (w : Word) : Option Rat :=
  if isDecTok w then
    let u := dropSign w
    let m := u.takeWhile (fun c => c != 'e' && c != 'E')
    let ex := (u.dropWhile (fun c => c != 'e' && c != 'E')).drop 1
    let ip := m.takeWhile isDigit
    let fp := (m.dropWhile isDigit).drop 1
    let mag : Rat := ((digitsVal (ip ++ fp) : Nat) : Rat) * pow10 (expOf ex - (fp.length : Int))
    some (if w.head? = some '-' then -mag else mag)
  else none

def pow2 (e : Int) : Rat :=
  if 0 ≤ e then ((2 ^ e.toNat : Nat) : Rat) else 1 / ((2 ^ (-e).toNat : Nat) : Rat)

/-- a finite binary64 number from its bit pattern: (exact value, unit in the last place); `none` for
inf / NaN and for anything that is not a 64-bit pattern -/
def bitsValue (b : Nat) : Option (Rat × Rat) :=
  let sign : Nat := b / 2 ^ 63
  let ex : Nat := (b / 2 ^ 52) % 2048
  let man : Nat := b % 2 ^ 52
  if sign > 1 ∨ ex = 2047 then none
  else
    let m : Nat := if ex = 0 then man else man + 2 ^ 52
    let e : Int := if ex = 0 then -1074 else (ex : Int) - 1075
    let mag : Rat := (m : Rat) * pow2 e
    some (if sign = 1 then -mag else mag, pow2 e)

def absQ (q : Rat) : Rat := if q < 0 then -q else q

/-- half a unit of the `p`-th decimal place -/
def halfUnit (p : Nat) : Rat := 1 / ((2 * 10 ^ p : Nat) : Rat)

/-- **What the statement asks of the token printed for the float cell `v`** (`p` decimals, `ulps`·`ulp`
of floating-point allowance): it is a decimal token, its exact value `d` has at most `p` fractional
digits (`d·10^p` is an integer) and `|d − v| ≤ ½·10⁻ᵖ + ulps·ulp`. -/
def Round6Spec (p : Nat) (ulps : Nat) (v ulp : Rat) (tok : Word) : Prop :=
  ∃ d, decValue tok = some d ∧ (d * ((10 ^ p : Nat) : Rat)).den = 1 ∧ absQ (d - v) ≤ halfUnit p + (ulps : Rat) * ulp

/-- the executable checker of `Round6Spec` (theorem `round6Ok_iff`) -/
def round6Ok (p : Nat) (ulps : Nat) (v ulp : Rat) (tok : Word) : Bool :=
  match decValue tok with
  | some d => decide ((d * ((10 ^ p : Nat) : Rat)).den = 1) && decide (absQ (d - v) ≤ halfUnit p + (ulps : Rat) * ulp)
  | none => false

/-- the floating-point allowance of the writer, in units in the last place of `v`: `numpy.round(v, p)` is
`rint(v·10ᵖ)/10ᵖ` in binary64 — the product is off by at most one ulp of `v`, the quotient by half an ulp
of the result, and the shortest round-trip digits printed for it lie within another half ulp of it; the
result may sit in the next binade (twice the ulp): 1 + 2·(½ + ½) = 3 -/
def writerUlps : Nat := 3

/-- the check the driver runs on a float cell given by its bit pattern and the token found in the file,
with the number of decimals of the source (`float_precision=6`) -/
def round6Cell (bits : Nat) (tok : Word) : Bool :=
  match bitsValue bits with
  | some (v, ulp) => round6Ok Gen.C02.floatPrecision writerUlps v ulp tok
  | none => false

end CryoCat.C02
