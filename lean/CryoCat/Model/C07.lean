import CryoCat.Model.Particle
import CryoCat.Model.M3
import CryoCat.Gen.C07
/-! C07 — model of `Motl.clean_by_distance` (cryocat/cryomotl.py) and of the peak extraction in
`tmana.scores_extract_particles` (cryocat/tmana.py, with `ioutils.rot_angles_load`). Mathlib-free.

Both are instances of one greedy rule: walk the candidates in score order, keep a candidate unless an
already kept one suppresses it. Comparison operators, sort directions, the `+ 1` of the positions and the
`zzx` column permutation are the ones the *source* uses today (`Gen/C07.lean`, regenerated on every run).
Distances are compared in squared form (`dist² < d²`), which is the same decision for `d > 0`. -/
namespace CryoCat.C07
open CryoCat.Gen.C07

variable {α : Type}

/-- a comparison operator of the source, evaluated -/
def evalCmp [LT α] [LE α] [DecidableLT α] [DecidableLE α] (c : Cmp) (a b : α) : Bool :=
  match c with
  | .lt => decide (a < b)
  | .le => decide (a ≤ b)
  | .gt => decide (b < a)
  | .ge => decide (b ≤ a)
  | .other => false

/-! ### the greedy rule -/
section Greedy
variable {P : Type}

/-- keep `c` unless an already kept item suppresses it (`near a c`: the kept `a` removes `c`) -/
def suppressStep (near : P → P → Bool) (kept : List P) (c : P) : List P :=
  if kept.any (fun a => near a c) then kept else kept ++ [c]

/-- candidates are processed in the order given; the result lists the kept ones in that order -/
def suppress (near : P → P → Bool) (order : List P) : List P := order.foldl (suppressStep near) []

end Greedy

/-! ### `Motl.clean_by_distance` -/

/-- what the cleaning looks at: row number, grouping value, score, complete position -/
structure Item (α : Type) where
  idx : Nat
  grp : α
  score : α
  pos : V3 α
deriving Repr, DecidableEq

def dist2 [Add α] [Sub α] [Mul α] (a b : V3 α) : α :=
  (a.x - b.x) * (a.x - b.x) + (a.y - b.y) * (a.y - b.y) + (a.z - b.z) * (a.z - b.z)

/-- `Motl.get_coordinates`: x + shift_x, y + shift_y, z + shift_z -/
def particlePos [Add α] (p : Particle α) : V3 α := ⟨p.x + p.shift_x, p.y + p.shift_y, p.z + p.shift_z⟩

/-- rows of the particle list, numbered from 0, grouped by `feature`, ranked by `score` -/
def itemsOf [Add α] (feature : Field) (l : List (Particle α)) : List (Item α) :=
  l.zipIdx.map (fun pi => ⟨pi.2, pi.1.get feature, pi.1.score, particlePos pi.1⟩)

section Clean
variable [Add α] [Sub α] [Mul α] [LT α] [LE α] [DecidableLT α] [DecidableLE α]

/-- `dist < d_cut` with the operator found in the source, in squared form -/
def nearClean (d : α) (a b : Item α) : Bool := evalCmp cleanDistCmp (dist2 a.pos b.pos) (d * d)

def scoreLe (a b : Item α) : Bool := decide (a.score ≤ b.score)

/-- `np.argsort(scores)[::-1]` (greater kept) / `np.argsort(scores)` (lower kept), directions from the source -/
def sortByScore (keepGreater : Bool) (g : List (Item α)) : List (Item α) :=
  let asc := g.mergeSort scoreLe
  if (if keepGreater then cleanSortDescGreater else cleanSortDescLower) then asc.reverse else asc

/-- one group: greedy suppression in score order; survivors are returned in row order (`iloc[temp_keep]`) -/
def cleanGroup (d : α) (keepGreater : Bool) (g : List (Item α)) : List (Item α) :=
  let kept := suppress (nearClean d) (sortByScore keepGreater g)
  g.filter (fun it => kept.any (fun k => k.idx == it.idx))

def dedup [DecidableEq α] : List α → List α
  | [] => []
  | a :: t => if a ∈ dedup t then dedup t else a :: dedup t

/-- `np.unique(feature values)`: distinct values, ascending -/
def groupKeys [DecidableEq α] (l : List α) : List α := (dedup l).mergeSort (fun a b => decide (a ≤ b))

/-- the loop over groups: every group is cleaned on its own and the survivors are concatenated -/
def cleanItems [DecidableEq α] (d : α) (keepGreater : Bool) (items : List (Item α)) : List (Item α) :=
  (groupKeys (items.map (·.grp))).flatMap
    (fun k => cleanGroup d keepGreater (items.filter (fun it => decide (it.grp = k))))

def cleanByDistance [DecidableEq α] (d : α) (keepGreater : Bool) (feature : Field) (l : List (Particle α)) :
    List (Item α) :=
  cleanItems d keepGreater (itemsOf feature l)

/-- documented relations (written by hand, independent of `Gen`): closer than `d`; equal or better score -/
def closer (d : α) (a b : Item α) : Bool := decide (dist2 a.pos b.pos < d * d)
def betterEq (keepGreater : Bool) (a b : α) : Bool := if keepGreater then decide (b ≤ a) else decide (a ≤ b)

/-- the other reading of "closer than d" (`≤`): used only to judge lists that hold a pair at distance exactly `d`,
which the statement leaves open -/
def closerLe (d : α) (a b : Item α) : Bool := decide (dist2 a.pos b.pos ≤ d * d)

/-- no number twice -/
def nodupB : List Nat → Bool
  | [] => true
  | a :: t => !t.contains a && nodupB t

/-- what remains of group `k` -/
def restrict [DecidableEq α] (k : α) (l : List (Item α)) : List (Item α) := l.filter (fun it => decide (it.grp = k))

/-- the remaining rows of every group appear in the order of the input list -/
def groupsInOrder [DecidableEq α] (items out : List (Item α)) : Bool :=
  (dedup (out.map (·.grp))).all (fun k => (restrict k out).isSublist items)

/-- verified checker of the cleaning clauses on *any* claimed result `out` (e.g. the implementation's), for a
closeness relation `rel`: every remaining row is an input row, no row remains twice, the rows of a group keep
the input order, no two remaining rows of a group are `rel`-close, every removed row is `rel`-close to a
remaining row of its group with an equal or better score -/
def checkCleanR [DecidableEq α] (rel : Item α → Item α → Bool) (keepGreater : Bool) (items out : List (Item α)) : Bool :=
  out.all (fun a => items.contains a) &&
  nodupB (out.map (·.idx)) &&
  groupsInOrder items out &&
  out.all (fun a => out.all (fun b => a.idx == b.idx || !decide (a.grp = b.grp) || !rel a b)) &&
  items.all (fun r => out.contains r ||
    out.any (fun k => decide (k.grp = r.grp) && rel k r && betterEq keepGreater k.score r.score))

/-- which clause a rejected result fails (for the replay) -/
def checkCleanClauseR [DecidableEq α] (rel : Item α → Item α → Bool) (keepGreater : Bool) (items out : List (Item α)) : String :=
  if !out.all (fun a => items.contains a) then "remaining-not-an-input-particle"
  else if !nodupB (out.map (·.idx)) then "a-particle-remains-twice"
  else if !groupsInOrder items out then "remaining-not-in-input-order"
  else if !out.all (fun a => out.all (fun b => a.idx == b.idx || !decide (a.grp = b.grp) || !rel a b)) then
    "two-remaining-closer-than-d"
  else if !items.all (fun r => out.contains r ||
      out.any (fun k => decide (k.grp = r.grp) && rel k r && betterEq keepGreater k.score r.score)) then
    "removed-without-better-neighbour-in-group"
  else "ok"

/-- the clauses the statement names, and nothing else: every remaining row is an input row, no row remains
twice, no two remaining rows of a group are `rel`-close, every removed row is `rel`-close to a remaining row of
its group with an equal or better score. The ORDER of the remaining rows is not tested (the statement is silent
about it): this is the checker whose rejection is a `spec` finding; `groupsInOrder` alone is a `corr` finding -/
def checkCleanCoreR [DecidableEq α] (rel : Item α → Item α → Bool) (keepGreater : Bool) (items out : List (Item α)) : Bool :=
  out.all (fun a => items.contains a) &&
  nodupB (out.map (·.idx)) &&
  out.all (fun a => out.all (fun b => a.idx == b.idx || !decide (a.grp = b.grp) || !rel a b)) &&
  items.all (fun r => out.contains r ||
    out.any (fun k => decide (k.grp = r.grp) && rel k r && betterEq keepGreater k.score r.score))

def checkCleanCoreClauseR [DecidableEq α] (rel : Item α → Item α → Bool) (keepGreater : Bool) (items out : List (Item α)) : String :=
  if !out.all (fun a => items.contains a) then "remaining-not-an-input-particle"
  else if !nodupB (out.map (·.idx)) then "a-particle-remains-twice"
  else if !out.all (fun a => out.all (fun b => a.idx == b.idx || !decide (a.grp = b.grp) || !rel a b)) then
    "two-remaining-closer-than-d"
  else if !items.all (fun r => out.contains r ||
      out.any (fun k => decide (k.grp = r.grp) && rel k r && betterEq keepGreater k.score r.score)) then
    "removed-without-better-neighbour-in-group"
  else "ok"

/-- the checker for the statement's reading: closer means `dist < d` -/
def checkClean [DecidableEq α] (d : α) (keepGreater : Bool) (items out : List (Item α)) : Bool :=
  checkCleanR (closer d) keepGreater items out

def checkCleanClause [DecidableEq α] (d : α) (keepGreater : Bool) (items out : List (Item α)) : String :=
  checkCleanClauseR (closer d) keepGreater items out

/-- the checker for the reading `dist ≤ d` (lists with exact-distance ties are rejected only when both readings reject) -/
def checkCleanLe [DecidableEq α] (d : α) (keepGreater : Bool) (items out : List (Item α)) : Bool :=
  checkCleanR (closerLe d) keepGreater items out

/-- groups judged one at a time: what remains of group `k` is checked against the rows of group `k` alone
(no other row of the list enters the verdict) -/
def checkGroups [DecidableEq α] (rel : Item α → Item α → Bool) (keepGreater : Bool) (items out : List (Item α)) :
    List (α × Bool × String) :=
  (groupKeys (items.map (·.grp))).map (fun k =>
    (k, checkCleanR rel keepGreater (restrict k items) (restrict k out),
      checkCleanClauseR rel keepGreater (restrict k items) (restrict k out)))

/-- every remaining row belongs to the list and every group passes on its own -/
def checkIndependent [DecidableEq α] (rel : Item α → Item α → Bool) (keepGreater : Bool) (items out : List (Item α)) : Bool :=
  out.all (fun a => items.contains a) && (checkGroups rel keepGreater items out).all (fun r => r.2.1)

/-- per-group verdicts of the order-free checker -/
def checkGroupsCore [DecidableEq α] (rel : Item α → Item α → Bool) (keepGreater : Bool) (items out : List (Item α)) :
    List (α × Bool × String) :=
  (groupKeys (items.map (·.grp))).map (fun k =>
    (k, checkCleanCoreR rel keepGreater (restrict k items) (restrict k out),
      checkCleanCoreClauseR rel keepGreater (restrict k items) (restrict k out)))

def checkIndependentCore [DecidableEq α] (rel : Item α → Item α → Bool) (keepGreater : Bool) (items out : List (Item α)) : Bool :=
  out.all (fun a => items.contains a) && (checkGroupsCore rel keepGreater items out).all (fun r => r.2.1)

end Clean

/-! ### peak extraction from a score map -/

/-- a voxel of the score map: 0-based array index, score, angle-map entry -/
structure Vox (α : Type) where
  x : Nat
  y : Nat
  z : Nat
  score : α
  ang : Int
deriving Repr, DecidableEq

/-- an extracted particle: position, score, Euler angles as filled into the motl -/
structure Peak (α : Type) where
  x : Nat
  y : Nat
  z : Nat
  score : α
  phi : α
  theta : α
  psi : α
deriving Repr, DecidableEq

inductive AngOrder | zxz | zzx
deriving DecidableEq, Repr

/-- the angle-list row a peak's angles must come from: a `zxz` list holds (phi, theta, psi), a `zzx` list
(phi, psi, theta) — the documented convention, written by hand -/
def listedAngles (ord : AngOrder) (p : Peak α) : α × α × α :=
  match ord with
  | .zxz => (p.phi, p.theta, p.psi)
  | .zzx => (p.phi, p.psi, p.theta)

/-- result of `scores_extract_particles`: `None`, an index error from the angle list, or the motl -/
inductive PeakResult (α : Type)
  | empty
  | badAngle
  | peaks (l : List (Peak α))
deriving Repr, DecidableEq

/-- all voxels of maps given as flat C-order lists (`a[x, y, z]` at `(x * ny + y) * nz + z`) -/
def voxels (ny nz : Nat) (scores : List α) (angles : List Int) : List (Vox α) :=
  (scores.zip angles).zipIdx.map
    (fun sai => ⟨sai.2 / (ny * nz), (sai.2 / nz) % ny, sai.2 % nz, sai.1.1, sai.1.2⟩)

def flatIdx (ny nz x y z : Nat) : Nat := (x * ny + y) * nz + z

/-- squared Euclidean distance of two voxel positions -/
def vd2 (ax ay az bx byy bz : Nat) : Int :=
  ((ax : Int) - bx) * ((ax : Int) - bx) + ((ay : Int) - byy) * ((ay : Int) - byy) + ((az : Int) - bz) * ((az : Int) - bz)

/-- closed ball of `query_ball_point(coord, particle_diameter)`, diameter `dn / dd`:
`dist ≤ dn/dd` iff `dist² · dd² ≤ dn²` -/
def inBall (dn dd : Nat) (a b : Vox α) : Bool :=
  decide (vd2 a.x a.y a.z b.x b.y b.z * ((dd : Int) * dd) ≤ (dn : Int) * dn)

section Peaks
variable [LT α] [LE α] [DecidableLT α] [DecidableLE α]

/-- a kept voxel removes every voxel of its ball whose score is `<=` its own (operator from the source) -/
def nearPeak (dn dd : Nat) (a c : Vox α) : Bool := inBall dn dd a c && evalCmp peakScoreCmp c.score a.score

def scoreGe (a b : Vox α) : Bool := decide (b.score ≤ a.score)
def scoreLeV (a b : Vox α) : Bool := decide (a.score ≤ b.score)

/-- `sorted(..., key=score, reverse=True)` -/
def peakOrder (l : List (Vox α)) : List (Vox α) :=
  if peakSortDesc then l.mergeSort scoreGe else l.mergeSort scoreLeV

def rowList (t : α × α × α) : List α := [t.1, t.2.1, t.2.2]

/-- `ioutils.rot_angles_load` for an angle list with three columns: `zzx` lists hold (phi, psi, theta)
and are permuted with the column indices found in the source -/
def loadAngles (ord : AngOrder) (rows : List (α × α × α)) : List (List α) :=
  match ord with
  | .zxz => rows.map rowList
  | .zzx => rows.map (fun t => zzxArrayPerm.filterMap (fun c => (rowList t)[c]?))

def colOf (name : String) : Option Nat := peakAngleCols.lookup name
def posOf (name : String) (v : Vox α) : Option Nat :=
  match peakPosFill.lookup name with
  | some (c, off) => ([v.x, v.y, v.z][c]?).map (· + off)
  | none => none

/-- the motl row of a kept voxel; `none` when the angle index is outside the list -/
def peakOf (anglist : List (List α)) (numbering : Int) (v : Vox α) : Option (Peak α) :=
  let i := v.ang - numbering
  if i < 0 then none else
  match anglist[i.toNat]?, posOf "x" v, posOf "y" v, posOf "z" v, colOf "phi", colOf "theta", colOf "psi" with
  | some row, some x, some y, some z, some cphi, some cthe, some cpsi =>
    match row[cphi]?, row[cthe]?, row[cpsi]? with
    | some phi, some theta, some psi => some ⟨x, y, z, v.score, phi, theta, psi⟩
    | _, _, _ => none
  | _, _, _, _, _, _, _ => none

/-- voxels above the threshold (`scores_map > threshold`), best first -/
def supra (thr : α) (vs : List (Vox α)) : List (Vox α) := vs.filter (fun v => evalCmp peakThrCmp v.score thr)

def keptVoxels (thr : α) (dn dd : Nat) (vs : List (Vox α)) : List (Vox α) :=
  suppress (nearPeak dn dd) (peakOrder (supra thr vs))

def extractFrom (thr : α) (dn dd : Nat) (vs : List (Vox α)) (anglist : List (α × α × α)) (numbering : Int)
    (ord : AngOrder) : PeakResult α :=
  if (supra thr vs).isEmpty then .empty else
  let ps := (keptVoxels thr dn dd vs).map (peakOf (loadAngles ord anglist) numbering)
  if ps.all Option.isSome then .peaks (ps.filterMap id) else .badAngle

def extractPeaks (thr : α) (dn dd ny nz : Nat) (scores : List α) (angles : List Int) (anglist : List (α × α × α))
    (numbering : Int) (ord : AngOrder) : PeakResult α :=
  extractFrom thr dn dd (voxels ny nz scores angles) anglist numbering ord

/-- every peak is a voxel above the threshold carrying score, 1-based position and the listed angles -/
def carryOk (thr : α) [DecidableEq α] (vs : List (Vox α)) (anglist : List (α × α × α)) (numbering : Int)
    (ord : AngOrder) (out : List (Peak α)) : Bool :=
  out.all (fun p => vs.any (fun v => decide (thr < v.score) &&
      decide (p.x = v.x + 1 ∧ p.y = v.y + 1 ∧ p.z = v.z + 1 ∧ p.score = v.score) &&
      decide (0 ≤ v.ang - numbering) &&
      decide (anglist[(v.ang - numbering).toNat]? = some (listedAngles ord p))))

/-- peaks at different positions are farther apart than the diameter (kept for reference; `checkPeaks` uses
the stronger `farPairs`, which also rejects two rows at one position) -/
def farOk (dn dd : Nat) (out : List (Peak α)) : Bool :=
  out.all (fun p => out.all (fun q => decide (p.x = q.x ∧ p.y = q.y ∧ p.z = q.z) ||
      decide ((dn : Int) * dn < vd2 p.x p.y p.z q.x q.y q.z * ((dd : Int) * dd))))

/-- any two ENTRIES of the peak table (list positions i < j) are farther apart than the diameter; two rows at
the same position (distance 0) are therefore rejected for every diameter -/
def farPairs (dn dd : Nat) : List (Peak α) → Bool
  | [] => true
  | p :: t => t.all (fun q => decide ((dn : Int) * dn < vd2 p.x p.y p.z q.x q.y q.z * ((dd : Int) * dd))) && farPairs dn dd t

/-- every voxel above the threshold is within the diameter of a peak with an equal or higher score -/
def coverOk (thr : α) (dn dd : Nat) (vs : List (Vox α)) (out : List (Peak α)) : Bool :=
  vs.all (fun v => !decide (thr < v.score) ||
      out.any (fun p => decide (vd2 p.x p.y p.z (v.x + 1) (v.y + 1) (v.z + 1) * ((dd : Int) * dd) ≤ (dn : Int) * dn) &&
        decide (v.score ≤ p.score)))

/-- verified checker of the peak clauses on any claimed peak table -/
def checkPeaks (thr : α) (dn dd : Nat) [DecidableEq α] (vs : List (Vox α)) (anglist : List (α × α × α)) (numbering : Int)
    (ord : AngOrder) (out : List (Peak α)) : Bool :=
  carryOk thr vs anglist numbering ord out && farPairs dn dd out && coverOk thr dn dd vs out

def checkPeaksClause (thr : α) (dn dd : Nat) [DecidableEq α] (vs : List (Vox α)) (anglist : List (α × α × α)) (numbering : Int)
    (ord : AngOrder) (out : List (Peak α)) : String :=
  if !carryOk thr vs anglist numbering ord out then "peak-does-not-carry-voxel-score-position-angles-or-is-below-threshold"
  else if !farPairs dn dd out then "two-peaks-within-the-diameter"
  else if !coverOk thr dn dd vs out then "supra-threshold-voxel-not-covered-by-a-better-peak"
  else "ok"

end Peaks

end CryoCat.C07
