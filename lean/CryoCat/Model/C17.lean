import CryoCat.Gen.C17
/-! C17 — model of `cryocat/mdoc.py` (`Mdoc._read_mdoc`, `_parse_header`, `_parse_images`,
`_format_value`, `write`, `sort_by_tilt`, `remove_images`, `kept_images`) on lists of characters.
Mathlib-free, executable; the driver runs exactly these definitions.

A file is a list of lines (no terminators). Values are typed exactly like `_format_value`:
all-digits → `int`, digits with one '.' → `float`, everything else (incl. every negative number and
every exponent form) → text. Numbers are kept as *canonical decimal digit strings* (`int "7"`,
`flt "12" "5"` = 12.5), which is what Python's `int`/`float` followed by `str` produce for decimals of
at most 15 significant digits (recorded assumption; probed by the harness on every run).
`none` = the code raises, or the input is outside this STRICT model (sections whose key lists
differ, duplicate keys, a `[` line inside a section, TiltAngle / section values in spellings only `float()` / `int()`
accept). Model/C17_Ext.lean separates the two: `parseMdocX` follows the code on duplicate header keys and float() tilt
spellings (conservative extension of `parseMdoc`), `whyNone` names the remaining classes, which are generated and
explicitly skipped by the judge. -/
namespace CryoCat.C17

abbrev Str := List Char

/-! ### characters and strings -/
def isWs (c : Char) : Bool := c == ' ' || c == '\t' || c == '\n' || c == '\r' || c == '\x0b' || c == '\x0c'
def lstrip (s : Str) : Str := s.dropWhile isWs
def rstrip (s : Str) : Str := (s.reverse.dropWhile isWs).reverse
/-- `str.strip()` -/
def strip (s : Str) : Str := rstrip (lstrip s)
/-- `str.strip(c)` for a single character -/
def stripCh (c : Char) (s : Str) : Str := ((s.dropWhile (· == c)).reverse.dropWhile (· == c)).reverse
/-- `str.split("=")` -/
def splitEq : Str → List Str
  | [] => [[]]
  | c :: cs =>
    if c == '=' then [] :: splitEq cs
    else match splitEq cs with
      | [] => [[c]]
      | p :: ps => (c :: p) :: ps
/-- `s.isdigit()` for ASCII text: non-empty and only decimal digits -/
def allDigits (s : Str) : Bool := !s.isEmpty && s.all Char.isDigit
/-- `s.replace(".", "", 1)` -/
def removeFirstDot : Str → Str
  | [] => []
  | c :: cs => if c == '.' then cs else c :: removeFirstDot cs
/-- the parts before / after the first '.' -/
def splitDot : Str → Str × Str
  | [] => ([], [])
  | c :: cs => if c == '.' then ([], cs) else ((c :: (splitDot cs).1), (splitDot cs).2)
def dropZeros (s : Str) : Str := s.dropWhile (· == '0')
/-- canonical integer part: no leading zeros, "0" for zero (`str(int(s))`) -/
def normI (s : Str) : Str := if (dropZeros s).isEmpty then ['0'] else dropZeros s
/-- canonical fraction part: no trailing zeros, "0" for zero -/
def normF (s : Str) : Str := if (dropZeros s.reverse).isEmpty then ['0'] else (dropZeros s.reverse).reverse

/-! ### typed values (`Mdoc._format_value`) and how `str.format` prints them -/
inductive Val where
  | int (ds : Str)                    -- Python int, canonical digits
  | flt (i f : Str)                   -- Python float i.f, canonical digits
  | text (s : Str)                    -- str
  | tilt (neg : Bool) (i f : Str)     -- a cell of the float64 column TiltAngle (signed)
deriving Repr, DecidableEq, Inhabited

/-- `Mdoc._format_value` -/
def classify (raw : Str) : Val :=
  let s := strip raw
  if allDigits s then .int (normI s)
  else if allDigits (removeFirstDot s) then .flt (normI (splitDot s).1) (normF (splitDot s).2)
  else .text s

def leadingZeros (s : Str) : Nat := (s.takeWhile (· == '0')).length
/-- the floats Python prints in exponent form: `x ≥ 1e16` or `0 < x < 1e-4` -/
def expClass (i f : Str) : Bool := decide (17 ≤ i.length) || (i == ['0'] && f != ['0'] && decide (4 ≤ leadingZeros f))
def twoDigits (n : Nat) : Str := if n < 10 then '0' :: Nat.toDigits 10 n else Nat.toDigits 10 n
def mantissa : Str → Str
  | [] => ['0']
  | [d] => [d]
  | d :: rest => d :: '.' :: rest
/-- `repr(float)` of the canonical decimal `i.f` (shortest-digits form; see the file header) -/
def pyRepr (i f : Str) : Str :=
  if 17 ≤ i.length then
    mantissa ((dropZeros (i ++ (if f == ['0'] then [] else f)).reverse).reverse) ++ ['e', '+'] ++ twoDigits (i.length - 1)
  else if i == ['0'] && f != ['0'] && decide (4 ≤ leadingZeros f) then
    mantissa (f.drop (leadingZeros f)) ++ ['e', '-'] ++ twoDigits (leadingZeros f + 1)
  else i ++ '.' :: f

/-- `"{}".format(value)` -/
def Val.fmt : Val → Str
  | .int ds => ds
  | .flt i f => pyRepr i f
  | .text s => s
  | .tilt neg i f => (if neg then ['-'] else []) ++ pyRepr i f

/-- `imgs["TiltAngle"].astype(float)` on one cell; text is accepted in the form `-digits[.digits]` -/
def toTilt : Val → Option Val
  | .int ds => some (.tilt false ds ['0'])
  | .flt i f => some (.tilt false i f)
  | .tilt n i f => some (.tilt n i f)
  | .text ('-' :: r) =>
    if allDigits r then some (.tilt true (normI r) ['0'])
    else if allDigits (removeFirstDot r) then some (.tilt true (normI (splitDot r).1) (normF (splitDot r).2))
    else none
  | .text _ => none

/-! ### the Mdoc object -/
structure Row where
  z : Str                 -- the section value (ZValue / FrameSet), canonical int digits
  cells : List Val        -- one per column, in column order
  removed : Bool
deriving Repr, DecidableEq, Inhabited

structure Mdoc where
  info : List (Str × Val)     -- project_info (insertion order)
  titles : List Str
  sid : Str                   -- section_id
  cols : List Str             -- image columns other than the section id and "Removed"
  rows : List Row
deriving Repr, DecidableEq, Inhabited

/-! ### writer (`Mdoc.write`) -/
def printKV (k : Str) (v : Val) : Str := k ++ Gen.C17.kvSep ++ v.fmt
def printSec (sid z : Str) : Str := Gen.C17.secOpen ++ sid ++ Gen.C17.secSep ++ z ++ Gen.C17.secClose
def printTitle (t : Str) : Str := Gen.C17.titleOpen ++ t ++ Gen.C17.titleClose
def printRow (sid : Str) (cols : List Str) (r : Row) : List Str :=
  printSec sid r.z :: (List.zipWith printKV cols r.cells ++ [[]])
/-- which rows `write(removed=…)` emits: `removed or (not removed and not row["Removed"])` -/
def written (withRemoved : Bool) (r : Row) : Bool :=
  if Gen.C17.writeKeepsWhenNotRemoved then withRemoved || !r.removed else withRemoved || r.removed
def printMdoc (withRemoved : Bool) (m : Mdoc) : List Str :=
  m.info.map (fun kv => printKV kv.1 kv.2) ++ [[]] ++ m.titles.flatMap (fun t => [printTitle t, []])
    ++ (m.rows.filter (written withRemoved)).flatMap (printRow m.sid m.cols)

/-! ### reader -/
def isBlank (l : Str) : Bool := (strip l).isEmpty
/-- `line.startswith("[ZValue")` / `"[FrameSet"`, in source order -/
def secStart (l : Str) : Option Str :=
  Gen.C17.sectionPrefixes.findSome? (fun p => if p.1.isPrefixOf l then some p.2 else none)

/-- `key, value = line.split("=")` (anything but exactly two parts raises) -/
def parseKV (l : Str) : Option (Str × Val) :=
  match splitEq l with
  | [k, v] => some (strip k, classify v)
  | _ => none

def parseTitle (l : Str) : Str := strip (stripCh ']' (stripCh '[' l))

/-- `_parse_header` on the stripped non-blank header lines → (titles, project_info) -/
def parseHeader : List Str → Option (List Str × List (Str × Val))
  | [] => some ([], [])
  | l :: ls =>
    match parseHeader ls with
    | none => none
    | some (ts, info) =>
      if ['['].isPrefixOf l then some (parseTitle l :: ts, info)
      else match parseKV l with
        | none => none
        | some kv => if info.any (fun e => e.1 == kv.1) then none else some (ts, kv :: info)

/-- the section loop of `_parse_images`; `cur` is the section being collected -/
def secGo (p : Str) (cur : List Str) : List Str → List (List Str)
  | [] => [cur]
  | l :: ls =>
    if p.isPrefixOf l && !cur.isEmpty then cur :: secGo p (if isBlank l then [] else [l]) ls
    else secGo p (if isBlank l then cur else cur ++ [l]) ls

/-- the value of a `[ZValue = 3]` line: `line.split("=")[1].strip().strip("]").strip()` -/
def parseSecValue (l : Str) : Option Str :=
  match splitEq l with
  | _ :: v :: _ => some (strip (stripCh ']' (strip v)))
  | _ => none

/-- key/value lines of one section (all lines after the first) -/
def parseBody : List Str → Option (List (Str × Val))
  | [] => some []
  | l :: ls =>
    match parseBody ls with
    | none => none
    | some kvs =>
      if ['['].isPrefixOf l then none
      else match parseKV l with
        | none => none
        | some kv => if kvs.any (fun e => e.1 == kv.1) then none else some (kv :: kvs)

def convTilt (kv : Str × Val) : Option Val := if kv.1 == Gen.C17.tiltKey then toTilt kv.2 else some kv.2

/-- one section → one table row (`astype({section_id: int})`, `TiltAngle.astype(float)`) -/
def mkRow (cols : List Str) (sec : List Str) : Option Row :=
  match sec with
  | [] => none
  | h :: body =>
    match parseSecValue h, parseBody body with
    | some z, some kvs =>
      if !allDigits z then none
      else if kvs.map (·.1) != cols then none
      else match kvs.mapM convTilt with
        | some cells => some { z := normI z, cells := cells, removed := false }
        | none => none
    | _, _ => none

def colName (l : Str) : Str := strip ((splitEq l).headD [])

/-- `Mdoc._read_mdoc` on the lines of a file -/
def parseMdoc (lines : List Str) : Option Mdoc :=
  let headerLines := ((lines.takeWhile (fun l => (secStart l).isNone)).filter (fun l => !isBlank l)).map strip
  let data := lines.dropWhile (fun l => (secStart l).isNone)
  match data with
  | [] => none
  | first :: _ =>
    match secStart first, parseHeader headerLines with
    | some sid, some (titles, info) =>
      let sections := secGo ('[' :: sid) [] data
      match sections with
      | [] => none
      | s0 :: _ =>
        let cols := (s0.drop 1).map colName
        if !cols.contains Gen.C17.tiltKey then none
        else match sections.mapM (mkRow cols) with
          | some rows => some { info := info, titles := titles, sid := sid, cols := cols, rows := rows }
          | none => none
    | _, _ => none

/-! ### operations -/
def natOfDigits (s : Str) : Nat := s.foldl (fun a c => 10 * a + (c.toNat - 48)) 0
/-- the number a canonical decimal denotes -/
def decVal (neg : Bool) (i f : Str) : Rat :=
  let q : Rat := mkRat (natOfDigits (i ++ f)) (10 ^ f.length)
  if neg then -q else q
/-- numeric value of a cell (text is not a number: Python raises on `str + float`) -/
def Val.num? : Val → Option Rat
  | .int ds => some (decVal false ds [])
  | .flt i f => some (decVal false i f)
  | .tilt n i f => some (decVal n i f)
  | .text _ => none

def colIdx (m : Mdoc) (k : Str) : Option Nat := let i := m.cols.idxOf k; if i < m.cols.length then some i else none
def Row.numAt (r : Row) (i : Nat) : Option Rat := match r.cells[i]? with | some v => v.num? | none => none
def Row.tiltAt (i : Nat) (r : Row) : Rat := (r.numAt i).getD 0

/-- generic stable sort of rows by a key (`DataFrame.sort_values(by=…)`; the generators exclude ties,
for which pandas' default quicksort promises no order) -/
def sortRowsBy (key : Row → Rat) (asc : Bool) (rows : List Row) : List Row :=
  rows.mergeSort (fun a b => if asc then decide (key a ≤ key b) else decide (key b ≤ key a))

def renumber (rows : List Row) : List Row := rows.zipIdx.map (fun p => { p.1 with z := Nat.toDigits 10 p.2 })

/-- `self.imgs["ZValue"] = range(n)` on a table whose section column is NOT called "ZValue" (a FrameSet mdoc): pandas
overwrites a data column of that name when there is one, otherwise it appends a NEW column — every image gains an entry
`ZValue = k` (open finding C17-K3: the statement's "sorting changes only the order" fails for this class) -/
def resetForeign (m : Mdoc) : Mdoc :=
  let k := Gen.C17.resetKey
  let i := m.cols.idxOf k
  if i < m.cols.length then
    { m with rows := m.rows.zipIdx.map (fun p => { p.1 with cells := p.1.cells.set i (.int (Nat.toDigits 10 p.2)) }) }
  else
    { m with cols := m.cols ++ [k],
             rows := m.rows.zipIdx.map (fun p => { p.1 with cells := p.1.cells ++ [.int (Nat.toDigits 10 p.2)] }) }

/-- does `reset_z_value=True` hit the section column of this object? (the source hard-codes the key `Gen.C17.resetKey`) -/
def resetHitsSection (m : Mdoc) : Bool := Gen.C17.resetUsesSectionId || m.sid == Gen.C17.resetKey

/-- `Mdoc.sort_by_tilt(reset_z_value)`; the reset writes the column literally named "ZValue" (`Gen.C17.resetKey`) -/
def sortByTilt (reset : Bool) (m : Mdoc) : Mdoc :=
  let i := m.cols.idxOf Gen.C17.sortKey
  let rows := sortRowsBy (Row.tiltAt i) Gen.C17.sortAscending m.rows
  if reset && !resetHitsSection m then resetForeign { m with rows := rows }
  else { m with rows := if reset then renumber rows else rows }

def keptImages (m : Mdoc) : List Row := m.rows.filter (fun r => !r.removed)

/-- Python index into a sequence of length `n` (negative counts from the end; out of range raises) -/
def pyIndex (n : Nat) (i : Int) : Option Nat :=
  if 0 ≤ i then (if i.toNat < n then some i.toNat else none)
  else if (-i).toNat ≤ n then some (n - (-i).toNat) else none

/-- positions (in the current table order) the indices refer to: `kept_images().index` or `imgs.index` -/
def candidates (keptOnly : Bool) (rows : List Row) : List Nat :=
  (rows.zipIdx.filter (fun p => !keptOnly || !p.1.removed)).map (·.2)

def targets (idxs : List Int) (keptOnly : Bool) (rows : List Row) : Option (List Nat) :=
  let c := candidates keptOnly rows
  idxs.mapM (fun i => match pyIndex c.length i with | some j => c[j]? | none => none)

/-- `Mdoc.remove_images(indices, kept_only)` -/
def removeImages (idxs : List Int) (keptOnly : Bool) (m : Mdoc) : Option Mdoc :=
  match targets idxs keptOnly m.rows with
  | none => none
  | some ts => some { m with rows := m.rows.zipIdx.map (fun p => if ts.contains p.2 then { p.1 with removed := true } else p.1) }

/-- `ioutils.total_dose_load(<file>.mdoc)`: sort by tilt, then ExposureDose + PriorRecordDose per image -/
def mdocDose (m : Mdoc) : Option (List Rat) :=
  match colIdx m Gen.C17.exposureKey, colIdx m Gen.C17.priorKey with
  | some e, some p =>
    (sortByTilt false m).rows.mapM (fun r =>
      match r.numAt e, r.numAt p with
      | some a, some b => if Gen.C17.doseIsExposurePlusPrior then some (a + b) else none
      | _, _ => none)
  | _, _ => none

/-- `ioutils.tlt_load(<file>.mdoc, sort_angles)` -/
def mdocTilts (sort : Bool) (m : Mdoc) : List Rat :=
  let i := m.cols.idxOf Gen.C17.tiltKey
  let ts := m.rows.map (Row.tiltAt i)
  if sort then ts.mergeSort (fun a b => decide (a ≤ b)) else ts

/-! ### operation sequences (what the console scripts `remove_images`, `sort_mdoc_by_tilt_angles` chain) -/
inductive Op where
  | sort                                          -- `sort_by_tilt()`
  | remove (idxs : List Int) (keptOnly : Bool)    -- `remove_images(idxs, kept_only)`
deriving Repr, DecidableEq

def Op.apply : Op → Mdoc → Option Mdoc
  | .sort, m => some (sortByTilt false m)
  | .remove idxs k, m => removeImages idxs k m

/-- run the operations in order; `none` as soon as one raises -/
def applyOps : List Op → Mdoc → Option Mdoc
  | [], m => some m
  | o :: os, m => (o.apply m).bind (applyOps os)

end CryoCat.C17
