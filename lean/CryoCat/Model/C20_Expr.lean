/-! C20 — syntax of the anchored source expressions of `cryocat/memthick.py` (Mathlib-free).

The translator (`harness/props/c20.py`) re-extracts, from the three candidate kernels
(`measure_thickness_cpu`, `find_matches_parallel`, `find_all_possible_matches_kernel`), the
expressions that decide whether a target is admissible, inlines the local assignments and renames the
leaves to the canonical variables below. `Props/C20` proves that they evaluate to the model's
`d2`, `proj`, `lat2` over every commutative ring and that the three sites are identical. -/
namespace CryoCat.C20

/-- canonical leaves: source point `ps`, target point `pt`, source normal `n`, the cone multiplier
`m` (`max_angle_cos` in the source) and the search radius `r` (`max_thickness_voxels`) -/
inductive Var
  | ps0 | ps1 | ps2 | pt0 | pt1 | pt2 | n0 | n1 | n2 | m | r
deriving DecidableEq, Repr

/-- polynomial expressions (`+`, `-`, `*`, `**2`) -/
inductive Expr
  | var (v : Var)
  | add (a b : Expr)
  | sub (a b : Expr)
  | mul (a b : Expr)
  | sq (a : Expr)
deriving DecidableEq, Repr

inductive Cmp
  | lt | le | gt | ge | eq | ne
deriving DecidableEq, Repr

/-- how the cone multiplier is computed from `max_angle_degrees` -/
inductive AExpr
  | deg
  | radians (a : AExpr)
  | tan (a : AExpr)
  | cos (a : AExpr)
  | sin (a : AExpr)
  | sq (a : AExpr)
  | other (s : String)
deriving DecidableEq, Repr

/-- the library functions an angle expression may call (numpy / math at run time; `Real` ones in proofs) -/
structure Trig (α : Type) where
  radians : α → α
  tan : α → α
  cos : α → α
  sin : α → α

/-- value of an anchored angle expression at `max_angle_degrees = deg`; `none` for syntax the translator did
not recognise -/
def AExpr.eval {α : Type} [Mul α] (T : Trig α) (deg : α) : AExpr → Option α
  | .deg => some deg
  | .radians a => (a.eval T deg).map T.radians
  | .tan a => (a.eval T deg).map T.tan
  | .cos a => (a.eval T deg).map T.cos
  | .sin a => (a.eval T deg).map T.sin
  | .sq a => (a.eval T deg).map (fun x => x * x)
  | .other _ => none

/-- the distance pre-filter of a site: an explicit comparison `dist <cmp> r`, or the closed-ball
KD-tree query `query_ball_point(source_points, r)` -/
inductive Ball
  | cmp (c : Cmp)
  | kdtreeClosedBall
  | missing
deriving DecidableEq, Repr

/-- everything one kernel computes to decide admissibility of a (source, target) pair -/
structure Site where
  /-- argument of the square root giving `dist` -/
  dist2 : Expr
  /-- `proj` -/
  proj : Expr
  /-- operator of `proj <op> 0` -/
  projCmp : Cmp
  /-- `lateral_dist_sq` -/
  lat2 : Expr
  /-- operator of `lateral_dist_sq <op> rhs` -/
  coneCmp : Cmp
  /-- right-hand side of the cone test -/
  coneRhs : Expr
deriving DecidableEq, Repr

/-- environment: the three vectors and the two scalars -/
structure Env (α : Type) where
  ps0 : α
  ps1 : α
  ps2 : α
  pt0 : α
  pt1 : α
  pt2 : α
  n0 : α
  n1 : α
  n2 : α
  m : α
  r : α

def Env.get {α : Type} (e : Env α) : Var → α
  | .ps0 => e.ps0 | .ps1 => e.ps1 | .ps2 => e.ps2
  | .pt0 => e.pt0 | .pt1 => e.pt1 | .pt2 => e.pt2
  | .n0 => e.n0 | .n1 => e.n1 | .n2 => e.n2
  | .m => e.m | .r => e.r

def Expr.eval {α : Type} [Add α] [Sub α] [Mul α] (e : Env α) : Expr → α
  | .var v => e.get v
  | .add a b => a.eval e + b.eval e
  | .sub a b => a.eval e - b.eval e
  | .mul a b => a.eval e * b.eval e
  | .sq a => a.eval e * a.eval e

end CryoCat.C20
