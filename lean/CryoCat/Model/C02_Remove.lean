import CryoCat.Model.C02_Num
import CryoCat.Model.C02_Comments
/-! C02 — hardening pass: the signature defaults of `Starfile.write` (`specifiers=None`,
`number_columns=True`), `Starfile.remove_lines` (read, drop rows of one block, write the frames back
with the specifiers and comments `read` returned), and the layout class of the *statement* (without the
two extra constraints the reader needs). Mathlib-free; executed by the driver. -/
namespace CryoCat.C02

/-! ### defaults -/

/-- `specifiers=None`: `["data"] * len(frames)` -/
def defaultSpecifiers (n : Nat) : List Word := List.replicate n Gen.C02.defaultSpecifier

/-- the tables as `Starfile.write(frames, path)` names them when no specifiers are given -/
def withDefaultNames (bs : List Block) : List Block := bs.map (fun b => { b with name := Gen.C02.defaultSpecifier })

/-! ### `remove_lines` -/

/-- `frame.drop(frame.index[lines_to_remove])`: the rows whose position is not listed, in order -/
def dropRowsGo {α : Type} (idx : List Nat) : Nat → List α → List α
  | _, [] => []
  | i, r :: rs => if idx.contains i then dropRowsGo idx (i + 1) rs else r :: dropRowsGo idx (i + 1) rs

def dropRows {α : Type} (idx : List Nat) (rows : List α) : List α := dropRowsGo idx 0 rows

/-- the frames after `frames[k] = frames[k].drop(...)` -/
def dropAt : List Block → Nat → List Nat → List Block
  | [], _, _ => []
  | b :: bs, 0, idx => { b with rows := dropRows idx b.rows } :: bs
  | b :: bs, k + 1, idx => b :: dropAt bs k idx

inductive RemErr where
  | sel (e : SelErr)    -- the read failed / `frames[0]` of an empty list
  | notFound            -- `data_specifier` not in the file: a warning, nothing written
  | rowIndex            -- a position beyond the last row (IndexError of `index[...]`)
deriving DecidableEq, Repr

/-- `Starfile.remove_lines(path, lines_to_remove, output_file, data_specifier, number_columns)`: the text
written to `output_file` (positions are non-negative) -/
def blocksOf (bcs : List (Block × List Comment)) : List Block := bcs.map (fun p => p.1)
def comsOf (bcs : List (Block × List Comment)) : List (Option (List Comment)) := bcs.map (fun p => some p.2)

def removeLines (txt : List Char) (idx : List Nat) (spec : Option Word) (numberColumns : Bool) : Except RemErr (List Char) :=
  match readStarC txt with
  | .error e => .error (.sel (.parse e))
  | .ok bcs =>
    match (match spec with | none => some 0 | some s => specifierId ((blocksOf bcs).map Block.name) s) with
    | none => .error .notFound
    | some k =>
      match bcs[k]? with
      | none => .error (.sel .index)
      | some bc =>
        if idx.all (· < bc.1.rows.length) then
          match printStarC numberColumns (comsOf bcs) (dropAt (blocksOf bcs) k idx) with
          | some out => .ok out
          | none => .error (.sel .index)
        else .error .rowIndex

end CryoCat.C02
