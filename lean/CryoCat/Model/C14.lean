import CryoCat.Model.M3
import CryoCat.Model.Particle
import CryoCat.Gen.C14
/-! C14 — index-level model of `cryomap.rotate`, `get_start_end_indices`, `extract_subvolume`, `crop`,
`place_object` and `symmetrize_volume` (cryocat/cryomap.py). Mathlib-free, executable at `Int`/`Rat`/`Float`.

A map is its shape and its voxel function `V3 Int → α` (index ↦ density).  `Vol.tab` / `Vol.getD` convert
between nested lists (numpy `tolist()`) and voxel functions; `Lemmas/C14` proves they are inverse on the box.
Interpolation is outside the model: `rotateF` is what `affine_transform` computes when the matrix is an exact
signed permutation (a cube rotation) — samples are reproduced at integer coordinates, constant 0 outside. -/
namespace CryoCat.C14

structure Shape where
  nx : Nat
  ny : Nat
  nz : Nat
deriving DecidableEq, Repr, Inhabited

namespace Shape
/-- index `p` addresses a voxel of a map of this shape -/
def inBox (s : Shape) (p : V3 Int) : Bool :=
  decide (0 ≤ p.x) && decide (p.x < s.nx) && decide (0 ≤ p.y) && decide (p.y < s.ny) && decide (0 ≤ p.z) && decide (p.z < s.nz)
/-- `np.asarray(shape) // 2` — the voxel the map is rotated about -/
def centre (s : Shape) : V3 Int := ⟨((s.nx / 2 : Nat) : Int), ((s.ny / 2 : Nat) : Int), ((s.nz / 2 : Nat) : Int)⟩
def count (s : Shape) : Nat := s.nx * s.ny * s.nz
/-- all voxel indices, C order (x slowest) -/
def indices (s : Shape) : List (V3 Int) :=
  (List.range s.nx).flatMap fun (i : Nat) => (List.range s.ny).flatMap fun (j : Nat) => (List.range s.nz).map fun (k : Nat) => (⟨(i : Int), (j : Int), (k : Int)⟩ : V3 Int)
end Shape

/-! ### nested lists ↔ voxel functions -/
abbrev Vol (α : Type) := List (List (List α))

variable {α : Type}

def Vol.tab (s : Shape) (f : V3 Int → α) : Vol α :=
  (List.range s.nx).map fun (i : Nat) => (List.range s.ny).map fun (j : Nat) => (List.range s.nz).map fun (k : Nat) => f ⟨(i : Int), (j : Int), (k : Int)⟩

def Vol.get? (v : Vol α) (p : V3 Int) : Option α :=
  if p.x < 0 ∨ p.y < 0 ∨ p.z < 0 then none
  else (v[p.x.toNat]?).bind fun pl => (pl[p.y.toNat]?).bind fun r => r[p.z.toNat]?

def Vol.getD (v : Vol α) (d : α) (p : V3 Int) : α := (v.get? p).getD d

def Vol.shape (v : Vol α) : Shape := ⟨v.length, (v.headD []).length, ((v.headD []).headD []).length⟩

/-- rectangular: every plane has `ny` rows, every row `nz` voxels -/
def Vol.wf (v : Vol α) : Bool :=
  let s := v.shape
  v.all fun pl => pl.length == s.ny && pl.all fun r => r.length == s.nz

/-! ### rotation -/

/-- the coordinate of the *input* map that `affine_transform(matrix = T·M·T⁻¹)` samples for output
coordinate `o` (`T` = translation by the centre `c`) -/
def srcCoord [Add α] [Sub α] [Mul α] (M : M3 α) (c o : V3 α) : V3 α := c + M.apply (o - c)

/-- `affine_transform(input, matrix = T·M·T⁻¹)` for an exact integer matrix `M`: output voxel `o` is the
input voxel at `srcCoord M c o`, constant 0 when that falls outside the input (`mode='constant'`). -/
def rotateF [OfNat α 0] (M : M3 Int) (s : Shape) (f : V3 Int → α) : V3 Int → α :=
  fun o => let p := srcCoord M s.centre o; if s.inBox p then f p else 0

/-- `rotate(map, rotation_angles=…)` and `rotate(map, rotation=R, transpose_rotation=True)`:
the matrix handed to `affine_transform` is `R.as_matrix().T` -/
def rotateBy [OfNat α 0] (R : M3 Int) (s : Shape) (f : V3 Int → α) : V3 Int → α := rotateF R.transpose s f

/-- `rotate(map, rotation=R)` with the DEFAULT `transpose_rotation=False`: the matrix handed to `affine_transform` is
`R.as_matrix()` itself, so the map is rotated by the inverse orientation `Rᵀ` -/
def rotatePlain [OfNat α 0] (R : M3 Int) (s : Shape) (f : V3 Int → α) : V3 Int → α := rotateF R s f

/-- (cos, sin) of k quarter turns -/
def quarter (k : Nat) : Int × Int :=
  match k % 4 with
  | 0 => (1, 0) | 1 => (0, 1) | 2 => (-1, 0) | _ => (0, -1)

/-- the particle orientation `from_euler("zxz", [phi, theta, psi])` for angles that are `a, b, c` quarter turns -/
def cubeZxz (a b c : Nat) : M3 Int :=
  zxz (quarter a).1 (quarter a).2 (quarter b).1 (quarter b).2 (quarter c).1 (quarter c).2

/-- the 64 quarter-turn Euler triples give 24 distinct matrices: the rotations of the cube -/
def cube24 : List (M3 Int) :=
  ((List.range 4).flatMap fun a => (List.range 4).flatMap fun b => (List.range 4).map fun c => cubeZxz a b c).eraseDups

/-! ### windows: `get_start_end_indices` -/

/-- `np.floor(coord - shape/2)` for `coord = num/den` (`den > 0`), one axis -/
def startOf (num : Int) (den : Nat) (s : Nat) : Int := (2 * num - (s : Int) * den) / (2 * (den : Int))

/-- the four clipped indices of one axis -/
structure Clip where
  vs : Int
  ve : Int
  ss : Int
  se : Int
deriving Repr, DecidableEq

/-- one axis of `get_start_end_indices`, statement by statement (`start` = `volume_start`) -/
def clip1 (start : Int) (V s : Nat) : Clip :=
  let volEnd := start + s
  let vs := min (max 0 start) (V : Int)
  let ve := max (min (V : Int) volEnd) 0
  let ss0 := vs - start
  let se0 := volEnd - start
  let se1 := ve - volEnd + se0
  ⟨vs, ve, min (max 0 ss0) (s : Int), max (min (s : Int) se1) 0⟩

/-- numpy slice assignment `a[ss:se] = b[vs:ve]` needs equal lengths (no broadcasting happens for 3-D blocks
unless a length is 1, which is then also equal); otherwise it raises -/
def Clip.ok (c : Clip) : Bool := decide (max 0 (c.se - c.ss) = max 0 (c.ve - c.vs))

structure Clip3 where
  x : Clip
  y : Clip
  z : Clip

def clip3 (start : V3 Int) (V s : Shape) : Clip3 :=
  ⟨clip1 start.x V.nx s.nx, clip1 start.y V.ny s.ny, clip1 start.z V.nz s.nz⟩

def Clip3.ok (c : Clip3) : Bool := c.x.ok && c.y.ok && c.z.ok

/-- `t` lies in the sub-block `[ss:se]` on every axis -/
def Clip3.inSub (c : Clip3) (t : V3 Int) : Bool :=
  decide (c.x.ss ≤ t.x) && decide (t.x < c.x.se) && decide (c.y.ss ≤ t.y) && decide (t.y < c.y.se) &&
  decide (c.z.ss ≤ t.z) && decide (t.z < c.z.se)

/-- `p` lies in the volume block `[vs:ve]` on every axis -/
def Clip3.inVol (c : Clip3) (p : V3 Int) : Bool :=
  decide (c.x.vs ≤ p.x) && decide (p.x < c.x.ve) && decide (c.y.vs ≤ p.y) && decide (p.y < c.y.ve) &&
  decide (c.z.vs ≤ p.z) && decide (p.z < c.z.ve)

/-- the voxel of the volume block matching sub-block voxel `t` -/
def Clip3.toVol (c : Clip3) (t : V3 Int) : V3 Int := ⟨c.x.vs + (t.x - c.x.ss), c.y.vs + (t.y - c.y.ss), c.z.vs + (t.z - c.z.ss)⟩
/-- the voxel of the sub-block matching volume-block voxel `p` -/
def Clip3.toSub (c : Clip3) (p : V3 Int) : V3 Int := ⟨c.x.ss + (p.x - c.x.vs), c.y.ss + (p.y - c.y.vs), c.z.ss + (p.z - c.z.vs)⟩

/-- `extract_subvolume(volume, coord, shape)` (enforce_shape=False) given `start = floor(coord - shape/2)` and
`fill = mean(volume)`: `full(shape, fill)` with `[ss:se] = volume[vs:ve]`; `none` = the assignment raises. -/
def extractF (V : Shape) (f : V3 Int → α) (start : V3 Int) (s : Shape) (fill : α) : Option (V3 Int → α) :=
  let c := clip3 start V s
  if c.ok then some fun t => if c.inSub t then f (c.toVol t) else fill else none

/-- `extract_subvolume(volume, coord, shape, enforce_shape=True)`: `full(volume.shape, fill)` with
`[vs:ve] = volume[vs:ve]` (the same slice on both sides, so the assignment cannot raise) -/
def extractEnforceF (V : Shape) (f : V3 Int → α) (start : V3 Int) (s : Shape) (fill : α) : V3 Int → α :=
  let c := clip3 start V s
  fun p => if c.inVol p then f p else fill

/-- sum of the voxels of a map in C order, as `np.sum`/`np.mean` accumulate exactly for integer-valued voxels -/
def sumBox [OfNat α 0] [Add α] (s : Shape) (f : V3 Int → α) : α := (s.indices.map f).foldl (· + ·) 0

/-- `np.mean(volume)`; `ofNat` embeds the voxel count -/
def meanF [OfNat α 0] [Add α] [Div α] (ofNat : Nat → α) (s : Shape) (f : V3 Int → α) : α := sumBox s f / ofNat s.count

/-- start index triple for a centre coordinate given as three numerators over one denominator -/
def startOf3 (num : V3 Int) (den : Nat) (s : Shape) : V3 Int :=
  ⟨startOf num.x den s.nx, startOf num.y den s.ny, startOf num.z den s.nz⟩

def extractSubvolume [OfNat α 0] [Add α] [Div α] (ofNat : Nat → α) (V : Shape) (f : V3 Int → α)
    (num : V3 Int) (den : Nat) (s : Shape) : Option (V3 Int → α) :=
  extractF V f (startOf3 num den s) s (meanF ofNat V f)

/-- `crop(map, new_size, crop_coord)` = `map[vs:ve]`: shape of the result and its voxels -/
def cropF (V : Shape) (f : V3 Int → α) (start : V3 Int) (s : Shape) : Shape × (V3 Int → α) :=
  let c := clip3 start V s
  (⟨(c.x.ve - c.x.vs).toNat, (c.y.ve - c.y.vs).toNat, (c.z.ve - c.z.vs).toNat⟩,
   fun t => f ⟨c.x.vs + t.x, c.y.vs + t.y, c.z.vs + t.z⟩)

/-- `crop(map, new_size)` with the DEFAULT `crop_coord=None`: the window is centred on `shape // 2` -/
def cropDefault (V : Shape) (f : V3 Int → α) (s : Shape) : Shape × (V3 Int → α) :=
  cropF V f (startOf3 V.centre 1 s) s

/-! ### `pad` -/

/-- `int(np.ceil((new - old) / 2))` -/
def padStart (new old : Nat) : Int := ((new : Int) - (old : Int) + 1) / 2

/-- `pad(volume, new_size, fill_value)`: `full(new_size, fill)` with `[start : start + old] = volume`;
`none` = a new size smaller than the volume on some axis (the slice assignment raises or mis-places) -/
def padF (N V : Shape) (f : V3 Int → α) (fill : α) : Option (V3 Int → α) :=
  if V.nx ≤ N.nx ∧ V.ny ≤ N.ny ∧ V.nz ≤ N.nz then
    let st : V3 Int := ⟨padStart N.nx V.nx, padStart N.ny V.ny, padStart N.nz V.nz⟩
    some fun p => if V.inBox (p - st) then f (p - st) else fill
  else none

/-! ### `place_object` -/

/-- one pass of the loop body after rotation and thresholding: `mask` is `object_map == 1.0` -/
structure Stamp (α : Type) where
  mask : V3 Int → Bool
  start : V3 Int
  color : α

/-- `container[ls:le] = where(object[os:oe] == 1, color, container[ls:le])`; `none` = shapes differ (raises) -/
def stampF (C : Shape) (g : V3 Int → α) (os : Shape) (st : Stamp α) : Option (V3 Int → α) :=
  let c := clip3 st.start C os
  if c.ok then some fun p => if c.inVol p then (if st.mask (c.toSub p) then st.color else g p) else g p else none

/-- specification helper: stamp `st` paints container voxel `p` (its template voxel `p - start` exists and is on) -/
def covers (os : Shape) (st : Stamp α) (p : V3 Int) : Bool := os.inBox (p - st.start) && st.mask (p - st.start)

/-- the loop over the particle list -/
def placeAll (C : Shape) (g : V3 Int → α) (os : Shape) : List (Stamp α) → Option (V3 Int → α)
  | [] => some g
  | st :: rest => (stampF C g os st).bind fun g' => placeAll C g' os rest

/-- `np.where(object_map > 0.1, 1.0, 0.0) == 1.0` with the threshold the source has today -/
def isOn (x : Rat) : Bool := decide (Gen.C14.placeThreshold < x)

/-- `np.floor(coord - shape/2)` for a rational coordinate, one axis (`get_start_end_indices`) -/
def startOfQ (c : Rat) (s : Nat) : Int := (c - (s : Rat) / 2).floor

/-- start of the stamp for complete position `pos` (1-based), what `place_object` computes:
`coord = pos - 1`, `centre_coord = coord + (shape % 2) / 2`, `start = floor(centre_coord - shape/2)` -/
def placeStartQ (pos : V3 Rat) (os : Shape) : V3 Int :=
  ⟨startOfQ (pos.x - (Gen.C14.placeOffset : Rat) + ((os.nx % 2 : Nat) : Rat) / 2) os.nx,
   startOfQ (pos.y - (Gen.C14.placeOffset : Rat) + ((os.ny % 2 : Nat) : Rat) / 2) os.ny,
   startOfQ (pos.z - (Gen.C14.placeOffset : Rat) + ((os.nz % 2 : Nat) : Rat) / 2) os.nz⟩

/-- what the STATEMENT asks for: the template's centre voxel `⌊s/2⌋` on the voxel `⌊pos - 1⌋` that holds the 0-based
complete position, i.e. the stamp starts at `⌊pos - 1⌋ - ⌊s/2⌋` -/
def specStartQ (pos : V3 Rat) (os : Shape) : V3 Int :=
  ⟨(pos.x - 1).floor - ((os.nx / 2 : Nat) : Int), (pos.y - 1).floor - ((os.ny / 2 : Nat) : Int), (pos.z - 1).floor - ((os.nz / 2 : Nat) : Int)⟩

/-- the window start `place_object` used before the repair of defect D33: `floor(pos - 1 - shape/2)` without the half voxel
of odd sizes (kept for the regression witness `old_place_start_odd_one_voxel_low`) -/
def oldPlaceStartQ (pos : V3 Rat) (os : Shape) : V3 Int :=
  ⟨startOfQ (pos.x - 1) os.nx, startOfQ (pos.y - 1) os.ny, startOfQ (pos.z - 1) os.nz⟩

/-- … for a position given as three numerators over one denominator (`pos = num/den`, the mask-driven driver path) -/
def placeStart (num : V3 Int) (den : Nat) (os : Shape) : V3 Int :=
  placeStartQ ⟨mkRat num.x den, mkRat num.y den, mkRat num.z den⟩ os

/-- the stamp of a particle with cube orientation `R`, position `num/den`, colour `col` for template `tmpl` -/
def cubeStamp (os : Shape) (tmpl : V3 Int → Rat) (R : M3 Int) (num : V3 Int) (den : Nat) (col : α) : Stamp α :=
  ⟨fun t => isOn (rotateBy R os tmpl t), placeStart num den os, col⟩

/-! ### the particle list: the accessors `place_object` relies on, and `shift_positions`

`Motl.get_angles`, `Motl.get_coordinates`, `Motl.get_rotations` and `Motl.shift_positions` (cryocat/cryomotl.py) on the
shared row type `Particle`.  The trigonometric part is a service `cs : α → α × α` (cosine and sine of an angle given in
degrees): `Float.cos`/`Float.sin` in the driver, an abstract pair with `c² + s² = 1` in the theorems; for right-angle
Euler angles the exact integer matrix `cubeZxz` takes its place (`rowCube`). -/
section motl

/-- `Motl.get_angles()`: the columns phi, theta, psi of every row — in this order — as the zxz Euler triple -/
def rowAngles (p : Particle α) : α × α × α := (p.phi, p.theta, p.psi)
def getAngles (m : Motl α) : List (α × α × α) := m.map rowAngles

/-- `Motl.get_coordinates()`: the complete position `x + shift_x, y + shift_y, z + shift_z` of every row -/
def rowCoords [Add α] (p : Particle α) : V3 α := ⟨p.x + p.shift_x, p.y + p.shift_y, p.z + p.shift_z⟩
def getCoordinates [Add α] (m : Motl α) : List (V3 α) := m.map rowCoords

/-- `rot.from_euler("zxz", [phi, theta, psi], degrees=True)` of one row -/
def rowRotation [OfNat α 0] [OfNat α 1] [Neg α] [Add α] [Mul α] (cs : α → α × α) (p : Particle α) : M3 α :=
  zxz (cs p.phi).1 (cs p.phi).2 (cs p.theta).1 (cs p.theta).2 (cs p.psi).1 (cs p.psi).2
/-- `Motl.get_rotations()` -/
def getRotations [OfNat α 0] [OfNat α 1] [Neg α] [Add α] [Mul α] (cs : α → α × α) (m : Motl α) : List (M3 α) := m.map (rowRotation cs)

/-- `shift_coords(row)` of `Motl.shift_positions(shift)`: the shift vector is carried by the row's orientation and added to
the shift columns; nothing else changes -/
def shiftRow [OfNat α 0] [OfNat α 1] [Neg α] [Add α] [Mul α] (cs : α → α × α) (v : V3 α) (p : Particle α) : Particle α :=
  let w := (rowRotation cs p).apply v
  { p with shift_x := p.shift_x + w.x, shift_y := p.shift_y + w.y, shift_z := p.shift_z + w.z }
def shiftPositions [OfNat α 0] [OfNat α 1] [Neg α] [Add α] [Mul α] (cs : α → α × α) (v : V3 α) (m : Motl α) : Motl α := m.map (shiftRow cs v)

/-- an angle in degrees that is a whole number of quarter turns (any sign, any number of full turns) -/
def quarterOf (deg : Rat) : Option Nat :=
  if deg.den = 1 ∧ deg.num % 90 = 0 then some ((deg.num / 90) % 4).toNat else none

/-- the exact orientation of a row whose three Euler angles are right angles -/
def rowCube (p : Particle Rat) : Option (M3 Int) :=
  (quarterOf p.phi).bind fun a => (quarterOf p.theta).bind fun b => (quarterOf p.psi).map fun c => cubeZxz a b c

/-- `shift_coords` for such a row and an integer shift vector (exact) -/
def shiftRowCube (v : V3 Int) (p : Particle Rat) : Option (Particle Rat) :=
  (rowCube p).map fun R =>
    let w := R.apply v
    { p with shift_x := p.shift_x + (w.x : Rat), shift_y := p.shift_y + (w.y : Rat), shift_z := p.shift_z + (w.z : Rat) }

/-- the loop body of `place_object` for one row: orientation from `get_rotations`, position from `get_coordinates`,
colour = the row's value of the colouring field -/
def rowStamp (os : Shape) (tmpl : V3 Int → Rat) (feature : Field) (p : Particle Rat) : Option (Stamp Rat) :=
  (rowCube p).map fun R => ⟨fun t => isOn (rotateBy R os tmpl t), placeStartQ (rowCoords p) os, p.get feature⟩

/-- `place_object(template(s), motl, …, feature_to_color=feature)` for a list whose Euler angles are right angles;
`tmplOf i` is the template of row `i` (constant for a single template); `none` = an angle is not a right angle -/
def placeMotl (C : Shape) (g : V3 Int → Rat) (os : Shape) (tmplOf : Nat → V3 Int → Rat) (feature : Field) (m : Motl Rat) :
    Option (V3 Int → Rat) :=
  (m.zipIdx.mapM fun pi => rowStamp os (tmplOf pi.2) feature pi.1).bind (placeAll C g os)

end motl

/-! ### `symmetrize_volume` -/

/-- `sum_{k=1..n} rot k` then `/ n`, accumulated in loop order from zeros; `rot k` is the map rotated by
`(k·360/n) mod 360` degrees about z (an external service for general n, `rotateBy` for n ∈ {1,2,4});
`X` is the voxel index type (`V3 Int` in the driver) -/
def symmetrizeF {X : Type} [OfNat α 0] [Add α] [Div α] (ofNat : Nat → α) (n : Nat) (rot : Nat → X → α) : X → α :=
  fun p => ((List.range n).foldl (fun acc k => acc + rot (k + 1) p) 0) / ofNat n

/-- rotation about z by `k·360/n` degrees for n ∈ {1,2,4}, as quarter turns -/
def rzQuarter (q : Nat) : M3 Int := cubeZxz 0 0 q

def symmetrizeExact [OfNat α 0] [Add α] [Div α] (ofNat : Nat → α) (n : Nat) (s : Shape) (f : V3 Int → α) : V3 Int → α :=
  symmetrizeF ofNat n fun k => rotateBy (rzQuarter (k * (4 / n))) s f

end CryoCat.C14
