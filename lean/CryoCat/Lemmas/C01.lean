import CryoCat.Model.C01_Bytes
/-! C01 — helper lemmas about the byte layer (little-endian words, the 512-byte header). Mathlib-free. -/
namespace CryoCat.C01

theorem ofLe32_le32 (w : UInt32) :
    ofLe32 (UInt8.ofNat (w.toNat % 256)) (UInt8.ofNat (w.toNat / 256 % 256))
      (UInt8.ofNat (w.toNat / 65536 % 256)) (UInt8.ofNat (w.toNat / 16777216 % 256)) = w := by
  apply UInt32.toNat_inj.mp
  have h := w.toNat_lt
  simp only [ofLe32, UInt32.toNat_ofNat', UInt8.toNat_ofNat']
  omega

theorem le32_length (w : UInt32) : (le32 w).length = 4 := rfl

theorem flatMap_le32_length (ws : List UInt32) : (ws.flatMap le32).length = 4 * ws.length := by
  induction ws with
  | nil => rfl
  | cons w ws ih => simp only [List.flatMap_cons, List.length_append, le32_length, ih, List.length_cons]; omega

theorem wordsAux_flatMap (ws : List UInt32) (acc : List UInt32) :
    wordsAux (ws.flatMap le32) acc = acc.reverse ++ ws := by
  induction ws generalizing acc with
  | nil => simp [wordsAux]
  | cons w ws ih =>
    simp only [List.flatMap_cons, le32, List.cons_append, List.nil_append, wordsAux, ofLe32_le32]
    rw [ih]; simp

theorem words_flatMap (ws : List UInt32) : words (ws.flatMap le32) = ws := by
  simp [words, wordsAux_flatMap]

theorem emHeader_length (d x y z : Nat) : (emHeader d x y z).length = 512 := by
  simp only [emHeader, List.length_append, List.length_cons, List.length_nil, le32_length, List.length_replicate]

theorem u32_ofNat_roundtrip (n : Nat) (h : n < 4294967296) :
    (ofLe32 (UInt8.ofNat ((UInt32.ofNat n).toNat % 256)) (UInt8.ofNat ((UInt32.ofNat n).toNat / 256 % 256))
      (UInt8.ofNat ((UInt32.ofNat n).toNat / 65536 % 256)) (UInt8.ofNat ((UInt32.ofNat n).toNat / 16777216 % 256))).toNat = n := by
  rw [ofLe32_le32, UInt32.toNat_ofNat']; omega

theorem header_machine (d x y z : Nat) (p : List UInt8) : (emHeader d x y z ++ p).getD 0 0 = 6 := rfl
theorem header_dtype (d x y z : Nat) (p : List UInt8) : (emHeader d x y z ++ p).getD 3 0 = UInt8.ofNat d := rfl
theorem header_x (d x y z : Nat) (p : List UInt8) (h : x < 4294967296) : u32At (emHeader d x y z ++ p) 4 = x :=
  u32_ofNat_roundtrip x h
theorem header_y (d x y z : Nat) (p : List UInt8) (h : y < 4294967296) : u32At (emHeader d x y z ++ p) 8 = y :=
  u32_ofNat_roundtrip y h
theorem header_z (d x y z : Nat) (p : List UInt8) (h : z < 4294967296) : u32At (emHeader d x y z ++ p) 12 = z :=
  u32_ofNat_roundtrip z h

theorem drop_header (d x y z : Nat) (p : List UInt8) : (emHeader d x y z ++ p).drop 512 = p :=
  List.drop_left' (emHeader_length d x y z)

end CryoCat.C01
