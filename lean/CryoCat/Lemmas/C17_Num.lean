import CryoCat.Model.C17_Num
import CryoCat.Lemmas.C17_Mdoc
/-! C17 — the decimal parser of the loaders inverts the decimal printer of the generators (round 5, extension goal). -/
namespace CryoCat.C17

theorem splitExp_no_exp : ∀ (s : Str), (∀ c ∈ s, (c == 'e' || c == 'E') = false) → splitExp s = (s, none)
  | [], _ => rfl
  | c :: cs, h => by
    have hc := h c (by simp)
    have ih := splitExp_no_exp cs (fun x hx => h x (by simp [hx]))
    simp only [splitExp, hc, Bool.false_eq_true, if_false, ih]

theorem removeFirstDot_of_not_mem : ∀ (s : Str), '.' ∉ s → removeFirstDot s = s
  | [], _ => rfl
  | c :: cs, h => by
    have hc : (c == '.') = false := by
      simp only [beq_eq_false_iff_ne, ne_eq]; intro e; exact h (by simp [e])
    simp only [removeFirstDot, hc, Bool.false_eq_true, if_false, removeFirstDot_of_not_mem cs (fun hx => h (by simp [hx]))]

theorem splitDot_of_not_mem : ∀ (s : Str), '.' ∉ s → splitDot s = (s, [])
  | [], _ => rfl
  | c :: cs, h => by
    have hc : (c == '.') = false := by
      simp only [beq_eq_false_iff_ne, ne_eq]; intro e; exact h (by simp [e])
    simp only [splitDot, hc, Bool.false_eq_true, if_false, splitDot_of_not_mem cs (fun hx => h (by simp [hx]))]

theorem digit_not_exp (c : Char) (h : c.isDigit = true) : (c == 'e' || c == 'E') = false := by
  have h1 : c ≠ 'e' := by intro e; subst e; exact absurd h (by decide)
  have h2 : c ≠ 'E' := by intro e; subst e; exact absurd h (by decide)
  simp [h1, h2]

/-- the unsigned mantissa `i[.f]` is read as the rational `i.f` -/
theorem uDec_print (i f : Str) (hi : allDigits i = true) (hf : ∀ c ∈ f, c.isDigit = true) :
    uDec (i ++ (if f.isEmpty then [] else '.' :: f)) = some (mkRat (natOfDigits (i ++ f)) (10 ^ f.length)) := by
  obtain ⟨hine, hid⟩ := (allDigits_iff i).1 hi
  have hdot : '.' ∉ i := not_mem_of_digits i '.' dot_not_digit hid
  cases f with
  | nil =>
    simp only [List.isEmpty_nil, if_true, List.append_nil, uDec, removeFirstDot_of_not_mem i hdot, hi, splitDot_of_not_mem i hdot,
      List.length_nil]
  | cons d fs =>
    have hall : allDigits (i ++ d :: fs) = true := by
      rw [allDigits_iff]
      refine ⟨by simp, ?_⟩
      intro c hc
      rcases List.mem_append.1 hc with h | h
      · exact hid c h
      · exact hf c h
    simp only [List.isEmpty_cons, Bool.false_eq_true, if_false, uDec, removeFirstDot_append i (d :: fs) hdot, hall, if_true,
      splitDot_append i (d :: fs) hdot]

/-- **the parser inverts the printer**: for every sign, every non-empty digit string `i` and every (possibly empty) digit string `f`,
the token `[-]i[.f]` is read as exactly the rational `±i.f` (`decVal`, the number the mdoc model computes with) -/
theorem parseDecimal_printDecimal (neg : Bool) (i f : Str) (hi : allDigits i = true) (hf : ∀ c ∈ f, c.isDigit = true) :
    parseDecimal (printDecimal neg i f) = some (decVal neg i f) := by
  obtain ⟨hine, hid⟩ := (allDigits_iff i).1 hi
  have hbody : ∀ c ∈ i ++ (if f.isEmpty then [] else '.' :: f), (c == 'e' || c == 'E') = false := by
    intro c hc
    rcases List.mem_append.1 hc with h | h
    · exact digit_not_exp c (hid c h)
    · cases f with
      | nil => simp at h
      | cons d fs =>
        simp only [List.isEmpty_cons, Bool.false_eq_true, if_false, List.mem_cons] at h
        rcases h with rfl | h
        · decide
        · exact digit_not_exp c (hf c (by simpa using h))
  have hu := uDec_print i f hi hf
  cases neg with
  | true =>
    simp only [parseDecimal, printDecimal, if_true, List.singleton_append, List.cons_append, List.nil_append, splitExp_no_exp _ hbody, hu, decVal]
  | false =>
    cases i with
    | nil => exact absurd rfl hine
    | cons c cs =>
      have hcd : c.isDigit = true := hid c (by simp)
      have h1 : c ≠ '-' := by intro e; subst e; exact absurd hcd (by decide)
      have h2 : c ≠ '+' := by intro e; subst e; exact absurd hcd (by decide)
      have hs : printDecimal false (c :: cs) f = c :: (cs ++ (if f.isEmpty then [] else '.' :: f)) := by
        simp [printDecimal]
      rw [hs]
      have hb' : ∀ x ∈ c :: (cs ++ (if f.isEmpty then [] else '.' :: f)), (x == 'e' || x == 'E') = false := by
        intro x hx; exact hbody x (by simpa using hx)
      have hu' : uDec (c :: (cs ++ (if f.isEmpty then [] else '.' :: f))) = some (mkRat (natOfDigits (c :: cs ++ f)) (10 ^ f.length)) := by
        simpa using hu
      unfold parseDecimal
      split
      · rename_i heq; injection heq with heq _; exact absurd heq h1
      · split
        · rename_i heq; injection heq with heq _; exact absurd heq h1
        · rename_i heq; injection heq with heq _; exact absurd heq h2
        · simp only [splitExp_no_exp _ hb', hu', decVal, Bool.false_eq_true, if_false]

end CryoCat.C17
