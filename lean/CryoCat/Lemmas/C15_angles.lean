import CryoCat.Lemmas.C15_hard
import Mathlib.Tactic.Ring
import Mathlib.Tactic.FieldSimp
import Mathlib.Tactic.Push
import Mathlib.Data.Rat.Defs
/-! C15 — helper lemmas about the tilt-angle sources: exact decimal parsing (`parseDec`), the rational order,
stability of the model's `argsort`. -/
namespace CryoCat.C15
variable {α β ι κ : Type}

/-! ### the rational order is total and transitive: the sorting theorems need no hypothesis about `le` -/

theorem ratLe_trans (a b c : Rat) : ratLe a b = true → ratLe b c = true → ratLe a c = true := by
  simp only [ratLe, decide_eq_true_eq]; exact Rat.le_trans

theorem ratLe_total (a b : Rat) : (ratLe a b || ratLe b a) = true := by
  simp only [ratLe, Bool.or_eq_true, decide_eq_true_eq]; exact Rat.le_total

theorem ratLe_antisymm (a b : Rat) : ratLe a b = true → ratLe b a = true → a = b := by
  simp only [ratLe, decide_eq_true_eq]; exact fun h1 h2 => Rat.le_antisymm h1 h2

/-! ### every line parses: `parseAll` -/

theorem parseAll_spec : ∀ (lines : List String) (keys : List Rat), parseAll lines = some keys →
    List.Forall₂ (fun s q => parseDec s = some q) lines keys
  | [], keys, h => by simp only [parseAll, Option.some.injEq] at h; subst h; exact .nil
  | s :: t, keys, h => by
    simp only [parseAll] at h
    cases hs : parseDec s with
    | none => simp [hs] at h
    | some q =>
      cases ht : parseAll t with
      | none => simp [hs, ht] at h
      | some qs =>
        simp only [hs, ht, Option.some.injEq] at h
        subst h
        exact .cons hs (parseAll_spec t qs ht)

theorem parseAll_length (lines : List String) (keys : List Rat) (h : parseAll lines = some keys) :
    keys.length = lines.length := (parseAll_spec lines keys h).length_eq.symm

theorem parseAll_of_forall₂ : ∀ (lines : List String) (keys : List Rat),
    List.Forall₂ (fun s q => parseDec s = some q) lines keys → parseAll lines = some keys
  | _, _, .nil => rfl
  | _, _, .cons hs ht => by simp only [parseAll, hs, parseAll_of_forall₂ _ _ ht]

/-! ### the value of a decimal text -/

theorem natOfDigits_foldl (ds : List Char) (acc : Nat) :
    ds.foldl (fun acc c => 10 * acc + (c.toNat - 48)) acc = acc * 10 ^ ds.length + natOfDigits ds := by
  induction ds generalizing acc with
  | nil => simp [natOfDigits]
  | cons d t ih =>
    simp only [List.foldl_cons, List.length_cons, natOfDigits]
    rw [ih, ih (10 * 0 + (d.toNat - 48))]
    ring

theorem natOfDigits_append (a b : List Char) :
    natOfDigits (a ++ b) = natOfDigits a * 10 ^ b.length + natOfDigits b := by
  simp only [natOfDigits, List.foldl_append]
  exact natOfDigits_foldl b _

theorem takeWhile_digits_dot (ip rest : List Char) (h : ∀ c ∈ ip, c.isDigit = true) :
    (ip ++ '.' :: rest).takeWhile Char.isDigit = ip ∧ (ip ++ '.' :: rest).dropWhile Char.isDigit = '.' :: rest := by
  induction ip with
  | nil => exact ⟨by simp [show Char.isDigit '.' = false by decide],
                  by simp [show Char.isDigit '.' = false by decide]⟩
  | cons d t ih =>
    have hd := h d (by simp)
    obtain ⟨h1, h2⟩ := ih (fun c hc => h c (by simp [hc]))
    exact ⟨by simp [hd, h1], by simp [hd, h2]⟩

theorem takeWhile_all_digits (ip : List Char) (h : ∀ c ∈ ip, c.isDigit = true) :
    ip.takeWhile Char.isDigit = ip ∧ ip.dropWhile Char.isDigit = [] := by
  induction ip with
  | nil => exact ⟨rfl, rfl⟩
  | cons d t ih =>
    have hd := h d (by simp)
    obtain ⟨h1, h2⟩ := ih (fun c hc => h c (by simp [hc]))
    exact ⟨by simp [hd, h1], by simp [hd, h2]⟩

/-- `ddd.ddd` (integer part non-empty): integer part plus fractional digits over `10 ^ (number of fractional digits)` -/
theorem parseUnsigned_decimal (ip fp : List Char) (hip : ∀ c ∈ ip, c.isDigit = true) (hfp : ∀ c ∈ fp, c.isDigit = true)
    (hne : ip ≠ []) :
    parseUnsigned (ip ++ '.' :: fp) = some ((natOfDigits ip : Rat) + (natOfDigits fp : Rat) / (10 : Rat) ^ fp.length) := by
  obtain ⟨h1, h2⟩ := takeWhile_digits_dot ip fp hip
  have hall : fp.all Char.isDigit = true := List.all_eq_true.2 hfp
  have hemp : ip.isEmpty = false := by cases ip with | nil => exact absurd rfl hne | cons _ _ => rfl
  simp only [parseUnsigned, h1, h2, hall, hemp, Bool.false_and, Bool.not_false, Bool.and_self, if_true, Option.some.injEq]
  rw [natOfDigits_append, Rat.mkRat_eq_div]
  have h10 : ((10 : Rat) ^ fp.length) ≠ 0 := pow_ne_zero _ (by norm_num)
  push_cast
  field_simp

/-- `ddd` without a decimal point -/
theorem parseUnsigned_integer (ip : List Char) (hip : ∀ c ∈ ip, c.isDigit = true) (hne : ip ≠ []) :
    parseUnsigned ip = some (natOfDigits ip : Rat) := by
  obtain ⟨h1, h2⟩ := takeWhile_all_digits ip hip
  have hemp : ip.isEmpty = false := by cases ip with | nil => exact absurd rfl hne | cons _ _ => rfl
  simp only [parseUnsigned, h1, h2, hemp, Bool.false_eq_true, if_false, Option.some.injEq]
  rw [Rat.mkRat_eq_div]; simp

/-! ### from the text of the file to the column of angles -/

theorem takeWhile_dropWhile_stop (p : Char → Bool) (a b : List Char) (x : Char) (ha : ∀ c ∈ a, p c = true) (hx : p x = false) :
    (a ++ x :: b).takeWhile p = a ∧ (a ++ x :: b).dropWhile p = x :: b := by
  induction a with
  | nil => exact ⟨by simp [hx], by simp [hx]⟩
  | cons d t ih =>
    have hd := ha d (by simp)
    obtain ⟨h1, h2⟩ := ih (fun c hc => ha c (by simp [hc]))
    exact ⟨by simp [hd, h1], by simp [hd, h2]⟩

theorem takeWhile_all (p : Char → Bool) (a : List Char) (ha : ∀ c ∈ a, p c = true) : a.takeWhile p = a := by
  induction a with
  | nil => rfl
  | cons d t ih => simp [ha d (by simp), ih (fun c hc => ha c (by simp [hc]))]

theorem tltColumn_append (a b : List (List Char)) : tltColumn (a ++ b) = tltColumn a ++ tltColumn b := by
  simp [tltColumn]

theorem mdocColumn_append (a b : List (List Char)) : mdocColumn (a ++ b) = mdocColumn a ++ mdocColumn b := by
  simp [mdocColumn]

/-- a blank line contributes nothing -/
theorem tltColumn_blank (l : List Char) (h : ∀ c ∈ l, isWs c = true) : tltColumn [l] = [] := by
  have : isBlank l = true := List.all_eq_true.2 h
  simp [tltColumn, this]

/-- a line `<blanks><token><blank …>` or `<blanks><token>` contributes exactly its token -/
theorem tltColumn_line (pre tok post : List Char) (hpre : ∀ c ∈ pre, isWs c = true) (htok : ∀ c ∈ tok, isWs c = false)
    (hne : tok ≠ []) (hpost : post = [] ∨ ∃ w rest, post = w :: rest ∧ isWs w = true) :
    tltColumn [pre ++ tok ++ post] = [tok] := by
  obtain ⟨t, ts, rfl⟩ : ∃ t ts, tok = t :: ts := by cases tok with | nil => exact absurd rfl hne | cons t ts => exact ⟨t, ts, rfl⟩
  have ht : isWs t = false := htok t (by simp)
  have hnb : isBlank (pre ++ (t :: ts) ++ post) = false := by
    rw [Bool.eq_false_iff]; intro hb
    have := List.all_eq_true.1 hb t (by simp)
    rw [ht] at this; cases this
  have hdrop : (pre ++ (t :: ts) ++ post).dropWhile isWs = t :: ts ++ post := by
    rw [List.append_assoc, List.cons_append]
    exact (takeWhile_dropWhile_stop isWs pre (ts ++ post) t hpre ht).2
  have htake : (t :: ts ++ post).takeWhile (fun c => !isWs c) = t :: ts := by
    rcases hpost with rfl | ⟨w, rest, rfl, hw⟩
    · rw [List.append_nil]; exact takeWhile_all _ _ (fun c hc => by simp [htok c hc])
    · exact (takeWhile_dropWhile_stop (fun c => !isWs c) (t :: ts) rest w (fun c hc => by simp [htok c hc]) (by simp [hw])).1
  unfold tltColumn
  rw [List.filter_cons_of_pos (by rw [hnb]; rfl)]
  simp only [List.filter_nil, List.map_cons, List.map_nil, firstField, hdrop, htake]

/-- a line `key = value` whose stripped key is `TiltAngle` contributes its stripped value -/
theorem mdocColumn_line (k v : List Char) (hk : ∀ c ∈ k, c ≠ '=') (hkey : trimChars k = "TiltAngle".toList)
    (hhead : (k ++ '=' :: v).head? ≠ some '[') : mdocColumn [k ++ '=' :: v] = [trimChars v] := by
  obtain ⟨h1, h2⟩ := takeWhile_dropWhile_stop (· != '=') k v '=' (fun c hc => by simpa using hk c hc) (by simp)
  have hkeyOf : keyOf (k ++ '=' :: v) = "TiltAngle".toList := by simp [keyOf, h1, hkey]
  have hval : valOf (k ++ '=' :: v) = trimChars v := by simp [valOf, h2]
  have hh : ((k ++ '=' :: v).head? != some '[') = true := by simpa using hhead
  unfold mdocColumn
  rw [List.filter_cons_of_pos (by rw [hkeyOf, hh]; rfl)]
  simp only [List.filter_nil, List.map_cons, List.map_nil, hval]

/-- every other line (a section header `[ZValue = k]`, another key, a blank line) contributes nothing -/
theorem mdocColumn_skip (l : List Char) (h : l.head? = some '[' ∨ keyOf l ≠ "TiltAngle".toList) : mdocColumn [l] = [] := by
  rcases h with h | h
  · simp [mdocColumn, h]
  · unfold mdocColumn
    rw [List.filter_cons_of_neg (by rw [beq_false_of_ne h, Bool.and_false]; exact Bool.false_ne_true)]
    rfl

/-! ### stability of the model's `argsort`: a pair that is already in order keeps its order -/

theorem pair_sublist_of_lt (l : List β) (i j : Nat) (hij : i < j) (hj : j < l.length) :
    [l[i]'(by omega), l[j]].Sublist l := by
  have hi : i < l.length := by omega
  have h1 : l.take i ++ (l[i] :: l.drop (i + 1)) = l := by
    rw [List.getElem_cons_drop, List.take_append_drop]
  have hmem : l[j] ∈ l.drop (i + 1) := by
    have hk : j - (i + 1) < (l.drop (i + 1)).length := by rw [List.length_drop]; omega
    have : (l.drop (i + 1))[j - (i + 1)] = l[j] := by
      rw [List.getElem_drop]; congr 1; omega
    rw [← this]; exact List.getElem_mem hk
  have h2 : [l[i], l[j]].Sublist (l[i] :: l.drop (i + 1)) := (List.singleton_sublist.2 hmem).cons_cons _
  have h3 : (l[i] :: l.drop (i + 1)).Sublist (l.take i ++ (l[i] :: l.drop (i + 1))) := List.sublist_append_right _ _
  rw [h1] at h3
  exact h2.trans h3

theorem argsort_stable (le : κ → κ → Bool)
    (htrans : ∀ a b c, le a b = true → le b c = true → le a c = true) (htotal : ∀ a b, (le a b || le b a) = true)
    (angles : List κ) (i j : Nat) (hij : i < j) (hj : j < angles.length)
    (hle : le (angles[i]'(by omega)) angles[j] = true) : [i, j].Sublist (argsort le angles) := by
  unfold argsort
  have hj' : j < angles.zipIdx.length := by simpa using hj
  have hsub := pair_sublist_of_lt angles.zipIdx i j hij hj'
  simp only [List.getElem_zipIdx, Nat.zero_add] at hsub
  have := List.pair_sublist_mergeSort (le := fun (a b : κ × Nat) => le a.1 b.1)
    (fun a b c => htrans a.1 b.1 c.1) (fun a b => htotal a.1 b.1) hle hsub
  exact this.map (·.2)

end CryoCat.C15
