import CryoCat.Lemmas.C16_IsDFT
import Mathlib.Tactic.FinCases
import Mathlib.Tactic.LinearCombination
import Mathlib.Tactic.IntervalCases
/-! C16 — a Fourier service with generic content satisfying `IsDFT`: the exact 2 × 3 discrete Fourier transform of
real images over `ℝ` (non-real coefficients, twiddle `e^{-2πi/3} = -1/2 - i√3/2` along `x`, `-1` along `y`, a
non-trivial Hermitian pair `u = 1 ↔ u = 2`).  Makes the image-level theorems of `Props/C16` non-vacuous beyond the
1 × 2 case, where every coefficient is real and every index is its own conjugate partner. -/
namespace CryoCat.C16

/-- `√3` -/
noncomputable def s3 : ℝ := Real.sqrt 3
theorem s3_sq : s3 ^ 2 = 3 := Real.sq_sqrt (by norm_num)
theorem s3_cube : s3 ^ 3 = 3 * s3 := by rw [pow_succ, s3_sq]

/-- `cos (2π m / 3)` -/
noncomputable def cos3 (m : Nat) : ℝ := if m % 3 = 0 then 1 else -1 / 2
/-- `sin (2π m / 3)` -/
noncomputable def sin3 (m : Nat) : ℝ := if m % 3 = 0 then 0 else if m % 3 = 1 then s3 / 2 else -(s3 / 2)
/-- `(-1)^m = cos (2π m / 2)` -/
noncomputable def sgn2 (m : Nat) : ℝ := if m % 2 = 0 then 1 else -1

/-- real 2 × 3 images `x[y, i]` -/
abbrev Img23 := Fin 2 → Fin 3 → ℝ

/-- `F[v,u] = Σ_y Σ_i x[y,i] · (-1)^{v y} · e^{-2πi u i / 3}` and `ifft2(S).real[y,i] = (1/6) Σ_v Σ_u Re (S[v,u] · (-1)^{v y} · e^{+2πi u i / 3})` -/
noncomputable def dft23 : FFT Img23 ℝ 2 3 :=
  { fft2 := fun x v u =>
      ⟨∑ y : Fin 2, ∑ i : Fin 3, sgn2 (v.val * y.val) * cos3 (u.val * i.val) * x y i,
       -∑ y : Fin 2, ∑ i : Fin 3, sgn2 (v.val * y.val) * sin3 (u.val * i.val) * x y i⟩
    ifft2re := fun S y i =>
      (∑ v : Fin 2, ∑ u : Fin 3,
        sgn2 (v.val * y.val) * ((S v u).re * cos3 (u.val * i.val) - (S v u).im * sin3 (u.val * i.val))) / 6 }

/-- closes polynomial identities over `ℝ` that hold modulo `s3 ^ 2 = 3` -/
macro "s3ring" : tactic =>
  `(tactic| first | done | ring1 | (ring_nf; simp only [s3_sq, s3_cube]; ring1))

theorem dft23_inv (x : Img23) : dft23.ifft2re (dft23.fft2 x) = x := by
  funext y i
  fin_cases y <;> fin_cases i <;>
    simp [dft23, Fin.sum_univ_two, Fin.sum_univ_three, sgn2, cos3, sin3] <;> s3ring

/-- the Hermitian partner indices of a 2 × 3 spectrum: `v ↦ v`, `u = 1 ↔ u = 2` -/
theorem negFin23 : (∀ v : Fin 2, negFin v = v) ∧ negFin (0 : Fin 3) = 0 ∧ negFin (1 : Fin 3) = 2 ∧ negFin (2 : Fin 3) = 1 := by
  decide

theorem dft23_even_mult (M : Fin 2 → Fin 3 → ℝ) (hM : ∀ v u, M (negFin v) (negFin u) = M v u) (x : Img23) :
    dft23.fft2 (dft23.ifft2re (fun v u => Cx.smul (M v u) (dft23.fft2 x v u)))
      = fun v u => Cx.smul (M v u) (dft23.fft2 x v u) := by
  obtain ⟨n2, n30, n31, n32⟩ := negFin23
  have h0 : M 0 2 = M 0 1 := by have := hM 0 1; rwa [n2, n31] at this
  have h1 : M 1 2 = M 1 1 := by have := hM 1 1; rwa [n2, n31] at this
  funext v u
  fin_cases v <;> fin_cases u <;>
    simp [dft23, Cx.smul, Fin.sum_univ_two, Fin.sum_univ_three, sgn2, cos3, sin3, h0, h1] <;>
    first | s3ring | (constructor <;> s3ring)

theorem dft23_isDFT : IsDFT dft23 := by
  refine ⟨dft23_inv, dft23_even_mult, ?_, ?_, ?_, ?_⟩
  · intro x y; funext v u
    simp only [dft23, Cx.add, Fin.sum_univ_two, Fin.sum_univ_three, Pi.add_apply, Cx.mk.injEq]
    constructor <;> ring1
  · intro c x; funext v u
    simp only [dft23, Cx.smul, Fin.sum_univ_two, Fin.sum_univ_three, Pi.smul_apply, smul_eq_mul, Cx.mk.injEq]
    constructor <;> ring1
  · intro s t; funext y i
    simp only [dft23, Cx.add, Fin.sum_univ_two, Fin.sum_univ_three, Pi.add_apply]
    ring1
  · intro c s; funext y i
    simp only [dft23, Cx.smul, Fin.sum_univ_two, Fin.sum_univ_three, Pi.smul_apply, smul_eq_mul]
    ring1

/-! the tables `cos3`, `sin3`, `sgn2` are the real and imaginary parts of the powers of the primitive roots of unity
`e^{2πi/3}` and `e^{2πi/2} = -1`: value at `1`, and the addition laws (so `(cos3 m, sin3 m) = (cos, sin)(2π m / 3)`). -/

theorem cos3_one : cos3 1 = Real.cos (2 * Real.pi / 3) := by
  rw [show 2 * Real.pi / 3 = Real.pi - Real.pi / 3 by ring, Real.cos_pi_sub, Real.cos_pi_div_three]
  simp [cos3]; norm_num

theorem sin3_one : sin3 1 = Real.sin (2 * Real.pi / 3) := by
  rw [show 2 * Real.pi / 3 = Real.pi - Real.pi / 3 by ring, Real.sin_pi_sub, Real.sin_pi_div_three]
  simp [sin3, s3]

theorem cos3_sin3_add (a b : Nat) :
    cos3 (a + b) = cos3 a * cos3 b - sin3 a * sin3 b ∧ sin3 (a + b) = sin3 a * cos3 b + cos3 a * sin3 b := by
  have ha : a % 3 < 3 := Nat.mod_lt _ (by decide)
  have hb : b % 3 < 3 := Nat.mod_lt _ (by decide)
  have hab : (a + b) % 3 = (a % 3 + b % 3) % 3 := Nat.add_mod a b 3
  unfold cos3 sin3
  rw [hab]
  generalize a % 3 = r at *
  generalize b % 3 = t at *
  interval_cases r <;> interval_cases t <;> norm_num <;> first | s3ring | (constructor <;> s3ring)

theorem sgn2_add (a b : Nat) : sgn2 (a + b) = sgn2 a * sgn2 b := by
  have ha : a % 2 < 2 := Nat.mod_lt _ (by decide)
  have hb : b % 2 < 2 := Nat.mod_lt _ (by decide)
  unfold sgn2
  rw [Nat.add_mod a b 2]
  generalize a % 2 = r at *
  generalize b % 2 = t at *
  interval_cases r <;> interval_cases t <;> norm_num

end CryoCat.C16
