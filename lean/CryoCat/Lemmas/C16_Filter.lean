import CryoCat.Lemmas.C16
import CryoCat.Lemmas.C16_IsDFT
/-! C16 — the filter as a Fourier multiplier.  Generic facts (any number type) about the index plumbing of
`dose_filter_single_image`, the multiplier at the reals, and the laws of the Fourier service (`IsDFT`) under which
the image-level clauses of the property follow.  (DESIGN.md section 3 planned this as shared `Multiplier` files;
none exists, so the material lives here.) -/
namespace CryoCat.C16

section generic
variable {α : Type} [Add α] [Mul α] [Div α] [Neg α]

/-- the attenuation depends on the integer frequency only through `kx²`, `ky²` -/
theorem gainK_congr_sq (o : Ops α) (g : GG α) (W H : Nat) (px d : α) {kx kx' ky ky' : Int}
    (hx : kx' * kx' = kx * kx) (hy : ky' * ky' = ky * ky) :
    gainK o g W H px d kx' ky' = gainK o g W H px d kx ky := by
  have zx : kx' = 0 ↔ kx = 0 := by rw [← mul_self_eq_zero, hx, mul_self_eq_zero]
  have zy : ky' = 0 ↔ ky = 0 := by rw [← mul_self_eq_zero, hy, mul_self_eq_zero]
  unfold gainK freqK
  rw [hx, hy]
  simp only [zx, zy]

/-- the multiplier applied to raw DFT coefficient `[v, u]` is the attenuation at the signed frequency of `(u, v)` -/
theorem mult_eq_gainK (o : Ops α) (g : GG α) {W H : Nat} (px d : α) {v u : Nat} (hv : v < H) (hu : u < W) :
    mult o g W H px d v u = gainK o g W H px d (sfreq W u) (sfreq H v) := by
  unfold mult qArray
  rw [kOfPos_ishiftSrc hv, kOfPos_ishiftSrc hu]

theorem shiftFin_ishiftFin {n : Nat} (k : Fin n) : shiftFin (ishiftFin k) = k :=
  Fin.ext (shiftSrc_ishiftSrc k.isLt)

/-- index plumbing of `dose_filter_single_image`: `ifftshift(fftshift(F) * q)[v,u] = mult[v,u] * F[v,u]` -/
theorem doseFilterSingle_eq {Img : Type} {H W : Nat} (o : Ops α) (g : GG α) (fft : FFT Img α H W) (px d : α) (x : Img) :
    doseFilterSingle o g fft px d x
      = fft.ifft2re (fun v u => Cx.smul (mult o g W H px d v.val u.val) (fft.fft2 x v u)) := by
  unfold doseFilterSingle
  show fft.ifft2re _ = fft.ifft2re _
  congr 1
  funext v u
  simp only [ifftshift2, fftshift2, shiftFin_ishiftFin]
  rfl

/-- the multiplier is Hermitian-even: coefficient `[v,u]` and its conjugate partner `[-v mod H, -u mod W]` get the same factor -/
theorem mult_even (o : Ops α) (g : GG α) {W H : Nat} (px d : α) (v : Fin H) (u : Fin W) :
    mult o g W H px d (negFin v).val (negFin u).val = mult o g W H px d v.val u.val := by
  rw [mult_eq_gainK o g px d (negFin v).isLt (negFin u).isLt, mult_eq_gainK o g px d v.isLt u.isLt]
  exact gainK_congr_sq o g W H px d (sfreq_negIdx_sq u.isLt) (sfreq_negIdx_sq v.isLt)
end generic

/-! ### the multiplier at the reals -/

section real
variable (g : GG ℝ) (W H : Nat) (px : ℝ) (kx ky : Int)

theorem gainK_real_ne {kx ky : Int} (h : ¬ (kx = 0 ∧ ky = 0)) (d : ℝ) :
    gainK realOps g W H px d kx ky
      = Real.exp (-d / (2 * (g.a * (freqK realOps W H px kx ky) ^ g.b + g.c))) := by
  unfold gainK; rw [if_neg h, atten_real]

theorem gainK_dc (d : ℝ) : gainK realOps g W H px d 0 0 = 1 := by
  simp [gainK, realOps]

theorem gainK_zero_dose : gainK realOps g W H px 0 kx ky = 1 := by
  unfold gainK; split
  · simp [realOps]
  · exact atten_zero_dose g _

theorem gainK_add (d₁ d₂ : ℝ) :
    gainK realOps g W H px d₁ kx ky * gainK realOps g W H px d₂ kx ky = gainK realOps g W H px (d₁ + d₂) kx ky := by
  unfold gainK; split
  · simp [realOps]
  · exact atten_add g d₁ d₂ _

theorem gainK_pos (d : ℝ) : 0 < gainK realOps g W H px d kx ky := by
  unfold gainK; split
  · simp [realOps]
  · exact atten_pos g d _

theorem gainK_antitone (ha : 0 ≤ g.a) (hc : 0 < g.c) {d₁ d₂ : ℝ} (h : d₁ ≤ d₂) :
    gainK realOps g W H px d₂ kx ky ≤ gainK realOps g W H px d₁ kx ky := by
  unfold gainK; split
  · exact le_refl _
  · exact atten_antitone g ha hc (freqK_nonneg W H px kx ky) h

theorem gainK_le_one (ha : 0 ≤ g.a) (hc : 0 < g.c) {d : ℝ} (h : 0 ≤ d) : gainK realOps g W H px d kx ky ≤ 1 := by
  have := gainK_antitone g W H px kx ky ha hc h
  rwa [gainK_zero_dose] at this
end real

/-! ### complex pairs -/
section cx
theorem Cx.smul_smul (a b : ℝ) (z : Cx ℝ) : Cx.smul a (Cx.smul b z) = Cx.smul (a * b) z := by
  cases z; simp [Cx.smul, mul_assoc]
theorem Cx.one_smul (z : Cx ℝ) : Cx.smul 1 z = z := by cases z; simp [Cx.smul]
theorem Cx.smul_add (a : ℝ) (z w : Cx ℝ) : Cx.smul a (Cx.add z w) = Cx.add (Cx.smul a z) (Cx.smul a w) := by
  cases z; cases w; simp [Cx.smul, Cx.add, mul_add]
theorem Cx.smul_comm (a b : ℝ) (z : Cx ℝ) : Cx.smul a (Cx.smul b z) = Cx.smul b (Cx.smul a z) := by
  rw [Cx.smul_smul, Cx.smul_smul, mul_comm]
theorem Cx.power_smul (a : ℝ) (z : Cx ℝ) : Cx.power (Cx.smul a z) = a ^ 2 * Cx.power z := by
  cases z; simp [Cx.smul, Cx.power]; ring
theorem Cx.power_nonneg (z : Cx ℝ) : 0 ≤ Cx.power z := by
  cases z; simp only [Cx.power]; nlinarith [mul_self_nonneg ‹ℝ›]
end cx

/-! the laws of the Fourier service (`IsDFT`) and the 1 × 2 instance live in `Lemmas/C16_IsDFT` -/

end CryoCat.C16

namespace CryoCat.C16
/-! ### abbreviations used by the statements of `Props/C16` -/

/-- the multiplier on raw DFT coefficient `[v, u]` (model `mult` at the reals with the source's constants) -/
noncomputable abbrev G (W H : Nat) (px d : ℝ) (v u : Nat) : ℝ := mult realOps (gg realOps) W H px d v u

/-- physical frequency (cycles per Angstrom) of raw DFT coefficient `[v, u]` of an `H × W` image with pixel size `px`:
signed integer frequency divided by (image size · pixel size), per axis -/
noncomputable abbrev physFreq (W H : Nat) (px : ℝ) (v u : Nat) : ℝ :=
  Real.sqrt (((sfreq W u : ℝ) / ((W : ℝ) * px)) ^ 2 + ((sfreq H v : ℝ) / ((H : ℝ) * px)) ^ 2)


section
variable {Img : Type} {H W : Nat}
/-- the model of `dose_filter_single_image` at the reals with the source's constants -/
noncomputable abbrev filt (fft : FFT Img ℝ H W) (px d : ℝ) (x : Img) : Img :=
  doseFilterSingle realOps (gg realOps) fft px d x

/-- the model of `dose_filter` at the reals -/
noncomputable abbrev filtStack (fft : FFT Img ℝ H W) (px : ℝ) (stack : List Img) (doses : List ℝ) : Option (List Img) :=
  doseFilter realOps (gg realOps) fft px stack doses

end
end CryoCat.C16
