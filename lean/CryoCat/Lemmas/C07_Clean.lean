import CryoCat.Lemmas.C07
import Mathlib.Tactic.Ring
import Mathlib.Order.Defs.LinearOrder
/-! C07 — `clean_by_distance` model: group-wise lemmas over any commutative ring with a linear order. -/
set_option linter.unusedSectionVars false
namespace CryoCat.C07
open CryoCat.Gen.C07

variable {α : Type} [CommRing α] [LinearOrder α]

theorem dist2_comm (a b : V3 α) : dist2 a b = dist2 b a := by unfold dist2; ring

theorem nearClean_eq (d : α) (a b : Item α) : nearClean d a b = closer d a b := rfl

theorem closer_symm (d : α) (a b : Item α) : closer d a b = closer d b a := by
  unfold closer; rw [dist2_comm]

theorem sortByScore_perm (kg : Bool) (g : List (Item α)) : (sortByScore kg g).Perm g := by
  unfold sortByScore
  split
  · exact (List.reverse_perm _).trans (List.mergeSort_perm _ _)
  · exact List.mergeSort_perm _ _

theorem mem_sortByScore (kg : Bool) (g : List (Item α)) (a : Item α) : a ∈ sortByScore kg g ↔ a ∈ g :=
  (sortByScore_perm kg g).mem_iff

theorem mergeSort_scoreLe_sorted (g : List (Item α)) : (g.mergeSort scoreLe).Pairwise (fun a b => a.score ≤ b.score) := by
  have h := List.pairwise_mergeSort (le := scoreLe (α := α))
    (by intro a b c; simp only [scoreLe, decide_eq_true_eq]; exact le_trans)
    (by intro a b; simp only [scoreLe, Bool.or_eq_true, decide_eq_true_eq]; exact le_total _ _) g
  exact h.imp (by intro a b; simp [scoreLe])

/-- the processing order is non-increasing in "goodness": earlier items have an equal or better score -/
theorem sortByScore_sorted (kg : Bool) (g : List (Item α)) :
    (sortByScore kg g).Pairwise (fun a b => betterEq kg a.score b.score = true) := by
  have h := mergeSort_scoreLe_sorted g
  cases kg
  · simp only [sortByScore, cleanSortDescLower, Bool.false_eq_true, if_false]
    exact h.imp (by intro a b hab; simp [betterEq, hab])
  · simp only [sortByScore, cleanSortDescGreater, if_true]
    rw [List.pairwise_reverse]
    exact h.imp (by intro a b hab; simp [betterEq, hab])

section Group
variable (d : α) (kg : Bool) (g : List (Item α))

theorem cleanGroup_sublist : (cleanGroup d kg g).Sublist g := List.filter_sublist

theorem mem_cleanGroup (hN : (g.map (·.idx)).Nodup) (it : Item α) :
    it ∈ cleanGroup d kg g ↔ it ∈ suppress (nearClean d) (sortByScore kg g) := by
  unfold cleanGroup
  simp only [List.mem_filter, List.any_eq_true, beq_iff_eq]
  constructor
  · rintro ⟨hit, k, hk, e⟩
    have hkg : k ∈ g := (mem_sortByScore kg g k).1 ((suppress_sublist _ _).subset hk)
    have : k = it := eq_of_nodup_map (·.idx) g hN k it hkg hit e
    rw [← this]; exact hk
  · intro h
    exact ⟨(mem_sortByScore kg g it).1 ((suppress_sublist _ _).subset h), it, h, rfl⟩

theorem cleanGroup_separated (hN : (g.map (·.idx)).Nodup) (a b : Item α) (ha : a ∈ cleanGroup d kg g)
    (hb : b ∈ cleanGroup d kg g) (hne : a.idx ≠ b.idx) : closer d a b = false := by
  rw [mem_cleanGroup d kg g hN] at ha hb
  have hp := suppress_separated (nearClean d) (sortByScore kg g)
  exact pairwise_forall_ne (fun a b => nearClean d a b = false)
    (by intro x y h; rw [nearClean_eq] at h ⊢; rw [closer_symm]; exact h) _ hp a b ha hb
    (by intro e; exact hne (by rw [e]))

theorem cleanGroup_dominated (hN : (g.map (·.idx)).Nodup) (r : Item α) (hr : r ∈ g) :
    r ∈ cleanGroup d kg g ∨
      ∃ k ∈ cleanGroup d kg g, closer d k r = true ∧ betterEq kg k.score r.score = true := by
  have h := suppress_dominated (nearClean d) (fun a b => betterEq kg a.score b.score = true)
    (sortByScore kg g) (sortByScore_sorted kg g) r ((mem_sortByScore kg g r).2 hr)
  rcases h with h | ⟨k, hk, hn, hs⟩
  · exact Or.inl ((mem_cleanGroup d kg g hN r).2 h)
  · exact Or.inr ⟨k, (mem_cleanGroup d kg g hN k).2 hk, hn, hs⟩

end Group

section Items
variable (d : α) (kg : Bool) (items : List (Item α))

theorem nodup_filter_idx (hN : (items.map (·.idx)).Nodup) (p : Item α → Bool) : ((items.filter p).map (·.idx)).Nodup :=
  List.Nodup.sublist (List.filter_sublist.map _) hN

theorem mem_cleanItems (it : Item α) :
    it ∈ cleanItems d kg items ↔ it ∈ cleanGroup d kg (items.filter (fun x => decide (x.grp = it.grp))) := by
  unfold cleanItems
  simp only [List.mem_flatMap, mem_groupKeys, List.mem_map]
  constructor
  · rintro ⟨k, _, h⟩
    have hm := (cleanGroup_sublist d kg _).subset h
    simp only [List.mem_filter, decide_eq_true_eq] at hm
    rw [hm.2]; exact h
  · intro h
    have hm := (cleanGroup_sublist d kg _).subset h
    simp only [List.mem_filter, decide_eq_true_eq] at hm
    exact ⟨it.grp, ⟨it, hm.1, rfl⟩, h⟩

theorem groupKeys_single (k : α) (l : List α) (hne : l ≠ []) (h : ∀ a ∈ l, a = k) : groupKeys l = [k] := by
  apply eq_singleton_of_nodup _ _ (nodup_groupKeys l)
  · rw [mem_groupKeys]
    cases l with
    | nil => exact absurd rfl hne
    | cons a t => rw [← h a (by simp)]; simp
  · intro a ha; exact h a ((mem_groupKeys l a).1 ha)

/-- a list with a single group is cleaned by the single-group routine -/
theorem cleanItems_single (k : α) (hne : items ≠ []) (h : ∀ it ∈ items, it.grp = k) :
    cleanItems d kg items = cleanGroup d kg items := by
  unfold cleanItems
  rw [groupKeys_single k _ (by simpa using hne) (by
    intro a ha; simp only [List.mem_map] at ha; obtain ⟨it, hit, e⟩ := ha; rw [← e]; exact h it hit)]
  simp only [List.flatMap_cons, List.flatMap_nil, List.append_nil]
  congr 1
  rw [List.filter_eq_self]
  intro it hit; simpa using h it hit

theorem cleanItems_nil : cleanItems d kg ([] : List (Item α)) = [] := by
  simp [cleanItems, groupKeys, dedup]

/-- **groups never affect each other**: the survivors of group `k` are exactly what cleaning group `k` alone yields -/
theorem cleanItems_filter (k : α) :
    (cleanItems d kg items).filter (fun it => decide (it.grp = k)) =
      cleanItems d kg (items.filter (fun it => decide (it.grp = k))) := by
  have hL : (cleanItems d kg items).filter (fun it => decide (it.grp = k)) =
      if k ∈ groupKeys (items.map (·.grp)) then cleanGroup d kg (items.filter (fun it => decide (it.grp = k))) else [] := by
    unfold cleanItems
    apply filter_flatMap_key _ _ _ k (nodup_groupKeys _)
    · rw [List.filter_eq_self]
      intro it hit
      have hm := (cleanGroup_sublist d kg _).subset hit
      simp only [List.mem_filter] at hm
      exact hm.2
    · intro k' _ hne
      rw [List.filter_eq_nil_iff]
      intro it hit
      have hm := (cleanGroup_sublist d kg _).subset hit
      simp only [List.mem_filter, decide_eq_true_eq] at hm
      simp only [decide_eq_true_eq]
      intro e; exact hne (hm.2.symm.trans e)
  rw [hL]
  by_cases hk : k ∈ groupKeys (items.map (·.grp))
  · simp only [hk, if_true]
    rw [mem_groupKeys] at hk
    simp only [List.mem_map] at hk
    obtain ⟨it, hit, e⟩ := hk
    have hne : items.filter (fun it => decide (it.grp = k)) ≠ [] := by
      intro h0
      have : it ∈ items.filter (fun it => decide (it.grp = k)) := by simp [hit, e]
      rw [h0] at this; cases this
    rw [cleanItems_single d kg _ k hne (by intro x hx; simpa using (List.mem_filter.1 hx).2)]
  · simp only [hk, if_false]
    rw [mem_groupKeys] at hk
    have h0 : items.filter (fun it => decide (it.grp = k)) = [] := by
      rw [List.filter_eq_nil_iff]
      intro it hit
      simp only [decide_eq_true_eq]
      intro e; exact hk (List.mem_map.2 ⟨it, hit, e⟩)
    rw [h0, cleanItems_nil]

end Items

/-- the rows produced by `itemsOf` carry distinct row numbers -/
theorem itemsOf_nodup {β : Type} [Add β] (feature : Field) (l : List (Particle β)) : ((itemsOf feature l).map (·.idx)).Nodup := by
  unfold itemsOf
  rw [List.map_map]
  have : ((fun (it : Item β) => it.idx) ∘ fun (pi : Particle β × Nat) => (⟨pi.2, pi.1.get feature, pi.1.score, particlePos pi.1⟩ : Item β))
      = Prod.snd := by funext pi; rfl
  rw [this, List.zipIdx_map_snd]
  exact List.nodup_range' (step := 1)

end CryoCat.C07
