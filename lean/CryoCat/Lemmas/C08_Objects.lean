import CryoCat.Model.C08
import Mathlib.Order.Defs.LinearOrder
/-! C08 — the (tomogram, object) numbering of `renumber_objects_sequentially`:
`objKeys` lists every (tomogram, object) class exactly once, tomograms ascending, and `keyIdx`
is the position of a particle's class in that list. -/
namespace CryoCat.C08
open CryoCat Gen.C08

section uniq
variable {β : Type} [DecidableEq β]

theorem mem_uniq (l : List β) (a : β) : a ∈ uniq l ↔ a ∈ l := by
  induction l with
  | nil => simp [uniq]
  | cons b l ih =>
    simp only [uniq, List.mem_cons, List.mem_filter, ih]
    by_cases h : a = b <;> simp [h]

theorem nodup_uniq (l : List β) : (uniq l).Nodup := by
  induction l with
  | nil => simp [uniq]
  | cons b l ih =>
    simp only [uniq, List.nodup_cons, List.mem_filter]
    refine ⟨by simp, ?_⟩
    exact List.Pairwise.filter _ ih

end uniq

section keys
variable {β : Type} [DecidableEq β]

/-- in a duplicate-free key list the class of `p` sits at `keyIdx` as soon as it sits anywhere -/
theorem keyIdx_eq_of_getElem (keys : List (β × β)) (hn : keys.Nodup) (p : Particle β) (i : Nat)
    (hi : i < keys.length) (h : keys[i] = (p.tomo_id, p.object_id)) : keyIdx keys p = i := by
  unfold keyIdx
  rw [List.findIdx_eq hi]
  refine ⟨by simp [h], ?_⟩
  intro j hji
  have hne : keys[j]'(Nat.lt_trans hji hi) ≠ keys[i] := by
    have := (List.pairwise_iff_getElem.1 hn) j i (Nat.lt_trans hji hi) hi hji
    exact this
  rw [h] at hne
  rcases hk : keys[j]'(Nat.lt_trans hji hi) with ⟨a, b⟩
  rw [hk] at hne
  simp only [ne_eq, Prod.mk.injEq, not_and] at hne
  by_cases ha : a = p.tomo_id
  · simp [ha, hne ha]
  · simp [ha]

theorem keyIdx_lt_of_mem (keys : List (β × β)) (p : Particle β)
    (h : (p.tomo_id, p.object_id) ∈ keys) : keyIdx keys p < keys.length := by
  unfold keyIdx
  rw [List.findIdx_lt_length]
  exact ⟨_, h, by simp⟩

theorem keyIdx_getElem_of_mem (keys : List (β × β)) (p : Particle β)
    (h : (p.tomo_id, p.object_id) ∈ keys) :
    keys[keyIdx keys p]? = some (p.tomo_id, p.object_id) := by
  have hlt := keyIdx_lt_of_mem keys p h
  rw [List.getElem?_eq_getElem hlt]
  have := @List.findIdx_getElem _ (fun k : β × β => k.1 == p.tomo_id && k.2 == p.object_id) keys hlt
  simp only [Bool.and_eq_true, beq_iff_eq] at this
  congr 1
  exact Prod.ext this.1 this.2

end keys

variable {α : Type} [LinearOrder α]

theorem mem_objKeys (l : Motl α) (t o : α) :
    (t, o) ∈ objKeys l ↔ ∃ p ∈ l, p.tomo_id = t ∧ p.object_id = o := by
  simp only [objKeys, List.mem_flatMap, List.mem_map, Prod.mk.injEq, List.mem_mergeSort,
    mem_uniq, List.mem_filter, beq_iff_eq]
  constructor
  · rintro ⟨t', _, o', ⟨p, ⟨hp, hpt⟩, hpo⟩, rfl, rfl⟩
    exact ⟨p, hp, hpt, hpo⟩
  · rintro ⟨p, hp, rfl, rfl⟩
    exact ⟨p.tomo_id, ⟨p, hp, rfl⟩, p.object_id, ⟨p, ⟨hp, rfl⟩, rfl⟩, rfl, rfl⟩

theorem sortedTomos_nodup (l : Motl α) :
    ((uniq (l.map (·.tomo_id))).mergeSort (fun a b => !decide (b < a))).Nodup :=
  (List.mergeSort_perm _ _).nodup_iff.2 (nodup_uniq _)

theorem sortedTomos_sorted (l : Motl α) :
    ((uniq (l.map (·.tomo_id))).mergeSort (fun a b => !decide (b < a))).Pairwise (fun a b => a ≤ b) := by
  have := List.pairwise_mergeSort (le := fun a b : α => !decide (b < a))
    (by intro a b c; simp only [Bool.not_eq_true', decide_eq_false_iff_not, not_lt]; exact le_trans)
    (by intro a b; simp only [Bool.or_eq_true, Bool.not_eq_true', decide_eq_false_iff_not, not_lt]; exact le_total a b)
    (uniq (l.map (·.tomo_id)))
  refine this.imp ?_
  intro a b h
  simpa using h

theorem objKeys_nodup (l : Motl α) : (objKeys l).Nodup := by
  unfold objKeys
  rw [List.nodup_iff_pairwise_ne, List.pairwise_flatMap]
  constructor
  · intro t _
    rw [List.pairwise_map]
    refine (nodup_uniq _).imp ?_
    intro a b hab h
    exact hab (Prod.mk.inj h).2
  · refine (sortedTomos_nodup l).imp ?_
    intro a b hab x hx y hy hxy
    simp only [List.mem_map] at hx hy
    obtain ⟨_, _, rfl⟩ := hx
    obtain ⟨_, _, rfl⟩ := hy
    exact hab (Prod.mk.inj hxy).1

theorem objKeys_tomo_sorted (l : Motl α) : (objKeys l).Pairwise (fun a b => a.1 ≤ b.1) := by
  unfold objKeys
  rw [List.pairwise_flatMap]
  constructor
  · intro t _
    rw [List.pairwise_map]
    exact (nodup_uniq _).imp (fun _ => le_refl t)
  · refine (sortedTomos_sorted l).imp ?_
    intro a b hab x hx y hy
    simp only [List.mem_map] at hx hy
    obtain ⟨_, _, rfl⟩ := hx
    obtain ⟨_, _, rfl⟩ := hy
    exact hab

theorem pair_mem_objKeys (l : Motl α) (p : Particle α) (hp : p ∈ l) :
    (p.tomo_id, p.object_id) ∈ objKeys l :=
  (mem_objKeys l _ _).2 ⟨p, hp, rfl, rfl⟩

theorem keyIdx_lt (l : Motl α) (p : Particle α) (hp : p ∈ l) :
    keyIdx (objKeys l) p < (objKeys l).length :=
  keyIdx_lt_of_mem _ _ (pair_mem_objKeys l p hp)

theorem keyIdx_get (l : Motl α) (p : Particle α) (hp : p ∈ l) :
    (objKeys l)[keyIdx (objKeys l) p]? = some (p.tomo_id, p.object_id) :=
  keyIdx_getElem_of_mem _ _ (pair_mem_objKeys l p hp)

theorem keyIdx_eq_iff (l : Motl α) (p q : Particle α) (hp : p ∈ l) (hq : q ∈ l) :
    keyIdx (objKeys l) p = keyIdx (objKeys l) q ↔
      (p.tomo_id = q.tomo_id ∧ p.object_id = q.object_id) := by
  constructor
  · intro h
    have h1 := keyIdx_get l p hp
    have h2 := keyIdx_get l q hq
    rw [h, h2] at h1
    have := Option.some.inj h1
    exact ⟨(Prod.mk.inj this).1.symm, (Prod.mk.inj this).2.symm⟩
  · rintro ⟨h1, h2⟩
    unfold keyIdx
    rw [h1, h2]

theorem keyIdx_surj (l : Motl α) (i : Nat) (hi : i < (objKeys l).length) :
    ∃ p ∈ l, keyIdx (objKeys l) p = i := by
  have hmem : ((objKeys l)[i].1, (objKeys l)[i].2) ∈ objKeys l := List.getElem_mem hi
  obtain ⟨p, hp, h1, h2⟩ := (mem_objKeys l _ _).1 hmem
  refine ⟨p, hp, keyIdx_eq_of_getElem _ (objKeys_nodup l) p i hi ?_⟩
  rw [h1, h2]

theorem keyIdx_mono_tomo (l : Motl α) (p q : Particle α) (hp : p ∈ l) (hq : q ∈ l)
    (h : p.tomo_id < q.tomo_id) : keyIdx (objKeys l) p < keyIdx (objKeys l) q := by
  rcases Nat.lt_trichotomy (keyIdx (objKeys l) p) (keyIdx (objKeys l) q) with hlt | heq | hgt
  · exact hlt
  · exact absurd ((keyIdx_eq_iff l p q hp hq).1 heq).1 (ne_of_lt h)
  · exfalso
    have hpl := keyIdx_lt l p hp
    have hql := keyIdx_lt l q hq
    have hs := (List.pairwise_iff_getElem.1 (objKeys_tomo_sorted l)) _ _ hql hpl hgt
    have h1 := keyIdx_get l p hp
    have h2 := keyIdx_get l q hq
    rw [List.getElem?_eq_getElem hpl] at h1
    rw [List.getElem?_eq_getElem hql] at h2
    rw [Option.some.inj h1, Option.some.inj h2] at hs
    exact absurd hs (not_le_of_gt h)

end CryoCat.C08
