import CryoCat.Model.C08
/-! C08 — helper lemmas for the set operations (core Lean only). -/
namespace CryoCat.C08
open CryoCat Gen.C08

section general
variable {β : Type} [DecidableEq β]

theorem uniq_mem (l : List β) (a : β) : a ∈ uniq l ↔ a ∈ l := by
  induction l with
  | nil => simp [uniq]
  | cons b l ih =>
    simp only [uniq, List.mem_cons, List.mem_filter, ih, Bool.not_eq_eq_eq_not, Bool.not_true, beq_eq_false_iff_ne, ne_eq]
    by_cases h : a = b <;> simp [h]

theorem uniq_nodup (l : List β) : (uniq l).Nodup := by
  induction l with
  | nil => simp [uniq]
  | cons b l ih =>
    simp only [uniq, List.nodup_cons, List.mem_filter]
    refine ⟨by simp, ?_⟩
    exact List.Pairwise.filter _ ih

theorem foldl_append_flatMap {γ δ : Type} (g : γ → List δ) (vs : List γ) (init : List δ) :
    vs.foldl (fun a v => a ++ g v) init = init ++ vs.flatMap g := by
  induction vs generalizing init with
  | nil => simp
  | cons v vs ih => rw [List.foldl_cons, ih, List.flatMap_cons, List.append_assoc]

theorem flatMap_congr' {γ δ : Type} (l : List γ) (f g : γ → List δ) (h : ∀ a ∈ l, f a = g a) :
    l.flatMap f = l.flatMap g := by
  induction l with
  | nil => rfl
  | cons a l ih =>
    simp only [List.flatMap_cons]
    rw [h a (by simp), ih (fun b hb => h b (by simp [hb]))]

/-- selecting by each value of a duplicate-free list of values that covers all keys, one value
after the other, only permutes the list -/
theorem flatMap_filter_perm {γ : Type} (key : γ → β) (vs : List β) (l : List γ) (hvs : vs.Nodup)
    (hcov : ∀ p ∈ l, key p ∈ vs) :
    (vs.flatMap (fun v => l.filter (fun p => decide (key p = v)))).Perm l := by
  induction vs generalizing l with
  | nil =>
    cases l with
    | nil => simp
    | cons p l => exact absurd (hcov p (by simp)) (by simp)
  | cons v vs ih =>
    rw [List.nodup_cons] at hvs
    simp only [List.flatMap_cons]
    have hrest : vs.flatMap (fun w => l.filter (fun p => decide (key p = w)))
        = vs.flatMap (fun w => (l.filter (fun p => !decide (key p = v))).filter (fun p => decide (key p = w))) := by
      apply flatMap_congr'
      intro w hw
      rw [List.filter_filter]
      apply List.filter_congr
      intro p _
      have : w ≠ v := fun e => hvs.1 (e ▸ hw)
      by_cases h1 : key p = w
      · subst h1
        simp [this]
      · simp [h1]
    rw [hrest]
    have ih' := ih (l.filter (fun p => !decide (key p = v))) hvs.2 (by
      intro p hp
      rw [List.mem_filter] at hp
      have h1 := hcov p hp.1
      have h2 : key p ≠ v := by simpa using hp.2
      rcases List.mem_cons.1 h1 with h | h
      · exact absurd h h2
      · exact h)
    exact (List.Perm.append_left _ ih').trans (List.filter_append_perm _ l)

end general

/-- narrowing a list value after value = one filter by all values (any predicate family) -/
theorem foldl_filter_all {β γ : Type} (g : γ → β → Bool) (vs : List γ) (l : List β) :
    vs.foldl (fun acc v => acc.filter (g v)) l = l.filter (fun p => vs.all (fun v => g v p)) := by
  induction vs generalizing l with
  | nil => exact (List.filter_eq_self.2 (fun _ _ => rfl)).symm
  | cons v vs ih =>
    simp only [List.foldl_cons, List.all_cons]
    rw [ih, List.filter_filter]
    apply List.filter_congr
    intro p _
    exact Bool.and_comm _ _

section setops
variable {α : Type} [DecidableEq α] [LT α] [DecidableLT α]

theorem remove_fold (c : Cmp) (f : Field) (vs : List α) (l : Motl α) :
    vs.foldl (fun acc v => acc.filter (fun p => c.test (p.get f) v)) l
      = l.filter (fun p => vs.all (fun v => c.test (p.get f) v)) := by
  induction vs generalizing l with
  | nil => exact (List.filter_eq_self.2 (fun _ _ => rfl)).symm
  | cons v vs ih =>
    simp only [List.foldl_cons, List.all_cons]
    rw [ih, List.filter_filter]
    apply List.filter_congr
    intro p _
    exact Bool.and_comm _ _

end setops

section firstper
variable {α : Type} [DecidableEq α]

/-! `firstPer` (keep the first row of every id) -/

theorem firstPer_sublist (f : Field) (l : Motl α) : (firstPer f l).Sublist l := by
  induction l with
  | nil => simp [firstPer]
  | cons p l ih =>
    simp only [firstPer]
    exact ((List.filter_sublist).trans ih).cons_cons p

theorem firstPer_ids_nodup (f : Field) (l : Motl α) : ((firstPer f l).map (·.get f)).Nodup := by
  induction l with
  | nil => simp [firstPer]
  | cons p l ih =>
    simp only [firstPer, List.map_cons, List.nodup_cons, List.mem_map, List.mem_filter]
    refine ⟨?_, ?_⟩
    · rintro ⟨q, ⟨_, hq⟩, hqp⟩
      simp [hqp] at hq
    · exact (ih.sublist ((List.filter_sublist).map _))

theorem firstPer_covers (f : Field) (l : Motl α) (p : Particle α) (hp : p ∈ l) :
    ∃ q ∈ firstPer f l, q.get f = p.get f := by
  induction l with
  | nil => cases hp
  | cons a l ih =>
    simp only [firstPer]
    by_cases h : p.get f = a.get f
    · exact ⟨a, by simp, h.symm⟩
    · rcases List.mem_cons.1 hp with rfl | hp'
      · exact absurd rfl h
      · obtain ⟨q, hq, hqp⟩ := ih hp'
        refine ⟨q, ?_, hqp⟩
        simp only [List.mem_cons, List.mem_filter]
        right
        exact ⟨hq, by simp [hqp, h]⟩

/-- in a list sorted by a relation `R`, the row kept for an id is `R`-before every row of that id -/
theorem firstPer_first (f : Field) (R : Particle α → Particle α → Prop) (l : Motl α)
    (hs : l.Pairwise R) (hrefl : ∀ p, R p p) :
    ∀ q ∈ firstPer f l, ∀ p ∈ l, p.get f = q.get f → R q p := by
  induction l with
  | nil => intro q hq; simp [firstPer] at hq
  | cons a l ih =>
    rw [List.pairwise_cons] at hs
    intro q hq p hp hpq
    simp only [firstPer, List.mem_cons, List.mem_filter] at hq
    rcases hq with rfl | ⟨hq, hne⟩
    · rcases List.mem_cons.1 hp with rfl | hp'
      · exact hrefl _
      · exact hs.1 p hp'
    · have hne' : q.get f ≠ a.get f := by simpa using hne
      rcases List.mem_cons.1 hp with rfl | hp'
      · exact absurd hpq.symm hne'
      · exact ih hs.2 q hq p hp' hpq

end firstper
end CryoCat.C08
