import CryoCat.Model.C20
/-! C20 — the assignment loop (`greedy`): invariants, core Lean only. -/
namespace CryoCat.C20
variable {α : Type}

def OneToOne (m : List (Cand α)) : Prop := m.Pairwise (fun a b => a.s ≠ b.s ∧ a.t ≠ b.t)

theorem step_oneToOne (acc : List (Cand α)) (c : Cand α) (h : OneToOne acc) : OneToOne (step acc c) := by
  unfold step
  split
  · exact h
  · rename_i hn
    unfold OneToOne at *
    rw [List.pairwise_append]
    refine ⟨h, by simp, ?_⟩
    intro a ha b hb
    simp at hb; subst hb
    simp at hn
    exact ⟨(hn a ha).1, (hn a ha).2⟩

theorem foldl_oneToOne (cs acc : List (Cand α)) (h : OneToOne acc) : OneToOne (cs.foldl step acc) := by
  induction cs generalizing acc with
  | nil => simpa
  | cons c cs ih => exact ih _ (step_oneToOne acc c h)

theorem greedy_oneToOne (cs : List (Cand α)) : OneToOne (greedy cs) :=
  foldl_oneToOne cs [] (by simp [OneToOne])

theorem step_mono (acc : List (Cand α)) (c : Cand α) : ∀ a ∈ acc, a ∈ step acc c := by
  intro a ha; unfold step; split <;> simp [ha]

theorem foldl_mono (cs acc : List (Cand α)) : ∀ a ∈ acc, a ∈ cs.foldl step acc := by
  induction cs generalizing acc with
  | nil => simp
  | cons c cs ih => intro a ha; exact ih _ a (step_mono acc c a ha)

theorem mem_step (acc : List (Cand α)) (c a : Cand α) (h : a ∈ step acc c) : a ∈ acc ∨ a = c := by
  unfold step at h
  split at h
  · exact Or.inl h
  · simpa using h

theorem foldl_sub (cs acc : List (Cand α)) : ∀ a ∈ cs.foldl step acc, a ∈ acc ∨ a ∈ cs := by
  induction cs generalizing acc with
  | nil => intro a ha; exact Or.inl (by simpa using ha)
  | cons c cs ih =>
    intro a ha
    rcases ih (step acc c) a (by simpa using ha) with h | h
    · rcases mem_step acc c a h with h | h
      · exact Or.inl h
      · exact Or.inr (by simp [h])
    · exact Or.inr (by simp [h])

/-- every assigned pair is one of the candidates -/
theorem greedy_sub (cs : List (Cand α)) : ∀ a ∈ greedy cs, a ∈ cs := by
  intro a ha
  rcases foldl_sub cs [] a ha with h | h
  · cases h
  · exact h

/-- **Greedy invariant.** On a list in which earlier elements are `R`-related to later ones, every
candidate is either assigned or blocked by an assigned pair that shares its source or target and came
no later. -/
theorem foldl_blocked (R : Cand α → Cand α → Prop) (cs acc : List (Cand α))
    (hacc : ∀ a ∈ acc, ∀ c ∈ cs, R a c) (hs : cs.Pairwise R) :
    ∀ c ∈ cs, ∃ a ∈ cs.foldl step acc, (a.s = c.s ∨ a.t = c.t) ∧ (a = c ∨ R a c) := by
  induction cs generalizing acc with
  | nil => intro c hc; cases hc
  | cons c0 cs ih =>
    intro c hc
    rw [List.pairwise_cons] at hs
    simp only [List.foldl_cons]
    rcases List.mem_cons.1 hc with rfl | hc
    · by_cases hb : acc.any (fun a => a.s == c.s || a.t == c.t)
      · simp at hb
        obtain ⟨a, ha, h⟩ := hb
        exact ⟨a, foldl_mono cs _ a (step_mono acc c a ha), h, Or.inr (hacc a ha c (by simp))⟩
      · refine ⟨c, foldl_mono cs _ c ?_, Or.inl rfl, Or.inl rfl⟩
        unfold step; simp [hb]
    · refine ih (step acc c0) ?_ hs.2 c hc
      intro a ha c' hc'
      rcases mem_step acc c0 a ha with h | h
      · exact hacc a h c' (by simp [hc'])
      · subst h; exact hs.1 c' hc'

theorem greedy_blocked (R : Cand α → Cand α → Prop) (cs : List (Cand α)) (hs : cs.Pairwise R) :
    ∀ c ∈ cs, ∃ a ∈ greedy cs, (a.s = c.s ∨ a.t = c.t) ∧ (a = c ∨ R a c) :=
  foldl_blocked R cs [] (by intro a ha; cases ha) hs

theorem oneToOneB_iff (out : List (Nat × Nat)) :
    oneToOneB out = true ↔ out.Pairwise (fun x y => x.1 ≠ y.1 ∧ x.2 ≠ y.2) := by
  induction out with
  | nil => simp [oneToOneB]
  | cons p ps ih =>
    simp only [oneToOneB, Bool.and_eq_true, List.all_eq_true, bne_iff_ne, ne_eq, List.pairwise_cons, ih]

end CryoCat.C20
