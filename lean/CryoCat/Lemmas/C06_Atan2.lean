import CryoCat.Lemmas.C06_Real
import CryoCat.Lemmas.C06_Geom
import Mathlib.Analysis.SpecialFunctions.Complex.Arg
/-! C06 — `atan2` over the reals as the argument of `x + iy`; cos/sin of it. -/
namespace CryoCat.C06
open Real

/-- `atan2 y x`: the argument of `x + iy`, in (-π, π] -/
noncomputable def atan2R (y x : ℝ) : ℝ := Complex.arg ⟨x, y⟩

theorem norm_mk (x y : ℝ) : ‖(⟨x, y⟩ : ℂ)‖ = sqrt (x * x + y * y) := by
  rw [Complex.norm_def, Complex.normSq_mk]

theorem cos_atan2R (y x : ℝ) (h : x * x + y * y ≠ 0) : cos (atan2R y x) = x / sqrt (x * x + y * y) := by
  unfold atan2R
  have hne : (⟨x, y⟩ : ℂ) ≠ 0 := by
    intro e
    have e1 := congrArg Complex.re e
    have e2 := congrArg Complex.im e
    simp at e1 e2
    apply h; rw [e1, e2]; ring
  rw [Complex.cos_arg hne, norm_mk]

theorem sin_atan2R (y x : ℝ) : sin (atan2R y x) = y / sqrt (x * x + y * y) := by
  unfold atan2R
  rw [Complex.sin_arg, norm_mk]

theorem atan2R_zero_one : atan2R 0 1 = 0 := by
  unfold atan2R
  have : (⟨1, 0⟩ : ℂ) = 1 := by apply Complex.ext <;> simp
  rw [this, Complex.arg_one]

theorem realLibm_sqrtSpec (at2 : ℝ → ℝ → ℝ) : SqrtSpec (realLibm at2) :=
  ⟨fun a ha => Real.mul_self_sqrt ha, fun a => Real.sqrt_nonneg a⟩

end CryoCat.C06
