import CryoCat.Lemmas.C20_Order
import CryoCat.Model.C20_Expr
import CryoCat.Lemmas.M3
import Mathlib.Tactic.Ring
import Mathlib.Tactic.LinearCombination
import Mathlib.Tactic.Linarith
import Mathlib.Algebra.Order.Field.Basic
/-! C20 — geometry of the admissibility test: exact-arithmetic facts over commutative rings /
ordered fields. -/
namespace CryoCat.C20

section ring
variable {α : Type} [CommRing α]

theorem apply_smul (q : M3 α) (k : α) (u : V3 α) : q.apply (V3.smul k u) = V3.smul k (q.apply u) := by
  ext <;> simp [M3.apply, V3.smul] <;> ring

theorem diff_move (q : M3 α) (t u v : V3 α) : (q.apply v + t) - (q.apply u + t) = q.apply (v - u) := by
  ext <;> simp [M3.apply, V3.add_def, V3.add, V3.sub_def, V3.sub] <;> ring

/-- squared distance is invariant under a rigid motion -/
theorem d2_move {q : M3 α} (h : q.Orth) (t u v : V3 α) : d2 (q.apply u + t) (q.apply v + t) = d2 u v := by
  unfold d2; rw [diff_move, h.dot_apply]

/-- the projection on the (co-moved) normal is invariant under a rigid motion -/
theorem proj_move {q : M3 α} (h : q.Orth) (t u v n : V3 α) :
    proj (q.apply u + t) (q.apply v + t) (q.apply n) = proj u v n := by
  unfold proj; rw [diff_move, h.dot_apply]

/-- the squared lateral offset is invariant under a rigid motion -/
theorem lat2_move {q : M3 α} (h : q.Orth) (t u v n : V3 α) :
    lat2 (q.apply u + t) (q.apply v + t) (q.apply n) = lat2 u v n := by
  unfold lat2
  rw [proj_move h, diff_move, ← apply_smul, ← M3.apply_sub, h.normSq_apply]

/-- Pythagoras for a unit normal: `lateral² = dist² − proj²` -/
theorem lat2_unit (u v n : V3 α) (hn : V3.dot n n = 1) : lat2 u v n = d2 u v - proj u v n * proj u v n := by
  simp only [lat2, d2, proj, V3.normSq, V3.dot, V3.smul, V3.sub_def, V3.sub] at *
  linear_combination ((v.x - u.x) * n.x + (v.y - u.y) * n.y + (v.z - u.z) * n.z) ^ 2 * hn

/-- Pythagoras for ANY normal (`s = n·n`): `lateral² = dist² − proj²·(2 − s)` -/
theorem lat2_general (u v n : V3 α) :
    lat2 u v n = d2 u v - proj u v n * proj u v n * (2 - V3.dot n n) := by
  simp only [lat2, d2, proj, V3.normSq, V3.dot, V3.smul, V3.sub_def, V3.sub]
  ring

theorem d2_symm (u v : V3 α) : d2 u v = d2 v u := by
  simp only [d2, V3.dot, V3.sub_def, V3.sub]; ring

/-- the anchored source expressions evaluate to the model's quantities -/
def envOf (ps pt n : V3 α) (m r : α) : Env α :=
  ⟨ps.x, ps.y, ps.z, pt.x, pt.y, pt.z, n.x, n.y, n.z, m, r⟩

end ring

section field
variable {α : Type} [Field α] [LinearOrder α] [IsStrictOrderedRing α]

/-- **Cone criterion.** Let `c`, `t` be the cosine and tangent of the half-angle, abstractly:
`c > 0` and `c²·(1 + t²) = 1`. For a unit normal, the test of the code with multiplier `t²` accepts
exactly the targets whose direction makes an angle with the normal whose cosine exceeds `c`:
`proj > 0` and `proj² > c²·dist²`. -/
theorem cone_iff_sq (u v n : V3 α) (c t : α) (hn : V3.dot n n = 1) (hc : 0 < c) (hct : c * c * (1 + t * t) = 1) :
    (0 < proj u v n ∧ lat2 u v n < t * t * proj u v n * proj u v n)
      ↔ (0 < proj u v n ∧ c * c * d2 u v < proj u v n * proj u v n) := by
  have hc2 : 0 < c * c := mul_pos hc hc
  have key : proj u v n * proj u v n - c * c * d2 u v
      = c * c * (t * t * proj u v n * proj u v n - lat2 u v n) := by
    rw [lat2_unit u v n hn]
    linear_combination (-(proj u v n * proj u v n)) * hct
  constructor
  · rintro ⟨h0, h⟩
    refine ⟨h0, ?_⟩
    have : 0 < c * c * (t * t * proj u v n * proj u v n - lat2 u v n) := mul_pos hc2 (sub_pos.2 h)
    rw [← key] at this
    exact sub_pos.1 this
  · rintro ⟨h0, h⟩
    refine ⟨h0, ?_⟩
    have h1 : 0 < c * c * (t * t * proj u v n * proj u v n - lat2 u v n) := by
      rw [← key]; exact sub_pos.2 h
    exact sub_pos.1 ((mul_pos_iff_of_pos_left hc2).1 h1)

/-- the same with the distance itself: `proj > c·dist`, i.e. cos∠(target − source, normal) > c -/
theorem cone_iff_dist (sqrt : α → α) (u v n : V3 α) (c t : α) (hn : V3.dot n n = 1) (hc : 0 < c)
    (hct : c * c * (1 + t * t) = 1) (hs0 : 0 ≤ sqrt (d2 u v)) (hs : sqrt (d2 u v) * sqrt (d2 u v) = d2 u v) :
    (0 < proj u v n ∧ lat2 u v n < t * t * proj u v n * proj u v n) ↔ c * dist sqrt u v < proj u v n := by
  rw [cone_iff_sq u v n c t hn hc hct]
  unfold dist
  have hcd : 0 ≤ c * sqrt (d2 u v) := mul_nonneg (le_of_lt hc) hs0
  have e : c * c * d2 u v = (c * sqrt (d2 u v)) * (c * sqrt (d2 u v)) := by
    linear_combination (-(c * c)) * hs
  rw [e]
  constructor
  · rintro ⟨h0, h⟩
    by_contra hlt
    have hle : proj u v n ≤ c * sqrt (d2 u v) := not_lt.1 hlt
    have := mul_le_mul hle hle (le_of_lt h0) hcd
    exact absurd h (not_lt.2 this)
  · intro h
    have h0 : 0 < proj u v n := lt_of_le_of_lt hcd h
    exact ⟨h0, mul_lt_mul'' h h hcd hcd⟩

theorem thickness_le (d M vx : α) (hv : 0 < vx) (h : d ≤ M / vx) : d * vx ≤ M :=
  (le_div_iff₀ hv).1 h

omit [LinearOrder α] [IsStrictOrderedRing α] in
theorem rescale_radius (k M vx : α) (hk : k ≠ 0) : (k * M) / (k * vx) = M / vx :=
  mul_div_mul_left M vx hk

end field
end CryoCat.C20
