import CryoCat.Model.C10
import Mathlib.Tactic.IntervalCases
import Mathlib.Tactic.Ring
/-! C10 — the symmetry argument: `re.findall(r"\d+", s)[-1]` and `int(...)` on `'C' ++ str(n)` give back `n`
(also with blanks or zero padding between the letter and the number). -/
namespace CryoCat.C10

/-- value of digits given least significant first -/
def valRev : List Char → Nat
  | [] => 0
  | c :: cs => valRev cs * 10 + (c.toNat - '0'.toNat)

theorem natOfDigits_foldl (ds : List Char) (init : Nat) :
    ds.foldl (fun acc c => acc * 10 + (c.toNat - '0'.toNat)) init
      = init * 10 ^ ds.length + natOfDigits ds := by
  induction ds generalizing init with
  | nil => simp [natOfDigits]
  | cons c cs ih =>
    unfold natOfDigits
    simp only [List.foldl_cons, List.length_cons]
    rw [ih, ih (0 * 10 + _)]
    ring

theorem natOfDigits_append (a b : List Char) : natOfDigits (a ++ b) = natOfDigits a * 10 ^ b.length + natOfDigits b := by
  unfold natOfDigits
  rw [List.foldl_append, natOfDigits_foldl]; rfl

theorem natOfDigits_reverse (ds : List Char) : natOfDigits ds.reverse = valRev ds := by
  induction ds with
  | nil => rfl
  | cons c cs ih =>
    rw [List.reverse_cons, natOfDigits_append, ih]
    simp [valRev, natOfDigits]

theorem digitChar_val (d : Nat) (h : d < 10) : (Nat.digitChar d).toNat - '0'.toNat = d := by
  interval_cases d <;> rfl

theorem digitChar_isDig (d : Nat) (h : d < 10) : isDig (Nat.digitChar d) = true := by
  interval_cases d <;> rfl

theorem valRev_revDigitsAux (fuel n : Nat) (h : n < fuel) : valRev (revDigitsAux fuel n) = n := by
  induction fuel generalizing n with
  | zero => omega
  | succ fuel ih =>
    unfold revDigitsAux
    by_cases h0 : n / 10 = 0
    · simp only [h0, if_true, valRev, digitChar_val (n % 10) (Nat.mod_lt _ (by omega))]; omega
    · simp only [h0, if_false, valRev, digitChar_val (n % 10) (Nat.mod_lt _ (by omega))]
      rw [ih (n / 10) (by omega)]; omega

/-- `int(str(n)) = n` -/
theorem natOfDigits_digits (n : Nat) : natOfDigits (digits n) = n := by
  unfold digits; rw [natOfDigits_reverse]; exact valRev_revDigitsAux _ _ (by omega)

theorem revDigitsAux_isDig (fuel n : Nat) : ∀ c ∈ revDigitsAux fuel n, isDig c = true := by
  induction fuel generalizing n with
  | zero => intro c hc; simp [revDigitsAux] at hc
  | succ fuel ih =>
    intro c hc
    unfold revDigitsAux at hc
    rcases List.mem_cons.1 hc with rfl | hc
    · exact digitChar_isDig _ (Nat.mod_lt _ (by omega))
    · by_cases h0 : n / 10 = 0
      · simp [h0] at hc
      · simp only [h0, if_false] at hc; exact ih _ c hc

theorem digits_isDig (n : Nat) : ∀ c ∈ digits n, isDig c = true := by
  intro c hc; unfold digits at hc
  exact revDigitsAux_isDig _ _ c (List.mem_reverse.1 hc)

theorem digits_ne_nil (n : Nat) : digits n ≠ [] := by
  unfold digits revDigitsAux; simp

/-- `digits` is Python's `str(n)` / Lean's `Nat.repr` on the range the property quantifies over (and beyond) -/
theorem digits_eq_repr : ∀ n : Fin 200, digits n.val = (Nat.repr n.val).toList := by decide +kernel

/-- zero padding does not change the value: `int("007") = 7` -/
theorem natOfDigits_zeros (z : Nat) (ds : List Char) : natOfDigits (List.replicate z '0' ++ ds) = natOfDigits ds := by
  induction z with
  | zero => rfl
  | succ z ih =>
    rw [List.replicate_succ, List.cons_append]
    unfold natOfDigits at ih ⊢
    simpa using ih

theorem takeWhile_all (p : Char → Bool) : ∀ l : List Char, (∀ x ∈ l, p x = true) → l.takeWhile p = l
  | [], _ => rfl
  | c :: cs, h => by
    rw [List.takeWhile_cons, h c (List.mem_cons_self ..)]
    simp only [if_true]; rw [takeWhile_all p cs (fun x hx => h x (List.mem_cons_of_mem _ hx))]

theorem dropWhile_all (p : Char → Bool) : ∀ l : List Char, (∀ x ∈ l, p x = true) → l.dropWhile p = []
  | [], _ => rfl
  | c :: cs, h => by
    rw [List.dropWhile_cons, h c (List.mem_cons_self ..)]
    simp only [if_true]; exact dropWhile_all p cs (fun x hx => h x (List.mem_cons_of_mem _ hx))

/-- a run of digits is one match -/
theorem findallDigits_run (ds : List Char) (hne : ds ≠ []) (hd : ∀ c ∈ ds, isDig c = true) : findallDigits ds = [ds] := by
  cases ds with
  | nil => exact absurd rfl hne
  | cons c cs =>
    have hc : isDig c = true := hd c (List.mem_cons_self ..)
    have hcs : ∀ x ∈ cs, isDig x = true := fun x hx => hd x (List.mem_cons_of_mem _ hx)
    rw [findallDigits, if_pos hc, takeWhile_all _ _ hcs, dropWhile_all _ _ hcs, findallDigits]

/-- text without digits before a run of digits: `re.findall(r"\d+", pre + run) = [run]` -/
theorem findallDigits_prefix (pre ds : List Char) (hp : ∀ c ∈ pre, isDig c = false) (hne : ds ≠ [])
    (hd : ∀ c ∈ ds, isDig c = true) : findallDigits (pre ++ ds) = [ds] := by
  induction pre with
  | nil => exact findallDigits_run ds hne hd
  | cons p ps ih =>
    have h1 : isDig p = false := hp p (List.mem_cons_self ..)
    rw [List.cons_append, findallDigits, h1]
    simpa using ih (fun c hc => hp c (List.mem_cons_of_mem _ hc))

theorem findallDigits_nil : findallDigits [] = [] := by rw [findallDigits]
theorem findallDigits_cons_dig (c : Char) (cs : List Char) (h : isDig c = true) :
    findallDigits (c :: cs) = (c :: cs.takeWhile isDig) :: findallDigits (cs.dropWhile isDig) := by
  rw [findallDigits, if_pos h]
theorem findallDigits_cons_non (c : Char) (cs : List Char) (h : isDig c = false) :
    findallDigits (c :: cs) = findallDigits cs := by
  rw [findallDigits]; simp [h]

theorem takeWhile_append_stop (p : Char → Bool) (x : Char) (hx : p x = false) (r : List Char) :
    ∀ l : List Char, (l ++ x :: r).takeWhile p = l.takeWhile p
  | [] => by simp [List.takeWhile_cons, hx]
  | c :: cs => by
    simp only [List.cons_append, List.takeWhile_cons]
    split
    · rw [takeWhile_append_stop p x hx r cs]
    · rfl

theorem dropWhile_append_stop (p : Char → Bool) (x : Char) (hx : p x = false) (r : List Char) :
    ∀ l : List Char, (l ++ x :: r).dropWhile p = l.dropWhile p ++ x :: r
  | [] => by simp [List.dropWhile_cons, hx]
  | c :: cs => by
    simp only [List.cons_append, List.dropWhile_cons]
    split
    · rw [dropWhile_append_stop p x hx r cs]
    · rfl

/-- a character that is no digit separates the matches: `findall(a + sep + b) = findall(a) + findall(b)` -/
theorem findallDigits_sep (sep : Char) (hs : isDig sep = false) (b : List Char) :
    ∀ (m : Nat) (a : List Char), a.length ≤ m → findallDigits (a ++ sep :: b) = findallDigits a ++ findallDigits b
  | _, [], _ => by rw [List.nil_append, findallDigits_cons_non _ _ hs, findallDigits_nil, List.nil_append]
  | 0, c :: cs, h => by simp at h
  | m + 1, c :: cs, h => by
    have hlen : cs.length ≤ m := by simpa using h
    by_cases hc : isDig c = true
    · rw [List.cons_append, findallDigits_cons_dig _ _ hc, findallDigits_cons_dig _ _ hc,
        takeWhile_append_stop _ _ hs, dropWhile_append_stop _ _ hs,
        findallDigits_sep sep hs b m _ (Nat.le_trans (length_dropWhile_le' _ _) hlen)]
      rfl
    · have hc' : isDig c = false := by simpa using hc
      rw [List.cons_append, findallDigits_cons_non _ _ hc', findallDigits_cons_non _ _ hc',
        findallDigits_sep sep hs b m cs hlen]

/-- the LAST number counts: whatever stands before a non-digit, `re.findall(r"\\d+", a + sep + run)[-1] = run` -/
theorem findallDigits_last (a : List Char) (sep : Char) (hs : isDig sep = false) (ds : List Char) (hne : ds ≠ [])
    (hd : ∀ c ∈ ds, isDig c = true) : (findallDigits (a ++ sep :: ds)).getLast? = some ds := by
  rw [findallDigits_sep sep hs ds a.length a (Nat.le_refl _), findallDigits_run ds hne hd]
  simp

end CryoCat.C10
