import CryoCat.Lemmas.C02_WriteOk
import CryoCat.Model.C02_Comments
/-! C02 — helper lemmas, part 10: the comment-collecting reader returns the same tables as the token
reader; the text `Starfile.write` produces with a `comments` argument is a well laid-out document
with the comment lines in front of each block; `data_id` and `get_specifier_id`. Core Lean only. -/
namespace CryoCat.C02

/-! ### the reader with comments refines the reader -/

/-- forget the comment lists -/
def dropC : Except Err (List (Block × List Comment)) → Except Err (List Block)
  | .ok bs => .ok (bs.map Prod.fst)
  | .error e => .error e

theorem blocksGoC_tables (fuel : Nat) (ts : List Tok) : dropC (blocksGoC fuel ts) = blocksGo fuel ts := by
  induction fuel generalizing ts with
  | zero => rfl
  | succ f ih =>
    rw [blocksGoC, blocksGo]
    by_cases hl : lookaheadLit ts = true
    · simp only [hl, if_true]
      cases h1 : parseSpecifier ts with
      | error e => rfl
      | ok p1 =>
        obtain ⟨name, ts1⟩ := p1
        simp only
        cases h2 : parseColumns ts1 with
        | error e => rfl
        | ok p2 =>
          obtain ⟨cols, ts2⟩ := p2
          simp only
          cases h3 : parseRows cols.length ts2 with
          | error e => rfl
          | ok p3 =>
            obtain ⟨rows, ts3⟩ := p3
            simp only
            have := ih ts3
            cases h4 : blocksGoC f ts3 with
            | error e => rw [h4] at this; simp only [dropC] at this ⊢; rw [← this]
            | ok bs => rw [h4] at this; simp only [dropC, List.map_cons] at this ⊢; rw [← this]
    · simp only [hl]
      cases skipNC ts <;> rfl

/-- **the comment lists never change the tables**: `Starfile.read` with its comments returns the
blocks of the token reader -/
theorem readStarC_tables (txt : List Char) : dropC (readStarC txt) = readStar txt :=
  blocksGoC_tables _ _

/-! ### the text written with a `comments` argument -/

def commentLineOf (c : Comment) : Line := ⟨[], [], '#' :: ' ' :: c⟩

/-- the lines `Starfile.write` puts in front of a block for its `comment` entry -/
def comPre : Option (List Comment) → List Line
  | none => []
  | some cs => cs.map commentLineOf ++ [eLine]

def layoutsOfC (nc : Bool) : List Line → List (Option (List Comment)) → List Block → List BlockLayout
  | pre, com :: coms, b :: rest => layoutOf nc (pre ++ comPre com) b :: layoutsOfC nc [eLine, eLine] coms rest
  | _, _, _ => []

def docOfC (nc : Bool) (coms : List (Option (List Comment))) (bs : List Block) : Doc :=
  { blocks := layoutsOfC nc [eLine] coms bs, trailing := [eLine, eLine] }

/-- comment lines without a line break -/
def ComOk : Option (List Comment) → Prop
  | none => True
  | some cs => ∀ c ∈ cs, '\n' ∉ c
def ComsOk (coms : List (Option (List Comment))) : Prop := ∀ o ∈ coms, ComOk o
instance : (o : Option (List Comment)) → Decidable (ComOk o)
  | none => isTrue trivial
  | some cs => by unfold ComOk; infer_instance
instance (coms : List (Option (List Comment))) : Decidable (ComsOk coms) := by unfold ComsOk; infer_instance

theorem commentsText_eq (cs : List Comment) (X : List Char) :
    commentsText cs ++ '\n' :: X = '\n' :: (termLines ((cs.map commentLineOf ++ [eLine]).map Line.text) ++ X) := by
  induction cs with
  | nil => simp [commentsText, termLines, eLine, Line.text, render, Gen.C02.commentsEnd]
  | cons c cs ih =>
    have : commentsText (c :: cs) = '\n' :: '#' :: ' ' :: (c ++ commentsText cs) := by
      simp [commentsText, piece, Gen.C02.commentLine]
    rw [this]
    simp only [List.cons_append, List.append_assoc, List.map_cons, termLines_cons]
    rw [ih]
    simp [commentLineOf, Line.text, render]

theorem printBlockC_eq (nc : Bool) (com : Option (List Comment)) (b : Block) :
    printBlockC nc com b = '\n' :: (termLines ((comPre com ++ coreLines nc b).map Line.text) ++ ['\n']) := by
  cases com with
  | none => simp [printBlockC, comPre, printBlock_eq]
  | some cs =>
    simp only [printBlockC, comPre, printBlock_eq]
    rw [commentsText_eq]
    simp [termLines_append, termLines_cons, termLines]

theorem layoutsC_text (nc : Bool) (pre : List Line) (com : Option (List Comment)) (coms : List (Option (List Comment)))
    (b : Block) (rest : List Block) (hl : coms.length = rest.length) :
    termLines (((layoutsOfC nc pre (com :: coms) (b :: rest)).flatMap BlockLayout.lines).map Line.text) ++ ['\n'] =
      termLines (pre.map Line.text) ++ (printAllC nc (com :: coms) (b :: rest)).tail := by
  induction rest generalizing pre com coms b with
  | nil =>
    cases coms with
    | nil => simp [layoutsOfC, layout_lines, termLines_append, printAllC, printBlockC_eq]
    | cons _ _ => simp at hl
  | cons b2 rest ih =>
    cases coms with
    | nil => simp at hl
    | cons com2 coms' =>
      have h := ih [eLine, eLine] com2 coms' b2 (by simpa using hl)
      simp only [layoutsOfC, List.flatMap_cons, List.map_append, termLines_append, layout_lines, List.append_assoc, printAllC,
        printBlockC_eq] at h ⊢
      rw [h]
      simp [termLines, eLine, Line.text, render]

theorem docOfC_text (nc : Bool) (coms : List (Option (List Comment))) (bs : List Block) (h : bs ≠ [])
    (hl : coms.length = bs.length) : (docOfC nc coms bs).text = printAllC nc coms bs := by
  obtain ⟨b, rest, rfl⟩ := List.exists_cons_of_ne_nil h
  cases coms with
  | nil => simp at hl
  | cons com coms' =>
    unfold Doc.text Doc.lines docOfC
    have : ((layoutsOfC nc [eLine] (com :: coms') (b :: rest)).flatMap BlockLayout.lines ++ [eLine, eLine]).map Line.text =
        (((layoutsOfC nc [eLine] (com :: coms') (b :: rest)).flatMap BlockLayout.lines).map Line.text ++ [[]]) ++ [[]] := by
      simp [eLine, Line.text, render]
    simp only [this]
    rw [joinLines_snoc_nil, termLines_append]
    have h2 := layoutsC_text nc [eLine] com coms' b rest (by simpa using hl)
    have h3 : termLines [[]] = ['\n'] := rfl
    rw [h3, h2]
    simp [printAllC, printBlockC_eq, termLines, eLine, Line.text, render]

theorem commentLine_skip (c : Comment) (h : '\n' ∉ c) : (commentLineOf c).Skip := by
  refine ⟨⟨padOk_nil, by simp [commentLineOf], by simp [commentLineOf, SepsOk], Or.inr ⟨' ' :: c, rfl, ?_⟩⟩, rfl⟩
  simp only [List.mem_cons, not_or]
  exact ⟨by decide, h⟩

theorem comPre_skip (com : Option (List Comment)) (h : ComOk com) : ∀ l ∈ comPre com, l.Skip := by
  cases com with
  | none => simp [comPre]
  | some cs =>
    intro l hl
    simp only [comPre, List.mem_append, List.mem_map, List.mem_singleton] at hl
    rcases hl with ⟨c, hc, rfl⟩ | rfl
    · exact commentLine_skip c (h c hc)
    · exact eLine_skip

theorem layoutsOfC_ok (nc : Bool) (pre : List Line) (hpre : ∀ l ∈ pre, l.Skip) (coms : List (Option (List Comment)))
    (hc : ComsOk coms) (bs : List Block) (h : ∀ b ∈ bs, BlockOk b) : ∀ x ∈ layoutsOfC nc pre coms bs, x.Ok := by
  induction bs generalizing pre coms with
  | nil => cases coms <;> simp [layoutsOfC]
  | cons b rest ih =>
    cases coms with
    | nil => simp [layoutsOfC]
    | cons com coms' =>
      intro x hx
      simp only [layoutsOfC, List.mem_cons] at hx
      rcases hx with rfl | hx
      · refine layoutOf_ok nc _ b ?_ (h b (by simp))
        intro l hl
        rcases List.mem_append.1 hl with h1 | h1
        · exact hpre l h1
        · exact comPre_skip com (hc com (by simp)) l h1
      · refine ih [eLine, eLine] ?_ coms' (fun o ho => hc o (by simp [ho])) (fun y hy => h y (by simp [hy])) x hx
        intro l hl; simp only [List.mem_cons, List.mem_nil_iff, or_false] at hl
        rcases hl with rfl | rfl <;> exact eLine_skip

theorem layoutsOfC_blocks (nc : Bool) (pre : List Line) (coms : List (Option (List Comment))) (bs : List Block)
    (hl : coms.length = bs.length) (h : ∀ b ∈ bs, BlockOk b) : (layoutsOfC nc pre coms bs).map BlockLayout.block = bs := by
  induction bs generalizing pre coms with
  | nil => cases coms <;> simp [layoutsOfC]
  | cons b rest ih =>
    cases coms with
    | nil => simp at hl
    | cons com coms' =>
      simp only [layoutsOfC, List.map_cons]
      rw [layoutOf_block nc _ b (h b (by simp)), ih _ coms' (by simpa using hl) (fun x hx => h x (by simp [hx]))]

theorem layoutsOfC_sep (nc : Bool) (pre : List Line) (coms : List (Option (List Comment))) (bs : List Block)
    (hl : coms.length = bs.length) (he : EmptyOnlyLast bs) : SepOk [eLine, eLine] (layoutsOfC nc pre coms bs) := by
  induction bs generalizing pre coms with
  | nil => cases coms <;> trivial
  | cons b rest ih =>
    cases coms with
    | nil => simp at hl
    | cons com coms' =>
      cases rest with
      | nil =>
        cases coms' with
        | nil => intro _; simp [layoutsOfC]
        | cons _ _ => simp at hl
      | cons b2 rest' =>
        cases coms' with
        | nil => simp at hl
        | cons com2 coms'' =>
          refine ⟨?_, by simp [layoutOf], ?_⟩
          · simpa [layoutOf] using he.1
          · exact ih [eLine, eLine] (com2 :: coms'') (by simpa using hl) he.2

theorem docOfC_ok (nc : Bool) (coms : List (Option (List Comment))) (bs : List Block) (hne : bs ≠ [])
    (hl : coms.length = bs.length) (hc : ComsOk coms) (h : ∀ b ∈ bs, BlockOk b) (he : EmptyOnlyLast bs) :
    (docOfC nc coms bs).Ok := by
  refine ⟨layoutsOfC_ok nc [eLine] ?_ coms hc bs h, ?_, layoutsOfC_sep nc [eLine] coms bs hl he, by simp [Doc.lines, docOfC]⟩
  · intro l hl'; simp only [List.mem_singleton] at hl'; subst hl'; exact eLine_skip
  · intro l hl'; simp only [docOfC, List.mem_cons, List.mem_nil_iff, or_false] at hl'
    rcases hl' with rfl | rfl <;> exact eLine_skip

/-- **write with comments, then read**: the tables come back whatever comment lines are written -/
theorem readStar_printStarC (nc : Bool) (coms : List (Option (List Comment))) (bs : List Block) (txt : List Char)
    (hw : printStarC nc coms bs = some txt) (hc : ComsOk coms) (h : ∀ b ∈ bs, BlockOk b) (he : EmptyOnlyLast bs) :
    readStar txt = .ok bs := by
  unfold printStarC at hw
  split at hw
  · rename_i hl
    cases hw
    cases bs with
    | nil => cases coms <;> rfl
    | cons b rest =>
      rw [← docOfC_text nc coms (b :: rest) (by simp) hl, readStar_doc _ (docOfC_ok nc coms _ (by simp) hl hc h he)]
      simp only [docOfC]
      rw [layoutsOfC_blocks nc _ coms _ hl h]
  · cases hw

/-- `comments=None` (no entry for any block) is the writer without comments -/
theorem printAllC_none (nc : Bool) (bs : List Block) : printAllC nc (List.replicate bs.length none) bs = printStar nc bs := by
  induction bs with
  | nil => rfl
  | cons b rest ih => simp [List.replicate_succ, printAllC, printBlockC, ih, printStar]

/-! ### `data_id`, `get_specifier_id` -/

theorem pyIndex_nonneg (len k : Nat) (h : k < len) : pyIndex len (k : Int) = some k := by
  simp [pyIndex, h]

theorem pyIndex_neg (len k : Nat) (h1 : 0 < k) (h2 : k ≤ len) : pyIndex len (-(k : Int)) = some (len - k) := by
  have : ¬ (0 : Int) ≤ -(k : Int) := by omega
  simp only [pyIndex, this, if_false, Int.neg_neg, Int.toNat_natCast, h2, if_true]

theorem pyIndex_lt (len : Nat) (i : Int) (k : Nat) (h : pyIndex len i = some k) : k < len := by
  unfold pyIndex at h
  split at h
  · split at h
    · cases h; assumption
    · cases h
  · split at h
    · cases h; omega
    · cases h

theorem specifierId_some (names : List Word) (s : Word) (k : Nat) :
    specifierId names s = some k ↔ names[k]? = some s ∧ ∀ j < k, names[j]? ≠ some s := by
  induction names generalizing k with
  | nil => simp [specifierId]
  | cons n ns ih =>
    unfold specifierId
    by_cases hn : n = s
    · subst hn
      simp only [if_true, Option.some.injEq]
      constructor
      · intro h; subst h; simp
      · rintro ⟨_, h2⟩
        cases k with
        | zero => rfl
        | succ k => exact absurd (by simp) (h2 0 (by omega))
    · simp only [hn, if_false, Option.map_eq_some_iff]
      constructor
      · rintro ⟨a, ha, rfl⟩
        obtain ⟨h1, h2⟩ := (ih a).1 ha
        refine ⟨by simpa using h1, ?_⟩
        intro j hj
        cases j with
        | zero => simpa using hn
        | succ j => simpa using h2 j (by omega)
      · rintro ⟨h1, h2⟩
        cases k with
        | zero => simp at h1; exact absurd h1 hn
        | succ k =>
          refine ⟨k, (ih k).2 ⟨by simpa using h1, ?_⟩, rfl⟩
          intro j hj
          simpa using h2 (j + 1) (by omega)

theorem specifierId_none (names : List Word) (s : Word) : specifierId names s = none ↔ s ∉ names := by
  induction names with
  | nil => simp [specifierId]
  | cons n ns ih =>
    unfold specifierId
    by_cases hn : n = s
    · subst hn; simp
    · simp only [hn, if_false, Option.map_eq_none_iff, ih, List.mem_cons, not_or]
      exact ⟨fun h => ⟨fun e => hn e.symm, h⟩, fun h => h.2⟩

end CryoCat.C02
