import CryoCat.Lemmas.C08_Merge
/-! C08 — helper lemmas for the history invariant (rows only ever come from the lists that entered
the history; only id fields are rewritten). -/
namespace CryoCat.C08
open CryoCat Gen.C08
set_option linter.unusedSectionVars false

section plain
variable {α : Type}

theorem get_fillRow (fill : α → α) (p : Particle α) (f : Field) : (fillRow fill p).get f = fill (p.get f) := by
  unfold fillRow; exact Particle.get_ofFn _ _


theorem numberFrom_objs (nat : Nat → α) (k : Nat) (l : Motl α) :
    (numberFrom nat k l).map (·.object_id) = l.map (·.object_id) := by
  induction l generalizing k with
  | nil => rfl
  | cons p l ih => simp only [numberFrom, List.map_cons, ih]; rfl


theorem unchanged_refl (fill : α → α) (p : Particle α) : Unchanged fill p p := fun _ _ _ => Or.inl rfl

theorem unchanged_trans (fill : α → α) (hfill : ∀ v, fill (fill v) = fill v) (p q r : Particle α)
    (h1 : Unchanged fill p q) (h2 : Unchanged fill q r) : Unchanged fill p r := by
  intro f hf1 hf2
  rcases h2 f hf1 hf2 with e2 | e2 <;> rcases h1 f hf1 hf2 with e1 | e1
  · exact Or.inl (e2.trans e1)
  · exact Or.inr (e2.trans e1)
  · exact Or.inr (by rw [e2, e1])
  · exact Or.inr (by rw [e2, e1, hfill])

/-- a literal row is unchanged under any filling policy -/
theorem unchanged_of_literal (g : α → α) (p q : Particle α) (h : Literal p q) : Unchanged g p q :=
  fun f h1 h2 => Or.inl (h f h1 h2)

theorem literal_iff_unchanged_id (p q : Particle α) : Literal p q ↔ Unchanged (fun v => v) p q :=
  ⟨fun h f h1 h2 => Or.inl (h f h1 h2), fun h f h1 h2 => (h f h1 h2).elim id id⟩

/-- a policy that fills under condition `c` is contained in one that fills under a weaker condition -/
theorem unchanged_if_mono (fill : α → α) (c d : Bool) (hcd : c = true → d = true) (p q : Particle α)
    (h : Unchanged (if c then fill else (fun v => v)) p q) : Unchanged (if d then fill else (fun v => v)) p q := by
  cases c <;> cases d
  · exact h
  · exact unchanged_of_literal _ p q ((literal_iff_unchanged_id p q).2 h)
  · exact absurd (hcd rfl) (by decide)
  · exact h

theorem unchanged_op_to_hist (fill : α → α) (op : Op α) (ops : List (Op α)) (p q : Particle α)
    (h : Unchanged (opFill fill op) p q) : Unchanged (histFill fill (op :: ops)) p q := by
  unfold opFill at h; unfold histFill
  exact unchanged_if_mono fill _ _ (by intro e; simp [List.any_cons, e]) p q h

theorem unchanged_hist_cons (fill : α → α) (op : Op α) (ops : List (Op α)) (p q : Particle α)
    (h : Unchanged (histFill fill ops) p q) : Unchanged (histFill fill (op :: ops)) p q := by
  unfold histFill at h ⊢
  exact unchanged_if_mono fill _ _ (by intro e; simp [List.any_cons, e]) p q h

theorem histFill_idem (fill : α → α) (hfill : ∀ v, fill (fill v) = fill v) (ops : List (Op α)) :
    ∀ v, histFill fill ops (histFill fill ops v) = histFill fill ops v := by
  intro v; unfold histFill; split
  · exact hfill v
  · rfl

/-- a history without re-loading operations has the identity as its filling policy: `Unchanged` is `Literal` -/
theorem histFill_of_no_fill (fill : α → α) (ops : List (Op α)) (h : ops.any Op.mayFill = false) :
    histFill fill ops = (fun v => v) := by
  unfold histFill; rw [h]; rfl

end plain

section ordered
variable {α : Type} [CommRing α] [LinearOrder α] [IsStrictOrderedRing α]

theorem loaded_rows (fill : α → α) (x : Bool × Motl α) :
    ∀ p ∈ loaded fill x, ∃ p0 ∈ x.2, Unchanged (if x.1 then fill else (fun v => v)) p0 p := by
  intro p hp
  unfold loaded at hp
  split at hp
  · rename_i hx
    obtain ⟨p0, hp0, rfl⟩ := List.mem_map.1 hp
    exact ⟨p0, hp0, fun f _ _ => Or.inr (by rw [hx]; exact get_fillRow fill p0 f)⟩
  · exact ⟨p, hp, unchanged_refl _ p⟩

/-- the rows of the loaded inputs of a merge are rows of the lists handed over; a missing value is
filled only if SOME input is a bare DataFrame -/
theorem mergeInputs_rows (fill : α → α) (b a : List (Bool × Motl α)) (s : Bool) (l : Motl α) :
    ∀ m ∈ mergeInputs fill b a s l, ∀ p ∈ m,
      ∃ p0 ∈ l ++ ((b.map (·.2)).flatten ++ (a.map (·.2)).flatten),
        Unchanged (if (s || (b.any (·.1) || a.any (·.1))) then fill else (fun v => v)) p0 p := by
  intro m hm p hp
  unfold mergeInputs at hm
  simp only [List.mem_append, List.mem_map, List.mem_singleton] at hm
  rcases hm with (⟨x, hx, rfl⟩ | rfl) | ⟨x, hx, rfl⟩
  · obtain ⟨p0, hp0, hu⟩ := loaded_rows fill x p hp
    refine ⟨p0, ?_, unchanged_if_mono fill _ _ ?_ p0 p hu⟩
    · simp only [List.mem_append, List.mem_flatten, List.mem_map]
      exact Or.inr (Or.inl ⟨x.2, ⟨x, hx, rfl⟩, hp0⟩)
    · intro e
      have : b.any (·.1) = true := List.any_eq_true.2 ⟨x, hx, e⟩
      simp [this]
  · obtain ⟨p0, hp0, hu⟩ := loaded_rows fill (s, l) p hp
    exact ⟨p0, List.mem_append_left _ hp0, unchanged_if_mono fill _ _ (by intro e; simp at e; simp [e]) p0 p hu⟩
  · obtain ⟨p0, hp0, hu⟩ := loaded_rows fill x p hp
    refine ⟨p0, ?_, unchanged_if_mono fill _ _ ?_ p0 p hu⟩
    · simp only [List.mem_append, List.mem_flatten, List.mem_map]
      exact Or.inr (Or.inr ⟨x.2, ⟨x, hx, rfl⟩, hp0⟩)
    · intro e
      have : a.any (·.1) = true := List.any_eq_true.2 ⟨x, hx, e⟩
      simp [this]

theorem mergeBlocks_flat_rows (cmp : Cmp) (ls : List (Motl α)) :
    ∀ q ∈ (mergeBlocks cmp 0 ls).flatten, ∃ m ∈ ls, ∃ p ∈ m, ∀ f : Field, f ≠ Field.object_id → q.get f = p.get f := by
  intro q hq
  obtain ⟨b, hb, hqb⟩ := List.mem_flatten.1 hq
  exact mergeBlocks_rows cmp 0 ls b hb q hqb


end ordered
end CryoCat.C08
