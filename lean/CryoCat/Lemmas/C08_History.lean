import CryoCat.Lemmas.C08_Merge
/-! C08 — helper lemmas for the history invariant (rows only ever come from the lists that entered
the history; only id fields are rewritten). -/
namespace CryoCat.C08
open CryoCat Gen.C08
set_option linter.unusedSectionVars false

section plain
variable {α : Type}

theorem get_fillRow (fill : α → α) (p : Particle α) (f : Field) : (fillRow fill p).get f = fill (p.get f) := by
  unfold fillRow; exact Particle.get_ofFn _ _


theorem numberFrom_objs (nat : Nat → α) (k : Nat) (l : Motl α) :
    (numberFrom nat k l).map (·.object_id) = l.map (·.object_id) := by
  induction l generalizing k with
  | nil => rfl
  | cons p l ih => simp only [numberFrom, List.map_cons, ih]; rfl


theorem unchanged_refl (fill : α → α) (p : Particle α) : Unchanged fill p p := fun _ _ _ => Or.inl rfl

theorem unchanged_trans (fill : α → α) (hfill : ∀ v, fill (fill v) = fill v) (p q r : Particle α)
    (h1 : Unchanged fill p q) (h2 : Unchanged fill q r) : Unchanged fill p r := by
  intro f hf1 hf2
  rcases h2 f hf1 hf2 with e2 | e2 <;> rcases h1 f hf1 hf2 with e1 | e1
  · exact Or.inl (e2.trans e1)
  · exact Or.inr (e2.trans e1)
  · exact Or.inr (by rw [e2, e1])
  · exact Or.inr (by rw [e2, e1, hfill])

end plain

section ordered
variable {α : Type} [CommRing α] [LinearOrder α] [IsStrictOrderedRing α]

theorem loaded_rows (fill : α → α) (x : Bool × Motl α) :
    ∀ p ∈ loaded fill x, ∃ p0 ∈ x.2, Unchanged fill p0 p := by
  intro p hp
  unfold loaded at hp
  split at hp
  · obtain ⟨p0, hp0, rfl⟩ := List.mem_map.1 hp
    exact ⟨p0, hp0, fun f _ _ => Or.inr (get_fillRow fill p0 f)⟩
  · exact ⟨p, hp, unchanged_refl fill p⟩

theorem mergeInputs_rows (fill : α → α) (b a : List (Bool × Motl α)) (s : Bool) (l : Motl α) :
    ∀ m ∈ mergeInputs fill b a s l, ∀ p ∈ m,
      ∃ p0 ∈ l ++ ((b.map (·.2)).flatten ++ (a.map (·.2)).flatten), Unchanged fill p0 p := by
  intro m hm p hp
  unfold mergeInputs at hm
  simp only [List.mem_append, List.mem_map, List.mem_singleton] at hm
  rcases hm with (⟨x, hx, rfl⟩ | rfl) | ⟨x, hx, rfl⟩
  · obtain ⟨p0, hp0, hu⟩ := loaded_rows fill x p hp
    refine ⟨p0, ?_, hu⟩
    simp only [List.mem_append, List.mem_flatten, List.mem_map]
    exact Or.inr (Or.inl ⟨x.2, ⟨x, hx, rfl⟩, hp0⟩)
  · obtain ⟨p0, hp0, hu⟩ := loaded_rows fill (s, l) p hp
    exact ⟨p0, List.mem_append_left _ hp0, hu⟩
  · obtain ⟨p0, hp0, hu⟩ := loaded_rows fill x p hp
    refine ⟨p0, ?_, hu⟩
    simp only [List.mem_append, List.mem_flatten, List.mem_map]
    exact Or.inr (Or.inr ⟨x.2, ⟨x, hx, rfl⟩, hp0⟩)

theorem mergeBlocks_flat_rows (cmp : Cmp) (ls : List (Motl α)) :
    ∀ q ∈ (mergeBlocks cmp 0 ls).flatten, ∃ m ∈ ls, ∃ p ∈ m, ∀ f : Field, f ≠ Field.object_id → q.get f = p.get f := by
  intro q hq
  obtain ⟨b, hb, hqb⟩ := List.mem_flatten.1 hq
  exact mergeBlocks_rows cmp 0 ls b hb q hqb


end ordered
end CryoCat.C08
