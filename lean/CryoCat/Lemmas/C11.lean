import CryoCat.Model.C11
/-! C11 — helper lemmas (core Lean only): C-order index arithmetic, the `(2,1,0)` transposition. -/
namespace CryoCat.C11
variable {α : Type}

deriving instance DecidableEq for Except

instance (a : Arr α) : Decidable a.WF := by unfold Arr.WF; infer_instance

@[simp] theorem store_dtype (k : Kind) (dt : DType) (a : Arr α) : (store k dt a).dtype = dt := rfl

/-! ### index arithmetic -/

theorem idx_lt {n0 n1 n2 i j k : Nat} (hi : i < n0) (hj : j < n1) (hk : k < n2) :
    (i * n1 + j) * n2 + k < n0 * n1 * n2 := by
  have h1 : i * n1 + j + 1 ≤ n0 * n1 := by
    have : (i + 1) * n1 ≤ n0 * n1 := Nat.mul_le_mul_right n1 hi
    rw [Nat.succ_mul] at this; omega
  have h2 : (i * n1 + j + 1) * n2 ≤ n0 * n1 * n2 := Nat.mul_le_mul_right n2 h1
  rw [Nat.succ_mul] at h2; omega

theorem dec_k {n1 n2 i j k : Nat} (hk : k < n2) : ((i * n1 + j) * n2 + k) % n2 = k := by
  rw [Nat.add_comm, Nat.add_mul_mod_self_right, Nat.mod_eq_of_lt hk]

theorem dec_ij {n1 n2 i j k : Nat} (hk : k < n2) : ((i * n1 + j) * n2 + k) / n2 = i * n1 + j := by
  have hpos : 0 < n2 := by omega
  rw [Nat.add_comm, Nat.add_mul_div_right _ _ hpos, Nat.div_eq_of_lt hk, Nat.zero_add]

theorem dec_j {n1 i j : Nat} (hj : j < n1) : (i * n1 + j) % n1 = j := by
  rw [Nat.add_comm, Nat.add_mul_mod_self_right, Nat.mod_eq_of_lt hj]

theorem dec_i {n1 i j : Nat} (hj : j < n1) : (i * n1 + j) / n1 = i := by
  have hpos : 0 < n1 := by omega
  rw [Nat.add_comm, Nat.add_mul_div_right _ _ hpos, Nat.div_eq_of_lt hj, Nat.zero_add]

theorem enc_dec (t n1 n2 : Nat) : (t / n2 / n1 * n1 + t / n2 % n1) * n2 + t % n2 = t := by
  have h1 := Nat.div_add_mod (t / n2) n1
  have h2 := Nat.div_add_mod t n2
  rw [Nat.mul_comm (t / n2 / n1) n1, h1, Nat.mul_comm, h2]

theorem dec_bounds {t n0 n1 n2 : Nat} (ht : t < n0 * n1 * n2) :
    t / n2 / n1 < n0 ∧ t / n2 % n1 < n1 ∧ t % n2 < n2 := by
  have hn2 : 0 < n2 := by
    rcases Nat.eq_zero_or_pos n2 with h | h
    · subst h; simp at ht
    · exact h
  have hn1 : 0 < n1 := by
    rcases Nat.eq_zero_or_pos n1 with h | h
    · subst h; simp at ht
    · exact h
  refine ⟨?_, Nat.mod_lt _ hn1, Nat.mod_lt _ hn2⟩
  apply Nat.div_lt_of_lt_mul
  apply Nat.div_lt_of_lt_mul
  calc t < n0 * n1 * n2 := ht
    _ = n2 * (n1 * n0) := by rw [Nat.mul_comm n0 n1, Nat.mul_comm]

/-- the x-fastest offset of `(i,j,k)` is the C-order index of `[k,j,i]` in a `(nz,ny,nx)` array -/
theorem offset_eq_cidx (nx ny i j k : Nat) : offsetXFastest nx ny i j k = (k * ny + j) * nx + i := by
  unfold offsetXFastest
  rw [Nat.mul_comm nx, Nat.mul_comm ny k, Nat.add_comm j, Nat.add_comm i]

/-! ### arrays -/

theorem at_eq_getElem (d : α) (a : Arr α) (i j k : Nat) (h : (i * a.d1 + j) * a.d2 + k < a.data.size) :
    a.at d i j k = a.data[(i * a.d1 + j) * a.d2 + k] := by
  simp [Arr.at, Array.getD, h]

theorem at_map (d : α) (f : α → α) (a : Arr α) (i j k : Nat)
    (h : (i * a.d1 + j) * a.d2 + k < a.data.size) : (a.map f).at d i j k = f (a.at d i j k) := by
  have h' : (i * (a.map f).d1 + j) * (a.map f).d2 + k < (a.map f).data.size := by
    simpa [Arr.map] using h
  rw [at_eq_getElem d (a.map f) i j k h', at_eq_getElem d a i j k h]
  simp [Arr.map]

theorem map_WF (f : α → α) (a : Arr α) (h : a.WF) : (a.map f).WF := by
  simpa [Arr.WF, Arr.map] using h

theorem map_map (f g : α → α) (a : Arr α) : (a.map f).map g = a.map (fun v => g (f v)) := by
  simp [Arr.map, Function.comp_def]

theorem map_id' (a : Arr α) : a.map id = a := by
  cases a; simp [Arr.map]

/-! ### the `(2,1,0)` transposition -/

theorem transpose210_d0 (d : α) (a : Arr α) : (transpose210 d a).d0 = a.d2 := rfl
theorem transpose210_d1 (d : α) (a : Arr α) : (transpose210 d a).d1 = a.d1 := rfl
theorem transpose210_d2 (d : α) (a : Arr α) : (transpose210 d a).d2 = a.d0 := rfl

theorem transpose210_size (d : α) (a : Arr α) : (transpose210 d a).data.size = a.d2 * a.d1 * a.d0 := by
  simp [transpose210, permute, pick]

theorem transpose210_WF (d : α) (a : Arr α) : (transpose210 d a).WF := by
  simp [Arr.WF, transpose210, permute, pick]

/-- element `t` of the transposed payload -/
theorem transpose210_getElem (d : α) (a : Arr α) (t : Nat) (ht : t < (transpose210 d a).data.size) :
    (transpose210 d a).data[t] = a.at d (t % a.d0) (t / a.d0 % a.d1) (t / a.d0 / a.d1) := by
  simp [transpose210, permute, pick]

/-- `a.transpose(2,1,0)[i,j,k] = a[k,j,i]` -/
theorem at_transpose210 (d : α) (a : Arr α) (i j k : Nat) (hi : i < a.d2) (hj : j < a.d1) (hk : k < a.d0) :
    (transpose210 d a).at d i j k = a.at d k j i := by
  have hlt : (i * (transpose210 d a).d1 + j) * (transpose210 d a).d2 + k < (transpose210 d a).data.size := by
    rw [transpose210_size]; exact idx_lt hi hj hk
  rw [at_eq_getElem d (transpose210 d a) i j k hlt, transpose210_getElem]
  show a.at d (((i * a.d1 + j) * a.d0 + k) % a.d0) (((i * a.d1 + j) * a.d0 + k) / a.d0 % a.d1)
      (((i * a.d1 + j) * a.d0 + k) / a.d0 / a.d1) = a.at d k j i
  rw [dec_k hk, dec_ij hk, dec_j hj, dec_i hj]

/-- transposing twice gives the array back (any shape, not only cubes) -/
theorem transpose210_involutive (d : α) (a : Arr α) (h : a.WF) :
    transpose210 d (transpose210 d a) = a := by
  obtain ⟨d0, d1, d2, data⟩ := a
  simp only [Arr.WF] at h
  have hsz : (transpose210 d (transpose210 d ⟨d0, d1, d2, data⟩)).data.size = data.size := by
    rw [transpose210_size]; simp only [transpose210_d0, transpose210_d1]; exact h.symm
  have hdata : (transpose210 d (transpose210 d ⟨d0, d1, d2, data⟩)).data = data := by
    apply Array.ext hsz
    intro t h1 h2
    rw [transpose210_getElem]
    simp only [transpose210_d0, transpose210_d1]
    have hb := dec_bounds (h ▸ h2 : t < d0 * d1 * d2)
    rw [at_transpose210 d _ _ _ _ hb.2.2 hb.2.1 hb.1]
    have hidx : (t / d2 / d1 * d1 + t / d2 % d1) * d2 + t % d2 < data.size := by
      rw [enc_dec]; exact h2
    rw [at_eq_getElem d _ _ _ _ hidx]
    simp only [enc_dec]
  have e : transpose210 d (transpose210 d ⟨d0, d1, d2, data⟩)
      = ⟨d0, d1, d2, (transpose210 d (transpose210 d ⟨d0, d1, d2, data⟩)).data⟩ := rfl
  rw [e, hdata]

/-- element-wise conversion commutes with the transposition -/
theorem transpose210_map (d : α) (f : α → α) (a : Arr α) (h : a.WF) :
    transpose210 d (a.map f) = (transpose210 d a).map f := by
  have hsz : (transpose210 d (a.map f)).data.size = ((transpose210 d a).map f).data.size := by
    simp [transpose210_size, Arr.map]
  have hdata : (transpose210 d (a.map f)).data = ((transpose210 d a).map f).data := by
    apply Array.ext hsz
    intro t h1 h2
    have ht : t < a.d2 * a.d1 * a.d0 := by rw [transpose210_size] at h1; exact h1
    have hb := dec_bounds ht
    rw [transpose210_getElem]
    have h2' : t < (transpose210 d a).data.size := by rw [transpose210_size]; exact ht
    have : ((transpose210 d a).map f).data[t] = f ((transpose210 d a).data[t]) := by simp [Arr.map]
    rw [this, transpose210_getElem]
    apply at_map
    rw [h]; exact idx_lt hb.2.2 hb.2.1 hb.1
  have e1 : transpose210 d (a.map f) = ⟨a.d2, a.d1, a.d0, (transpose210 d (a.map f)).data⟩ := rfl
  have e2 : (transpose210 d a).map f = ⟨a.d2, a.d1, a.d0, ((transpose210 d a).map f).data⟩ := rfl
  rw [e1, e2, hdata]

theorem permuteAxes_210 (d : α) (a : Arr α) : permuteAxes d [2, 1, 0] a = .ok (transpose210 d a) := by
  have : ([2, 1, 0] : List Nat).isPerm [0, 1, 2] = true := by decide
  simp [permuteAxes, this, transpose210]

end CryoCat.C11
