import CryoCat.Lemmas.C20
/-! C20 — admissibility as a proposition, membership in the candidate list, and how the candidate
list behaves under maps of the points (used for rigid motion, relabelling). -/
set_option linter.unusedSectionVars false
namespace CryoCat.C20

section defs
variable {α : Type} [Add α] [Sub α] [Mul α] [OfNat α 0] [LT α] [LE α]
/-- **Admissible pair** (source `a`, target `b`): within the search radius, ahead of the source along
its normal (`proj > 0`), and inside the cone `lateral² < m·proj²`. -/
def Adm (sqrt : α → α) (P : Params α) (a b : Pt α) : Prop :=
  (if P.strict then dist sqrt a.p b.p < P.r else dist sqrt a.p b.p ≤ P.r) ∧
  0 < proj a.p b.p a.n ∧
  lat2 a.p b.p a.n < P.m * proj a.p b.p a.n * proj a.p b.p a.n
end defs

section order
variable {α : Type} [Field α] [LinearOrder α] [IsStrictOrderedRing α]

theorem adm_iff (sqrt : α → α) (P : Params α) (a b : Pt α) : adm sqrt P a b = true ↔ Adm sqrt P a b := by
  unfold adm Adm inBall inCone
  cases P.strict <;> simp

theorem mem_cands_iff (sqrt : α → α) (P : Params α) (srcs tgts : List (Pt α)) (c : Cand α) :
    c ∈ cands sqrt P srcs tgts ↔
      ∃ a ∈ srcs, ∃ b ∈ tgts, Adm sqrt P a b ∧ c = ⟨dist sqrt a.p b.p, a.idx, b.idx⟩ := by
  unfold cands
  simp only [List.mem_flatMap, List.mem_filterMap]
  constructor
  · rintro ⟨a, ha, b, hb, h⟩
    by_cases hadm : adm sqrt P a b = true
    · rw [if_pos hadm] at h
      exact ⟨a, ha, b, hb, (adm_iff sqrt P a b).1 hadm, (Option.some.inj h).symm⟩
    · rw [if_neg hadm] at h; cases h
  · rintro ⟨a, ha, b, hb, hadm, rfl⟩
    exact ⟨a, ha, b, hb, by rw [if_pos ((adm_iff sqrt P a b).2 hadm)]⟩

/-- the candidate list only depends on identifiers, distances and admissibility -/
theorem cands_map (sqrt : α → α) (P P' : Params α) (f : Pt α → Pt α) (srcs tgts : List (Pt α))
    (hidx : ∀ a, (f a).idx = a.idx)
    (hd : ∀ a b, dist sqrt (f a).p (f b).p = dist sqrt a.p b.p)
    (hadm : ∀ a b, adm sqrt P' (f a) (f b) = adm sqrt P a b) :
    cands sqrt P' (srcs.map f) (tgts.map f) = cands sqrt P srcs tgts := by
  unfold cands
  rw [List.flatMap_map]
  congr 1
  funext a
  rw [List.filterMap_map]
  congr 1
  funext b
  simp only [Function.comp, hidx, hd, hadm]

theorem filter_map_of_inv (f : Pt α → Pt α) (g : Pt α → Bool) (hg : ∀ a, g (f a) = g a) (l : List (Pt α)) :
    (l.map f).filter g = (l.filter g).map f := by
  rw [List.filter_map]
  have : g ∘ f = g := funext hg
  rw [this]

theorem filter_map_of_inv' (f : Pt α → Pt α) (g g' : Pt α → Bool) (hg : ∀ a, g (f a) = g' a) (l : List (Pt α)) :
    (l.map f).filter g = (l.filter g').map f := by
  rw [List.filter_map]
  have : g ∘ f = g' := funext hg
  rw [this]

/-- in a one-to-one list a pair is determined by its source -/
theorem pair_unique_of_src {out : List (Nat × Nat)} (h : out.Pairwise (fun x y => x.1 ≠ y.1 ∧ x.2 ≠ y.2))
    {p q : Nat × Nat} (hp : p ∈ out) (hq : q ∈ out) (e : p.1 = q.1) : p = q := by
  induction out with
  | nil => cases hp
  | cons x xs ih =>
    rw [List.pairwise_cons] at h
    rcases List.mem_cons.1 hp with rfl | hp' <;> rcases List.mem_cons.1 hq with rfl | hq'
    · rfl
    · exact absurd e (h.1 q hq').1
    · exact absurd e.symm (h.1 p hp').1
    · exact ih h.2 hp' hq'

theorem pair_unique_of_tgt {out : List (Nat × Nat)} (h : out.Pairwise (fun x y => x.1 ≠ y.1 ∧ x.2 ≠ y.2))
    {p q : Nat × Nat} (hp : p ∈ out) (hq : q ∈ out) (e : p.2 = q.2) : p = q := by
  induction out with
  | nil => cases hp
  | cons x xs ih =>
    rw [List.pairwise_cons] at h
    rcases List.mem_cons.1 hp with rfl | hp' <;> rcases List.mem_cons.1 hq with rfl | hq'
    · rfl
    · exact absurd e (h.1 q hq').2
    · exact absurd e.symm (h.1 p hp').2
    · exact ih h.2 hp' hq'

/-- points with pairwise distinct identifiers are determined by their identifier -/
theorem pt_unique {l : List (Pt α)} (h : l.Pairwise (fun x y => x.idx ≠ y.idx)) {a b : Pt α}
    (ha : a ∈ l) (hb : b ∈ l) (e : a.idx = b.idx) : a = b := by
  induction l with
  | nil => cases ha
  | cons x xs ih =>
    rw [List.pairwise_cons] at h
    rcases List.mem_cons.1 ha with rfl | ha' <;> rcases List.mem_cons.1 hb with rfl | hb'
    · rfl
    · exact absurd e (h.1 b hb')
    · exact absurd e.symm (h.1 a ha')
    · exact ih h.2 ha' hb'

theorem oneToOne_map_pairs {m : List (Cand α)} (h : OneToOne m) :
    (m.map (fun c => (c.s, c.t))).Pairwise (fun x y => x.1 ≠ y.1 ∧ x.2 ≠ y.2) := by
  unfold OneToOne at h
  rw [List.pairwise_map]
  exact h

end order
end CryoCat.C20
