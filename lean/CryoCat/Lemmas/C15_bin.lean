import Mathlib.Algebra.BigOperators.Group.Finset.Basic
import Mathlib.Algebra.Field.Defs
import CryoCat.Lemmas.C15
/-! C15 — binning: the model's `sumRange` is the `Finset` sum; the binned voxel is the block mean. -/
namespace CryoCat.C15
open Finset

theorem sumRange_eq_sum {α : Type} [AddCommMonoid α] (n : Nat) (f : Nat → α) :
    sumRange n f = ∑ i ∈ range n, f i := by
  induction n with
  | zero => simp [sumRange]
  | succ n ih =>
    rw [Finset.sum_range_succ, ← ih]
    simp [sumRange, List.range_succ, List.foldl_append]

theorem ceilDiv_full {n b J : Nat} (h : (J + 1) * b ≤ n) (hb : 0 < b) : J < ceilDiv n b := by
  unfold ceilDiv
  rw [Nat.lt_div_iff_mul_lt hb]
  have : (J + 1) * b = J * b + b := by rw [Nat.add_mul, Nat.one_mul]
  omega

theorem get3_binV {α : Type} [Field α] (b n H W : Nat) (v : L3 α) {z J I : Nat}
    (hz : z < n) (hJ : J < ceilDiv H b) (hI : I < ceilDiv W b) :
    get3 0 (binV b n H W v) z J I
      = (∑ j ∈ range b, ∑ i ∈ range b, get3 0 v z (J * b + j) (I * b + i)) / ((b * b : Nat) : α) := by
  unfold binV
  rw [get3_tab3 0 _ hz hJ hI, sumRange_eq_sum]
  simp only [sumRange_eq_sum]

end CryoCat.C15
