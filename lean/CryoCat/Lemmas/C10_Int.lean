import CryoCat.Model.C10
import Mathlib.Data.Rat.Floor
import Mathlib.Tactic.Linarith
/-! C10 — Python's `int(x)` on the numeric symmetry argument (`nfold = int(symmetry)`): the model's `truncInt`
is truncation toward zero — the identity on integers, `⌊q⌋` for `q ≥ 0`, odd (`int(-q) = -int(q)`), and never farther
than 1 from `q` on the side of zero. -/
namespace CryoCat.C10

theorem parseSym_num (q : ℚ) :
    parseSym (.num q) = if truncInt q < 0 then .negative else .cyclic (truncInt q).toNat := rfl

theorem truncInt_eq (q : ℚ) : truncInt q = if q < 0 then -⌊-q⌋ else ⌊q⌋ := rfl

/-- `int(n) = n`, `int(float(n)) = n`, `int(np.int64(n)) = n` -/
theorem truncInt_intCast (z : ℤ) : truncInt (z : ℚ) = z := by
  rw [truncInt_eq]
  split
  · rw [← Int.cast_neg, Int.floor_intCast]; omega
  · exact Int.floor_intCast z

theorem truncInt_natCast (n : ℕ) : truncInt (n : ℚ) = n := by
  have := truncInt_intCast (n : ℤ)
  simpa using this

/-- a non-negative number is truncated to the integer at or below it: `int(7.9) = 7` -/
theorem truncInt_of_mem (q : ℚ) (n : ℕ) (h1 : (n : ℚ) ≤ q) (h2 : q < (n : ℚ) + 1) : truncInt q = n := by
  have h0 : ¬ q < 0 := by
    have : (0 : ℚ) ≤ (n : ℚ) := Nat.cast_nonneg n
    intro h; linarith
  rw [truncInt_eq, if_neg h0, Int.floor_eq_iff]
  exact ⟨by exact_mod_cast h1, by exact_mod_cast h2⟩

/-- truncation is TOWARD ZERO: `int(-q) = -int(q)` (so `int(-7.9) = -7`, not `-8`) -/
theorem truncInt_neg (q : ℚ) : truncInt (-q) = -truncInt q := by
  rw [truncInt_eq, truncInt_eq]
  rcases lt_trichotomy q 0 with h | h | h
  · have : ¬ (-q < 0) := by intro h'; linarith
    rw [if_neg this, if_pos h]; simp
  · subst h; simp
  · have : -q < 0 := by linarith
    have h' : ¬ q < 0 := by intro h'; linarith
    rw [if_pos this, if_neg h']; simp

/-- the truncated value lies between 0 and `q`, less than 1 away from `q` -/
theorem truncInt_bounds (q : ℚ) (h : 0 ≤ q) : ((truncInt q : ℤ) : ℚ) ≤ q ∧ q < ((truncInt q : ℤ) : ℚ) + 1 ∧ 0 ≤ truncInt q := by
  have h0 : ¬ q < 0 := by intro h'; linarith
  rw [truncInt_eq, if_neg h0]
  exact ⟨Int.floor_le q, Int.lt_floor_add_one q, Int.floor_nonneg.2 h⟩

/-- `int(q) < 0` exactly when `q ≤ -1` -/
theorem truncInt_neg_iff (q : ℚ) : truncInt q < 0 ↔ q ≤ -1 := by
  constructor
  · intro h
    by_contra hq
    have hq : -1 < q := lt_of_not_ge hq
    rcases lt_or_ge q 0 with h0 | h0
    · rw [truncInt_eq, if_pos h0] at h
      have h1 : 0 < ⌊-q⌋ := by omega
      have h2 : (1 : ℤ) ≤ ⌊-q⌋ := h1
      have := Int.le_floor.1 h2
      push_cast at this; linarith
    · have := (truncInt_bounds q h0).2.2; omega
  · intro h
    have h0 : q < 0 := by linarith
    rw [truncInt_eq, if_pos h0]
    have : (1 : ℤ) ≤ ⌊-q⌋ := Int.le_floor.2 (by push_cast; linarith)
    omega

end CryoCat.C10
