import CryoCat.Lemmas.C19
/-! C19 — the invariant `ChainsWellNumbered` (`WN`) of the traced table and the link invariant `DL`,
with the generic lemmas used by the branch proofs (core Lean only).

`WN l K cc`: every row's object id lies in `[1, cc)`; inside every object the order numbers are
exactly `1..K obj`, without duplicates (`inj`) and without gaps (`surj`).
`DL o c l`: whenever `r'` follows `r` in a chain, `r.dist` is the exit→entry (squared) distance of
the pair and that distance passed the filter of `get_nn_dist`. -/
namespace CryoCat.C19
set_option linter.unusedSectionVars false
variable {α : Type} [LE α] [LT α] [DecidableLE α] [DecidableLT α] [DecidableEq α]

structure WN (l : List (Row α)) (K : Int → Int) (cc : Int) : Prop where
  rng : ∀ r ∈ l, 1 ≤ r.obj ∧ r.obj < cc
  ordA : ∀ r ∈ l, 1 ≤ r.ord ∧ r.ord ≤ K r.obj
  inj : ∀ r ∈ l, ∀ r' ∈ l, r.obj = r'.obj → r.ord = r'.ord → r.idx = r'.idx
  surj : ∀ r ∈ l, ∀ k, 1 ≤ k → k ≤ K r.obj → ∃ r' ∈ l, r'.obj = r.obj ∧ r'.ord = k

/-- `ChainsWellNumbered`: the invariant of the traced table (for some sizes `K` and id bound) -/
def ChainsWellNumbered (l : List (Row α)) : Prop := ∃ K cc, WN l K cc

def DL (o : Opts) (c : Cfg α) (l : List (Row α)) : Prop :=
  ∀ r ∈ l, ∀ r' ∈ l, r.obj = r'.obj → r'.ord = r.ord + 1 →
    r.dist = c.d r.idx r'.idx ∧ inWin o c (c.d r.idx r'.idx) = true

theorem WN.nil (K : Int → Int) (cc : Int) : WN ([] : List (Row α)) K cc :=
  ⟨by simp, by simp, by simp, by simp⟩

theorem WN.mono {l : List (Row α)} {K : Int → Int} {cc : Int} (h : WN l K cc) (cc' : Int) (hc : cc ≤ cc') :
    WN l K cc' :=
  ⟨fun r hr => ⟨(h.rng r hr).1, by have := (h.rng r hr).2; omega⟩, h.ordA, h.inj, h.surj⟩

/-- a relabelling of a well-numbered table is well numbered if it maps the numbered positions
`(obj, ord)` one-to-one onto the positions `1..K'` of the new objects -/
theorem WN.map {T : List (Row α)} {K : Int → Int} {cc : Int} (hT : WN T K cc) (F : Row α → Row α)
    (K' : Int → Int) (cc' : Int) (hidx : ∀ r, (F r).idx = r.idx)
    (h1 : ∀ r ∈ T, 1 ≤ (F r).obj ∧ (F r).obj < cc' ∧ 1 ≤ (F r).ord ∧ (F r).ord ≤ K' (F r).obj)
    (h2 : ∀ r ∈ T, ∀ r' ∈ T, (F r).obj = (F r').obj → (F r).ord = (F r').ord → r.obj = r'.obj ∧ r.ord = r'.ord)
    (h3 : ∀ r ∈ T, ∀ k, 1 ≤ k → k ≤ K' (F r).obj → ∃ r0 ∈ T, (F r0).obj = (F r).obj ∧ (F r0).ord = k) :
    WN (T.map F) K' cc' := by
  refine ⟨?_, ?_, ?_, ?_⟩
  · intro r' hr'
    obtain ⟨r, hr, rfl⟩ := List.mem_map.1 hr'
    exact ⟨(h1 r hr).1, (h1 r hr).2.1⟩
  · intro r' hr'
    obtain ⟨r, hr, rfl⟩ := List.mem_map.1 hr'
    exact ⟨(h1 r hr).2.2.1, (h1 r hr).2.2.2⟩
  · intro a ha b hb hab hk
    obtain ⟨r, hr, rfl⟩ := List.mem_map.1 ha
    obtain ⟨r', hr', rfl⟩ := List.mem_map.1 hb
    rw [hidx, hidx]
    obtain ⟨e1, e2⟩ := h2 r hr r' hr' hab hk
    exact hT.inj r hr r' hr' e1 e2
  · intro a ha k hk1 hk2
    obtain ⟨r, hr, rfl⟩ := List.mem_map.1 ha
    obtain ⟨r0, hr0, e1, e2⟩ := h3 r hr k hk1 hk2
    exact ⟨F r0, List.mem_map.2 ⟨r0, hr0, rfl⟩, e1, e2⟩

/-- the link invariant under a relabelling -/
theorem DL.map {o : Opts} {c : Cfg α} {T : List (Row α)} (F : Row α → Row α) (hidx : ∀ r, (F r).idx = r.idx)
    (h : ∀ r ∈ T, ∀ r' ∈ T, (F r).obj = (F r').obj → (F r').ord = (F r).ord + 1 →
      (F r).dist = c.d r.idx r'.idx ∧ inWin o c (c.d r.idx r'.idx) = true) :
    DL o c (T.map F) := by
  intro a ha b hb hab hk
  obtain ⟨r, hr, rfl⟩ := List.mem_map.1 ha
  obtain ⟨r', hr', rfl⟩ := List.mem_map.1 hb
  rw [hidx, hidx]
  exact h r hr r' hr' hab hk

/-! ### `maxOrd`, `rowOf`, `setLastDist` -/

theorem maxOrd_spec (p : Row α → Bool) : ∀ (l : List (Row α)) (init : Int),
    init ≤ maxOrd init p l ∧ (∀ r ∈ l, p r = true → r.ord ≤ maxOrd init p l) ∧
      (maxOrd init p l = init ∨ ∃ r ∈ l, p r = true ∧ r.ord = maxOrd init p l)
  | [], init => ⟨Int.le_refl _, by simp, Or.inl rfl⟩
  | a :: l, init => by
    have e : maxOrd init p (a :: l) = maxOrd (if p a && decide (init < a.ord) then a.ord else init) p l := rfl
    rw [e]
    obtain ⟨h1, h2, h3⟩ := maxOrd_spec p l (if p a && decide (init < a.ord) then a.ord else init)
    by_cases hc : (p a && decide (init < a.ord)) = true
    · rw [if_pos hc] at h1 h2 h3 ⊢
      simp only [Bool.and_eq_true, decide_eq_true_eq] at hc
      refine ⟨by omega, ?_, ?_⟩
      · intro r hr hp
        rcases List.mem_cons.1 hr with rfl | hr
        · exact h1
        · exact h2 r hr hp
      · rcases h3 with h3 | ⟨r, hr, hp, he⟩
        · exact Or.inr ⟨a, by simp, hc.1, h3.symm⟩
        · exact Or.inr ⟨r, List.mem_cons_of_mem _ hr, hp, he⟩
    · rw [if_neg hc] at h1 h2 h3 ⊢
      refine ⟨h1, ?_, ?_⟩
      · intro r hr hp
        rcases List.mem_cons.1 hr with rfl | hr
        · simp only [Bool.and_eq_true, decide_eq_true_eq, not_and, hp, true_implies] at hc
          omega
        · exact h2 r hr hp
      · rcases h3 with h3 | ⟨r, hr, hp, he⟩
        · exact Or.inl h3
        · exact Or.inr ⟨r, List.mem_cons_of_mem _ hr, hp, he⟩

/-- the maximum over an object of a well-numbered table is the object's size -/
theorem WN.maxOrd_eq {T : List (Row α)} {K : Int → Int} {cc : Int} (hT : WN T K cc) (t : Row α) (ht : t ∈ T)
    (init : Int) (hi : init ≤ K t.obj) : maxOrd init (fun r => r.obj == t.obj) T = K t.obj := by
  obtain ⟨h1, h2, h3⟩ := maxOrd_spec (fun r : Row α => r.obj == t.obj) T init
  have hK := hT.ordA t ht
  obtain ⟨r', hr', ho, hk⟩ := hT.surj t ht (K t.obj) (by omega) (Int.le_refl _)
  have := h2 r' hr' (by simp [ho])
  rcases h3 with h3 | ⟨r, hr, hp, he⟩
  · omega
  · have := hT.ordA r hr
    simp only [beq_iff_eq] at hp
    rw [hp] at this
    omega

theorem rowOf_some {l : List (Row α)} {j : Nat} {t : Row α} (h : rowOf l j = some t) : t ∈ l ∧ t.idx = j := by
  unfold rowOf at h
  have h2 := List.find?_some h
  exact ⟨List.mem_of_find?_eq_some h, by simpa using h2⟩

theorem inj_on_of_nodup_map' {β γ : Type} (f : β → γ) : ∀ (l : List β), (l.map f).Nodup →
    ∀ a ∈ l, ∀ b ∈ l, f a = f b → a = b
  | [], _, a, ha, _, _, _ => by simp at ha
  | x :: l, h, a, ha, b, hb, e => by
    simp only [List.map_cons, List.nodup_cons, List.mem_map, not_exists, not_and] at h
    rcases List.mem_cons.1 ha with ea | ha' <;> rcases List.mem_cons.1 hb with eb | hb'
    · rw [ea, eb]
    · rw [ea] at e; exact absurd e.symm (h.1 b hb')
    · rw [eb] at e; exact absurd e (h.1 a ha')
    · exact inj_on_of_nodup_map' f l h.2 a ha' b hb' e

theorem nodup_map_on' {β γ : Type} (f : β → γ) : ∀ (l : List β), (∀ a ∈ l, ∀ b ∈ l, f a = f b → a = b) →
    l.Nodup → (l.map f).Nodup
  | [], _, _ => by simp
  | x :: l, hf, h => by
    simp only [List.nodup_cons] at h
    simp only [List.map_cons, List.nodup_cons, List.mem_map, not_exists, not_and]
    refine ⟨?_, nodup_map_on' f l (fun a ha b hb => hf a (List.mem_cons_of_mem _ ha) b (List.mem_cons_of_mem _ hb)) h.2⟩
    intro b hb e
    have := hf b (List.mem_cons_of_mem _ hb) x (by simp) e
    subst this
    exact h.1 hb

theorem nodup_of_nodup_map' {β γ : Type} (f : β → γ) : ∀ (l : List β), (l.map f).Nodup → l.Nodup
  | [], _ => by simp
  | x :: l, h => by
    simp only [List.map_cons, List.nodup_cons, List.mem_map, not_exists, not_and] at h
    exact List.nodup_cons.2 ⟨fun hx => h.1 x hx rfl, nodup_of_nodup_map' f l h.2⟩

theorem idx_inj_of_nodup {l : List (Row α)} (h : (ids l).Nodup) {a b : Row α} (ha : a ∈ l) (hb : b ∈ l)
    (e : a.idx = b.idx) : a = b :=
  inj_on_of_nodup_map' (fun r : Row α => r.idx) l h a ha b hb e

theorem setLastDist_eq_map (v : α) (top : Int) : ∀ (C : List (Row α)),
    C.Pairwise (fun a b => a.ord < b.ord) → (∃ r ∈ C, r.ord = top) → (∀ r ∈ C, r.ord ≤ top) →
    setLastDist v C = C.map (fun r => if r.ord = top then { r with dist := v } else r)
  | [], _, _, _ => rfl
  | [r], _, ht, _ => by
    obtain ⟨r', hr', e⟩ := ht
    simp only [List.mem_singleton] at hr'
    subst hr'
    simp [setLastDist, e]
  | r :: r' :: rs, hp, ht, hle => by
    have hp' := List.pairwise_cons.1 hp
    have h1 : r.ord < r'.ord := hp'.1 r' (by simp)
    have h2 : r'.ord ≤ top := hle r' (by simp)
    have hne : r.ord ≠ top := by omega
    have ih := setLastDist_eq_map v top (r' :: rs) hp'.2
      (by
        obtain ⟨x, hx, e⟩ := ht
        rcases List.mem_cons.1 hx with rfl | hx
        · exact absurd e hne
        · exact ⟨x, hx, e⟩)
      (fun x hx => hle x (List.mem_cons_of_mem _ hx))
    simp only [setLastDist, List.map_cons, if_neg hne] at ih ⊢
    rw [ih]

/-! ### a freshly traced chain -/

theorem mkChainFrom_mem (cls : Int) : ∀ (ms : List (Nat × α)) (k : Int), ∀ r ∈ mkChainFrom cls k ms,
    r.obj = cls ∧ k ≤ r.ord ∧ r.ord < k + ms.length
  | [], _, r, hr => by simp [mkChainFrom] at hr
  | (i, x) :: ms, k, r, hr => by
    simp only [mkChainFrom, List.mem_cons] at hr
    rcases hr with rfl | hr
    · refine ⟨rfl, Int.le_refl _, ?_⟩; simp only [List.length_cons]; omega
    · have := mkChainFrom_mem cls ms (k + 1) r hr
      simp only [List.length_cons]
      refine ⟨this.1, ?_, ?_⟩ <;> omega

theorem mkChainFrom_surj (cls : Int) : ∀ (ms : List (Nat × α)) (k j : Int), k ≤ j → j < k + ms.length →
    ∃ r ∈ mkChainFrom cls k ms, r.ord = j
  | [], k, j, h1, h2 => by simp at h2; omega
  | (i, x) :: ms, k, j, h1, h2 => by
    by_cases e : j = k
    · exact ⟨⟨i, cls, k, x⟩, by simp [mkChainFrom], by rw [e]⟩
    · simp only [List.length_cons] at h2
      obtain ⟨r, hr, he⟩ := mkChainFrom_surj cls ms (k + 1) j (by omega) (by omega)
      exact ⟨r, by simp [mkChainFrom, hr], he⟩

theorem mkChainFrom_pairwise (cls : Int) : ∀ (ms : List (Nat × α)) (k : Int),
    (mkChainFrom cls k ms).Pairwise (fun a b => a.ord < b.ord)
  | [], _ => List.Pairwise.nil
  | (i, x) :: ms, k => by
    simp only [mkChainFrom]
    refine List.pairwise_cons.2 ⟨?_, mkChainFrom_pairwise cls ms (k + 1)⟩
    intro r hr
    have := mkChainFrom_mem cls ms (k + 1) r hr
    show k < r.ord
    omega

theorem pairwise_ord_inj {C : List (Row α)} (hp : C.Pairwise (fun a b => a.ord < b.ord)) :
    ∀ r ∈ C, ∀ r' ∈ C, r.ord = r'.ord → r = r' := by
  induction C with
  | nil => simp
  | cons a C ih =>
    have hp' := List.pairwise_cons.1 hp
    intro r hr r' hr' e
    rcases List.mem_cons.1 hr with e1 | h1 <;> rcases List.mem_cons.1 hr' with e2 | h2
    · rw [e1, e2]
    · have := hp'.1 r' h2; rw [e1] at e; omega
    · have := hp'.1 r h1; rw [e2] at e; omega
    · exact ih hp'.2 r h1 r' h2 e

/-- `nfm ++` a fresh chain (object id `cls`, not used in `nfm`) is well numbered -/
theorem WN.append_fresh {nfm : List (Row α)} {K : Int → Int} {cls : Int} (h : WN nfm K cls) (hcls : 1 ≤ cls)
    (ms : List (Nat × α)) :
    WN (nfm ++ mkChainFrom cls 1 ms) (fun g => if g = cls then (ms.length : Int) else K g) (cls + 1) := by
  refine ⟨?_, ?_, ?_, ?_⟩
  · intro r hr
    rcases List.mem_append.1 hr with hr | hr
    · have := h.rng r hr; omega
    · have := mkChainFrom_mem cls ms 1 r hr; omega
  · intro r hr
    rcases List.mem_append.1 hr with hr | hr
    · have h1 := h.rng r hr
      have h2 := h.ordA r hr
      have : r.obj ≠ cls := by omega
      simp only [if_neg this]; exact h2
    · have := mkChainFrom_mem cls ms 1 r hr
      simp only [this.1, if_true]; omega
  · intro r hr r' hr' ho hk
    rcases List.mem_append.1 hr with hr | hr <;> rcases List.mem_append.1 hr' with hr' | hr'
    · exact h.inj r hr r' hr' ho hk
    · have h1 := h.rng r hr; have := mkChainFrom_mem cls ms 1 r' hr'; omega
    · have h1 := h.rng r' hr'; have := mkChainFrom_mem cls ms 1 r hr; omega
    · rw [pairwise_ord_inj (mkChainFrom_pairwise cls ms 1) r hr r' hr' hk]
  · intro r hr k hk1 hk2
    rcases List.mem_append.1 hr with hr | hr
    · have h1 := h.rng r hr
      have : r.obj ≠ cls := by omega
      simp only [if_neg this] at hk2
      obtain ⟨r', hr', e⟩ := h.surj r hr k hk1 hk2
      exact ⟨r', List.mem_append_left _ hr', e⟩
    · have := mkChainFrom_mem cls ms 1 r hr
      simp only [this.1, if_true] at hk2
      obtain ⟨r', hr', e⟩ := mkChainFrom_surj cls ms 1 k hk1 (by omega)
      exact ⟨r', List.mem_append_right _ hr', by rw [(mkChainFrom_mem cls ms 1 r' hr').1, this.1], e⟩

/-! ### from the invariant to the statement's formulation (a permutation of `1..k`) -/

theorem mem_oneToK (k : Nat) (x : Int) : x ∈ oneToK k ↔ 1 ≤ x ∧ x ≤ k := by
  simp only [oneToK, List.mem_map, List.mem_range, Int.ofNat_eq_natCast]
  constructor
  · rintro ⟨i, hi, rfl⟩; omega
  · intro h
    exact ⟨(x - 1).toNat, by omega, by omega⟩

theorem oneToK_nodup (k : Nat) : (oneToK k).Nodup := by
  unfold oneToK
  refine nodup_map_on' _ _ ?_ List.nodup_range
  intro a _ b _ h
  simp only [Int.ofNat_eq_natCast] at h
  omega

theorem oneToK_length (k : Nat) : (oneToK k).length = k := by simp [oneToK]

theorem perm_oneToK (L : List Int) (k : Nat) (hnd : L.Nodup) (hmem : ∀ x, x ∈ L ↔ 1 ≤ x ∧ x ≤ k) :
    L.Perm (oneToK k) :=
  (List.perm_ext_iff_of_nodup hnd (oneToK_nodup k)).2 (fun x => (hmem x).trans (mem_oneToK k x).symm)

/-- the order numbers of the rows of object `t.obj` below a bound `b ≤ K` -/
theorem WN.ords_below {T : List (Row α)} {K : Int → Int} {cc : Int} (hT : WN T K cc) (hnd : (ids T).Nodup)
    (t : Row α) (ht : t ∈ T) (b : Nat) (hb : (b : Int) ≤ K t.obj) :
    ((T.filter (fun r => r.obj == t.obj && decide (r.ord ≤ (b : Int)))).map (·.ord)).Perm (oneToK b) := by
  apply perm_oneToK
  · refine nodup_map_on' _ _ ?_ ((nodup_of_nodup_map' (fun r : Row α => r.idx) T hnd).filter _)
    intro a ha a' ha' e
    simp only [List.mem_filter, Bool.and_eq_true, beq_iff_eq, decide_eq_true_eq] at ha ha'
    exact idx_inj_of_nodup hnd ha.1 ha'.1 (hT.inj a ha.1 a' ha'.1 (ha.2.1.trans ha'.2.1.symm) e)
  · intro x
    simp only [List.mem_map, List.mem_filter, Bool.and_eq_true, beq_iff_eq, decide_eq_true_eq]
    constructor
    · rintro ⟨r, ⟨hr, _, hb'⟩, rfl⟩
      exact ⟨(hT.ordA r hr).1, hb'⟩
    · rintro ⟨h1, h2⟩
      obtain ⟨r, hr, ho, hk⟩ := hT.surj t ht x h1 (by omega)
      exact ⟨r, ⟨hr, ho, by omega⟩, hk⟩

/-- **orders are 1..k in every object** of a well-numbered table with distinct particles -/
theorem WN.orders {T : List (Row α)} {K : Int → Int} {cc : Int} (hT : WN T K cc) (hnd : (ids T).Nodup) (g : Int) :
    ((T.filter (fun r => r.obj == g)).map (·.ord)).Perm (oneToK (T.filter (fun r => r.obj == g)).length) := by
  by_cases he : T.filter (fun r => r.obj == g) = []
  · rw [he]; exact List.Perm.refl _
  · obtain ⟨t, ht⟩ := List.exists_mem_of_ne_nil _ he
    simp only [List.mem_filter, beq_iff_eq] at ht
    obtain ⟨ht, rfl⟩ := ht
    have hK := hT.ordA t ht
    have hp := hT.ords_below hnd t ht (K t.obj).toNat (by omega)
    have hf : T.filter (fun r => r.obj == t.obj && decide (r.ord ≤ ((K t.obj).toNat : Int))) =
        T.filter (fun r => r.obj == t.obj) := by
      apply List.filter_congr
      intro r hr
      by_cases e : r.obj = t.obj
      · have := hT.ordA r hr
        rw [e] at this
        simp [e]; omega
      · simp [e]
    rw [hf] at hp
    have hl := hp.length_eq
    rw [List.length_map, oneToK_length] at hl
    rw [hl]
    exact hp

end CryoCat.C19
