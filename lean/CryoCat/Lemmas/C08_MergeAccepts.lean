import CryoCat.Lemmas.C08_CheckHistory
/-! C08 — the model's own output of the two merges satisfies the clauses the checkers decide
(`MergeRenumberOK`, the per-certificate clauses of `MergeDropDupOK`), for EVERY list of tagged inputs:
empty inputs, inputs handed over as bare DataFrames (filled on loading), any object numbers.

The block list ALIGNED with the inputs (one block per input, `[]` for an empty one) is
`alignedBlocks = zipWith shiftObj (mergeOffsets …) inputs`; dropping its empty blocks gives `mergeBlocks`. -/
namespace CryoCat.C08
open CryoCat Gen.C08
set_option linter.unusedSectionVars false

/-! ### generic list facts -/
section generic
variable {β γ δ : Type}

theorem forall2_mem_left {R : β → γ → Prop} {l : List β} {m : List γ} (h : List.Forall₂ R l m)
    (a : β) (ha : a ∈ l) : ∃ b ∈ m, R a b := by
  induction h with
  | nil => cases ha
  | cons hab _ ih =>
    rcases List.mem_cons.1 ha with rfl | ha'
    · exact ⟨_, by simp, hab⟩
    · obtain ⟨b, hb, r⟩ := ih ha'
      exact ⟨b, by simp [hb], r⟩

theorem forall2_comp {R : β → γ → Prop} {S : γ → δ → Prop} {T : β → δ → Prop}
    (hT : ∀ a b c, R a b → S b c → T a c) {l : List β} {m : List γ} {n : List δ}
    (h1 : List.Forall₂ R l m) (h2 : List.Forall₂ S m n) : List.Forall₂ T l n := by
  induction h1 generalizing n with
  | nil => cases h2; exact List.Forall₂.nil
  | cons hab _ ih =>
    cases h2 with
    | cons hbc h2' => exact List.Forall₂.cons (hT _ _ _ hab hbc) (ih h2')

theorem forall2_append_split {R : β → γ → Prop} (a b : List β) (out : List γ)
    (h : List.Forall₂ R (a ++ b) out) :
    ∃ o1 o2, out = o1 ++ o2 ∧ List.Forall₂ R a o1 ∧ List.Forall₂ R b o2 := by
  induction a generalizing out with
  | nil => exact ⟨[], out, rfl, List.Forall₂.nil, h⟩
  | cons x a ih =>
    cases h with
    | cons hxy h' =>
      obtain ⟨o1, o2, e, h1, h2⟩ := ih _ h'
      exact ⟨_ :: o1, o2, by rw [e]; rfl, List.Forall₂.cons hxy h1, h2⟩

/-- a row-by-row relation to a concatenation of blocks cuts the other side into blocks too -/
theorem forall2_flatten_split {R : β → γ → Prop} (bs : List (List β)) (out : List γ)
    (h : List.Forall₂ R bs.flatten out) :
    ∃ bs' : List (List γ), out = bs'.flatten ∧ List.Forall₂ (List.Forall₂ R) bs bs' := by
  induction bs generalizing out with
  | nil =>
    rw [List.flatten_nil] at h
    cases h
    exact ⟨[], rfl, List.Forall₂.nil⟩
  | cons b bs ih =>
    rw [List.flatten_cons] at h
    obtain ⟨o1, o2, e, h1, h2⟩ := forall2_append_split b bs.flatten out h
    obtain ⟨bs', e', h'⟩ := ih o2 h2
    exact ⟨o1 :: bs', by rw [e, e', List.flatten_cons], List.Forall₂.cons h1 h'⟩

theorem pairwise_of_forall2 {P : β → β → Prop} {P' : γ → γ → Prop} {Q : β → γ → Prop}
    (hP : ∀ a a' b b', Q a a' → Q b b' → P a b → P' a' b') {l : List β} {m : List γ}
    (h : List.Forall₂ Q l m) (hp : l.Pairwise P) : m.Pairwise P' := by
  induction h with
  | nil => exact List.Pairwise.nil
  | cons hab hrest ih =>
    rw [List.pairwise_cons] at hp ⊢
    refine ⟨?_, ih hp.2⟩
    intro b' hb'
    obtain ⟨b, hb, hq⟩ := forall2_mem_right hrest b' hb'
    exact hP _ _ _ _ hab hq (hp.1 b hb)

/-- a relation that holds vacuously for an empty block on either side: pairwise on the non-empty
blocks is pairwise on all blocks -/
theorem pairwise_of_filter_nonempty (P : List β → List β → Prop) (hl : ∀ c, P [] c) (hr : ∀ b, P b [])
    (bs : List (List β)) (h : (bs.filter (fun b => !b.isEmpty)).Pairwise P) : bs.Pairwise P := by
  induction bs with
  | nil => exact List.Pairwise.nil
  | cons b bs ih =>
    cases b with
    | nil =>
      have h' : (bs.filter (fun b => !b.isEmpty)).Pairwise P := by simpa using h
      exact List.pairwise_cons.2 ⟨fun c _ => hl c, ih h'⟩
    | cons x b =>
      have h' : ((x :: b) :: bs.filter (fun b => !b.isEmpty)).Pairwise P := by simpa using h
      rw [List.pairwise_cons] at h'
      refine List.pairwise_cons.2 ⟨?_, ih h'.2⟩
      intro c hc
      cases c with
      | nil => exact hr _
      | cons y c => exact h'.1 _ (List.mem_filter.2 ⟨hc, by simp⟩)

theorem forall2_zipWith {ι : Type} {Q : β → γ → Prop} (F1 : δ → ι → β) (F2 : δ → ι → γ) (cs : List δ) (xs : List ι)
    (h : ∀ c, ∀ x ∈ xs, Q (F1 c x) (F2 c x)) : List.Forall₂ Q (List.zipWith F1 cs xs) (List.zipWith F2 cs xs) := by
  induction cs generalizing xs with
  | nil => simp
  | cons c cs ih =>
    cases xs with
    | nil => simp
    | cons x xs =>
      rw [List.zipWith_cons_cons, List.zipWith_cons_cons]
      exact List.Forall₂.cons (h c x (by simp)) (ih xs (fun c' x' hx' => h c' x' (by simp [hx'])))

theorem forall2_zipWith_right {ι : Type} {Q : ι → γ → Prop} (F : δ → ι → γ) (cs : List δ) (xs : List ι)
    (hlen : cs.length = xs.length) (h : ∀ c, ∀ x ∈ xs, Q x (F c x)) : List.Forall₂ Q xs (List.zipWith F cs xs) := by
  induction cs generalizing xs with
  | nil =>
    cases xs with
    | nil => simp
    | cons x xs => simp at hlen
  | cons c cs ih =>
    cases xs with
    | nil => simp at hlen
    | cons x xs =>
      rw [List.zipWith_cons_cons]
      exact List.Forall₂.cons (h c x (by simp))
        (ih xs (by simpa using hlen) (fun c' x' hx' => h c' x' (by simp [hx'])))

theorem zipWith_map_right {ι κ : Type} (F : δ → κ → γ) (g : ι → κ) (cs : List δ) (xs : List ι) :
    List.zipWith F cs (xs.map g) = List.zipWith (fun c x => F c (g x)) cs xs := by
  induction cs generalizing xs with
  | nil => simp
  | cons c cs ih =>
    cases xs with
    | nil => simp
    | cons x xs => simp [ih]

theorem inj_on_of_nodup_map' (g : β → γ) (l : List β) (hl : (l.map g).Nodup) :
    ∀ a ∈ l, ∀ b ∈ l, g a = g b → a = b := by
  induction l with
  | nil => intro a ha; cases ha
  | cons x l ih =>
    rw [List.map_cons, List.nodup_cons] at hl
    intro a ha b hb e
    rcases List.mem_cons.1 ha with rfl | ha' <;> rcases List.mem_cons.1 hb with rfl | hb'
    · rfl
    · exact absurd (List.mem_map.2 ⟨b, hb', e.symm⟩) hl.1
    · exact absurd (List.mem_map.2 ⟨a, ha', e⟩) hl.1
    · exact ih hl.2 a ha' b hb' e

/-- rows picked from `l`, no row twice (they differ in some column `d`): a duplicate-free column of `l`
stays duplicate-free -/
theorem nodup_map_of_subset {ε : Type} (g : β → γ) (d : β → ε) (out l : List β) (hnd : (out.map d).Nodup)
    (hsub : ∀ q ∈ out, q ∈ l) (hl : (l.map g).Nodup) : (out.map g).Nodup := by
  rw [List.Nodup, List.pairwise_map] at hnd ⊢
  refine hnd.imp_of_mem ?_
  intro a b ha hb hab e
  exact hab (congrArg d (inj_on_of_nodup_map' g l hl a (hsub a ha) b (hsub b hb) e))

end generic

/-! ### the aligned block list -/
section aligned
variable {α : Type} [CommRing α] [LinearOrder α] [IsStrictOrderedRing α]

/-- one block per input (an empty input gives the empty block): the inputs shifted by the offsets
the loop computes -/
def alignedBlocks (cmp : Cmp) (add : α) (ls : List (Motl α)) : List (Motl α) :=
  List.zipWith shiftObj (mergeOffsets cmp add ls) ls

theorem mergeOffsets_length (cmp : Cmp) (add : α) (ls : List (Motl α)) :
    (mergeOffsets cmp add ls).length = ls.length := by
  induction ls generalizing add with
  | nil => simp [mergeOffsets]
  | cons l ms ih =>
    cases l with
    | nil => rw [mergeOffsets]; simp [ih]
    | cons p m =>
      rw [mergeOffsets]
      split <;> simp [ih]

/-- the blocks the loop concatenates are the non-empty aligned blocks -/
theorem alignedBlocks_filter (cmp : Cmp) (add : α) (ls : List (Motl α)) :
    (alignedBlocks cmp add ls).filter (fun b => !b.isEmpty) = mergeBlocks cmp add ls := by
  unfold alignedBlocks
  induction ls generalizing add with
  | nil => simp [mergeOffsets, mergeBlocks]
  | cons l ms ih =>
    cases l with
    | nil =>
      rw [mergeOffsets, mergeBlocks, List.zipWith_cons_cons]
      have : shiftObj (0 : α) ([] : Motl α) = [] := rfl
      rw [this, List.filter_cons_of_neg (by simp)]
      exact ih add
    | cons p m =>
      rw [mergeOffsets, mergeBlocks]
      split
      · rw [List.zipWith_cons_cons, List.filter_cons_of_pos (by simp [shiftObj]), ih]
      · rw [List.zipWith_cons_cons, shiftObj_zero, List.filter_cons_of_pos (by simp), ih]

theorem alignedBlocks_flatten (cmp : Cmp) (add : α) (ls : List (Motl α)) :
    (alignedBlocks cmp add ls).flatten = (mergeBlocks cmp add ls).flatten := by
  rw [← alignedBlocks_filter, List.flatten_filter_not_isEmpty]

/-- object numbers of a later block are strictly above those of an earlier block — also across empty inputs -/
theorem alignedBlocks_increasing (add : α) (ls : List (Motl α)) :
    (alignedBlocks Cmp.le add ls).Pairwise (fun b c => ∀ p ∈ b, ∀ q ∈ c, p.object_id < q.object_id) := by
  apply pairwise_of_filter_nonempty
  · intro c p hp; cases hp
  · intro b p _ q hq; cases hq
  · rw [alignedBlocks_filter]
    exact mergeBlocks_increasing add ls

end aligned

/-! ### loading one tagged input -/
section loading
variable {α : Type} [CommRing α] [LinearOrder α] [IsStrictOrderedRing α]

theorem loaded_length (fill : α → α) (x : Bool × Motl α) : (loaded fill x).length = x.2.length := by
  unfold loaded; split <;> simp

theorem loaded_flatten_length (fill : α → α) (ins : List (Bool × Motl α)) :
    (ins.map (loaded fill)).flatten.length = (ins.map (·.2)).flatten.length := by
  induction ins with
  | nil => rfl
  | cons x ins ih => simp only [List.map_cons, List.flatten_cons, List.length_append, ih, loaded_length]

/-- `Motl.load` of one tagged input, row by row -/
def loadRow (fill : α → α) (df : Bool) (p : Particle α) : Particle α := if df then fillRow fill p else p

theorem loaded_eq_map (fill : α → α) (x : Bool × Motl α) : loaded fill x = x.2.map (loadRow fill x.1) := by
  unfold loaded loadRow
  split
  · simp
  · simp

theorem get_loadRow (fill : α → α) (df : Bool) (p : Particle α) (f : Field) :
    (loadRow fill df p).get f = fillIf fill df (p.get f) := by
  unfold loadRow fillIf
  cases df
  · rfl
  · exact get_fillRow fill p f

theorem mergeInputs_eq_map (fill : α → α) (b a : List (Bool × Motl α)) (s : Bool) (l : Motl α) :
    mergeInputs fill b a s l = (rawInputs b a s l).map (loaded fill) := by
  unfold mergeInputs rawInputs
  simp only [List.map_append, List.map_cons, List.map_nil]

/-- a loaded and shifted input is the caller's input block-wise: same rows (ids aside; a missing
value filled only for a bare DataFrame), all object numbers moved by one offset -/
theorem blockOK_shift_loaded (fill : α → α) (c : α) (x : Bool × Motl α) :
    BlockOK (fillIf fill x.1) x.2 (shiftObj c (loaded fill x)) := by
  rw [loaded_eq_map]
  unfold shiftObj
  rw [List.map_map]
  refine ⟨?_, c, ?_⟩
  · rw [List.forall₂_map_right_iff, List.forall₂_same]
    intro p _ f _ hf2
    right
    show ((loadRow fill x.1 p).set Field.object_id _).get f = _
    rw [Particle.get_set_other _ _ _ _ hf2, get_loadRow]
  · rw [List.forall₂_map_right_iff, List.forall₂_same]
    intro p _
    show ((loadRow fill x.1 p).set Field.object_id _).get Field.object_id = _
    rw [Particle.get_set_same]
    show (loadRow fill x.1 p).get Field.object_id + c = _
    rw [get_loadRow]
    rfl

end loading

/-! ### merge and renumber -/
section renumber
variable {α : Type} [CommRing α] [LinearOrder α] [IsStrictOrderedRing α]

/-- renumbering the rows of a block keeps it a faithful copy of its input -/
theorem blockOK_renumbered (g : α → α) (m b b' : Motl α) (h : BlockOK g m b)
    (hn : List.Forall₂ (fun p q => ∀ f : Field, f ≠ Field.subtomo_id → q.get f = p.get f) b b') : BlockOK g m b' := by
  obtain ⟨h1, c, h2⟩ := h
  refine ⟨forall2_comp ?_ h1 hn, c, forall2_comp ?_ h2 hn⟩
  · intro p q r hpq hqr f hf1 hf2
    rw [hqr f hf1]
    exact hpq f hf1 hf2
  · intro p q r hpq hqr
    have : r.get Field.object_id = q.get Field.object_id := hqr Field.object_id (by decide)
    exact this.trans hpq

/-- **the model's `merge_and_renumber` (shift rule `<=`, numbering from `k`) on ANY tagged inputs**:
the output cuts into one block per input — also per empty input — each a faithful copy with one
offset, no two blocks share an object number -/
theorem mergeRenumber_blocks (fill : α → α) (nat : Nat → α) (k : Nat) (ins : List (Bool × Motl α)) :
    ∃ bs : List (Motl α),
      numberFrom nat k (mergeBlocks Cmp.le 0 (ins.map (loaded fill))).flatten = bs.flatten
      ∧ List.Forall₂ (fun x b => BlockOK (fillIf fill x.1) x.2 b) ins bs ∧ bs.Pairwise DisjointObj := by
  have hnum := numberFrom_others nat k (mergeBlocks Cmp.le 0 (ins.map (loaded fill))).flatten
  rw [← alignedBlocks_flatten] at hnum ⊢
  obtain ⟨bs, e, hbs⟩ := forall2_flatten_split _ _ hnum
  refine ⟨bs, e, ?_, ?_⟩
  · have hal : List.Forall₂ (fun x b => BlockOK (fillIf fill x.1) x.2 b) ins
        (alignedBlocks Cmp.le 0 (ins.map (loaded fill))) := by
      unfold alignedBlocks
      rw [zipWith_map_right]
      apply forall2_zipWith_right
      · rw [mergeOffsets_length, List.length_map]
      · intro c x _; exact blockOK_shift_loaded fill c x
    exact forall2_comp (S := List.Forall₂ (fun (p q : Particle α) => ∀ f : Field, f ≠ Field.subtomo_id → q.get f = p.get f))
      (R := fun (x : Bool × Motl α) b => BlockOK (fillIf fill x.1) x.2 b)
      (T := fun (x : Bool × Motl α) b => BlockOK (fillIf fill x.1) x.2 b)
      (fun x b b' hxb hbb' => blockOK_renumbered _ _ _ _ hxb hbb') hal hbs
  · refine pairwise_of_forall2 ?_ hbs (alignedBlocks_increasing 0 _)
    intro a a' b b' haa' hbb' hlt p' hp' q' hq'
    obtain ⟨p, hp, ep⟩ := forall2_mem_right haa' p' hp'
    obtain ⟨q, hq, eq⟩ := forall2_mem_right hbb' q' hq'
    have e1 : p'.object_id = p.object_id := ep Field.object_id (by decide)
    have e2 : q'.object_id = q.object_id := eq Field.object_id (by decide)
    rw [e1, e2]
    exact ne_of_lt (hlt p hp q hq)

end renumber

/-- a renumbering of the rows of `l` is determined by the numbers it hands out -/
theorem renumbered_unique (l out1 out2 : Motl α)
    (h1 : List.Forall₂ (fun p q => ∀ f : Field, f ≠ Field.subtomo_id → q.get f = p.get f) l out1)
    (h2 : List.Forall₂ (fun p q => ∀ f : Field, f ≠ Field.subtomo_id → q.get f = p.get f) l out2)
    (e : out1.map (·.subtomo_id) = out2.map (·.subtomo_id)) : out1 = out2 := by
  induction h1 generalizing out2 with
  | nil => cases h2; rfl
  | cons hab _ ih =>
    cases h2 with
    | cons hab2 h2' =>
      simp only [List.map_cons, List.cons.injEq] at e
      rw [ih _ h2' e.2]
      congr 1
      apply Particle.ext_get
      intro f
      by_cases hf : f = Field.subtomo_id
      · subst hf; exact e.1
      · rw [hab f hf, hab2 f hf]

/-! ### merge and drop duplicates -/
section dropdup
variable {α : Type} [CommRing α] [LinearOrder α] [IsStrictOrderedRing α]

/-- row `q` of the model's merged table (fully loaded, shifted) against row `p` of the checker's
shifted input (only the keys loaded): the same row up to the filling of THIS input, same keys -/
def KeyRel (fill : α → α) (df : Bool) (p q : Particle α) : Prop :=
  Same (fillIf fill df) p q ∧ q.object_id = p.object_id ∧ q.subtomo_id = p.subtomo_id ∧ q.score = p.score

theorem fillIf_idem (fill : α → α) (hfill : ∀ v, fill (fill v) = fill v) (df : Bool) (v : α) :
    fillIf fill df (fillIf fill df v) = fillIf fill df v := by
  unfold fillIf; split
  · exact hfill v
  · rfl

theorem keyRel_rows (fill : α → α) (c : α) (df : Bool) (p : Particle α) :
    KeyRel fill df ((loadKeys (fillIf fill df) p).set .object_id ((loadKeys (fillIf fill df) p).object_id + c))
      ((loadRow fill df p).set .object_id ((loadRow fill df p).object_id + c)) := by
  have ho : (loadKeys (fillIf fill df) p).object_id = fillIf fill df p.object_id := rfl
  have ho' : (loadRow fill df p).object_id = fillIf fill df p.object_id := get_loadRow fill df p Field.object_id
  refine ⟨?_, ?_, ?_, ?_⟩
  · intro g
    by_cases hg : g = Field.object_id
    · subst hg
      left
      rw [Particle.get_set_same, Particle.get_set_same, ho, ho']
    · rw [Particle.get_set_other _ _ _ _ hg, Particle.get_set_other _ _ _ _ hg, get_loadRow]
      unfold loadKeys
      by_cases h1 : g = Field.score
      · subst h1; left; rw [Particle.get_set_same]; rfl
      · rw [Particle.get_set_other _ _ _ _ h1]
        by_cases h2 : g = Field.subtomo_id
        · subst h2; left; rw [Particle.get_set_same]; rfl
        · rw [Particle.get_set_other _ _ _ _ h2, Particle.get_set_other _ _ _ _ hg]
          right; rfl
  · show (Particle.set _ Field.object_id _).get Field.object_id = (Particle.set _ Field.object_id _).get Field.object_id
    rw [Particle.get_set_same, Particle.get_set_same, ho, ho']
  · show (Particle.set _ Field.object_id _).get Field.subtomo_id = (Particle.set _ Field.object_id _).get Field.subtomo_id
    rw [Particle.get_set_other _ _ _ _ (by decide), Particle.get_set_other _ _ _ _ (by decide), get_loadRow]
    rfl
  · show (Particle.set _ Field.object_id _).get Field.score = (Particle.set _ Field.object_id _).get Field.score
    rw [Particle.get_set_other _ _ _ _ (by decide), Particle.get_set_other _ _ _ _ (by decide), get_loadRow]
    rfl

/-- block by block, the checker's shifted inputs (certificate = the loop's own offsets) against the
model's aligned blocks -/
theorem shiftedInputs_aligned (fill : α → α) (cmp : Cmp) (add : α) (ins : List (Bool × Motl α)) :
    List.Forall₂ (fun x b => List.Forall₂ (KeyRel fill x.1) x.2 b)
      (shiftedInputs fill (mergeOffsets cmp add (ins.map (loaded fill))) ins)
      (alignedBlocks cmp add (ins.map (loaded fill))) := by
  unfold shiftedInputs alignedBlocks
  rw [zipWith_map_right]
  apply forall2_zipWith
  intro c x _
  show List.Forall₂ (KeyRel fill x.1) (shiftObj c (x.2.map (loadKeys (fillIf fill x.1)))) (shiftObj c (loaded fill x))
  rw [loaded_eq_map]
  unfold shiftObj
  rw [List.map_map, List.map_map, List.forall₂_map_left_iff, List.forall₂_map_right_iff, List.forall₂_same]
  intro p _
  exact keyRel_rows fill c x.1 p

/-- **the model's merged table, de-duplicated by anything that meets the clauses of `dropDup_spec` on it,
passes the per-certificate clauses of `merge_and_drop_duplicates`** with the loop's own offsets as the
certificate — for ANY tagged inputs (empty ones, bare DataFrames) -/
theorem mergeDropDup_clauses (fill : α → α) (ins : List (Bool × Motl α)) (out : Motl α)
    (h1 : (out.map (·.get .subtomo_id)).Nodup)
    (h2 : ∀ q ∈ out, q ∈ (mergeBlocks Cmp.le 0 (ins.map (loaded fill))).flatten)
    (h3 : ∀ p ∈ (mergeBlocks Cmp.le 0 (ins.map (loaded fill))).flatten, ∃ q ∈ out, q.get .subtomo_id = p.get .subtomo_id)
    (h4 : ∀ q ∈ out, ∀ p ∈ (mergeBlocks Cmp.le 0 (ins.map (loaded fill))).flatten,
        p.get .subtomo_id = q.get .subtomo_id → p.get .score ≤ q.get .score) :
    let cs := mergeOffsets Cmp.le 0 (ins.map (loaded fill))
    cs.length = ins.length ∧ ((shiftedInputs fill cs ins).map (·.2)).Pairwise DisjointObj
      ∧ (∀ q ∈ out, ∃ x ∈ shiftedInputs fill cs ins, ∃ p ∈ x.2, Same (fillIf fill x.1) p q)
      ∧ DropDupOK fill .subtomo_id .score false ((shiftedInputs fill cs ins).map (·.2)).flatten out := by
  intro cs
  have hrel := shiftedInputs_aligned fill Cmp.le 0 ins
  rw [← alignedBlocks_flatten] at h2 h3 h4
  -- a row of the model's merged table comes from a row of a shifted input …
  have hback : ∀ q ∈ (alignedBlocks Cmp.le 0 (ins.map (loaded fill))).flatten,
      ∃ x ∈ shiftedInputs fill cs ins, ∃ p ∈ x.2, KeyRel fill x.1 p q := by
    intro q hq
    obtain ⟨b, hb, hqb⟩ := List.mem_flatten.1 hq
    obtain ⟨x, hx, hxb⟩ := forall2_mem_right hrel b hb
    obtain ⟨p, hp, r⟩ := forall2_mem_right hxb q hqb
    exact ⟨x, hx, p, hp, r⟩
  -- … and the other way round
  have hforth : ∀ p ∈ ((shiftedInputs fill cs ins).map (·.2)).flatten,
      ∃ q ∈ (alignedBlocks Cmp.le 0 (ins.map (loaded fill))).flatten, ∃ df, KeyRel fill df p q := by
    intro p hp
    obtain ⟨m, hm, hpm⟩ := List.mem_flatten.1 hp
    obtain ⟨x, hx, rfl⟩ := List.mem_map.1 hm
    obtain ⟨b, hb, hxb⟩ := forall2_mem_left hrel x hx
    obtain ⟨q, hq, r⟩ := forall2_mem_left hxb p hpm
    exact ⟨q, List.mem_flatten.2 ⟨b, hb, hq⟩, x.1, r⟩
  have hsame : ∀ df (p q : Particle α), Same (fillIf fill df) p q → Same fill p q := by
    intro df p q h g
    cases df
    · exact Or.inl ((h g).elim id id)
    · exact h g
  refine ⟨by rw [mergeOffsets_length, List.length_map], ?_, ?_, h1, ?_, ?_, ?_⟩
  · have hrel' : List.Forall₂ (fun b (m : Motl α) => List.Forall₂ (fun q p => q.object_id = p.object_id) b m)
        (alignedBlocks Cmp.le 0 (ins.map (loaded fill))) ((shiftedInputs fill cs ins).map (·.2)) := by
      rw [List.forall₂_map_right_iff]
      apply List.Forall₂.flip
      refine hrel.imp ?_
      intro x b hxb
      apply List.Forall₂.flip
      exact hxb.imp (fun p q r => r.2.1)
    refine pairwise_of_forall2 ?_ hrel' (alignedBlocks_increasing 0 _)
    intro a a' b b' haa' hbb' hlt p' hp' q' hq'
    obtain ⟨p, hp, ep⟩ := forall2_mem_right haa' p' hp'
    obtain ⟨q, hq, eq⟩ := forall2_mem_right hbb' q' hq'
    rw [← ep, ← eq]
    exact ne_of_lt (hlt p hp q hq)
  · intro q hq
    obtain ⟨x, hx, p, hp, r⟩ := hback q (h2 q hq)
    exact ⟨x, hx, p, hp, r.1⟩
  · intro q hq
    obtain ⟨x, hx, p, hp, r⟩ := hback q (h2 q hq)
    exact ⟨p, List.mem_flatten.2 ⟨x.2, List.mem_map.2 ⟨x, hx, rfl⟩, hp⟩, hsame x.1 p q r.1⟩
  · intro p hp
    obtain ⟨q', hq', df, r⟩ := hforth p hp
    obtain ⟨q, hq, e⟩ := h3 q' hq'
    exact ⟨q, hq, e.trans r.2.2.1⟩
  · intro q hq p hp e
    obtain ⟨q', hq', df, r⟩ := hforth p hp
    have hle := h4 q hq q' hq' (r.2.2.1.trans e)
    have hs : p.get Field.score = q'.get Field.score := r.2.2.2.symm
    show p.get Field.score ≤ q.get Field.score
    rw [hs]
    exact hle

end dropdup

/-! ### small concrete tables for the `example`s of `Props/C08.lean` (−1 plays the missing value) -/
def exFill : Int → Int := fun x => if x = -1 then 0 else x
def exRow (sub tomo obj score : Int) : Particle Int :=
  ((((Particle.ofFn (fun _ => (7 : Int))).set .subtomo_id sub).set .tomo_id tomo).set .object_id obj).set .score score

end CryoCat.C08
