import CryoCat.Lemmas.C14
import Mathlib.Data.Rat.Floor
import Mathlib.Tactic.Ring
import Mathlib.Tactic.Linarith
import Mathlib.Tactic.FieldSimp
import Mathlib.Tactic.NormNum
/-! C14 — lemmas about the particle-list part of the model: the stamp start as a floor of a rational position
(`startOfQ`), how it moves under an integer offset, its value for even and odd template sizes, and the link to the
numerator/denominator form `startOf`. -/
namespace CryoCat.C14

theorem v3g_add_x {K : Type} [Add K] (a b : V3 K) : (a + b).x = a.x + b.x := rfl
theorem v3g_add_y {K : Type} [Add K] (a b : V3 K) : (a + b).y = a.y + b.y := rfl
theorem v3g_add_z {K : Type} [Add K] (a b : V3 K) : (a + b).z = a.z + b.z := rfl

/-- core `Rat.floor` is Mathlib's `⌊·⌋` on ℚ -/
theorem ratFloor_eq (q : ℚ) : q.floor = ⌊q⌋ := rfl

theorem startOfQ_eq (c : ℚ) (s : Nat) : startOfQ c s = ⌊c - (s : ℚ) / 2⌋ := rfl

/-- `start ≤ c - s/2 < start + 1` -/
theorem startOfQ_spec (c : ℚ) (s : Nat) :
    ((startOfQ c s : Int) : ℚ) ≤ c - (s : ℚ) / 2 ∧ c - (s : ℚ) / 2 < ((startOfQ c s : Int) : ℚ) + 1 := by
  rw [startOfQ_eq]
  exact ⟨Int.floor_le _, Int.lt_floor_add_one _⟩

/-- an integer offset of the position moves the start by exactly that offset -/
theorem startOfQ_add_int (c : ℚ) (w : Int) (s : Nat) : startOfQ (c + (w : ℚ)) s = startOfQ c s + w := by
  rw [startOfQ_eq, startOfQ_eq, ← Int.floor_add_intCast]
  congr 1; ring

/-- even size `2h`: the start is `⌊c⌋ - h` — voxel `h = ⌊s/2⌋` of the template lands on the voxel `⌊c⌋` holding `c` -/
theorem startOfQ_even (c : ℚ) (h : Nat) : startOfQ c (2 * h) = ⌊c⌋ - (h : Int) := by
  rw [startOfQ_eq, ← Int.floor_sub_natCast]
  congr 1; push_cast; ring

/-- odd size `2h+1`: the start is `⌊c - 1/2⌋ - h` — voxel `h = ⌊s/2⌋` of the template lands on the voxel holding `c - 1/2` -/
theorem startOfQ_odd (c : ℚ) (h : Nat) : startOfQ c (2 * h + 1) = ⌊c - 1 / 2⌋ - (h : Int) := by
  rw [startOfQ_eq, ← Int.floor_sub_natCast]
  congr 1; push_cast; ring

/-- `⌊c - 1/2⌋` is `⌊c⌋` when the fractional part of `c` is at least 1/2 and `⌊c⌋ - 1` otherwise -/
theorem floor_sub_half (c : ℚ) : ⌊c - 1 / 2⌋ = if (⌊c⌋ : ℚ) + 1 / 2 ≤ c then ⌊c⌋ else ⌊c⌋ - 1 := by
  have h1 := Int.floor_le c
  have h2 := Int.lt_floor_add_one c
  split
  · rename_i h
    rw [Int.floor_eq_iff]
    constructor <;> linarith
  · rename_i h
    rw [Int.floor_eq_iff]
    push_cast
    constructor <;> linarith [not_le.mp h]

/-- the centre voxel of an odd template lands on the voxel of `c` exactly when `frac c ≥ 1/2`, else one voxel low -/
theorem startOfQ_odd_cases (c : ℚ) (h : Nat) :
    startOfQ c (2 * h + 1) + (h : Int) = if (⌊c⌋ : ℚ) + 1 / 2 ≤ c then ⌊c⌋ else ⌊c⌋ - 1 := by
  rw [startOfQ_odd, floor_sub_half]; split <;> ring

/-- whole-number coordinate, odd size: one voxel low -/
theorem startOfQ_odd_int (n : Int) (h : Nat) : startOfQ (n : ℚ) (2 * h + 1) + (h : Int) = n - 1 := by
  rw [startOfQ_odd_cases, Int.floor_intCast]
  have : ¬ ((n : ℚ) + 1 / 2 ≤ n) := by linarith
  rw [if_neg this]

/-- the numerator/denominator form used for the mask-driven path is the same floor -/
theorem startOf_eq_startOfQ (num : Int) (den : Nat) (hd : 0 < den) (s : Nat) :
    startOf num den s = startOfQ ((num : ℚ) / (den : ℚ)) s := by
  have hq : (0 : ℚ) < (den : ℚ) := by exact_mod_cast hd
  have e : (num : ℚ) / (den : ℚ) - (s : ℚ) / 2 = (((2 * num - (s : Int) * den : Int) : ℚ)) / (((2 * den : Nat)) : ℚ) := by
    push_cast; field_simp
  rw [startOfQ_eq, e, Rat.floor_intCast_div_natCast]
  unfold startOf; push_cast; rfl

/-- **one axis of the repaired `place_object`**: with the half voxel added on odd sizes, the start is `⌊c⌋ - ⌊s/2⌋` for EVERY size —
the template's centre voxel `⌊s/2⌋` lands on the voxel `⌊c⌋` that holds the 0-based position `c` -/
theorem startOfQ_centred (c : ℚ) (s : Nat) :
    startOfQ (c + ((s % 2 : Nat) : ℚ) / 2) s = ⌊c⌋ - ((s / 2 : Nat) : Int) := by
  rcases Nat.even_or_odd' s with ⟨h, rfl | rfl⟩
  · have e1 : (2 * h) % 2 = 0 := by omega
    have e2 : (2 * h) / 2 = h := by omega
    rw [e1, e2, startOfQ_even]; congr 2; simp
  · have e1 : (2 * h + 1) % 2 = 1 := by omega
    have e2 : (2 * h + 1) / 2 = h := by omega
    rw [e1, e2, startOfQ_odd]; congr 2; push_cast; ring

theorem placeOffset_cast : ((Gen.C14.placeOffset : Int) : ℚ) = 1 := by
  have : Gen.C14.placeOffset = 1 := by decide
  rw [this]; norm_num

end CryoCat.C14
