import CryoCat.Lemmas.C14
import Mathlib.Algebra.BigOperators.Field
import Mathlib.Algebra.BigOperators.Group.Finset.Basic
import Mathlib.Algebra.BigOperators.Ring.Finset
import Mathlib.Algebra.BigOperators.Group.Finset.Sigma
/-! symmetrisation: the mean over an exact cyclic action is invariant and conserves the total -/
namespace CryoCat.C14
open Finset

variable {K : Type} [_root_.Field K] {α : Type}

theorem foldl_add_eq_sum (h : Nat → K) (n : Nat) :
    (List.range n).foldl (fun acc k => acc + h k) 0 = ∑ k ∈ range n, h k := by
  induction n with
  | zero => simp
  | succ n ih => rw [List.range_succ, List.foldl_append, ih, Finset.sum_range_succ]; rfl

/-- the model's accumulation loop is the finite sum -/
theorem symmetrizeF_eq_sum {X : Type} (n : Nat) (rot : Nat → X → K) (p : X) :
    ((List.range n).foldl (fun acc k => acc + rot (k + 1) p) 0) / (n : K) = (∑ k ∈ range n, rot (k + 1) p) / (n : K) := by
  rw [foldl_add_eq_sum (fun k => rot (k + 1) p) n]

/-- shifting a full period of a periodic sequence does not change its sum -/
theorem sum_shift_period (F : Nat → K) (n : Nat) (hper : F n = F 0) :
    ∑ k ∈ range n, F (k + 1) = ∑ k ∈ range n, F k := by
  have h1 := Finset.sum_range_succ' F n
  have h2 := Finset.sum_range_succ F n
  rw [h2, hper] at h1
  exact (add_right_cancel h1).symm

theorem sum_orbit_invariant {X : Type} (σ : X → X) (n : Nat) (hσ : ∀ x, σ^[n] x = x) (f : X → K) (p : X) :
    ∑ k ∈ range n, f (σ^[k + 1] (σ p)) = ∑ k ∈ range n, f (σ^[k + 1] p) := by
  have := sum_shift_period (fun j => f (σ^[j + 1] p)) n (by
    show f (σ^[n + 1] p) = f (σ^[0 + 1] p)
    rw [Function.iterate_succ_apply, hσ]; rfl)
  rw [← this]
  refine Finset.sum_congr rfl (fun k _ => ?_)
  show f (σ^[k + 1] (σ p)) = f (σ^[k + 1 + 1] p)
  rw [Function.iterate_succ_apply σ (k + 1) p]

theorem iterate_bijective {X : Type} (σ : X → X) (n : Nat) (hn : 0 < n) (hσ : ∀ x, σ^[n] x = x) : Function.Bijective σ := by
  obtain ⟨m, rfl⟩ := Nat.exists_eq_succ_of_ne_zero (Nat.pos_iff_ne_zero.1 hn)
  refine Function.bijective_iff_has_inverse.2 ⟨σ^[m], fun x => ?_, fun x => ?_⟩
  · have := hσ x; rw [Function.iterate_succ_apply] at this; exact this
  · have := hσ x; rw [Function.iterate_succ_apply'] at this; exact this

theorem sum_total_conserved {X : Type} [Fintype X] (σ : X → X) (n : Nat) (hn : (n : K) ≠ 0) (hσ : ∀ x, σ^[n] x = x) (f : X → K) :
    ∑ x, (∑ k ∈ range n, f (σ^[k + 1] x)) / (n : K) = ∑ x, f x := by
  have hn' : 0 < n := Nat.pos_of_ne_zero (fun h => hn (by simp [h]))
  have hb := iterate_bijective σ n hn' hσ
  rw [← Finset.sum_div, Finset.sum_comm]
  have : ∀ k ∈ range n, ∑ x, f (σ^[k + 1] x) = ∑ x, f x := fun k _ =>
    Function.Bijective.sum_comp (hb.iterate (k + 1)) f
  rw [Finset.sum_congr rfl this, Finset.sum_const, card_range, nsmul_eq_mul, mul_div_cancel_left₀ _ hn]

/-! ### the exact instance: n-fold with n ∣ 4 on the voxel grid -/
theorem rzQuarter_mod (a : Nat) : rzQuarter a = rzQuarter (a % 4) := by
  simp [rzQuarter, cubeZxz, quarter]

theorem rzQuarter_add (a b : Nat) : rzQuarter (a + b) = rzQuarter a * rzQuarter b := by
  have h : ∀ a < 4, ∀ b < 4, rzQuarter ((a + b) % 4) = rzQuarter a * rzQuarter b := by decide
  rw [rzQuarter_mod (a + b), Nat.add_mod, rzQuarter_mod a, rzQuarter_mod b]
  exact h _ (Nat.mod_lt _ (by decide)) _ (Nat.mod_lt _ (by decide))

theorem rzQuarter_zero : rzQuarter 0 = M3.one := by decide
theorem rzQuarter_four : rzQuarter 4 = M3.one := by decide

theorem srcCoord_one (c p : V3 Int) : srcCoord (M3.one : M3 Int).transpose c p = p := by
  have : (M3.one : M3 Int).transpose = M3.one := by decide
  unfold srcCoord; rw [this, M3.apply_one, v3_add_sub]

theorem srcCoord_rz_iter (m : Nat) (c p : V3 Int) (k : Nat) :
    srcCoord (rzQuarter (k * m)).transpose c p = (srcCoord (rzQuarter m).transpose c)^[k] p := by
  induction k generalizing p with
  | zero => rw [Nat.zero_mul, rzQuarter_zero, srcCoord_one]; rfl
  | succ k ih =>
    rw [Function.iterate_succ_apply, ← ih, ← srcCoord_mul, ← M3.transpose_mul, ← rzQuarter_add]
    congr 3
    rw [Nat.succ_mul, Nat.add_comm]

/-- a map continued by the constant 0 outside its box (`mode='constant'`) -/
theorem rotateBy_zeroExt [OfNat α 0] (R : M3 Int) (s : Shape) (f : V3 Int → α) (p : V3 Int) :
    rotateBy R s f p = (fun q => if s.inBox q = true then f q else 0) (srcCoord R.transpose s.centre p) := rfl

end CryoCat.C14
