import CryoCat.Model.C13
import Mathlib.Tactic.Ring
import Mathlib.Tactic.Linarith
import Mathlib.Tactic.Positivity
import Mathlib.Tactic.FieldSimp
import Mathlib.Algebra.Order.Field.Rat
import Mathlib.Data.Rat.Floor
import Mathlib.Analysis.Real.Sqrt
/-! C13 — helper lemmas about the solids (exact rational arithmetic). -/
namespace CryoCat.C13

theorem blurFactor_eq (h1 : Gen.C13.blurFactorNum = 5) (h2 : Gen.C13.blurFactorDen = 1) : blurFactor = 5 := by
  unfold blurFactor; rw [h1, h2]; rfl

theorem sqrtGt_eq_false (d2 : Int) (r : Rat) : sqrtGt d2 r = false ↔ 0 ≤ r ∧ (d2 : Rat) ≤ r * r := by
  simp [sqrtGt, not_lt]

/-- the test the code makes on `np.sqrt(d2)` is the test decided by `sqrtGt` -/
theorem sqrtGt_iff_real (d2 : Int) (r : Rat) : sqrtGt d2 r = true ↔ (r : ℝ) < Real.sqrt (d2 : ℝ) := by
  rw [← not_iff_not, Bool.not_eq_true, sqrtGt_eq_false, not_lt, Real.sqrt_le_iff]
  constructor
  · rintro ⟨h0, h⟩
    refine ⟨by exact_mod_cast h0, ?_⟩
    have : ((d2 : ℚ) : ℝ) ≤ ((r * r : ℚ) : ℝ) := by exact_mod_cast h
    rw [pow_two]; push_cast at this; exact this
  · rintro ⟨h0, h⟩
    refine ⟨by exact_mod_cast h0, ?_⟩
    have : ((d2 : ℚ) : ℝ) ≤ ((r * r : ℚ) : ℝ) := by push_cast; rw [← pow_two]; exact h
    exact_mod_cast this

theorem d2_nonneg3 (a b c : Int) : (0 : Rat) ≤ ((sq a + sq b + sq c : Int) : Rat) := by
  have : 0 ≤ sq a + sq b + sq c := by unfold sq; nlinarith [mul_self_nonneg a, mul_self_nonneg b, mul_self_nonneg c]
  exact_mod_cast this

theorem d2_nonneg2 (a b : Int) : (0 : Rat) ≤ ((sq a + sq b : Int) : Rat) := by
  have : 0 ≤ sq a + sq b := by unfold sq; nlinarith [mul_self_nonneg a, mul_self_nonneg b]
  exact_mod_cast this

theorem sphereIn_iff (cx cy cz : Int) (r : Rat) (hr : 0 ≤ r) (i j k : Int) :
    sphereIn cx cy cz r i j k = true ↔ ((sq (i - cx) + sq (j - cy) + sq (k - cz) : Int) : Rat) ≤ r * r := by
  unfold sphereIn
  rw [Bool.or_eq_true, Bool.not_eq_true', sqrtGt_eq_false]
  constructor
  · rintro (h | h)
    · simp only [Bool.and_eq_true, beq_iff_eq] at h
      obtain ⟨⟨h1, h2⟩, h3⟩ := h
      subst h1 h2 h3
      simp [sq]; exact mul_self_nonneg r
    · exact h.2
  · intro h; exact Or.inr ⟨hr, h⟩

theorem discIn_iff (cx cy : Int) (r : Rat) (hr : 0 ≤ r) (i j : Int) :
    discIn cx cy r i j = true ↔ ((sq (i - cx) + sq (j - cy) : Int) : Rat) ≤ r * r := by
  unfold discIn
  rw [Bool.or_eq_true, Bool.not_eq_true', sqrtGt_eq_false]
  constructor
  · rintro (h | h)
    · simp only [Bool.and_eq_true, beq_iff_eq] at h
      obtain ⟨h1, h2⟩ := h
      subst h1 h2
      simp [sq]; exact mul_self_nonneg r
    · exact h.2
  · intro h; exact Or.inr ⟨hr, h⟩

/-- a sphere only grows with its radius (also for negative radii: the centre voxel is always set) -/
theorem sphereIn_mono (cx cy cz : Int) (r r' : Rat) (h : r ≤ r') (i j k : Int)
    (hin : sphereIn cx cy cz r i j k = true) : sphereIn cx cy cz r' i j k = true := by
  unfold sphereIn at hin ⊢
  rw [Bool.or_eq_true, Bool.not_eq_true', sqrtGt_eq_false] at hin ⊢
  rcases hin with h1 | ⟨h0, h2⟩
  · exact Or.inl h1
  · exact Or.inr ⟨le_trans h0 h, le_trans h2 (mul_self_le_mul_self h0 h)⟩

theorem slab_iff (nz : Nat) (cz h k : Int) (hk0 : 0 ≤ k) (hk1 : k < (nz : Int)) :
    (max (cz - h) 0 ≤ k ∧ k < min (cz + h + 1) (nz : Int)) ↔ |k - cz| ≤ h := by
  rw [abs_le]
  constructor
  · rintro ⟨h1, h2⟩
    have := le_trans (le_max_left _ _) h1
    have := lt_of_lt_of_le h2 (min_le_left _ _)
    constructor <;> omega
  · rintro ⟨h1, h2⟩
    refine ⟨max_le (by omega) hk0, lt_min (by omega) hk1⟩

theorem trunc_intCast (z : Int) : trunc (z : Rat) = z := by
  unfold trunc; split <;> simp [Rat.floor_intCast, Rat.ceil_intCast]

theorem preprocess_hard (r : Rat) (ow : Bool) : preprocess r 0 ow = r := by simp [preprocess]
theorem preprocess_centred (r g : Rat) : preprocess r g false = r := by simp [preprocess]
theorem preprocess_outwards (r g : Rat) (hg : g ≠ 0) :
    preprocess r g true = (((r + g * blurFactor).ceil : Int) : Rat) := by simp [preprocess, hg]

theorem ellCoord_even (n : Nat) (hn : n % 2 = 0) (c i : Int) : ellCoord n c i = (c : Rat) - (i : Rat) := by
  unfold ellCoord
  obtain ⟨m, rfl⟩ : ∃ m, n = 2 * m := ⟨n / 2, by omega⟩
  have h1 : ((2 * m : Nat) : Int) / 2 = (m : Int) := by omega
  rw [h1]
  push_cast
  ring

theorem ellipsoidIn_even (nx ny nz : Nat) (hx : nx % 2 = 0) (hy : ny % 2 = 0) (hz : nz % 2 = 0)
    (cx cy cz rx ry rz : Int) (hrx : rx ≠ 0) (hry : ry ≠ 0) (hrz : rz ≠ 0) (i j k : Int) :
    ellipsoidIn nx ny nz cx cy cz rx ry rz i j k = true ↔
      (((i : Rat) - cx) / rx) ^ 2 + (((j : Rat) - cy) / ry) ^ 2 + (((k : Rat) - cz) / rz) ^ 2 ≤ 1 := by
  unfold ellipsoidIn
  rw [if_neg (by simp [hrx, hry, hrz]), decide_eq_true_iff, ellCoord_even nx hx, ellCoord_even ny hy, ellCoord_even nz hz]
  have e : ((cz : Rat) - k) * ((cz : Rat) - k) / ((rz : Rat) * rz) + ((cy : Rat) - j) * ((cy : Rat) - j) / ((ry : Rat) * ry)
      + ((cx : Rat) - i) * ((cx : Rat) - i) / ((rx : Rat) * rx)
      = (((i : Rat) - cx) / rx) ^ 2 + (((j : Rat) - cy) / ry) ^ 2 + (((k : Rat) - cz) / rz) ^ 2 := by ring
  rw [e]

/-- division-free form for positive radii -/
theorem ellipsoid_int_form (a b c : Int) (rx ry rz : Int) (hrx : 0 < rx) (hry : 0 < ry) (hrz : 0 < rz) :
    ((a : Rat) / rx) ^ 2 + ((b : Rat) / ry) ^ 2 + ((c : Rat) / rz) ^ 2 ≤ 1 ↔
      a * a * (ry * ry * (rz * rz)) + b * b * (rx * rx * (rz * rz)) + c * c * (rx * rx * (ry * ry)) ≤ rx * rx * (ry * ry) * (rz * rz) := by
  have hx : (0 : Rat) < rx := by exact_mod_cast hrx
  have hy : (0 : Rat) < ry := by exact_mod_cast hry
  have hz : (0 : Rat) < rz := by exact_mod_cast hrz
  have hpos : (0 : Rat) < (rx * rx * (ry * ry) * (rz * rz) : Rat) := by positivity
  have e : ((a : Rat) / rx) ^ 2 + ((b : Rat) / ry) ^ 2 + ((c : Rat) / rz) ^ 2
      = ((a * a * (ry * ry * (rz * rz)) + b * b * (rx * rx * (rz * rz)) + c * c * (rx * rx * (ry * ry)) : Int) : Rat)
          / (rx * rx * (ry * ry) * (rz * rz) : Rat) := by
    push_cast; field_simp
  rw [e, div_le_one hpos]
  constructor
  · intro h; exact_mod_cast h
  · intro h; exact_mod_cast h

end CryoCat.C13

namespace CryoCat.C13
theorem b2i_eq_ite (b : Bool) (p : Prop) [Decidable p] (h : b = true ↔ p) : b2i b = if p then 1 else 0 := by
  by_cases hp : p
  · rw [if_pos hp, h.2 hp]; rfl
  · rw [if_neg hp]
    have : b = false := by
      cases hb : b
      · rfl
      · exact absurd (h.1 hb) hp
    rw [this]; rfl

theorem sq_eq_pow (x : Int) : sq x = x ^ 2 := by unfold sq; ring

/-- squared distance of voxel `(i,j,k)` from the centre `c` -/
def dist2 (c : Int × Int × Int) (i j k : Int) : Int := (i - c.1) ^ 2 + (j - c.2.1) ^ 2 + (k - c.2.2) ^ 2
/-- squared planar distance -/
def dist2xy (c : Int × Int × Int) (i j : Int) : Int := (i - c.1) ^ 2 + (j - c.2.1) ^ 2

theorem sq_sum_eq_dist2 (cx cy cz i j k : Int) : sq (i - cx) + sq (j - cy) + sq (k - cz) = dist2 (cx, cy, cz) i j k := by
  simp only [dist2, sq_eq_pow]
theorem sq_sum_eq_dist2xy (cx cy cz i j : Int) : sq (i - cx) + sq (j - cy) = dist2xy (cx, cy, cz) i j := by
  simp only [dist2xy, sq_eq_pow]
end CryoCat.C13

namespace CryoCat.C13
/-! numpy index wrapping: inside the box nothing wraps -/
theorem wrapIdx_of_nonneg (n : Nat) (c : Int) (h : 0 ≤ c) : wrapIdx n c = c := by
  unfold wrapIdx; rw [if_neg (not_lt.2 h)]

theorem wrapIdx_of_neg (n : Nat) (c : Int) (h : c < 0) : wrapIdx n c = c + n := by
  unfold wrapIdx; rw [if_pos h]

theorem idxOk_iff (n : Nat) (c : Int) : idxOk n c = true ↔ -(n : Int) ≤ c ∧ c < (n : Int) := by
  simp [idxOk]

theorem idxOk_of_inBox (n : Nat) (c : Int) (h0 : 0 ≤ c) (h1 : c < (n : Int)) : idxOk n c = true := by
  rw [idxOk_iff]; omega

/-- an accepted index addresses a voxel of the box -/
theorem wrapIdx_inBox (n : Nat) (c : Int) (h : idxOk n c = true) : 0 ≤ wrapIdx n c ∧ wrapIdx n c < (n : Int) := by
  rw [idxOk_iff] at h
  unfold wrapIdx; split <;> omega

theorem sphereVox_inBox (nx ny nz : Nat) (cx cy cz : Int) (r : Rat) (hx : 0 ≤ cx) (hy : 0 ≤ cy) (hz : 0 ≤ cz) (i j k : Int) :
    sphereVox nx ny nz cx cy cz r i j k = sphereIn cx cy cz r i j k := by
  unfold sphereVox sphereIn
  rw [wrapIdx_of_nonneg _ _ hx, wrapIdx_of_nonneg _ _ hy, wrapIdx_of_nonneg _ _ hz]
  cases (i == cx && j == cy && k == cz) <;> simp

theorem cylVox_inBox (nx ny nz : Nat) (cx cy cz : Int) (r : Rat) (h : Int) (hx : 0 ≤ cx) (hy : 0 ≤ cy) (i j k : Int) :
    cylVox nx ny nz cx cy cz r h i j k = cylIn nz cx cy cz r h i j k := by
  unfold cylVox cylIn discIn
  rw [wrapIdx_of_nonneg _ _ hx, wrapIdx_of_nonneg _ _ hy]
  cases (i == cx && j == cy) <;> simp

theorem trunc_natCast (n : Nat) : trunc (n : Rat) = (n : Int) := by
  have := trunc_intCast (n : Int)
  simpa using this
end CryoCat.C13
