import CryoCat.Lemmas.C15
/-! C15 — helper lemmas about the single operations (core Lean only). -/
namespace CryoCat.C15
variable {α β ι κ : Type}

theorem filterMap_congr' {γ : Type} {f g : β → Option γ} {l : List β} (h : ∀ x ∈ l, f x = g x) :
    l.filterMap f = l.filterMap g := by
  induction l with
  | nil => rfl
  | cons a t ih =>
    rw [List.filterMap_cons, List.filterMap_cons, h a (by simp), ih (fun x hx => h x (by simp [hx]))]

/-! ### sorting by angle -/

theorem zipIdx_filterMap_pair (angles : List κ) (imgs : List ι) (k : Nat) :
    (angles.zipIdx k).filterMap (fun p => (imgs[p.2]?).map (fun im => (p.1, im))) = angles.zip (imgs.drop k) := by
  induction angles generalizing k with
  | nil => simp
  | cons a as ih =>
    rw [List.zipIdx_cons, List.filterMap_cons]
    by_cases hk : k < imgs.length
    · simp only [List.getElem?_eq_getElem hk, Option.map_some, ih]
      conv => rhs; rw [List.drop_eq_getElem_cons hk, List.zip_cons_cons]
    · have h1 : imgs.drop k = [] := by simp; omega
      have h2 : imgs.drop (k + 1) = [] := by simp; omega
      have h3 : imgs[k]? = none := by simp; omega
      simp [h1, h2, h3, ih]

theorem sortTilts_spec (le : κ → κ → Bool) (angles : List κ) (imgs : List ι) (hlen : angles.length = imgs.length) :
    ∃ ps : List (κ × ι), ps.Perm (angles.zip imgs)
      ∧ ((∀ a b c, le a b → le b c → le a c) → (∀ a b, le a b || le b a) → ps.Pairwise (fun p q => le p.1 q.1))
      ∧ sortTilts le angles imgs = .ok (ps.map (·.2)) := by
  let le' : κ × Nat → κ × Nat → Bool := fun a b => le a.1 b.1
  let g : κ × Nat → Option (κ × ι) := fun p => (imgs[p.2]?).map (fun im => (p.1, im))
  refine ⟨(angles.zipIdx.mergeSort le').filterMap g, ?_, ?_, ?_⟩
  · have := (List.mergeSort_perm angles.zipIdx le').filterMap g
    rw [zipIdx_filterMap_pair angles imgs 0] at this
    simpa using this
  · intro tr tot
    have hs := List.pairwise_mergeSort (le := le') (fun a b c => tr a.1 b.1 c.1) (fun a b => tot a.1 b.1) angles.zipIdx
    refine hs.filterMap g ?_
    intro a a' h b hb b' hb'
    simp only [g, Option.map_eq_some_iff] at hb hb'
    obtain ⟨_, _, rfl⟩ := hb
    obtain ⟨_, _, rfl⟩ := hb'
    exact h
  · unfold sortTilts argsort
    have hall : ((angles.zipIdx.mergeSort le').map (·.2)).all (· < imgs.length) = true := by
      simp only [List.all_eq_true, List.mem_map, decide_eq_true_eq]
      rintro i ⟨p, hp, rfl⟩
      have := List.snd_lt_of_mem_zipIdx (List.mem_mergeSort.1 hp)
      omega
    simp only [le'] at hall
    rw [if_pos hall]
    congr 1
    rw [List.filterMap_map, List.map_filterMap]
    apply filterMap_congr'
    intro p _
    simp only [g, Function.comp, Option.map_map]
    cases imgs[p.snd]? <;> rfl

theorem sortTilts_mem (le : κ → κ → Bool) (angles : List κ) (imgs r : List ι)
    (h : sortTilts le angles imgs = .ok r) : ∀ x ∈ r, x ∈ imgs := by
  simp only [sortTilts] at h
  split at h
  · cases h
    intro x hx
    obtain ⟨i, _, hi⟩ := List.mem_filterMap.1 hx
    exact List.mem_of_getElem? hi
  · cases h

/-! ### removing tilts -/

theorem removeTilts_ok (base1 : Bool) (idxs : List Int) (imgs r : List ι) (hs : Gen.C15.indexShift = 1)
    (h : removeTilts base1 idxs imgs = .ok r) :
    idxs ≠ [] ∧ (∀ i ∈ idxs, (if base1 then 1 else 0) ≤ i ∧ i < (imgs.length : Int) + (if base1 then 1 else 0))
    ∧ r = (imgs.zipIdx.filter (fun p => !(idxs.contains ((p.2 : Int) + (if base1 then 1 else 0))))).map (·.1) := by
  unfold removeTilts indicesLoad at h
  cases he : idxs.isEmpty
  case true => simp [he] at h
  case false =>
    simp only [he, Bool.false_eq_true, if_false] at h
    by_cases hb : ((if base1 = true then List.map (fun x => x - Gen.C15.indexShift) idxs else idxs).any
        fun i => decide (i < 0) || decide (i ≥ (imgs.length : Int))) = true
    · rw [if_pos hb] at h; cases h
    · rw [if_neg hb] at h
      cases h
      have hne : idxs ≠ [] := by simpa using he
      refine ⟨hne, ?_, ?_⟩
      · intro i hi
        have := hb
        simp only [List.any_eq_true, not_exists, not_and, Bool.or_eq_true, decide_eq_true_eq] at this
        cases base1
        · have := this i (by simpa using hi); simp; omega
        · have := this (i - 1) (by simpa [hs] using hi); simp; omega
      · congr 1
        apply List.filter_congr
        intro p _
        cases base1
        · simp
        · simp only [if_true, hs]
          congr 1
          rw [Bool.eq_iff_iff]
          simp only [List.contains_iff_mem, List.mem_map]
          constructor
          · rintro ⟨x, hx, hxe⟩
            have : x = (p.2 : Int) + 1 := by omega
            rw [← this]; exact hx
          · intro hx
            exact ⟨_, hx, by omega⟩

theorem filterMap_get_zipIdx_sub (imgs : List ι) (s : List (ι × Nat)) (hs : ∀ p ∈ s, p ∈ imgs.zipIdx) :
    (s.map (·.2)).filterMap (imgs[·]?) = s.map (·.1) := by
  rw [List.filterMap_map]
  rw [← List.filterMap_eq_map]
  apply filterMap_congr'
  intro p hp
  have := List.mem_zipIdx_iff_getElem?.1 (hs p hp)
  simp [Function.comp, this]

/-! ### even / odd split -/

theorem interleave_nil_left (ys : List ι) : interleave [] ys = ys := by
  unfold interleave; rfl

theorem interleave_cons (x : ι) (xs ys : List ι) : interleave (x :: xs) ys = x :: interleave ys xs := by
  rw [interleave]

theorem interleave_sel (l : List ι) : interleave (sel0 l) (sel0.sel1 l) = l := by
  induction l with
  | nil => simp [sel0, sel0.sel1, interleave_nil_left]
  | cons a t ih => simp only [sel0, sel0.sel1, interleave_cons, ih]

theorem sel_getElem? (l : List ι) :
    (∀ k, (sel0 l)[k]? = l[2 * k]?) ∧ (∀ k, (sel0.sel1 l)[k]? = l[2 * k + 1]?) := by
  induction l with
  | nil => simp [sel0, sel0.sel1]
  | cons a t ih =>
    refine ⟨?_, ?_⟩
    · intro k
      cases k with
      | zero => simp [sel0]
      | succ k =>
        simp only [sel0, List.getElem?_cons_succ, ih.2 k]
        have : 2 * (k + 1) = (2 * k + 1) + 1 := by omega
        rw [this, List.getElem?_cons_succ]
    · intro k
      simp only [sel0.sel1, List.getElem?_cons_succ, ih.1 k]

theorem sel_sublist (l : List ι) : (sel0 l).Sublist l ∧ (sel0.sel1 l).Sublist l := by
  induction l with
  | nil => simp [sel0, sel0.sel1]
  | cons a t ih =>
    exact ⟨by simp only [sel0]; exact ih.2.cons_cons a, by simp only [sel0.sel1]; exact ih.1.cons a⟩

theorem sel_length (l : List ι) :
    (sel0 l).length = (l.length + 1) / 2 ∧ (sel0.sel1 l).length = l.length / 2 := by
  induction l with
  | nil => simp [sel0, sel0.sel1]
  | cons a t ih =>
    refine ⟨?_, ?_⟩
    · simp only [sel0, List.length_cons, ih.2]; omega
    · simp only [sel0.sel1, List.length_cons, ih.1]

/-! ### flips -/

def flipKs (ks : List Nat) (v : L3 α) : L3 α := ks.foldl (fun v k => flipAxis k v) v

theorem flipAxis_flipAxis (k : Nat) (v : L3 α) : flipAxis k (flipAxis k v) = v := by
  match k with
  | 0 => simp [flipAxis]
  | 1 => simp [flipAxis, List.map_map, Function.comp_def]
  | 2 => simp [flipAxis, List.map_map, Function.comp_def]
  | _ + 3 => simp [flipAxis]

theorem flipAxis_comm (j k : Nat) (v : L3 α) : flipAxis j (flipAxis k v) = flipAxis k (flipAxis j v) := by
  match j, k with
  | 0, 0 | 1, 1 | 2, 2 => rfl
  | 0, 1 | 1, 0 | 0, 2 | 2, 0 => simp [flipAxis, List.map_reverse]
  | 1, 2 | 2, 1 => simp [flipAxis, List.map_map, Function.comp_def, List.map_reverse]
  | _ + 3, _ => simp [flipAxis]
  | 0, _ + 3 | 1, _ + 3 | 2, _ + 3 => simp [flipAxis]

theorem flipKs_comm (ks : List Nat) (k : Nat) (v : L3 α) : flipKs ks (flipAxis k v) = flipAxis k (flipKs ks v) := by
  induction ks generalizing v with
  | nil => rfl
  | cons j ks ih =>
    simp only [flipKs, List.foldl_cons] at ih ⊢
    rw [flipAxis_comm j k v, ih]

theorem flipKs_flipKs (ks : List Nat) (v : L3 α) : flipKs ks (flipKs ks v) = v := by
  induction ks generalizing v with
  | nil => rfl
  | cons k ks ih =>
    show flipKs ks (flipAxis k (flipKs ks (flipAxis k v))) = v
    rw [← flipKs_comm ks k, ih, flipAxis_flipAxis]

theorem flipAll_eq (axes : List String) (ks : List Nat) (v : L3 α) (h : axes.map flipNamed = ks.map some) :
    flipAll axes v = .ok (flipKs ks v) := by
  induction axes generalizing ks v with
  | nil => cases ks <;> simp_all [flipAll, flipKs]
  | cons a as ih =>
    cases ks with
    | nil => simp at h
    | cons k ks =>
      simp only [List.map_cons, List.cons.injEq] at h
      simp only [flipAll, h.1]
      exact ih ks _ h.2

theorem flipAxis_rect (k : Nat) {n0 n1 n2 : Nat} {v : L3 α} (h : Rect n0 n1 n2 v) : Rect n0 n1 n2 (flipAxis k v) := by
  obtain ⟨h0, h12⟩ := h
  match k with
  | 0 => exact ⟨by simp [flipAxis, h0], fun img himg => h12 img (by simpa [flipAxis] using himg)⟩
  | 1 =>
    refine ⟨by simp [flipAxis, h0], ?_⟩
    intro img himg
    simp only [flipAxis, List.mem_map] at himg
    obtain ⟨img', h', rfl⟩ := himg
    exact ⟨by simp [(h12 img' h').1], fun row hrow => (h12 img' h').2 row (by simpa using hrow)⟩
  | 2 =>
    refine ⟨by simp [flipAxis, h0], ?_⟩
    intro img himg
    simp only [flipAxis, List.mem_map] at himg
    obtain ⟨img', h', rfl⟩ := himg
    refine ⟨by simp [(h12 img' h').1], ?_⟩
    intro row hrow
    simp only [List.mem_map] at hrow
    obtain ⟨row', hr', rfl⟩ := hrow
    simp [(h12 img' h').2 row' hr']
  | _ + 3 => exact ⟨h0, h12⟩

theorem flipKs_rect (ks : List Nat) {n0 n1 n2 : Nat} {v : L3 α} (h : Rect n0 n1 n2 v) : Rect n0 n1 n2 (flipKs ks v) := by
  induction ks generalizing v with
  | nil => exact h
  | cons k ks ih => exact ih (flipAxis_rect k h)

/-! ### centred crop -/

theorem cropStart_fits {full new : Nat} (h : new ≤ full) : cropStart full new + new ≤ full := by
  unfold cropStart; omega

theorem window_length {s len : Nat} {l : List β} (h : s + len ≤ l.length) : (window s len l).length = len := by
  simp [window]; omega

theorem window_getElem? {s len i : Nat} (l : List β) (hi : i < len) : (window s len l)[i]? = l[s + i]? := by
  simp [window, hi]

theorem get3_cropV (d : α) (H W h w : Nat) (v : L3 α) {z j i : Nat} (hj : j < h) (hi : i < w) :
    get3 d (cropV H W h w v) z j i = get3 d v z (cropStart H h + j) (cropStart W w + i) := by
  simp only [get3, cropV, List.getD_eq_getElem?_getD, List.getElem?_map]
  cases v[z]? with
  | none => simp
  | some img =>
    simp only [Option.map_some, Option.getD_some, List.getElem?_map, window_getElem? img hj]
    cases img[cropStart H h + j]? with
    | none => simp
    | some row => simp [window_getElem? row hi]

theorem cropV_rect {n H W h w : Nat} {v : L3 α} (hv : Rect n H W v) (hh : h ≤ H) (hw : w ≤ W) :
    Rect n h w (cropV H W h w v) := by
  obtain ⟨h0, h12⟩ := hv
  refine ⟨by simp [cropV, h0], ?_⟩
  intro img himg
  simp only [cropV, List.mem_map] at himg
  obtain ⟨img', h', rfl⟩ := himg
  obtain ⟨h1, h2⟩ := h12 img' h'
  refine ⟨by rw [List.length_map, window_length (by rw [h1]; exact cropStart_fits hh)], ?_⟩
  intro row hrow
  simp only [List.mem_map] at hrow
  obtain ⟨row', hr', rfl⟩ := hrow
  have hmem : row' ∈ img' := by
    unfold window at hr'
    exact List.mem_of_mem_drop (List.mem_of_mem_take hr')
  exact window_length (by rw [h2 row' hmem]; exact cropStart_fits hw)

/-! ### rectangularity of selections -/

theorem rect_of_mem {n h w : Nat} {v v' : L3 α} (hv : Rect n h w v) (hsub : ∀ x ∈ v', x ∈ v) :
    Rect v'.length h w v' := ⟨rfl, fun img himg => hv.2 img (hsub img himg)⟩

end CryoCat.C15
