import CryoCat.Model.C12
import Mathlib.Tactic.Ring
import Mathlib.Tactic.Linarith
import Mathlib.Tactic.FieldSimp
import Mathlib.Algebra.Order.Field.Basic
import Mathlib.Algebra.Order.Ring.Abs
import Mathlib.Algebra.Order.Field.Rat
import Mathlib.Data.Rat.Lemmas
/-! C12 — `roundHalfEven n d` is the integer nearest to `n/d`, ties to even. -/
namespace CryoCat.C12

/-- integer form: with `v = roundHalfEven n d`, `|2n - 2dv| ≤ d`, and equality forces `v` even -/
theorem roundHalfEven_int (n : Int) (d : Nat) (hd : 0 < d) :
    |2 * n - 2 * (d : Int) * roundHalfEven n d| ≤ (d : Int) ∧
    (|2 * n - 2 * (d : Int) * roundHalfEven n d| = (d : Int) → roundHalfEven n d % 2 = 0) := by
  have hd' : (0 : Int) < d := by exact_mod_cast hd
  have e := Int.emod_add_mul_ediv n (d : Int)
  have r0 := Int.emod_nonneg n (ne_of_gt hd')
  have r1 := Int.emod_lt_of_pos n hd'
  unfold roundHalfEven
  simp only []
  set f := n / (d : Int) with hf
  set r := n % (d : Int) with hr
  have hn : n = r + (d : Int) * f := by omega
  split_ifs with h1 h2 h3
  · have e1 : 2 * n - 2 * (d : Int) * f = 2 * r := by rw [hn]; ring
    rw [e1, abs_of_nonneg (by omega)]
    exact ⟨by omega, fun h => by omega⟩
  · have e1 : 2 * n - 2 * (d : Int) * (f + 1) = 2 * r - 2 * d := by rw [hn]; ring
    rw [e1, abs_of_nonpos (by omega)]
    exact ⟨by omega, fun h => by omega⟩
  · have e1 : 2 * n - 2 * (d : Int) * f = 2 * r := by rw [hn]; ring
    rw [e1, abs_of_nonneg (by omega)]
    exact ⟨by omega, fun _ => h3⟩
  · have e1 : 2 * n - 2 * (d : Int) * (f + 1) = 2 * r - 2 * d := by rw [hn]; ring
    rw [e1, abs_of_nonpos (by omega)]
    exact ⟨by omega, fun _ => by omega⟩

/-- rational form -/
theorem roundRat_spec (q : Rat) :
    |q - (roundRat q : Rat)| ≤ 1 / 2 ∧ (|q - (roundRat q : Rat)| = 1 / 2 → roundRat q % 2 = 0) := by
  have hd : 0 < q.den := q.den_pos
  have hdq : (0 : Rat) < (q.den : Rat) := by exact_mod_cast hd
  obtain ⟨h1, h2⟩ := roundHalfEven_int q.num q.den hd
  have hq : q = (q.num : Rat) / (q.den : Rat) := (Rat.num_div_den q).symm
  unfold roundRat
  set v := roundHalfEven q.num q.den with hv
  have key : q - (v : Rat) = ((2 * q.num - 2 * (q.den : Int) * v : Int) : Rat) / (2 * (q.den : Rat)) := by
    rw [hq]
    push_cast
    field_simp
    have : ((q.num : Rat) / (q.den : Rat)).den = q.den := by rw [← hq]
    have e2 : ((q.num : Rat) / (q.den : Rat)).num = q.num := by rw [← hq]
    simp only [this, e2]
    ring
  have habs : |q - (v : Rat)| = ((|2 * q.num - 2 * (q.den : Int) * v| : Int) : Rat) / (2 * (q.den : Rat)) := by
    rw [key, abs_div, abs_of_pos (by positivity : (0 : Rat) < 2 * (q.den : Rat))]
    congr 1
    exact (Int.cast_abs).symm
  constructor
  · rw [habs, div_le_iff₀ (by positivity)]
    have : ((|2 * q.num - 2 * (q.den : Int) * v| : Int) : Rat) ≤ ((q.den : Int) : Rat) := by exact_mod_cast h1
    simp only [Int.cast_natCast] at this
    linarith
  · intro h
    apply h2
    rw [habs, div_eq_iff (by positivity)] at h
    have h' : ((|2 * q.num - 2 * (q.den : Int) * v| : Int) : Rat) = ((q.den : Int) : Rat) := by
      rw [h]; simp only [Int.cast_natCast]; ring
    exact_mod_cast h'

/-- the nearest-even rounding is unique: any integer with these two properties is `roundRat q` -/
theorem roundRat_unique (q : Rat) (v : Int) (h1 : |q - (v : Rat)| ≤ 1 / 2) (h2 : |q - (v : Rat)| = 1 / 2 → v % 2 = 0) :
    v = roundRat q := by
  obtain ⟨g1, g2⟩ := roundRat_spec q
  set w := roundRat q with hw
  have a1 := abs_le.1 h1
  have b1 := abs_le.1 g1
  have hlt : ((v - w : Int) : Rat) ≤ 1 ∧ (-1 : Rat) ≤ ((v - w : Int) : Rat) := by
    push_cast; constructor <;> linarith [a1.1, a1.2, b1.1, b1.2]
  have hvw : v - w ≤ 1 ∧ -1 ≤ v - w := by
    constructor
    · exact_mod_cast hlt.1
    · exact_mod_cast hlt.2
  rcases (by omega : v - w = 0 ∨ v - w = 1 ∨ v - w = -1) with h | h | h
  · omega
  · -- both are at distance exactly 1/2: both even, but they differ by one
    have hv : (v : Rat) = (w : Rat) + 1 := by
      have : v = w + 1 := by omega
      rw [this]; push_cast; ring
    have e1 : |q - (v : Rat)| = 1 / 2 := by
      apply le_antisymm h1
      rw [abs_sub_comm]; rw [hv]; rw [le_abs]; left; linarith [b1.2]
    have e2 : |q - (w : Rat)| = 1 / 2 := by
      apply le_antisymm g1
      rw [le_abs]; left; rw [hv] at a1; linarith [a1.1]
    have := h2 e1; have := g2 e2; omega
  · have hv : (v : Rat) = (w : Rat) - 1 := by
      have : v = w - 1 := by omega
      rw [this]; push_cast; ring
    have e1 : |q - (v : Rat)| = 1 / 2 := by
      apply le_antisymm h1
      rw [hv]; rw [le_abs]; left; linarith [b1.1]
    have e2 : |q - (w : Rat)| = 1 / 2 := by
      apply le_antisymm g1
      rw [abs_sub_comm, le_abs]; left; rw [hv] at a1; linarith [a1.2]
    have := h2 e1; have := g2 e2; omega

end CryoCat.C12
