import CryoCat.Lemmas.C02_WriteOk
import CryoCat.Lemmas.C02_NumWrite
/-! C02 — the pure property theorems that OTHER properties build on (today: C04, `Lemmas/C04_Star.lean`,
`Props/C04.lean`: the concrete STAR layer of `write_out`/`read_in` round-trips because `typed_roundtrip` holds).

They live here, not in `Props/C02.lean`, so that a user imports them WITHOUT the translator obligations of C02
(`anchors_ok`, `*_documented`): an edit of `cryocat/starfileio.py` that makes an anchor of the translator fail or
changes one of the regenerated source dumps of `Gen/C02.lean` (`body_read`, `body_parse_rows`, `writeDefaults`,
`numberedCond`, `body_remove_lines`, …) breaks `Props/C02.lean` (as it must), but not the build of this file, hence
not the build of a property that only needs the theorems below. `Props/C02.lean` re-exports every theorem of this file
under its old name with the same statement, so the audit of C02 still lists and checks all of them.

Dependence on `Gen/C02.lean` (stated because `Model/C02.lean`, unlike `Model/C06.lean`, READS regenerated constants):
* this file needs `Gen/C02.lean` to be well-typed;
* `printStar` / `readStar` — the definitions the theorems below are about — are built from these regenerated
  literals, and the proofs in `Lemmas/C02*.lean` unfold them, so the theorems below GENUINELY depend on their values:
  reader `lineSep`, `commentChar`, `propPrefix`, `loopKw`, `propNameDrop`; writer `cellFill`, `cellAlign` (since round 5 `padCell` reads the
  whole format spec; `Lemmas/C02_Write.padCell_eq` is where the documented `'{:<10}'` enters), `cellWidth`, `cellSep`, `rowEnd`,
  `labelNumbered`, `labelPlain`, `specLine`, `loopLine`, `stopgapExtra`, `blockEnd`.
  (Checked by perturbation: changing any ONE of these 16 right-hand sides in `Gen/C02.lean` stops a file of
  `Lemmas/C02{,_Parse,_Write}.lean` from building.)
  If an edit of the source changes one of THESE, the text the writer produces or the way the reader cuts it changes,
  the round trip is no longer the proved one, and it is right that every property resting on it (C02 and C04) stops
  building. They are not taken as hypotheses `Gen.C02.x = documented` here: a user could discharge such a hypothesis
  only by `decide` on the same regenerated constant, which fails in exactly the same situations as the unfolding does.
* NOT used (by value) by anything this file imports: `anchorsOk`, `labelStart` (labels are numbered from whatever
  `Gen.C02.labelStart` is — `Lemmas/C02_Write.layoutOf` — and the reader skips the `#n` comment), `stopgapKw` (the
  round trip holds for the numbered and the un-numbered header alike, whichever block names count as STOPGAP),
  `classifyOrder`, `floatPrecision` (read by `round6Cell` of `Model/C02_Value.lean`, which nothing here imports), `roundsBeforeFormat`, `numberedCond`, `labelCall`, `commentLine`,
  `commentsEnd`, `commentValue`, `commentsOrder`, `dataIdBranch`, `newlineOrComments`, `getSpecifierId`,
  `getFrameAndComments`, the signatures and defaults (`writeSignature`, `readSignature`, `removeLinesSignature`,
  `writeDefaults`, `defaultSpecifier`, `numberColumnsDefault`, `removeLinesNumberColumnsDefault`) and every `body_*`
  dump. A change of any of these is C02's business alone. (Checked by perturbation: with ALL of these right-hand
  sides changed at once — `anchorsOk := false`, `labelStart := 0`, every dump `"x"`, … — this file, `Props/C04.lean`
  and the driver still build, while `Props/C02.lean` does not.) -/
namespace CryoCat.C02.Export

/-- **Round trip.** For any list of tables — any number of blocks, any sizes, numbered (RELION) or
un-numbered header (`number_columns` off, or a STOPGAP block name), cells any texts that are words
(non-empty, no white space, no `#`), do not start with `_` and are not the reserved word `loop_`,
at least one column, an empty table only as the last block — reading the text `Starfile.write`
produces returns the same block names, column names and rows of cells, all in order. -/
theorem star_roundtrip (numberColumns : Bool) (bs : List Block) (h : ∀ b ∈ bs, BlockOk b)
    (he : EmptyOnlyLast bs) : readStar (printStar numberColumns bs) = .ok bs :=
  readStar_printStar numberColumns bs h he

/-- **A written column comes back numeric iff it was written from numbers**: for a non-empty table of integers,
floats and text cells, column `j` of the printed texts is typed numeric exactly when every cell of the column was an
integer, a finite or infinite float, or a text that is itself a number token. -/
theorem written_column_typing (rows : List (List Cell)) (j : Nat) (hj : ∀ r ∈ rows, j < r.length)
    (hwf : ∀ r ∈ rows, ∀ c ∈ r, CellWF c) :
    colNumeric isNumTok (rows.map (fun r => r.map cellText)) j = true ↔
      rows ≠ [] ∧ ∀ r ∈ rows, ∀ c, r[j]? = some c → c.isNumber = true := typed_column rows j hj hwf

/-- **Round trip of typed tables**: writing tables of integers, floats (any digit strings) and text
cells and reading the file back returns the printed cells block by block, and every column of a
non-empty block is typed numeric iff it was written from numbers. -/
theorem typed_roundtrip (numberColumns : Bool) (bs : List TBlock) (h : ∀ b ∈ bs, TBlockOk b)
    (he : EmptyOnlyLast (bs.map TBlock.texts)) :
    readStar (printTyped numberColumns bs) = .ok (bs.map TBlock.texts) ∧
    ∀ b ∈ bs, ∀ j < b.cols.length,
      (colNumeric isNumTok b.texts.rows j = true ↔ b.rows ≠ [] ∧ ∀ r ∈ b.rows, ∀ c, r[j]? = some c → c.isNumber = true) := by
  refine ⟨star_roundtrip numberColumns _ (fun b hb => ?_) he, ?_⟩
  · obtain ⟨tb, htb, rfl⟩ := List.mem_map.1 hb
    exact texts_ok tb (h tb htb)
  · intro b hb j hj
    obtain ⟨_, _, _, hr⟩ := h b hb
    exact typed_column b.rows j (fun r hr' => by rw [(hr r hr').1]; exact hj) (fun r hr' => (hr r hr').2)

end CryoCat.C02.Export
