import CryoCat.Model.C17_Ties
/-! C17 — lemmas about ascending arrangements of a table with equal keys (work-list item 1 of round 5). -/
namespace CryoCat.C17

variable {α : Type}

theorem filterMap_getElem?_range (l : List α) : (List.range l.length).filterMap (fun i => l[i]?) = l := by
  induction l with
  | nil => rfl
  | cons a l ih =>
    rw [List.length_cons, List.range_succ_eq_map, List.filterMap_cons]
    simp only [List.getElem?_cons_zero, List.filterMap_map]
    congr 1

/-- taking the rows at a permutation of the positions gives a permutation of the rows -/
theorem pick_perm (rows : List α) (order : List Nat) (h : order.Perm (List.range rows.length)) : (pick rows order).Perm rows := by
  have := List.Perm.filterMap (fun i => rows[i]?) h
  rw [filterMap_getElem?_range] at this
  exact this

/-- the checker is sound and complete: it accepts exactly the arrangements that name every position once and are ascending -/
theorem arrangeOk_iff (key : α → Rat) (asc : Bool) (rows : List α) (order : List Nat) :
    arrangeOk key asc rows order = true ↔
      order.Perm (List.range rows.length) ∧ (pick rows order).Pairwise (fun a b => keyLe key asc a b = true) := by
  simp only [arrangeOk, Bool.and_eq_true, decide_eq_true_eq, List.isPerm_iff]

/-- the stable sort of the model is an accepted arrangement's peer: a permutation, ascending -/
theorem sortRowsBy_sorted (key : Row → Rat) (asc : Bool) (rows : List Row) :
    (sortRowsBy key asc rows).Perm rows ∧ (sortRowsBy key asc rows).Pairwise (fun a b => keyLe key asc a b = true) := by
  refine ⟨List.mergeSort_perm _ _, ?_⟩
  have h := List.pairwise_mergeSort (le := fun (a b : Row) => if asc then decide (key a ≤ key b) else decide (key b ≤ key a))
    (fun a b c hab hbc => by
      cases asc <;> simp only [if_true, if_false, Bool.false_eq_true, decide_eq_true_eq] at * <;>
        first | exact Rat.le_trans hab hbc | exact Rat.le_trans hbc hab)
    (fun a b => by
      cases asc <;> simp only [if_true, if_false, Bool.false_eq_true, Bool.or_eq_true, decide_eq_true_eq] <;> exact Rat.le_total) rows
  exact h.imp (fun hab => by simpa [keyLe] using hab)

/-- **any two ascending arrangements of the same rows differ only inside groups of equal keys.** If `l₁` and `l₂` are
permutations of each other and both ascending in `key`, then (1) they carry the same key sequence, (2) for every key value the
rows with that key are the same up to order, and (3) when no two rows share a key they are EQUAL. -/
theorem sorted_perm_unique_up_to_ties_gen (key : α → Rat) (l₁ l₂ : List α) (hp : l₁.Perm l₂)
    (h₁ : l₁.Pairwise (fun a b => key a ≤ key b)) (h₂ : l₂.Pairwise (fun a b => key a ≤ key b)) :
    l₁.map key = l₂.map key ∧
    (∀ k : Rat, (l₁.filter (fun r => key r == k)).Perm (l₂.filter (fun r => key r == k))) ∧
    ((∀ a ∈ l₁, ∀ b ∈ l₁, key a = key b → a = b) → l₁ = l₂) := by
  refine ⟨?_, fun k => hp.filter _, ?_⟩
  · apply List.Perm.eq_of_pairwise (le := fun (x y : Rat) => x ≤ y)
    · intro a b _ _ hab hba; exact Rat.le_antisymm hab hba
    · exact List.Pairwise.map key (fun a b h => h) h₁
    · exact List.Pairwise.map key (fun a b h => h) h₂
    · exact hp.map key
  · intro hinj
    apply List.Perm.eq_of_pairwise (le := fun (a b : α) => key a ≤ key b) _ h₁ h₂ hp
    intro a b ha hb hab hba
    exact hinj a ha b (hp.symm.subset hb) (Rat.le_antisymm hab hba)

end CryoCat.C17
