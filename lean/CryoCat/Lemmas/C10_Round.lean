import CryoCat.Lemmas.C10
import Mathlib.Tactic.Linarith
import Mathlib.Algebra.Order.Ring.Abs
import Mathlib.Algebra.Order.Floor.Ring
import Mathlib.Data.Rat.Floor
/-! C10 — `roundHalfUp` (model of `Decimal.to_integral_value(ROUND_HALF_UP)`) returns an integer within 1/2,
for any floor service meeting the floor specification, over any ordered field. -/
namespace CryoCat.C10
variable {α : Type} [_root_.Field α] [LinearOrder α] [IsStrictOrderedRing α]

/-- the value is an integer -/
def IsInt (x : α) : Prop := ∃ z : ℤ, x = (z : α)

/-- specification of the `floor` service: integer-valued, `floor v ≤ v < floor v + 1` -/
def FloorSpec (fl : α → α) : Prop := ∀ v, IsInt (fl v) ∧ fl v ≤ v ∧ v < fl v + 1

theorem IsInt.neg {x : α} (h : IsInt x) : IsInt (-x) := by
  obtain ⟨z, rfl⟩ := h; exact ⟨-z, by push_cast; rfl⟩

theorem roundHalfUp_isInt {fl : α → α} (hf : FloorSpec fl) (half v : α) : IsInt (roundHalfUp fl half v) := by
  unfold roundHalfUp
  split
  · exact (hf _).1.neg
  · exact (hf _).1

theorem abs_sub_roundHalfUp {fl : α → α} (hf : FloorSpec fl) {half : α} (hh : half + half = 1) (v : α) :
    |v - roundHalfUp fl half v| ≤ half := by
  unfold roundHalfUp
  split
  · obtain ⟨_, h1, h2⟩ := hf (-v + half)
    rw [abs_le]; constructor <;> linarith
  · obtain ⟨_, h1, h2⟩ := hf (v + half)
    rw [abs_le]; constructor <;> linarith

/-- ties go away from zero: `k + 1/2 ↦ k + 1` for `k ≥ 0`, `-(k + 1/2) ↦ -(k+1)` -/
theorem roundHalfUp_tie_pos {fl : α → α} (hfi : ∀ z : ℤ, fl (z : α) = z) {half : α} (hh : half + half = 1) (k : ℕ) :
    roundHalfUp fl half ((k : α) + half) = (k : α) + 1 := by
  have hpos : (0 : α) < half := by
    by_contra h; have := not_lt.mp h; linarith
  have : ¬ ((k : α) + half < 0) := by
    have : (0 : α) ≤ (k : α) := Nat.cast_nonneg k
    linarith
  unfold roundHalfUp
  rw [if_neg this]
  have e : (k : α) + half + half = ((k + 1 : ℤ) : α) := by push_cast; linarith
  rw [e, hfi]; push_cast; ring

theorem roundHalfUp_tie_neg {fl : α → α} (hfi : ∀ z : ℤ, fl (z : α) = z) {half : α} (hh : half + half = 1) (k : ℕ) :
    roundHalfUp fl half (-((k : α) + half)) = -((k : α) + 1) := by
  have hpos : (0 : α) < half := by
    by_contra h; have := not_lt.mp h; linarith
  have : -((k : α) + half) < 0 := by
    have : (0 : α) ≤ (k : α) := Nat.cast_nonneg k
    linarith
  unfold roundHalfUp
  rw [if_pos this]
  have e : - -((k : α) + half) + half = ((k + 1 : ℤ) : α) := by push_cast; linarith
  rw [e, hfi]; push_cast; ring

/-- specification of the rounding service (`Decimal(v).to_integral_value(ROUND_HALF_UP)` on exact values):
integer-valued, within 1/2 of the argument — all the statement asks of it ("integer x,y,z with |shift| ≤ 0.5") -/
def RoundSpec (r : α → α) : Prop := ∀ v, IsInt (r v) ∧ |v - r v| ≤ 1 / 2

/-- … and the tie rule of ROUND_HALF_UP: halves go away from zero -/
def TiesAway (r : α → α) : Prop :=
  ∀ k : ℕ, r ((k : α) + 1 / 2) = (k : α) + 1 ∧ r (-((k : α) + 1 / 2)) = -((k : α) + 1)

/-- the floor formula, with ANY floor service meeting the floor specification, is such a rounding
(the theorems that used to ask for `FloorSpec sv.floor` and `sv.half + sv.half = 1` now ask for `RoundSpec sv.round`;
this lemma turns the old hypotheses into the new one) -/
theorem roundSpec_of_floor {fl : α → α} (hf : FloorSpec fl) {half : α} (hh : half + half = 1) :
    RoundSpec (roundHalfUp fl half) := by
  intro v
  have hhalf : half = 1 / 2 := by linarith
  refine ⟨roundHalfUp_isInt hf _ _, ?_⟩
  rw [← hhalf]; exact abs_sub_roundHalfUp hf hh v

theorem tiesAway_of_floor {fl : α → α} (hfi : ∀ z : ℤ, fl (z : α) = z) {half : α} (hh : half + half = 1) :
    TiesAway (roundHalfUp fl half) := by
  intro k
  have hhalf : half = 1 / 2 := by linarith
  rw [← hhalf]
  exact ⟨roundHalfUp_tie_pos hfi hh k, roundHalfUp_tie_neg hfi hh k⟩

/-- the numeric services are exact: `trig` returns points of the unit circle, `round` is a rounding to a nearest integer -/
structure Svc.Exact (sv : Svc α) : Prop where
  unit : ∀ x, (sv.trig x).IsUnit
  round : RoundSpec sv.round

/-- the floor of any `FloorRing` (e.g. ℚ, ℝ) meets the specification -/
theorem floorSpec_floorRing [FloorRing α] : FloorSpec (fun v : α => ((⌊v⌋ : ℤ) : α)) := by
  intro v
  exact ⟨⟨⌊v⌋, rfl⟩, Int.floor_le v, Int.lt_floor_add_one v⟩

theorem floor_int_floorRing [FloorRing α] (z : ℤ) : (fun v : α => ((⌊v⌋ : ℤ) : α)) (z : α) = z := by
  simp

/-- the driver's rounding — `roundHalfUp` evaluated at `Rat` with `Rat.floor` — is exact rounding half away from zero -/
theorem ratRound_eq (q : ℚ) : ratRound q = roundHalfUp (fun v : ℚ => ((⌊v⌋ : ℤ) : ℚ)) (1 / 2) q := by
  have h : (fun v : ℚ => ((v.floor : ℤ) : ℚ)) = (fun v : ℚ => ((⌊v⌋ : ℤ) : ℚ)) := rfl
  unfold ratRound
  rw [h]

theorem ratRound_spec : RoundSpec ratRound := by
  intro v; rw [ratRound_eq]
  exact roundSpec_of_floor floorSpec_floorRing (by norm_num) v

theorem ratRound_ties : TiesAway ratRound := by
  intro k; rw [ratRound_eq, ratRound_eq]
  exact tiesAway_of_floor (fun z => floor_int_floorRing z) (by norm_num) k

end CryoCat.C10
