import CryoCat.Model.C12
import Mathlib.Algebra.Module.Pi
import Mathlib.Algebra.Field.Defs
import Mathlib.Algebra.Field.Rat
/-! C12 — the algebraic facts about `numpy.fft.fftn / ifftn` and `np.real` that the operator theorems
use, as a structure of hypotheses (recorded assumptions, probed numerically by the harness). -/
namespace CryoCat.C12

/-- what the theorems use of `numpy.fft.fftn / ifftn` and `np.real` (recorded, probed assumptions) -/
structure Transform (R : Type) {C : Type} [Field R] [AddCommGroup C] [Module R C]
    (F Finv : (Idx → C) → (Idx → C)) (re : C → C) : Prop where
  F_add : ∀ x y, F (x + y) = F x + F y
  F_smul : ∀ (a : R) x, F (a • x) = a • F x
  Finv_add : ∀ x y, Finv (x + y) = Finv x + Finv y
  Finv_smul : ∀ (a : R) x, Finv (a • x) = a • Finv x
  left_inv : ∀ x, Finv (F x) = x
  right_inv : ∀ y, F (Finv y) = y
  re_add : ∀ a b, re (a + b) = re a + re b
  re_smul : ∀ (a : R) c, re (a • c) = a • re c
  re_idem : ∀ c, re (re c) = re c

section
variable {R C : Type} [Field R] [AddCommGroup C] [Module R C] {F Finv : (Idx → C) → (Idx → C)} {re : C → C}

theorem Transform.Finv_sub (T : Transform R F Finv re) (x y : Idx → C) : Finv (x - y) = Finv x - Finv y := by
  have h := T.Finv_add (x - y) y
  rw [sub_add_cancel] at h
  rw [h, add_sub_cancel_right]

theorem Transform.re_sub (T : Transform R F Finv re) (a b : C) : re (a - b) = re a - re b := by
  have h := T.re_add (a - b) b
  rw [sub_add_cancel] at h
  rw [h, add_sub_cancel_right]

end

/-- the hypotheses are consistent: the identity transform on `C = R` satisfies them -/
example : Transform Rat (C := Rat) id id id :=
  ⟨fun _ _ => rfl, fun _ _ => rfl, fun _ _ => rfl, fun _ _ => rfl, fun _ => rfl, fun _ => rfl, fun _ _ => rfl, fun _ _ => rfl, fun _ => rfl⟩

end CryoCat.C12
