import CryoCat.Lemmas.C08
/-! C08 — ORDER of the selections: selecting by each value of a strictly rank-increasing list of
values, one value after the other, IS the stable sort by rank (not only a rearrangement). Core Lean. -/
namespace CryoCat.C08
open CryoCat
set_option linter.unusedSectionVars false

theorem append_split_unique {β : Type} (P : β → Prop) (a1 a2 b1 b2 : List β) (h : a1 ++ a2 = b1 ++ b2)
    (ha1 : ∀ x ∈ a1, P x) (ha2 : ∀ x ∈ a2, ¬ P x) (hb1 : ∀ x ∈ b1, P x) (hb2 : ∀ x ∈ b2, ¬ P x) :
    a1 = b1 ∧ a2 = b2 := by
  induction a1 generalizing b1 with
  | nil =>
    cases b1 with
    | nil => exact ⟨rfl, by simpa using h⟩
    | cons y b1 =>
      simp only [List.nil_append, List.cons_append] at h
      exact absurd (hb1 y (by simp)) (ha2 y (by rw [h]; simp))
  | cons x a1 ih =>
    cases b1 with
    | nil =>
      simp only [List.nil_append, List.cons_append] at h
      exact absurd (ha1 x (by simp)) (hb2 x (by rw [← h]; simp))
    | cons y b1 =>
      simp only [List.cons_append, List.cons.injEq] at h
      obtain ⟨e1, e2⟩ := ih b1 h.2 (fun z hz => ha1 z (by simp [hz])) (fun z hz => hb1 z (by simp [hz]))
      exact ⟨by rw [h.1, e1], e2⟩

section sort
variable {β γ : Type} [DecidableEq β]

/-- the comparison "rank of the key is not larger" -/
def rankLe (key : γ → β) (rank : β → Nat) (p q : γ) : Bool := decide (rank (key p) ≤ rank (key q))

theorem flatMap_filter_skip (key : γ → β) (ks : List β) (a : γ) (l : List γ) (h : key a ∉ ks) :
    ks.flatMap (fun k => (a :: l).filter (fun p => decide (key p = k)))
      = ks.flatMap (fun k => l.filter (fun p => decide (key p = k))) := by
  apply flatMap_congr'
  intro k hk
  have : key a ≠ k := fun e => h (e ▸ hk)
  simp [this]

/-- selecting value after value along a list of values whose ranks increase strictly = stable sort by rank -/
theorem flatMap_filter_eq_mergeSort (key : γ → β) (rank : β → Nat) (ks : List β)
    (hks : ks.Pairwise (fun a b => rank a < rank b)) (l : List γ) (hcov : ∀ p ∈ l, key p ∈ ks) :
    ks.flatMap (fun k => l.filter (fun p => decide (key p = k))) = l.mergeSort (rankLe key rank) := by
  have htrans : ∀ a b c : γ, rankLe key rank a b = true → rankLe key rank b c = true → rankLe key rank a c = true := by
    intro a b c h1 h2
    simp only [rankLe, decide_eq_true_eq] at *
    omega
  have htotal : ∀ a b : γ, (rankLe key rank a b || rankLe key rank b a) = true := by
    intro a b
    simp only [rankLe, Bool.or_eq_true, decide_eq_true_eq]
    omega
  induction l with
  | nil =>
    rw [List.mergeSort_nil]
    simp
  | cons a l ih =>
    obtain ⟨l₁, l₂, h1, h2, h3⟩ := List.mergeSort_cons htrans htotal a l
    have ih' := ih (fun p hp => hcov p (by simp [hp]))
    have hsorted := List.pairwise_mergeSort htrans htotal (a :: l)
    rw [h1] at hsorted ⊢
    obtain ⟨ks₁, ks₂, rfl⟩ := List.append_of_mem (hcov a (by simp))
    rw [List.pairwise_append, List.pairwise_cons] at hks
    obtain ⟨_, ⟨hgt, _⟩, hlt⟩ := hks
    have hn1 : key a ∉ ks₁ := fun hm => Nat.lt_irrefl _ (hlt _ hm _ (by simp))
    have hn2 : key a ∉ ks₂ := fun hm => Nat.lt_irrefl _ (hgt _ hm)
    simp only [List.flatMap_append, List.flatMap_cons] at ih' ⊢
    rw [flatMap_filter_skip key ks₁ a l hn1, flatMap_filter_skip key ks₂ a l hn2]
    have hfa : (a :: l).filter (fun p => decide (key p = key a)) = a :: l.filter (fun p => decide (key p = key a)) := by
      simp
    rw [hfa]
    rw [h2] at ih'
    have := append_split_unique (fun x => rankLe key rank a x = false)
      (ks₁.flatMap (fun k => l.filter (fun p => decide (key p = k))))
      (l.filter (fun p => decide (key p = key a)) ++ ks₂.flatMap (fun k => l.filter (fun p => decide (key p = k))))
      l₁ l₂ ih'
      (by
        intro x hx
        obtain ⟨k, hk, hxk⟩ := List.mem_flatMap.1 hx
        have e : key x = k := by simpa using (List.mem_filter.1 hxk).2
        have := hlt k hk (key a) (by simp)
        simp only [rankLe, decide_eq_false_iff_not, e]
        omega)
      (by
        intro x hx
        rcases List.mem_append.1 hx with hx | hx
        · have e : key x = key a := by simpa using (List.mem_filter.1 hx).2
          simp [rankLe, e]
        · obtain ⟨k, hk, hxk⟩ := List.mem_flatMap.1 hx
          have e : key x = k := by simpa using (List.mem_filter.1 hxk).2
          have := hgt k hk
          simp only [rankLe, e, Bool.not_eq_false, decide_eq_true_eq]
          omega)
      (by
        intro x hx
        have := h3 x hx
        simpa using this)
      (by
        intro x hx
        rw [List.pairwise_append, List.pairwise_cons] at hsorted
        have := hsorted.2.1.1 x hx
        simp [this])
    rw [this.1, ← this.2]
    simp

end sort
end CryoCat.C08

namespace CryoCat.C08
open CryoCat

/-- in a duplicate-free list the positions increase strictly -/
theorem nodup_pairwise_idxOf {β : Type} [DecidableEq β] (ks : List β) (h : ks.Nodup) :
    ks.Pairwise (fun a b => ks.idxOf a < ks.idxOf b) := by
  rw [List.pairwise_iff_getElem]
  intro i j hi hj hij
  rw [h.idxOf_getElem i hi, h.idxOf_getElem j hj]
  exact hij

/-- first-appearance rank of a row's value of field `f` in the list `l` -/
def firstRank {α : Type} [BEq α] (f : Field) (l : Motl α) (v : α) : Nat := (uniq (l.map (·.get f))).idxOf v

/-- selections that keep ids duplicate-free: `subset` with pairwise different requested values,
`remove`, a part of a split, `drop_duplicates` -/
def Op.isNodupSelection {α : Type} : Op α → Prop
  | .subset _ vs => vs.Nodup
  | .remove _ _ | .splitPick _ _ | .dropDup _ _ _ => True
  | _ => False

end CryoCat.C08
