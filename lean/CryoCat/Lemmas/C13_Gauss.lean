import CryoCat.Lemmas.C13_Blur
import Mathlib.Analysis.Complex.Exponential
import Mathlib.Analysis.Complex.ExponentialBounds
import Mathlib.Tactic.IntervalCases
import Mathlib.Tactic.NormNum
import Mathlib.Tactic.Linarith
import Mathlib.Tactic.Ring
import Mathlib.Tactic.Positivity
/-! C13 — the model's Gaussian kernel (`gaussW` of `Model/C13.lean`: `exp(-0.5/σ²·t²)` over `-R … R` divided by
the sum, `R = int(4σ + 0.5)`) evaluated with the real exponential: the weights are non-negative with total 1, and
for every width `0 < σ ≤ 3` the weight of the offsets farther than `5σ` from the centre is at most `1e-3`.

Proof of the tail bound.  An offset `o` of the cube `[-R,R]³` with `|o|² > 25σ²` has weight
`exp(-|o|²/2σ²)/S³ < exp(-25/2)/S³` (`S` = the 1-D normalisation sum), there are at most `(2R+1)³` of them, and
`1000·exp(-25/2) ≤ (4/25)³` (from `e > 2.718`), so it suffices that `S ≥ (4/25)(2R+1)`.  `S` grows with `σ`, and
`R = ⌊4σ + 1/2⌋` gives `σ ≥ (2R-1)/8`; keeping the offsets `|t| ≤ m` (`m = 0, 1, 2` for `R ≤ 2`, `≤ 7`, `≤ 12`) and
`exp(-x) ≥ (1 - x/4)⁴` leaves thirteen rational inequalities (`R = 0 … 12`), checked by `norm_num`. -/
namespace CryoCat.C13
open Real

/-- unnormalised weight with the real exponential -/
noncomputable def realRaw (g : ℝ) (t : ℤ) : ℝ := gaussRaw Real.exp (fun t : ℤ => (t : ℝ)) g t

/-- the model's kernel weight with the real exponential -/
noncomputable def realW (g : ℝ) (R : ℕ) (t : ℤ) : ℝ := gaussW Real.exp (fun t : ℤ => (t : ℝ)) g R t

/-- the normalisation sum -/
noncomputable def realS (g : ℝ) (R : ℕ) : ℝ := ((axis R).map (realRaw g)).sum

theorem realRaw_eq (g : ℝ) (t : ℤ) : realRaw g t = Real.exp (-(((t : ℝ) * t) / (2 * (g * g)))) := by
  unfold realRaw gaussRaw
  congr 1
  ring

theorem realW_eq (g : ℝ) (R : ℕ) (t : ℤ) : realW g R t = realRaw g t / realS g R := rfl

theorem realRaw_pos (g : ℝ) (t : ℤ) : 0 < realRaw g t := by rw [realRaw_eq]; exact Real.exp_pos _

theorem realRaw_zero (g : ℝ) : realRaw g 0 = 1 := by rw [realRaw_eq]; simp

theorem realRaw_neg (g : ℝ) (t : ℤ) : realRaw g (-t) = realRaw g t := by
  rw [realRaw_eq, realRaw_eq]; push_cast; ring_nf

/-- `exp(-x) ≥ (1 - x/4)⁴`, and the weight grows with the width: for `σ ≥ a > 0` and `t²/2a² ≤ 4` -/
theorem realRaw_ge (g a : ℝ) (ha : 0 < a) (hag : a ≤ g) (t : ℤ) (hx : ((t : ℝ) * t) / (2 * (a * a)) ≤ 4) :
    (1 - (((t : ℝ) * t) / (2 * (a * a))) / 4) ^ 4 ≤ realRaw g t := by
  rw [realRaw_eq]
  have hg : 0 < g := lt_of_lt_of_le ha hag
  have htt : 0 ≤ (t : ℝ) * t := mul_self_nonneg _
  have haa : a * a ≤ g * g := mul_le_mul hag hag (le_of_lt ha) (le_of_lt hg)
  have hyx : ((t : ℝ) * t) / (2 * (g * g)) ≤ ((t : ℝ) * t) / (2 * (a * a)) :=
    div_le_div_of_nonneg_left htt (by positivity) (by linarith)
  have h1 : (1 - (((t : ℝ) * t) / (2 * (g * g))) / ((4 : ℕ) : ℝ)) ^ 4 ≤ Real.exp (-(((t : ℝ) * t) / (2 * (g * g)))) :=
    Real.one_sub_div_pow_le_exp_neg (by push_cast; linarith)
  refine le_trans ?_ h1
  apply pow_le_pow_left₀
  · linarith
  · push_cast; linarith

/-! ### the sum over `-m … m` is part of the sum over `-R … R` -/

theorem axis_sublist (m R : ℕ) (h : m ≤ R) : (axis m).Sublist (axis R) := by
  have s1 : (List.range' (R - m) (2 * m + 1)).Sublist (List.range' (R - m) (2 * m + 1 + (R - m))) :=
    List.range'_sublist_right.mpr (by omega)
  have s2 : (List.range' (R - m) (2 * m + 1 + (R - m))).Sublist (List.range' 0 (2 * R + 1)) := by
    have e := List.range'_append_1 (s := 0) (m := R - m) (n := 2 * m + 1 + (R - m))
    rw [show R - m + (2 * m + 1 + (R - m)) = 2 * R + 1 by omega, Nat.zero_add] at e
    rw [← e]
    exact List.sublist_append_right _ _
  have e1 : axis m = (List.range' (R - m) (2 * m + 1)).map fun (t : ℕ) => (t : ℤ) - (R : ℤ) := by
    unfold axis
    rw [List.range'_eq_map_range, List.map_map]
    apply List.map_congr_left
    intro t _
    simp only [Function.comp]
    omega
  have e2 : axis R = (List.range' 0 (2 * R + 1)).map fun (t : ℕ) => (t : ℤ) - (R : ℤ) := by
    unfold axis
    rw [List.range_eq_range']
  rw [e1, e2]
  exact (s1.trans s2).map _

theorem axis_sum_mono (m R : ℕ) (h : m ≤ R) (e : ℤ → ℝ) (he : ∀ t, 0 ≤ e t) :
    ((axis m).map e).sum ≤ ((axis R).map e).sum := by
  apply List.Sublist.sum_le_sum ((axis_sublist m R h).map e)
  intro a ha
  obtain ⟨t, _, rfl⟩ := List.mem_map.mp ha
  exact he t

theorem axis_zero : axis 0 = [0] := by decide
theorem axis_one : axis 1 = [-1, 0, 1] := by decide
theorem axis_two : axis 2 = [-2, -1, 0, 1, 2] := by decide

theorem realS_ge_one (g : ℝ) (R : ℕ) : 1 ≤ realS g R := by
  have := axis_sum_mono 0 R (Nat.zero_le _) (realRaw g) (fun t => le_of_lt (realRaw_pos g t))
  rw [axis_zero] at this
  simpa [realS, realRaw_zero] using this

theorem realS_pos (g : ℝ) (R : ℕ) : 0 < realS g R := lt_of_lt_of_le one_pos (realS_ge_one g R)

theorem realS_ge_m1 (g : ℝ) (R : ℕ) (h : 1 ≤ R) : 1 + 2 * realRaw g 1 ≤ realS g R := by
  have := axis_sum_mono 1 R h (realRaw g) (fun t => le_of_lt (realRaw_pos g t))
  rw [axis_one] at this
  have e : realRaw g (-1) = realRaw g 1 := realRaw_neg g 1
  simp only [List.map_cons, List.map_nil, List.sum_cons, List.sum_nil, e, realRaw_zero] at this
  unfold realS; linarith

theorem realS_ge_m2 (g : ℝ) (R : ℕ) (h : 2 ≤ R) : 1 + 2 * realRaw g 1 + 2 * realRaw g 2 ≤ realS g R := by
  have := axis_sum_mono 2 R h (realRaw g) (fun t => le_of_lt (realRaw_pos g t))
  rw [axis_two] at this
  have e1 : realRaw g (-1) = realRaw g 1 := realRaw_neg g 1
  have e2 : realRaw g (-2) = realRaw g 2 := realRaw_neg g 2
  simp only [List.map_cons, List.map_nil, List.sum_cons, List.sum_nil, e1, e2, realRaw_zero] at this
  unfold realS; linarith

/-! ### non-negative weights of total 1 -/

theorem realW_nonneg (g : ℝ) (R : ℕ) (t : ℤ) : 0 ≤ realW g R t := by
  rw [realW_eq]; exact div_nonneg (le_of_lt (realRaw_pos g t)) (le_of_lt (realS_pos g R))

theorem realW_axis_sum (g : ℝ) (R : ℕ) : ((axis R).map (realW g R)).sum = 1 := by
  have e : realW g R = fun t => realRaw g t / realS g R := funext fun t => realW_eq g R t
  rw [e]
  simp only [div_eq_mul_inv, List.sum_map_mul_right]
  exact mul_inv_cancel₀ (ne_of_gt (realS_pos g R))

theorem realW_cube_sum (g : ℝ) (R : ℕ) : ((cube R).map (w3 (realW g R))).sum = 1 :=
  cube_weight_sum_one R _ (realW_axis_sum g R)

/-! ### the weight beyond `5σ` -/

/-- offsets farther than `5σ` from the centre of the kernel -/
def farOffset (g : Rat) (o : Int × Int × Int) : Bool :=
  decide ((g * 5) * (g * 5) < ((o.1 * o.1 + o.2.1 * o.2.1 + o.2.2 * o.2.2 : Int) : Rat))

theorem sum_filter_le_length {ι : Type} (l : List ι) (p : ι → Bool) (f : ι → ℝ) (c : ℝ) (hc : 0 ≤ c)
    (h : ∀ x ∈ l, p x = true → f x ≤ c) : ((l.filter p).map f).sum ≤ c * l.length := by
  induction l with
  | nil => simp
  | cons a l ih =>
    have ih' := ih (fun x hx => h x (List.mem_cons_of_mem _ hx))
    cases hp : p a
    · simp only [List.filter_cons, hp, Bool.false_eq_true, if_false, List.length_cons]
      push_cast; nlinarith
    · have := h a (List.mem_cons_self ..) hp
      simp only [List.filter_cons, hp, if_true, List.map_cons, List.sum_cons, List.length_cons]
      push_cast; nlinarith

theorem axis_length (R : ℕ) : (axis R).length = 2 * R + 1 := by simp [axis]

theorem cube_length (R : ℕ) : (cube R).length = (2 * R + 1) ^ 3 := by
  have h : ∀ (l : List ℤ) (n : ℕ), l.length = n →
      (l.flatMap fun a => l.flatMap fun b => l.map fun c => (a, b, c)).length = n ^ 3 := by
    intro l n hn
    simp only [List.length_flatMap, List.length_map, List.map_const', List.sum_replicate, hn, smul_eq_mul]
    ring
  exact h (axis R) _ (axis_length R)

/-- weight of a 3-D offset: `exp(-|o|²/2σ²) / S³` -/
theorem w3_realW (g : ℝ) (R : ℕ) (o : ℤ × ℤ × ℤ) : w3 (realW g R) o =
    Real.exp (-((((o.1 : ℝ) * o.1 + (o.2.1 : ℝ) * o.2.1 + (o.2.2 : ℝ) * o.2.2)) / (2 * (g * g)))) / realS g R ^ 3 := by
  unfold w3
  rw [realW_eq, realW_eq, realW_eq, realRaw_eq, realRaw_eq, realRaw_eq]
  rw [div_mul_div_comm, div_mul_div_comm, ← Real.exp_add, ← Real.exp_add]
  congr 1
  · congr 1; ring
  · ring

theorem sum_filter_ge_length {ι : Type} (l : List ι) (p : ι → Bool) (f : ι → ℝ) (c : ℝ)
    (h : ∀ x ∈ l, p x = true → c ≤ f x) : c * (l.filter p).length ≤ ((l.filter p).map f).sum := by
  induction l with
  | nil => simp
  | cons a l ih =>
    have ih' := ih (fun x hx => h x (List.mem_cons_of_mem _ hx))
    cases hp : p a
    · simpa only [List.filter_cons, hp, Bool.false_eq_true, if_false] using ih'
    · have := h a (List.mem_cons_self ..) hp
      simp only [List.filter_cons, hp, if_true, List.map_cons, List.sum_cons, List.length_cons]
      push_cast; nlinarith

/-- the blurred value falls short of 1 by at least the weight of the offsets (flagged `P`) that read a voxel holding 0 -/
theorem blur_deficit_ge (nx ny nz R : ℕ) (w1 : ℤ → ℝ) (x : ℤ → ℤ → ℤ → ℝ) (hw : ∀ t, 0 ≤ w1 t)
    (hsum : ((cube R).map (w3 w1)).sum = 1) (hx : ∀ a b c, 0 ≤ x a b c ∧ x a b c ≤ 1) (P : ℤ × ℤ × ℤ → Bool) (i j k : ℤ)
    (hP : ∀ o ∈ cube R, P o = true → seen nx ny nz x i j k o = 0) :
    (((cube R).filter P).map (w3 w1)).sum ≤ 1 - blurAt nx ny nz R w1 x i j k := by
  unfold blurAt
  rw [← hsum]
  exact list_deficit_ge (cube R) (w3 w1) (seen nx ny nz x i j k) P
    (fun q _ => mul_nonneg (mul_nonneg (hw _) (hw _)) (hw _)) (fun q _ => hx _ _ _) hP

/-- an offset farther than `5σ` carries less than `exp(-25/2)/S³` -/
theorem far_weight_le (g : ℚ) (hg : 0 < g) (R : ℕ) (o : ℤ × ℤ × ℤ) (hfar : farOffset g o = true) :
    w3 (realW (g : ℝ) R) o ≤ Real.exp (-(25 / 2)) / realS (g : ℝ) R ^ 3 := by
  have hg' : (0 : ℝ) < (g : ℝ) := by exact_mod_cast hg
  have hS := realS_pos (g : ℝ) R
  have hlt : ((g : ℝ) * 5) * ((g : ℝ) * 5) < ((o.1 * o.1 + o.2.1 * o.2.1 + o.2.2 * o.2.2 : ℤ) : ℝ) := by
    have : (g * 5) * (g * 5) < ((o.1 * o.1 + o.2.1 * o.2.1 + o.2.2 * o.2.2 : ℤ) : ℚ) := by
      simpa [farOffset] using hfar
    have h2 := (Rat.cast_lt (K := ℝ)).mpr this
    push_cast at h2 ⊢
    exact h2
  push_cast at hlt
  rw [w3_realW]
  apply div_le_div_of_nonneg_right _ (le_of_lt (pow_pos hS 3))
  apply Real.exp_le_exp.mpr
  have hgg : 0 < 2 * ((g : ℝ) * g) := by positivity
  rw [neg_le_neg_iff, div_le_div_iff₀ (by norm_num) hgg]
  nlinarith

/-- the weight beyond `5σ` is at most `(2R+1)³ · exp(-25/2) / S³` -/
theorem far_sum_le (g : ℚ) (hg : 0 < g) (R : ℕ) :
    (((cube R).filter (farOffset g)).map (w3 (realW (g : ℝ) R))).sum
      ≤ Real.exp (-(25 / 2)) / realS (g : ℝ) R ^ 3 * ((2 * R + 1 : ℕ) : ℝ) ^ 3 := by
  have hS := realS_pos (g : ℝ) R
  have h := sum_filter_le_length (cube R) (farOffset g) (w3 (realW (g : ℝ) R)) (Real.exp (-(25 / 2)) / realS (g : ℝ) R ^ 3)
    (div_nonneg (le_of_lt (Real.exp_pos _)) (le_of_lt (pow_pos hS 3))) (fun o _ ho => far_weight_le g hg R o ho)
  rw [cube_length] at h
  push_cast at h ⊢
  exact h

/-- `1000 · exp(-25/2) ≤ (4/25)³`, from `e > 2.718` and `exp(1/2) ≥ 1 + 1/2 + 1/8` -/
theorem exp_neg_twelve_half_le : Real.exp (-(25 / 2)) ≤ (4 / 25) ^ 3 / 1000 := by
  have h1 : (2.718 : ℝ) < Real.exp 1 := lt_trans (by norm_num) Real.exp_one_gt_d9
  have h12 : (2.718 : ℝ) ^ 12 ≤ Real.exp 12 := by
    have : Real.exp 12 = Real.exp 1 ^ 12 := by
      rw [← Real.exp_nat_mul]; norm_num
    rw [this]
    exact pow_le_pow_left₀ (by norm_num) (le_of_lt h1) 12
  have hhalf : (1.625 : ℝ) ≤ Real.exp (1 / 2) := by
    have := Real.quadratic_le_exp_of_nonneg (x := 1 / 2) (by norm_num)
    norm_num at this ⊢
    linarith
  have hbig : (2.718 : ℝ) ^ 12 * 1.625 ≤ Real.exp (25 / 2) := by
    have : Real.exp (25 / 2) = Real.exp 12 * Real.exp (1 / 2) := by
      rw [← Real.exp_add]; norm_num
    rw [this]
    exact mul_le_mul h12 hhalf (by norm_num) (le_of_lt (Real.exp_pos _))
  rw [Real.exp_neg]
  have hpos : (0 : ℝ) < Real.exp (25 / 2) := Real.exp_pos _
  rw [inv_eq_one_div, div_le_div_iff₀ hpos (by norm_num)]
  have : (244141 : ℝ) ≤ (2.718 : ℝ) ^ 12 * 1.625 := by norm_num
  nlinarith

/-- `R = int(4σ + 0.5)`: `(2R - 1)/8 ≤ σ`, and `R ≤ 12` for `σ ≤ 3` -/
theorem kernelRadius_bounds (g : ℚ) (hg : 0 < g) :
    ((2 * (kernelRadius g : ℚ) - 1) / 8 ≤ g) ∧ (g ≤ 3 → kernelRadius g ≤ 12) := by
  have hmk : mkRat 1 2 = (1 / 2 : ℚ) := by rw [Rat.mkRat_eq_div]; norm_num
  have hfl0 : 0 ≤ (4 * g + 1 / 2 : ℚ).floor := Rat.le_floor_iff.mpr (by norm_num; linarith)
  have hR : ((kernelRadius g : ℕ) : ℤ) = (4 * g + 1 / 2 : ℚ).floor := by
    unfold kernelRadius; rw [hmk]; exact Int.toNat_of_nonneg hfl0
  have hle : (((4 * g + 1 / 2 : ℚ).floor : ℤ) : ℚ) ≤ 4 * g + 1 / 2 := Rat.floor_le _
  have hRq : ((kernelRadius g : ℕ) : ℚ) = (((4 * g + 1 / 2 : ℚ).floor : ℤ) : ℚ) := by
    rw [← hR]; simp
  constructor
  · rw [hRq]; linarith
  · intro h3
    have : (((4 * g + 1 / 2 : ℚ).floor : ℤ) : ℚ) ≤ 12 + 1 / 2 := by linarith
    have h13 : (4 * g + 1 / 2 : ℚ).floor < 13 := Rat.floor_lt_iff.mpr (by push_cast; linarith)
    have : ((kernelRadius g : ℕ) : ℤ) < 13 := by rw [hR]; exact h13
    omega

/-- the normalisation sum is at least `(4/25)(2R+1)` for every width `0 < σ ≤ 3` -/
theorem realS_lower (g : ℚ) (hg : 0 < g) (hg3 : g ≤ 3) :
    (4 / 25 : ℝ) * (2 * (kernelRadius g : ℝ) + 1) ≤ realS (g : ℝ) (kernelRadius g) := by
  obtain ⟨ha, hR12⟩ := kernelRadius_bounds g hg
  have hR := hR12 hg3
  have haR : ((2 * (kernelRadius g : ℝ) - 1) / 8 : ℝ) ≤ (g : ℝ) := by
    have := (Rat.cast_le (K := ℝ)).mpr ha
    push_cast at this
    exact this
  generalize kernelRadius g = R at hR haR ⊢
  have h0 := realS_ge_one (g : ℝ) R
  -- one offset on each side (3 ≤ R ≤ 7), two on each side (8 ≤ R ≤ 12)
  have key1 : ∀ a : ℝ, 0 < a → a ≤ (g : ℝ) → 1 / (2 * (a * a)) ≤ 4 → 1 ≤ R →
      1 + 2 * (1 - (1 / (2 * (a * a))) / 4) ^ 4 ≤ realS (g : ℝ) R := by
    intro a ha0 hag hx h1
    have := realRaw_ge (g : ℝ) a ha0 hag 1 (by simpa using hx)
    have h2 := realS_ge_m1 (g : ℝ) R h1
    simp only [Int.cast_one, one_mul] at this
    linarith
  have key2 : ∀ a : ℝ, 0 < a → a ≤ (g : ℝ) → 4 / (2 * (a * a)) ≤ 4 → 2 ≤ R →
      1 + 4 * (1 - (4 / (2 * (a * a))) / 4) ^ 4 ≤ realS (g : ℝ) R := by
    intro a ha0 hag hx h2
    have e2 := realRaw_ge (g : ℝ) a ha0 hag 2 (by push_cast; norm_num; linarith)
    have e1 := realRaw_ge (g : ℝ) a ha0 hag 1 (by
      simp only [Int.cast_one, one_mul]
      have : 1 / (2 * (a * a)) ≤ 4 / (2 * (a * a)) := div_le_div_of_nonneg_right (by norm_num) (by positivity)
      linarith)
    have h3 := realS_ge_m2 (g : ℝ) R h2
    have hmono : (1 - (4 / (2 * (a * a))) / 4) ^ 4 ≤ (1 - (1 / (2 * (a * a))) / 4) ^ 4 := by
      apply pow_le_pow_left₀
      · linarith
      · have : 1 / (2 * (a * a)) ≤ 4 / (2 * (a * a)) := div_le_div_of_nonneg_right (by norm_num) (by positivity)
        linarith
    simp only [Int.cast_one, one_mul] at e1
    have e2' : (1 - (4 / (2 * (a * a))) / 4) ^ 4 ≤ realRaw (g : ℝ) 2 := by
      have : ((2 : ℤ) : ℝ) * ((2 : ℤ) : ℝ) = 4 := by norm_num
      rw [this] at e2; exact e2
    linarith
  interval_cases R
  · norm_num; linarith
  · norm_num; linarith
  · norm_num; linarith
  · have := key1 (5 / 8) (by norm_num) (by norm_num at haR ⊢; linarith) (by norm_num) (by norm_num)
    norm_num at this ⊢; linarith
  · have := key1 (7 / 8) (by norm_num) (by norm_num at haR ⊢; linarith) (by norm_num) (by norm_num)
    norm_num at this ⊢; linarith
  · have := key1 (9 / 8) (by norm_num) (by norm_num at haR ⊢; linarith) (by norm_num) (by norm_num)
    norm_num at this ⊢; linarith
  · have := key1 (11 / 8) (by norm_num) (by norm_num at haR ⊢; linarith) (by norm_num) (by norm_num)
    norm_num at this ⊢; linarith
  · have := key1 (13 / 8) (by norm_num) (by norm_num at haR ⊢; linarith) (by norm_num) (by norm_num)
    norm_num at this ⊢; linarith
  · have := key2 (15 / 8) (by norm_num) (by norm_num at haR ⊢; linarith) (by norm_num) (by norm_num)
    norm_num at this ⊢; linarith
  · have := key2 (17 / 8) (by norm_num) (by norm_num at haR ⊢; linarith) (by norm_num) (by norm_num)
    norm_num at this ⊢; linarith
  · have := key2 (19 / 8) (by norm_num) (by norm_num at haR ⊢; linarith) (by norm_num) (by norm_num)
    norm_num at this ⊢; linarith
  · have := key2 (21 / 8) (by norm_num) (by norm_num at haR ⊢; linarith) (by norm_num) (by norm_num)
    norm_num at this ⊢; linarith
  · have := key2 (23 / 8) (by norm_num) (by norm_num at haR ⊢; linarith) (by norm_num) (by norm_num)
    norm_num at this ⊢; linarith

/-- **the kernel tail**: for every width `0 < σ ≤ 3` the model's Gaussian kernel puts at most `1e-3` of its weight on
offsets farther than `5σ` from the centre (the hypothesis `htail` of the soft-core theorems) -/
theorem gauss_tail_le (g : ℚ) (hg : 0 < g) (hg3 : g ≤ 3) :
    (((cube (kernelRadius g)).filter (farOffset g)).map (w3 (realW (g : ℝ) (kernelRadius g)))).sum ≤ 1 / 1000 := by
  have h1 := far_sum_le g hg (kernelRadius g)
  have h2 := realS_lower g hg hg3
  have h3 := exp_neg_twelve_half_le
  have hS := realS_pos (g : ℝ) (kernelRadius g)
  refine le_trans h1 ?_
  push_cast
  set S := realS (g : ℝ) (kernelRadius g) with hSdef
  set n : ℝ := 2 * (kernelRadius g : ℝ) + 1 with hn
  have hn0 : 0 ≤ n := by positivity
  have hcube : ((4 / 25 : ℝ) * n) ^ 3 ≤ S ^ 3 := pow_le_pow_left₀ (by positivity) h2 3
  have hS3 : 0 < S ^ 3 := pow_pos hS 3
  rw [div_mul_eq_mul_div, div_le_div_iff₀ hS3 (by norm_num)]
  have hn3 : 0 ≤ n ^ 3 := by positivity
  have : Real.exp (-(25 / 2)) * n ^ 3 ≤ (4 / 25) ^ 3 / 1000 * n ^ 3 := mul_le_mul_of_nonneg_right h3 hn3
  have e : ((4 / 25 : ℝ) * n) ^ 3 = (4 / 25) ^ 3 * n ^ 3 := by ring
  nlinarith

/-! ### σ = 1: numeric bounds for the witness of C13-K2 -/

theorem axis_four : axis 4 = [-4, -3, -2, -1, 0, 1, 2, 3, 4] := by decide

/-- `exp(-x) ≤ 1/(1 + x + x²/2)` for `x ≥ 0` -/
theorem exp_neg_le_quadratic (x : ℝ) (hx : 0 ≤ x) : Real.exp (-x) ≤ 1 / (1 + x + x ^ 2 / 2) := by
  rw [Real.exp_neg, inv_eq_one_div]
  exact one_div_le_one_div_of_le (by positivity) (Real.quadratic_le_exp_of_nonneg hx)

/-- the normalisation sum for `σ = 1`, `R = 4` (true value 2.5066…) -/
theorem realS_one_four_le : realS 1 4 ≤ 2.81 := by
  unfold realS
  rw [axis_four]
  simp only [List.map_cons, List.map_nil, List.sum_cons, List.sum_nil, realRaw_eq]
  have h1 := exp_neg_le_quadratic (1 / 2) (by norm_num)
  have h2 := exp_neg_le_quadratic 2 (by norm_num)
  have h3 := exp_neg_le_quadratic (9 / 2) (by norm_num)
  have h4 := exp_neg_le_quadratic 8 (by norm_num)
  norm_num at h1 h2 h3 h4 ⊢
  linarith

/-- `exp(-7) > 1/1097` -/
theorem exp_neg_seven_ge : 1 / 1097 ≤ Real.exp (-7) := by
  have h1 : Real.exp 1 < 2.7183 := lt_trans Real.exp_one_lt_d9 (by norm_num)
  have h7 : Real.exp 7 ≤ (2.7183 : ℝ) ^ 7 := by
    have : Real.exp 7 = Real.exp 1 ^ 7 := by rw [← Real.exp_nat_mul]; norm_num
    rw [this]
    exact pow_le_pow_left₀ (le_of_lt (Real.exp_pos 1)) (le_of_lt h1) 7
  have h7' : Real.exp 7 ≤ 1097 := le_trans h7 (by norm_num)
  rw [Real.exp_neg, inv_eq_one_div]
  exact one_div_le_one_div_of_le (Real.exp_pos 7) h7'

/-- for `σ = 1`: 28 offsets of squared length `≤ 14` carry more than `1e-3` of the kernel's weight -/
theorem weight_28_offsets_gt : (1 : ℝ) / 1000 < Real.exp (-7) / realS 1 4 ^ 3 * 28 := by
  have hS := realS_pos 1 4
  have hS3 : realS 1 4 ^ 3 ≤ 2.81 ^ 3 := pow_le_pow_left₀ (le_of_lt hS) realS_one_four_le 3
  have he := exp_neg_seven_ge
  rw [div_mul_eq_mul_div, lt_div_iff₀ (pow_pos hS 3)]
  have : (2.81 : ℝ) ^ 3 / 1000 < 1 / 1097 * 28 := by norm_num
  nlinarith

end CryoCat.C13
