import CryoCat.Model.C13
/-! C13 — list-level helper lemmas (core Lean only): C-order layout of `render`, the in-place
accumulation loop column by column. -/
namespace CryoCat.C13

theorem flatMap_range_length {β : Type} (n m : Nat) (g : Nat → List β) (hg : ∀ i, i < n → (g i).length = m) :
    ((List.range n).flatMap g).length = n * m := by
  induction n with
  | zero => simp
  | succ n ih =>
    rw [List.range_succ, List.flatMap_append, List.length_append, ih (fun i hi => hg i (by omega))]
    simp [hg n (by omega), Nat.succ_mul]

/-- block `i` of a concatenation of `n` blocks of equal length `m` starts at `i*m` -/
theorem flatMap_range_getElem? {β : Type} (n m : Nat) (g : Nat → List β) (hg : ∀ i, i < n → (g i).length = m)
    (i r : Nat) (hi : i < n) (hr : r < m) :
    ((List.range n).flatMap g)[i * m + r]? = (g i)[r]? := by
  induction n with
  | zero => omega
  | succ n ih =>
    have hlen := flatMap_range_length n m g (fun i hi => hg i (by omega))
    rw [List.range_succ, List.flatMap_append]
    by_cases h : i < n
    · have : i * m + r < n * m := by
        calc i * m + r < i * m + m := by omega
          _ = (i + 1) * m := by rw [Nat.succ_mul]
          _ ≤ n * m := Nat.mul_le_mul_right m h
      rw [List.getElem?_append_left (by rw [hlen]; exact this)]
      exact ih (fun i hi => hg i (by omega)) h
    · have hin : i = n := by omega
      subst hin
      rw [List.getElem?_append_right (by rw [hlen]; omega), hlen]
      simp

theorem render_length {β : Type} (nx ny nz : Nat) (f : Nat → Nat → Nat → β) :
    (render nx ny nz f).length = nx * (ny * nz) := by
  unfold render
  apply flatMap_range_length
  intro i _
  apply flatMap_range_length
  intro j _
  simp

/-- **C-order layout**: voxel `(i,j,k)` of the box sits at flat index `(i*ny + j)*nz + k` -/
theorem render_getElem? {β : Type} (nx ny nz : Nat) (f : Nat → Nat → Nat → β) (i j k : Nat)
    (hi : i < nx) (hj : j < ny) (hk : k < nz) :
    (render nx ny nz f)[(i * ny + j) * nz + k]? = some (f i j k) := by
  unfold render
  have hrow : ∀ i, i < nx → ((List.range ny).flatMap fun j => (List.range nz).map fun k => f i j k).length = ny * nz := by
    intro i _
    apply flatMap_range_length
    intro j _
    simp
  have hidx : (i * ny + j) * nz + k = i * (ny * nz) + (j * nz + k) := by
    rw [Nat.add_mul, Nat.mul_assoc, Nat.add_assoc]
  have hr : j * nz + k < ny * nz := by
    calc j * nz + k < j * nz + nz := by omega
      _ = (j + 1) * nz := by rw [Nat.succ_mul]
      _ ≤ ny * nz := Nat.mul_le_mul_right nz hj
  rw [hidx, flatMap_range_getElem? nx (ny * nz) _ hrow i (j * nz + k) hi hr]
  rw [flatMap_range_getElem? ny nz _ (fun j _ => by simp) j k hj hk]
  simp [hk]

section Accumulate
variable {α : Type}

theorem accumulate_length (op : α → α → α) (ms : List (List α)) (init : List α)
    (h : ∀ m ∈ ms, m.length = init.length) : (accumulate op init ms).length = init.length := by
  induction ms generalizing init with
  | nil => rfl
  | cons m ms ih =>
    have hm : m.length = init.length := h m (by simp)
    have hz : (List.zipWith op init m).length = init.length := by simp [hm]
    simp only [accumulate, List.foldl_cons]
    have := ih (List.zipWith op init m) (fun m' hm' => by rw [hz]; exact h m' (by simp [hm']))
    simpa [accumulate, hz] using this

/-- the accumulation loop acts on every voxel on its own: voxel `p` of the result is the fold of
`op` over voxel `p` of the masks -/
theorem accumulate_getElem? (op : α → α → α) (d : α) (ms : List (List α)) (init : List α)
    (h : ∀ m ∈ ms, m.length = init.length) (p : Nat) (hp : p < init.length) :
    (accumulate op init ms)[p]? = some ((ms.map fun m => m.getD p d).foldl op (init.getD p d)) := by
  induction ms generalizing init with
  | nil => simp [accumulate, List.getD, List.getElem?_eq_getElem hp]
  | cons m ms ih =>
    have hm : m.length = init.length := h m (by simp)
    have hz : (List.zipWith op init m).length = init.length := by simp [hm]
    have hstep := ih (List.zipWith op init m) (fun m' hm' => by rw [hz]; exact h m' (by simp [hm'])) (by rw [hz]; exact hp)
    simp only [accumulate, List.foldl_cons, List.map_cons] at hstep ⊢
    rw [hstep]
    congr 2
    have hpm : p < m.length := by omega
    simp [List.getD, List.getElem?_zipWith, List.getElem?_eq_getElem hp, List.getElem?_eq_getElem hpm]

theorem sameShape_spec (ms : List (List α)) (h : sameShape ms = true) :
    ∀ m ∈ ms, m.length = (ms.headD []).length := by
  intro m hm
  simp only [sameShape, List.all_eq_true] at h
  simpa using h m hm

end Accumulate
end CryoCat.C13
