import CryoCat.Lemmas.C02_Parse
/-! C02 — helper lemmas, part 3: one round of the block loop, then all blocks of a document. -/
namespace CryoCat.C02

theorem stops_of_nc (a : List Tok) (h : ∀ t ∈ a, isNC t = true) : Stops a := by
  cases a with
  | nil => exact Or.inl rfl
  | cons t r => exact Or.inr ⟨t, r, rfl, h t (by simp)⟩

theorem stops_append (a r : List Tok) (h : ∀ t ∈ a, isNC t = true) (hne : a ≠ []) : Stops (a ++ r) := by
  cases a with
  | nil => exact absurd rfl hne
  | cons t a => exact Or.inr ⟨t, a ++ r, rfl, h t (by simp)⟩

theorem nc_not_prop {t : Tok} (h : isNC t = true) : ∀ w, t ≠ .prop w := by
  intro w e; subst e; simp [isNC] at h

/-- tokens after the labels start with something that is not a label -/
theorem after_labels_head (Q : List Tok) (hQ : ∀ t ∈ Q, isNC t = true) (n : Nat) (hn : n ≠ 0)
    (rs : List (List Word)) (hrs : ∀ ws ∈ rs, ws.length = n) (after : List Tok) (ha : Stops after)
    (hne : rs = [] → Q ++ after ≠ []) :
    ∃ t r, Q ++ ((rs.map rowToks).flatten ++ after) = t :: r ∧ ∀ w, t ≠ .prop w := by
  cases Q with
  | cons t Q => exact ⟨t, _, rfl, nc_not_prop (hQ t (by simp))⟩
  | nil =>
    cases rs with
    | cons ws rs =>
      have hl := hrs ws (by simp)
      cases ws with
      | nil => simp at hl; exact absurd hl.symm hn
      | cons w ws => exact ⟨.lit w, ws.map .lit ++ .newline :: ((rs.map rowToks).flatten ++ after), by simp [rowToks], by intro v e; cases e⟩
    | nil =>
      have hne' := hne rfl
      rcases ha with rfl | ⟨t, r', rfl, ht⟩
      · simp at hne'
      · exact ⟨t, r', by simp, nc_not_prop ht⟩

theorem rows_head_lit (n : Nat) (hn : n ≠ 0) (ws : List Word) (rs : List (List Word)) (hl : ws.length = n) (after : List Tok) :
    ∃ w r, ((ws :: rs).map rowToks).flatten ++ after = .lit w :: r := by
  cases ws with
  | nil => simp at hl; exact absurd hl.symm hn
  | cons w ws => exact ⟨w, ws.map .lit ++ .newline :: ((rs.map rowToks).flatten ++ after), by simp [rowToks]⟩

/-- one round of the `while lookahead` loop on the tokens of one block -/
theorem block_step (P N Q : List Tok) (hP : ∀ t ∈ P, isNC t = true) (hN : ∀ t ∈ N, isNC t = true)
    (hQ : ∀ t ∈ Q, isNC t = true) (name : Word) (cols : List Word) (tls : List (List Char))
    (hlen : cols.length = tls.length) (hcols : cols ≠ []) (rs : List (List Word))
    (hrs : ∀ ws ∈ rs, ws.length = cols.length) (after : List Tok) (ha : Stops after)
    (hne : rs = [] → (∀ t ∈ after, isNC t = true) ∧ Q ++ after ≠ []) (fuel : Nat) :
    blocksGo (fuel + 1) (P ++ .lit name :: (N ++ .loop :: .newline ::
        ((List.zipWith labelToks cols tls).flatten ++ (Q ++ ((rs.map rowToks).flatten ++ after))))) =
      match blocksGo fuel (if rs = [] then [] else after) with
      | .ok bs => .ok ({ name := name, cols := cols, rows := rs } :: bs)
      | .error e => .error e := by
  have hn : cols.length ≠ 0 := by simpa using hcols
  obtain ⟨t, r, htr, htp⟩ := after_labels_head Q hQ cols.length hn rs hrs after ha (fun h => (hne h).2)
  have hrows : parseRows cols.length (Q ++ ((rs.map rowToks).flatten ++ after)) = .ok (rs, if rs = [] then [] else after) := by
    unfold parseRows
    rw [skipNC_append Q _ hQ]
    cases rs with
    | nil =>
      have hall := (hne rfl).1
      simp only [List.map_nil, List.flatten_nil, List.nil_append, if_true]
      rw [skipNC_all after hall, rowsGo_stop _ hn _ _ (Or.inl rfl)]; rfl
    | cons ws rs' =>
      obtain ⟨w, r', hw⟩ := rows_head_lit cols.length hn ws rs' (hrs ws (by simp)) after
      rw [hw, skipNC_stop _ _ (by rfl), ← hw, rowsGo_rows _ _ hrs, rowsGo_stop _ hn _ _ ha]
      simp
  rw [blocksGo]
  have hlook : lookaheadLit (P ++ .lit name :: (N ++ .loop :: .newline ::
        ((List.zipWith labelToks cols tls).flatten ++ (Q ++ ((rs.map rowToks).flatten ++ after))))) = true := by
    unfold lookaheadLit
    rw [skipNC_append P _ hP, skipNC_stop _ _ (by rfl)]
  rw [hlook]
  simp only [if_true]
  have hspec : parseSpecifier (P ++ .lit name :: (N ++ .loop :: .newline ::
        ((List.zipWith labelToks cols tls).flatten ++ (Q ++ ((rs.map rowToks).flatten ++ after))))) =
        .ok (name, N ++ .loop :: .newline ::
        ((List.zipWith labelToks cols tls).flatten ++ (Q ++ ((rs.map rowToks).flatten ++ after)))) := by
    unfold parseSpecifier
    rw [skipNC_append P _ hP, skipNC_stop _ _ (by rfl)]
  rw [hspec]
  have hcolsP : parseColumns (N ++ .loop :: .newline ::
        ((List.zipWith labelToks cols tls).flatten ++ (Q ++ ((rs.map rowToks).flatten ++ after)))) =
        .ok (cols, Q ++ ((rs.map rowToks).flatten ++ after)) := by
    unfold parseColumns
    rw [skipNC_append N _ hN, skipNC_stop _ _ (by rfl)]
    simp only
    rw [htr, parseLabels_labels cols tls hlen t r htp]
  simp only [hcolsP, hrows]
  rcases blocksGo fuel (if rs = [] then [] else after) with e | bs <;> rfl

end CryoCat.C02
