import CryoCat.Lemmas.C20_Spec
import Mathlib.Analysis.SpecialFunctions.Trigonometric.Basic
import Mathlib.Analysis.SpecialFunctions.Sqrt
/-! C20 — the abstract angle `(c, t)` of the cone theorems is realised by `cos θ`, `tan θ` for every
real half-angle `0 < θ < π/2`, and the abstract square root by `Real.sqrt`. -/
namespace CryoCat.C20
open Real

theorem real_angle (θ : ℝ) (h0 : 0 < θ) (h1 : θ < π / 2) :
    0 < cos θ ∧ cos θ * cos θ * (1 + tan θ * tan θ) = 1 := by
  have hc : 0 < cos θ := cos_pos_of_mem_Ioo ⟨by linarith, h1⟩
  refine ⟨hc, ?_⟩
  rw [tan_eq_sin_div_cos]
  field_simp
  nlinarith [sin_sq_add_cos_sq θ]

theorem real_sqrt_nonneg (x : ℝ) : 0 ≤ Real.sqrt x := Real.sqrt_nonneg x
theorem real_sqrt_mul_self (x : ℝ) (h : 0 ≤ x) : Real.sqrt x * Real.sqrt x = x := Real.mul_self_sqrt h

end CryoCat.C20
