import CryoCat.Model.C03
/-! C03 — the `$xxx` / `$yyy` substitution of `prepare_particles_data` on formats of the documented shape. Core Lean only. -/
namespace CryoCat.C03

/-- `s` is empty or starts with a character other than `c` -/
def NotHead (c : Char) (s : List Char) : Prop := s = [] ∨ ∃ h t, s = h :: t ∧ h ≠ c

theorem runLen_of_notHead (c : Char) (s : List Char) (h : NotHead c s) : runLen c s = 0 := by
  rcases h with rfl | ⟨h, t, rfl, hne⟩
  · rfl
  · simp [runLen, hne]

theorem notHead_of_runLen (c : Char) (s : List Char) (h : runLen c s = 0) : NotHead c s := by
  cases s with
  | nil => exact Or.inl rfl
  | cons a t =>
    refine Or.inr ⟨a, t, rfl, ?_⟩
    intro e; subst e; simp [runLen] at h

theorem notHead_append (c : Char) (t s : List Char) (ht : NotHead c t) (hs : NotHead c s) : NotHead c (t ++ s) := by
  rcases ht with rfl | ⟨h, t', rfl, hne⟩
  · simpa using hs
  · exact Or.inr ⟨h, t' ++ s, rfl, hne⟩

theorem runLen_replicate (c : Char) (k : Nat) (rest : List Char) (hr : NotHead c rest) :
    runLen c (List.replicate k c ++ rest) = k := by
  induction k with
  | zero => simpa using runLen_of_notHead c rest hr
  | succ k ih => simp [List.replicate_succ, runLen, ih]

/-- a prefix without any `$c…` sequence does not change the longest sequence of what follows -/
theorem longestSeq_append (c : Char) (pre s : List Char) (hpre : longestSeq c pre = 0) (hs : NotHead c s) :
    longestSeq c (pre ++ s) = longestSeq c s := by
  induction pre with
  | nil => rfl
  | cons h t ih =>
    simp only [List.cons_append, longestSeq] at hpre ⊢
    by_cases hd : h = '$'
    · simp only [hd, if_true] at hpre ⊢
      have h1 : runLen c t = 0 := by omega
      have h2 : longestSeq c t = 0 := by omega
      rw [runLen_of_notHead c _ (notHead_append c t s (notHead_of_runLen c t h1) hs), ih h2]
      omega
    · simp only [hd, if_false] at hpre ⊢
      exact ih hpre

theorem longestSeq_replicate (c : Char) (hc : c ≠ '$') (k : Nat) (rest : List Char) :
    longestSeq c (List.replicate k c ++ rest) = longestSeq c rest := by
  induction k with
  | zero => rfl
  | succ k ih => simp [List.replicate_succ, longestSeq, hc, ih]

/-- the longest `$c…` sequence of `pre $ccc rest` when neither `pre` nor `rest` holds another one -/
theorem longestSeq_shape (c : Char) (hc : c ≠ '$') (k : Nat) (pre rest : List Char)
    (hpre : longestSeq c pre = 0) (hrest : longestSeq c rest = 0) (hr : NotHead c rest) :
    longestSeq c (pre ++ '$' :: (List.replicate k c ++ rest)) = k := by
  rw [longestSeq_append c pre _ hpre (Or.inr ⟨'$', _, rfl, fun e => hc e.symm⟩)]
  simp only [longestSeq, if_true, runLen_replicate c k rest hr, longestSeq_replicate c hc, hrest]
  omega

theorem replaceSeq_skip (c : Char) (k : Nat) (rep : List Char) (j : Nat) (s rest : List Char) (hj : s.length = j) :
    replaceSeq c k rep j (s ++ rest) = replaceSeq c k rep 0 rest := by
  induction s generalizing j with
  | nil => subst hj; rfl
  | cons a t ih =>
    cases j with
    | zero => simp at hj
    | succ j => simp only [List.cons_append, replaceSeq]; exact ih j (by simpa using hj)

/-- text without a `$c…` sequence is copied unchanged, also in front of anything not starting with `c` -/
theorem replaceSeq_append (c : Char) (k : Nat) (hk : 0 < k) (rep pre s : List Char) (hpre : longestSeq c pre = 0)
    (hs : NotHead c s) : replaceSeq c k rep 0 (pre ++ s) = pre ++ replaceSeq c k rep 0 s := by
  induction pre with
  | nil => rfl
  | cons h t ih =>
    simp only [List.cons_append, longestSeq] at hpre ⊢
    by_cases hd : h = '$'
    · simp only [hd, if_true] at hpre
      have h1 : runLen c t = 0 := by omega
      have h2 : longestSeq c t = 0 := by omega
      have h3 : runLen c (t ++ s) = 0 := runLen_of_notHead c _ (notHead_append c t s (notHead_of_runLen c t h1) hs)
      have : ¬ (h = '$' ∧ k ≤ runLen c (t ++ s)) := by rw [h3]; intro hh; omega
      simp only [replaceSeq, this, if_false, ih h2]
    · have : ¬ (h = '$' ∧ k ≤ runLen c (t ++ s)) := fun hh => hd hh.1
      simp only [hd, if_false] at hpre
      simp only [replaceSeq, this, if_false, ih hpre]

theorem replaceSeq_none (c : Char) (k : Nat) (hk : 0 < k) (rep s : List Char) (hs : longestSeq c s = 0) :
    replaceSeq c k rep 0 s = s := by
  have := replaceSeq_append c k hk rep s [] hs (Or.inl rfl)
  simpa [replaceSeq] using this

/-- **the substitution on a documented format**: `pre $ccc rest` (k ≥ 1 letters, no other `$c…` sequence) becomes
`pre <number padded to k digits> rest` -/
theorem fillFormat_shape (c : Char) (hc : c ≠ '$') (k : Nat) (hk : 0 < k) (pre rest : List Char) (n : Nat)
    (hpre : longestSeq c pre = 0) (hrest : longestSeq c rest = 0) (hr : NotHead c rest) :
    fillFormat (pre ++ '$' :: (List.replicate k c ++ rest)) c n = some (pre ++ zfill k (Nat.toDigits 10 n) ++ rest) := by
  unfold fillFormat
  simp only [longestSeq_shape c hc k pre rest hpre hrest hr]
  rw [if_neg (by omega)]
  rw [replaceSeq_append c k hk _ pre _ hpre (Or.inr ⟨'$', _, rfl, fun e => hc e.symm⟩)]
  have : replaceSeq c k (zfill k (Nat.toDigits 10 n)) 0 ('$' :: (List.replicate k c ++ rest))
      = zfill k (Nat.toDigits 10 n) ++ replaceSeq c k (zfill k (Nat.toDigits 10 n)) k (List.replicate k c ++ rest) := by
    simp [replaceSeq, runLen_replicate c k rest hr]
  rw [this, replaceSeq_skip c k _ k (List.replicate k c) rest (by simp), replaceSeq_none c k hk _ rest hrest]
  simp [List.append_assoc]

end CryoCat.C03

namespace CryoCat.C03

theorem longestSeq_noDollar (c : Char) (s : List Char) (h : ∀ d ∈ s, d ≠ '$') : longestSeq c s = 0 := by
  induction s with
  | nil => rfl
  | cons a t ih =>
    have ha : a ≠ '$' := h a (by simp)
    simp only [longestSeq, ha, if_false]
    exact ih (fun d hd => h d (by simp [hd]))

theorem longestSeq_replicate' (d c : Char) (hc : c ≠ '$') (k : Nat) (rest : List Char) :
    longestSeq d (List.replicate k c ++ rest) = longestSeq d rest := by
  induction k with
  | zero => rfl
  | succ k ih => simp [List.replicate_succ, longestSeq, hc, ih]

/-- a `$ccc` sequence of another letter is not a `$ddd` sequence -/
theorem longestSeq_other (c d : Char) (hcd : c ≠ d) (hc : c ≠ '$') (hd : d ≠ '$') (k : Nat) (hk : 0 < k)
    (a b : List Char) (ha : ∀ e ∈ a, e ≠ '$') (hb : longestSeq d b = 0) :
    longestSeq d (a ++ '$' :: (List.replicate k c ++ b)) = 0 := by
  rw [longestSeq_append d a _ (longestSeq_noDollar d a ha) (Or.inr ⟨'$', _, rfl, fun e => hd e.symm⟩)]
  have hrun : runLen d (List.replicate k c ++ b) = 0 := by
    cases k with
    | zero => omega
    | succ k => simp [List.replicate_succ, runLen, hcd]
  simp only [longestSeq, if_true, hrun, longestSeq_replicate' d c hc, hb]
  omega

end CryoCat.C03
