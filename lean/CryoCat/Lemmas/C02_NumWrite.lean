import CryoCat.Lemmas.C02_Num
/-! C02 — helper lemmas, part 8: the cells the writer prints for numbers are tokens of the number
grammar (and well-formed cells), text cells outside the grammar are not; typing of written columns.
Core Lean only. -/
namespace CryoCat.C02

def signOf (neg : Bool) : Sign := if neg then .minus else .none

theorem signText_eq (neg : Bool) : signText neg = (signOf neg).text := by cases neg <;> rfl

theorem expDigits_ok (e : Nat) : expDigits e ≠ [] ∧ AllDigits (expDigits e) := by
  unfold expDigits
  split
  · refine ⟨by simp, ?_⟩
    intro c hc
    simp only [List.mem_cons] at hc
    rcases hc with rfl | hc
    · decide
    · exact natDigits_all e c hc
  · exact ⟨natDigits_ne e, natDigits_all e⟩

/-! ### `str(int)` -/

theorem intStr_dec (n : Int) : DecTok (intStr n) := by
  cases n with
  | ofNat k =>
    exact ⟨⟨.none, natDigits k, none, none⟩, ⟨natDigits_all k, by simp, Or.inl (natDigits_ne k), by simp⟩,
      by simp [intStr, Dec.text, Sign.text, fracText, expText]⟩
  | negSucc k =>
    exact ⟨⟨.minus, natDigits (k + 1), none, none⟩, ⟨natDigits_all _, by simp, Or.inl (natDigits_ne _), by simp⟩,
      by simp [intStr, Dec.text, Sign.text, fracText, expText]⟩

/-! ### `repr(float)` -/

theorem take_one_ne {ds : Word} (h : ds ≠ []) : ds.take 1 ≠ [] := by
  cases ds with
  | nil => exact absurd rfl h
  | cons c r => simp

theorem floatBody_dec (s : Sign) (ds : Word) (decpt : Int) (hne : ds ≠ []) (hd : AllDigits ds) :
    DecTok (s.text ++ floatBody ds decpt) := by
  unfold floatBody
  split
  · -- exponent form
    have he := expDigits_ok (decpt - 1).natAbs
    by_cases hl : ds.length > 1
    · refine ⟨⟨s, ds.take 1, some (ds.drop 1), some ('e', if decpt - 1 < 0 then .minus else .plus, expDigits (decpt - 1).natAbs)⟩,
        ⟨allDigits_take 1 hd, ?_, Or.inl (take_one_ne hne), ?_⟩, ?_⟩
      · intro fp e; cases e; exact allDigits_drop 1 hd
      · intro c s' x e; cases e; exact ⟨Or.inl rfl, he.1, he.2⟩
      · simp only [Dec.text, fracText, expText, hl, if_true]
        split <;> simp [Sign.text]
    · refine ⟨⟨s, ds.take 1, none, some ('e', if decpt - 1 < 0 then .minus else .plus, expDigits (decpt - 1).natAbs)⟩,
        ⟨allDigits_take 1 hd, by simp, Or.inl (take_one_ne hne), ?_⟩, ?_⟩
      · intro c s' x e; cases e; exact ⟨Or.inl rfl, he.1, he.2⟩
      · simp only [Dec.text, fracText, expText, hl, if_false]
        split <;> simp [Sign.text]
  · split
    · -- 0.000ddd
      refine ⟨⟨s, ['0'], some (zeros (-decpt).toNat ++ ds), none⟩, ⟨by intro c hc; simp at hc; rw [hc]; decide, ?_, Or.inl (by simp), by simp⟩, ?_⟩
      · intro fp e; cases e; exact allDigits_append (zeros_all _) hd
      · simp [Dec.text, fracText, expText]
    · split
      · -- ddd000.0
        refine ⟨⟨s, ds ++ zeros (decpt.toNat - ds.length), some ['0'], none⟩,
          ⟨allDigits_append hd (zeros_all _), ?_, Or.inr ⟨['0'], rfl, by simp⟩, by simp⟩, ?_⟩
        · intro fp e; cases e; intro c hc; simp at hc; rw [hc]; decide
        · simp [Dec.text, fracText, expText]
      · -- dd.ddd
        rename_i hlen
        refine ⟨⟨s, ds.take decpt.toNat, some (ds.drop decpt.toNat), none⟩,
          ⟨allDigits_take _ hd, ?_, Or.inr ⟨ds.drop decpt.toNat, rfl, ?_⟩, by simp⟩, ?_⟩
        · intro fp e; cases e; exact allDigits_drop _ hd
        · intro h0
          have := congrArg List.length h0
          simp only [List.length_drop, List.length_nil] at this
          omega
        · simp [Dec.text, fracText, expText]

theorem floatRepr_dec (neg : Bool) (ds : Word) (decpt : Int) (hne : ds ≠ []) (hd : AllDigits ds) :
    DecTok (floatRepr neg ds decpt) := by
  unfold floatRepr
  rw [signText_eq]
  exact floatBody_dec _ ds decpt hne hd

theorem infStr_inf (neg : Bool) : InfTok (floatStr (.inf neg)) :=
  ⟨signOf neg, ['i', 'n', 'f'], by decide, by simp [floatStr, signText_eq]⟩

/-! ### tokens of the grammar are well-formed cells -/

/-- the characters a number token can contain -/
def numChar (c : Char) : Bool :=
  isDigit c || c == '+' || c == '-' || c == '.' || c == 'e' || c == 'E' || infLetter c

theorem numChar_of_digit {c : Char} (h : isDigit c = true) : numChar c = true := by simp [numChar, h]

theorem sign_chars (s : Sign) : ∀ c ∈ s.text, numChar c = true := by
  cases s <;> simp [Sign.text] <;> decide

theorem dec_chars (d : Dec) (h : d.Ok) : ∀ c ∈ d.text, numChar c = true := by
  obtain ⟨hip, hfp, _, hexp⟩ := h
  intro c hc
  simp only [Dec.text, List.mem_append] at hc
  rcases hc with hc | ⟨hc | hc⟩ | hc
  · exact sign_chars _ c hc
  · exact numChar_of_digit (hip c hc)
  · cases hf : d.frac with
    | none => simp [hf, fracText] at hc
    | some fp =>
      simp only [hf, fracText, List.mem_cons] at hc
      rcases hc with rfl | hc
      · decide
      · exact numChar_of_digit (hfp fp hf c hc)
  · cases he : d.exp with
    | none => simp [he, expText] at hc
    | some t =>
      obtain ⟨c', s, x⟩ := t
      obtain ⟨hc', _, hx⟩ := hexp c' s x he
      simp only [he, expText, List.mem_cons, List.mem_append] at hc
      rcases hc with rfl | hc | hc
      · rcases hc' with rfl | rfl <;> decide
      · exact sign_chars _ c hc
      · exact numChar_of_digit (hx c hc)

theorem numTok_chars (w : Word) (h : NumTok w) : ∀ c ∈ w, numChar c = true := by
  rcases h with ⟨d, hd, rfl⟩ | ⟨s, b, hb, rfl⟩
  · exact dec_chars d hd
  · intro c hc
    rcases List.mem_append.1 hc with h | h
    · exact sign_chars _ c h
    · simp [numChar, (infBody_letters b hb).2 c h]

theorem numTok_ne_nil (w : Word) (h : NumTok w) : w ≠ [] := by
  rcases h with ⟨d, hd, rfl⟩ | ⟨s, b, hb, rfl⟩
  · obtain ⟨c, r, hcr, _⟩ := mantissa_head d.ip d.frac hd.1 hd.2.2.1 (expText d.exp)
    simp [Dec.text, hcr]
  · simp [(infBody_letters b hb).1]

theorem numChar_plain {c : Char} (h : numChar c = true) :
    isWs c = false ∧ c ≠ '#' ∧ c ≠ '\n' ∧ c ≠ '_' ∧ c ≠ 'l' := by
  simp only [numChar, infLetter, isDigit, Bool.or_eq_true, Bool.and_eq_true, beq_iff_eq, decide_eq_true_eq] at h
  have hd : ∀ c : Char, ('0' ≤ c ∧ c ≤ '9') → isWs c = false ∧ c ≠ '#' ∧ c ≠ '\n' ∧ c ≠ '_' ∧ c ≠ 'l' := by
    intro c ⟨h1, h2⟩
    have h1' : 48 ≤ c.val.toNat := by simpa [Char.le_def, UInt32.le_iff_toNat_le] using h1
    have h2' : c.val.toNat ≤ 57 := by simpa [Char.le_def, UInt32.le_iff_toNat_le] using h2
    have hne : ∀ d : Char, (d.val.toNat < 48 ∨ 57 < d.val.toNat) → c ≠ d := by
      intro d hd e; subst e; omega
    refine ⟨?_, hne _ (by decide), hne _ (by decide), hne _ (by decide), hne _ (by decide)⟩
    have e : c.toNat = c.val.toNat := rfl
    exact isWs_false_of_ascii (by omega) (by omega)
  rcases h with ((((((h | h) | h) | h) | h) | h) | h)
  · exact hd c h
  all_goals first
    | (subst h; decide)
    | (rcases h with (((((((((h | h) | h) | h) | h) | h) | h) | h) | h) | h) <;> (subst h; decide))

/-- every token of the number grammar is a cell the round trip is claimed for -/
theorem numTok_cellOk (w : Word) (h : NumTok w) : CellOk w := by
  have hc := numTok_chars w h
  have hne := numTok_ne_nil w h
  refine ⟨⟨hne, fun c hcw => ⟨(numChar_plain (hc c hcw)).1, (numChar_plain (hc c hcw)).2.1, (numChar_plain (hc c hcw)).2.2.1⟩⟩, ?_, ?_⟩
  · obtain ⟨c, r, rfl⟩ := List.exists_cons_of_ne_nil hne
    simp only [List.head?_cons, ne_eq, Option.some.injEq]
    exact (numChar_plain (hc c (by simp))).2.2.2.1
  · intro e
    have := hc 'l' (by rw [e]; simp)
    exact (numChar_plain this).2.2.2.2 rfl

/-- a word containing a character no number can contain is text -/
theorem not_numTok_of_char (w : Word) (c : Char) (hc : c ∈ w) (h : numChar c = false) : ¬ NumTok w := by
  intro hn
  rw [numTok_chars w hn c hc] at h
  cases h

/-! ### cells -/

/-- cells the writer is given: any integer, a float with a non-empty digit string, a text cell of the
property's quantifier -/
def CellWF : Cell → Prop
  | .int _ => True
  | .flt (.fin _ ds _) => ds ≠ [] ∧ AllDigits ds
  | .flt _ => True
  | .txt w => CellOk w

/-- written from a number (`nan` is a float that is *not* a number for the reader) -/
def Cell.isNumber : Cell → Bool
  | .int _ => true
  | .flt (.fin _ _ _) => true
  | .flt (.inf _) => true
  | .flt .nan => false
  | .txt w => isNumTok w

theorem nan_not_num : isNumTok ['n', 'a', 'n'] = false := by decide

theorem cell_numeric_iff (c : Cell) (h : CellWF c) : isNumTok (cellText c) = true ↔ c.isNumber = true := by
  cases c with
  | int n => simp [cellText, Cell.isNumber, (isNumTok_iff _).2 (Or.inl (intStr_dec n))]
  | flt f =>
    cases f with
    | fin neg ds decpt => simp [cellText, floatStr, Cell.isNumber, (isNumTok_iff _).2 (Or.inl (floatRepr_dec neg ds decpt h.1 h.2))]
    | inf neg => simp [cellText, Cell.isNumber, (isNumTok_iff _).2 (Or.inr (infStr_inf neg))]
    | nan => simp [cellText, floatStr, Cell.isNumber, nan_not_num]
  | txt w => simp [cellText, Cell.isNumber]

theorem cellText_ok (c : Cell) (h : CellWF c) : CellOk (cellText c) := by
  cases c with
  | int n => exact numTok_cellOk _ (Or.inl (intStr_dec n))
  | flt f =>
    cases f with
    | fin neg ds decpt => exact numTok_cellOk _ (Or.inl (floatRepr_dec neg ds decpt h.1 h.2))
    | inf neg => exact numTok_cellOk _ (Or.inr (infStr_inf neg))
    | nan => exact (by decide : CellOk ['n', 'a', 'n'])
  | txt w => exact h

/-- typed tables the round trip is claimed for -/
def TBlockOk (b : TBlock) : Prop :=
  CellOk b.name ∧ b.cols ≠ [] ∧ (∀ c ∈ b.cols, ColNameOk c) ∧
  ∀ r ∈ b.rows, r.length = b.cols.length ∧ ∀ c ∈ r, CellWF c

theorem texts_ok (b : TBlock) (h : TBlockOk b) : BlockOk b.texts := by
  obtain ⟨hn, hc, hcn, hr⟩ := h
  refine ⟨hn, hc, hcn, ?_⟩
  intro r hr'
  simp only [TBlock.texts, List.mem_map] at hr'
  obtain ⟨r0, hr0, rfl⟩ := hr'
  refine ⟨by simpa [TBlock.texts] using (hr r0 hr0).1, ?_⟩
  intro w hw
  obtain ⟨c, hc', rfl⟩ := List.mem_map.1 hw
  exact cellText_ok c ((hr r0 hr0).2 c hc')

/-- the column of texts printed for a column of typed cells is numeric iff every cell was a number -/
theorem typed_column (rows : List (List Cell)) (j : Nat) (hj : ∀ r ∈ rows, j < r.length)
    (hwf : ∀ r ∈ rows, ∀ c ∈ r, CellWF c) :
    colNumeric isNumTok (rows.map (fun r => r.map cellText)) j = true ↔
      rows ≠ [] ∧ ∀ r ∈ rows, ∀ c, r[j]? = some c → c.isNumber = true := by
  simp only [colNumeric, column, Bool.and_eq_true, Bool.not_eq_eq_eq_not, Bool.not_true, List.isEmpty_eq_false_iff,
    List.all_eq_true, List.mem_map, List.map_map, Function.comp]
  constructor
  · rintro ⟨hne, hall⟩
    refine ⟨by simpa using hne, ?_⟩
    intro r hr c hc
    have hlt := hj r hr
    have hget : r[j] = c := by
      have := List.getElem?_eq_getElem hlt
      rw [this] at hc; exact Option.some.inj hc
    have h1 := hall _ ⟨r, hr, rfl⟩
    have h2 : (r.map cellText).getD j [] = cellText c := by
      simp [List.getD_eq_getElem?_getD, List.getElem?_map, List.getElem?_eq_getElem hlt, hget]
    rw [h2] at h1
    exact (cell_numeric_iff c (hwf r hr c (hget ▸ List.getElem_mem hlt))).1 h1
  · rintro ⟨hne, hall⟩
    refine ⟨by simpa using hne, ?_⟩
    rintro w ⟨r, hr, rfl⟩
    have hlt := hj r hr
    have h2 : (r.map cellText).getD j [] = cellText r[j] := by
      simp [List.getD_eq_getElem?_getD, List.getElem?_map, List.getElem?_eq_getElem hlt]
    rw [h2]
    exact (cell_numeric_iff _ (hwf r hr _ (List.getElem_mem hlt))).2 (hall r hr _ (List.getElem?_eq_getElem hlt))

end CryoCat.C02
