import CryoCat.Model.C14
import CryoCat.Lemmas.M3
/-! helper lemmas for C14: index algebra, nested-list plumbing, clipping formulas -/
namespace CryoCat.C14
variable {α : Type}

/-! ### coordinate law over any commutative ring -/
section ring
variable {K : Type} [CommRing K]

theorem v3_add_sub_cancel (c w : V3 K) : (c + w) - c = w := by
  ext <;> simp [V3.add_def, V3.sub_def, V3.add, V3.sub]

theorem v3_add_sub (c o : V3 K) : c + (o - c) = o := by
  ext <;> simp [V3.add_def, V3.sub_def, V3.add, V3.sub]

theorem orth_apply_apply {R : M3 K} (h : R.Orth) (v : V3 K) : R.transpose.apply (R.apply v) = v := by
  rw [← M3.apply_mul]; unfold M3.Orth at h; rw [h, M3.apply_one]

theorem srcCoord_active_ring {R : M3 K} (h : R.Orth) (c v : V3 K) :
    srcCoord R.transpose c (c + R.apply v) = c + v := by
  unfold srcCoord; rw [v3_add_sub_cancel, orth_apply_apply h]

theorem srcCoord_inverse_ring {R : M3 K} (h : R.Orth) (c o : V3 K) :
    srcCoord R.transpose c (srcCoord R c o) = o := by
  unfold srcCoord; rw [v3_add_sub_cancel, orth_apply_apply h, v3_add_sub]

theorem srcCoord_mul (A B : M3 K) (c o : V3 K) : srcCoord (A * B) c o = srcCoord A c (srcCoord B c o) := by
  unfold srcCoord; rw [v3_add_sub_cancel, M3.apply_mul]
end ring

/-! ### nested lists -/
theorem inBox_iff (s : Shape) (p : V3 Int) :
    s.inBox p = true ↔ (0 ≤ p.x ∧ p.x < s.nx) ∧ (0 ≤ p.y ∧ p.y < s.ny) ∧ (0 ≤ p.z ∧ p.z < s.nz) := by
  simp [Shape.inBox, and_assoc]

private theorem range_map_get (n : Nat) (g : Nat → α) (i : Nat) (h : i < n) : ((List.range n).map g)[i]? = some (g i) := by
  simp [h]

theorem tab_get? (s : Shape) (f : V3 Int → α) (p : V3 Int) (h : s.inBox p = true) : (Vol.tab s f).get? p = some (f p) := by
  rw [inBox_iff] at h
  obtain ⟨⟨hx0, hx1⟩, ⟨hy0, hy1⟩, ⟨hz0, hz1⟩⟩ := h
  have hx : p.x.toNat < s.nx := by omega
  have hy : p.y.toNat < s.ny := by omega
  have hz : p.z.toNat < s.nz := by omega
  have e1 : ((p.x.toNat : Nat) : Int) = p.x := Int.toNat_of_nonneg hx0
  have e2 : ((p.y.toNat : Nat) : Int) = p.y := Int.toNat_of_nonneg hy0
  have e3 : ((p.z.toNat : Nat) : Int) = p.z := Int.toNat_of_nonneg hz0
  have hneg : ¬ (p.x < 0 ∨ p.y < 0 ∨ p.z < 0) := by omega
  unfold Vol.get? Vol.tab
  rw [if_neg hneg, range_map_get _ _ _ hx]
  simp only [Option.bind_some]
  rw [range_map_get _ _ _ hy]
  simp only [Option.bind_some]
  rw [range_map_get _ _ _ hz, e1, e2, e3]

/-- the driver's output plumbing: tabulating a voxel function and reading it back is the identity on the box -/
theorem tab_getD (s : Shape) (f : V3 Int → α) (d : α) (p : V3 Int) (h : s.inBox p = true) : (Vol.tab s f).getD d p = f p := by
  simp [Vol.getD, tab_get? s f p h]

theorem tab_shape (s : Shape) (f : V3 Int → α) (h : 0 < s.nx ∧ 0 < s.ny) : (Vol.tab s f).shape = s := by
  obtain ⟨hx, hy⟩ := h
  cases s with
  | mk nx ny nz =>
    simp only at hx hy
    obtain ⟨nx', rfl⟩ := Nat.exists_eq_succ_of_ne_zero (by omega : nx ≠ 0)
    obtain ⟨ny', rfl⟩ := Nat.exists_eq_succ_of_ne_zero (by omega : ny ≠ 0)
    simp [Vol.shape, Vol.tab, List.range_succ_eq_map]

/-! ### the clipping formulas of `get_start_end_indices` -/
theorem clip1_ok (start : Int) (V s : Nat) : (clip1 start V s).ok = true := by
  unfold Clip.ok
  rw [decide_eq_true_eq]
  simp only [clip1]; omega

/-- inside the requested window (`0 ≤ t < s`) the copied sub-block is exactly the part that lies in the volume -/
theorem clip1_sub_iff (start : Int) (V s : Nat) (t : Int) (h0 : 0 ≤ t) (h1 : t < s) :
    ((clip1 start V s).ss ≤ t ∧ t < (clip1 start V s).se) ↔ (0 ≤ start + t ∧ start + t < V) := by
  simp only [clip1]; omega

theorem clip1_toVol (start : Int) (V s : Nat) (t : Int) (h0 : 0 ≤ t) (h1 : t < s)
    (h : (clip1 start V s).ss ≤ t ∧ t < (clip1 start V s).se) :
    (clip1 start V s).vs + (t - (clip1 start V s).ss) = start + t := by
  simp only [clip1] at *; omega

/-- seen from the volume: the written block `[vs, ve)` is the part of the volume covered by the window -/
theorem clip1_vol_iff (start : Int) (V s : Nat) (p : Int) (h0 : 0 ≤ p) (h1 : p < V) :
    ((clip1 start V s).vs ≤ p ∧ p < (clip1 start V s).ve) ↔ (0 ≤ p - start ∧ p - start < s) := by
  simp only [clip1]; omega

theorem clip1_toSub (start : Int) (V s : Nat) (p : Int) (h0 : 0 ≤ p) (h1 : p < V)
    (h : (clip1 start V s).vs ≤ p ∧ p < (clip1 start V s).ve) :
    (clip1 start V s).ss + (p - (clip1 start V s).vs) = p - start := by
  simp only [clip1] at *; omega

/-- window fully inside the volume: nothing is clipped -/
theorem clip1_inside (start : Int) (V s : Nat) (h0 : 0 ≤ start) (h1 : start + s ≤ V) :
    clip1 start V s = ⟨start, start + s, 0, s⟩ := by
  simp only [clip1, Clip.mk.injEq]; omega

/-! ### `floor(coord - s/2)` -/
theorem startOf_spec (num : Int) (den s : Nat) (hd : 0 < den) :
    2 * (den : Int) * startOf num den s ≤ 2 * num - s * den ∧ 2 * num - s * den < 2 * (den : Int) * (startOf num den s + 1) := by
  have hpos : (0 : Int) < 2 * (den : Int) := by omega
  unfold startOf
  constructor
  · exact Int.mul_ediv_self_le (Int.ne_of_gt hpos)
  · have := Int.lt_mul_ediv_self_add (x := 2 * num - s * den) hpos
    rw [Int.mul_add, Int.mul_one]; exact this

theorem startOf_even (num : Int) (den h : Nat) (hd : 0 < den) : startOf num den (2 * h) = num / (den : Int) - h := by
  unfold startOf
  have hpos : (2 : Int) * (den : Int) ≠ 0 := by omega
  have e : 2 * num - ((2 * h : Nat) : Int) * den = 2 * num + (-(h : Int)) * (2 * (den : Int)) := by
    push_cast; ring
  rw [e, Int.add_mul_ediv_right _ _ hpos, Int.mul_ediv_mul_of_pos _ _ (by omega : (0 : Int) < 2)]
  ring

/-! ### three axes at once -/
theorem clip3_ok (start : V3 Int) (V s : Shape) : (clip3 start V s).ok = true := by
  simp [Clip3.ok, clip3, clip1_ok]

theorem v3_add_x (a b : V3 Int) : (a + b).x = a.x + b.x := rfl
theorem v3_add_y (a b : V3 Int) : (a + b).y = a.y + b.y := rfl
theorem v3_add_z (a b : V3 Int) : (a + b).z = a.z + b.z := rfl
theorem v3_sub_x (a b : V3 Int) : (a - b).x = a.x - b.x := rfl
theorem v3_sub_y (a b : V3 Int) : (a - b).y = a.y - b.y := rfl
theorem v3_sub_z (a b : V3 Int) : (a - b).z = a.z - b.z := rfl

theorem inSub_iff (c : Clip3) (t : V3 Int) :
    c.inSub t = true ↔ (c.x.ss ≤ t.x ∧ t.x < c.x.se) ∧ (c.y.ss ≤ t.y ∧ t.y < c.y.se) ∧ (c.z.ss ≤ t.z ∧ t.z < c.z.se) := by
  simp [Clip3.inSub, and_assoc]

theorem inVol_iff (c : Clip3) (p : V3 Int) :
    c.inVol p = true ↔ (c.x.vs ≤ p.x ∧ p.x < c.x.ve) ∧ (c.y.vs ≤ p.y ∧ p.y < c.y.ve) ∧ (c.z.vs ≤ p.z ∧ p.z < c.z.ve) := by
  simp [Clip3.inVol, and_assoc]

theorem clip3_inSub_iff (start : V3 Int) (V s : Shape) (t : V3 Int) (ht : s.inBox t = true) :
    (clip3 start V s).inSub t = true ↔ V.inBox (start + t) = true := by
  rw [inBox_iff] at ht
  obtain ⟨⟨hx0, hx1⟩, ⟨hy0, hy1⟩, ⟨hz0, hz1⟩⟩ := ht
  have ex := clip1_sub_iff start.x V.nx s.nx t.x hx0 hx1
  have ey := clip1_sub_iff start.y V.ny s.ny t.y hy0 hy1
  have ez := clip1_sub_iff start.z V.nz s.nz t.z hz0 hz1
  rw [inBox_iff, v3_add_x, v3_add_y, v3_add_z, ← ex, ← ey, ← ez, inSub_iff]
  rfl

theorem clip3_toVol (start : V3 Int) (V s : Shape) (t : V3 Int) (ht : s.inBox t = true)
    (h : (clip3 start V s).inSub t = true) : (clip3 start V s).toVol t = start + t := by
  rw [inBox_iff] at ht
  obtain ⟨⟨hx0, hx1⟩, ⟨hy0, hy1⟩, ⟨hz0, hz1⟩⟩ := ht
  rw [inSub_iff] at h
  obtain ⟨⟨a1, a2⟩, ⟨b1, b2⟩, c1, c2⟩ := h
  ext
  · exact clip1_toVol start.x V.nx s.nx t.x hx0 hx1 ⟨a1, a2⟩
  · exact clip1_toVol start.y V.ny s.ny t.y hy0 hy1 ⟨b1, b2⟩
  · exact clip1_toVol start.z V.nz s.nz t.z hz0 hz1 ⟨c1, c2⟩

theorem clip3_inVol_iff (start : V3 Int) (C os : Shape) (p : V3 Int) (hp : C.inBox p = true) :
    (clip3 start C os).inVol p = true ↔ os.inBox (p - start) = true := by
  rw [inBox_iff] at hp
  obtain ⟨⟨hx0, hx1⟩, ⟨hy0, hy1⟩, ⟨hz0, hz1⟩⟩ := hp
  have ex := clip1_vol_iff start.x C.nx os.nx p.x hx0 hx1
  have ey := clip1_vol_iff start.y C.ny os.ny p.y hy0 hy1
  have ez := clip1_vol_iff start.z C.nz os.nz p.z hz0 hz1
  rw [inBox_iff, v3_sub_x, v3_sub_y, v3_sub_z, ← ex, ← ey, ← ez, inVol_iff]
  rfl

theorem clip3_toSub (start : V3 Int) (C os : Shape) (p : V3 Int) (hp : C.inBox p = true)
    (h : (clip3 start C os).inVol p = true) : (clip3 start C os).toSub p = p - start := by
  rw [inBox_iff] at hp
  obtain ⟨⟨hx0, hx1⟩, ⟨hy0, hy1⟩, ⟨hz0, hz1⟩⟩ := hp
  rw [inVol_iff] at h
  obtain ⟨⟨a1, a2⟩, ⟨b1, b2⟩, c1, c2⟩ := h
  ext
  · exact clip1_toSub start.x C.nx os.nx p.x hx0 hx1 ⟨a1, a2⟩
  · exact clip1_toSub start.y C.ny os.ny p.y hy0 hy1 ⟨b1, b2⟩
  · exact clip1_toSub start.z C.nz os.nz p.z hz0 hz1 ⟨c1, c2⟩

/-! ### stamping -/
theorem stamp_spec_aux (C os : Shape) (g : V3 Int → α) (st : Stamp α) :
    ∃ g', stampF C g os st = some g' ∧
      ∀ p, C.inBox p = true → g' p = if covers os st p = true then st.color else g p := by
  refine ⟨fun p => if (clip3 st.start C os).inVol p = true then (if st.mask ((clip3 st.start C os).toSub p) = true then st.color else g p) else g p,
    by unfold stampF; simp only [clip3_ok, if_true], ?_⟩
  intro p hp
  by_cases h : os.inBox (p - st.start) = true
  · have h' := (clip3_inVol_iff st.start C os p hp).2 h
    simp only [h', if_true, clip3_toSub st.start C os p hp h', covers, h, Bool.true_and]
  · have h' : (clip3 st.start C os).inVol p = false := by
      cases e : (clip3 st.start C os).inVol p with
      | false => rfl
      | true => exact absurd ((clip3_inVol_iff st.start C os p hp).1 e) h
    have h2 : os.inBox (p - st.start) = false := by simpa using h
    simp [h', covers, h2]

theorem place_painter_aux (C os : Shape) (stamps : List (Stamp α)) : ∀ (g : V3 Int → α),
    ∃ g', placeAll C g os stamps = some g' ∧
      ∀ p, C.inBox p = true →
        g' p = match stamps.reverse.find? (fun st => covers os st p) with
               | some st => st.color
               | none => g p := by
  induction stamps with
  | nil => intro g; exact ⟨g, rfl, fun p _ => rfl⟩
  | cons st rest ih =>
    intro g
    obtain ⟨g1, e1, h1⟩ := stamp_spec_aux C os g st
    obtain ⟨g2, e2, h2⟩ := ih g1
    refine ⟨g2, by simp only [placeAll, e1, Option.bind_some, e2], ?_⟩
    intro p hp
    rw [h2 p hp, List.reverse_cons, List.find?_append]
    cases hf : List.find? (fun st => covers os st p) rest.reverse with
    | some x => rfl
    | none =>
      simp only [Option.none_or, List.find?_cons, List.find?_nil]
      rw [h1 p hp]
      cases covers os st p <;> rfl

end CryoCat.C14
