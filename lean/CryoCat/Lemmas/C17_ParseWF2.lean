import CryoCat.Lemmas.C17_ParseWF
/-! C17 — the class `textOk` is exact: a text the reader accepts yields a well-formed object *only if* it is in the
class (converse of `parse_wfb`; core Lean only). -/
namespace CryoCat.C17

theorem plainVal_of_stableVal (v : Val) (h : stableVal v = true) : plainVal v = true := by
  cases v with
  | int ds => rfl
  | flt i f =>
    simp only [stableVal, Bool.and_eq_true] at h
    exact h.2
  | text s => rfl
  | tilt n i f => simp [stableVal] at h

theorem plainVal_of_stableTilt (v : Val) (h : stableTilt v = true) : plainVal v = true := by
  cases v with
  | int ds => rfl
  | flt i f => simp [stableTilt] at h
  | text s => rfl
  | tilt n i f =>
    simp only [stableTilt, Bool.and_eq_true] at h
    exact h.2

/-- converse of `parseKV_good` -/
theorem kvOk_of_good (data : Bool) (l : Str) (kv : Str × Val) (h : parseKV l = some kv) (hg : kvGood data kv) : kvOk data l = true := by
  unfold parseKV at h
  unfold kvOk
  split at h
  · rename_i k v hs
    rw [hs]
    injection h with h
    subst h
    obtain ⟨hk, hv⟩ := hg
    rw [goodKey_iff] at hk
    obtain ⟨hne, _, _, hbr⟩ := hk
    simp only at hne hbr hv ⊢
    have h1 : (strip k).isEmpty = false := by simpa [List.isEmpty_iff] using hne
    rw [h1, hbr]
    simp only [Bool.not_false, Bool.and_self, Bool.true_and]
    by_cases hc : (data && strip k == Gen.C17.tiltKey) = true
    · simp only [hc, if_true] at hv ⊢
      cases ht : toTilt (classify v) with
      | none => rfl
      | some t => exact plainVal_of_stableTilt t (hv t ht)
    · simp only [hc, Bool.false_eq_true, if_false] at hv ⊢
      exact plainVal_of_stableVal _ hv
  · cases h

theorem parseHeader_ok : ∀ (ls : List Str) (ts : List Str) (info : List (Str × Val)),
    parseHeader ls = some (ts, info) → (∀ t ∈ ts, goodTitle t = true) → (∀ kv ∈ info, goodKey kv.1 = true ∧ stableVal kv.2 = true) →
    ∀ l ∈ ls, headerLineOk l = true
  | [], _, _, _, _, _, l, hl => by cases hl
  | x :: ls, ts, info, h, ht, hi, l, hl => by
    unfold parseHeader at h
    cases hr : parseHeader ls with
    | none => simp [hr] at h
    | some r =>
      obtain ⟨ts0, info0⟩ := r
      simp only [hr] at h
      by_cases hb : (['['].isPrefixOf x) = true
      · simp only [hb, if_true, Option.some.injEq, Prod.mk.injEq] at h
        obtain ⟨rfl, rfl⟩ := h
        rcases List.mem_cons.1 hl with e | e
        · subst e
          simp only [headerLineOk, hb, if_true]
          exact ht _ (by simp)
        · exact parseHeader_ok ls ts0 info0 hr (fun t h' => ht t (by simp [h'])) hi l e
      · have hb' : (['['].isPrefixOf x) = false := Bool.eq_false_iff.2 hb
        simp only [hb', Bool.false_eq_true, if_false] at h
        cases hkv : parseKV x with
        | none => simp [hkv] at h
        | some kv =>
          simp only [hkv] at h
          by_cases hany : (info0.any (fun e => e.1 == kv.1)) = true
          · simp [hany] at h
          · have hany' : (info0.any (fun e => e.1 == kv.1)) = false := Bool.eq_false_iff.2 hany
            simp only [hany', Bool.false_eq_true, if_false, Option.some.injEq, Prod.mk.injEq] at h
            obtain ⟨rfl, rfl⟩ := h
            rcases List.mem_cons.1 hl with e | e
            · subst e
              simp only [headerLineOk, hb', Bool.false_eq_true, if_false]
              apply kvOk_of_good false l kv hkv
              have := hi kv (by simp)
              simp only [kvGood, Bool.false_and, Bool.false_eq_true, if_false]
              exact this
            · exact parseHeader_ok ls ts0 info0 hr ht (fun kv' h' => hi kv' (by simp [h'])) l e

theorem parseBody_ok : ∀ (ls : List Str) (kvs : List (Str × Val)), parseBody ls = some kvs → (∀ kv ∈ kvs, kvGood true kv) →
    ∀ l ∈ ls, dataLineOk l = true
  | [], _, _, _, l, hl => by cases hl
  | x :: ls, kvs, h, hg, l, hl => by
    unfold parseBody at h
    cases hr : parseBody ls with
    | none => simp [hr] at h
    | some kvs0 =>
      simp only [hr] at h
      by_cases hb : (['['].isPrefixOf x) = true
      · simp [hb] at h
      · have hb' : (['['].isPrefixOf x) = false := Bool.eq_false_iff.2 hb
        simp only [hb', Bool.false_eq_true, if_false] at h
        cases hkv : parseKV x with
        | none => simp [hkv] at h
        | some kv =>
          simp only [hkv] at h
          by_cases hany : (kvs0.any (fun e => e.1 == kv.1)) = true
          · simp [hany] at h
          · have hany' : (kvs0.any (fun e => e.1 == kv.1)) = false := Bool.eq_false_iff.2 hany
            simp only [hany', Bool.false_eq_true, if_false, Option.some.injEq] at h
            subst h
            rcases List.mem_cons.1 hl with e | e
            · subst e
              have := kvOk_of_good true l kv hkv (hg kv (by simp))
              simp [dataLineOk, this]
            · exact parseBody_ok ls kvs0 hr (fun kv' h' => hg kv' (by simp [h'])) l e

/-- converse of `cells_good` -/
theorem kvs_good_of_cells : ∀ (kvs : List (Str × Val)) (cells : List Val), kvs.mapM convTilt = some cells →
    ((kvs.map (·.1)).zip cells).all (fun p => stableCell p.1 p.2) = true → (∀ kv ∈ kvs, goodKey kv.1 = true) →
    ∀ kv ∈ kvs, kvGood true kv
  | [], _, _, _, _, kv, hkv => by cases hkv
  | x :: kvs, cells, h, hall, hk, kv, hkv => by
    rw [List.mapM_cons] at h
    cases hc : convTilt x with
    | none => simp [hc] at h
    | some v =>
      cases hm : kvs.mapM convTilt with
      | none => simp [hc, hm] at h
      | some vs =>
        simp [hc, hm] at h
        subst h
        simp only [List.map_cons, List.zip_cons_cons, List.all_cons, Bool.and_eq_true] at hall
        rcases List.mem_cons.1 hkv with e | e
        · subst e
          refine ⟨hk _ (by simp), ?_⟩
          have hcell := hall.1
          unfold convTilt at hc
          unfold stableCell at hcell
          by_cases hkey : (kv.1 == Gen.C17.tiltKey) = true
          · simp only [hkey, if_true, Bool.true_and] at hc hcell ⊢
            intro t ht
            rw [hc] at ht
            injection ht with ht
            subst ht; exact hcell
          · have hkey' : (kv.1 == Gen.C17.tiltKey) = false := Bool.eq_false_iff.2 hkey
            simp only [hkey', Bool.false_eq_true, if_false, Bool.and_false, Option.some.injEq] at hc hcell ⊢
            subst hc; exact hcell
        · exact kvs_good_of_cells kvs vs hm hall.2 (fun kv' h' => hk kv' (by simp [h'])) kv e

theorem mkRow_ok (cols : List Str) (sec : List Str) (r : Row) (h : mkRow cols sec = some r)
    (hr : goodRow cols r = true) (hk : ∀ k ∈ cols, goodKey k = true) : ∀ l ∈ sec.drop 1, dataLineOk l = true := by
  unfold mkRow at h
  cases sec with
  | nil => simp at h
  | cons hd body =>
    simp only [List.drop_succ_cons, List.drop_zero]
    simp only at h
    cases hz : parseSecValue hd with
    | none => simp [hz] at h
    | some z =>
      cases hb : parseBody body with
      | none => simp [hz, hb] at h
      | some kvs =>
        simp only [hz, hb] at h
        by_cases hd1 : allDigits z = true
        · simp only [hd1, Bool.not_true, Bool.false_eq_true, if_false] at h
          by_cases hkk : (kvs.map (·.1) != cols) = true
          · simp [hkk] at h
          · have hk' : kvs.map (·.1) = cols := by simpa using hkk
            have hkf : (kvs.map (·.1) != cols) = false := Bool.eq_false_iff.2 hkk
            simp only [hkf, Bool.false_eq_true, if_false] at h
            cases hm : kvs.mapM convTilt with
            | none => simp [hm] at h
            | some cells =>
              simp only [hm, Option.some.injEq] at h
              subst h
              simp only [goodRow, Bool.and_eq_true] at hr
              have hall := hr.2
              rw [← hk'] at hall
              have hkeys : ∀ kv ∈ kvs, goodKey kv.1 = true := fun kv hkv => hk _ (by rw [← hk']; exact List.mem_map.2 ⟨kv, hkv, rfl⟩)
              exact parseBody_ok body kvs hb (kvs_good_of_cells kvs cells hm hall hkeys)
        · have hd1' : allDigits z = false := Bool.eq_false_iff.2 hd1
          simp [hd1'] at h

/-! ### every non-blank line of the image part lands in a section; every section starts with a bracket line -/

theorem secGo_cover (p : Str) : ∀ (ls cur : List Str) (l : Str), (l ∈ cur ∨ (l ∈ ls ∧ isBlank l = false)) →
    ∃ sec ∈ secGo p cur ls, l ∈ sec
  | [], cur, l, h => by
    rcases h with h | h
    · exact ⟨cur, by simp [secGo], h⟩
    · cases h.1
  | x :: ls, cur, l, h => by
    unfold secGo
    by_cases hc : (p.isPrefixOf x && !cur.isEmpty) = true
    · simp only [hc, if_true]
      rcases h with h | h
      · exact ⟨cur, by simp, h⟩
      · rcases List.mem_cons.1 h.1 with e | e
        · subst e
          simp only [h.2, Bool.false_eq_true, if_false]
          obtain ⟨sec, hs, hl⟩ := secGo_cover p ls [l] l (Or.inl (by simp))
          exact ⟨sec, List.mem_cons_of_mem _ hs, hl⟩
        · obtain ⟨sec, hs, hl⟩ := secGo_cover p ls (if isBlank x = true then [] else [x]) l (Or.inr ⟨e, h.2⟩)
          exact ⟨sec, List.mem_cons_of_mem _ hs, hl⟩
    · simp only [hc, Bool.false_eq_true, if_false]
      rcases h with h | h
      · apply secGo_cover p ls _ l
        left
        by_cases hb : isBlank x = true
        · simp [hb, h]
        · simp [hb, h]
      · rcases List.mem_cons.1 h.1 with e | e
        · subst e
          apply secGo_cover p ls _ l
          left; simp [h.2]
        · exact secGo_cover p ls _ l (Or.inr ⟨e, h.2⟩)

theorem bracket_of_prefix (sid x : Str) (h : ('[' :: sid).isPrefixOf x = true) : (['['].isPrefixOf x) = true := by
  cases x with
  | nil => simp [List.isPrefixOf] at h
  | cons c t =>
    simp only [List.isPrefixOf, Bool.and_eq_true, beq_iff_eq] at h
    have := h.1
    subst this
    simp [List.isPrefixOf]

theorem not_blank_of_bracket (x : Str) (h : (['['].isPrefixOf x) = true) : isBlank x = false := by
  cases x with
  | nil => simp [List.isPrefixOf] at h
  | cons c t =>
    have : c = '[' := by
      simp only [List.isPrefixOf, Bool.and_eq_true, beq_iff_eq] at h
      exact h.1.symm
    subst this
    exact not_blank_of_head _ '[' rfl (by decide)

theorem secGo_heads (sid : Str) : ∀ (ls cur : List Str), (∃ h t, cur = h :: t ∧ (['['].isPrefixOf h) = true) →
    ∀ sec ∈ secGo ('[' :: sid) cur ls, ∃ h t, sec = h :: t ∧ (['['].isPrefixOf h) = true
  | [], cur, hc, sec, hs => by
    simp only [secGo, List.mem_cons, List.not_mem_nil, or_false] at hs
    subst hs; exact hc
  | x :: ls, cur, hc, sec, hs => by
    unfold secGo at hs
    by_cases hcond : (('[' :: sid).isPrefixOf x && !cur.isEmpty) = true
    · simp only [hcond, if_true, List.mem_cons] at hs
      rcases hs with hs | hs
      · subst hs; exact hc
      · have hpx : ('[' :: sid).isPrefixOf x = true := by
          simp only [Bool.and_eq_true] at hcond; exact hcond.1
        have hbx := bracket_of_prefix sid x hpx
        have hnb := not_blank_of_bracket x hbx
        simp only [hnb, Bool.false_eq_true, if_false] at hs
        exact secGo_heads sid ls [x] ⟨x, [], rfl, hbx⟩ sec hs
    · simp only [hcond, Bool.false_eq_true, if_false] at hs
      obtain ⟨h0, t0, rfl, hb0⟩ := hc
      by_cases hb : isBlank x = true
      · simp only [hb, if_true] at hs
        exact secGo_heads sid ls (h0 :: t0) ⟨h0, t0, rfl, hb0⟩ sec hs
      · simp only [hb, Bool.false_eq_true, if_false] at hs
        exact secGo_heads sid ls (h0 :: t0 ++ [x]) ⟨h0, t0 ++ [x], rfl, hb0⟩ sec hs

/-- **the class is exact**: if the reader accepts a text and returns a well-formed object, the text is in the class -/
theorem textOk_of_wfb (lines : List Str) (m : Mdoc) (h : parseMdoc lines = some m) (hw : wfb m = true) : textOk lines = true := by
  obtain ⟨first, rest, s0, secs, hd, hs, hh, hg, hcols, hcont, hm⟩ := parseMdoc_some lines m h
  have wf := wf_of_wfb m hw
  simp only [textOk, Bool.and_eq_true, List.all_eq_true]
  refine ⟨parseHeader_ok _ _ _ hh wf.titles wf.info, ?_⟩
  rw [hd]
  intro l hl
  by_cases hbl : isBlank l = true
  · simp [dataLineOk, hbl]
  by_cases hbr : (['['].isPrefixOf l) = true
  · simp [dataLineOk, hbr]
  have hbl' : isBlank l = false := Bool.eq_false_iff.2 hbl
  -- the first line is a section start: the loop begins with the section `[first]`
  have hsid := secStart_sid first m.sid hs
  have hfirst : ('[' :: m.sid).isPrefixOf first = true := by
    simp only [secStart, Gen.C17.sectionPrefixes, List.findSome?] at hs
    split at hs
    · rename_i hh'
      split at hh'
      · rename_i hp
        injection hh' with hh'; injection hs with hs
        rw [← hs, ← hh']; exact hp
      · cases hh'
    · split at hs
      · rename_i hh'
        split at hh'
        · rename_i hp
          injection hh' with hh'; injection hs with hs
          rw [← hs, ← hh']; exact hp
        · cases hh'
      · cases hs
  have hfb := bracket_of_prefix m.sid first hfirst
  have hfnb := not_blank_of_bracket first hfb
  have hstep : secGo ('[' :: m.sid) [] (first :: rest) = secGo ('[' :: m.sid) [first] rest := by
    simp [secGo, hfnb]
  obtain ⟨sec, hsec, hlsec⟩ := secGo_cover ('[' :: m.sid) (first :: rest) [] l (Or.inr ⟨hl, hbl'⟩)
  have hheads := secGo_heads m.sid rest [first] ⟨first, [], rfl, hfb⟩ sec (by rw [← hstep]; exact hsec)
  obtain ⟨h0, t0, rfl, hb0⟩ := hheads
  have hlt : l ∈ (h0 :: t0).drop 1 := by
    simp only [List.drop_succ_cons, List.drop_zero]
    rcases List.mem_cons.1 hlsec with e | e
    · subst e; exact absurd hb0 hbr
    · exact e
  -- the row made from this section
  rw [hg] at hsec
  obtain ⟨i, hi, hri⟩ := List.getElem_of_mem hsec
  obtain ⟨hlen, hget⟩ := mapM_some_spec _ _ _ hm
  obtain ⟨r, hr, hf⟩ := hget i _ (List.getElem?_eq_getElem hi)
  rw [hri] at hf
  have hrmem : r ∈ m.rows := List.mem_of_getElem? hr
  exact mkRow_ok m.cols _ r hf (wf.rows r hrmem) wf.colKeys l hlt

end CryoCat.C17
