import CryoCat.Model.C04_Star
import CryoCat.Lemmas.C04
import CryoCat.Lemmas.C02_Export
/-! C04 — bridge to C02: the concrete STAR layer `starWrite` / `starRead` (`Model/C04_Star.lean`)
round-trips STOPGAP tables, as a consequence of `C02.typed_roundtrip`. The hypotheses are stated
explicitly here (`Props/C04.lean` packs them into `StarWF`).

The C02 theorem is taken from `Lemmas/C02_Export.lean` (`C02.Export.typed_roundtrip`; same statement as
`C02.typed_roundtrip` of `Props/C02.lean`, which re-exports it), NOT from `Props/C02.lean`: the latter also holds
C02's translator obligations (`anchors_ok`, `*_documented` over every dump of `Gen/C02.lean`) and stops building when
any of them breaks — e.g. for an edit of the label numbering, of `remove_lines`, of the comment handling — while the
round trip C04 rests on is untouched; C04 must keep building then. Which regenerated literals of `Gen/C02.lean` the
round trip genuinely depends on is listed in the header of `Lemmas/C02_Export.lean`.

The printer `ren` is asked to print as well-formed NUMBER cells only the numbers that occur IN THE
TABLE WRITTEN (`hren` below), not every value of the type: a faithful printer of floats prints NaN as
`nan`, which the reader does not type as a number, so the round trip is claimed for tables without NaN
(the real `write_out` runs `fillna(0)` on the table first; the quantifier of C04 has finite values only).

Outside the proof stay only the two parameters `ren` (value ↦ printed digits: pandas `round(6)` +
Python `repr`) and `parse` (digits ↦ value: `pandas.to_numeric`); the cell conversion of the round
trip is their composition `fun v => parse (C02.cellText (ren v))`. -/
namespace CryoCat.C04
variable {α β : Type}

/-- every STOPGAP column name is found again by name -/
theorem SgField.ofName?_name (f : SgField) : SgField.ofName? f.name = some f := by cases f <;> decide

/-- every STOPGAP column name is a label the STAR writer can print (no blank, no `#`, no line break) -/
theorem SgField.name_colNameOk (f : SgField) : C02.ColNameOk f.name.toList := by cases f <;> decide

theorem colsOfNames_names (cols : List SgField) :
    colsOfNames (cols.map (fun f => f.name.toList)) = some cols := by
  induction cols with
  | nil => rfl
  | cons f fs ih =>
    simp only [List.map_cons, colsOfNames, String.ofList_toList, SgField.ofName?_name, ih]

/-- a printed cell is typed as a number by the reader iff it was a number: numbers are printed by
`ren` as number cells, the text cells of the table are no number tokens -/
theorem renderCell_isNumber (ren : α → C02.Cell)
    (c : Cell α) (hren : ∀ v, c = .num v → (ren v).isNumber = true)
    (hc : ∀ s, c = .str s → C02.isNumTok s.toList = false) :
    (renderCell ren c).isNumber = c.isNum := by
  cases c with
  | num v => exact hren v rfl
  | str s => simpa [renderCell, C02.Cell.isNumber, Cell.isNum] using hc s rfl

/-- decoding a printed row with the kinds of its own cells gives the row back, numbers passed
through print-then-parse, texts unchanged (no hypothesis) -/
theorem decode_row (ren : α → C02.Cell) (parse : C02.Word → β) (r : List (Cell α)) :
    List.zipWith (decodeCell parse) (r.map Cell.isNum) ((r.map (renderCell ren)).map C02.cellText)
      = r.map (Cell.map (fun v => parse (C02.cellText (ren v)))) := by
  induction r with
  | nil => rfl
  | cons c cs ih =>
    simp only [List.map_cons, List.zipWith_cons_cons, ih, List.cons.injEq, and_true]
    cases c with
    | num v => simp [decodeCell, Cell.isNum, renderCell, Cell.map]
    | str s => simp [decodeCell, Cell.isNum, renderCell, Cell.map, C02.cellText, String.ofList_toList]

section
variable (ren : α → C02.Cell) (spec : String) (t : SgTable α)
  (hren : ∀ r ∈ t.rows, ∀ v, Cell.num v ∈ r → C02.CellWF (ren v) ∧ (ren v).isNumber = true)
  (hspec : C02.CellOk spec.toList)
  (hcols : t.cols ≠ []) (hrows : t.rows ≠ [])
  (hlen : ∀ r ∈ t.rows, r.length = t.cols.length)
  (htxt : ∀ r ∈ t.rows, ∀ s, Cell.str s ∈ r → C02.CellOk s.toList ∧ C02.isNumTok s.toList = false)
  (hkind : ∀ r ∈ t.rows, r.map Cell.isNum = t.cols.map (fun f => f != SgField.halfset))

include hren hspec hcols hlen htxt in
/-- the table handed to the writer is one `C02.typed_roundtrip` speaks about -/
theorem renderTable_ok : C02.TBlockOk (renderTable ren spec t) := by
  refine ⟨hspec, by simpa [renderTable] using hcols, ?_, ?_⟩
  · intro c hc
    obtain ⟨f, _, rfl⟩ := List.mem_map.1 hc
    exact SgField.name_colNameOk f
  · intro r hr
    obtain ⟨r0, hr0, rfl⟩ := List.mem_map.1 hr
    refine ⟨by simpa [renderTable] using hlen r0 hr0, ?_⟩
    intro c hc
    obtain ⟨c0, hc0, rfl⟩ := List.mem_map.1 hc
    cases c0 with
    | num v => exact (hren r0 hr0 v hc0).1
    | str s => exact (htxt r0 hr0 s hc0).1

include hren hrows hlen htxt hkind in
/-- the reader types exactly the `halfset` column as text -/
theorem renderTable_kinds :
    C02.blockKinds C02.isNumTok (renderTable ren spec t).texts = t.cols.map (fun f => f != SgField.halfset) := by
  have hnum : ∀ r ∈ t.rows, ∀ c ∈ r, (renderCell ren c).isNumber = c.isNum := by
    intro r hr c hc
    exact renderCell_isNumber ren c (fun v hv => (hren r hr v (hv ▸ hc)).2) (fun s hs => (htxt r hr s (hs ▸ hc)).2)
  have hwf : ∀ r ∈ (renderTable ren spec t).rows, ∀ c ∈ r, C02.CellWF c := by
    intro r hr c hc
    obtain ⟨r0, hr0, rfl⟩ := List.mem_map.1 hr
    obtain ⟨c0, hc0, rfl⟩ := List.mem_map.1 hc
    cases c0 with
    | num v => exact (hren r0 hr0 v hc0).1
    | str s => exact (htxt r0 hr0 s hc0).1
  apply List.ext_getElem
  · simp [C02.blockKinds, renderTable, C02.TBlock.texts]
  · intro j h1 h2
    have hj : j < t.cols.length := by simpa using h2
    simp only [C02.blockKinds, List.getElem_map, List.getElem_range]
    -- the kind of column `j` in any row
    have hrow : ∀ r ∈ t.rows, ∃ h : j < r.length, r[j].isNum = (t.cols[j] != SgField.halfset) := by
      intro r hr
      have hl : j < r.length := by rw [hlen r hr]; exact hj
      refine ⟨hl, ?_⟩
      have := congrArg (fun l => l[j]?) (hkind r hr)
      simpa [List.getElem?_map, List.getElem?_eq_getElem hl, List.getElem?_eq_getElem hj] using this
    rw [Bool.eq_iff_iff]
    show C02.colNumeric C02.isNumTok ((renderTable ren spec t).rows.map (fun r => r.map C02.cellText)) j = true ↔ _
    rw [C02.typed_column _ j ?_ hwf]
    · constructor
      · rintro ⟨_, hall⟩
        obtain ⟨r0, rs, hr0⟩ := List.exists_cons_of_ne_nil hrows
        have hm : r0 ∈ t.rows := by rw [hr0]; simp
        obtain ⟨hl, he⟩ := hrow r0 hm
        rw [← he, ← hnum r0 hm _ (List.getElem_mem hl)]
        exact hall (r0.map (renderCell ren)) (List.mem_map.2 ⟨r0, hm, rfl⟩) _
          (by simp [List.getElem?_map, List.getElem?_eq_getElem hl])
      · intro hk
        refine ⟨by simpa [renderTable] using hrows, ?_⟩
        intro r hr c hc
        obtain ⟨r0, hr0, rfl⟩ := List.mem_map.1 hr
        obtain ⟨hl, he⟩ := hrow r0 hr0
        simp only [List.getElem?_map, List.getElem?_eq_getElem hl, Option.map_some, Option.some.injEq] at hc
        subst hc
        rw [hnum r0 hr0 _ (List.getElem_mem hl), he]; exact hk
    · intro r hr
      obtain ⟨r0, hr0, rfl⟩ := List.mem_map.1 hr
      simpa [hlen r0 hr0] using hj

include hren hspec hcols hrows hlen htxt hkind in
/-- **The concrete STAR layer round-trips a STOPGAP table** (consequence of `C02.typed_roundtrip`):
`read_in` of the text `write_out` produced finds the block, its 16 (or any) known column names in
order, and every row with its numbers passed through print-then-parse and its text cells unchanged. -/
theorem starRead_starWrite (parse : C02.Word → β) :
    starRead parse spec (starWrite ren spec t)
      = some { cols := t.cols, rows := t.rows.map (fun r => r.map (Cell.map (fun v => parse (C02.cellText (ren v))))) } := by
  have hok := renderTable_ok ren spec t hren hspec hcols hlen htxt
  have hrt := (C02.Export.typed_roundtrip true [renderTable ren spec t]
    (by intro b hb; rw [List.mem_singleton.1 hb]; exact hok) trivial).1
  have hk := renderTable_kinds ren spec t hren hrows hlen htxt hkind
  unfold starRead starWrite
  rw [hrt]
  have hfind : List.find? (fun b : C02.Block => b.name == spec.toList) ([renderTable ren spec t].map C02.TBlock.texts)
      = some (renderTable ren spec t).texts := by
    simp [renderTable, C02.TBlock.texts]
  simp only [hfind]
  have hc : colsOfNames (renderTable ren spec t).texts.cols = some t.cols := colsOfNames_names t.cols
  simp only [hc, hk, Option.some.injEq]
  congr 1
  simp only [renderTable, C02.TBlock.texts, List.map_map]
  apply List.map_congr_left
  intro r hr
  simp only [Function.comp]
  rw [← hkind r hr]
  exact decode_row ren parse r
end

end CryoCat.C04
